import LexVerif.Proof.WriteFloatAscii
/-!
# Proof.WriteFloatAlphabet — which bytes the decimal layout functions can emit (generic predicate version)
-/
namespace LexVerif.Proof.WriteFloatAlphabet
open LexVerif.Spec LexVerif.Model LexVerif.Model.WriteFloat LexVerif.Proof.WriteFloatAscii

def AllP (P : Nat → Prop) (l : List Nat) : Prop := ∀ b ∈ l, P b

variable {P : Nat → Prop}

@[simp] theorem allP_append_iff (a b : List Nat) : AllP P (a ++ b) ↔ AllP P a ∧ AllP P b := by
  unfold AllP
  constructor
  · intro h; exact ⟨fun x hx => h x (List.mem_append_left _ hx), fun x hx => h x (List.mem_append_right _ hx)⟩
  · rintro ⟨h1, h2⟩ x hx
    rcases List.mem_append.mp hx with h | h
    · exact h1 x h
    · exact h2 x h
@[simp] theorem allP_cons_iff (x : Nat) (l : List Nat) : AllP P (x :: l) ↔ P x ∧ AllP P l := by
  unfold AllP
  constructor
  · intro h; exact ⟨h x (List.mem_cons_self ..), fun y hy => h y (List.mem_cons_of_mem _ hy)⟩
  · rintro ⟨h1, h2⟩ y hy
    rcases List.mem_cons.mp hy with h | h
    · subst h; exact h1
    · exact h2 y h
@[simp] theorem allP_nil_iff : AllP P [] ↔ True := by unfold AllP; simp

theorem allP_zeros (h48 : P 48) (n : Nat) : AllP P (zeros n) := by
  intro b hb; unfold zeros at hb; rw [List.mem_replicate] at hb; rw [hb.2]; exact h48

theorem allP_chars (hdig : ∀ d, d < 10 → P (digitChar d)) {ds : List Nat} (h : Digs 10 ds) : AllP P (chars ds) := by
  intro b hb; unfold chars at hb
  obtain ⟨d, hd, rfl⟩ := List.mem_map.mp hb
  exact hdig d (h d hd)

/-- the positional layouts only emit decimal digit characters and the configured decimal point -/
theorem allP_writeNegative (hdig : ∀ d, d < 10 → P (digitChar d)) (ds : List Nat) (e : Int) (o : WOpts)
    (hd : Digs 10 ds) (hdp : P o.dp) : AllP P (writeNegative ds e o) := by
  unfold writeNegative
  have htr := truncateAndRound_digs ds o hd
  generalize truncateAndRound ds o = tr at htr
  obtain ⟨ds', c⟩ := tr
  simp only at htr ⊢
  have hc := allP_chars hdig htr
  have h48 : P 48 := hdig 0 (by omega)
  have h49 : P 49 := hdig 1 (by omega)
  have hz := fun n => allP_zeros h48 n
  repeat' split
  all_goals simp [hdp, hc, h48, h49, hz]

theorem allP_writePositive (hdig : ∀ d, d < 10 → P (digitChar d)) (ds : List Nat) (e : Int) (o : WOpts)
    (hd : Digs 10 ds) (hdp : P o.dp) : AllP P (writePositive ds e o) := by
  unfold writePositive
  have htr := roundPos_digs ds e o hd
  generalize roundPos ds e o = tr at htr
  obtain ⟨ds', c⟩ := tr
  simp only at htr ⊢
  have hc := allP_chars hdig htr
  have h1 := fun n => allP_chars hdig (digs_take n htr)
  have h2 := fun n => allP_chars hdig (digs_drop n htr)
  have h48 : P 48 := hdig 0 (by omega)
  have hz := fun n => allP_zeros h48 n
  repeat' split
  all_goals simp [hc, hdp, h1, h2, h48, hz]

end LexVerif.Proof.WriteFloatAlphabet
