import LexVerif.Proof.ParseIntArith
import Mathlib.Tactic.IntervalCases
/-!
# Proof.ParseInt — the loops of `Model.ParseInt` against the specification scan

* `charToDigit_eq` : the implementation's digit decoder is `Spec.digitVal` on bytes.
* `parse1Checked_spec`, `parse1Unchecked_spec` : checked tail / wrapping prefix = exact scan.
* `SwarCorrect r` : what the 4/8-digit SWAR kernels must satisfy; `loop8_spec`, `loop4_spec` :
  a multi-digit loop followed by the one-digit loop is the one-digit loop.
* `overflowDigits_safe` : `r ^ overflow_digits ≤ MAX + 1` for all 10 (bits, signed) pairs × 35 radices.
-/
namespace LexVerif.Proof.ParseInt
open LexVerif.Spec LexVerif.Model LexVerif.Model.ParseInt

/-! ### digits -/

theorem charToDigit_table :
    ((List.range 256).all fun c => (List.range 37).all fun r =>
      decide (2 ≤ r → charToDigit c r = digitVal r c)) = true := by decide +kernel

theorem charToDigit_eq {c r : Nat} (hc : c < 256) (h2 : 2 ≤ r) (hr : r ≤ 36) : charToDigit c r = digitVal r c := by
  have h := charToDigit_table
  rw [List.all_eq_true] at h
  have h1 := h c (List.mem_range.2 hc)
  rw [List.all_eq_true] at h1
  have h2' := h1 r (List.mem_range.2 (by omega))
  exact of_decide_eq_true h2' h2

theorem digitVal_lt {r c d : Nat} (h : digitVal r c = some d) : d < r := by
  unfold digitVal at h
  split at h
  · split at h
    · cases h; assumption
    · cases h
  · cases h

theorem charToDigit_valid {b r : Nat} (hr : r ≤ 10) (hv : 48 ≤ b ∧ b < 48 + r) : charToDigit b r = some (b - 48) := by
  unfold charToDigit
  have : (b + 256 - 48) % 256 = b - 48 := by omega
  simp only [hr, if_true, this]
  rw [if_pos (by omega)]

/-! ### range facts -/

theorem maxMag_false_le (t : IntTy) (neg : Bool) (hneg : neg = true → t.signed = true) :
    t.maxMag false ≤ t.maxMag neg := by
  cases neg with
  | false => exact Nat.le_refl _
  | true => unfold IntTy.maxMag; simp [hneg rfl]

/-- the ten (bits, signed) pairs behind the twelve integer types -/
def IsIntTy (t : IntTy) : Prop := t.bits = 8 ∨ t.bits = 16 ∨ t.bits = 32 ∨ t.bits = 64 ∨ t.bits = 128

theorem overflowDigits_table :
    ([8, 16, 32, 64, 128].all fun b => [false, true].all fun s => (List.range 37).all fun r =>
      decide (2 ≤ r → r ^ overflowDigits ⟨b, s⟩ r ≤ (IntTy.maxMag ⟨b, s⟩ false) + 1)) = true := by decide +kernel

/-- `overflow_digits` is safe: that many digits cannot leave the type's positive range -/
theorem overflowDigits_safe (t : IntTy) (ht : IsIntTy t) {r : Nat} (h2 : 2 ≤ r) (hr : r ≤ 36) :
    r ^ overflowDigits t r ≤ t.maxMag false + 1 := by
  have h := overflowDigits_table
  obtain ⟨b, s⟩ := t
  simp only [List.all_eq_true] at h
  have hb : b ∈ [8, 16, 32, 64, 128] := by
    unfold IsIntTy at ht; simp only at ht
    simp only [List.mem_cons, List.mem_nil_iff, or_false]; exact ht
  have hs : s ∈ [false, true] := by cases s <;> simp
  exact of_decide_eq_true (h b hb s hs r (List.mem_range.2 (by omega))) h2

/-! ### the checked loop -/

/-- how `algorithm!` ends after a digit loop: early return, or `into_ok!(value, buffer_length)` -/
def finish (t : IntTy) (len : Nat) : Flow (Nat × Nat) → MRes
  | .error e => e
  | .ok (v, _) => intoOk t v len

theorem intoOk_enc (t : IntTy) (hb : 1 ≤ t.bits) (neg : Bool) (hneg : neg = true → t.signed = true)
    {acc : Nat} (h : acc ≤ t.maxMag neg) (i : Nat) :
    intoOk t (enc t neg acc) i = .done (.ok (if neg then -(acc : Int) else acc) i) := by
  unfold intoOk; rw [toInt_enc t hb neg hneg h]; rfl

theorem parse1Checked_spec (t : IntTy) (hb : 8 ≤ t.bits) {r : Nat} (h2 : 2 ≤ r) (hr : r ≤ 36) (p neg : Bool)
    (hneg : neg = true → t.signed = true) :
    ∀ (cs : List Nat), (∀ b ∈ cs, b < 256) → ∀ (acc cur : Nat), acc ≤ t.maxMag neg →
      finish t (cur + cs.length) (parse1Checked t r p neg cs (enc t neg acc) cur)
        = .done (scanDigits r (t.maxMag neg) neg p cs acc cur) := by
  intro cs
  induction cs with
  | nil =>
    intro _ acc cur hacc
    simp only [parse1Checked, finish, scanDigits, List.length_nil, Nat.add_zero]
    exact intoOk_enc t (by omega) neg hneg hacc cur
  | cons c cs ih =>
    intro hbytes acc cur hacc
    have hc : c < 256 := hbytes c (by simp)
    have hcs : ∀ b ∈ cs, b < 256 := fun b hb' => hbytes b (by simp [hb'])
    simp only [parse1Checked, scanDigits]
    rw [charToDigit_eq hc h2 hr]
    cases hd : digitVal r c with
    | none =>
      simp only [finish, invalidDigit, Nat.add_sub_cancel]
      cases p
      · simp
      · simp only [if_true]; exact intoOk_enc t (by omega) neg hneg hacc cur
    | some d =>
      simp only
      rw [mulAddChecked_enc t hb neg hneg hacc hr (digitVal_lt hd)]
      by_cases hov : acc * r + d ≤ t.maxMag neg
      · have hnot : ¬ (acc * r + d > t.maxMag neg) := by omega
        simp only [if_pos hov, if_neg hnot]
        have := ih hcs (acc * r + d) (cur + 1) hov
        rw [List.length_cons, show cur + (cs.length + 1) = cur + 1 + cs.length by omega]
        exact this
      · have hgt : acc * r + d > t.maxMag neg := by omega
        simp only [if_neg hov, if_pos hgt, finish, Nat.add_sub_cancel]

/-! ### the wrapping one-digit loop -/

theorem parse1Unchecked_spec (t : IntTy) (hb : 1 ≤ t.bits) {r : Nat} (h2 : 2 ≤ r) (hr : r ≤ 36) (p neg : Bool)
    (hneg : neg = true → t.signed = true) (tail : List Nat) :
    ∀ (cs : List Nat), (∀ b ∈ cs, b < 256) → ∀ (acc cur j : Nat), acc < r ^ j →
      r ^ (j + cs.length) ≤ t.maxMag false + 1 →
      (∀ e, parse1Unchecked t r p neg cs (enc t neg acc) cur = .error e →
          e = .done (scanDigits r (t.maxMag neg) neg p (cs ++ tail) acc cur)) ∧
      (∀ v c, parse1Unchecked t r p neg cs (enc t neg acc) cur = .ok (v, c) →
          ∃ acc', v = enc t neg acc' ∧ c = cur + cs.length ∧ acc' ≤ t.maxMag neg ∧
            scanDigits r (t.maxMag neg) neg p (cs ++ tail) acc cur
              = scanDigits r (t.maxMag neg) neg p tail acc' c) := by
  intro cs
  induction cs with
  | nil =>
    intro _ acc cur j hacc hpow
    have hle := maxMag_false_le t neg hneg
    simp only [List.length_nil, Nat.add_zero] at hpow
    simp only [parse1Unchecked, List.nil_append, List.length_nil, Nat.add_zero]
    refine ⟨fun e h => (by cases h), fun v c h => ?_⟩
    injection h with h; injection h with hv hc
    exact ⟨acc, hv.symm, hc.symm, by omega, by rw [← hc]⟩
  | cons c cs ih =>
    intro hbytes acc cur j hacc hpow
    have hle := maxMag_false_le t neg hneg
    have hc : c < 256 := hbytes c (by simp)
    have hcs : ∀ b ∈ cs, b < 256 := fun b hb' => hbytes b (by simp [hb'])
    simp only [parse1Unchecked, List.cons_append, scanDigits]
    rw [charToDigit_eq hc h2 hr]
    have hj : r ^ j ≤ t.maxMag false + 1 :=
      Nat.le_trans (Nat.pow_le_pow_right (by omega) (by omega)) hpow
    cases hd : digitVal r c with
    | none =>
      simp only [invalidDigit, Nat.add_sub_cancel]
      refine ⟨fun e h => ?_, fun v c h => (by cases h)⟩
      injection h with h
      rw [← h]
      cases p
      · simp
      · simp only [if_true]; exact intoOk_enc t hb neg hneg (by omega) cur
    | some d =>
      simp only
      rw [mulAddWrapping_enc]
      have hdr : d < r := digitVal_lt hd
      have hlt : acc * r + d < r ^ (j + 1) := by
        have h1 : acc + 1 ≤ r ^ j := hacc
        calc acc * r + d < acc * r + r := by omega
          _ = (acc + 1) * r := by rw [Nat.add_mul]; simp
          _ ≤ r ^ j * r := Nat.mul_le_mul_right r h1
          _ = r ^ (j + 1) := by rw [Nat.pow_succ]
      have hpow' : r ^ (j + 1 + cs.length) ≤ t.maxMag false + 1 := by
        rw [List.length_cons] at hpow
        rwa [show j + 1 + cs.length = j + (cs.length + 1) by omega]
      have hj1 : r ^ (j + 1) ≤ t.maxMag false + 1 :=
        Nat.le_trans (Nat.pow_le_pow_right (by omega) (by omega)) hpow'
      have hnot : ¬ (acc * r + d > t.maxMag neg) := by omega
      simp only [if_neg hnot]
      have := ih hcs (acc * r + d) (cur + 1) (j + 1) hlt hpow'
      rw [List.length_cons, show cur + (cs.length + 1) = cur + 1 + cs.length by omega]
      exact this


/-! ### multi-digit loops -/

/-- What the SWAR kernels have to satisfy for radix `r` (proved in `Proof.ParseIntSwar` for `2 ≤ r ≤ 10`). -/
structure SwarCorrect (r : Nat) : Prop where
  is8 : ∀ bs : List Nat, bs.length = 8 → (∀ b ∈ bs, b < 256) →
    (is8digits r (leWord bs) = true ↔ ∀ b ∈ bs, 48 ≤ b ∧ b < 48 + r)
  parse8 : ∀ bs : List Nat, bs.length = 8 → (∀ b ∈ bs, 48 ≤ b ∧ b < 48 + r) →
    parse8digits r (leWord bs) = ofDigits r (bs.map (· - 48))
  is4 : ∀ bs : List Nat, bs.length = 4 → (∀ b ∈ bs, b < 256) →
    (is4digits r (leWord bs) = true ↔ ∀ b ∈ bs, 48 ≤ b ∧ b < 48 + r)
  parse4 : ∀ bs : List Nat, bs.length = 4 → (∀ b ∈ bs, 48 ≤ b ∧ b < 48 + r) →
    parse4digits r (leWord bs) = ofDigits r (bs.map (· - 48))

theorem foldl_horner (r : Nat) (ds : List Nat) (a : Nat) :
    ds.foldl (fun acc d => acc * r + d) a = a * r ^ ds.length + ds.foldl (fun acc d => acc * r + d) 0 := by
  induction ds generalizing a with
  | nil => simp
  | cons d ds ih =>
    simp only [List.foldl_cons, List.length_cons]
    rw [ih (a * r + d), ih (0 * r + d)]
    ring

theorem ofDigits_cons (r d : Nat) (ds : List Nat) : ofDigits r (d :: ds) = d * r ^ ds.length + ofDigits r ds := by
  unfold ofDigits
  simp only [List.foldl_cons]
  rw [foldl_horner]; simp

theorem ofDigits_lt (r : Nat) (ds : List Nat) (h : ∀ d ∈ ds, d < r) : ofDigits r ds < r ^ ds.length := by
  induction ds with
  | nil => simp [ofDigits]
  | cons d ds ih =>
    rw [ofDigits_cons, List.length_cons, Nat.pow_succ]
    have h1 := ih (fun x hx => h x (by simp [hx]))
    have h2 : d + 1 ≤ r := h d (by simp)
    calc d * r ^ ds.length + ofDigits r ds < d * r ^ ds.length + r ^ ds.length := by omega
      _ = (d + 1) * r ^ ds.length := by ring
      _ ≤ r * r ^ ds.length := Nat.mul_le_mul_right _ h2
      _ = r ^ ds.length * r := Nat.mul_comm _ _

/-- `n` valid digit bytes through the one-digit wrapping loop = one multiply-add by `r^n` -/
theorem parse1Unchecked_digits (t : IntTy) {r : Nat} (h10 : r ≤ 10) (p sub : Bool) (tl : List Nat) :
    ∀ (bs : List Nat), (∀ b ∈ bs, 48 ≤ b ∧ b < 48 + r) → ∀ (v cur : Nat), v < 2 ^ t.bits →
      parse1Unchecked t r p sub (bs ++ tl) v cur =
        parse1Unchecked t r p sub tl
          (ofInt t (if sub then (v : Int) * (r ^ bs.length : Nat) - (ofDigits r (bs.map (· - 48)) : Nat)
                    else (v : Int) * (r ^ bs.length : Nat) + (ofDigits r (bs.map (· - 48)) : Nat)))
          (cur + bs.length) := by
  intro bs
  induction bs with
  | nil =>
    intro _ v cur hv
    have : ofInt t (v : Int) = v := (eq_ofInt t hv (Int.ModEq.refl _)).symm
    cases sub <;> simp [ofDigits, this]
  | cons b bs ih =>
    intro hval v cur hv
    have hb := hval b (by simp)
    have hbs : ∀ x ∈ bs, 48 ≤ x ∧ x < 48 + r := fun x hx => hval x (by simp [hx])
    simp only [List.cons_append, parse1Unchecked]
    rw [charToDigit_valid h10 hb]
    simp only
    rw [mulAddWrapping_eq]
    rw [ih hbs _ _ (ofInt_lt _ _)]
    congr 1
    · apply ofInt_congr
      simp only [List.map_cons, ofDigits_cons, List.length_cons, List.length_map]
      have h1 := ofInt_modEq t (if sub = true then (v : Int) * ((r % 2 ^ t.bits : Nat) : Int) - ((b - 48 : Nat) : Int)
          else (v : Int) * ((r % 2 ^ t.bits : Nat) : Int) + ((b - 48 : Nat) : Int))
      have h2 : ((r % 2 ^ t.bits : Nat) : Int) ≡ (r : Int) [ZMOD ((2 ^ t.bits : Nat) : Int)] := natMod_modEq _ _
      cases sub with
      | false =>
        simp only [Bool.false_eq_true, if_false] at h1 ⊢
        have h3 := (h1.trans (((Int.ModEq.refl (v : Int)).mul h2).add_right _)).mul_right ((r ^ bs.length : Nat) : Int)
        refine (h3.add_right _).trans ?_
        push_cast; rw [pow_succ]; ring_nf; exact Int.ModEq.refl _
      | true =>
        simp only [if_true] at h1 ⊢
        have h3 := (h1.trans (((Int.ModEq.refl (v : Int)).mul h2).sub_right _)).mul_right ((r ^ bs.length : Nat) : Int)
        refine (h3.sub_right _).trans ?_
        push_cast; rw [pow_succ]; ring_nf; exact Int.ModEq.refl _
    · simp only [List.length_cons]; omega

theorem radix8_eq {r : Nat} (h : r ≤ 10) : radix8 r = r ^ 8 := by
  interval_cases r <;> rfl
theorem radix4_eq {r : Nat} (h : r ≤ 10) : radix4 r = r ^ 4 := by
  interval_cases r <;> rfl

theorem loop8_spec (t : IntTy) (hb : 64 ≤ t.bits) {r : Nat} (h10 : r ≤ 10) (hsw : SwarCorrect r)
    (p sub : Bool) (rest : List Nat) (v cur : Nat) :
    (∀ b ∈ rest, b < 256) → v < 2 ^ t.bits →
    (∀ e, loop8 t r sub rest v cur ≠ .error e) ∧
    (∀ rest' v' cur', loop8 t r sub rest v cur = .ok (rest', v', cur') →
      parse1Unchecked t r p sub rest' v' cur' = parse1Unchecked t r p sub rest v cur) := by
  fun_induction loop8 t r sub rest v cur with
  | case1 b0 b1 b2 b3 b4 b5 b6 b7 tl value cursor bytes h8 hlen =>
    simp only [List.length_cons] at hlen <;> omega
  | case2 b0 b1 b2 b3 b4 b5 b6 b7 tl value cursor bytes h8 hlen ih =>
    intro hbytes hv
    have hM : 2 ^ 64 ≤ 2 ^ t.bits := Nat.pow_le_pow_right (by omega) hb
    have hl : [b0, b1, b2, b3, b4, b5, b6, b7].length = 8 := rfl
    have hbl : ∀ b ∈ [b0, b1, b2, b3, b4, b5, b6, b7], b < 256 := by
      intro b hb'; apply hbytes; simp only [List.mem_cons, List.mem_nil_iff, or_false] at hb' ⊢
      omega
    have hvalid := (hsw.is8 _ hl hbl).1 h8
    have hparse := hsw.parse8 _ hl hvalid
    have htl : ∀ b ∈ tl, b < 256 := by
      intro b hb'; apply hbytes; simp [hb']
    have hD : ofDigits r ([b0, b1, b2, b3, b4, b5, b6, b7].map (· - 48)) < r ^ 8 := by
      have := ofDigits_lt r ([b0, b1, b2, b3, b4, b5, b6, b7].map (· - 48)) (by
        intro d hd
        simp only [List.mem_map] at hd
        obtain ⟨b, hb', rfl⟩ := hd
        have := hvalid b hb'; omega)
      simpa using this
    have hr8 : r ^ 8 ≤ 10 ^ 8 := Nat.pow_le_pow_left h10 8
    have key := parse1Unchecked_digits t h10 p sub tl [b0, b1, b2, b3, b4, b5, b6, b7] hvalid value cursor hv
    have hnew : mulAddWrapping t sub value (radix8 r % 2 ^ t.bits) (parse8digits r bytes % 2 ^ t.bits)
        = ofInt t (if sub then (value : Int) * (r ^ 8 : Nat) - (ofDigits r ([b0, b1, b2, b3, b4, b5, b6, b7].map (· - 48)) : Nat)
                    else (value : Int) * (r ^ 8 : Nat) + (ofDigits r ([b0, b1, b2, b3, b4, b5, b6, b7].map (· - 48)) : Nat)) := by
      rw [mulAddWrapping_eq, radix8_eq h10, Nat.mod_eq_of_lt (by omega)]
      show ofInt t (if sub = true then _ - ((parse8digits r (leWord [b0, b1, b2, b3, b4, b5, b6, b7]) % 2 ^ t.bits : Nat) : Int) else _ + ((parse8digits r (leWord [b0, b1, b2, b3, b4, b5, b6, b7]) % 2 ^ t.bits : Nat) : Int)) = _
      rw [hparse, Nat.mod_eq_of_lt (by omega)]
    have ih' := ih htl (by rw [hnew]; exact ofInt_lt _ _)
    refine ⟨ih'.1, fun rest' v' cur' h => ?_⟩
    rw [ih'.2 rest' v' cur' h, hnew]
    exact key.symm
  | case3 b0 b1 b2 b3 b4 b5 b6 b7 tl value cursor bytes h8 =>
    intro _ _
    refine ⟨fun e h => (by cases h), fun rest' v' cur' h => ?_⟩
    injection h with h; injection h with h1 h; injection h with h2 h3
    subst h1 h2 h3; rfl
  | case4 rest value cursor hne =>
    intro _ _
    refine ⟨fun e h => (by cases h), fun rest' v' cur' h => ?_⟩
    injection h with h; injection h with h1 h; injection h with h2 h3
    subst h1 h2 h3; rfl

theorem loop4_spec (t : IntTy) (hb : t.bits = 32) {r : Nat} (h10 : r ≤ 10) (hsw : SwarCorrect r)
    (p sub : Bool) (rest : List Nat) (v cur : Nat) :
    (∀ b ∈ rest, b < 256) → v < 2 ^ t.bits →
    (∀ e, loop4 t r sub rest v cur ≠ .error e) ∧
    (∀ rest' v' cur', loop4 t r sub rest v cur = .ok (rest', v', cur') →
      parse1Unchecked t r p sub rest' v' cur' = parse1Unchecked t r p sub rest v cur) := by
  fun_induction loop4 t r sub rest v cur with
  | case1 b0 b1 b2 b3 tl value cursor bytes h4 hlen =>
    simp only [List.length_cons] at hlen <;> omega
  | case2 b0 b1 b2 b3 tl value cursor bytes h4 hlen ih =>
    intro hbytes hv
    have hM : 2 ^ 32 ≤ 2 ^ t.bits := by rw [hb]
    have hl : [b0, b1, b2, b3].length = 4 := rfl
    have hbl : ∀ b ∈ [b0, b1, b2, b3], b < 256 := by
      intro b hb'; apply hbytes; simp only [List.mem_cons, List.mem_nil_iff, or_false] at hb' ⊢
      omega
    have hvalid := (hsw.is4 _ hl hbl).1 h4
    have hparse := hsw.parse4 _ hl hvalid
    have htl : ∀ b ∈ tl, b < 256 := by
      intro b hb'; apply hbytes; simp [hb']
    have hD : ofDigits r ([b0, b1, b2, b3].map (· - 48)) < r ^ 4 := by
      have := ofDigits_lt r ([b0, b1, b2, b3].map (· - 48)) (by
        intro d hd
        simp only [List.mem_map] at hd
        obtain ⟨b, hb', rfl⟩ := hd
        have := hvalid b hb'; omega)
      simpa using this
    have hr8 : r ^ 4 ≤ 10 ^ 4 := Nat.pow_le_pow_left h10 4
    have key := parse1Unchecked_digits t h10 p sub tl [b0, b1, b2, b3] hvalid value cursor hv
    have hnew : mulAddWrapping t sub value (radix4 r % 2 ^ t.bits) (parse4digits r bytes % 2 ^ t.bits)
        = ofInt t (if sub then (value : Int) * (r ^ 4 : Nat) - (ofDigits r ([b0, b1, b2, b3].map (· - 48)) : Nat)
                    else (value : Int) * (r ^ 4 : Nat) + (ofDigits r ([b0, b1, b2, b3].map (· - 48)) : Nat)) := by
      rw [mulAddWrapping_eq, radix4_eq h10, Nat.mod_eq_of_lt (by omega)]
      show ofInt t (if sub = true then _ - ((parse4digits r (leWord [b0, b1, b2, b3]) % 2 ^ t.bits : Nat) : Int) else _ + ((parse4digits r (leWord [b0, b1, b2, b3]) % 2 ^ t.bits : Nat) : Int)) = _
      rw [hparse, Nat.mod_eq_of_lt (by omega)]
    have ih' := ih htl (by rw [hnew]; exact ofInt_lt _ _)
    refine ⟨ih'.1, fun rest' v' cur' h => ?_⟩
    rw [ih'.2 rest' v' cur' h, hnew]
    exact key.symm
  | case3 b0 b1 b2 b3 tl value cursor bytes h4 =>
    intro _ _
    refine ⟨fun e h => (by cases h), fun rest' v' cur' h => ?_⟩
    injection h with h; injection h with h1 h; injection h with h2 h3
    subst h1 h2 h3; rfl
  | case4 rest value cursor hne =>
    intro _ _
    refine ⟨fun e h => (by cases h), fun rest' v' cur' h => ?_⟩
    injection h with h; injection h with h1 h; injection h with h2 h3
    subst h1 h2 h3; rfl

/-- `parse_digits_unchecked!` = the one-digit wrapping loop (the multi-digit loops only batch its steps).
`hmulti` : multi-digit parsing is only entered for a radix whose SWAR kernels are correct
(`can_try_parse_multidigits` guarantees `radix ≤ 10` under `power-of-two`; otherwise the format's radix is 10). -/
theorem parseDigitsUnchecked_eq (t : IntTy) {r : Nat} (feats : Features) (p nm sub : Bool)
    (hmulti : (canMulti feats r && !nm) = true → r ≤ 10 ∧ SwarCorrect r)
    (rest : List Nat) (cur bufLen v : Nat) (hbytes : ∀ b ∈ rest, b < 256) (hv : v < 2 ^ t.bits) :
    parseDigitsUnchecked t r feats p nm sub rest cur bufLen v = parse1Unchecked t r p sub rest v cur := by
  unfold parseDigitsUnchecked
  simp only
  by_cases hm : (canMulti feats r && !nm) = true
  · obtain ⟨h10, hsw⟩ := hmulti hm
    rw [hm]
    simp only [Bool.true_and]
    by_cases h8 : (decide (t.bits ≥ 64) && decide (bufLen ≥ 8)) = true
    · rw [if_pos h8]
      simp only [Bool.and_eq_true, decide_eq_true_eq] at h8
      have := loop8_spec t h8.1 h10 hsw p sub rest v cur hbytes hv
      cases hl : loop8 t r sub rest v cur with
      | error e => exact absurd hl (this.1 e)
      | ok x => obtain ⟨rest', v', cur'⟩ := x; exact this.2 rest' v' cur' hl
    · rw [if_neg h8]
      by_cases h4 : (decide (t.bits = 32) && decide (bufLen ≥ 4)) = true
      · rw [if_pos h4]
        simp only [Bool.and_eq_true, decide_eq_true_eq] at h4
        have := loop4_spec t h4.1 h10 hsw p sub rest v cur hbytes hv
        cases hl : loop4 t r sub rest v cur with
        | error e => exact absurd hl (this.1 e)
        | ok x => obtain ⟨rest', v', cur'⟩ := x; exact this.2 rest' v' cur' hl
      · rw [if_neg h4]
  · have hm' : (canMulti feats r && !nm) = false := by simpa using hm
    rw [hm']
    simp

end LexVerif.Proof.ParseInt
