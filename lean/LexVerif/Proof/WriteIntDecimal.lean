import LexVerif.Proof.WriteIntJeaiiiArms
import LexVerif.Proof.WriteIntApi
/-!
# Proof.WriteIntDecimal — `@10alex`, and the comparison trees `from_u8 … from_u64` of `jeaiii.rs`
-/
namespace LexVerif.Model.WriteInt
open LexVerif.Spec

/-! ## `write_n!(@2sub)`, `write_n!(@4sub)`, `write_digits!(@10alex)` -/

theorem wr2sub_spec (buf : Buf) (idx m : Nat) (hm : m < 100) (h2 : 2 ≤ idx) (hi : idx ≤ buf.length)
    (h64 : idx < 2 ^ 64) :
    wr2sub buf idx (2 * m) = .ok (splice buf (idx - 2) (pair 10 m), idx - 2) := by
  unfold wr2sub
  rw [subIdx_eq idx 2 h2 h64, wr2_spec buf (idx - 2) m hm (by omega), bind_ok]

theorem wr4sub_spec (buf : Buf) (idx v : Nat) (h4 : 4 ≤ idx) (hi : idx ≤ buf.length) (h64 : idx < 2 ^ 64) :
    wr4sub buf idx v =
      .ok (splice buf (idx - 4) (pair 10 (v % 10000 / 100) ++ pair 10 (v % 10000 % 100)), idx - 4) := by
  unfold wr4sub
  simp only [Lit.alex4, Lit.alex2]
  have e1 : 2 * (v % 10000 % 100) % 2 ^ 64 = 2 * (v % 10000 % 100) := by omega
  have e2 : 2 * (v % 10000 / 100) % 2 ^ 64 = 2 * (v % 10000 / 100) := by omega
  rw [e1, e2, wr2sub_spec buf idx _ (by omega) (by omega) hi h64, bind_ok]
  simp only []
  rw [wr2sub_spec _ (idx - 2) _ (by omega) (by omega)
    (by rw [splice_length _ _ _ (by simp [pair]; omega)]; omega) (by omega)]
  have := splice_prepend buf (idx - 4) (pair 10 (v % 10000 / 100)) (pair 10 (v % 10000 % 100))
    (by simp [pair]; omega)
  have hl : (pair 10 (v % 10000 / 100)).length = 2 := rfl
  rw [hl] at this
  have e3 : idx - 4 + 2 = idx - 2 := by omega
  have e4 : idx - 2 - 2 = idx - 4 := by omega
  rw [e3] at this
  rw [e4, this]

theorem pad_step (j m : Nat) :
    (padDigits 10 (j + 2) m).map digitChar = (padDigits 10 j (m / 100)).map digitChar ++ pair 10 (m % 100) := by
  rw [padDigits_split 10 (by omega) 2 j m, List.map_append]
  have : (padDigits 10 2 (m % 10 ^ 2)).map digitChar = pair 10 (m % 100) := padDigits_two 10 _ (by omega)
  rw [this]

theorem pad10_pairs (lo : Nat) :
    (padDigits 10 10 lo).map digitChar =
      pairs [lo / 100000000 % 100, lo / 1000000 % 100, lo / 10000 % 100, lo / 100 % 100, lo % 100] := by
  have s8 := pad_step 8 lo
  have s6 := pad_step 6 (lo / 100)
  have s4 := pad_step 4 (lo / 100 / 100)
  have s2 := pad_step 2 (lo / 100 / 100 / 100)
  have s0 := pad_step 0 (lo / 100 / 100 / 100 / 100)
  have z : (padDigits 10 0 (lo / 100 / 100 / 100 / 100 / 100)).map digitChar = [] := rfl
  have d0 : lo / 100 / 100 / 100 / 100 % 100 = lo / 100000000 % 100 := by omega
  have d1 : lo / 100 / 100 / 100 % 100 = lo / 1000000 % 100 := by omega
  have d2 : lo / 100 / 100 % 100 = lo / 10000 % 100 := by omega
  rw [z, d0] at s0
  rw [d1] at s2
  rw [d2] at s4
  change (padDigits 10 (8 + 2) lo).map digitChar = _
  rw [s8]
  change (padDigits 10 (6 + 2) (lo / 100)).map digitChar ++ _ = _
  rw [s6]
  change ((padDigits 10 (4 + 2) (lo / 100 / 100)).map digitChar ++ _) ++ _ = _
  rw [s4]
  change (((padDigits 10 (2 + 2) (lo / 100 / 100 / 100)).map digitChar ++ _) ++ _) ++ _ = _
  rw [s2]
  change ((((padDigits 10 (0 + 2) (lo / 100 / 100 / 100 / 100)).map digitChar ++ _) ++ _) ++ _) ++ _ = _
  rw [s0]
  simp [pairs]

/-- `@10alex` writes the ten (zero padded) digits of `lo` at `offset` -/
theorem wd10alex_spec (buf : Buf) (lo off : Nat) (hlo : lo < 10000000000) (hb : off + 10 ≤ buf.length)
    (h64 : off + 10 < 2 ^ 64) :
    wd10alex buf lo off = .ok (splice buf off ((padDigits 10 10 lo).map digitChar), off + 10) := by
  have hu : (10 + off) % usz = off + 10 := by unfold usz; omega
  unfold wd10alex
  simp only [Lit.alex4, hu]
  rw [wr4sub_spec buf (off + 10) lo (by omega) hb h64, bind_ok]
  simp only []
  have hl1 : (splice buf (off + 10 - 4) (pair 10 (lo % 10000 / 100) ++ pair 10 (lo % 10000 % 100))).length
      = buf.length := splice_length _ _ _ (by simp [pair]; omega)
  rw [wr4sub_spec _ (off + 10 - 4) (lo / 10000) (by omega) (by rw [hl1]; omega) (by omega), bind_ok]
  simp only []
  have e0 : lo / 10000 / 10000 * 2 % 2 ^ 64 = 2 * (lo / 10000 / 10000) := by omega
  have hl2 : (splice (splice buf (off + 10 - 4) (pair 10 (lo % 10000 / 100) ++ pair 10 (lo % 10000 % 100)))
      (off + 10 - 4 - 4) (pair 10 (lo / 10000 % 10000 / 100) ++ pair 10 (lo / 10000 % 10000 % 100))).length
      = buf.length := by rw [splice_length _ _ _ (by rw [hl1]; simp [pair]; omega), hl1]
  rw [e0, wr2sub_spec _ (off + 10 - 4 - 4) (lo / 10000 / 10000) (by omega) (by omega) (by rw [hl2]; omega) (by omega),
    bind_ok]
  simp only []
  -- merge the three splices
  have i6 : off + 10 - 4 = off + 2 + 4 := by omega
  have i2 : off + 10 - 4 - 4 = off + 2 := by omega
  have i0 : off + 10 - 4 - 4 - 2 = off := by omega
  rw [i6, show off + 2 + 4 - 4 = off + 2 by omega, show off + 2 - 2 = off by omega]
  have m1 := splice_prepend buf (off + 2)
    (pair 10 (lo / 10000 % 10000 / 100) ++ pair 10 (lo / 10000 % 10000 % 100))
    (pair 10 (lo % 10000 / 100) ++ pair 10 (lo % 10000 % 100)) (by simp [pair]; omega)
  have hl4 : (pair 10 (lo / 10000 % 10000 / 100) ++ pair 10 (lo / 10000 % 10000 % 100)).length = 4 := rfl
  rw [hl4] at m1
  rw [m1]
  have m2 := splice_prepend buf off (pair 10 (lo / 10000 / 10000))
    ((pair 10 (lo / 10000 % 10000 / 100) ++ pair 10 (lo / 10000 % 10000 % 100)) ++
      (pair 10 (lo % 10000 / 100) ++ pair 10 (lo % 10000 % 100))) (by simp [pair]; omega)
  have hl5 : (pair 10 (lo / 10000 / 10000)).length = 2 := rfl
  rw [hl5] at m2
  rw [m2, pad10_pairs]
  have d0 : lo / 10000 / 10000 = lo / 100000000 % 100 := by omega
  have d1 : lo / 10000 % 10000 / 100 = lo / 1000000 % 100 := by omega
  have d2 : lo / 10000 % 10000 % 100 = lo / 10000 % 100 := by omega
  have d3 : lo % 10000 / 100 = lo / 100 % 100 := by omega
  have d4 : lo % 10000 % 100 = lo % 100 := by omega
  rw [d0, d1, d2, d3, d4]
  simp [pairs]

end LexVerif.Model.WriteInt

namespace LexVerif.Model.WriteInt
open LexVerif.Spec

/-! ## the comparison trees -/

theorem onSlice_arm (buffer : Buf) (N n : Nat) (f : Buf → Res (Buf × Nat)) (hN : N ≤ buffer.length)
    (hlen : (numeral 10 n).length ≤ N) (hf : ∀ buf : Buf, buf.length = N → ArmOK (f buf) buf n) :
    onSlice buffer N f = .ok (numeral 10 n ++ buffer.drop (numeral 10 n).length, (numeral 10 n).length) := by
  have hl : (buffer.take N).length = N := by simp [List.length_take]; omega
  unfold onSlice sliceTo
  rw [if_pos hN, bind_ok, hf _ hl, bind_ok]
  simp only [splice_zero]
  congr 2
  rw [List.append_assoc]
  congr 1
  have hb : buffer = buffer.take N ++ buffer.drop N := (List.take_append_drop N buffer).symm
  conv => rhs; rw [hb]
  rw [List.drop_append_of_le_length (by rw [hl]; exact hlen)]

theorem dec_len_le (n k : Nat) (hk : 1 ≤ k) (h : n < 10 ^ k) : (numeral 10 n).length ≤ k := by
  rw [numeral_length]; exact toDigits_length_le 10 n k (by omega) hk h

theorem small4_spec (bits : Nat) (buf : Buf) (n : Nat) (hbits : 8 ≤ bits) (h : n < 10000)
    (hb : (numeral 10 n).length ≤ buf.length) : ArmOK (small4 bits buf n) buf n := by
  unfold small4
  simp only [Lit.t2, Lit.t1, ge_iff_le]
  by_cases h2 : 100 ≤ n
  · rw [if_pos h2]; exact wd34_spec buf n h2 h hb
  · rw [if_neg h2]
    by_cases h1 : 10 ≤ n
    · rw [if_pos h1]; exact wd2_spec bits buf n hbits h1 (by omega) hb
    · rw [if_neg h1]; exact wd1_spec buf n (by omega) hb

theorem mid10_spec (buf : Buf) (n : Nat) (h1 : 10000 ≤ n) (h2 : n < 10000000000)
    (hb : (numeral 10 n).length ≤ buf.length) : ArmOK (mid10 buf n) buf n := by
  unfold mid10
  simp only [Lit.t9, Lit.t8, Lit.t6, ge_iff_le]
  by_cases c9 : 1000000000 ≤ n
  · rw [if_pos c9]; exact wd10u64_spec buf n c9 h2 hb
  · rw [if_neg c9]
    by_cases c8 : 100000000 ≤ n
    · rw [if_pos c8]; exact wd9_spec buf n c8 (by omega) hb
    · rw [if_neg c8]
      by_cases c6 : 1000000 ≤ n
      · rw [if_pos c6]; exact wd78_spec buf n c6 (by omega) hb
      · rw [if_neg c6]; exact wd56_spec buf n h1 (by omega) hb

theorem fromU8_spec (n : Nat) (hn : n < 256) : MantSpec (fromU8 n) (numeral 10 n) 3 := by
  intro buffer hb
  unfold fromU8
  simp only [Lit.sliceU8, Lit.t2, Lit.t1, ge_iff_le]
  apply onSlice_arm buffer 3 n _ hb (dec_len_le n 3 (by omega) (by omega))
  intro buf hl
  have hbl : (numeral 10 n).length ≤ buf.length := by rw [hl]; exact dec_len_le n 3 (by omega) (by omega)
  by_cases h2 : 100 ≤ n
  · rw [if_pos h2]; exact wd3_spec buf n h2 (by omega) hbl
  · rw [if_neg h2]
    by_cases h1 : 10 ≤ n
    · rw [if_pos h1]; exact wd2_spec 8 buf n (by omega) h1 (by omega) hbl
    · rw [if_neg h1]; exact wd1_spec buf n (by omega) hbl

theorem fromU16_spec (n : Nat) (hn : n < 65536) : MantSpec (fromU16 n) (numeral 10 n) 5 := by
  intro buffer hb
  unfold fromU16
  simp only [Lit.sliceU16, Lit.t4, Lit.t2, Lit.t1, ge_iff_le]
  apply onSlice_arm buffer 5 n _ hb (dec_len_le n 5 (by omega) (by omega))
  intro buf hl
  have hbl : (numeral 10 n).length ≤ buf.length := by rw [hl]; exact dec_len_le n 5 (by omega) (by omega)
  by_cases h4 : 10000 ≤ n
  · rw [if_pos h4]; exact wd5_spec buf n h4 (by omega) hbl
  · rw [if_neg h4]
    by_cases h2 : 100 ≤ n
    · rw [if_pos h2]; exact wd34_spec buf n h2 (by omega) hbl
    · rw [if_neg h2]
      by_cases h1 : 10 ≤ n
      · rw [if_pos h1]; exact wd2_spec 16 buf n (by omega) h1 (by omega) hbl
      · rw [if_neg h1]; exact wd1_spec buf n (by omega) hbl

theorem fromU32_spec (n : Nat) (hn : n < 4294967296) : MantSpec (fromU32 n) (numeral 10 n) 10 := by
  intro buffer hb
  unfold fromU32
  simp only [Lit.sliceU32, Lit.t4, Lit.t8, Lit.t6, Lit.t9, ge_iff_le]
  apply onSlice_arm buffer 10 n _ hb (dec_len_le n 10 (by omega) (by omega))
  intro buf hl
  have hbl : (numeral 10 n).length ≤ buf.length := by rw [hl]; exact dec_len_le n 10 (by omega) (by omega)
  by_cases h4 : n < 10000
  · rw [if_pos h4]; exact small4_spec 32 buf n (by omega) h4 hbl
  · rw [if_neg h4]
    by_cases h8 : n < 100000000
    · rw [if_pos h8]
      by_cases h6 : 1000000 ≤ n
      · rw [if_pos h6]; exact wd78_spec buf n h6 h8 hbl
      · rw [if_neg h6]; exact wd56_spec buf n (by omega) (by omega) hbl
    · rw [if_neg h8]
      by_cases h9 : 1000000000 ≤ n
      · rw [if_pos h9]; exact wd10_spec buf n h9 hn hbl
      · rw [if_neg h9]; exact wd9_spec buf n (by omega) (by omega) hbl

/-- splitting off the ten low decimal digits -/
theorem numeral_hi_lo (n : Nat) (h : 10000000000 ≤ n) :
    numeral 10 n = numeral 10 (n / 10000000000) ++ (padDigits 10 10 (n % 10000000000)).map digitChar := by
  unfold numeral
  rw [toDigits_split 10 (by omega) 10 n (by simpa using h), List.map_append]

theorem splice_after (a cs : List Nat) (buf : Buf) :
    splice (a ++ buf.drop a.length) a.length cs = splice buf 0 (a ++ cs) := by
  unfold splice
  have h1 : (a ++ buf.drop a.length).take a.length = a := by simp
  have h2 : (a ++ buf.drop a.length).drop (a.length + cs.length) = buf.drop (a.length + cs.length) := by
    rw [List.drop_append]; simp [List.drop_drop]
  rw [h1, h2]; simp

end LexVerif.Model.WriteInt

namespace LexVerif.Model.WriteInt
open LexVerif.Spec

theorem armOK_of_mant (f : Buf → Res (Buf × Nat)) (n need : Nat) (h : MantSpec f (numeral 10 n) need) (buf : Buf)
    (hb : need ≤ buf.length) : ArmOK (f buf) buf n := by
  unfold ArmOK; rw [h buf hb, splice_zero]

/-- one `@10alex` step: if the high part `n / 10^10` has been written at offset 0, writing the ten digits of
`n % 10^10` after it yields the numeral of `n` -/
theorem alex_step (buf : Buf) (n : Nat) (r : Res (Buf × Nat)) (hr : ArmOK r buf (n / 10000000000))
    (hn : 10000000000 ≤ n) (hb : (numeral 10 n).length ≤ buf.length) (h64 : buf.length < 2 ^ 64) :
    ArmOK (r >>= fun w => wd10alex w.1 (n % 10000000000) w.2) buf n := by
  have hsplit := numeral_hi_lo n hn
  have hlen : (numeral 10 n).length = (numeral 10 (n / 10000000000)).length + 10 := by
    rw [hsplit]; simp
  unfold ArmOK at hr ⊢
  rw [hr, bind_ok]
  simp only [splice_zero]
  have hl : (numeral 10 (n / 10000000000) ++ buf.drop (numeral 10 (n / 10000000000)).length).length = buf.length := by
    simp; omega
  rw [wd10alex_spec _ (n % 10000000000) _ (Nat.mod_lt _ (by omega)) (by rw [hl]; omega) (by omega)]
  rw [splice_after, ← hsplit, splice_zero, hlen]

theorem fromU64Impl_spec (n : Nat) (isSigned : Bool) (hn : n < 2 ^ 64)
    (hs : isSigned = true → n < 10000000000000000000) :
    MantSpec (fun b => fromU64Impl n b isSigned) (numeral 10 n) (if isSigned then 19 else 20) := by
  intro buffer hb
  have hN : (if isSigned then Lit.sliceI64 else Lit.sliceU64) = (if isSigned then 19 else 20) := rfl
  have hlenN : (numeral 10 n).length ≤ (if isSigned = true then 19 else 20) := by
    cases isSigned with
    | true => exact dec_len_le n 19 (by omega) (by simpa using hs rfl)
    | false => exact dec_len_le n 20 (by omega) (by simp; omega)
  show fromU64Impl n buffer isSigned = _
  unfold fromU64Impl
  rw [hN]
  apply onSlice_arm buffer _ n _ hb hlenN
  intro buf hl
  have hbl : (numeral 10 n).length ≤ buf.length := by rw [hl]; exact hlenN
  have hl20 : 19 ≤ buf.length ∧ buf.length ≤ 20 := by rw [hl]; cases isSigned <;> simp
  have e4 : Lit.t4 = 10000 := rfl
  have e10 : Lit.t10 = 10000000000 := rfl
  by_cases h4 : n < Lit.t4
  · rw [if_pos h4]; exact small4_spec 64 buf n (by omega) (by omega) hbl
  · rw [if_neg h4]
    by_cases h10 : n < Lit.t10
    · rw [if_pos h10]; exact mid10_spec buf n (by omega) (by omega) hbl
    · rw [if_neg h10, e10]
      have hhi : n / 10000000000 % 2 ^ 32 = n / 10000000000 := by omega
      rw [hhi]
      exact alex_step buf n _ (armOK_of_mant (fromU32 _) _ 10 (fromU32_spec _ (by omega)) buf (by omega))
        (by omega) hbl (by omega)

theorem fromU64_spec (n : Nat) (hn : n < 2 ^ 64) : MantSpec (fromU64 n) (numeral 10 n) 20 :=
  fromU64Impl_spec n false hn (by simp)

theorem fromI64_spec (n : Nat) (hn : n < 10000000000000000000) : MantSpec (fromI64 n) (numeral 10 n) 19 :=
  fromU64Impl_spec n true (by omega) (fun _ => hn)

end LexVerif.Model.WriteInt
