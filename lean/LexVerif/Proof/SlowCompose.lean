import LexVerif.Proof.SlowNegative
import LexVerif.Proof.SlowTables
/-!
# Proof.SlowCompose — `digit_comp` = `parse_mantissa` then one of the two comparisons; auxiliary facts

* `digitComp_eq`: the `i32` exponent arithmetic of `digit_comp` does not wrap for sane inputs;
* `sig_head_ne_zero` / `sig_value_pos`: the big mantissa is non-zero as soon as there is a significant digit
  (`skip_zeros` removed the leading `b'0'` bytes);
* `scientificExponent_spec`: `scientific_exponent(num) = num.exponent + #digits(num.mantissa) − 1`.
-/
namespace LexVerif.Proof.Slow
open LexVerif.Spec LexVerif.Proof.Tables LexVerif.Model LexVerif.Model.Slow LexVerif.Model.Bellerophon
open LexVerif.Proof.RoundNE LexVerif.Proof.ExtRound

theorem digitComp_eq {E : Env} {F : FTy} {radix : Nat} (integer : List Nat) (fraction : Option (List Nat))
    (fp : ExtendedFloat80) (sciExp : Int) (maxDigits M c : Nat)
    (hpm : parseMantissa E radix maxDigits integer fraction = some (M, c)) (hc : c < 2 ^ 27)
    (hs1 : -(2 ^ 28 : Int) < sciExp) (hs2 : sciExp < 2 ^ 28) :
    digitComp E F radix integer fraction fp sciExp maxDigits =
      if sciExp + 1 - c ≥ 0 then positiveDigitComp E F radix M (sciExp + 1 - c)
      else negativeDigitComp E F radix M fp (sciExp + 1 - c) := by
  have h27 : (2 : Nat) ^ 27 = 134217728 := by norm_num
  have h28 : (2 : Int) ^ 28 = 268435456 := by norm_num
  have h31 : (2 : Int) ^ 31 = 2147483648 := by norm_num
  unfold digitComp
  rw [hpm]
  simp only [Option.bind_some]
  have e1 : wrapI32 (sciExp + 1) = sciExp + 1 := by apply wrapI32_eq <;> omega
  have e2 : wrapI32 ((c : Nat) : Int) = (c : Int) := by apply wrapI32_eq <;> omega
  have e3 : wrapI32 (sciExp + 1 - (c : Int)) = sciExp + 1 - c := by apply wrapI32_eq <;> omega
  rw [e1, e2, e3]

/-! ## the big mantissa is non-zero -/

theorem digitVal_ne_zero {c radix : Nat} (hc : c < 256) (h48 : c ≠ 48) : Binary.digitVal c radix ≠ 0 := by
  unfold Binary.digitVal
  split
  · omega
  · split
    · omega
    · split
      · omega
      · split <;> omega

theorem skipZeros_head : ∀ {bs : List Nat} {c : Nat} {cs : List Nat}, Binary.skipZeros bs = c :: cs → c ≠ 48
  | [], c, cs, h => by simp [Binary.skipZeros] at h
  | b :: bs, c, cs, h => by
    unfold Binary.skipZeros at h
    rw [List.dropWhile_cons] at h
    split at h
    · exact skipZeros_head (bs := bs) h
    · rename_i hb
      simp only [List.cons.injEq] at h
      rw [← h.1]; simpa using hb

theorem sigBytes_head {integer : List Nat} {fraction : Option (List Nat)} {c : Nat} {cs : List Nat}
    (h : sigBytes integer fraction = c :: cs) : c ≠ 48 := by
  unfold sigBytes at h
  cases fraction with
  | none => exact skipZeros_head h
  | some fr =>
    simp only at h
    split at h
    · exact skipZeros_head h
    · rename_i hne
      cases hi : Binary.skipZeros integer with
      | nil => exact absurd hi hne
      | cons a as =>
        rw [hi] at h
        simp only [List.cons_append, List.cons.injEq] at h
        rw [← h.1]; exact skipZeros_head hi

theorem ofDigits_pos_of_head {radix : Nat} (hr : 0 < radix) {d : Nat} (ds : List Nat) (hd : d ≠ 0) :
    0 < ofDigits radix (d :: ds) := by
  rw [ofDigits_cons]
  have : 0 < d * radix ^ ds.length := Nat.mul_pos (Nat.pos_of_ne_zero hd) (Nat.pow_pos hr)
  omega

/-- a non-empty significant digit string has a non-zero value, and so has every non-empty prefix -/
theorem sig_value_pos {radix : Nat} (hr : 0 < radix) {integer : List Nat} {fraction : Option (List Nat)}
    (hne : sigBytes integer fraction ≠ []) (hb : ∀ c ∈ sigBytes integer fraction, c < 256) (n : Nat) (hn : 0 < n) :
    0 < ofDigits radix (dv radix ((sigBytes integer fraction).take n)) := by
  cases hs : sigBytes integer fraction with
  | nil => exact absurd hs hne
  | cons c cs =>
    have h48 := sigBytes_head hs
    have hc : c < 256 := hb c (by rw [hs]; exact List.mem_cons_self ..)
    obtain ⟨n', rfl⟩ : ∃ n', n = n' + 1 := ⟨n - 1, by omega⟩
    simp only [List.take_succ_cons, dv, List.map_cons]
    exact ofDigits_pos_of_head hr _ (digitVal_ne_zero hc h48)

/-! ## `scientific_exponent` -/

theorem wrapI64_eq {x : Int} (h1 : -(2 ^ 63 : Int) ≤ x) (h2 : x < (2 ^ 63 : Int)) : wrapI64 x = x := by
  unfold wrapI64 wrapI
  have h64 : (2 : Int) ^ 64 = 18446744073709551616 := by norm_num
  have h63 : (2 : Int) ^ (64 - 1) = 9223372036854775808 := by norm_num
  have h63' : (2 : Int) ^ 63 = 9223372036854775808 := by norm_num
  simp only [h64, h63]
  rw [h63'] at h1 h2
  omega

/-- `while m >= d { m /= d; e += inc }` divides by `d^t` for the `t` that brings `m` below `d` -/
theorem divLoop_spec {d : Nat} (hd : 2 ≤ d) {inc : Int} (hi0 : 0 ≤ inc) (hi4 : inc ≤ 4) :
    ∀ (fuel m : Nat) (e : Int), m < 2 ^ fuel → -(2 ^ 60 : Int) ≤ e → e + 4 * fuel ≤ 2 ^ 60 →
      ∃ t, t ≤ fuel ∧ divLoop d inc fuel m e = (m / d ^ t, e + inc * t) ∧ m / d ^ t < d ∧ (1 ≤ m → 1 ≤ m / d ^ t)
  | 0, m, e, hm, _, _ => by
    have : m = 0 := by simpa using hm
    subst this
    exact ⟨0, Nat.le_refl _, by simp [divLoop], by simp; omega, by simp⟩
  | fuel + 1, m, e, hm, he1, he2 => by
    have h60 : (2 : Int) ^ 60 = 1152921504606846976 := by norm_num
    have h63 : (2 : Int) ^ 63 = 9223372036854775808 := by norm_num
    unfold divLoop
    by_cases hc : m ≥ d ∧ d ≥ 2
    · rw [if_pos hc]
      have hw : wrapI64 (e + inc) = e + inc := by apply wrapI64_eq <;> omega
      rw [hw]
      have hmd : m / d < 2 ^ fuel := by
        rw [Nat.div_lt_iff_lt_mul (by omega)]
        calc m < 2 ^ (fuel + 1) := hm
          _ = 2 ^ fuel * 2 := Nat.pow_succ ..
          _ ≤ 2 ^ fuel * d := Nat.mul_le_mul_left _ hd
      obtain ⟨t, ht, e1, e2, e3⟩ := divLoop_spec hd hi0 hi4 fuel (m / d) (e + inc) hmd (by omega) (by push_cast at he2 ⊢; omega)
      refine ⟨t + 1, by omega, ?_, ?_, ?_⟩
      · rw [e1, Nat.div_div_eq_div_mul, Nat.pow_succ, Nat.mul_comm d]
        congr 1; push_cast; ring
      · rw [Nat.pow_succ, Nat.mul_comm (d ^ t) d, ← Nat.div_div_eq_div_mul]; exact e2
      · intro _
        rw [Nat.pow_succ, Nat.mul_comm (d ^ t) d, ← Nat.div_div_eq_div_mul]
        exact e3 ((Nat.le_div_iff_mul_le (by omega)).mpr (by omega))
    · rw [if_neg hc]
      exact ⟨0, Nat.zero_le _, by simp, by simp; omega, by simp⟩

/-- **`scientific_exponent`**: for a non-zero `u64` mantissa and a sane exponent it returns
`exponent + ⌊log_radix mantissa⌋` — the weight of the leading digit of `mantissa · radix^exponent` -/
theorem scientificExponent_spec {radix : Nat} (hr : 2 ≤ radix) (hr36 : radix ≤ 36) {m : Nat} (hm1 : 1 ≤ m)
    (hm : m < 2 ^ 64) {e : Int} (he1 : -(2 ^ 30 : Int) ≤ e) (he2 : e ≤ 2 ^ 30) :
    ∃ T : Nat, radix ^ T ≤ m ∧ m < radix ^ (T + 1) ∧ scientificExponent radix m e = e + T := by
  have h30 : (2 : Int) ^ 30 = 1073741824 := by norm_num
  have h31 : (2 : Int) ^ 31 = 2147483648 := by norm_num
  have h60 : (2 : Int) ^ 60 = 1152921504606846976 := by norm_num
  have h64 : (2 : Nat) ^ 64 = 18446744073709551616 := by norm_num
  have hr2 : radix * radix < 2 ^ 64 := by
    have : radix * radix ≤ 36 * 36 := Nat.mul_le_mul hr36 hr36
    omega
  have hr4 : radix * radix * (radix * radix) < 2 ^ 64 := by
    have : radix * radix ≤ 36 * 36 := Nat.mul_le_mul hr36 hr36
    have : radix * radix * (radix * radix) ≤ 36 * 36 * (36 * 36) := Nat.mul_le_mul this this
    omega
  have hge4 : 2 ≤ radix * radix * (radix * radix) := by
    have : 2 * 2 ≤ radix * radix := Nat.mul_le_mul hr hr
    have : 4 * 4 ≤ radix * radix * (radix * radix) := Nat.mul_le_mul this this
    omega
  have hge2 : 2 ≤ radix * radix := by
    have : 2 * 2 ≤ radix * radix := Nat.mul_le_mul hr hr
    omega
  unfold scientificExponent
  dsimp only
  rw [wrap64_id hr2, wrap64_id hr4]
  obtain ⟨t4, ht4, a1, a2, a3⟩ := divLoop_spec hge4 (inc := 4) (by omega) (by omega) 64 m e hm (by omega) (by omega)
  rw [a1]
  dsimp only
  have hm1' : m / (radix * radix * (radix * radix)) ^ t4 < 2 ^ 64 := Nat.lt_of_le_of_lt (Nat.div_le_self _ _) hm
  obtain ⟨t2, ht2, b1, b2, b3⟩ := divLoop_spec hge2 (inc := 2) (by omega) (by omega) 64
    (m / (radix * radix * (radix * radix)) ^ t4) (e + 4 * t4) hm1' (by omega) (by push_cast; omega)
  rw [b1]
  dsimp only
  have hm2' : m / (radix * radix * (radix * radix)) ^ t4 / (radix * radix) ^ t2 < 2 ^ 64 :=
    Nat.lt_of_le_of_lt (Nat.div_le_self _ _) hm1'
  obtain ⟨t1, ht1, c1, c2, c3⟩ := divLoop_spec hr (inc := 1) (by omega) (by omega) 64
    (m / (radix * radix * (radix * radix)) ^ t4 / (radix * radix) ^ t2) (e + 4 * t4 + 2 * t2) hm2' (by omega)
    (by push_cast; omega)
  rw [c1]
  dsimp only
  -- the three quotients are one division by `radix^T`
  have hpow : (radix * radix * (radix * radix)) ^ t4 * (radix * radix) ^ t2 * radix ^ t1 =
      radix ^ (4 * t4 + 2 * t2 + t1) := by
    have e4 : radix * radix * (radix * radix) = radix ^ 4 := by ring
    have e2 : radix * radix = radix ^ 2 := by ring
    rw [e4, e2, ← Nat.pow_mul, ← Nat.pow_mul, ← Nat.pow_add, ← Nat.pow_add]
  have hq : m / (radix * radix * (radix * radix)) ^ t4 / (radix * radix) ^ t2 / radix ^ t1 =
      m / radix ^ (4 * t4 + 2 * t2 + t1) := by
    rw [Nat.div_div_eq_div_mul, Nat.div_div_eq_div_mul, ← Nat.mul_assoc, hpow]
  rw [hq] at c2 c3
  have hpos : 0 < radix ^ (4 * t4 + 2 * t2 + t1) := Nat.pow_pos (by omega)
  have hlow := c3 (b3 (a3 hm1))
  refine ⟨4 * t4 + 2 * t2 + t1, ?_, ?_, ?_⟩
  · have := (Nat.le_div_iff_mul_le hpos).mp hlow
    omega
  · rw [Nat.div_lt_iff_lt_mul hpos] at c2
    rw [Nat.pow_succ, Nat.mul_comm]; exact c2
  · have : wrapI32 (e + 4 * ↑t4 + 2 * ↑t2 + 1 * ↑t1) = e + 4 * ↑t4 + 2 * ↑t2 + 1 * ↑t1 := by
      apply wrapI32_eq <;> omega
    rw [this]; push_cast; ring

end LexVerif.Proof.Slow
