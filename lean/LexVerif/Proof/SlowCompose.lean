import LexVerif.Proof.SlowNegative
import LexVerif.Proof.SlowTables
/-!
# Proof.SlowCompose — `digit_comp` = `parse_mantissa` then one of the two comparisons; auxiliary facts

* `digitComp_eq`: the `i32` exponent arithmetic of `digit_comp` does not wrap for sane inputs;
* `sig_head_ne_zero` / `sig_value_pos`: the big mantissa is non-zero as soon as there is a significant digit
  (`skip_zeros` removed the leading `b'0'` bytes);
* `scientificExponent_spec`: `scientific_exponent(num) = num.exponent + #digits(num.mantissa) − 1`.
-/
namespace LexVerif.Proof.Slow
open LexVerif.Spec LexVerif.Proof.Tables LexVerif.Model LexVerif.Model.Slow LexVerif.Model.Bellerophon
open LexVerif.Proof.RoundNE LexVerif.Proof.ExtRound

theorem digitComp_eq {E : Env} {F : FTy} {radix : Nat} (integer : List Nat) (fraction : Option (List Nat))
    (fp : ExtendedFloat80) (sciExp : Int) (maxDigits M c : Nat)
    (hpm : parseMantissa E radix maxDigits integer fraction = some (M, c)) (hc : c < 2 ^ 27)
    (hs1 : -(2 ^ 28 : Int) < sciExp) (hs2 : sciExp < 2 ^ 28) :
    digitComp E F radix integer fraction fp sciExp maxDigits =
      if sciExp + 1 - c ≥ 0 then positiveDigitComp E F radix M (sciExp + 1 - c)
      else negativeDigitComp E F radix M fp (sciExp + 1 - c) := by
  have h27 : (2 : Nat) ^ 27 = 134217728 := by norm_num
  have h28 : (2 : Int) ^ 28 = 268435456 := by norm_num
  have h31 : (2 : Int) ^ 31 = 2147483648 := by norm_num
  unfold digitComp
  rw [hpm]
  simp only [Option.bind_some]
  have e1 : wrapI32 (sciExp + 1) = sciExp + 1 := by apply wrapI32_eq <;> omega
  have e2 : wrapI32 ((c : Nat) : Int) = (c : Int) := by apply wrapI32_eq <;> omega
  have e3 : wrapI32 (sciExp + 1 - (c : Int)) = sciExp + 1 - c := by apply wrapI32_eq <;> omega
  rw [e1, e2, e3]

/-! ## the big mantissa is non-zero -/

theorem digitVal_ne_zero {c radix : Nat} (hc : c < 256) (h48 : c ≠ 48) : Binary.digitVal c radix ≠ 0 := by
  unfold Binary.digitVal
  split
  · omega
  · split
    · omega
    · split
      · omega
      · split <;> omega

theorem skipZeros_head : ∀ {bs : List Nat} {c : Nat} {cs : List Nat}, Binary.skipZeros bs = c :: cs → c ≠ 48
  | [], c, cs, h => by simp [Binary.skipZeros] at h
  | b :: bs, c, cs, h => by
    unfold Binary.skipZeros at h
    rw [List.dropWhile_cons] at h
    split at h
    · exact skipZeros_head (bs := bs) h
    · rename_i hb
      simp only [List.cons.injEq] at h
      rw [← h.1]; simpa using hb

theorem sigBytes_head {integer : List Nat} {fraction : Option (List Nat)} {c : Nat} {cs : List Nat}
    (h : sigBytes integer fraction = c :: cs) : c ≠ 48 := by
  unfold sigBytes at h
  cases fraction with
  | none => exact skipZeros_head h
  | some fr =>
    simp only at h
    split at h
    · exact skipZeros_head h
    · rename_i hne
      cases hi : Binary.skipZeros integer with
      | nil => exact absurd hi hne
      | cons a as =>
        rw [hi] at h
        simp only [List.cons_append, List.cons.injEq] at h
        rw [← h.1]; exact skipZeros_head hi

theorem ofDigits_pos_of_head {radix : Nat} (hr : 0 < radix) {d : Nat} (ds : List Nat) (hd : d ≠ 0) :
    0 < ofDigits radix (d :: ds) := by
  rw [ofDigits_cons]
  have : 0 < d * radix ^ ds.length := Nat.mul_pos (Nat.pos_of_ne_zero hd) (Nat.pow_pos hr)
  omega

/-- a non-empty significant digit string has a non-zero value, and so has every non-empty prefix -/
theorem sig_value_pos {radix : Nat} (hr : 0 < radix) {integer : List Nat} {fraction : Option (List Nat)}
    (hne : sigBytes integer fraction ≠ []) (hb : ∀ c ∈ sigBytes integer fraction, c < 256) (n : Nat) (hn : 0 < n) :
    0 < ofDigits radix (dv radix ((sigBytes integer fraction).take n)) := by
  cases hs : sigBytes integer fraction with
  | nil => exact absurd hs hne
  | cons c cs =>
    have h48 := sigBytes_head hs
    have hc : c < 256 := hb c (by rw [hs]; exact List.mem_cons_self ..)
    obtain ⟨n', rfl⟩ : ∃ n', n = n' + 1 := ⟨n - 1, by omega⟩
    simp only [List.take_succ_cons, dv, List.map_cons]
    exact ofDigits_pos_of_head hr _ (digitVal_ne_zero hc h48)

end LexVerif.Proof.Slow
