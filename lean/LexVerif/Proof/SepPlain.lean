import LexVerif.Proof.SepFreeMany2
/-!
# Proof.SepPlain — the `*_nosep` canonical forms under the weaker hypothesis "`peek` of this component is plain on this
buffer" (`PlainPeek`): true on a buffer without the separator byte (any iterator) AND for a component without separator
flags (`noskip`, i.e. a contiguous iterator) on ANY buffer — the latter is what a format with separator flags on some
components only needs (a no-flag component treats the separator byte as an ordinary non-digit).
-/
set_option linter.unusedSimpArgs false
namespace LexVerif.Proof.Sep
open LexVerif LexVerif.Model LexVerif.Spec
open LexVerif.Props.C12

/-- `peek` of component `k` never skips on buffer `slc` -/
def PlainPeek (c : Cfg) (k : Comp) (slc : List Nat) : Prop :=
  ∀ b : Bytes, b.slc = slc → peek c k b = .ok (b.slc[b.index]?, b)

theorem plainPeek_nosep (c : Cfg) (k : Comp) (slc : List Nat) (hn : NoSep c slc) (hk : c.skip k ≠ .unreachable) :
    PlainPeek c k slc := fun b hb => peek_nosep c k b (by rw [hb]; exact hn) hk

theorem plainPeek_noskip (c : Cfg) (k : Comp) (slc : List Nat) (hk : c.skip k = .noskip) : PlainPeek c k slc := by
  intro b _; simp [Model.peek, hk]

theorem skip_of_contig (c : Cfg) (k : Comp) (h : c.iterContiguous k = true) : c.skip k = .noskip := by
  cases k with
  | special =>
    simp only [Cfg.iterContiguous, Bool.not_eq_true'] at h
    simp [Cfg.skip, h]
  | integer =>
    simp only [Cfg.iterContiguous, Bool.not_eq_true', SepFlags.any, Bool.or_eq_false_iff] at h
    obtain ⟨⟨⟨h1, h2⟩, h3⟩, h4⟩ := h
    generalize hx : c.sepFlags .integer = x at *
    obtain ⟨i, l, t, cc⟩ := x
    simp only at h1 h2 h3 h4
    subst h1 h2 h3 h4
    simp [Cfg.skip, hx, SepFlags.skip]
  | fraction =>
    simp only [Cfg.iterContiguous, Bool.not_eq_true', SepFlags.any, Bool.or_eq_false_iff] at h
    obtain ⟨⟨⟨h1, h2⟩, h3⟩, h4⟩ := h
    generalize hx : c.sepFlags .fraction = x at *
    obtain ⟨i, l, t, cc⟩ := x
    simp only at h1 h2 h3 h4
    subst h1 h2 h3 h4
    simp [Cfg.skip, hx, SepFlags.skip]
  | exponent =>
    simp only [Cfg.iterContiguous, Bool.not_eq_true', SepFlags.any, Bool.or_eq_false_iff] at h
    obtain ⟨⟨⟨h1, h2⟩, h3⟩, h4⟩ := h
    generalize hx : c.sepFlags .exponent = x at *
    obtain ⟨i, l, t, cc⟩ := x
    simp only at h1 h2 h3 h4
    subst h1 h2 h3 h4
    simp [Cfg.skip, hx, SepFlags.skip]

/-- `parse_digits` where `peek` is plain (release build) -/
theorem parseDigitsLoop_pk (c : Cfg) (k : Comp) (radix : Nat) (hd : c.debug = false) (slc : List Nat)
    (hp : PlainPeek c k slc) :
    ∀ (fuel : Nat) (b : Bytes), b.slc = slc → b.slc.length - b.index < fuel →
      parseDigitsLoop c k radix fuel b =
        .ok (digitsPrefix radix (b.slc.drop b.index),
             adv c k (digitsPrefix radix (b.slc.drop b.index)).length b) := by
  intro fuel
  induction fuel with
  | zero => intro b _ h; omega
  | succ n ih =>
    intro b hb hf
    unfold parseDigitsLoop
    rw [hp b hb]
    simp only [bind, Except.bind]
    cases hv : b.slc[b.index]? with
    | none => simp [drop_of_none hv, digitsPrefix, adv_zero, pure, Except.pure]
    | some ch =>
      have hlt : b.index < b.slc.length := (List.getElem?_eq_some_iff.mp hv).1
      simp only [drop_of_get hv, digitsPrefix]
      cases hdg : charToDigit ch radix with
      | none => simp [adv_zero, pure, Except.pure]
      | some d =>
        simp only [iterStep, stepUnchecked_release c _ b hd]
        have hi := incCount_spec c k { b with index := b.index + 1 }
        have hb2 : (Bytes.incCount c k { b with index := b.index + 1 }).slc = slc := by rw [hi.1]; exact hb
        have hf2 : (Bytes.incCount c k { b with index := b.index + 1 }).slc.length
            - (Bytes.incCount c k { b with index := b.index + 1 }).index < n := by
          rw [hi.1, hi.2]; simp only; omega
        rw [ih _ hb2 hf2, hi.1, hi.2]
        simp only [pure, Except.pure, List.length_cons, adv_succ]

theorem parseDigits_pk (c : Cfg) (k : Comp) (radix : Nat) (hd : c.debug = false) (b : Bytes)
    (hp : PlainPeek c k b.slc) :
    parseDigits c k radix b =
      .ok (digitsPrefix radix (b.slc.drop b.index), adv c k (digitsPrefix radix (b.slc.drop b.index)).length b) :=
  parseDigitsLoop_pk c k radix hd _ hp _ b rfl (by omega)

theorem readIfValueCased_pk (c : Cfg) (k : Comp) (v : Nat) (b : Bytes) (hd : c.debug = false)
    (hp : PlainPeek c k b.slc) :
    readIfValueCased c k v b =
      .ok (if b.slc[b.index]? = some v then (true, { b with index := b.index + 1 }) else (false, b)) := by
  unfold readIfValueCased
  rw [hp b rfl]
  simp only [bind, Except.bind, iterStep, stepUnchecked_release c _ b hd]
  by_cases h : b.slc[b.index]? = some v <;> simp [h, pure, Except.pure]

theorem skipZerosLoop_pk (c : Cfg) (k : Comp) (hd : c.debug = false) (slc : List Nat) (hp : PlainPeek c k slc) :
    ∀ (fuel : Nat) (b : Bytes), b.slc = slc → b.slc.length - b.index < fuel →
      skipZerosLoop c k fuel b = .ok (adv c k (zerosPrefix (b.slc.drop b.index)) b) := by
  intro fuel
  induction fuel with
  | zero => intro b _ h; omega
  | succ n ih =>
    intro b hb hf
    unfold skipZerosLoop
    rw [readIfValueCased_pk c k 48 b hd (by rw [hb]; exact hp)]
    simp only [bind, Except.bind]
    cases hv : b.slc[b.index]? with
    | none => simp [drop_of_none hv, zerosPrefix, adv_zero, pure, Except.pure]
    | some ch =>
      have hlt : b.index < b.slc.length := (List.getElem?_eq_some_iff.mp hv).1
      simp only [drop_of_get hv, zerosPrefix]
      by_cases h48 : ch = 48
      · subst h48
        simp only [if_true]
        have hi := incCount_spec c k { b with index := b.index + 1 }
        have hb2 : (Bytes.incCount c k { b with index := b.index + 1 }).slc = slc := by rw [hi.1]; exact hb
        have hf2 : (Bytes.incCount c k { b with index := b.index + 1 }).slc.length
            - (Bytes.incCount c k { b with index := b.index + 1 }).index < n := by
          rw [hi.1, hi.2]; simp only; omega
        rw [ih _ hb2 hf2, hi.1, hi.2]
        simp only [adv_succ]
      · simp [h48, adv_zero, pure, Except.pure]

theorem skipZeros_pk (c : Cfg) (k : Comp) (hd : c.debug = false) (b : Bytes) (hp : PlainPeek c k b.slc) :
    skipZeros c k b = .ok (Bytes.iterCount c k (adv c k (zerosPrefix (b.slc.drop b.index)) b) - Bytes.iterCount c k b,
      adv c k (zerosPrefix (b.slc.drop b.index)) b) := by
  unfold skipZeros
  rw [skipZerosLoop_pk c k hd _ hp (b.slc.length + 1) b rfl (by omega)]
  simp [bind, Except.bind, pure, Except.pure]

theorem u64Loop1_pk (c : Cfg) (k : Comp) (hd : c.debug = false) (slc : List Nat) (hp : PlainPeek c k slc) :
    ∀ (fuel : Nat) (b : Bytes) (m st : Nat), b.slc = slc → b.slc.length - b.index < fuel →
      u64Loop1 c k fuel b m st =
        .ok (adv c k (u64Spec c.mantissaRadix (b.slc.drop b.index) m st).1 b,
             (u64Spec c.mantissaRadix (b.slc.drop b.index) m st).2.1,
             (u64Spec c.mantissaRadix (b.slc.drop b.index) m st).2.2) := by
  intro fuel
  induction fuel with
  | zero => intro b _ _ _ h; omega
  | succ n ih =>
    intro b m st hb hf
    unfold u64Loop1
    rw [hp b hb]
    simp only [bind, Except.bind]
    cases hv : b.slc[b.index]? with
    | none => simp [drop_of_none hv, u64Spec, adv_zero, pure, Except.pure]
    | some ch =>
      have hlt : b.index < b.slc.length := (List.getElem?_eq_some_iff.mp hv).1
      simp only [drop_of_get hv, u64Spec]
      by_cases hst : st > 0
      · simp only [hst, if_true, hd, Bool.false_and, Bool.false_eq_true, if_false, iterStep,
          stepUnchecked_release c _ b hd]
        have hi := incCount_spec c k { b with index := b.index + 1 }
        have hb2 : (Bytes.incCount c k { b with index := b.index + 1 }).slc = slc := by rw [hi.1]; exact hb
        have hf2 : (Bytes.incCount c k { b with index := b.index + 1 }).slc.length
            - (Bytes.incCount c k { b with index := b.index + 1 }).index < n := by
          rw [hi.1, hi.2]; simp only; omega
        rw [ih _ _ _ hb2 hf2, hi.1, hi.2]
        simp only [adv_succ]
      · simp [hst, adv_zero, pure, Except.pure]

/-- `parse_u64_digits` where `peek` is plain -/
theorem parseU64_pk (c : Cfg) (k : Comp) (hS : RelClass c) (b : Bytes) (m st : Nat) (hp : PlainPeek c k b.slc) :
    parseU64Digits c k b m st =
      .ok (adv c k (u64Spec c.mantissaRadix (b.slc.drop b.index) m st).1 b,
           (u64Spec c.mantissaRadix (b.slc.drop b.index) m st).2.1,
           (u64Spec c.mantissaRadix (b.slc.drop b.index) m st).2.2) := by
  unfold parseU64Digits
  by_cases hm : (!c.feats.compact && canMultidigit c k) = true
  · have hr : c.mantissaRadix ≤ 10 := by
      simp only [canMultidigit, Bool.and_eq_true, Bool.or_eq_true, Bool.not_eq_true',
        decide_eq_true_eq] at hm
      rcases hm.2.2 with h | h
      · exact hS.radix h
      · exact h
    obtain ⟨j, m1, h1, h2⟩ := u64Loop8_spec c k hS.debug hr (b.slc.length + 1) b m st (by omega)
    simp only [hm, if_true, hS.debug, Bool.false_and, Bool.false_eq_true, if_false, h1, bind, Except.bind]
    rw [u64Loop1_pk c k hS.debug _ hp _ _ m1 (st - 8 * j) (by simp)
      (by simp only [adv_slc, adv_index]; omega)]
    simp only [adv_slc, adv_index, adv_add, h2]
    rw [Nat.add_comm (8 * j)]
  · simp only [hm, Bool.false_eq_true, if_false, pure, Except.pure, bind, Except.bind]
    exact u64Loop1_pk c k hS.debug _ hp _ b m st rfl (by omega)

/-- `parse_8digits` then `parse_digits` where `peek` is plain: the whole digit run, consumed and counted -/
theorem digitsRun_pk (c : Cfg) (k : Comp) (hS : RelClass c) (b : Bytes) (m : Nat) (hp : PlainPeek c k b.slc) :
    ∃ m1 b1 ds1, parse8Digits c k b m = .ok (m1, b1) ∧
      parseDigits c k c.mantissaRadix b1 =
        .ok (ds1, adv c k (digitsPrefix c.mantissaRadix (b.slc.drop b.index)).length b) ∧
      foldMantissa c.mantissaRadix m1 ds1
        = foldMantissa c.mantissaRadix m (digitsPrefix c.mantissaRadix (b.slc.drop b.index)) := by
  obtain ⟨j, m1, h1, h2, h3⟩ := parse8Digits_rel c k hS b m
  refine ⟨m1, _, _, h1, ?_, h3⟩
  rw [parseDigits_pk c k _ hS.debug _ (by simpa using hp)]
  simp only [adv_slc, adv_index, adv_add, h2]

end LexVerif.Proof.Sep
