import LexVerif.Proof.SlowNegative
/-!
# Proof.SlowRegimes — what the comparison-based slow paths need to know about the estimate, in one statement

`negative_digit_comp` and `byte_comp` both round the estimate down to a float `b`, compare the digits with `b + h`, and
round the estimate again with the outcome. For a normalised estimate that **weakly brackets** the value
(`b ≤ roundNE x ≤ b + 1` as bit patterns) there are `k`, `q` with `b = k·2^(p−1) + q` such that
`bh(b) = (2q + 1)·2^(k − bias)`, the final `round` returns `encode k (q + [round up])`, and `roundNE x` is that encoding
for the comparison of `x` with `(2q + 1)·2^k / 2^(L+1)` — in all three regimes: below the underflow cut (`k = q = 0`), a
finite `b`, and `b = +∞` (`k = 2^eb − 2`, `q = 2^(p−1)`; every outcome rounds to `+∞` again). (`roundFacts_of_weak`.)
-/
namespace LexVerif.Proof.Slow
open LexVerif.Spec LexVerif.Model LexVerif.Model.Slow LexVerif.Model.Bellerophon
open LexVerif.Proof.RoundNE LexVerif.Proof.ExtRound LexVerif.Proof.BinaryCorrect

structure RoundFacts (F : FTy) (p : Nat) (fp : ExtendedFloat80) (num den k q : Nat) : Prop where
  bits : extendedToFloat F (round F fp roundDown) = k * 2 ^ (p - 1) + q
  h1 : 0 < k → 2 ^ (p - 1) ≤ q
  qb : q < 2 * 2 ^ (p - 1)
  fin : k * 2 ^ (p - 1) + q ≤ F.fmt.infBits
  kb : (k : Int) < 2 ^ 20 + 64
  round : ∀ ord : Ordering,
    0 ≤ (round F fp (fun f s => roundNearestTieEven f s (fun isOdd _ _ => ordUp ord isOdd))).exp ∧
    extendedToFloat F (round F fp (fun f s => roundNearestTieEven f s (fun isOdd _ _ => ordUp ord isOdd))) =
      encode F.fmt k (q + if ordUp ord (decide (q % 2 = 1)) then 1 else 0)
  final : roundNE F.fmt num den = encode F.fmt k
    (q + if ordUp (compare (2 * (num * 2 ^ L F.fmt)) ((2 * q + 1) * 2 ^ k * den)) (decide (q % 2 = 1)) then 1 else 0)

/-- **the three regimes of the estimate** -/
theorem roundFacts_of_weak {F p eb} (lay : Layout F p eb) (fp : ExtendedFloat80) (hm1 : 2 ^ 63 ≤ fp.mant)
    (hm2 : fp.mant < 2 ^ 64) (hfe : fp.exp < 2 ^ 20) (num den : Nat) (hd : 0 < den)
    (hlo : extendedToFloat F (round F fp roundDown) ≤ roundNE F.fmt num den)
    (hhi : roundNE F.fmt num den ≤ extendedToFloat F (round F fp roundDown) + 1) :
    ∃ k q, RoundFacts F p fp num den k q := by
  have hp := lay.hp; have hp64 := lay.hp64; have heb := lay.heb; have heb15 := lay.heb15
  have hfp : F.fmt.p = p := by rw [lay.fmt]
  have hinfpos : 0 < F.fmt.infBits := infBits_pos lay.wf
  have h20 : (2 : Int) ^ 20 = 1048576 := by norm_num
  have hT := Nat.two_pow_pos (p - 1)
  by_cases hp2 : -fp.exp + 1 ≤ 64
  · obtain ⟨qa, qb, qc, qd, qe⟩ := quot_bounds hp (by omega) hm1 hm2 fp.exp hp2
    have hrd := round_down_bits lay fp hm1 hm2 hp2
    by_cases hov : F.fmt.infBits ≤ (fp.exp + 64 - p - 1).toNat * 2 ^ (p - 1) + fp.mant / 2 ^ shiftOf p fp.exp
    · -- `b = +∞`
      have hinf : F.fmt.infBits = (2 ^ eb - 1) * 2 ^ (p - 1) := by rw [lay.fmt]; rfl
      have heb4 : 4 ≤ 2 ^ eb := by
        calc 4 = 2 ^ 2 := rfl
          _ ≤ 2 ^ eb := Nat.pow_le_pow_right (by decide) heb
      have heb15' : 2 ^ eb ≤ 2 ^ 15 := Nat.pow_le_pow_right (by decide) heb15
      have h15 : (2 : Nat) ^ 15 = 32768 := by norm_num
      have hkq : (2 ^ eb - 2) * 2 ^ (p - 1) + 2 ^ (p - 1) = F.fmt.infBits := by
        rw [hinf, ← Nat.succ_mul]; congr 1; omega
      have henc : ∀ x, encode F.fmt (2 ^ eb - 2) (2 ^ (p - 1) + x) = F.fmt.infBits := by
        intro x
        unfold encode
        rw [hfp, if_pos (by omega)]
      have hbits : extendedToFloat F (round F fp roundDown) = F.fmt.infBits := by
        rw [hrd]; unfold encode; rw [hfp, if_pos hov]
      have hval : roundNE F.fmt num den = F.fmt.infBits := by
        have := roundNE_le_infBits lay.wf num hd
        rw [hbits] at hlo
        omega
      refine ⟨2 ^ eb - 2, 2 ^ (p - 1), by rw [hbits, hkq], fun _ => Nat.le_refl _, by omega, Nat.le_of_eq hkq,
        by omega, ?_, by rw [hval, henc]⟩
      intro ord
      obtain ⟨r1, r2⟩ := round_bits lay fp.mant fp.exp (fun isOdd _ _ => ordUp ord isOdd) hm1 hm2 hp2
      refine ⟨r1, ?_⟩
      rw [r2, henc]
      unfold encode
      rw [hfp, if_pos (by omega)]
    · -- finite
      have hfin : (fp.exp + 64 - p - 1).toNat * 2 ^ (p - 1) + fp.mant / 2 ^ shiftOf p fp.exp < F.fmt.infBits := by
        omega
      have hbits : extendedToFloat F (round F fp roundDown) =
          (fp.exp + 64 - p - 1).toNat * 2 ^ (p - 1) + fp.mant / 2 ^ shiftOf p fp.exp := by
        rw [hrd]; unfold encode; rw [hfp, if_neg (by omega)]
      refine ⟨_, _, hbits, fun h0 => (qa h0).2.1, qb, Nat.le_of_lt hfin, by omega, ?_, ?_⟩
      · intro ord
        obtain ⟨r1, r2⟩ := round_bits lay fp.mant fp.exp (fun isOdd _ _ => ordUp ord isOdd) hm1 hm2 hp2
        refine ⟨r1, ?_⟩
        rw [r2]
        unfold upOf
        rfl
      · rw [hbits] at hlo hhi
        exact roundNE_of_weak_bracket lay.wf hd _ _ (by rw [hfp]; exact fun h0 => (qa h0).2.1) (by rw [hfp]; exact qb)
          (by rw [hfp]; exact hfin) (by rw [hfp]; exact hlo) (by rw [hfp]; exact hhi)
  · -- below the underflow cut
    have hp2' : -fp.exp + 1 > 64 := by omega
    have hbits : extendedToFloat F (round F fp roundDown) = 0 * 2 ^ (p - 1) + 0 := by
      rw [round_roundDown F fp hm2, round_tiny lay fp.mant fp.exp _ hm2 hp2', upOf_false]
      simpa using ext_zero lay
    refine ⟨0, 0, hbits, by omega, by omega, by simpa using Nat.le_of_lt hinfpos, by omega, ?_, ?_⟩
    · intro ord
      rw [round_tiny lay fp.mant fp.exp _ hm2 hp2']
      have hu : upOf fp.mant 64 (fun isOdd _ _ => ordUp ord isOdd) =
          if ordUp ord (decide (0 % 2 = 1)) then 1 else 0 := by
        unfold upOf
        rw [Nat.div_eq_of_lt hm2]
      refine ⟨Int.le_refl _, ?_⟩
      rw [hu]
      have hinf2 : 2 ≤ F.fmt.infBits := by
        rw [infBits_eq, hfp]
        have hM3 := M_ge lay.wf
        have hT2 : 2 ≤ 2 ^ (p - 1) := by
          calc 2 = 2 ^ 1 := rfl
            _ ≤ 2 ^ (p - 1) := Nat.pow_le_pow_right (by decide) (by omega)
        calc 2 ≤ 2 ^ (p - 1) := hT2
          _ = 1 * 2 ^ (p - 1) := (Nat.one_mul _).symm
          _ ≤ F.fmt.maxExpField * 2 ^ (p - 1) := Nat.mul_le_mul_right _ (by omega)
      have hule : (if ordUp ord (decide (0 % 2 = 1)) then 1 else 0) ≤ 1 := by split <;> omega
      generalize (if ordUp ord (decide (0 % 2 = 1)) then 1 else 0) = u at hule ⊢
      rw [ext_small lay u hule]
      unfold encode
      rw [hfp, if_neg (by omega)]
      omega
    · rw [hbits] at hlo hhi
      exact roundNE_of_weak_bracket lay.wf hd 0 0 (by omega) (by rw [hfp]; omega) (by simpa using hinfpos)
        (by simpa using hlo) (by simpa using hhi)

end LexVerif.Proof.Slow
