import LexVerif.Proof.ParseIntFormatSimple
/-!
# Proof.ParseIntFormatPrefix — base prefix and `no_integer_leading_zeros` on formats with a contiguous integer iterator

`Simple c` (release, no integer separator flags, no base suffix), base prefix and leading-zero flag ARBITRARY:
`skip_zeros`, the prefix test and the leading-zero block are computed explicitly on the byte list, and the digit phase is
the digit phase of `Model.ParseInt` started behind the skipped zeros / the prefix (`afterSign`).
-/
namespace LexVerif.Proof.PIF
open LexVerif LexVerif.Spec LexVerif.Model LexVerif.Model.ParseIntFormat

/-- number of leading `'0'` bytes -/
def zerosOf : List Nat → Nat
  | [] => 0
  | x :: t => if x = 48 then zerosOf t + 1 else 0

theorem zerosOf_le (l : List Nat) : zerosOf l ≤ l.length := by
  induction l with
  | nil => simp [zerosOf]
  | cons x t ih => simp only [zerosOf, List.length_cons]; split <;> omega

variable {c : Cfg}

theorem Simple.incCount (h : Simple c) (b : Bytes) : b.incCount c .integer = { b with ic := b.ic + 1 } := by
  simp [Bytes.incCount, h.hf]

theorem skipZerosLoop_simple (hs : Simple c) : ∀ (fuel : Nat) (b : Bytes), zerosOf b.asSlice < fuel →
    skipZerosLoop c .integer fuel b =
      .ok { b with index := b.index + zerosOf b.asSlice, ic := b.ic + zerosOf b.asSlice } := by
  intro fuel
  induction fuel with
  | zero => intro b h; omega
  | succ n ih =>
    intro b hf
    unfold skipZerosLoop
    simp only [readIfValueCased, hs.peek, bind, Except.bind, pure, Except.pure]
    cases hg : b.slc[b.index]? with
    | none =>
      have : b.asSlice = [] := drop_of_none hg
      simp [this, zerosOf]
    | some x =>
      have hsl : b.asSlice = x :: b.slc.drop (b.index + 1) := drop_of_get hg
      by_cases hx : x = 48
      · subst hx
        have hz : zerosOf b.asSlice = zerosOf (b.slc.drop (b.index + 1)) + 1 := by rw [hsl]; simp [zerosOf]
        simp only [beq_self_eq_true, if_true, hs.iterStep, hs.incCount]
        have hlt : zerosOf (b.slc.drop (b.index + 1)) < n := by rw [hz] at hf; omega
        have := ih { b with index := b.index + 1, ic := b.ic + 1 } (by simp only [Bytes.asSlice]; exact hlt)
        simp only [Bytes.asSlice] at this
        rw [this, hz]
        simp only [Except.ok.injEq, Bytes.mk.injEq]
        refine ⟨trivial, ?_, ?_, trivial, trivial⟩ <;> omega
      · have hz : zerosOf b.asSlice = 0 := by rw [hsl]; simp [zerosOf, hx]
        have hne : (some x == some 48) = false := by simp [hx]
        simp [hne, hz]

theorem skipZeros_simple (hs : Simple c) (b : Bytes) :
    skipZeros c .integer b =
      .ok (zerosOf b.asSlice, { b with index := b.index + zerosOf b.asSlice, ic := b.ic + zerosOf b.asSlice }) := by
  have hle : zerosOf b.asSlice ≤ b.slc.length := by
    have := zerosOf_le b.asSlice
    simp only [Bytes.asSlice, List.length_drop] at this ⊢
    omega
  unfold skipZeros
  rw [skipZerosLoop_simple hs _ b (by omega)]
  simp [bind, Except.bind, pure, Except.pure, hs.count]

/-- `read_if_value(value, is_cased)`'s test on one byte -/
def matchVal (cased : Bool) (v x : Nat) : Bool := if cased then x == v else eqIgnoreCase x v

theorem readIfValue_simple (hs : Simple c) (v : Nat) (cased : Bool) (b : Bytes) :
    readIfValue c .integer v cased b =
      .ok (match b.slc[b.index]? with
           | some x => if matchVal cased v x then (true, { b with index := b.index + 1 }) else (false, b)
           | none => (false, b)) := by
  unfold readIfValue matchVal
  cases cased with
  | true =>
    simp only [if_true, readIfValueCased, hs.peek, bind, Except.bind, pure, Except.pure]
    cases hg : b.slc[b.index]? with
    | none => simp
    | some x =>
      by_cases hx : x = v
      · simp [hx, hs.iterStep]
      · have : (some x == some v) = false := by simp [hx]
        simp [this, hx]
  | false =>
    simp only [Bool.false_eq_true, if_false, readIfValueUncased, hs.peek, bind, Except.bind, pure, Except.pure]
    cases hg : b.slc[b.index]? with
    | none => simp
    | some x =>
      cases hm : eqIgnoreCase x v with
      | true => simp [hs.iterStep, hm]
      | false => simp [hm]

/-- the byte matches the configured base prefix (`read_if_value(base_prefix, case_sensitive_base_prefix)`) -/
def matchPrefix (c : Cfg) (x : Nat) : Bool := matchVal c.caseSensitiveBasePrefix c.fmt.basePrefix x

/-! ## the phases behind the sign -/

theorem readPrefix_simple (e : Env) (hs : Simple e.c) (s : List Nat) (k x z start : Nat) :
    readPrefix e ⟨s, k, x, 0, 0⟩ z start =
      if (e.c.fmt.basePrefix != 0 && z == 1 && (s[k]?).any (matchPrefix e.c)) = true then
        (if k + 1 ≥ s.length then .error (err "Empty" (k + 1)) else .ok (true, ⟨s, k + 1, x, 0, 0⟩, start + 1))
      else .ok (false, ⟨s, k, x, 0, 0⟩, start) := by
  have hbp : e.c.basePrefix = e.c.fmt.basePrefix := by simp [Cfg.basePrefix, hs.hf]
  unfold readPrefix
  rw [readIfValue_simple hs, hbp]
  by_cases hp : e.c.fmt.basePrefix = 0
  · simp [hp]
  · by_cases hz : z = 1
    · subst hz
      cases hg : s[k]? with
      | none => simp [hp]
      | some y =>
        cases hm : matchPrefix e.c y with
        | true =>
          have hm' : matchVal e.c.caseSensitiveBasePrefix e.c.fmt.basePrefix y = true := hm
          by_cases hemp : k + 1 ≥ s.length
          · simp [hp, hm, hm', Bytes.isBufferEmpty, Bytes.cursor, hemp]
          · simp [hp, hm, hm', Bytes.isBufferEmpty, Bytes.cursor, hemp]
        | false =>
          have hm' : matchVal e.c.caseSensitiveBasePrefix e.c.fmt.basePrefix y = false := hm
          simp [hp, hm, hm']
    · simp [hp, hz]

/-- outcome of the leading-zero block when it applies (`cursor = k`, `zeros = z ≤ k`, `z ≠ 0`) -/
def lzOutcome (e : Env) (s : List Nat) (k z : Nat) : Res :=
  if z > 1 then err "InvalidLeadingZeros" (k - z)
  else
    match s[k]? with
    | some ch =>
      match ParseInt.charToDigit ch e.radix with
      | some _ => err "InvalidLeadingZeros" (k - z)
      | none => if e.partial_ then .ok (0, k) else err "InvalidDigit" k
    | none => .ok (0, k)

theorem leadingZeroCheck_simple (e : Env) (hs : Simple e.c) (isPrefix : Bool) (s : List Nat) (k x z start : Nat)
    (hz : z ≤ k) :
    leadingZeroCheck e isPrefix ⟨s, k, x, 0, 0⟩ z start =
      if (!isPrefix && e.c.fmt.noIntegerLeadingZeros && z != 0) = true then .error (lzOutcome e s k z)
      else .ok (⟨s, k, x, 0, 0⟩, start) := by
  have hlz : e.c.flag Format.noIntegerLeadingZeros false = e.c.fmt.noIntegerLeadingZeros := by simp [Cfg.flag, hs.hf]
  unfold leadingZeroCheck
  rw [hlz]
  by_cases hcond : (!isPrefix && e.c.fmt.noIntegerLeadingZeros && z != 0) = true
  · have hz0 : z ≠ 0 := by simp only [Bool.and_eq_true, bne_iff_ne, ne_eq] at hcond; exact hcond.2
    have hs1 : usizeSub e.c.debug k z = .ok (k - z) := by simp only [usizeSub]; exact if_pos hz
    simp only [hcond, if_true, Bytes.cursor, hs1, hs.peek, lzOutcome]
    by_cases hz1 : z > 1
    · simp [hz1]
    · simp only [hz1, if_false]
      cases hg : s[k]? with
      | none => simp [intoOk, hs.count, toInt_zero]; omega
      | some ch =>
        simp only
        cases hd : ParseInt.charToDigit ch e.radix with
        | some d => simp
        | none =>
          have hs2 : usizeSub e.c.debug (k + 1) 1 = .ok k := by simp [usizeSub]
          simp only [invalidDigit, hs2, hs.count]
          cases e.partial_
          · simp
          · simp [intoOk, toInt_zero]; omega
  · simp [hcond]

/-- the digit phase of `Model.ParseInt` started at byte `k` of `s` -/
def digitsAt (e : Env) (neg : Bool) (s : List Nat) (k : Nat) : Res :=
  ofM (LexVerif.Proof.ParseInt.body e.c.feats e.t e.radix e.partial_ e.noMulti neg (s.drop k) k s.length)

/-- the base prefix was read: one `0`, then the prefix byte -/
def isPrefixAt (c : Cfg) (s : List Nat) (i0 : Nat) : Bool :=
  c.fmt.basePrefix != 0 && zerosOf (s.drop i0) == 1 && (s[i0 + 1]?).any (matchPrefix c)

/-- what `algorithm!` computes behind the sign (`i0` = bytes of sign consumed, `s.drop i0` non-empty) -/
def afterSign (e : Env) (neg : Bool) (s : List Nat) (i0 : Nat) : Res :=
  let z := zerosOf (s.drop i0)
  if e.c.fmt.basePrefix = 0 ∧ e.c.fmt.noIntegerLeadingZeros = false then digitsAt e neg s i0
  else if isPrefixAt e.c s i0 = true then
    (if i0 + 2 ≥ s.length then err "Empty" (i0 + 2) else digitsAt e neg s (i0 + 2))
  else if (e.c.fmt.noIntegerLeadingZeros && z != 0) = true then lzOutcome e s (i0 + z) z
  else digitsAt e neg s (i0 + z)

theorem digitsPhase_at (e : Env) (hs : Simple e.c) (neg : Bool) (s : List Nat) (k x : Nat) (start : Nat)
    (hk : k ≤ s.length) (hpos : 0 < s.length) :
    (match digitsPhase e neg ⟨s, k, x, 0, 0⟩ start with | .ok r => r | .error r => r) = digitsAt e neg s k :=
  digitsPhase_simple e hs neg ⟨s, k, x, 0, 0⟩ start hk hpos

theorem afterSign_eq (e : Env) (hs : Simple e.c) (neg : Bool) (s : List Nat) (i0 : Nat) (hi : i0 < s.length) :
    (match (match prefixZeros e ⟨s, i0, 0, 0, 0⟩ i0 with
            | .error r => .error r
            | .ok (b, startIndex) => digitsPhase e neg b startIndex : Flow Res) with
     | .ok r => r | .error r => r) = afterSign e neg s i0 := by
  have hbp : e.c.basePrefix = e.c.fmt.basePrefix := by simp [Cfg.basePrefix, hs.hf]
  have hlz : e.c.flag Format.noIntegerLeadingZeros false = e.c.fmt.noIntegerLeadingZeros := by simp [Cfg.flag, hs.hf]
  have hzle : zerosOf (s.drop i0) ≤ s.length - i0 := by have := zerosOf_le (s.drop i0); simpa using this
  unfold afterSign
  by_cases h0 : e.c.fmt.basePrefix = 0 ∧ e.c.fmt.noIntegerLeadingZeros = false
  · simp only [h0, and_self, if_true]
    rw [prefixZeros_none e hs h0.1 h0.2]
    exact digitsPhase_at e hs neg s i0 0 i0 (by omega) (by omega)
  · simp only [h0, if_false]
    have hcond : (decide (e.c.basePrefix ≠ 0) || e.c.flag Format.noIntegerLeadingZeros false) = true := by
      rw [hbp, hlz]
      by_cases hp : e.c.fmt.basePrefix = 0
      · have : e.c.fmt.noIntegerLeadingZeros = true := by
          cases hl : e.c.fmt.noIntegerLeadingZeros with
          | true => rfl
          | false => exact absurd ⟨hp, hl⟩ h0
        simp [this]
      · simp [hp]
    unfold prefixZeros
    simp only [hcond, if_true, skipZeros_simple hs, Bytes.asSlice]
    generalize hz : zerosOf (s.drop i0) = z at hzle ⊢
    rw [readPrefix_simple e hs]
    have hpa : isPrefixAt e.c s i0 = (e.c.fmt.basePrefix != 0 && z == 1 && (s[i0 + z]?).any (matchPrefix e.c)) := by
      unfold isPrefixAt; rw [hz]
      by_cases hz1 : z = 1
      · subst hz1; rfl
      · have hb : (z == 1) = false := beq_eq_false_iff_ne.mpr hz1
        simp only [hb, Bool.and_false, Bool.false_and]
    rw [hpa]
    by_cases hp1 : (e.c.fmt.basePrefix != 0 && z == 1 && (s[i0 + z]?).any (matchPrefix e.c)) = true
    · have hz1 : z = 1 := by
        simp only [Bool.and_eq_true, beq_iff_eq] at hp1; exact hp1.1.2
      subst hz1
      simp only [hp1, if_true]
      by_cases hemp : i0 + 1 + 1 ≥ s.length
      · have : i0 + 2 ≥ s.length := by omega
        simp [hemp, this]
      · have : ¬ (i0 + 2 ≥ s.length) := by omega
        simp only [hemp, if_false, this]
        rw [leadingZeroCheck_simple e hs true s _ _ _ _ (by omega)]
        simp only [Bool.not_true, Bool.false_and, Bool.false_eq_true, if_false]
        exact digitsPhase_at e hs neg s (i0 + 1 + 1) _ _ (by omega) (by omega)
    · simp only [hp1, Bool.false_eq_true, if_false]
      rw [leadingZeroCheck_simple e hs false s _ _ _ _ (by omega)]
      simp only [Bool.not_false, Bool.true_and]
      by_cases hl : (e.c.fmt.noIntegerLeadingZeros && z != 0) = true
      · simp [hl]
      · simp only [hl, Bool.false_eq_true, if_false]
        exact digitsPhase_at e hs neg s (i0 + z) _ _ (by omega) (by omega)

/-- **characterisation for a contiguous integer iterator without base suffix** (release build; base prefix,
`no_integer_leading_zeros`, sign and digit flags arbitrary): the two sign flags, the empty test, then `afterSign`. -/
theorem parseIntFormat_prefix_eq (e : Env) (hs : Simple e.c) (s : List Nat) :
    parseIntFormat e s =
      signGate e s
        (if signLen e.t s = s.length then (if e.requiredDigits = true then err "Empty" s.length else .ok (0, s.length))
         else afterSign e (decide (s.head? = some 45 ∧ e.t.signed = true)) s (signLen e.t s)) := by
  have hsl : signLen e.t s ≤ s.length := by
    unfold signLen hasSign; cases s <;> simp; split <;> omega
  simp only [parseIntFormat, algorithm, parseSign_simple e hs, signGate]
  by_cases h1 : s.head? = some 43 ∧ e.c.fmt.noPositiveMantissaSign = true
  · simp [h1, err]
  · simp only [h1, if_false]
    by_cases h2 : e.c.fmt.requiredMantissaSign = true ∧ hasSign e.t s = false
    · simp [h2, err]
    · simp only [h2, if_false, Bytes.isBufferEmpty, Bytes.cursor, ge_iff_le]
      by_cases hemp : s.length ≤ signLen e.t s
      · have heq : signLen e.t s = s.length := by omega
        simp only [hemp, decide_true, if_true, heq]
        cases hr : e.requiredDigits with
        | true => simp
        | false => simp [intoOk, hr, toInt_zero]
      · have hne : signLen e.t s ≠ s.length := by omega
        simp only [hemp, decide_false, Bool.false_eq_true, if_false, hne]
        exact afterSign_eq e hs _ s (signLen e.t s) (by omega)

end LexVerif.Proof.PIF
