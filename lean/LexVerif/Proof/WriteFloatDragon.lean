import LexVerif.Proof.WriteFloatCompact
/-!
# Proof.WriteFloatDragon — the buffer-faithful `algorithm.rs` layout functions write the list-level bytes
-/
namespace LexVerif.Proof.WriteFloatDragon
open LexVerif.Spec LexVerif.Model LexVerif.Model.WriteFloat LexVerif.Proof.WriteFloatBuf LexVerif.Proof.WriteFloatCompact
open LexVerif.Model.WriteInt (Res)

theorem writeNegative_eq (ds : List Nat) (e : Int) (o : WOpts) :
    writeNegative ds e o =
      (if (truncateAndRound ds o).2 = true ∧ e.natAbs = 1 then
        (if o.trim = true then [49] else [49, o.dp, 48] ++
          (if (truncateAndRound ds o).1.length + 1 < minExactDigits ((truncateAndRound ds o).1.length + 1) o then
            zeros (minExactDigits ((truncateAndRound ds o).1.length + 1) o - ((truncateAndRound ds o).1.length + 1))
           else []))
      else
        [48, o.dp] ++ zeros (if (truncateAndRound ds o).2 = true then e.natAbs - 2 else e.natAbs - 1)
          ++ chars (truncateAndRound ds o).1 ++
          (if (truncateAndRound ds o).1.length < minExactDigits (truncateAndRound ds o).1.length o then
            zeros (minExactDigits (truncateAndRound ds o).1.length o - (truncateAndRound ds o).1.length) else [])) := by
  unfold writeNegative
  generalize truncateAndRound ds o = tr
  obtain ⟨a, c⟩ := tr
  rfl

theorem negN_bytes (need : Nat) (ds : List Nat) (sciExp : Int) (o : WOpts) (b : WBuf) (r : Out) (hneg : sciExp < 0)
    (hds : 1 ≤ ds.length) (hmx : o.maxDigits ≠ some 0) (h : negN need ds sciExp o b = .ok r) :
    r.buf.bytes.take r.cursor = writeNegative ds sciExp o := by
  unfold negN at h
  rw [writeNegative_eq]
  obtain ⟨hl1, hl2, _, hcarry⟩ := truncateAndRound_length ds o hds hmx
  generalize truncateAndRound ds o = tr at h hl1 hl2 hcarry ⊢
  obtain ⟨ds', c⟩ := tr
  dsimp only at h hl1 hl2 hcarry ⊢
  have hk : 1 ≤ sciExp.natAbs := by omega
  generalize sciExp.natAbs = k at h hk ⊢
  simp only [bind_ok_iff, fill_ok_iff, demand_ok_iff, blit_ok_iff] at h
  obtain ⟨b1, ⟨h1, rfl⟩, u, h2, b2, ⟨h3, rfl⟩, b3, ⟨h4, rfl⟩, h5⟩ := h
  simp only [put_len, put_length, WBuf.len, chars_length] at h1 h2 h3 h4
  have hD : (chars ds).length = ds.length := chars_length ds
  generalize chars ds = D at hD h5 ⊢
  by_cases c1 : c = true
  · subst c1
    have := hcarry rfl
    subst this
    by_cases c2 : k + 1 = 2
    · have hk1 : k = 1 := by omega
      subst hk1
      simp only [and_self, ↓reduceIte, bind_ok_iff, set_ok_iff] at h5 ⊢
      obtain ⟨b4, ⟨h6, rfl⟩, h7⟩ := h5
      by_cases c3 : o.trim = true
      · simp only [c3, ↓reduceIte, Res.ok.injEq] at h7 ⊢
        subst h7
        simp only [put_len, put_length, WBuf.len] at h6
        finish_bytes
      · simp only [c3, ↓reduceIte, Bool.false_eq_true, bind_ok_iff, set_ok_iff, padZeros_ok_iff] at h7 ⊢
        obtain ⟨b5, ⟨h8, rfl⟩, b6, ⟨h9, rfl⟩, h10⟩ := h7
        simp only [put_len, put_length, WBuf.len, chars, List.length_cons, List.length_nil, List.map] at h6 h8 h9 h10 ⊢
        by_cases c4 : 0 + 1 + 1 < minExactDigits (0 + 1 + 1) o
        · simp only [c4, ↓reduceIte] at h10 ⊢
          obtain ⟨h11, rfl⟩ := h10
          finish_bytes
        · simp only [c4, ↓reduceIte] at h10 ⊢
          subst h10
          finish_bytes
    · have hk1 : ¬ k = 1 := by omega
      simp only [c2, hk1, and_false, ↓reduceIte, bind_ok_iff, set_ok_iff, get_ok_iff, padZeros_ok_iff] at h5 ⊢
      obtain ⟨b4, ⟨h6, rfl⟩, x, ⟨h7, rfl⟩, b5, ⟨h8, rfl⟩, h9⟩ := h5
      simp only [put_len, put_length, WBuf.len, chars, List.length_cons, List.length_nil, List.map] at h4 h6 h7 h8 h9 ⊢
      by_cases c4 : 0 + 1 < minExactDigits (0 + 1) o
      · simp only [c4, ↓reduceIte] at h9 ⊢
        obtain ⟨h11, rfl⟩ := h9
        finish_bytes
      · simp only [c4, ↓reduceIte] at h9 ⊢
        subst h9
        finish_bytes
  · have c1' : c = false := by simpa using c1
    subst c1'
    simp only [Bool.false_eq_true, false_and, ↓reduceIte, bind_ok_iff, set_ok_iff, padZeros_ok_iff] at h5 ⊢
    obtain ⟨b4, ⟨h6, rfl⟩, h9⟩ := h5
    have hT : (chars ds').length = ds'.length := chars_length ds'
    generalize chars ds' = T at hT h4 h9 ⊢
    simp only [put_len, put_length, WBuf.len] at h4 h6 h9 ⊢
    by_cases c4 : ds'.length < minExactDigits ds'.length o
    · simp only [c4, ↓reduceIte] at h9 ⊢
      obtain ⟨h11, rfl⟩ := h9
      finish_bytes
    · simp only [c4, ↓reduceIte] at h9 ⊢
      subst h9
      finish_bytes

theorem writePositive_eq (ds : List Nat) (e : Int) (o : WOpts) :
    writePositive ds e o =
      (if e.toNat + 1 + (if (roundPos ds e o).2 = true then 1 else 0) ≥ (roundPos ds e o).1.length then
        (if o.trim = true then chars (roundPos ds e o).1 ++
            zeros (e.toNat + 1 + (if (roundPos ds e o).2 = true then 1 else 0) - (roundPos ds e o).1.length)
         else chars (roundPos ds e o).1 ++
            zeros (e.toNat + 1 + (if (roundPos ds e o).2 = true then 1 else 0) - (roundPos ds e o).1.length)
            ++ [o.dp, 48] ++
           (if minExactDigits (e.toNat + 1 + (if (roundPos ds e o).2 = true then 1 else 0) + 1) o >
                e.toNat + 1 + (if (roundPos ds e o).2 = true then 1 else 0) + 1 then
              zeros (minExactDigits (e.toNat + 1 + (if (roundPos ds e o).2 = true then 1 else 0) + 1) o -
                (e.toNat + 1 + (if (roundPos ds e o).2 = true then 1 else 0) + 1)) else []))
      else chars ((roundPos ds e o).1.take (e.toNat + 1 + (if (roundPos ds e o).2 = true then 1 else 0)))
        ++ [o.dp] ++
        chars ((roundPos ds e o).1.drop (e.toNat + 1 + (if (roundPos ds e o).2 = true then 1 else 0))) ++
        (if minExactDigits (roundPos ds e o).1.length o > (roundPos ds e o).1.length then
          zeros (minExactDigits (roundPos ds e o).1.length o - (roundPos ds e o).1.length) else [])) := by
  unfold writePositive
  generalize roundPos ds e o = tr
  obtain ⟨a, c⟩ := tr
  rfl

theorem chars_take_drop (l : List Nat) (n : Nat) : chars l = chars (l.take n) ++ chars (l.drop n) := by
  simp [chars]

theorem chars_append (a b : List Nat) : chars (a ++ b) = chars a ++ chars b := by simp [chars]

theorem posN_bytes (need : Nat) (ds : List Nat) (sciExp : Int) (o : WOpts) (b : WBuf) (r : Out)
    (hds : 1 ≤ ds.length) (hmx : o.maxDigits ≠ some 0) (h : posN need ds sciExp o b = .ok r) :
    r.buf.bytes.take r.cursor = writePositive ds sciExp o := by
  unfold posN at h
  rw [writePositive_eq]
  unfold roundPos
  obtain ⟨hl1, hl2, _, _⟩ := truncateAndRound_length ds o hds hmx
  generalize truncateAndRound ds o = tr at h hl1 hl2 ⊢
  obtain ⟨ds', c⟩ := tr
  dsimp only at h hl1 hl2 ⊢
  generalize sciExp.toNat + 1 + (if c = true then 1 else 0) = leading at h ⊢
  -- the kept digits are a prefix of the rounded digits (which are what the buffer holds)
  obtain ⟨suf, hsuf⟩ : ∃ suf, ds' = trimPos o leading ds' ++ suf := by
    rcases trimPos_cases o leading ds' with h' | ⟨h', _⟩
    · exact ⟨[], by rw [h']; simp⟩
    · exact ⟨ds'.drop leading, by rw [h']; simp⟩
  generalize trimPos o leading ds' = K at h hsuf ⊢
  subst hsuf
  rw [chars_append] at h
  simp only [bind_ok_iff, demand_ok_iff, blit_ok_iff] at h
  obtain ⟨u, h1, b1, ⟨h2, rfl⟩, b2, ⟨h3, rfl⟩, h4⟩ := h
  simp only [put_len, put_length, WBuf.len, chars_length, List.length_append] at h1 h2 h3 hl1 hl2
  have hD : (chars ds).length = ds.length := chars_length ds
  generalize chars ds = D at hD h4 ⊢
  have hS : (chars suf).length = suf.length := chars_length suf
  generalize chars suf = S at hS h4 ⊢
  by_cases c1 : leading ≥ K.length
  · simp only [c1, ↓reduceIte, bind_ok_iff, fill_ok_iff] at h4 ⊢
    obtain ⟨b3, ⟨h5, rfl⟩, h6⟩ := h4
    have hT : (chars K).length = K.length := chars_length K
    generalize chars K = T at hT h6 ⊢
    by_cases c3 : o.trim = true
    · simp only [c3, not_true_eq_false, ↓reduceIte, Res.ok.injEq] at h6 ⊢
      subst h6
      simp only [put_len, put_length, WBuf.len] at h5
      finish_bytes
    · simp only [c3, not_false_eq_true, ↓reduceIte, Bool.false_eq_true, bind_ok_iff, set_ok_iff, padZeros_ok_iff] at h6 ⊢
      obtain ⟨b4, ⟨h7, rfl⟩, b5, ⟨h8, rfl⟩, h9⟩ := h6
      simp only [put_len, put_length, WBuf.len] at h5 h7 h8 h9
      by_cases c4 : leading + 1 < minExactDigits (leading + 1) o
      · have c4' : minExactDigits (leading + 1) o > leading + 1 := c4
        simp only [c4, c4', ↓reduceIte] at h9 ⊢
        obtain ⟨h11, rfl⟩ := h9
        finish_bytes
      · have c4' : ¬ minExactDigits (leading + 1) o > leading + 1 := c4
        simp only [c4, c4', ↓reduceIte] at h9 ⊢
        subst h9
        finish_bytes
  · simp only [c1, ↓reduceIte, bind_ok_iff, demand_ok_iff, blit_ok_iff, set_ok_iff, padZeros_ok_iff] at h4 ⊢
    obtain ⟨u2, h5, b3, ⟨h6, rfl⟩, b4, ⟨h7, rfl⟩, h9⟩ := h4
    have hsplit := chars_take_drop K leading
    have hA : (chars (K.take leading)).length = leading := by simp; omega
    have hB : (chars (K.drop leading)).length = K.length - leading := by simp
    generalize chars (K.take leading) = A at hA hsplit ⊢
    generalize chars (K.drop leading) = B at hB hsplit h5 h6 h7 h9 ⊢
    rw [hsplit] at h5 h6 h7 h9
    simp only [put_len, put_length, WBuf.len, List.length_append] at h5 h6 h7 h9
    by_cases c4 : K.length < minExactDigits K.length o
    · have c4' : minExactDigits K.length o > K.length := c4
      simp only [c4, c4', ↓reduceIte] at h9 ⊢
      obtain ⟨h11, rfl⟩ := h9
      finish_bytes
    · have c4' : ¬ minExactDigits K.length o > K.length := c4
      simp only [c4, c4', ↓reduceIte] at h9 ⊢
      subst h9
      finish_bytes

theorem writeScientific_eq (fmt : Format) (feats : Features) (ds : List Nat) (e : Int) (o : WOpts) (r : Nat) :
    writeScientific fmt feats ds e o r =
      (if ¬ fmt.noExponentWithoutFraction = true ∧ (roundSci ds o).1.length = 1 ∧ o.trim = true then
         [digitChar ((roundSci ds o).1.headD 0)]
       else if (roundSci ds o).1.length < minExactDigits (roundSci ds o).1.length o then
         [digitChar ((roundSci ds o).1.headD 0), o.dp] ++ chars (roundSci ds o).1.tail ++
           zeros (minExactDigits (roundSci ds o).1.length o - (roundSci ds o).1.length)
       else if (roundSci ds o).1.length = 1 then [digitChar ((roundSci ds o).1.headD 0), o.dp, 48]
       else [digitChar ((roundSci ds o).1.headD 0), o.dp] ++ chars (roundSci ds o).1.tail)
      ++ writeExponent fmt feats (e + (if (roundSci ds o).2 = true then 1 else 0)) o.exp r := by
  unfold writeScientific
  generalize roundSci ds o = tr
  obtain ⟨a, c⟩ := tr
  simp

theorem sciN_bytes (fmt : Format) (feats : Features) (need : Nat) (ds : List Nat) (sciExp : Int) (o : WOpts)
    (b : WBuf) (r : Out) (hds : 1 ≤ ds.length) (hmx : o.maxDigits ≠ some 0)
    (h : sciN fmt feats need ds sciExp o b = .ok r) :
    r.buf.bytes.take r.cursor = writeScientific fmt feats ds sciExp o fmt.exponentRadix := by
  unfold sciN at h
  rw [writeScientific_eq]
  unfold roundSci
  obtain ⟨hl1, hl2, _, _⟩ := truncateAndRound_length ds o hds hmx
  generalize truncateAndRound ds o = tr at h hl1 hl2 ⊢
  obtain ⟨ds', c⟩ := tr
  dsimp only at h hl1 hl2 ⊢
  -- the kept digits are a non-empty prefix of the rounded digits (which are what the buffer holds)
  have hk1 := (trimSci_length o ds' hl1).1
  obtain ⟨suf, hsuf⟩ : ∃ suf, ds' = trimSci o ds' ++ suf := by
    rcases trimSci_cases o ds' with h' | h'
    · exact ⟨[], by rw [h']; simp⟩
    · exact ⟨ds'.drop 1, by rw [h']; exact (List.take_append_drop 1 ds').symm⟩
  generalize trimSci o ds' = K at h hsuf hk1 ⊢
  subst hsuf
  simp only [bind_ok_iff, demand_ok_iff, blit_ok_iff, get_ok_iff, set_ok_iff] at h
  obtain ⟨u, h1, b1, ⟨h2, rfl⟩, b2, ⟨h3, rfl⟩, x, ⟨h4, rfl⟩, b3, ⟨h5, rfl⟩, b4, ⟨h6, rfl⟩, r1, h7, h8⟩ := h
  simp only [put_len, put_length, WBuf.len, chars_length, List.length_append] at h1 h2 h3 h4 h5 h6 hl2
  cases K with
  | nil => simp at hk1
  | cons d rest =>
    have hR : (chars rest).length = rest.length := chars_length rest
    have hS : (chars suf).length = suf.length := chars_length suf
    have hcons : chars (d :: rest ++ suf) = digitChar d :: (chars rest ++ chars suf) := by simp [chars]
    have hD : (chars ds).length = ds.length := chars_length ds
    simp only [List.length_cons] at hl2 h3 h7 ⊢
    simp only [List.headD_cons, List.tail_cons] at h7 ⊢
    rw [hcons] at h7
    generalize chars rest = R at hR h7 ⊢
    generalize chars suf = S at hS h7
    generalize chars ds = D at hD h7
    have hx : (((b.put 1 D).put 1 (digitChar d :: (R ++ S))).bytes.getD 1 0) = digitChar d := by
      simp only [put_getD, put_length, List.length_cons]
      simp only [List.getD_eq_getElem?_getD]
      grind
    rw [hx] at h7
    have hbody := sciBody_bytes fmt (rest.length + 1) [] R o _ r1 (digitChar d) (by omega) (by simp [hR])
      (by simp only [put_length]; omega) (by simp only [put_length]; intro _; omega) (by simp)
      (by
        intro hle i hi
        simp only [put_getD, put_length, List.length_cons, List.length_nil, List.length_append]
        simp only [List.getD_eq_getElem?_getD]
        grind) h7
    obtain ⟨hl, hbytes⟩ := hbody
    obtain ⟨_, hexp⟩ := writeExponentB_bytes fmt feats _ _ _ _ r h8
    rw [hexp, hbytes]

/-- **`algorithm.rs` agrees with the list level** -/
theorem decimalN_bytes (fmt : Format) (feats : Features) (need : Nat) (ds : List Nat) (sciExp : Int) (o : WOpts)
    (b : WBuf) (r : Out) (hds : 1 ≤ ds.length) (hmx : o.maxDigits ≠ some 0)
    (h : decimalN fmt feats need ds sciExp o b = .ok r) :
    r.buf.bytes.take r.cursor = writeDigitsN fmt feats ds sciExp o := by
  unfold decimalN at h
  unfold writeDigitsN
  dsimp only at h ⊢
  by_cases c2 : ¬ fmt.noExponentNotation = true ∧
      (fmt.requiredExponentNotation = true ∨ sciExp < o.negBreak.getD (-5) ∨ sciExp > o.posBreak.getD 9)
  · rw [if_pos c2] at h ⊢
    exact sciN_bytes fmt feats need ds sciExp o b r hds hmx h
  · rw [if_neg c2] at h ⊢
    by_cases c3 : sciExp < 0
    · rw [if_pos c3] at h ⊢
      exact negN_bytes need ds sciExp o b r c3 hds hmx h
    · rw [if_neg c3] at h ⊢
      exact posN_bytes need ds sciExp o b r hds hmx h

/-- **the buffer-faithful decimal back-end writes exactly the list-level bytes** (either build) -/
theorem decimalB_bytes (fmt : Format) (feats : Features) (f : Fmt) (debug : Bool) (ds : List Nat) (sciExp : Int)
    (o : WOpts) (b : WBuf) (r : Out) (hds : 1 ≤ ds.length) (hmx : o.maxDigits ≠ some 0)
    (h : decimalB fmt feats f debug ds sciExp o b = .ok r) :
    r.buf.bytes.take r.cursor = writeDecimal fmt feats ds sciExp o := by
  unfold decimalB at h
  unfold writeDecimal
  by_cases hc : feats.compact = true
  · rw [if_pos hc] at h ⊢
    exact decimalC_bytes _ feats debug ds sciExp o b r hds hmx h
  · rw [if_neg hc] at h ⊢
    exact decimalN_bytes _ feats _ ds sciExp o b r hds hmx h

end LexVerif.Proof.WriteFloatDragon
