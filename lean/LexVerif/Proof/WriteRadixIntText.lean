import LexVerif.Proof.WriteRadixFrac
import LexVerif.Proof.WriteRadixInt
/-!
# Proof.WriteRadixIntText — on integer digits the full writer's text IS the integer-path model's text

`layoutText_int`: for a scratch buffer that holds only integer digits `ds` (first digit non-zero, at most 64 digits,
no fraction digits) and default `max_significant_digits`, `Model.WriteRadix.layoutText` returns exactly
`WriteBinary.render (WriteRadixInt.layoutInt …)`, the text of the old integer-path model, in both notations.
-/
namespace LexVerif.Proof.WriteRadixIntText
open LexVerif.Spec LexVerif.Model LexVerif.Model.WriteBinary
open LexVerif.Proof.WriteRadixWF LexVerif.Proof.WriteBinaryShape
open LexVerif.Model.WriteInt (Res)

theorem digitChar_eq_48 (d : Nat) : digitChar d = 48 ↔ d = 0 := by
  unfold digitChar; split <;> omega

/-- trimming trailing elements, list form -/
theorem rtrim_general {α : Type} (p : α → Bool) (l : List α) :
    (l.reverse.dropWhile p).reverse = l.take (l.length - (l.reverse.takeWhile p).length) := by
  have h := List.takeWhile_append_dropWhile (p := p) (l := l.reverse)
  have hl : l = (l.reverse.dropWhile p).reverse ++ (l.reverse.takeWhile p).reverse := by
    have := congrArg List.reverse h
    rw [List.reverse_append, List.reverse_reverse] at this
    exact this.symm
  have hlen : l.length - (l.reverse.takeWhile p).length = (l.reverse.dropWhile p).reverse.length := by
    have := congrArg List.length hl
    simp only [List.length_append, List.length_reverse] at this ⊢
    omega
  rw [hlen]
  conv => rhs; rw [hl]
  simp

theorem chars_rtrimZeros (t : List Nat) :
    chars (rtrimZeros t) = (chars t).take ((chars t).length - WriteRadix.rtrimCount 48 (chars t)) := by
  have hcount : WriteRadix.rtrimCount 48 (chars t) = (t.reverse.takeWhile (· = 0)).length := by
    unfold WriteRadix.rtrimCount chars
    rw [← List.map_reverse, List.takeWhile_map, List.length_map]
    have hfun : ((fun x : Nat => decide (x = 48)) ∘ digitChar) = (fun x : Nat => decide (x = 0)) := by
      funext x
      simp [digitChar_eq_48]
    rw [hfun]
  rw [hcount]
  unfold rtrimZeros chars
  rw [rtrim_general, List.map_take, List.length_map]

theorem ltrimCount_chars_cons {d0 : Nat} (hd0 : d0 ≠ 0) (t : List Nat) (rest : List Nat) :
    WriteRadix.ltrimCount 48 (chars (d0 :: t) ++ rest) = 0 := by
  unfold WriteRadix.ltrimCount chars
  have : digitChar d0 ≠ 48 := fun h => hd0 ((digitChar_eq_48 d0).mp h)
  simp [this]

theorem buf_take (cs : List Nat) : ((WriteRadix.Gen.buf ⟨cs, [], []⟩).drop 0).take cs.length = cs := by
  unfold WriteRadix.Gen.buf
  simp

theorem exponentText_eq (fmt : Format) (feats : Features) (cursor : Nat) (e : Int) (ec : Nat) :
    (WriteRadix.exponentText fmt feats cursor e ec).text = writeExponent fmt feats e ec fmt.exponentRadix := by
  unfold WriteRadix.exponentText writeExponent WriteFloat.expSign
  rfl

/-- scientific layout: same text -/
theorem sciMant_eq (fmt : Format) (feats : Features) (o : WOpts) (d0 : Nat) (t : List Nat) (e : Int) :
    (WriteRadix.sciMant fmt o (digitChar d0) (chars t)).1 ++ writeExponent fmt feats e o.exp fmt.exponentRadix
      = render fmt feats o (WriteRadixInt.sciLayout fmt o (d0 :: t) e) := by
  have hb := chars_rtrimZeros t
  have hbl : ((chars t).take ((chars t).length - WriteRadix.rtrimCount 48 (chars t))).length
      = (rtrimZeros t).length := by
    rw [← hb]; simp [chars]
  unfold WriteRadix.sciMant
  dsimp only
  rw [hbl, ← hb]
  generalize hL : WriteRadixInt.sciLayout fmt o (d0 :: t) e = L
  unfold WriteRadixInt.sciLayout at hL
  dsimp only [List.headD_cons, List.tail_cons] at hL
  by_cases c1 : ¬ fmt.noExponentWithoutFraction = true ∧ 1 + (rtrimZeros t).length = 1 ∧ o.trim = true
  · rw [if_pos c1] at hL; rw [if_pos c1]; subst hL
    simp [render, chars]
  · rw [if_neg c1] at hL; rw [if_neg c1]
    by_cases c2 : minExactDigits (1 + (rtrimZeros t).length) o < 2
    · rw [if_pos c2] at hL; rw [if_pos c2]; subst hL
      simp [render, chars, digitChar]
    · rw [if_neg c2] at hL; rw [if_neg c2]; subst hL
      by_cases c3 : minExactDigits (1 + (rtrimZeros t).length) o > 1 + (rtrimZeros t).length
      · rw [if_pos c3]
        simp [render, chars, pad, c3, digitChar]
      · rw [if_neg c3]
        simp [render, chars, pad, c3]

theorem sciFinish_eq_render (fmt : Format) (feats : Features) (o : WOpts) (d0 : Nat) (t : List Nat) (e : Int) :
    ∃ hi, WriteRadix.sciFinish fmt feats o (chars (d0 :: t)) e
      = .ok ⟨render fmt feats o (WriteRadixInt.sciLayout fmt o (d0 :: t) e), hi⟩ := by
  refine ⟨max (WriteRadix.sciMant fmt o (digitChar d0) (chars t)).2 (WriteRadix.exponentText fmt feats
    (WriteRadix.sciMant fmt o (digitChar d0) (chars t)).1.length e o.exp).hi, ?_⟩
  show WriteRadix.sciFinish fmt feats o (digitChar d0 :: chars t) e = _
  unfold WriteRadix.sciFinish
  dsimp only
  rw [exponentText_eq, sciMant_eq]

/-- positional layout: same text -/
theorem nonsciFinish_eq_render (fmt : Format) (feats : Features) (o : WOpts) (ds : List Nat) :
    (WriteRadix.nonsciFinish o (chars ds) ds.length).text = render fmt feats o (WriteRadixInt.nonsciLayout o ds) := by
  have hl : (chars ds).length = ds.length := by simp [chars]
  generalize hL : WriteRadixInt.nonsciLayout o ds = L
  unfold WriteRadixInt.nonsciLayout at hL
  unfold WriteRadix.nonsciFinish
  dsimp only
  rw [hl, Nat.min_self, Nat.sub_self, if_neg (Nat.lt_irrefl 0), List.take_of_length_le (by omega)]
  by_cases ht : o.trim = true
  · rw [if_pos ht] at hL; rw [if_pos ht]; subst hL; simp [render]
  · rw [if_neg ht] at hL; rw [if_neg ht]; subst hL
    by_cases c : minExactDigits (ds.length + 1) o > ds.length + 1
    · simp [render, chars, pad, c, digitChar]
    · simp [render, chars, pad, c, digitChar]

/-- **the full writer's layout on integer digits equals the integer-path model's text** -/
theorem layoutText_int (fmt : Format) (feats : Features) (o : WOpts) (ho : o.maxDigits = none)
    (ops : WriteRadixInt.FOps) (n : Nat) (d0 : Nat) (t : List Nat)
    (hds : WriteRadixInt.integerDigits ops fmt.mantissaRadix n = d0 :: t) (hd0 : d0 ≠ 0) (hlen : t.length < 64) :
    ∃ hi, WriteRadix.layoutText fmt feats o fmt.mantissaRadix ⟨chars (d0 :: t), [], []⟩
      = .ok ⟨render fmt feats o (WriteRadixInt.layoutInt fmt o ops n), hi⟩ := by
  have hz : WriteRadixInt.ltrimZeroCount (d0 :: t) = 0 := by
    simp [WriteRadixInt.ltrimZeroCount, List.takeWhile, hd0]
  have hcl : (chars (d0 :: t)).length = t.length + 1 := by simp [chars]
  have hsci : WriteRadix.sciExpOf ⟨chars (d0 :: t), [], []⟩ = (t.length : Int) := by
    unfold WriteRadix.sciExpOf
    dsimp only
    rw [List.append_nil, ← List.append_nil (chars (d0 :: t)), ltrimCount_chars_cons hd0, List.append_nil, hcl]
    omega
  have hsci' : Dragonbox.i32 (Dragonbox.i32 (((d0 :: t).length : Int) - ((0 : Nat) : Int)) - 1) = (t.length : Int) := by
    simp only [List.length_cons, Dragonbox.i32]
    omega
  unfold WriteRadix.layoutText WriteRadixInt.layoutInt
  dsimp only
  rw [hds, hz, hsci, hsci']
  split
  · -- scientific
    unfold WriteRadix.sciText
    dsimp only
    rw [truncateAndRound_none _ o ho]
    simp only [Res.bind, Bool.false_eq_true, if_false, Int.add_zero]
    have hstart : (if (t.length : Int) ≤ 0 then (((chars (d0 :: t)).length : Int) - (t.length : Int) - 1).toNat else 0) = 0 := by
      split
      · rw [hcl]; omega
      · rfl
    rw [hstart]
    have hend : min ((chars (d0 :: t)).length + ([] : List Nat).length) (0 + WriteRadix.maxDigitLength + 1) - 0
        = (chars (d0 :: t)).length := by
      rw [hcl]; unfold WriteRadix.maxDigitLength; simp only [List.length_nil]; omega
    rw [hend, buf_take]
    exact sciFinish_eq_render fmt feats o d0 t _
  · -- positional
    unfold WriteRadix.nonsciText
    dsimp only
    rw [truncateAndRound_none _ o ho]
    simp only [Res.bind, Bool.false_eq_true, false_and, if_false, Nat.add_zero]
    have hend : min ((chars (d0 :: t)).length + ([] : List Nat).length) (WriteRadix.maxDigitLength + 1) - 0
        = (chars (d0 :: t)).length := by
      rw [hcl]; unfold WriteRadix.maxDigitLength; simp only [List.length_nil]; omega
    have hb := buf_take (chars (d0 :: t))
    rw [List.drop_zero] at hb
    rw [hend, hb]
    refine ⟨(WriteRadix.nonsciFinish o (chars (d0 :: t)) (chars (d0 :: t)).length).hi, ?_⟩
    have := nonsciFinish_eq_render fmt feats o (d0 :: t)
    rw [show (d0 :: t).length = (chars (d0 :: t)).length by simp [chars]] at this
    exact congrArg Res.ok (Text.ext _ _ this rfl)
where
  Text.ext : ∀ (a b : WriteRadix.Text), a.text = b.text → a.hi = b.hi → a = b
    | ⟨_, _⟩, ⟨_, _⟩, rfl, rfl => rfl

end LexVerif.Proof.WriteRadixIntText
