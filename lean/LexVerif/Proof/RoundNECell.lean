import LexVerif.Proof.RoundNECore
/-!
# Proof.RoundNECell — integer value of a bit pattern, rounding cells (Mathlib-free)
-/
namespace LexVerif.Proof.RoundNE
open LexVerif.Spec

/-- value of the (non-negative) bit pattern `b` in units of `2^-L` (`= 2^eminLsb`). Also defined
(by the same formula) for `b ≥ infBits`, where it is the value the pattern *would* have if the exponent
range were unbounded; this makes `ival` strictly monotone on all of `Nat`. -/
def ival (f : Fmt) (b : Nat) : Nat :=
  if b / 2 ^ (f.p - 1) = 0 then b % 2 ^ (f.p - 1)
  else (b % 2 ^ (f.p - 1) + 2 ^ (f.p - 1)) * 2 ^ (b / 2 ^ (f.p - 1) - 1)

theorem ival_kq (f : Fmt) (k q : Nat) (h1 : 0 < k → 2 ^ (f.p - 1) ≤ q) (h2 : q ≤ 2 * 2 ^ (f.p - 1)) :
    ival f (k * 2 ^ (f.p - 1) + q) = q * 2 ^ k := by
  unfold ival
  generalize hT : 2 ^ (f.p - 1) = T at *
  have hTpos : 0 < T := by rw [← hT]; exact Nat.two_pow_pos _
  by_cases hlt : q < T
  · have hk0 : k = 0 := by
      apply Classical.byContradiction; intro hk; have := h1 (by omega); omega
    subst hk0
    simp [Nat.div_eq_of_lt hlt, Nat.mod_eq_of_lt hlt]
  · by_cases hq : q = 2 * T
    · subst hq
      have e : k * T + 2 * T = (k + 2) * T := by rw [Nat.add_mul]
      rw [e, Nat.mul_div_cancel _ hTpos, Nat.mul_mod_left, if_neg (by omega)]
      rw [show k + 2 - 1 = k + 1 by omega, Nat.pow_succ, Nat.zero_add]; ac_rfl
    · obtain ⟨m, hm⟩ : ∃ m, q = T + m := ⟨q - T, by omega⟩
      subst hm
      have e : k * T + (T + m) = m + T * (k + 1) := by rw [Nat.mul_add, Nat.mul_comm]; omega
      have hm : m < T := by omega
      rw [e, Nat.add_mul_div_left _ _ hTpos, Nat.add_mul_mod_self_left, Nat.div_eq_of_lt hm,
        Nat.mod_eq_of_lt hm, if_neg (by omega)]
      rw [show 0 + (k + 1) - 1 = k by omega, Nat.add_comm]

/-- every pattern is `k·2^(p-1) + q` with `q` the significand (hidden bit included) -/
theorem decomp (f : Fmt) (b : Nat) : ∃ k q, b = k * 2 ^ (f.p - 1) + q ∧
    (0 < k → 2 ^ (f.p - 1) ≤ q) ∧ q < 2 * 2 ^ (f.p - 1) := by
  generalize hT : 2 ^ (f.p - 1) = T
  have hTpos : 0 < T := by rw [← hT]; exact Nat.two_pow_pos _
  have h1 := Nat.div_add_mod b T
  have h2 := Nat.mod_lt b hTpos
  generalize b / T = d at h1
  generalize b % T = m at h1 h2
  by_cases h0 : d = 0
  · refine ⟨0, m, ?_, by omega, by omega⟩
    rw [h0] at h1; omega
  · obtain ⟨j, hj⟩ : ∃ j, d = j + 1 := ⟨d - 1, by omega⟩
    refine ⟨j, m + T, ?_, by omega, by omega⟩
    rw [hj, Nat.mul_succ, Nat.mul_comm] at h1
    omega

theorem ival_lt_succ (f : Fmt) (b : Nat) : ival f b < ival f (b + 1) := by
  obtain ⟨k, q, rfl, h1, h2⟩ := decomp f b
  rw [Nat.add_assoc, ival_kq f k q h1 (by omega), ival_kq f k (q + 1) (by omega) (by omega)]
  exact Nat.mul_lt_mul_of_pos_right (by omega) (Nat.two_pow_pos k)

theorem ival_strictMono (f : Fmt) {a b : Nat} (h : a < b) : ival f a < ival f b := by
  induction b with
  | zero => omega
  | succ n ih =>
    by_cases h' : a = n
    · subst h'; exact ival_lt_succ f a
    · exact Nat.lt_trans (ih (by omega)) (ival_lt_succ f n)

theorem ival_mono (f : Fmt) {a b : Nat} (h : a ≤ b) : ival f a ≤ ival f b := by
  by_cases h' : a = b
  · subst h'; exact Nat.le_refl _
  · exact Nat.le_of_lt (ival_strictMono f (by omega))

theorem ival_zero (f : Fmt) : ival f 0 = 0 := by
  have := ival_kq f 0 0 (by omega) (by omega)
  simpa using this

/-! ## rounding cells -/

/-- `N/D` (in units of `2^-L`) lies in the rounding cell of pattern `r`: between the midpoints to the
neighbouring patterns, a midpoint being allowed only when `r` is even.  `infBits` plays the role of a
finite pattern of value `2^(emax+1)` whose cell is unbounded above. -/
structure InCell (f : Fmt) (N D r : Nat) : Prop where
  le_inf : r ≤ f.infBits
  lower : r ≠ 0 → D * (ival f (r - 1) + ival f r) ≤ 2 * N
  lower_tie : r ≠ 0 → D * (ival f (r - 1) + ival f r) = 2 * N → r % 2 = 0
  upper : r < f.infBits → 2 * N ≤ D * (ival f r + ival f (r + 1))
  upper_tie : r < f.infBits → 2 * N = D * (ival f r + ival f (r + 1)) → r % 2 = 0

/-- the cell inequalities for the unclamped encoding `k·2^(p-1) + q0` -/
theorem cell_r0 {f : Fmt} (hf : WF f) (N D k q0 : Nat)
    (h1 : 0 < k → 2 ^ (f.p - 1) ≤ q0) (h2 : q0 ≤ 2 * 2 ^ (f.p - 1))
    (s1 : 2 * (D * 2 ^ k * q0) ≤ 2 * N + D * 2 ^ k)
    (s2 : 2 * N ≤ 2 * (D * 2 ^ k * q0) + D * 2 ^ k)
    (s3 : 2 * (D * 2 ^ k * q0) = 2 * N + D * 2 ^ k → q0 % 2 = 0)
    (s4 : 2 * N = 2 * (D * 2 ^ k * q0) + D * 2 ^ k → q0 % 2 = 0)
    (hA : 0 < k → D * 2 ^ k * 2 ^ (f.p - 1) ≤ N) :
    let r0 := k * 2 ^ (f.p - 1) + q0
    (2 * N ≤ D * (ival f r0 + ival f (r0 + 1))) ∧
    (2 * N = D * (ival f r0 + ival f (r0 + 1)) → r0 % 2 = 0) ∧
    (r0 ≠ 0 → D * (ival f (r0 - 1) + ival f r0) ≤ 2 * N) ∧
    (r0 ≠ 0 → D * (ival f (r0 - 1) + ival f r0) = 2 * N → r0 % 2 = 0) := by
  intro r0
  have hr : r0 = k * 2 ^ (f.p - 1) + q0 := rfl
  clear_value r0
  obtain ⟨t, ht, htpos⟩ := T_even hf
  have hv : ival f r0 = q0 * 2 ^ k := by rw [hr]; exact ival_kq f k q0 h1 h2
  have hX : D * 2 ^ k * q0 = D * (q0 * 2 ^ k) := by ac_rfl
  rw [hX] at s1 s2 s3 s4
  generalize hXX : D * (q0 * 2 ^ k) = X at *
  generalize hY : D * 2 ^ k = Y at *
  have hpar : r0 % 2 = q0 % 2 := by
    rw [hr, ht, Nat.mul_left_comm]; omega
  have hmul : ∀ c, D * (c * 2 ^ k) = c * Y := by intro c; rw [← hY]; ac_rfl
  have hXc : X = q0 * Y := by rw [← hXX]; exact hmul q0
  generalize hT : 2 ^ (f.p - 1) = T at *
  refine ⟨?_, ?_, ?_, ?_⟩
  · -- upper
    rw [Nat.mul_add, hv, hXX]
    by_cases hq : q0 = 2 * T
    · have : ival f (r0 + 1) = (q0 + 2) * 2 ^ k := by
        have e : r0 + 1 = (k + 1) * T + (T + 1) := by
          rw [hr, Nat.succ_mul]; omega
        rw [e, ← hT, ival_kq f (k + 1) _ (by omega) (by omega), hT, Nat.pow_succ]
        rw [show q0 + 2 = (T + 1) * 2 by omega]; ac_rfl
      rw [this, hmul, Nat.add_mul, ← hXc]; omega
    · have : ival f (r0 + 1) = (q0 + 1) * 2 ^ k := by
        rw [hr, Nat.add_assoc, ← hT, ival_kq f k (q0 + 1) (by omega) (by omega)]
      rw [this, hmul, Nat.add_mul, ← hXc]; omega
  · intro heq
    rw [hpar]
    by_cases hq : q0 = 2 * T
    · omega
    · apply s4
      have : ival f (r0 + 1) = (q0 + 1) * 2 ^ k := by
        rw [hr, Nat.add_assoc, ← hT, ival_kq f k (q0 + 1) (by omega) (by omega)]
      rw [Nat.mul_add, hv, hXX, this, hmul, Nat.add_mul, ← hXc] at heq; omega
  · intro hr0
    rw [Nat.mul_add, hv, hXX]
    by_cases hc : 0 < k ∧ q0 = T
    · have hm : ival f (r0 - 1) ≤ ival f r0 := ival_mono f (by omega)
      have hm2 := Nat.mul_le_mul_left D hm
      rw [hv, hXX] at hm2
      have := hA hc.1
      rw [Nat.mul_comm, ← hc.2, ← hXc] at this
      omega
    · have hq1 : 1 ≤ q0 := by
        apply Classical.byContradiction; intro h
        have hq0 : q0 = 0 := by omega
        have hk0 : k = 0 := by
          apply Classical.byContradiction; intro hk; have := h1 (by omega); omega
        apply hr0; rw [hr, hq0, hk0]; simp
      have : ival f (r0 - 1) = (q0 - 1) * 2 ^ k := by
        rw [hr, show k * T + q0 - 1 = k * T + (q0 - 1) by omega, ← hT,
          ival_kq f k (q0 - 1) (by omega) (by omega)]
      rw [this, hmul, Nat.sub_mul, ← hXc]
      have : Y ≤ X := by rw [hXc]; exact Nat.le_mul_of_pos_left Y hq1
      omega
  · intro hr0 heq
    rw [hpar]
    by_cases hc : 0 < k ∧ q0 = T
    · omega
    · apply s3
      have hq1 : 1 ≤ q0 := by
        apply Classical.byContradiction; intro h
        have hq0 : q0 = 0 := by omega
        have hk0 : k = 0 := by
          apply Classical.byContradiction; intro hk; have := h1 (by omega); omega
        apply hr0; rw [hr, hq0, hk0]; simp
      have : ival f (r0 - 1) = (q0 - 1) * 2 ^ k := by
        rw [hr, show k * T + q0 - 1 = k * T + (q0 - 1) by omega, ← hT,
          ival_kq f k (q0 - 1) (by omega) (by omega)]
      have hYX : Y ≤ X := by rw [hXc]; exact Nat.le_mul_of_pos_left Y hq1
      rw [Nat.mul_add, hv, hXX, this, hmul, Nat.sub_mul, ← hXc] at heq
      omega

theorem infBits_even {f : Fmt} (hf : WF f) : f.infBits % 2 = 0 := by
  obtain ⟨t, ht, _⟩ := T_even hf
  rw [infBits_eq, ht, Nat.mul_left_comm]; omega

theorem roundNE_zero (f : Fmt) (den : Nat) : roundNE f 0 den = 0 := by
  rw [roundNE_unfold, if_pos rfl]

/-- **Main lemma**: the result of `roundNE` is the pattern whose rounding cell contains `num/den`. -/
theorem inCell_roundNE {f : Fmt} (hf : WF f) (num : Nat) {den : Nat} (hd : den ≠ 0) :
    InCell f (num * 2 ^ (L f)) den (roundNE f num den) := by
  by_cases hn : num = 0
  · subst hn
    rw [roundNE_zero]
    exact ⟨Nat.zero_le _, fun h => absurd rfl h, fun h => absurd rfl h, fun _ => by simp, fun _ _ => rfl⟩
  · obtain ⟨h1, h2⟩ := q0_bounds hf hn hd
    obtain ⟨hA, _⟩ := pow_bounds hf hn hd
    rw [roundNE_eq hf hn hd]
    generalize kOf f (ilog2Q num den) = k at *
    have hD : 0 < den * 2 ^ k := Nat.mul_pos (Nat.pos_of_ne_zero hd) (Nat.two_pow_pos k)
    obtain ⟨s1, s2, s3, s4⟩ := rhe_spec (num * 2 ^ (L f)) hD
    generalize rhe (num * 2 ^ (L f)) (den * 2 ^ k) = q0 at *
    generalize num * 2 ^ (L f) = N at *
    rw [two_pow_P hf] at h2
    have hA' : 0 < k → den * 2 ^ k * 2 ^ (f.p - 1) ≤ N := by
      intro hk; have := hA hk
      rwa [show den * 2 ^ (f.p - 1 + k) = den * 2 ^ k * 2 ^ (f.p - 1) by
        rw [Nat.pow_add]; ac_rfl] at this
    obtain ⟨c1, c2, c3, c4⟩ := cell_r0 hf N den k q0 h1 h2 s1 s2 s3 s4 hA'
    generalize k * 2 ^ (f.p - 1) + q0 = r0 at *
    split
    · rename_i hinf
      refine ⟨Nat.le_refl _, ?_, fun _ _ => infBits_even hf, fun h => absurd h (Nat.lt_irrefl _),
        fun h => absurd h (Nat.lt_irrefl _)⟩
      intro h0
      have hM := M_ge hf
      have hr0 : r0 ≠ 0 := by omega
      refine Nat.le_trans (Nat.mul_le_mul_left den (Nat.add_le_add ?_ ?_)) (c3 hr0)
      · exact ival_mono f (by omega)
      · exact ival_mono f hinf
    · rename_i hinf
      exact ⟨by omega, c3, c4, fun _ => c1, fun _ => c2⟩

/-- Cells are ordered: a smaller rational cannot lie in the cell of a larger pattern. -/
theorem inCell_mono {f : Fmt} {N1 D1 r1 N2 D2 r2 : Nat} (c1 : InCell f N1 D1 r1)
    (c2 : InCell f N2 D2 r2) (hD1 : 0 < D1) (hD2 : 0 < D2) (hle : N1 * D2 ≤ N2 * D1) : r1 ≤ r2 := by
  apply Nat.le_of_not_lt
  intro hlt
  have hr1 : r1 ≠ 0 := by omega
  have hr2 : r2 < f.infBits := Nat.lt_of_lt_of_le hlt c1.le_inf
  have hU := c2.upper hr2
  have hLo := c1.lower hr1
  have m1 : ival f r2 ≤ ival f (r1 - 1) := ival_mono f (by omega)
  have m2 : ival f (r2 + 1) ≤ ival f r1 := ival_mono f (by omega)
  generalize ha : ival f r2 + ival f (r2 + 1) = a at *
  generalize hb : ival f (r1 - 1) + ival f r1 = b at *
  have hab : a ≤ b := by omega
  -- D1*D2*a ≤ D1*D2*b ≤ 2*N1*D2 ≤ 2*N2*D1 ≤ D1*D2*a
  have k1 : D2 * (D1 * b) ≤ D2 * (2 * N1) := Nat.mul_le_mul_left D2 hLo
  have k2 : D1 * (2 * N2) ≤ D1 * (D2 * a) := Nat.mul_le_mul_left D1 hU
  have k0 : D2 * (D1 * a) ≤ D2 * (D1 * b) := Nat.mul_le_mul_left D2 (Nat.mul_le_mul_left D1 hab)
  have e1 : D2 * (2 * N1) = 2 * (N1 * D2) := by ac_rfl
  have e2 : D1 * (2 * N2) = 2 * (N2 * D1) := by ac_rfl
  have e3 : D1 * (D2 * a) = D2 * (D1 * a) := by ac_rfl
  have q1 : D2 * (D1 * a) = D2 * (D1 * b) := by omega
  have q2 : D2 * (D1 * b) = D2 * (2 * N1) := by omega
  have q3 : D1 * (2 * N2) = D1 * (D2 * a) := by omega
  have hab' : a = b := Nat.eq_of_mul_eq_mul_left hD1 (Nat.eq_of_mul_eq_mul_left hD2 q1)
  have t1 := c1.lower_tie hr1 (by rw [hb]; exact Nat.eq_of_mul_eq_mul_left hD2 q2)
  have t2 := c2.upper_tie hr2 (by rw [ha]; exact Nat.eq_of_mul_eq_mul_left hD1 q3)
  have : r2 = r1 - 1 := by
    apply Classical.byContradiction; intro hne
    have := ival_strictMono f (show r2 < r1 - 1 by omega)
    omega
  omega

/-- The cell determines the result: any pattern whose cell contains `num/den` is `roundNE f num den`. -/
theorem roundNE_unique {f : Fmt} (hf : WF f) {num den r : Nat} (hd : den ≠ 0)
    (c : InCell f (num * 2 ^ (L f)) den r) : roundNE f num den = r := by
  have c' := inCell_roundNE hf num hd
  have hd' := Nat.pos_of_ne_zero hd
  exact Nat.le_antisymm (inCell_mono c' c hd' hd' (Nat.le_refl _))
    (inCell_mono c c' hd' hd' (Nat.le_refl _))

end LexVerif.Proof.RoundNE
