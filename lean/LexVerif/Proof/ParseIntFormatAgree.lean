import LexVerif.Proof.ParseIntFormatTotal
/-!
# Proof.ParseIntFormatAgree — the complete and the partial integer parser of `format` builds run in lockstep (C11, clause 1)

`algorithm_complete` and `algorithm_partial` are the same macro body; in the model the `partial_` flag is read in ONE
place, `invalid_digit_complete!` / `invalid_digit_partial!` (`Model.ParseIntFormat.invalidDigit`). Hence the two runs on
the same input perform the same iterator operations until the first call of `invalidDigit`, where the complete parser
returns `Err(InvalidDigit(i))` and the partial one `Ok((value, i))` (or `Err(Empty(i))`) with `i = index - 1`.
Because the cursor never leaves the buffer (`Proof/ParseIntFormatTotal.lean`), that `i` is `< length`. Every other
`Ok` is produced by `$into_ok!` with an index that equals the buffer length (final `$into_ok!`: `buffer_length()`; the
leading-zero block's `None` arm and the empty-input arm: the cursor of an exhausted iterator). Therefore

  complete = Ok(v)  ⇔  partial = Ok((v, length))

for EVERY format accepted by `format.is_valid()` (separators, prefix, suffix, leading-zero flag), release build.
-/
namespace LexVerif.Proof.PIF
open LexVerif LexVerif.Spec LexVerif.Model LexVerif.Model.ParseIntFormat LexVerif.Proof.PNTotal

/-- early returns out of a digit loop (complete run `rc`, partial run `rp`): the complete parser does not return `Ok`,
and an `Ok` of the partial parser carries an index strictly inside the buffer -/
def AgreeL (n : Nat) (rc rp : Res) : Prop := (∀ v k, rc ≠ .ok (v, k)) ∧ (∀ v k, rp = .ok (v, k) → k < n)

theorem AgreeL.same_err (n : Nat) (x : Err) : AgreeL n (.error x) (.error x) :=
  ⟨(by intro v k h; cases h), (by intro v k h; cases h)⟩

theorem AgreeL.mono {m n : Nat} (h : m ≤ n) {rc rp : Res} (ha : AgreeL m rc rp) : AgreeL n rc rp :=
  ⟨ha.1, fun v k hk => Nat.lt_of_lt_of_le (ha.2 v k hk) h⟩

/-- results that satisfy clause 1 for a buffer of length `n`: a loop-style early return, or the same result in both
runs whose `Ok` index is the buffer length (`$into_ok!`) -/
def Agree (n : Nat) (rc rp : Res) : Prop := AgreeL n rc rp ∨ (rc = rp ∧ ∀ v k, rc = .ok (v, k) → k = n)

theorem Agree.iff {n : Nat} {rc rp : Res} (h : Agree n rc rp) (v : Int) : (∃ k, rc = .ok (v, k)) ↔ rp = .ok (v, n) := by
  rcases h with h | ⟨h1, h2⟩
  · constructor
    · rintro ⟨k, hk⟩; exact absurd hk (h.1 v k)
    · intro hp; exact absurd (h.2 v n hp) (Nat.lt_irrefl _)
  · subst h1
    constructor
    · rintro ⟨k, hk⟩; rw [hk, h2 v k hk]
    · intro hp; exact ⟨n, hp⟩

/-- fall-through states of the two runs: equal; early returns: agreeing -/
def Lock (n : Nat) (xc xp : Flow (Bytes × Nat)) : Prop :=
  match xc, xp with
  | .ok p, .ok q => p = q
  | .error rc, .error rp => AgreeL n rc rp
  | _, _ => False

theorem Lock.refl_ok (n : Nat) (p : Bytes × Nat) : Lock n (.ok p) (.ok p) := rfl

theorem Lock.mono {m n : Nat} (h : m ≤ n) {xc xp : Flow (Bytes × Nat)} (hl : Lock m xc xp) : Lock n xc xp := by
  cases xc <;> cases xp <;> simp only [Lock] at * <;> first | exact hl | exact AgreeL.mono h hl

variable {c : Cfg} {t : IntTy} {nm : Bool}

theorem intoOk_agree {n : Nat} (value idx cnt : Nat) (h : idx = n) :
    Agree n (intoOk ⟨c, t, false, nm⟩ value idx cnt) (intoOk ⟨c, t, true, nm⟩ value idx cnt) := by
  subst h
  refine Or.inr ⟨rfl, ?_⟩
  intro v k hk
  unfold intoOk at hk
  split at hk
  · simp [err] at hk
  · simp only [Except.ok.injEq, Prod.mk.injEq] at hk; exact hk.2.symm

theorem invalidDigit_agree (hd : c.debug = false) {n : Nat} (value idx cnt : Nat) (h1 : 1 ≤ idx) (h : idx ≤ n) :
    AgreeL n (invalidDigit ⟨c, t, false, nm⟩ value idx cnt) (invalidDigit ⟨c, t, true, nm⟩ value idx cnt) := by
  have hs : usizeSub c.debug idx 1 = .ok (idx - 1) := by simp [usizeSub, h1]
  simp only [invalidDigit, hs, Bool.false_eq_true, if_false, if_true]
  constructor
  · intro v k hk; simp [err] at hk
  · intro v k hp
    unfold intoOk at hp
    split at hp
    · simp [err] at hp
    · simp only [Except.ok.injEq, Prod.mk.injEq] at hp; omega

theorem fmtInvalidDigit_lock (hc : Rel c) {n : Nat} (b : Bytes) (hb : Inb n b) (h1 : 1 ≤ b.index)
    (ch start value : Nat) (isEnd : Bool) :
    (fmtInvalidDigit ⟨c, t, false, nm⟩ b ch start value isEnd = .brk ∧
      fmtInvalidDigit ⟨c, t, true, nm⟩ b ch start value isEnd = .brk) ∨
    (∃ rc rp, fmtInvalidDigit ⟨c, t, false, nm⟩ b ch start value isEnd = .ret rc ∧
      fmtInvalidDigit ⟨c, t, true, nm⟩ b ch start value isEnd = .ret rp ∧ AgreeL n rc rp) := by
  have hd := hc.hd
  have fin : ∀ b' : Bytes, Inb n b' → 1 ≤ b'.index →
      AgreeL n (invalidDigit ⟨c, t, false, nm⟩ value b'.cursor (b'.iterCount c .integer))
        (invalidDigit ⟨c, t, true, nm⟩ value b'.cursor (b'.iterCount c .integer)) :=
    fun b' hb' h1' => invalidDigit_agree hd _ _ _ h1' hb'.2
  unfold fmtInvalidDigit
  simp only [hd, Bool.false_and, Bool.false_eq_true, if_false, Env.contig]
  by_cases hsuf : c.baseSuffix ≠ 0
  · rw [if_pos hsuf, if_pos hsuf]
    have hsub : usizeSub false b.cursor start =
        .ok (if start ≤ b.cursor then b.cursor - start else b.cursor + 2 ^ 64 - start) := by
      unfold usizeSub; split <;> simp
    simp only [hsub]
    generalize (if start ≤ b.cursor then b.cursor - start else b.cursor + 2 ^ 64 - start) = d
    by_cases hd1 : d > 1
    · simp only [hd1, if_true]
      by_cases hbrk : (isSuffixByte c ch && isEnd && b.isBufferEmpty) = true
      · rw [if_pos hbrk, if_pos hbrk]; exact Or.inl ⟨rfl, rfl⟩
      · simp only [hbrk, Bool.false_eq_true, if_false]
        by_cases hemp : b.isBufferEmpty = true
        · simp only [hemp, Bool.not_true, Bool.false_eq_true, if_false]
          exact Or.inr ⟨_, _, rfl, rfl, fin b hb h1⟩
        · have hlt : b.index < b.slc.length := by
            simp only [Bytes.isBufferEmpty, decide_eq_true_eq, ge_iff_le, Nat.not_le] at hemp
            exact hemp
          have hst : stepChecked c b = .ok { b with index := b.index + 1 } := by
            simp only [stepChecked, ge_iff_le, Nat.not_le.mpr hlt, if_false, iterStep_rel hc]
          have hemp' : b.isBufferEmpty = false := by simpa using hemp
          simp only [hemp', Bool.not_false, if_true, hst]
          exact Or.inr ⟨_, _, rfl, rfl, fin _ ⟨hb.1, by have := hb.1; simp only; omega⟩ (by simp only; omega)⟩
    · simp only [hd1, if_false]
      exact Or.inr ⟨_, _, rfl, rfl, fin b hb h1⟩
  · rw [if_neg hsuf, if_neg hsuf]
    exact Or.inr ⟨_, _, rfl, rfl, fin b hb h1⟩

theorem parse1Unchecked_lock (hc : Rel c) {n : Nat} (sub isEnd : Bool) (start : Nat) :
    ∀ (fuel : Nat) (b : Bytes) (value : Nat), Inb n b → n - b.index < fuel →
      Lock n (parse1Unchecked ⟨c, t, false, nm⟩ sub isEnd start fuel b value)
        (parse1Unchecked ⟨c, t, true, nm⟩ sub isEnd start fuel b value) := by
  intro fuel
  induction fuel with
  | zero => intro b v hb h; omega
  | succ f ih =>
    intro b value hb hf
    obtain ⟨v, b', hn, ha, hlt⟩ := iterNext_tot2 (e := ⟨c, t, false, nm⟩) hc b hb.valid
    have hb' := hb.adv ha
    simp only at hn
    rw [parse1Unchecked, parse1Unchecked]
    simp only [hn]
    cases v with
    | none => exact Lock.refl_ok _ _
    | some ch =>
      have hlt := hlt (by simp)
      simp only [Env.radix]
      cases hdg : ParseInt.charToDigit ch c.mantissaRadix with
      | none =>
        simp only
        rcases fmtInvalidDigit_lock (t := t) (nm := nm) hc b' hb' (by omega) ch start value isEnd with
          ⟨hfc, hfp⟩ | ⟨rc, rp, hfc, hfp, hag⟩
        · rw [hfc, hfp]; exact Lock.refl_ok _ _
        · rw [hfc, hfp]; exact hag
      | some d =>
        simp only
        exact ih b' _ hb' (by have := hb'.2; omega)

theorem parse1Checked_lock (hc : Rel c) {n : Nat} (sub : Bool) (start : Nat) :
    ∀ (fuel : Nat) (b : Bytes) (value : Nat), Inb n b → n - b.index < fuel →
      Lock n (parse1Checked ⟨c, t, false, nm⟩ sub start fuel b value)
        (parse1Checked ⟨c, t, true, nm⟩ sub start fuel b value) := by
  intro fuel
  induction fuel with
  | zero => intro b v hb h; omega
  | succ f ih =>
    intro b value hb hf
    obtain ⟨v, b', hn, ha, hlt⟩ := iterNext_tot2 (e := ⟨c, t, false, nm⟩) hc b hb.valid
    have hb' := hb.adv ha
    simp only at hn
    rw [parse1Checked, parse1Checked]
    simp only [hn]
    cases v with
    | none => exact Lock.refl_ok _ _
    | some ch =>
      have hlt := hlt (by simp)
      simp only [Env.radix]
      cases hdg : ParseInt.charToDigit ch c.mantissaRadix with
      | none =>
        simp only
        rcases fmtInvalidDigit_lock (t := t) (nm := nm) hc b' hb' (by omega) ch start value true with
          ⟨hfc, hfp⟩ | ⟨rc, rp, hfc, hfp, hag⟩
        · rw [hfc, hfp]; exact Lock.refl_ok _ _
        · rw [hfc, hfp]; exact hag
      | some d =>
        simp only [Env.radixT, Env.radix]
        cases hm : ParseInt.mulAddChecked t sub value (c.mantissaRadix % 2 ^ t.bits) d with
        | some w => exact ih b' _ hb' (by have := hb'.2; omega)
        | none =>
          simp only
          cases usizeSub c.debug b'.cursor 1 with
          | error x => exact AgreeL.same_err _ _
          | ok i => exact AgreeL.same_err _ _

theorem parseDigitsUnchecked_lock (hc : Rel c) {n : Nat} (sub isEnd : Bool) (start : Nat) (b : Bytes) (value : Nat)
    (hb : Inb n b) :
    Lock n (parseDigitsUnchecked ⟨c, t, false, nm⟩ sub isEnd start b value)
      (parseDigitsUnchecked ⟨c, t, true, nm⟩ sub isEnd start b value) := by
  have hm := multiLoop_total (e := ⟨c, t, false, nm⟩) hc sub b value hb
  have heq : multiLoop ⟨c, t, true, nm⟩ sub b value = multiLoop ⟨c, t, false, nm⟩ sub b value := rfl
  unfold parseDigitsUnchecked
  rw [heq]
  cases hml : multiLoop ⟨c, t, false, nm⟩ sub b value with
  | error r =>
    -- the multi-digit loops never return early in a release build
    exfalso
    unfold multiLoop at hml
    simp only [hc.hd, Bool.false_and, Bool.false_eq_true, if_false] at hml
    split at hml
    · split at hml
      · next m hl =>
        split at hl
        · exact loop8_noerr _ _ _ _ _ _ _ hl
        · exact loop4_noerr _ _ _ _ _ _ _ hl
      · cases hml
    · cases hml
  | ok p =>
    obtain ⟨b1, v1⟩ := p
    rw [hml] at hm
    simp only
    exact parse1Unchecked_lock hc sub isEnd start _ b1 v1 hm (by have := hm.1; have := hm.2; omega)

theorem Lock.ok_inv {n : Nat} {xc xp : Flow (Bytes × Nat)} (h : Lock n xc xp) (b : Bytes) (v : Nat)
    (hx : xc = .ok (b, v)) : xp = .ok (b, v) := by
  subst hx
  cases xp with
  | ok q => simp only [Lock] at h; rw [← h]
  | error r => exact h.elim

theorem parseDigitsChecked_lock (hc : Rel c) {n : Nat} (sub : Bool) (start : Nat) (b : Bytes) (value od : Nat)
    (hb : Inb n b) :
    Lock n (parseDigitsChecked ⟨c, t, false, nm⟩ sub start b value od)
      (parseDigitsChecked ⟨c, t, true, nm⟩ sub start b value od) := by
  unfold parseDigitsChecked
  have tail : ∀ (b1 : Bytes) (v1 : Nat), Inb n b1 →
      Lock n (parse1Checked ⟨c, t, false, nm⟩ sub start (b1.slc.length + 1) b1 v1)
        (parse1Checked ⟨c, t, true, nm⟩ sub start (b1.slc.length + 1) b1 v1) :=
    fun b1 v1 h1 => parse1Checked_lock hc sub start _ b1 v1 h1 (by have := h1.1; have := h1.2; omega)
  simp only [Env.contig]
  by_cases hct : c.iterContiguous .integer = true
  · simp only [hct, if_true]
    by_cases hlt : min b.slc.length (od + b.index) < b.index
    · have := hb.1; have := hb.2; omega
    · simp only [hlt, if_false]
      have hend : min b.slc.length (od + b.index) ≤ n := by have := hb.1; omega
      have hsm : Inb (min b.slc.length (od + b.index)) ⟨b.slc.take (min b.slc.length (od + b.index)), b.index, 0, 0, 0⟩ :=
        ⟨by simp only [List.length_take]; omega, by show b.index ≤ _; omega⟩
      have hl := Lock.mono hend (parseDigitsUnchecked_lock (t := t) (nm := nm) hc sub false start _ value hsm)
      cases hpc : parseDigitsUnchecked ⟨c, t, false, nm⟩ sub false start
          ⟨b.slc.take (min b.slc.length (od + b.index)), b.index, 0, 0, 0⟩ value with
      | error rc =>
        cases hpp : parseDigitsUnchecked ⟨c, t, true, nm⟩ sub false start
            ⟨b.slc.take (min b.slc.length (od + b.index)), b.index, 0, 0, 0⟩ value with
        | error rp => rw [hpc, hpp] at hl; exact hl
        | ok q => rw [hpc, hpp] at hl; exact hl.elim
      | ok p =>
        obtain ⟨b1, v1⟩ := p
        rw [hl.ok_inv b1 v1 hpc]
        simp only
        exact tail _ _ ⟨hb.1, by have := hb.1; simp only; omega⟩
  · simp only [hct, Bool.false_eq_true, if_false]
    exact tail _ _ hb

/-! ## prefix / leading zeros, digit phase, whole algorithm -/

/-- results of the two runs of a phase that may return early with `$into_ok!` -/
def LockA (n : Nat) (xc xp : Flow (Bytes × Nat)) : Prop :=
  match xc, xp with
  | .ok p, .ok q => p = q
  | .error rc, .error rp => Agree n rc rp
  | _, _ => False

theorem leadingZeroCheck_lock (hc : Rel c) {n : Nat} (isPrefix : Bool) (b2 : Bytes) (hb2 : Inb n b2)
    (zeros start : Nat) (hz : zeros ≤ b2.index) :
    LockA n (leadingZeroCheck ⟨c, t, false, nm⟩ isPrefix b2 zeros start)
      (leadingZeroCheck ⟨c, t, true, nm⟩ isPrefix b2 zeros start) := by
  have hd := hc.hd
  unfold leadingZeroCheck
  simp only [Env.radix]
  by_cases hcond : (!isPrefix && c.flag Format.noIntegerLeadingZeros false && zeros != 0) = true
  · simp only [hcond, if_true]
    have hs : usizeSub c.debug b2.cursor zeros = .ok (b2.index - zeros) := by
      simp only [usizeSub, Bytes.cursor]; exact if_pos hz
    simp only [hs]
    by_cases hz1 : zeros > 1
    · simp only [hz1, if_true]; exact Or.inl (AgreeL.same_err _ _)
    · simp only [hz1, if_false]
      obtain ⟨v, b3, hp, ha3, hv, _⟩ := peek_tot hc .integer b2 hb2.valid
      have hb3 := hb2.adv ha3
      simp only [hp]
      cases v with
      | some ch =>
        simp only
        cases hdg : ParseInt.charToDigit ch c.mantissaRadix with
        | some d => exact Or.inl (AgreeL.same_err _ _)
        | none =>
          simp only
          have hlt : b3.index < b3.slc.length := some_lt hv
          exact Or.inl (invalidDigit_agree hd _ _ _ (by omega) (by have := hb3.1; simp only [Bytes.cursor]; omega))
      | none =>
        simp only
        have hge : b3.slc.length ≤ b3.index := by
          have := hv.symm; rw [List.getElem?_eq_none_iff] at this; exact this
        exact intoOk_agree _ _ _ (by have := hb3.1; have := hb3.2; simp only [Bytes.cursor]; omega)
  · simp only [hcond, Bool.false_eq_true, if_false]
    rfl

theorem prefixZeros_lock (hc : Rel c) {n : Nat} (b : Bytes) (hb : Inb n b) (h0 : csum b = 0) (start : Nat) :
    LockA n (prefixZeros ⟨c, t, false, nm⟩ b start) (prefixZeros ⟨c, t, true, nm⟩ b start) := by
  unfold prefixZeros
  simp only
  by_cases hcond : (decide (c.basePrefix ≠ 0) || c.flag Format.noIntegerLeadingZeros false) = true
  · simp only [hcond, if_true]
    obtain ⟨zeros, b1, hsz, ha1⟩ := skipZeros_tot hc .integer b hb.valid
    have hz : zeros ≤ b1.index := by
      have := iterCount_diff_le c ha1 h0
      unfold skipZeros at hsz
      cases hl : skipZerosLoop c .integer (b.slc.length + 1) b with
      | error x => simp [hl, bind, Except.bind] at hsz
      | ok b2 =>
        simp only [hl, bind, Except.bind, pure, Except.pure, Except.ok.injEq, Prod.mk.injEq] at hsz
        obtain ⟨h1, h2⟩ := hsz
        subst h2; subst h1; exact this
    have hb1 := hb.adv ha1
    simp only [hsz]
    have heq : readPrefix ⟨c, t, true, nm⟩ b1 zeros (start + zeros) = readPrefix ⟨c, t, false, nm⟩ b1 zeros (start + zeros) := rfl
    rw [heq]
    have hrp := readPrefix_total (e := ⟨c, t, false, nm⟩) hc b1 hb1 zeros (start + zeros)
    cases hx : readPrefix ⟨c, t, false, nm⟩ b1 zeros (start + zeros) with
    | error r =>
      -- `Empty` after a prefix, or an iterator failure: no `Ok`
      simp only
      refine Or.inl ⟨?_, ?_⟩
      · intro v k hk; subst hk
        unfold readPrefix at hx
        split at hx
        · split at hx
          · cases hx
          · split at hx <;> cases hx
          · cases hx
        · cases hx
      · intro v k hk; subst hk
        unfold readPrefix at hx
        split at hx
        · split at hx
          · cases hx
          · split at hx <;> cases hx
          · cases hx
        · cases hx
    | ok p =>
      obtain ⟨isPrefix, b2, start2⟩ := p
      have hrp2 := hrp.2 isPrefix b2 start2 hx
      simp only
      exact leadingZeroCheck_lock hc isPrefix b2 hrp2.1 zeros start2 (by have := hrp2.2; omega)
  · simp only [hcond, Bool.false_eq_true, if_false]
    rfl

theorem negBlock_lock (hc : Rel c) {n : Nat} (co isNeg : Bool) (b : Bytes) (hb : Inb n b) (start : Nat) :
    Lock n (negBlock ⟨c, t, false, nm⟩ co isNeg b start) (negBlock ⟨c, t, true, nm⟩ co isNeg b start) := by
  unfold negBlock
  split
  · exact parseDigitsUnchecked_lock hc _ _ _ _ _ hb
  · rfl

theorem mainBlock_lock (hc : Rel c) {n : Nat} (co isNeg : Bool) (b : Bytes) (hb : Inb n b) (value start od : Nat) :
    Lock n (mainBlock ⟨c, t, false, nm⟩ co isNeg b value start od) (mainBlock ⟨c, t, true, nm⟩ co isNeg b value start od) := by
  unfold mainBlock
  split
  · exact parseDigitsUnchecked_lock hc _ _ _ _ _ hb
  · split
    · exact parseDigitsChecked_lock hc _ _ _ _ _ hb
    · exact parseDigitsChecked_lock hc _ _ _ _ _ hb

/-- result of a statement sequence that ended -/
def run (x : Flow Res) : Res := match x with | .ok r => r | .error r => r

theorem digitsBody_agree (hc : Rel c) {n : Nat} (isNeg : Bool) (b : Bytes) (hb : Inb n b) (start od : Nat) :
    Agree n (run (digitsBody ⟨c, t, false, nm⟩ isNeg b start od)) (run (digitsBody ⟨c, t, true, nm⟩ isNeg b start od)) := by
  have h1 := negBlock_lock (t := t) (nm := nm) hc (decide (b.asSlice.length ≤ od)) isNeg b hb start
  have h1t := negBlock_total (e := ⟨c, t, false, nm⟩) hc (decide (b.asSlice.length ≤ od)) isNeg b hb start
  unfold digitsBody
  simp only [hc.hd, Bool.false_and, Bool.false_eq_true, if_false]
  cases hnc : negBlock ⟨c, t, false, nm⟩ (decide (b.asSlice.length ≤ od)) isNeg b start with
  | error rc =>
    cases hnp : negBlock ⟨c, t, true, nm⟩ (decide (b.asSlice.length ≤ od)) isNeg b start with
    | error rp => rw [hnc, hnp] at h1; exact Or.inl h1
    | ok q => rw [hnc, hnp] at h1; exact h1.elim
  | ok p =>
    obtain ⟨b1, v1⟩ := p
    rw [h1.ok_inv b1 v1 hnc]
    rw [hnc] at h1t
    simp only
    have hb1 : Inb n b1 := h1t
    have h2 := mainBlock_lock (t := t) (nm := nm) hc (decide (b.asSlice.length ≤ od)) isNeg b1 hb1 v1 start od
    have h2t := mainBlock_total (e := ⟨c, t, false, nm⟩) hc (decide (b.asSlice.length ≤ od)) isNeg b1 hb1 v1 start od
    cases hmc : mainBlock ⟨c, t, false, nm⟩ (decide (b.asSlice.length ≤ od)) isNeg b1 v1 start od with
    | error rc =>
      cases hmp : mainBlock ⟨c, t, true, nm⟩ (decide (b.asSlice.length ≤ od)) isNeg b1 v1 start od with
      | error rp => rw [hmc, hmp] at h2; exact Or.inl h2
      | ok q => rw [hmc, hmp] at h2; exact h2.elim
    | ok p2 =>
      obtain ⟨b2, v2⟩ := p2
      rw [h2.ok_inv b2 v2 hmc]
      rw [hmc] at h2t
      simp only [run]
      have hb2 : Inb n b2 := h2t
      exact intoOk_agree _ _ _ hb2.1

theorem digitsPhase_agree (hc : Rel c) {n : Nat} (isNeg : Bool) (b : Bytes) (hb : Inb n b) (start : Nat) :
    Agree n (run (digitsPhase ⟨c, t, false, nm⟩ isNeg b start)) (run (digitsPhase ⟨c, t, true, nm⟩ isNeg b start)) :=
  digitsBody_agree hc isNeg b hb start _

/-- **C11 clause 1 on the model, release build, every format without an `unreachable!()` separator dispatch** -/
theorem parseIntFormat_agree (hc : Rel c) (s : List Nat) :
    Agree s.length (parseIntFormat ⟨c, t, false, nm⟩ s) (parseIntFormat ⟨c, t, true, nm⟩ s) := by
  unfold parseIntFormat algorithm
  have heq : ParseIntFormat.parseSign ⟨c, t, true, nm⟩ (Bytes.new s) = ParseIntFormat.parseSign ⟨c, t, false, nm⟩ (Bytes.new s) := rfl
  rw [heq]
  have hs := parseSign_total (e := ⟨c, t, false, nm⟩) hc s
  cases hps : ParseIntFormat.parseSign ⟨c, t, false, nm⟩ (Bytes.new s) with
  | error x => exact Or.inl (AgreeL.same_err _ _)
  | ok p =>
    obtain ⟨isNeg, b⟩ := p
    obtain ⟨hb, h0⟩ := hs.2 isNeg b hps
    simp only
    by_cases hemp : b.isBufferEmpty = true
    · simp only [hemp, if_true]
      have hidx : b.cursor = s.length := by
        simp only [Bytes.isBufferEmpty, decide_eq_true_eq, ge_iff_le] at hemp
        have := hb.1; have := hb.2; simp only [Bytes.cursor]; omega
      have hrq : (⟨c, t, true, nm⟩ : Env).requiredDigits = (⟨c, t, false, nm⟩ : Env).requiredDigits := rfl
      rw [hrq]
      by_cases hr : (⟨c, t, false, nm⟩ : Env).requiredDigits = true
      · simp only [hr, if_true]; exact Or.inl (AgreeL.same_err _ _)
      · simp only [hr, Bool.false_eq_true, if_false]; exact intoOk_agree _ _ _ hidx
    · simp only [hemp, Bool.false_eq_true, if_false]
      have hpl := prefixZeros_lock (t := t) (nm := nm) hc b hb h0 b.cursor
      have hpt := prefixZeros_total (e := ⟨c, t, false, nm⟩) hc b hb h0 b.cursor
      cases hpc : prefixZeros ⟨c, t, false, nm⟩ b b.cursor with
      | error rc =>
        cases hpp : prefixZeros ⟨c, t, true, nm⟩ b b.cursor with
        | error rp => rw [hpc, hpp] at hpl; exact hpl
        | ok q => rw [hpc, hpp] at hpl; exact hpl.elim
      | ok q =>
        obtain ⟨b1, start⟩ := q
        cases hpp : prefixZeros ⟨c, t, true, nm⟩ b b.cursor with
        | error rp => rw [hpc, hpp] at hpl; exact hpl.elim
        | ok q2 =>
          rw [hpc, hpp] at hpl
          simp only [LockA] at hpl
          subst hpl
          rw [hpc] at hpt
          exact digitsPhase_agree hc isNeg b1 hpt start

end LexVerif.Proof.PIF
