import LexVerif.Model.ParseInt
import Mathlib.Data.Int.ModEq
import Mathlib.Tactic.Ring
/-!
# Proof.ParseIntArith — fixed-width arithmetic facts used by the C04 proof

`enc t neg acc` is the bit pattern the implementation holds when the exact magnitude is `acc`
(`-acc` for negative numbers). Wrapping steps commute with `enc` unconditionally (modular arithmetic);
checked steps succeed exactly when the exact value stays in range.
-/
namespace LexVerif.Proof.ParseInt
open LexVerif.Spec LexVerif.Model LexVerif.Model.ParseInt

/-- signed exact value -/
def sgn (neg : Bool) (acc : Nat) : Int := if neg then -(acc : Int) else (acc : Int)

/-- bit pattern of the exact value -/
def enc (t : IntTy) (neg : Bool) (acc : Nat) : Nat := ofInt t (sgn neg acc)

theorem M_pos (t : IntTy) : (0 : Int) < ((2 ^ t.bits : Nat) : Int) := by
  exact_mod_cast Nat.two_pow_pos t.bits

theorem ofInt_cast (t : IntTy) (x : Int) : ((ofInt t x : Nat) : Int) = x % ((2 ^ t.bits : Nat) : Int) := by
  unfold ofInt
  exact Int.toNat_of_nonneg (Int.emod_nonneg _ (ne_of_gt (M_pos t)))

theorem ofInt_lt (t : IntTy) (x : Int) : ofInt t x < 2 ^ t.bits := by
  have h := ofInt_cast t x
  have := Int.emod_lt_of_pos x (M_pos t)
  omega

theorem ofInt_congr (t : IntTy) {x y : Int} (h : x ≡ y [ZMOD ((2 ^ t.bits : Nat) : Int)]) :
    ofInt t x = ofInt t y := by
  unfold ofInt; rw [h]

theorem ofInt_modEq (t : IntTy) (x : Int) : ((ofInt t x : Nat) : Int) ≡ x [ZMOD ((2 ^ t.bits : Nat) : Int)] := by
  rw [ofInt_cast]; exact Int.mod_modEq _ _

/-- a reduced residue congruent to `x` is `ofInt t x` -/
theorem eq_ofInt (t : IntTy) {n : Nat} {x : Int} (hn : n < 2 ^ t.bits)
    (h : (n : Int) ≡ x [ZMOD ((2 ^ t.bits : Nat) : Int)]) : n = ofInt t x := by
  have h1 : ofInt t (n : Int) = n := by
    unfold ofInt
    rw [Int.emod_eq_of_lt (by omega) (by exact_mod_cast hn)]
    simp
  rw [← h1]; exact ofInt_congr t h

theorem natMod_modEq (a M : Nat) : ((a % M : Nat) : Int) ≡ (a : Int) [ZMOD (M : Int)] := by
  rw [Int.natCast_mod]; exact Int.mod_modEq _ _

/-- `value.wrapping_mul(m).wrapping_{add,sub}(x)` is the residue of the exact `value*m ± x`. -/
theorem mulAddWrapping_eq (t : IntTy) (sub : Bool) (v m x : Nat) :
    mulAddWrapping t sub v m x = ofInt t (if sub then (v : Int) * m - x else (v : Int) * m + x) := by
  have hM := Nat.two_pow_pos t.bits
  unfold mulAddWrapping
  cases sub with
  | false =>
    simp only [Bool.false_eq_true, if_false]
    apply eq_ofInt
    · exact Nat.mod_lt _ hM
    · unfold wrappingAdd wrappingMul
      refine (natMod_modEq _ _).trans ?_
      push_cast
      exact Int.ModEq.add_right _ (by exact_mod_cast natMod_modEq (v * m) (2 ^ t.bits))
  | true =>
    simp only [if_true]
    apply eq_ofInt
    · exact Nat.mod_lt _ hM
    · unfold wrappingSub wrappingMul
      refine (natMod_modEq _ _).trans ?_
      have hx : x % 2 ^ t.bits < 2 ^ t.bits := Nat.mod_lt _ hM
      rw [Nat.cast_add, Nat.cast_sub (le_of_lt hx)]
      have h1 : ((v * m % 2 ^ t.bits : Nat) : Int) ≡ (v : Int) * m [ZMOD ((2 ^ t.bits : Nat) : Int)] := by
        exact_mod_cast natMod_modEq (v * m) (2 ^ t.bits)
      have h2 : ((x % 2 ^ t.bits : Nat) : Int) ≡ (x : Int) [ZMOD ((2 ^ t.bits : Nat) : Int)] := natMod_modEq _ _
      have h3 : ((2 ^ t.bits : Nat) : Int) ≡ 0 [ZMOD ((2 ^ t.bits : Nat) : Int)] := by
        simp [Int.ModEq]
      calc ((v * m % 2 ^ t.bits : Nat) : Int) + (((2 ^ t.bits : Nat) : Int) - ((x % 2 ^ t.bits : Nat) : Int))
          ≡ (v : Int) * m + (0 - x) [ZMOD ((2 ^ t.bits : Nat) : Int)] := h1.add (h3.sub h2)
        _ = (v : Int) * m - x := by ring

theorem enc_lt (t : IntTy) (neg : Bool) (acc : Nat) : enc t neg acc < 2 ^ t.bits := ofInt_lt _ _

theorem sgn_step (neg : Bool) (acc r d : Nat) :
    (if neg then sgn neg acc * r - d else sgn neg acc * r + d) = sgn neg (acc * r + d) := by
  cases neg <;> simp [sgn] <;> ring

/-- one unchecked digit step keeps the encoding (no range assumption: pure modular arithmetic) -/
theorem mulAddWrapping_enc (t : IntTy) (neg : Bool) (acc r d : Nat) :
    mulAddWrapping t neg (enc t neg acc) (r % 2 ^ t.bits) d = enc t neg (acc * r + d) := by
  rw [mulAddWrapping_eq]
  unfold enc
  apply ofInt_congr
  rw [← sgn_step]
  have h1 := ofInt_modEq t (sgn neg acc)
  have h2 : ((r % 2 ^ t.bits : Nat) : Int) ≡ (r : Int) [ZMOD ((2 ^ t.bits : Nat) : Int)] := natMod_modEq _ _
  cases neg with
  | false => simp only [Bool.false_eq_true, if_false]; exact (h1.mul h2).add_right _
  | true => simp only [if_true]; exact (h1.mul h2).sub_right _


/-! ### closed forms of `enc`, the signed reading, checked steps -/

theorem enc_pos (t : IntTy) {acc : Nat} (h : acc < 2 ^ t.bits) : enc t false acc = acc :=
  (eq_ofInt t h (by simp [sgn])).symm

theorem enc_neg (t : IntTy) {acc : Nat} (h0 : 0 < acc) (h : acc ≤ 2 ^ t.bits) :
    enc t true acc = 2 ^ t.bits - acc := by
  symm
  apply eq_ofInt t (by omega)
  simp only [sgn, if_true]
  rw [Nat.cast_sub h]
  have h3 : ((2 ^ t.bits : Nat) : Int) ≡ 0 [ZMOD ((2 ^ t.bits : Nat) : Int)] := by simp [Int.ModEq]
  calc ((2 ^ t.bits : Nat) : Int) - (acc : Int) ≡ 0 - acc [ZMOD ((2 ^ t.bits : Nat) : Int)] := h3.sub_right _
    _ = -(acc : Int) := by ring

theorem enc_zero (t : IntTy) (neg : Bool) : enc t neg 0 = 0 := by
  have : sgn neg 0 = ((0 : Nat) : Int) := by cases neg <;> simp [sgn]
  unfold enc; rw [this]
  exact (eq_ofInt t (Nat.two_pow_pos _) (Int.ModEq.refl _)).symm

theorem two_pow_split {b : Nat} (hb : 1 ≤ b) : 2 ^ b = 2 * 2 ^ (b - 1) := by
  obtain ⟨k, rfl⟩ : ∃ k, b = k + 1 := ⟨b - 1, by omega⟩
  simp [Nat.pow_succ, Nat.mul_comm]

theorem maxMag_lt (t : IntTy) (hb : 1 ≤ t.bits) (neg : Bool) (hneg : neg = true → t.signed = true) :
    t.maxMag neg < 2 ^ t.bits := by
  have h2 := two_pow_split hb
  have hp := Nat.two_pow_pos (t.bits - 1)
  unfold IntTy.maxMag
  cases hs : t.signed <;> cases neg
  · simp only [Bool.false_eq_true, if_false]; omega
  · simp [hs] at hneg
  · simp only [if_true, Bool.false_eq_true, if_false]; omega
  · simp only [if_true]; omega

/-- the signed reading of the encoding of an in-range value is the value -/
theorem toInt_enc (t : IntTy) (hb : 1 ≤ t.bits) (neg : Bool) (hneg : neg = true → t.signed = true)
    {acc : Nat} (h : acc ≤ t.maxMag neg) : toInt t (enc t neg acc) = sgn neg acc := by
  have h2 := two_pow_split hb
  have hp := Nat.two_pow_pos (t.bits - 1)
  have hlt := maxMag_lt t hb neg hneg
  cases neg with
  | false =>
    rw [enc_pos t (by omega)]
    unfold toInt sgn
    unfold IntTy.maxMag at h
    cases hs : t.signed
    · simp
    · simp only [hs, if_true, Bool.false_eq_true, if_false] at h
      have : ¬ (2 ^ (t.bits - 1) ≤ acc) := by omega
      simp [this]
  | true =>
    have hs : t.signed = true := hneg rfl
    unfold IntTy.maxMag at h
    simp only [hs, if_true] at h
    by_cases h0 : acc = 0
    · subst h0; rw [enc_zero]; simp [toInt, sgn]
    · rw [enc_neg t (by omega) (by omega)]
      unfold toInt sgn
      have : 2 ^ (t.bits - 1) ≤ 2 ^ t.bits - acc := by omega
      simp only [hs, this, and_self, if_true]
      rw [Nat.cast_sub (by omega)]; ring

theorem inRange_sgn (t : IntTy) (neg : Bool) (a : Nat) :
    (t.minVal ≤ sgn neg a ∧ sgn neg a ≤ t.maxVal) ↔ a ≤ t.maxMag neg := by
  unfold IntTy.minVal IntTy.maxVal sgn
  cases neg <;> simp only [Bool.false_eq_true, if_false, if_true] <;> constructor <;> intro h <;> omega

theorem checked_sgn (t : IntTy) (neg : Bool) (a : Nat) :
    checked t (sgn neg a) = if a ≤ t.maxMag neg then some (enc t neg a) else none := by
  unfold checked
  by_cases h : a ≤ t.maxMag neg
  · rw [if_pos ((inRange_sgn t neg a).2 h), if_pos h]; rfl
  · rw [if_neg (fun h' => h ((inRange_sgn t neg a).1 h')), if_neg h]

theorem toInt_small (t : IntTy) (hb : 8 ≤ t.bits) {x : Nat} (hx : x ≤ 36) : toInt t (x % 2 ^ t.bits) = x := by
  have h128 : 2 ^ 7 ≤ 2 ^ (t.bits - 1) := Nat.pow_le_pow_right (by omega) (by omega)
  have h2 := two_pow_split (show 1 ≤ t.bits by omega)
  have : x % 2 ^ t.bits = x := Nat.mod_eq_of_lt (by omega)
  rw [this]; unfold toInt
  have : ¬ (2 ^ (t.bits - 1) ≤ x) := by omega
  simp [this]

theorem toInt_small' (t : IntTy) (hb : 8 ≤ t.bits) {x : Nat} (hx : x ≤ 36) : toInt t x = x := by
  have := toInt_small t hb hx
  have h128 : 2 ^ 7 ≤ 2 ^ (t.bits - 1) := Nat.pow_le_pow_right (by omega) (by omega)
  have h2 := two_pow_split (show 1 ≤ t.bits by omega)
  rwa [Nat.mod_eq_of_lt (by omega)] at this

/-- `checked_mul(radix).and_then(checked_{add,sub}(digit))` succeeds exactly when the exact value stays in range -/
theorem mulAddChecked_enc (t : IntTy) (hb : 8 ≤ t.bits) (neg : Bool) (hneg : neg = true → t.signed = true)
    {acc r d : Nat} (hacc : acc ≤ t.maxMag neg) (hr : r ≤ 36) (hd : d < r) :
    mulAddChecked t neg (enc t neg acc) (r % 2 ^ t.bits) d =
      if acc * r + d ≤ t.maxMag neg then some (enc t neg (acc * r + d)) else none := by
  unfold mulAddChecked checkedMul
  rw [toInt_enc t (by omega) neg hneg hacc, toInt_small t hb hr]
  have hm : sgn neg acc * (r : Int) = sgn neg (acc * r) := by cases neg <;> simp [sgn]
  rw [hm, checked_sgn]
  by_cases h1 : acc * r ≤ t.maxMag neg
  · rw [if_pos h1]
    simp only
    have hs : (if neg = true then checkedSub t (enc t neg (acc * r)) d else checkedAdd t (enc t neg (acc * r)) d)
        = checked t (sgn neg (acc * r + d)) := by
      unfold checkedSub checkedAdd
      rw [toInt_enc t (by omega) neg hneg h1, toInt_small' t hb (by omega : d ≤ 36)]
      cases neg <;> simp [sgn] <;> ring_nf
    rw [hs, checked_sgn]
  · rw [if_neg h1, if_neg (by omega)]
end LexVerif.Proof.ParseInt
