import LexVerif.Proof.WriteBinaryArith
import LexVerif.Proof.WriteBinaryDigits
/-!
# Proof.WriteBinaryShape — the digit strings of the three layouts of binary.rs

Each layout's digits (`int ++ frac`) are `0…0 ++ core ++ 0…0` where `core` is the trimmed mantissa digit string, with
an explicit relation between the number of appended zeros, the fraction length and the layout parameters.
-/
namespace LexVerif.Proof.WriteBinaryShape
open LexVerif.Spec LexVerif.Model LexVerif.Model.WriteBinary LexVerif.Proof.WriteBinaryDigits
open LexVerif.Model.Dragonbox (i32)

theorem zeros_join (a p : Nat) :
    List.replicate a 0 ++ ([0] ++ List.replicate p 0) = List.replicate (a + 1 + p) (0 : Nat) := by
  have h1 : ([0] : List Nat) = List.replicate 1 0 := rfl
  rw [h1, List.replicate_append_replicate, List.replicate_append_replicate, Nat.add_assoc]

theorem pad_eq (e c : Nat) : pad e c = List.replicate (e - c) 0 := by
  unfold pad
  by_cases h : e > c
  · rw [if_pos h]
  · rw [if_neg h]
    have : e - c = 0 := by omega
    rw [this]; rfl

theorem minExactDigits_ge (c : Nat) (o : WOpts) : c ≤ minExactDigits c o := by
  unfold minExactDigits
  cases o.minDigits with
  | none => exact Nat.le_refl _
  | some m => exact Nat.le_max_right _ _

/-- scientific: digits are `d0 :: rest` followed by `j` zeros, and `j - |frac| = -|rest|` -/
theorem sci_shape (fmt : Format) (o : WOpts) (w r m : Nat) (exp scaled : Int) (d0 : Nat) (tail : List Nat)
    (hds : mantissaDigits w r m exp = d0 :: tail) :
    ∃ j : Nat, (sciLayout fmt o w r m exp scaled).int ++ (sciLayout fmt o w r m exp scaled).frac
        = List.replicate 0 0 ++ (d0 :: rtrimZeros tail) ++ List.replicate j 0
      ∧ (j : Int) - ((sciLayout fmt o w r m exp scaled).frac.length : Nat) = -((rtrimZeros tail).length : Nat)
      ∧ (sciLayout fmt o w r m exp scaled).exp = some scaled := by
  unfold sciLayout
  simp only [hds, List.headD_cons, List.tail_cons]
  by_cases c1 : ¬ fmt.noExponentWithoutFraction ∧ 1 + (rtrimZeros tail).length = 1 ∧ o.trim
  · rw [if_pos c1]
    have hl : (rtrimZeros tail).length = 0 := by omega
    have : rtrimZeros tail = [] := List.eq_nil_of_length_eq_zero hl
    refine ⟨0, ?_, ?_, rfl⟩
    · simp [this]
    · simp [hl]
  · rw [if_neg c1]
    by_cases c2 : minExactDigits (1 + (rtrimZeros tail).length) o < 2
    · rw [if_pos c2]
      have hge := minExactDigits_ge (1 + (rtrimZeros tail).length) o
      have hl : (rtrimZeros tail).length = 0 := by omega
      have : rtrimZeros tail = [] := List.eq_nil_of_length_eq_zero hl
      refine ⟨1, ?_, ?_, rfl⟩
      · simp [this]
      · simp [hl]
    · rw [if_neg c2]
      refine ⟨minExactDigits (1 + (rtrimZeros tail).length) o - (1 + (rtrimZeros tail).length), ?_, ?_, rfl⟩
      · simp [pad_eq]
      · simp only [pad_eq, List.length_append, List.length_replicate]
        omega

/-- negative positional: `zd` zeros (the `0.` digit and the padding), the trimmed digits, `j` zeros -/
theorem neg_shape (o : WOpts) (w r m : Nat) (exp sciExp : Int) (zd : Nat)
    (hzd : (fastCeildiv (i32 (-sciExp)) (fastLog2 r)).toNat = zd) (hpos : 1 ≤ zd) :
    ∃ j : Nat, (negLayout o w r m exp sciExp).int ++ (negLayout o w r m exp sciExp).frac
        = List.replicate zd 0 ++ rtrimZeros (mantissaDigits w r m exp) ++ List.replicate j 0
      ∧ (j : Int) - ((negLayout o w r m exp sciExp).frac.length : Nat)
          = -(((zd - 1 + (rtrimZeros (mantissaDigits w r m exp)).length : Nat)) : Int)
      ∧ (negLayout o w r m exp sciExp).exp = none := by
  unfold negLayout
  simp only [hzd, pad_eq]
  refine ⟨minExactDigits (rtrimZeros (mantissaDigits w r m exp)).length o
      - (rtrimZeros (mantissaDigits w r m exp)).length, ?_, ?_, trivial⟩
  · have : zd = (zd - 1) + 1 := by omega
    conv => rhs; rw [this, List.replicate_succ]
    simp
  · simp only [List.length_append, List.length_replicate]
    omega

/-- positive positional: the trimmed digits followed by `j` zeros, and `j - |frac| = leading - |trimmed|` -/
theorem pos_shape (o : WOpts) (w r m : Nat) (exp sciExp : Int) (leading : Nat)
    (hl : (Int.tdiv sciExp (fastLog2 r)).toNat + 1 = leading) :
    ∃ j : Nat, (posLayout o w r m exp sciExp).int ++ (posLayout o w r m exp sciExp).frac
        = List.replicate 0 0 ++ rtrimZeros (mantissaDigits w r m exp) ++ List.replicate j 0
      ∧ (j : Int) - ((posLayout o w r m exp sciExp).frac.length : Nat)
          = (leading : Int) - ((rtrimZeros (mantissaDigits w r m exp)).length : Nat)
      ∧ (posLayout o w r m exp sciExp).exp = none := by
  unfold posLayout
  simp only [hl, pad_eq]
  by_cases c1 : leading ≥ (rtrimZeros (mantissaDigits w r m exp)).length
  · rw [if_pos c1]
    by_cases c2 : o.trim = true
    · rw [if_pos c2]
      refine ⟨leading - (rtrimZeros (mantissaDigits w r m exp)).length, by simp, ?_, rfl⟩
      simp only [List.length_nil]; omega
    · rw [if_neg c2]
      refine ⟨leading - (rtrimZeros (mantissaDigits w r m exp)).length + 1
        + (minExactDigits ((rtrimZeros (mantissaDigits w r m exp)).length + 1) o
            - ((rtrimZeros (mantissaDigits w r m exp)).length + 1)), ?_, ?_, rfl⟩
      · simp only [List.replicate_zero, List.nil_append, List.append_assoc]
        congr 1
        exact zeros_join _ _
      · simp only [List.length_append, List.length_replicate, List.length_cons, List.length_nil]
        omega
  · rw [if_neg c1]
    refine ⟨minExactDigits (rtrimZeros (mantissaDigits w r m exp)).length o
      - (rtrimZeros (mantissaDigits w r m exp)).length, ?_, ?_, rfl⟩
    · simp only [List.replicate_zero, List.nil_append]
      rw [← List.append_assoc, List.take_append_drop]
    · simp only [List.length_append, List.length_replicate, List.length_drop]
      omega

end LexVerif.Proof.WriteBinaryShape
