import LexVerif.Proof.WriteFloatBuf
/-!
# Proof.WriteFloatCompact — the buffer-faithful `compact.rs` layout functions write the list-level bytes
-/
namespace LexVerif.Proof.WriteFloatCompact
open LexVerif.Spec LexVerif.Model LexVerif.Model.WriteFloat LexVerif.Proof.WriteFloatBuf
open LexVerif.Model.WriteInt (Res)

/-- pointwise comparison of a chain of `put`s with a list-level expression -/
macro "bytes_tac" : tactic => `(tactic|
  (intro i hi
   try dsimp only at hi
   simp only [put_getD, put_length, List.length_replicate, chars_length, List.length_cons, List.length_nil,
     List.length_take, List.length_drop]
   simp only [List.getD_eq_getElem?_getD]
   grind [zeros, chars_length]))

theorem negC_bytes (ds : List Nat) (sciExp : Int) (o : WOpts) (b : WBuf) (r : Out) (hneg : sciExp < 0)
    (h : negC ds sciExp o b = .ok r) :
    r.buf.bytes.take r.cursor = writeNegative ds sciExp { o with maxDigits := none } := by
  unfold negC at h
  simp only [bind_ok_iff, set_ok_iff, blit_ok_iff, fill_ok_iff, padZeros_ok_iff] at h
  obtain ⟨b1, ⟨h1, rfl⟩, b2, ⟨h2, rfl⟩, b3, ⟨h3, rfl⟩, b4, ⟨h4, rfl⟩, h5⟩ := h
  simp only [put_len, put_length, WBuf.len, chars_length] at h1 h2 h3 h4 h5
  unfold writeNegative
  simp only [tr_noMax, minExact_noMax, Bool.false_eq_true, false_and, if_false]
  have hk : 1 ≤ sciExp.natAbs := by omega
  split at h5
  · obtain ⟨h6, rfl⟩ := h5
    rename_i hlt
    simp only [hlt, if_true]
    apply take_eq_of_getD
    · simp only [put_length]; omega
    · simp; omega
    · bytes_tac
  · subst h5
    rename_i hlt
    simp only [hlt, if_false]
    apply take_eq_of_getD
    · simp only [put_length]; omega
    · simp; omega
    · bytes_tac

theorem writeNegative_noMax (ds : List Nat) (e : Int) (o : WOpts) :
    writeNegative ds e { o with maxDigits := none } =
      [48, o.dp] ++ zeros (e.natAbs - 1) ++ chars ds ++
        (if ds.length < minExactDigits ds.length o then zeros (minExactDigits ds.length o - ds.length) else []) := rfl

/-- positional layout of a value ≥ 1 for final digits `ds` -/
def posList (ds : List Nat) (e : Int) (o : WOpts) : List Nat :=
  (if e.toNat + 1 ≥ ds.length then
    (if o.trim then chars ds ++ zeros (e.toNat + 1 - ds.length)
     else chars ds ++ zeros (e.toNat + 1 - ds.length) ++ [o.dp, 48] ++
       (if minExactDigits (e.toNat + 1 + 1) o > e.toNat + 1 + 1 then
          zeros (minExactDigits (e.toNat + 1 + 1) o - (e.toNat + 1 + 1)) else []))
  else chars (ds.take (e.toNat + 1)) ++ [o.dp] ++ chars (ds.drop (e.toNat + 1)) ++
    (if minExactDigits ds.length o > ds.length then zeros (minExactDigits ds.length o - ds.length) else []))

theorem writePositive_noMax (ds : List Nat) (e : Int) (o : WOpts) :
    writePositive ds e { o with maxDigits := none } = posList (trimPos o (e.toNat + 1) ds) e o := rfl

/-- finish: `take cursor` of a chain of `put`s equals a list-level expression -/
macro "finish_bytes" : tactic => `(tactic|
  (apply take_eq_of_getD
   · first | omega | (simp only [put_length] <;> omega) | (simp <;> omega)
   · first | omega | (simp <;> omega)
   · bytes_tac))

theorem posCLayout_bytes (ds : List Nat) (sciExp : Int) (o : WOpts) (b : WBuf) (r : Out)
    (h : posCLayout ds sciExp o b = .ok r) :
    r.buf.bytes.take r.cursor = posList ds sciExp o := by
  unfold posCLayout at h
  unfold posList
  simp only [] at h
  by_cases hge : sciExp.toNat + 1 ≥ ds.length
  · simp only [hge, ↓reduceIte] at h ⊢
    simp only [bind_ok_iff, blit_ok_iff, fill_ok_iff] at h
    obtain ⟨b1, ⟨h1, rfl⟩, b2, ⟨h2, rfl⟩, h3⟩ := h
    by_cases htrim : o.trim = true
    · simp only [htrim, not_true_eq_false, ↓reduceIte, Res.ok.injEq] at h3 ⊢
      subst h3
      simp only [put_len, put_length, WBuf.len, chars_length] at h1 h2
      finish_bytes
    · simp only [htrim, not_false_eq_true, ↓reduceIte, Bool.false_eq_true] at h3 ⊢
      simp only [bind_ok_iff, set_ok_iff, padZeros_ok_iff] at h3
      obtain ⟨b3, ⟨h4, rfl⟩, b4, ⟨h5, rfl⟩, h6⟩ := h3
      simp only [put_len, put_length, WBuf.len, chars_length] at h1 h2 h4 h5 h6
      by_cases hlt : sciExp.toNat + 1 + 1 < minExactDigits (sciExp.toNat + 1 + 1) o
      · have hlt' : minExactDigits (sciExp.toNat + 1 + 1) o > sciExp.toNat + 1 + 1 := hlt
        simp only [hlt, hlt', ↓reduceIte] at h6 ⊢
        obtain ⟨h7, rfl⟩ := h6
        finish_bytes
      · have hlt' : ¬ minExactDigits (sciExp.toNat + 1 + 1) o > sciExp.toNat + 1 + 1 := hlt
        simp only [hlt, hlt', ↓reduceIte] at h6 ⊢
        subst h6
        finish_bytes
  · simp only [hge, ↓reduceIte] at h ⊢
    simp only [bind_ok_iff, blit_ok_iff, set_ok_iff, padZeros_ok_iff] at h
    obtain ⟨b1, ⟨h1, rfl⟩, b2, ⟨h2, rfl⟩, b3, ⟨h3, rfl⟩, h4⟩ := h
    simp only [put_len, put_length, WBuf.len, chars_length, List.length_take, List.length_drop] at h1 h2 h3 h4
    have hA : (chars (ds.take (sciExp.toNat + 1))).length = sciExp.toNat + 1 := by simp; omega
    have hB : (chars (ds.drop (sciExp.toNat + 1))).length = ds.length - (sciExp.toNat + 1) := by simp
    generalize chars (ds.take (sciExp.toNat + 1)) = A at hA ⊢ h4
    generalize chars (ds.drop (sciExp.toNat + 1)) = B at hB ⊢ h4
    generalize sciExp.toNat = n at *
    by_cases hlt : ds.length < minExactDigits ds.length o
    · have hlt' : minExactDigits ds.length o > ds.length := hlt
      simp only [hlt, hlt', ↓reduceIte] at h4 ⊢
      obtain ⟨h5, rfl⟩ := h4
      finish_bytes
    · have hlt' : ¬ minExactDigits ds.length o > ds.length := hlt
      simp only [hlt, hlt', ↓reduceIte] at h4 ⊢
      subst h4
      finish_bytes

theorem posC_bytes (ds : List Nat) (sciExp : Int) (o : WOpts) (b : WBuf) (r : Out)
    (h : posC ds sciExp o b = .ok r) :
    r.buf.bytes.take r.cursor = writePositive ds sciExp { o with maxDigits := none } := by
  rw [writePositive_noMax]
  exact posCLayout_bytes _ sciExp o b r h

theorem writeExponent_eq (fmt : Format) (feats : Features) (e : Int) (c r : Nat) :
    writeExponent fmt feats e c r = [c] ++ expSign fmt feats e ++ numeral r e.natAbs := rfl

/-- scientific layout for final digits `ds` -/
def sciList (fmt : Format) (feats : Features) (ds : List Nat) (e : Int) (o : WOpts) (r : Nat) : List Nat :=
  (if ¬ fmt.noExponentWithoutFraction ∧ ds.length = 1 ∧ o.trim then [digitChar (ds.headD 0)]
   else if ds.length < minExactDigits ds.length o then
     [digitChar (ds.headD 0), o.dp] ++ chars ds.tail ++ zeros (minExactDigits ds.length o - ds.length)
   else if ds.length = 1 then [digitChar (ds.headD 0), o.dp, 48]
   else [digitChar (ds.headD 0), o.dp] ++ chars ds.tail)
  ++ ([o.exp] ++ expSign fmt feats e ++ numeral r e.natAbs)

theorem writeScientific_noMax (fmt : Format) (feats : Features) (ds : List Nat) (e : Int) (o : WOpts) (r : Nat) :
    writeScientific fmt feats ds e { o with maxDigits := none } r = sciList fmt feats (trimSci o ds) e o r := by
  simp [writeScientific, writeExponent_eq, sciList]

/-- `write_exponent` appends the exponent text to what precedes the cursor -/
theorem writeExponentB_bytes (fmt : Format) (feats : Features) (b : WBuf) (cursor : Nat) (e : Int) (c : Nat) (r : Out)
    (h : writeExponentB fmt feats b cursor e c = .ok r) :
    r.buf.len = b.len ∧
    r.buf.bytes.take r.cursor = b.bytes.take cursor ++ writeExponent fmt feats e c fmt.exponentRadix := by
  rw [writeExponentB_ok_iff] at h
  obtain ⟨e1, e2, e3, e4, rfl⟩ := h
  rw [writeExponent_eq]
  generalize numeral fmt.exponentRadix e.natAbs = N at e3 e4 ⊢
  generalize expSign fmt feats e = S at e2 e3 e4 ⊢
  simp only [put_len, put_length, WBuf.len] at e1 e2 e3 e4
  refine ⟨by simp [WBuf.len], ?_⟩
  apply take_eq_of_getD
  · simp only [put_length]; omega
  · simp; omega
  · intro i hi
    simp only [put_getD, put_length, List.length_cons, List.length_nil]
    simp only [List.getD_eq_getElem?_getD]
    grind

/-- pointwise step using the hypothesis `hb` about the first bytes -/
macro "body_tac" hb:ident : tactic => `(tactic|
  (intro i hi
   try dsimp only at hi
   have hbi := $hb i
   simp only [put_getD, put_length, List.length_replicate, List.length_cons, List.length_nil] at hbi ⊢
   simp only [List.getD_eq_getElem?_getD] at hbi ⊢
   grind [zeros]))

/-- the mantissa part of scientific notation; `hb`: once the fraction digits are in place the first `n + 1` bytes
are the first digit, the point and the other digits -/
theorem sciBody_bytes (fmt : Format) (n : Nat) (frac T : List Nat) (o : WOpts) (b : WBuf) (r : Out) (d0 : Nat)
    (hn : 1 ≤ n) (hT : T.length = n - 1) (hlen : 2 ≤ b.bytes.length)
    (hlen' : 2 + frac.length ≤ b.bytes.length → n + 1 ≤ b.bytes.length) (hfrac : frac.length ≤ n - 1)
    (hb : 2 + frac.length ≤ b.bytes.length → ∀ i, i < n + 1 → (b.put 2 frac).bytes.getD i 0 = ([d0, o.dp] ++ T).getD i 0)
    (h : sciBody fmt n frac o b = .ok r) :
    r.buf.len = b.len ∧
    r.buf.bytes.take r.cursor =
      (if ¬ fmt.noExponentWithoutFraction = true ∧ n = 1 ∧ o.trim = true then [d0]
       else if n < minExactDigits n o then [d0, o.dp] ++ T ++ zeros (minExactDigits n o - n)
       else if n = 1 then [d0, o.dp, 48]
       else [d0, o.dp] ++ T) := by
  unfold sciBody at h
  dsimp only at h
  by_cases c1 : ¬ fmt.noExponentWithoutFraction = true ∧ n = 1 ∧ o.trim = true
  · rw [if_pos c1] at h ⊢
    simp only [Res.ok.injEq] at h
    subst h
    refine ⟨rfl, ?_⟩
    apply take_eq_of_getD
    · dsimp only; omega
    · simp
    · have hb' := hb (by omega)
      body_tac hb'
  · rw [if_neg c1] at h ⊢
    by_cases c2 : n < minExactDigits n o
    · rw [if_pos c2] at h ⊢
      simp only [bind_ok_iff, blit_ok_iff, padZeros_ok_iff, if_pos c2] at h
      obtain ⟨b3, ⟨h5, rfl⟩, h6, rfl⟩ := h
      simp only [put_len, put_length, WBuf.len] at h5 h6
      refine ⟨by simp [WBuf.len], ?_⟩
      apply take_eq_of_getD
      · simp only [put_length]; omega
      · simp; omega
      · have hb' := hb h5
        body_tac hb'
    · rw [if_neg c2] at h ⊢
      by_cases c3 : n = 1
      · rw [if_pos c3] at h ⊢
        simp only [bind_ok_iff, set_ok_iff, Res.ok.injEq] at h
        obtain ⟨b3, ⟨h5, rfl⟩, rfl⟩ := h
        simp only [put_len, put_length, WBuf.len] at h5
        refine ⟨by simp [WBuf.len], ?_⟩
        apply take_eq_of_getD
        · simp only [put_length]; omega
        · simp
        · have hb' := hb (by omega)
          body_tac hb'
      · rw [if_neg c3] at h ⊢
        simp only [bind_ok_iff, blit_ok_iff, Res.ok.injEq] at h
        obtain ⟨b3, ⟨h5, rfl⟩, rfl⟩ := h
        simp only [put_len, put_length, WBuf.len] at h5
        refine ⟨by simp [WBuf.len], ?_⟩
        apply take_eq_of_getD
        · simp only [put_length]; exact hlen' h5
        · simp; omega
        · have hb' := hb h5
          body_tac hb'

theorem sciCLayout_bytes (fmt : Format) (feats : Features) (ds : List Nat) (sciExp : Int) (o : WOpts) (b : WBuf) (r : Out)
    (hds : 1 ≤ ds.length) (h : sciCLayout fmt feats ds sciExp o b = .ok r) :
    r.buf.bytes.take r.cursor = sciList fmt feats ds sciExp o fmt.exponentRadix := by
  unfold sciCLayout at h
  unfold sciList
  simp only [bind_ok_iff, set_ok_iff] at h
  obtain ⟨b1, ⟨h1, rfl⟩, b2, ⟨h2, rfl⟩, r1, h3, h4⟩ := h
  simp only [put_len, put_length, WBuf.len] at h1 h2
  have hT : (chars ds.tail).length = ds.length - 1 := by simp
  have hbody := sciBody_bytes fmt ds.length (chars ds.tail) (chars ds.tail) o _ r1 (digitChar (ds.headD 0)) hds hT
    (by simp only [put_length]; omega) (by simp only [put_length, hT]; omega) (by omega)
    (by
      intro hle i hi
      simp only [put_length] at hle
      simp only [put_getD, put_length, List.length_cons, List.length_nil]
      simp only [List.getD_eq_getElem?_getD]
      grind) h3
  obtain ⟨hl, hbytes⟩ := hbody
  obtain ⟨_, hexp⟩ := writeExponentB_bytes fmt feats _ _ _ _ r h4
  rw [hexp, hbytes, writeExponent_eq]

theorem sciC_bytes (fmt : Format) (feats : Features) (ds : List Nat) (sciExp : Int) (o : WOpts) (b : WBuf) (r : Out)
    (hds : 1 ≤ ds.length) (h : sciC fmt feats ds sciExp o b = .ok r) :
    r.buf.bytes.take r.cursor = writeScientific fmt feats ds sciExp { o with maxDigits := none } fmt.exponentRadix := by
  rw [writeScientific_noMax]
  exact sciCLayout_bytes fmt feats _ sciExp o b r (trimSci_length o ds hds).1 h

/-- **`compact.rs` agrees with the list level**: whenever the buffer-faithful `compact::write_float` succeeds, the
returned prefix is exactly `writeDigitsC`. -/
theorem decimalC_bytes (fmt : Format) (feats : Features) (debug : Bool) (ds : List Nat) (sciExp : Int) (o : WOpts)
    (b : WBuf) (r : Out) (hds : 1 ≤ ds.length) (hmx : o.maxDigits ≠ some 0)
    (h : decimalC fmt feats debug ds sciExp o b = .ok r) :
    r.buf.bytes.take r.cursor = writeDigitsC fmt feats ds sciExp o := by
  unfold decimalC at h
  unfold writeDigitsC
  have hl := (truncateAndRound_length ds o hds hmx).1
  generalize truncateAndRound ds o = tr at h hl ⊢
  dsimp only at h ⊢
  by_cases c0 : ds.length > 32
  · rw [if_pos c0] at h; cases h
  · rw [if_neg c0] at h
    by_cases c1 : debug = true ∧ endsInZero tr.1 = true
    · rw [if_pos c1] at h; cases h
    · rw [if_neg c1] at h
      generalize hsci : sciExp + (if tr.2 = true then 1 else 0) = sci at h ⊢
      by_cases c2 : ¬ fmt.noExponentNotation = true ∧
          (fmt.requiredExponentNotation = true ∨ sci < o.negBreak.getD (-5) ∨ sci > o.posBreak.getD 9)
      · rw [if_pos c2] at h ⊢
        exact sciC_bytes fmt feats tr.1 sci o b r hl h
      · rw [if_neg c2] at h ⊢
        by_cases c3 : sci < 0
        · rw [if_pos c3] at h ⊢
          exact negC_bytes tr.1 sci o b r c3 h
        · rw [if_neg c3] at h ⊢
          exact posC_bytes tr.1 sci o b r h

end LexVerif.Proof.WriteFloatCompact
