import LexVerif.Proof.GrammarNumber
/-!
# Proof.GrammarMany — the many-digits re-parse changes neither the verdict nor the syntactic content

`manyDigitsPhase` (the re-parse when more than `u64_step` digits were seen) only recomputes `mantissa` /
`exponent`: when it returns, sign, stored integer / fraction slices, explicit exponent and count are the ones
already determined; and it has no `Error::Kind(idx)` exit of its own (its only failure exits are the
`unwrap()` panic and the unchecked-access faults, which are C10's subject).
-/
namespace LexVerif.Proof.Grammar
open LexVerif LexVerif.Spec LexVerif.Model

/-- no proper parse error (`Error::Kind(idx)`) comes out of `x` -/
structure NoErr {α : Type} (x : Except Err α) : Prop where
  h : ∀ k i, x ≠ .error (.err k i)

theorem NoErr.ok {α : Type} (a : α) : NoErr (.ok a : Except Err α) := ⟨by intro k i h; cases h⟩
theorem NoErr.pure {α : Type} (a : α) : NoErr (pure a : Except Err α) := NoErr.ok a
theorem NoErr.panic {α : Type} (t : String) : NoErr (.error (.panic t) : Except Err α) := ⟨by intro k i h; cases h⟩
theorem NoErr.fault {α : Type} (t : String) : NoErr (.error (.fault t) : Except Err α) := ⟨by intro k i h; cases h⟩

theorem NoErr.bind {α β : Type} {x : Except Err α} {f : α → Except Err β} (hx : NoErr x) (hf : ∀ a, NoErr (f a)) :
    NoErr (x >>= f) := by
  constructor
  intro k i h
  change Except.bind x f = _ at h
  cases x with
  | error e =>
    have h' : (Except.error e : Except Err β) = Except.error (Err.err k i) := h
    injection h' with h'
    exact hx.h k i (by rw [h'])
  | ok a => exact (hf a).h k i h

theorem NoErr.ite {α : Type} {p : Prop} [Decidable p] {x y : Except Err α} (hx : NoErr x) (hy : NoErr y) :
    NoErr (if p then x else y) := by
  split <;> assumption

theorem NoErr.dite {α : Type} {p : Prop} [Decidable p] {x : p → Except Err α} {y : ¬p → Except Err α}
    (hx : ∀ h, NoErr (x h)) (hy : ∀ h, NoErr (y h)) : NoErr (if h : p then x h else y h) := by
  split
  · exact hx _
  · exact hy _

theorem stepBy_noErr (c : Cfg) (contig : Bool) (n : Nat) (b : Bytes) : NoErr (b.stepBy c contig n) := by
  unfold Bytes.stepBy
  repeat (first | exact NoErr.panic _ | exact NoErr.ok _ | apply NoErr.ite)

theorem stepUnchecked_noErr (c : Cfg) (contig : Bool) (b : Bytes) : NoErr (b.stepUnchecked c contig) := by
  unfold Bytes.stepUnchecked
  exact NoErr.ite (NoErr.panic _) (stepBy_noErr c contig 1 b)

theorem step_noErr (c : Cfg) (b : Bytes) : NoErr (b.step c) := stepUnchecked_noErr c _ b

theorem iterStep_noErr (c : Cfg) (k : Comp) (b : Bytes) : NoErr (iterStep c k b) := stepUnchecked_noErr c _ b

theorem peek_noErr (c : Cfg) (k : Comp) (b : Bytes) : NoErr (peek c k b) := by
  unfold peek
  split
  · exact NoErr.ok _
  · exact NoErr.ok _
  · exact NoErr.panic _

/-- structural walk over a `do` block: every leaf is `pure`, a panic / fault, or a call already known to be `NoErr` -/
macro "noerr_step" : tactic => `(tactic| first
  | exact NoErr.ok _ | exact NoErr.pure _ | exact NoErr.panic _ | exact NoErr.fault _
  | assumption
  | apply peek_noErr | apply iterStep_noErr | apply step_noErr | apply stepUnchecked_noErr | apply stepBy_noErr
  | apply NoErr.ite
  | apply NoErr.bind
  | intro _
  | split)

theorem readIfValueCased_noErr (c : Cfg) (k : Comp) (v : Nat) (b : Bytes) : NoErr (readIfValueCased c k v b) := by
  unfold readIfValueCased
  repeat noerr_step

theorem skipZerosLoop_noErr (c : Cfg) (k : Comp) : ∀ (fuel : Nat) (b : Bytes), NoErr (skipZerosLoop c k fuel b) := by
  intro fuel
  induction fuel with
  | zero => intro b; exact NoErr.fault _
  | succ n ih =>
    intro b
    unfold skipZerosLoop
    refine NoErr.bind (readIfValueCased_noErr c k 48 b) ?_
    repeat (first | apply ih | noerr_step)

theorem skipZeros_noErr (c : Cfg) (k : Comp) (b : Bytes) : NoErr (skipZeros c k b) := by
  unfold skipZeros
  refine NoErr.bind (skipZerosLoop_noErr c k _ b) ?_
  repeat noerr_step

theorem tryParse8_noErr (c : Cfg) (k : Comp) (b : Bytes) : NoErr (tryParse8 c k b) := by
  unfold tryParse8
  repeat noerr_step

theorem u64Loop8_noErr (c : Cfg) (k : Comp) : ∀ (fuel : Nat) (b : Bytes) (m step : Nat),
    NoErr (u64Loop8 c k fuel b m step) := by
  intro fuel
  induction fuel with
  | zero => intro b m step; exact NoErr.fault _
  | succ n ih =>
    intro b m step
    unfold u64Loop8
    repeat (first | apply ih | apply tryParse8_noErr | noerr_step)

theorem u64Loop1_noErr (c : Cfg) (k : Comp) : ∀ (fuel : Nat) (b : Bytes) (m step : Nat),
    NoErr (u64Loop1 c k fuel b m step) := by
  intro fuel
  induction fuel with
  | zero => intro b m step; exact NoErr.fault _
  | succ n ih =>
    intro b m step
    unfold u64Loop1
    repeat (first | apply ih | noerr_step)

theorem parseU64Digits_noErr (c : Cfg) (k : Comp) (b : Bytes) (m step : Nat) :
    NoErr (parseU64Digits c k b m step) := by
  unfold parseU64Digits
  repeat (first | apply u64Loop1_noErr | apply u64Loop8_noErr | noerr_step)

theorem scaleExponent_noErr (c : Cfg) (x : Int) : NoErr (scaleExponent c x) := by
  unfold scaleExponent
  repeat noerr_step

theorem manyDigitsPhase_noErr (c : Cfg) (o : POpts) (neg : Bool) (ip : IntPart) (fp : FracPart) (ep : ExpPart)
    (nDigits step : Nat) (e0 : Int) (endIdx : Nat) :
    NoErr (manyDigitsPhase c o neg ip fp ep nDigits step e0 endIdx) := by
  unfold manyDigitsPhase
  repeat (first | apply skipZeros_noErr | apply parseU64Digits_noErr | apply scaleExponent_noErr | noerr_step)


/-- every successful result of `x` satisfies `P` -/
structure Post {α : Type} (P : α → Prop) (x : Except Err α) : Prop where
  h : ∀ a, x = .ok a → P a

theorem Post.ok {α : Type} {P : α → Prop} {a : α} (h : P a) : Post P (.ok a : Except Err α) :=
  ⟨by intro b hb; cases hb; exact h⟩
theorem Post.pure {α : Type} {P : α → Prop} {a : α} (h : P a) : Post P (pure a : Except Err α) := Post.ok h
theorem Post.error {α : Type} {P : α → Prop} (e : Err) : Post P (.error e : Except Err α) :=
  ⟨by intro b hb; cases hb⟩
theorem Post.bind {α β : Type} {P : β → Prop} {x : Except Err α} {f : α → Except Err β}
    (hf : ∀ a, Post P (f a)) : Post P (x >>= f) := by
  constructor
  intro b hb
  change Except.bind x f = _ at hb
  cases x with
  | error e => cases hb
  | ok a => exact (hf a).h b hb
theorem Post.ite {α : Type} {P : α → Prop} {p : Prop} [Decidable p] {x y : Except Err α}
    (hx : Post P x) (hy : Post P y) : Post P (if p then x else y) := by
  split <;> assumption

/-- when the many-digits re-parse returns, sign, stored digit slices, explicit exponent and count are unchanged -/
theorem manyDigitsPhase_fields (c : Cfg) (o : POpts) (neg : Bool) (ip : IntPart) (fp : FracPart) (ep : ExpPart)
    (nDigits step : Nat) (e0 : Int) (endIdx : Nat) :
    Post (fun r : Number × Nat => r.1.isNegative = neg ∧ r.1.integer = ip.integerDigits ∧
        r.1.fraction = fp.fraction ∧ r.1.explicitExp = ep.explicit ∧ r.2 = endIdx)
      (manyDigitsPhase c o neg ip fp ep nDigits step e0 endIdx) := by
  unfold manyDigitsPhase
  repeat (first
    | exact Post.pure ⟨rfl, rfl, rfl, rfl, rfl⟩
    | exact Post.error _
    | apply Post.bind
    | apply Post.ite
    | intro _
    | split)

end LexVerif.Proof.Grammar
