import LexVerif.Model.WriteBinaryOpts
import LexVerif.Proof.WriteBinaryExact
import LexVerif.Proof.WriteFloatRound
/-!
# Proof.WriteBinaryOpts — `binary::truncate_and_round` (current code): what it computes, and when the layouts that
follow it denote the rounded value
-/
namespace LexVerif.Proof.WriteBinaryOpts
open LexVerif.Spec LexVerif.Model LexVerif.Model.WriteBinary
open LexVerif.Proof.WriteBinaryArith LexVerif.Proof.WriteBinaryExact

/-- a number with `2^(b-1) ≤ x < 2^b` has `b` significant bits -/
theorem significantBits_unique {x b : Nat} (hb : 1 ≤ b) (h1 : 2 ^ (b - 1) ≤ x) (h2 : x < 2 ^ b) : significantBits x = b := by
  have hx : 0 < x := Nat.lt_of_lt_of_le (Nat.two_pow_pos _) h1
  obtain ⟨s1, s2, s3⟩ := significantBits_spec hx
  have a : significantBits x - 1 < b := (Nat.pow_lt_pow_iff_right (by decide : 1 < 2)).mp (Nat.lt_of_le_of_lt s2 h2)
  have c : b - 1 < significantBits x := (Nat.pow_lt_pow_iff_right (by decide : 1 < 2)).mp (Nat.lt_of_le_of_lt h1 s3)
  omega

theorem significantBits_shr {m k : Nat} (hm : 0 < m) (hk : k < significantBits m) :
    significantBits (m >>> k) = significantBits m - k := by
  obtain ⟨s1, s2, s3⟩ := significantBits_spec hm
  rw [Nat.shiftRight_eq_div_pow]
  apply significantBits_unique (by omega)
  · rw [Nat.le_div_iff_mul_le (Nat.two_pow_pos _), ← Nat.pow_add]
    have : significantBits m - k - 1 + k = significantBits m - 1 := by omega
    rw [this]; exact s2
  · rw [Nat.div_lt_iff_lt_mul (Nat.two_pow_pos _), ← Nat.pow_add]
    have : significantBits m - k + k = significantBits m := by omega
    rw [this]; exact s3

theorem significantBits_mono {a b : Nat} (ha : 0 < a) (hab : a ≤ b) : significantBits a ≤ significantBits b := by
  obtain ⟨a1, a2, a3⟩ := significantBits_spec ha
  obtain ⟨b1, b2, b3⟩ := significantBits_spec (Nat.lt_of_lt_of_le ha hab)
  have : significantBits a - 1 < significantBits b :=
    (Nat.pow_lt_pow_iff_right (by decide : 1 < 2)).mp (Nat.lt_of_le_of_lt a2 (Nat.lt_of_le_of_lt hab b3))
  omega

open LexVerif.Proof.WriteFloatRound (roundHalfEven)

/-- what `truncate_and_round` keeps: `m / 2^shr` rounded half-even (Round) or truncated (Truncate) -/
def keptMantissa (o : WOpts) (m shr : Nat) : Nat :=
  if o.truncate then m / 2 ^ shr else roundHalfEven m (2 ^ shr)

/-- **`binary::truncate_and_round`, current code, when it truncates**: it returns the mantissa rounded (half-even on
BITS) to `d · bits_per_digit` bits — not shifted back — and a bit count that is the count of the returned mantissa plus
the shift: the pair still denotes `R · 2^(exp + shr)` at the same scientific exponent (+1 on carry). -/
theorem truncCur_spec (o : WOpts) {w m bpd d : Nat} (h1 : 1 ≤ bpd) (h5 : bpd ≤ 5) (hm : 0 < m)
    (hw : significantBits m ≤ w) (hw64 : w ≤ 64) (hd : o.maxDigits = some d) (hd1 : 1 ≤ d) (hlt : d * bpd < significantBits m) :
    truncateAndRoundCur w m (2 ^ bpd) o =
      (keptMantissa o m (significantBits m - d * bpd),
       significantBits (keptMantissa o m (significantBits m - d * bpd)) + (significantBits m - d * bpd)) ∧
    0 < keptMantissa o m (significantBits m - d * bpd) ∧
    keptMantissa o m (significantBits m - d * bpd) ≤ 2 ^ (d * bpd) := by
  obtain ⟨s1, s2, s3⟩ := significantBits_spec hm
  have hlog : (fastLog2 (2 ^ bpd)).toNat = bpd := by rw [fastLog2_pow h1 h5]; simp
  have hdb1 : 1 ≤ d * bpd := Nat.mul_pos hd1 h1
  generalize hmb : significantBits m = mb at *
  generalize hK : d * bpd = K at *
  have hshr : 1 ≤ mb - K := by omega
  have hsh : significantBits (m >>> (mb - K)) = K := by
    rw [significantBits_shr hm (by omega), hmb]; omega
  have hshpos : 0 < m >>> (mb - K) := by
    rcases Nat.eq_zero_or_pos (m >>> (mb - K)) with h | h
    · rw [h] at hsh; simp [significantBits] at hsh; omega
    · exact h
  obtain ⟨t1, t2, t3⟩ := significantBits_spec hshpos
  rw [hsh] at t2 t3
  have hdiv : m >>> (mb - K) = m / 2 ^ (mb - K) := Nat.shiftRight_eq_div_pow _ _
  unfold truncateAndRoundCur keptMantissa
  simp only [hlog, hd, hmb]
  have hsat : satMul d bpd = K := by
    unfold satMul; rw [hK]; omega
  simp only [hsat]
  rw [if_pos (by omega)]
  have hKw : (2 : Nat) ^ K < 2 ^ w := Nat.pow_lt_pow_right (by decide) (by omega)
  by_cases ht : o.truncate = true
  · simp only [ht, if_true]
    rw [← hdiv]
    refine ⟨?_, hshpos, Nat.le_of_lt t3⟩
    rw [hsh]; congr 1; omega
  · simp only [ht, Bool.false_eq_true, if_false]
    -- the rounding increment is the one of `roundHalfEven`
    have hP : (2 : Nat) ^ (mb - K) = 2 * 2 ^ (mb - K - 1) := by
      rw [← Nat.pow_succ']; congr 1; omega
    have hup : roundHalfEven m (2 ^ (mb - K)) =
        m >>> (mb - K) + (if m % 2 ^ (mb - K) > 2 ^ (mb - K - 1) ∨
          ((m >>> (mb - K)) % 2 = 1 ∧ m % 2 ^ (mb - K) = 2 ^ (mb - K - 1)) then 1 else 0) := by
      unfold roundHalfEven
      rw [← hdiv]
      generalize m % 2 ^ (mb - K) = low at *
      generalize hH : 2 ^ (mb - K - 1) = H at *
      rw [hP]
      by_cases c : low > H ∨ ((m >>> (mb - K)) % 2 = 1 ∧ low = H)
      · rw [if_pos c, if_pos (by rcases c with c | c <;> omega)]
      · rw [if_neg c, if_neg (by intro h; apply c; rcases h with h | h <;> omega)]
        omega
    rw [hup]
    generalize hu : (if m % 2 ^ (mb - K) > 2 ^ (mb - K - 1) ∨
          ((m >>> (mb - K)) % 2 = 1 ∧ m % 2 ^ (mb - K) = 2 ^ (mb - K - 1)) then 1 else 0) = up
    have hup1 : up ≤ 1 := by rw [← hu]; split <;> omega
    generalize m >>> (mb - K) = sh at *
    have hmod : (sh + up) % 2 ^ w = sh + up := Nat.mod_eq_of_lt (by omega)
    rw [hmod]
    have hmono := significantBits_mono hshpos (Nat.le_add_right sh up)
    have hle : significantBits (sh + up) ≤ w := by
      obtain ⟨u1, u2, u3⟩ := significantBits_spec (show 0 < sh + up by omega)
      have : sh + up < 2 ^ w := by omega
      have := (Nat.pow_lt_pow_iff_right (by decide : 1 < 2)).mp (Nat.lt_of_le_of_lt u2 this)
      omega
    refine ⟨?_, by omega, by omega⟩
    congr 1
    rw [hsh]; omega

/-- shifting the exponent by a whole number of digits does not change the digit string -/
theorem mantissaDigits_shift (w bpd M : Nat) (e : ℤ) (shr : Nat) (h1 : 1 ≤ bpd) (h5 : bpd ≤ 5)
    (he1 : -3000 ≤ e) (he2 : e ≤ 3000) (hs : shr ≤ 64) (hal : bpd ∣ shr) :
    mantissaDigits w (2 ^ bpd) M (e + shr) = mantissaDigits w (2 ^ bpd) M e := by
  unfold mantissaDigits
  rw [fastLog2_pow h1 h5]
  have hb1 : (1 : ℤ) ≤ (bpd : ℤ) := by exact_mod_cast h1
  have hb5 : (bpd : ℤ) ≤ 5 := by exact_mod_cast h5
  rw [calculateShl_eq (by omega) (by omega) hb1 hb5, calculateShl_eq (by omega) (by omega) hb1 hb5]
  obtain ⟨k, rfl⟩ := hal
  congr 2
  push_cast
  rw [Int.add_mul_emod_self_left]

/-- **alignment lemma**: a mantissa `M` handed to the layouts with a bit count that is `shr` too large — what the
current `truncate_and_round` does — is laid out exactly like `M` at exponent `e + shr`, PROVIDED `shr` is a whole
number of digits. -/
theorem layoutMB_shift (fmt : Format) (o : WOpts) {w bpd : Nat} (M : Nat) (e : ℤ) (shr : Nat)
    (hr : fmt.mantissaRadix = 2 ^ bpd) (h1 : 1 ≤ bpd) (h5 : bpd ≤ 5)
    (he1 : -3000 ≤ e) (he2 : e ≤ 3000) (hs : shr ≤ 64) (hal : bpd ∣ shr) :
    layoutMB fmt o w M (significantBits M + shr) e = layoutME fmt o w M (e + shr) := by
  have hmd := mantissaDigits_shift w bpd M e shr h1 h5 he1 he2 hs hal
  have hsci : e + ((significantBits M + shr : Nat) : ℤ) = e + (shr : ℤ) + (significantBits M : ℤ) := by
    push_cast; omega
  unfold layoutME layoutMB
  simp only [hr, hsci, sciLayout, negLayout, posLayout, hmd]

/-! ## the repaired `truncate_and_round` -/

theorem significantBits_shl {x k : Nat} (hx : 0 < x) : significantBits (x <<< k) = significantBits x + k := by
  obtain ⟨s1, s2, s3⟩ := significantBits_spec hx
  rw [Nat.shiftLeft_eq]
  apply significantBits_unique (by omega)
  · have : significantBits x + k - 1 = significantBits x - 1 + k := by omega
    rw [this, Nat.pow_add]
    exact Nat.mul_le_mul_right _ s2
  · rw [Nat.pow_add]
    exact Nat.mul_lt_mul_of_pos_right s3 (Nat.two_pow_pos _)

/-- bits kept by the repaired function: `d` digits, of which the leading one only holds `(sci mod bpd) + 1` bits -/
def keptBits (bpd d mb : Nat) (e : ℤ) : Nat := d * bpd - (bpd - 1 - ((e + mb - 1) % (bpd : ℤ)).toNat)

/-- **the repaired `truncate_and_round_digits`, when it truncates**: it returns the mantissa rounded on the boundary of
the `d`-th DIGIT and shifted back — a mantissa of the SAME exponent — together with its own bit count.  Whatever the
alignment, the layouts (exact for every mantissa/exponent pair, C06 `layoutME_exact`) then denote
`keptMantissa · 2^(shr + e)`. -/
theorem truncFixed_spec (o : WOpts) {w m bpd d : Nat} (e : ℤ) (h1 : 1 ≤ bpd) (h5 : bpd ≤ 5) (hm : 0 < m)
    (hw : significantBits m < w) (hw64 : w ≤ 64) (hd : o.maxDigits = some d) (hd1 : 1 ≤ d) (hd64 : d ≤ 64)
    (hlt : keptBits bpd d (significantBits m) e < significantBits m) :
    truncateAndRoundFixed w m (2 ^ bpd) e o =
      (keptMantissa o m (significantBits m - keptBits bpd d (significantBits m) e) <<<
          (significantBits m - keptBits bpd d (significantBits m) e),
       significantBits (keptMantissa o m (significantBits m - keptBits bpd d (significantBits m) e) <<<
          (significantBits m - keptBits bpd d (significantBits m) e))) ∧
    0 < keptMantissa o m (significantBits m - keptBits bpd d (significantBits m) e) ∧
    keptMantissa o m (significantBits m - keptBits bpd d (significantBits m) e) ≤
      2 ^ keptBits bpd d (significantBits m) e ∧
    1 ≤ keptBits bpd d (significantBits m) e := by
  obtain ⟨s1, s2, s3⟩ := significantBits_spec hm
  have hlog : (fastLog2 (2 ^ bpd)).toNat = bpd := by rw [fastLog2_pow h1 h5]; simp
  have hK1 : 1 ≤ keptBits bpd d (significantBits m) e := by
    unfold keptBits
    have : bpd ≤ d * bpd := Nat.le_mul_of_pos_left bpd hd1
    omega
  have hsat : satMul d bpd = d * bpd := by
    unfold satMul
    have : d * bpd ≤ 64 * 5 := Nat.mul_le_mul hd64 h5
    omega
  unfold truncateAndRoundFixed keptMantissa
  simp only [hlog, hd, hsat]
  have hKdef : d * bpd - (bpd - 1 - ((e + ↑(significantBits m) - 1) % (bpd : ℤ)).toNat) =
      keptBits bpd d (significantBits m) e := rfl
  rw [hKdef]
  generalize hmb : significantBits m = mb at *
  generalize hK : keptBits bpd d mb e = K at *
  rw [if_pos hlt]
  have hsh : significantBits (m >>> (mb - K)) = K := by
    rw [significantBits_shr hm (by omega), hmb]; omega
  have hshpos : 0 < m >>> (mb - K) := by
    rcases Nat.eq_zero_or_pos (m >>> (mb - K)) with h | h
    · rw [h] at hsh; simp [significantBits] at hsh; omega
    · exact h
  obtain ⟨t1, t2, t3⟩ := significantBits_spec hshpos
  rw [hsh] at t2 t3
  have hdiv : m >>> (mb - K) = m / 2 ^ (mb - K) := Nat.shiftRight_eq_div_pow _ _
  have hKw : (2 : Nat) ^ K < 2 ^ w := Nat.pow_lt_pow_right (by decide) (by omega)
  by_cases ht : o.truncate = true
  · simp only [ht, if_true]
    rw [← hdiv]
    refine ⟨?_, hshpos, Nat.le_of_lt t3, hK1⟩
    rw [significantBits_shl hshpos, hsh]; congr 1; omega
  · simp only [ht, Bool.false_eq_true, if_false]
    have hP : (2 : Nat) ^ (mb - K) = 2 * 2 ^ (mb - K - 1) := by
      rw [← Nat.pow_succ']; congr 1; omega
    have hup : roundHalfEven m (2 ^ (mb - K)) =
        m >>> (mb - K) + (if m % 2 ^ (mb - K) > 2 ^ (mb - K - 1) ∨
          ((m >>> (mb - K)) % 2 = 1 ∧ m % 2 ^ (mb - K) = 2 ^ (mb - K - 1)) then 1 else 0) := by
      unfold roundHalfEven
      rw [← hdiv]
      generalize m % 2 ^ (mb - K) = low at *
      generalize hH : 2 ^ (mb - K - 1) = H at *
      rw [hP]
      by_cases c : low > H ∨ ((m >>> (mb - K)) % 2 = 1 ∧ low = H)
      · rw [if_pos c, if_pos (by rcases c with c | c <;> omega)]
      · rw [if_neg c, if_neg (by intro h; apply c; rcases h with h | h <;> omega)]
        omega
    rw [hup]
    generalize hu : (if m % 2 ^ (mb - K) > 2 ^ (mb - K - 1) ∨
          ((m >>> (mb - K)) % 2 = 1 ∧ m % 2 ^ (mb - K) = 2 ^ (mb - K - 1)) then 1 else 0) = up
    have hup1 : up ≤ 1 := by rw [← hu]; split <;> omega
    generalize m >>> (mb - K) = sh at *
    have hmod : (sh + up) % 2 ^ w = sh + up := Nat.mod_eq_of_lt (by omega)
    rw [hmod]
    have hpos' : 0 < sh + up := by omega
    have hmono := significantBits_mono hshpos (Nat.le_add_right sh up)
    have hbits_le : significantBits (sh + up) ≤ K + 1 := by
      obtain ⟨u1, u2, u3⟩ := significantBits_spec hpos'
      have : sh + up < 2 ^ (K + 1) := by rw [Nat.pow_succ]; omega
      have := (Nat.pow_lt_pow_iff_right (by decide : 1 < 2)).mp (Nat.lt_of_le_of_lt u2 this)
      omega
    have hshl_lt : (sh + up) <<< (mb - K) < 2 ^ w := by
      obtain ⟨u1, u2, u3⟩ := significantBits_spec (show 0 < (sh + up) <<< (mb - K) by rw [Nat.shiftLeft_eq]; exact Nat.mul_pos hpos' (Nat.two_pow_pos _))
      rw [significantBits_shl hpos'] at u3
      have : (2 : Nat) ^ (significantBits (sh + up) + (mb - K)) ≤ 2 ^ w := Nat.pow_le_pow_right (by decide) (by omega)
      omega
    rw [Nat.mod_eq_of_lt hshl_lt]
    refine ⟨?_, by omega, by omega, hK1⟩
    rw [significantBits_shl hpos']
    congr 1
    rw [hsh]; omega

end LexVerif.Proof.WriteBinaryOpts
