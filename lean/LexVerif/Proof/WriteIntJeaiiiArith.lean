import LexVerif.Proof.WriteIntSplice
/-!
# Proof.WriteIntJeaiiiArith — the fixed-point digit extraction of `jeaiii.rs`, one lemma per multiplier

GENERATED-STYLE file (written by a script, kept by hand): for each `(magic, shift, number of pairs)` of
`write_digits!` the statement "with `n = a·100^k + d₁·100^(k-1) + … + d_k` and `q = ⌊n·magic / 2^shift⌋`, the high
word of `q` is `a` and `k` successive `next2` steps produce `d₁ … d_k`" in the linear form `Chain`, proved by
`omega` one inequality at a time (omega alone is incomplete on the nested statement).
-/
namespace LexVerif.Model.WriteInt
open LexVerif.Spec

/-- `Chain L [d₁, …, d_k]`: `L < 2^32` and `L·100 = d₁·2^32 + L₁` with `Chain L₁ [d₂, …]` -/
def Chain : Nat → List Nat → Prop
  | L, [] => L < 4294967296
  | L, d :: ds => L < 4294967296 ∧ ∃ L1, L * 100 = d * 4294967296 + L1 ∧ Chain L1 ds

theorem c34 (a d1 q : Nat) (ha1 : 1 ≤ a) (ha : a < 100) (h1 : d1 < 100)
    (hq : 1 * q ≤ (100 * a + d1) * 42949673) (hq2 : (100 * a + d1) * 42949673 < 1 * (q + 1)) :
    ∃ L0, q = a * 4294967296 + L0 ∧ Chain L0 [d1] := by
  obtain ⟨L0, hL0⟩ : ∃ L0, q = a * 4294967296 + L0 := ⟨q - a * 4294967296, by omega⟩
  have hL0b : L0 < 4294967296 := by omega
  obtain ⟨L1, hL1⟩ : ∃ L1, L0 * 100 = d1 * 4294967296 + L1 := ⟨L0 * 100 - d1 * 4294967296, by omega⟩
  have hL1b : L1 < 4294967296 := by omega
  exact ⟨L0, hL0, hL0b, L1, hL1, hL1b⟩

theorem c56 (a d1 d2 q : Nat) (ha1 : 1 ≤ a) (ha : a < 100) (h1 : d1 < 100) (h2 : d2 < 100)
    (hq : 1 * q ≤ (10000 * a + 100 * d1 + d2) * 429497) (hq2 : (10000 * a + 100 * d1 + d2) * 429497 < 1 * (q + 1)) :
    ∃ L0, q = a * 4294967296 + L0 ∧ Chain L0 [d1, d2] := by
  obtain ⟨L0, hL0⟩ : ∃ L0, q = a * 4294967296 + L0 := ⟨q - a * 4294967296, by omega⟩
  have hL0b : L0 < 4294967296 := by omega
  obtain ⟨L1, hL1⟩ : ∃ L1, L0 * 100 = d1 * 4294967296 + L1 := ⟨L0 * 100 - d1 * 4294967296, by omega⟩
  have hL1b : L1 < 4294967296 := by omega
  obtain ⟨L2, hL2⟩ : ∃ L2, L1 * 100 = d2 * 4294967296 + L2 := ⟨L1 * 100 - d2 * 4294967296, by omega⟩
  have hL2b : L2 < 4294967296 := by omega
  exact ⟨L0, hL0, hL0b, L1, hL1, hL1b, L2, hL2, hL2b⟩

theorem c78 (a d1 d2 d3 q : Nat) (ha1 : 1 ≤ a) (ha : a < 100) (h1 : d1 < 100) (h2 : d2 < 100) (h3 : d3 < 100)
    (hq : 65536 * q ≤ (1000000 * a + 10000 * d1 + 100 * d2 + d3) * 281474978) (hq2 : (1000000 * a + 10000 * d1 + 100 * d2 + d3) * 281474978 < 65536 * (q + 1)) :
    ∃ L0, q = a * 4294967296 + L0 ∧ Chain L0 [d1, d2, d3] := by
  obtain ⟨L0, hL0⟩ : ∃ L0, q = a * 4294967296 + L0 := ⟨q - a * 4294967296, by omega⟩
  have hL0b : L0 < 4294967296 := by omega
  obtain ⟨L1, hL1⟩ : ∃ L1, L0 * 100 = d1 * 4294967296 + L1 := ⟨L0 * 100 - d1 * 4294967296, by omega⟩
  have hL1b : L1 < 4294967296 := by omega
  obtain ⟨L2, hL2⟩ : ∃ L2, L1 * 100 = d2 * 4294967296 + L2 := ⟨L1 * 100 - d2 * 4294967296, by omega⟩
  have hL2b : L2 < 4294967296 := by omega
  obtain ⟨L3, hL3⟩ : ∃ L3, L2 * 100 = d3 * 4294967296 + L3 := ⟨L2 * 100 - d3 * 4294967296, by omega⟩
  have hL3b : L3 < 4294967296 := by omega
  exact ⟨L0, hL0, hL0b, L1, hL1, hL1b, L2, hL2, hL2b, L3, hL3, hL3b⟩

theorem c9 (a d1 d2 d3 d4 q : Nat) (ha1 : 1 ≤ a) (ha : a < 10) (h1 : d1 < 100) (h2 : d2 < 100) (h3 : d3 < 100) (h4 : d4 < 100)
    (hq : 33554432 * q ≤ (100000000 * a + 1000000 * d1 + 10000 * d2 + 100 * d3 + d4) * 1441151882) (hq2 : (100000000 * a + 1000000 * d1 + 10000 * d2 + 100 * d3 + d4) * 1441151882 < 33554432 * (q + 1)) :
    ∃ L0, q = a * 4294967296 + L0 ∧ Chain L0 [d1, d2, d3, d4] := by
  obtain ⟨L0, hL0⟩ : ∃ L0, q = a * 4294967296 + L0 := ⟨q - a * 4294967296, by omega⟩
  have hL0b : L0 < 4294967296 := by omega
  obtain ⟨L1, hL1⟩ : ∃ L1, L0 * 100 = d1 * 4294967296 + L1 := ⟨L0 * 100 - d1 * 4294967296, by omega⟩
  have hL1b : L1 < 4294967296 := by omega
  obtain ⟨L2, hL2⟩ : ∃ L2, L1 * 100 = d2 * 4294967296 + L2 := ⟨L1 * 100 - d2 * 4294967296, by omega⟩
  have hL2b : L2 < 4294967296 := by omega
  obtain ⟨L3, hL3⟩ : ∃ L3, L2 * 100 = d3 * 4294967296 + L3 := ⟨L2 * 100 - d3 * 4294967296, by omega⟩
  have hL3b : L3 < 4294967296 := by omega
  obtain ⟨L4, hL4⟩ : ∃ L4, L3 * 100 = d4 * 4294967296 + L4 := ⟨L3 * 100 - d4 * 4294967296, by omega⟩
  have hL4b : L4 < 4294967296 := by omega
  exact ⟨L0, hL0, hL0b, L1, hL1, hL1b, L2, hL2, hL2b, L3, hL3, hL3b, L4, hL4, hL4b⟩

theorem c10 (a d1 d2 d3 d4 q : Nat) (ha1 : 10 ≤ a) (ha : a < 43) (h1 : d1 < 100) (h2 : d2 < 100) (h3 : d3 < 100) (h4 : d4 < 100)
    (hq : 33554432 * q ≤ (100000000 * a + 1000000 * d1 + 10000 * d2 + 100 * d3 + d4) * 1441151881) (hq2 : (100000000 * a + 1000000 * d1 + 10000 * d2 + 100 * d3 + d4) * 1441151881 < 33554432 * (q + 1)) :
    ∃ L0, q = a * 4294967296 + L0 ∧ Chain L0 [d1, d2, d3, d4] := by
  obtain ⟨L0, hL0⟩ : ∃ L0, q = a * 4294967296 + L0 := ⟨q - a * 4294967296, by omega⟩
  have hL0b : L0 < 4294967296 := by omega
  obtain ⟨L1, hL1⟩ : ∃ L1, L0 * 100 = d1 * 4294967296 + L1 := ⟨L0 * 100 - d1 * 4294967296, by omega⟩
  have hL1b : L1 < 4294967296 := by omega
  obtain ⟨L2, hL2⟩ : ∃ L2, L1 * 100 = d2 * 4294967296 + L2 := ⟨L1 * 100 - d2 * 4294967296, by omega⟩
  have hL2b : L2 < 4294967296 := by omega
  obtain ⟨L3, hL3⟩ : ∃ L3, L2 * 100 = d3 * 4294967296 + L3 := ⟨L2 * 100 - d3 * 4294967296, by omega⟩
  have hL3b : L3 < 4294967296 := by omega
  obtain ⟨L4, hL4⟩ : ∃ L4, L3 * 100 = d4 * 4294967296 + L4 := ⟨L3 * 100 - d4 * 4294967296, by omega⟩
  have hL4b : L4 < 4294967296 := by omega
  exact ⟨L0, hL0, hL0b, L1, hL1, hL1b, L2, hL2, hL2b, L3, hL3, hL3b, L4, hL4, hL4b⟩

theorem c10u64 (a d1 d2 d3 d4 q : Nat) (ha1 : 10 ≤ a) (ha : a < 100) (h1 : d1 < 100) (h2 : d2 < 100) (h3 : d3 < 100) (h4 : d4 < 100)
    (hq : 268435456 * q ≤ (100000000 * a + 1000000 * d1 + 10000 * d2 + 100 * d3 + d4) * 11529215047) (hq2 : (100000000 * a + 1000000 * d1 + 10000 * d2 + 100 * d3 + d4) * 11529215047 < 268435456 * (q + 1)) :
    ∃ L0, q = a * 4294967296 + L0 ∧ Chain L0 [d1, d2, d3, d4] := by
  obtain ⟨L0, hL0⟩ : ∃ L0, q = a * 4294967296 + L0 := ⟨q - a * 4294967296, by omega⟩
  have hL0b : L0 < 4294967296 := by omega
  obtain ⟨L1, hL1⟩ : ∃ L1, L0 * 100 = d1 * 4294967296 + L1 := ⟨L0 * 100 - d1 * 4294967296, by omega⟩
  have hL1b : L1 < 4294967296 := by omega
  obtain ⟨L2, hL2⟩ : ∃ L2, L1 * 100 = d2 * 4294967296 + L2 := ⟨L1 * 100 - d2 * 4294967296, by omega⟩
  have hL2b : L2 < 4294967296 := by omega
  obtain ⟨L3, hL3⟩ : ∃ L3, L2 * 100 = d3 * 4294967296 + L3 := ⟨L2 * 100 - d3 * 4294967296, by omega⟩
  have hL3b : L3 < 4294967296 := by omega
  obtain ⟨L4, hL4⟩ : ∃ L4, L3 * 100 = d4 * 4294967296 + L4 := ⟨L3 * 100 - d4 * 4294967296, by omega⟩
  have hL4b : L4 < 4294967296 := by omega
  exact ⟨L0, hL0, hL0b, L1, hL1, hL1b, L2, hL2, hL2b, L3, hL3, hL3b, L4, hL4, hL4b⟩

end LexVerif.Model.WriteInt
