import LexVerif.Proof.ParseIntFormatGrammar
import LexVerif.Proof.ParseIntFormatPrefix
import LexVerif.Proof.ParseIntSwar
/-!
# Proof.ParseIntFormatGrammar2 — the documented integer grammar with base prefix and `no_integer_leading_zeros`

Common normal form `AcceptC` (acceptance and value of a sign-free body as a property of the byte list):
* `grammar_accept`: `Spec.grammarIntSyn` (no base suffix, digits required) derives `sign · body` with value `v`
  iff the sign flags allow the sign and `AcceptC body v`;
* `afterSign_accept`: the complete parser's `afterSign` (`Proof/ParseIntFormatPrefix.lean`) returns `Ok(v)` iff `AcceptC body v`.
-/
namespace LexVerif.Proof.PIF
open LexVerif LexVerif.Spec LexVerif.Model LexVerif.Model.ParseIntFormat

/-! ## leading zeros of a digit run -/

theorem digitVal_48 (r : Nat) (hr : 1 ≤ r) : digitVal r 48 = some 0 := by
  simp [digitVal, digitVal36]; omega

theorem digitVal_zero_iff {r c : Nat} (h : digitVal r c = some 0) : c = 48 := by
  simp only [digitVal, digitVal36] at h
  split at h
  · next d hd =>
    split at hd
    · simp only [Option.some.injEq] at hd; split at h <;> simp at h; omega
    · split at hd
      · simp only [Option.some.injEq] at hd; split at h <;> simp at h; omega
      · split at hd
        · simp only [Option.some.injEq] at hd; split at h <;> simp at h; omega
        · cases hd
  · cases h

theorem takeDigits_zeros (r : Nat) (hr : 1 ≤ r) : ∀ l : List Nat,
    takeDigits r l = (List.replicate (zerosOf l) 0 ++ (takeDigits r (l.drop (zerosOf l))).1,
      (takeDigits r (l.drop (zerosOf l))).2) := by
  intro l
  induction l with
  | nil => simp [zerosOf, takeDigits]
  | cons x t ih =>
    by_cases hx : x = 48
    · subst hx
      have hz : zerosOf (48 :: t) = zerosOf t + 1 := by simp [zerosOf]
      rw [hz]
      simp only [takeDigits, digitVal_48 r hr, List.drop_succ_cons, List.replicate_succ, List.cons_append]
      rw [ih]
    · have hz : zerosOf (x :: t) = 0 := by simp [zerosOf, hx]
      rw [hz]; simp

theorem hornerFrom_zeros (r : Nat) (z : Nat) (ds : List Nat) :
    hornerFrom r 0 (List.replicate z 0 ++ ds) = hornerFrom r 0 ds := by
  induction z with
  | zero => simp
  | succ n ih =>
    simp only [List.replicate_succ, List.cons_append, hornerFrom, List.foldl_cons, Nat.zero_mul, Nat.add_zero]
    exact ih

/-- no leading `'0'` byte: the first digit value is not 0 -/
theorem takeDigits_head_ne_zero (r : Nat) (l : List Nat) (hz : zerosOf l = 0) : (takeDigits r l).1.head? ≠ some 0 := by
  cases l with
  | nil => simp [takeDigits]
  | cons x t =>
    have hx : x ≠ 48 := by
      intro h; subst h; simp [zerosOf] at hz
    simp only [takeDigits]
    cases hd : digitVal r x with
    | none => simp
    | some d =>
      simp only [List.head?_cons, ne_eq, Option.some.injEq]
      intro h; subst h
      exact hx (digitVal_zero_iff hd)

theorem takeDigits_nil_nil (r : Nat) (l : List Nat) (h1 : (takeDigits r l).1 = []) (h2 : (takeDigits r l).2 = []) : l = [] := by
  cases l with
  | nil => rfl
  | cons x t =>
    simp only [takeDigits] at h1 h2
    cases hd : digitVal r x with
    | none => simp [hd] at h2
    | some d => simp [hd] at h1

/-! ## the normal form -/

/-- a complete scan of `l` succeeds with value `v` (index-free form of `scan_complete_iff`) -/
def ScanOK (r mx : Nat) (neg : Bool) (l : List Nat) (v : Int) : Prop :=
  (takeDigits r l).2 = [] ∧ hornerFrom r 0 (takeDigits r l).1 ≤ mx ∧ v = sgn neg (hornerFrom r 0 (takeDigits r l).1)

theorem scan_iff_ScanOK (r mx : Nat) (hr : 1 ≤ r) (neg : Bool) (l : List Nat) (i : Nat) (v : Int) :
    (∃ n, scanDigits r mx neg false l 0 i = .ok v n) ↔ ScanOK r mx neg l v := by
  constructor
  · rintro ⟨n, h⟩
    have := (scan_complete_iff r mx hr neg l 0 i v n (Nat.zero_le _)).1 h
    exact ⟨this.1, this.2.1, this.2.2.1⟩
  · rintro ⟨h1, h2, h3⟩
    exact ⟨i + l.length, (scan_complete_iff r mx hr neg l 0 i v _ (Nat.zero_le _)).2 ⟨h1, h2, h3, rfl⟩⟩

theorem ScanOK_drop_zeros (r mx : Nat) (hr : 1 ≤ r) (neg : Bool) (l : List Nat) (v : Int) :
    ScanOK r mx neg l v ↔ ScanOK r mx neg (l.drop (zerosOf l)) v := by
  unfold ScanOK
  rw [takeDigits_zeros r hr l]
  simp only [hornerFrom_zeros]

/-- the body starts with `0` followed by the base prefix byte -/
def isPre (cased : Bool) (pre : Nat) (body : List Nat) : Bool :=
  pre != 0 && zerosOf body == 1 && (body[1]?).any (matchVal cased pre)

/-- acceptance and value of a sign-free, non-empty body: base prefix + digits, or digits under the leading-zero rule -/
def AcceptC (r mx : Nat) (neg cased : Bool) (pre : Nat) (noLZ : Bool) (body : List Nat) (v : Int) : Prop :=
  if isPre cased pre body = true then body.drop 2 ≠ [] ∧ ScanOK r mx neg (body.drop 2) v
  else if (noLZ && zerosOf body != 0) = true then body = [48] ∧ v = 0
  else ScanOK r mx neg (body.drop (zerosOf body)) v

theorem matchByte_eq_matchVal (cased : Bool) (want x : Nat) : matchByte cased want x = matchVal cased want x := by
  unfold matchByte matchVal
  cases cased
  · simp only [Bool.false_eq_true, if_false, eqUncased, eqIgnoreCase, lower, lowerAscii]
    exact decide_eq_decide.mpr Iff.rfl
  · simp only [if_true]
    by_cases h : x = want <;> simp [h]

theorem matchVal_48 (cased : Bool) (pre : Nat) (h48 : pre ≠ 48) : matchVal cased pre 48 = false := by
  unfold matchVal
  cases cased
  · have h1 : lowerAscii 48 = 48 := by decide
    simp only [Bool.false_eq_true, if_false, eqIgnoreCase, h1, decide_eq_false_iff_not]
    unfold lowerAscii
    split <;> omega
  · simp only [if_true, beq_eq_false_iff_ne, ne_eq]; omega

/-- `splitPrefix` in terms of `isPre` (the prefix byte is not `'0'`) -/
theorem splitPrefix_eq (y : Syn) (h48 : y.pre ≠ 48) (body : List Nat) :
    splitPrefix y body = if isPre y.csPrefix y.pre body = true then (true, body.drop 2) else (false, body) := by
  unfold splitPrefix isPre
  split
  · next x cs =>
    by_cases hp : y.pre = 0
    · simp [hp]
    · by_cases hx : x = 48
      · subst hx
        have : zerosOf (48 :: 48 :: cs) = zerosOf cs + 2 := by simp [zerosOf]
        simp [hp, matchByte_eq_matchVal, matchVal_48 _ _ h48, this]
      · have : zerosOf (48 :: x :: cs) = 1 := by simp [zerosOf, hx]
        simp only [this, matchByte_eq_matchVal]
        cases hm : matchVal y.csPrefix y.pre x <;> simp [hp, hm]
  · next hne =>
    have : (zerosOf body == 1 && (body[1]?).any (matchVal y.csPrefix y.pre)) = false := by
      cases body with
      | nil => simp [zerosOf]
      | cons a t =>
        cases t with
        | nil => simp
        | cons x cs =>
          have ha : a ≠ 48 := by intro h; subst h; exact hne x cs rfl
          simp [zerosOf, ha]
    rw [Bool.and_assoc, this]; simp

theorem zero_in_range (t : IntTy) : t.minVal ≤ 0 ∧ (0 : Int) ≤ t.maxVal := by
  simp only [IntTy.minVal, IntTy.maxVal]; constructor <;> omega

/-- the grammar (no base suffix, digits required) on `sign · body`, `body ≠ []` -/
theorem grammar_accept (y : Syn) (t : IntTy) (hr : 1 ≤ y.radix) (hsuf : y.suf = 0) (h48 : y.pre ≠ 48)
    (hreq : (y.reqInt || y.reqMant) = true) (sign : Option Bool) (body : List Nat) (hb : body ≠ [])
    (neg : Bool) (hneg : neg = (sign == some true)) (hsg : neg = true → t.signed = true) (v : Int) :
    ((let (pre, r) := splitPrefix y body
      let (ds, r) := takeDigits y.radix r
      let (_, r) := splitSuffix y r
      let ok := r.isEmpty && signOk y.noPosMant y.reqMantSign sign && !((y.reqInt || y.reqMant) && ds.isEmpty)
        && !(pre && ds.isEmpty) && !(y.noIntLZ && !pre && leadingZeros ds)
      let v : Int := if sign == some true then -(ofDigits y.radix ds : Int) else (ofDigits y.radix ds : Int)
      if ok && decide (t.minVal ≤ v) && decide (v ≤ t.maxVal) then IRes.ok v else IRes.err) = IRes.ok v) ↔
      (signOk y.noPosMant y.reqMantSign sign = true ∧
        AcceptC y.radix (t.maxMag neg) neg y.csPrefix y.pre y.noIntLZ body v) := by
  have hof : ∀ ds, ofDigits y.radix ds = hornerFrom y.radix 0 ds := fun _ => rfl
  have hrange : ∀ ds w, w = sgn neg (hornerFrom y.radix 0 ds) →
      (hornerFrom y.radix 0 ds ≤ t.maxMag neg ↔ (t.minVal ≤ w ∧ w ≤ t.maxVal)) := by
    intro ds w hw
    rw [hw]
    simp only [sgn, IntTy.minVal, IntTy.maxVal]
    cases neg with
    | true =>
      have hsig := hsg rfl
      simp only [if_true, IntTy.maxMag, hsig]
      constructor
      · intro h; constructor <;> omega
      · rintro ⟨h1, h2⟩; omega
    | false =>
      simp only [Bool.false_eq_true, if_false]
      constructor
      · intro h; constructor <;> omega
      · rintro ⟨h1, h2⟩; omega
  have hvv : ∀ ds, (if (sign == some true) = true then -(ofDigits y.radix ds : Int) else (ofDigits y.radix ds : Int)) =
      sgn neg (hornerFrom y.radix 0 ds) := by
    intro ds; subst hneg; simp [sgn, hof]
  rw [splitPrefix_eq y h48]
  simp only [splitSuffix_none y hsuf, hreq, Bool.true_and, hvv]
  unfold AcceptC
  by_cases hp : isPre y.csPrefix y.pre body = true
  · -- base prefix read
    simp only [hp, if_true, Bool.not_true, Bool.false_and, Bool.and_false, Bool.not_false, Bool.and_true]
    generalize htd : takeDigits y.radix (body.drop 2) = td
    obtain ⟨ds, rest⟩ := td
    have hnn := takeDigits_nil_nil y.radix (body.drop 2)
    rw [htd] at hnn
    simp only [ScanOK, htd]
    generalize hw : sgn neg (hornerFrom y.radix 0 ds) = w
    have hrg := hrange ds w hw.symm
    constructor
    · intro h
      split at h
      · next hok =>
        simp only [Bool.and_eq_true, List.isEmpty_iff, Bool.not_eq_eq_eq_not, Bool.not_true, decide_eq_true_eq,
          List.isEmpty_eq_false_iff, ne_eq] at hok
        simp only [IRes.ok.injEq] at h
        obtain ⟨⟨⟨⟨⟨hrest, hsok⟩, hds⟩, _⟩, hmin⟩, hmax⟩ := hok
        refine ⟨hsok, ?_, hrest, hrg.2 ⟨hmin, hmax⟩, h.symm⟩
        intro hnil
        apply hds
        rw [hnil] at htd; simp [takeDigits] at htd; exact htd.1
      · cases h
    · rintro ⟨hsok, hne, hrest, hle, hv⟩
      have hds : ds ≠ [] := fun hd => hne (hnn hd hrest)
      have := hrg.1 hle
      simp [hrest, hsok, hds, this.1, this.2, hv]
  · -- no base prefix
    have hp' : isPre y.csPrefix y.pre body = false := by simpa using hp
    simp only [hp', Bool.false_eq_true, if_false, Bool.false_and, Bool.not_false, Bool.and_true]
    have htz := takeDigits_zeros y.radix hr body
    generalize htd' : takeDigits y.radix (body.drop (zerosOf body)) = td' at htz
    obtain ⟨ds', rest⟩ := td'
    simp only at htz
    have hnn := takeDigits_nil_nil y.radix (body.drop (zerosOf body))
    rw [htd'] at hnn
    have hhead := takeDigits_head_ne_zero y.radix body
    rw [htz] at hhead
    simp only [htz, ScanOK, htd', hornerFrom_zeros]
    generalize hz : zerosOf body = z at *
    generalize hw : sgn neg (hornerFrom y.radix 0 ds') = w
    have hrg := hrange ds' w hw.symm
    have hlz : leadingZeros (List.replicate z 0 ++ ds') = (decide (z + ds'.length > 1) && decide (z ≠ 0)) := by
      unfold leadingZeros
      cases z with
      | zero =>
        have := hhead rfl
        simp only [List.replicate_zero, List.nil_append] at this ⊢
        cases ds' with
        | nil => simp
        | cons d tl =>
          simp only [List.head?_cons, ne_eq, Option.some.injEq] at this
          simp [this]
      | succ n =>
        simp only [List.replicate_succ, List.cons_append, List.length_cons, List.length_append, List.length_replicate,
          List.head?_cons, beq_self_eq_true, Bool.and_true, ne_eq, Nat.succ_ne_zero, not_false_eq_true, decide_true]
        exact decide_eq_decide.mpr (by omega)
    have hemp : (List.replicate z 0 ++ ds').isEmpty = (decide (z = 0) && ds'.isEmpty) := by
      cases z <;> simp [List.replicate_succ]
    rw [hlz, hemp]
    by_cases hcz : (y.noIntLZ && z != 0) = true
    · have hn : y.noIntLZ = true := by simp only [Bool.and_eq_true] at hcz; exact hcz.1
      have hz0 : z ≠ 0 := by simp only [Bool.and_eq_true, bne_iff_ne, ne_eq] at hcz; exact hcz.2
      simp only [hcz, if_true]
      simp only [hn, Bool.true_and]
      constructor
      · intro h
        split at h
        · next hok =>
          simp only [Bool.and_eq_true, List.isEmpty_iff, Bool.not_eq_eq_eq_not, Bool.not_true, decide_eq_true_eq,
            Bool.and_eq_false_iff, decide_eq_false_iff_not] at hok
          simp only [IRes.ok.injEq] at h
          obtain ⟨⟨⟨⟨⟨hrest, hsok⟩, _⟩, hl⟩, _⟩, _⟩ := hok
          have hz1 : z = 1 ∧ ds' = [] := by
            rcases hl with hl | hl
            · constructor
              · omega
              · cases ds' with
                | nil => rfl
                | cons d tl => simp only [List.length_cons] at hl; omega
            · exact absurd hl (by simpa using hz0)
          obtain ⟨hz1, hds'⟩ := hz1
          subst hz1; subst hds'
          have hdrop : body.drop 1 = [] := hnn rfl hrest
          have hbody : body = [48] := by
            cases body with
            | nil => exact absurd rfl hb
            | cons a tl =>
              simp only [List.drop_succ_cons, List.drop_zero] at hdrop
              subst hdrop
              have : a = 48 := by
                by_contra hne; simp [zerosOf, hne] at hz
              rw [this]
          refine ⟨hsok, hbody, ?_⟩
          rw [← h, ← hw]; simp [sgn, hornerFrom]
        · cases h
      · rintro ⟨hsok, hbody, hv⟩
        subst hbody
        have hz1 : z = 1 := by rw [← hz]; simp [zerosOf]
        subst hz1
        simp only [List.drop_succ_cons, List.drop_zero, takeDigits, Prod.mk.injEq] at htd'
        obtain ⟨hd1, hd2⟩ := htd'
        subst hd1; subst hd2
        have hw0 : w = 0 := by rw [← hw]; simp [sgn, hornerFrom]
        have hzr := zero_in_range t
        subst hw0
        simp [hsok, hzr.1, hzr.2, hv]
    · have hcz' : ¬ (y.noIntLZ = true ∧ z ≠ 0) := by
        intro ⟨a, b⟩; apply hcz; simp [a, b]
      simp only [hcz, Bool.false_eq_true, if_false]
      have hnolz : (y.noIntLZ && (decide (z + ds'.length > 1) && decide (z ≠ 0))) = false := by
        cases hn : y.noIntLZ with
        | false => simp
        | true =>
          have : z = 0 := by by_contra h; exact hcz' ⟨hn, h⟩
          simp [this]
      constructor
      · intro h
        split at h
        · next hok =>
          simp only [Bool.and_eq_true, List.isEmpty_iff, Bool.not_eq_eq_eq_not, Bool.not_true, decide_eq_true_eq] at hok
          simp only [IRes.ok.injEq] at h
          obtain ⟨⟨⟨⟨⟨hrest, hsok⟩, _⟩, _⟩, hmin⟩, hmax⟩ := hok
          exact ⟨hsok, hrest, hrg.2 ⟨hmin, hmax⟩, h.symm⟩
        · cases h
      · rintro ⟨hsok, hrest, hle, hv⟩
        have := hrg.1 hle
        have hne : (decide (z = 0) && ds'.isEmpty) = false := by
          by_contra hcon
          simp only [Bool.not_eq_false, Bool.and_eq_true, decide_eq_true_eq, List.isEmpty_iff] at hcon
          obtain ⟨hz0, hds⟩ := hcon
          subst hz0
          exact hb (by simpa using hnn hds hrest)
        simp [hrest, hsok, hne, hnolz, this.1, this.2, hv]
        intro hn _
        by_contra h
        exact hcz' ⟨hn, h⟩

/-! ## the model side -/

open LexVerif.Proof.ParseInt in
/-- the digit phase started at byte `k` is the specification scan of the rest (C04's `body_spec`) -/
theorem digitsAt_spec (e : Env) (ht : IsIntTy e.t) (h2 : 2 ≤ e.radix) (h36 : e.radix ≤ 36)
    (hfeat : e.c.feats.powerOfTwo = true ∨ e.radix = 10) (neg : Bool) (hneg : neg = true → e.t.signed = true)
    (s : List Nat) (hb : ∀ b ∈ s, b < 256) (k : Nat) (hk : k ≤ s.length) :
    digitsAt e neg s k = ofM (.done (scanDigits e.radix (e.t.maxMag neg) neg e.partial_ (s.drop k) 0 k)) := by
  have hmulti : (ParseInt.canMulti e.c.feats e.radix && !e.noMulti) = true → e.radix ≤ 10 ∧ SwarCorrect e.radix := by
    intro h
    have h10 : e.radix ≤ 10 := by
      rcases hfeat with hp | h10
      · simp [ParseInt.canMulti, hp] at h; exact h.1
      · omega
    exact ⟨h10, swarCorrect h2 h10⟩
  unfold digitsAt
  rw [body_spec e.c.feats e.t ht h2 h36 e.partial_ e.noMulti hmulti neg hneg (s.drop k) k s.length
    (by simp only [List.length_drop]; omega) (fun b hb' => hb b (List.mem_of_mem_drop hb'))]

theorem ofM_done_ok (x : PRes) (v : Int) : (∃ k, ofM (.done x) = .ok (v, k)) ↔ ∃ n, x = .ok v n := by
  cases x <;> simp [ofM, err]

/-- **the complete parser behind the sign accepts exactly `AcceptC`** -/
theorem afterSign_accept (e : Env) (hp : e.partial_ = false) (ht : LexVerif.Proof.ParseInt.IsIntTy e.t)
    (h2 : 2 ≤ e.radix) (h36 : e.radix ≤ 36) (hfeat : e.c.feats.powerOfTwo = true ∨ e.radix = 10)
    (neg : Bool) (hneg : neg = true → e.t.signed = true) (s : List Nat) (hb : ∀ b ∈ s, b < 256) (i0 : Nat)
    (hi : i0 < s.length) (v : Int) :
    (∃ k, afterSign e neg s i0 = .ok (v, k)) ↔
      AcceptC e.radix (e.t.maxMag neg) neg e.c.caseSensitiveBasePrefix e.c.fmt.basePrefix
        e.c.fmt.noIntegerLeadingZeros (s.drop i0) v := by
  have hr1 : 1 ≤ e.radix := by omega
  have hzle : zerosOf (s.drop i0) ≤ s.length - i0 := by have := zerosOf_le (s.drop i0); simpa using this
  have hdig : ∀ k, k ≤ s.length →
      ((∃ j, digitsAt e neg s k = .ok (v, j)) ↔ ScanOK e.radix (e.t.maxMag neg) neg (s.drop k) v) := by
    intro k hk
    rw [digitsAt_spec e ht h2 h36 hfeat neg hneg s hb k hk, ofM_done_ok, hp]
    exact scan_iff_ScanOK _ _ hr1 _ _ _ _
  have hpre : isPrefixAt e.c s i0 = isPre e.c.caseSensitiveBasePrefix e.c.fmt.basePrefix (s.drop i0) := by
    unfold isPrefixAt isPre matchPrefix
    rw [List.getElem?_drop]
  unfold afterSign AcceptC
  rw [← hpre]
  by_cases h0 : e.c.fmt.basePrefix = 0 ∧ e.c.fmt.noIntegerLeadingZeros = false
  · have hnp : isPrefixAt e.c s i0 = false := by simp [isPrefixAt, h0.1]
    simp only [h0, and_self, if_true, hnp, Bool.false_eq_true, if_false, Bool.false_and]
    rw [hdig i0 (by omega)]
    exact ScanOK_drop_zeros _ _ hr1 _ _ _
  · simp only [h0, if_false]
    by_cases hpa : isPrefixAt e.c s i0 = true
    · simp only [hpa, if_true]
      by_cases hemp : i0 + 2 ≥ s.length
      · simp only [hemp, if_true]
        constructor
        · rintro ⟨k, hk⟩; simp [err] at hk
        · rintro ⟨hne, _⟩
          exfalso; apply hne
          simp only [List.drop_drop]
          apply List.drop_eq_nil_of_le; omega
      · simp only [hemp, if_false]
        rw [hdig (i0 + 2) (by omega), List.drop_drop]
        constructor
        · intro h
          refine ⟨?_, h⟩
          intro hnil
          have := congrArg List.length hnil
          simp only [List.length_drop, List.length_nil] at this; omega
        · exact fun h => h.2
    · simp only [hpa, Bool.false_eq_true, if_false]
      generalize hz : zerosOf (s.drop i0) = z at hzle ⊢
      by_cases hl : (e.c.fmt.noIntegerLeadingZeros && z != 0) = true
      · have hz0 : z ≠ 0 := by simp only [Bool.and_eq_true, bne_iff_ne, ne_eq] at hl; exact hl.2
        simp only [hl, if_true]
        unfold lzOutcome
        by_cases hz1 : z > 1
        · simp only [hz1, if_true]
          constructor
          · rintro ⟨k, hk⟩; simp [err] at hk
          · rintro ⟨hbody, _⟩
            rw [hbody] at hz; simp [zerosOf] at hz; omega
        · have hz1' : z = 1 := by omega
          subst hz1'
          simp only [gt_iff_lt, Nat.lt_irrefl, if_false, hp]
          cases hg : s[i0 + 1]? with
          | some ch =>
            have hlt : i0 + 1 < s.length := (List.getElem?_eq_some_iff.mp hg).1
            simp only
            constructor
            · rintro ⟨k, hk⟩
              cases hd : ParseInt.charToDigit ch e.radix <;> simp [hd, err] at hk
            · rintro ⟨hbody, _⟩
              have := congrArg List.length hbody
              simp only [List.length_drop, List.length_cons, List.length_nil] at this; omega
          | none =>
            have hge : s.length ≤ i0 + 1 := by rw [List.getElem?_eq_none_iff] at hg; exact hg
            simp only [Except.ok.injEq, Prod.mk.injEq]
            have hbody : s.drop i0 = [48] := by
              cases hd : s.drop i0 with
              | nil => rw [hd] at hz; simp [zerosOf] at hz
              | cons a tl =>
                have hlen := congrArg List.length hd
                simp only [List.length_drop, List.length_cons] at hlen
                have htl : tl = [] := by
                  cases tl with
                  | nil => rfl
                  | cons _ _ => simp only [List.length_cons] at hlen; omega
                subst htl
                rw [hd] at hz
                have : a = 48 := by
                  by_contra hne; simp [zerosOf, hne] at hz
                rw [this]
            constructor
            · rintro ⟨k, hv, _⟩; exact ⟨hbody, hv.symm⟩
            · rintro ⟨_, hv⟩; exact ⟨_, hv.symm, rfl⟩
      · simp only [hl, Bool.false_eq_true, if_false]
        rw [hdig (i0 + z) (by omega), List.drop_drop]

end LexVerif.Proof.PIF
