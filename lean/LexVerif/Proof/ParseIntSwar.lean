import LexVerif.Proof.ParseInt
/-!
# Proof.ParseIntSwar — the SWAR kernels `is_{4,8}digits`, `parse_{4,8}digits` are correct for radix 2..10

Everything is over `Nat` by byte decomposition (no bit-blasting):
* `hb n x` : the high bit of each of the `n` low bytes of `x` is clear. `x &&& 0x80…80 = 0 ↔ hb n x`.
* `validity` : for a little-endian word `W` of `n` bytes, adding `k·0x01…01` (`k = 0x46 + 10 - radix`) and
  subtracting `0x30…30` (= adding `0xCF…CF + 1`) leaves all high bits clear iff every byte is in
  `['0', '0' + radix)`. Induction on the byte list; an invalid lowest byte already sets a high bit, valid
  bytes produce no carry / borrow into the next byte.
-/
namespace LexVerif.Proof.ParseInt
open LexVerif.Spec LexVerif.Model LexVerif.Model.ParseInt

/-- the byte `k` repeated `n` times -/
def rep (k : Nat) : Nat → Nat
  | 0 => 0
  | n + 1 => k + 256 * rep k n

/-- high bits of the `n` low bytes are clear -/
def hb : Nat → Nat → Prop
  | 0, _ => True
  | n + 1, x => x / 128 % 2 = 0 ∧ hb n (x / 256)

theorem byte_and_128 : ∀ y < 256, (y &&& 128 = 0 ↔ y / 128 % 2 = 0) := by decide +kernel

theorem and_rep128 (n : Nat) : ∀ x, x &&& rep 128 n = 0 ↔ hb n x := by
  induction n with
  | zero => intro x; simp [rep, hb]
  | succ n ih =>
    intro x
    have hsplit := Nat.div_add_mod (x &&& rep 128 (n + 1)) (2 ^ 8)
    rw [Nat.and_div_two_pow, Nat.and_mod_two_pow] at hsplit
    have hm : rep 128 (n + 1) % 2 ^ 8 = 128 := by simp only [rep]; omega
    have hd : rep 128 (n + 1) / 2 ^ 8 = rep 128 n := by simp only [rep]; omega
    rw [hm, hd] at hsplit
    have h1 := byte_and_128 (x % 2 ^ 8) (Nat.mod_lt _ (by decide))
    have h2 := ih (x / 2 ^ 8)
    have h3 : x % 2 ^ 8 / 128 % 2 = x / 128 % 2 := by omega
    rw [h3] at h1
    simp only [hb]
    rw [show x / 256 = x / 2 ^ 8 from rfl, ← h1, ← h2]
    constructor
    · intro h; rw [h] at hsplit; constructor <;> omega
    · intro ⟨ha, hb'⟩; rw [ha, hb'] at hsplit; omega

theorem hb_mod (n : Nat) : ∀ x, hb n (x % 256 ^ n) ↔ hb n x := by
  induction n with
  | zero => intro x; simp [hb]
  | succ n ih =>
    intro x
    simp only [hb]
    have h1 : x % 256 ^ (n + 1) / 128 % 2 = x / 128 % 2 := by
      rw [Nat.pow_succ, Nat.mul_comm]
      have : x % (256 * 256 ^ n) % 256 = x % 256 := Nat.mod_mul_right_mod _ _ _
      omega
    have h2 : x % 256 ^ (n + 1) / 256 = x / 256 % 256 ^ n := by
      rw [Nat.pow_succ, Nat.mul_comm]; exact Nat.mod_mul_right_div_self _ _ _
    rw [h1, h2, ih]

/-- the digit-validity test, for `n` bytes -/
theorem validity (k : Nat) (hk : 70 ≤ k ∧ k ≤ 78) : ∀ bs : List Nat, (∀ b ∈ bs, b < 256) →
    ((hb bs.length (leWord bs + rep k bs.length) ∧ hb bs.length (leWord bs + (rep 207 bs.length + 1)))
      ↔ ∀ b ∈ bs, 48 ≤ b ∧ b + k < 128) := by
  intro bs
  induction bs with
  | nil => intro _; simp [hb]
  | cons b0 tl ih =>
    intro hbytes
    have hb0 : b0 < 256 := hbytes b0 (by simp)
    have ih' := ih (fun b hb' => hbytes b (by simp [hb']))
    simp only [List.length_cons, leWord, rep, hb, List.forall_mem_cons]
    by_cases hv : 48 ≤ b0 ∧ b0 + k < 128
    · have e1 : (b0 + 256 * leWord tl + (k + 256 * rep k tl.length)) / 256 = leWord tl + rep k tl.length := by omega
      have e2 : (b0 + 256 * leWord tl + (207 + 256 * rep 207 tl.length + 1)) / 256
          = leWord tl + (rep 207 tl.length + 1) := by omega
      have e3 : (b0 + 256 * leWord tl + (k + 256 * rep k tl.length)) / 128 % 2 = 0 := by omega
      have e4 : (b0 + 256 * leWord tl + (207 + 256 * rep 207 tl.length + 1)) / 128 % 2 = 0 := by omega
      rw [e1, e2, e3, e4, ← ih']
      simp [hv]
    · constructor
      · intro ⟨⟨h1, _⟩, ⟨h2, _⟩⟩; exfalso; omega
      · intro ⟨h, _⟩; exact absurd h hv

/-! ### `is_4digits`, `is_8digits` -/


theorem add4_eq {r : Nat} (h2 : 2 ≤ r) (h10 : r ≤ 10) :
    ((0x46 + 10 - r) + ((0x46 + 10 - r) <<< 8) % 2 ^ 32 + ((0x46 + 10 - r) <<< 16) % 2 ^ 32
      + ((0x46 + 10 - r) <<< 24) % 2 ^ 32) % 2 ^ 32 = rep (80 - r) 4 := by
  interval_cases r <;> rfl

theorem is4digits_iff {r : Nat} (h2 : 2 ≤ r) (h10 : r ≤ 10) (v : Nat) :
    is4digits r v = true ↔ hb 4 (v + rep (80 - r) 4) ∧ hb 4 (v + (rep 207 4 + 1)) := by
  unfold is4digits
  simp only [beq_iff_eq]
  rw [add4_eq h2 h10, Nat.and_or_distrib_right, Nat.or_eq_zero_iff]
  rw [show (0x80808080 : Nat) = rep 128 4 from by decide, and_rep128, and_rep128]
  rw [show (2 ^ 32 : Nat) = 256 ^ 4 from by norm_num, hb_mod]
  rw [show (256 ^ 4 - 0x30303030 : Nat) = rep 207 4 + 1 from by decide, hb_mod]

theorem is4_correct {r : Nat} (h2 : 2 ≤ r) (h10 : r ≤ 10) (bs : List Nat) (hl : bs.length = 4) (hbs : ∀ b ∈ bs, b < 256) :
    is4digits r (leWord bs) = true ↔ ∀ b ∈ bs, 48 ≤ b ∧ b < 48 + r := by
  rw [is4digits_iff h2 h10]
  have := validity (80 - r) (by omega) bs hbs
  rw [hl] at this
  rw [this]
  constructor <;> intro h b hb' <;> have := h b hb' <;> omega

theorem add8_eq {r : Nat} (h2 : 2 ≤ r) (h10 : r ≤ 10) :
    (((0x46 + 10 - r) + ((0x46 + 10 - r) <<< 8) % 2 ^ 32 + ((0x46 + 10 - r) <<< 16) % 2 ^ 32
      + ((0x46 + 10 - r) <<< 24) % 2 ^ 32) % 2 ^ 32) |||
      ((((0x46 + 10 - r) + ((0x46 + 10 - r) <<< 8) % 2 ^ 32 + ((0x46 + 10 - r) <<< 16) % 2 ^ 32
      + ((0x46 + 10 - r) <<< 24) % 2 ^ 32) % 2 ^ 32) <<< 32) % 2 ^ 64 = rep (80 - r) 8 := by
  interval_cases r <;> decide

theorem is8digits_iff {r : Nat} (h2 : 2 ≤ r) (h10 : r ≤ 10) (v : Nat) :
    is8digits r v = true ↔ hb 8 (v + rep (80 - r) 8) ∧ hb 8 (v + (rep 207 8 + 1)) := by
  unfold is8digits
  simp only [beq_iff_eq]
  rw [add8_eq h2 h10, Nat.and_or_distrib_right, Nat.or_eq_zero_iff]
  rw [show (0x8080808080808080 : Nat) = rep 128 8 from by decide, and_rep128, and_rep128]
  rw [show (2 ^ 64 : Nat) = 256 ^ 8 from by norm_num, hb_mod]
  rw [show (256 ^ 8 - 0x3030303030303030 : Nat) = rep 207 8 + 1 from by decide, hb_mod]

theorem is8_correct {r : Nat} (h2 : 2 ≤ r) (h10 : r ≤ 10) (bs : List Nat) (hl : bs.length = 8) (hbs : ∀ b ∈ bs, b < 256) :
    is8digits r (leWord bs) = true ↔ ∀ b ∈ bs, 48 ≤ b ∧ b < 48 + r := by
  rw [is8digits_iff h2 h10]
  have := validity (80 - r) (by omega) bs hbs
  rw [hl] at this
  rw [this]
  constructor <;> intro h b hb' <;> have := h b hb' <;> omega

/-! ### `parse_4digits` -/


theorem divK (m a q : Nat) (h : a < m) : (a + m * q) / m = q := by
  rw [Nat.add_mul_div_left _ _ (by omega), Nat.div_eq_of_lt h, Nat.zero_add]
theorem modK (m a q : Nat) (h : a < m) : (a + m * q) % m = a := by
  rw [Nat.add_mul_mod_self_left]; exact Nat.mod_eq_of_lt h
theorem and_7f (x : Nat) : x &&& 0x7f = x % 128 := Nat.and_two_pow_sub_one_eq_mod x 7
theorem mul_bnd {d r : Nat} (h : d < r) (h10 : r ≤ 10) : d * r ≤ 90 :=
  Nat.mul_le_mul (show d ≤ 9 by omega) h10

section p4
variable {r : Nat} (h10 : r ≤ 10) (d0 d1 d2 d3 : Nat)
    (h0 : d0 < r) (h1 : d1 < r) (h2 : d2 < r) (h3 : d3 < r)
include h10 h0 h1 h2 h3
set_option linter.unusedSectionVars false

theorem p4_s1 : (d0 + 48 + 256 * (d1 + 48 + 256 * (d2 + 48 + 256 * (d3 + 48 + 256 * 0))) + (2 ^ 32 - 0x30303030)) % 2 ^ 32
    = d0 + 256 * d1 + 65536 * d2 + 16777216 * d3 := by omega

theorem p4_s2 : ((d0 + 256 * d1 + 65536 * d2 + 16777216 * d3) * r % 2 ^ 32
      + (d0 + 256 * d1 + 65536 * d2 + 16777216 * d3) / 2 ^ 8) % 2 ^ 32
    = (d0 * r + d1) + 256 * (d1 * r + d2) + 65536 * (d2 * r + d3) + 16777216 * (d3 * r) := by
  have b0 := mul_bnd h0 h10; have b1 := mul_bnd h1 h10; have b2 := mul_bnd h2 h10; have b3 := mul_bnd h3 h10
  have e1 : (d0 + 256 * d1 + 65536 * d2 + 16777216 * d3) / 2 ^ 8 = d1 + 256 * d2 + 65536 * d3 := by
    rw [show d0 + 256 * d1 + 65536 * d2 + 16777216 * d3 = d0 + 2 ^ 8 * (d1 + 256 * d2 + 65536 * d3) by omega]
    exact divK _ _ _ (by omega)
  have hm : (d0 + 256 * d1 + 65536 * d2 + 16777216 * d3) * r
      = d0 * r + 256 * (d1 * r) + 65536 * (d2 * r) + 16777216 * (d3 * r) := by ring
  rw [hm, e1, Nat.mod_eq_of_lt (by omega), Nat.mod_eq_of_lt (by omega)]; omega

theorem p4_s3 : ((d0 * r + d1) + 256 * (d1 * r + d2) + 65536 * (d2 * r + d3) + 16777216 * (d3 * r)) % 128 = d0 * r + d1 := by
  have b0 := mul_bnd h0 h10
  rw [show (d0 * r + d1) + 256 * (d1 * r + d2) + 65536 * (d2 * r + d3) + 16777216 * (d3 * r)
    = (d0 * r + d1) + 128 * (2 * (d1 * r + d2) + 512 * (d2 * r + d3) + 131072 * (d3 * r)) by omega]
  exact modK _ _ _ (by omega)

theorem p4_s4 : ((d0 * r + d1) + 256 * (d1 * r + d2) + 65536 * (d2 * r + d3) + 16777216 * (d3 * r)) / 2 ^ 16 % 128
    = d2 * r + d3 := by
  have b0 := mul_bnd h0 h10; have b1 := mul_bnd h1 h10; have b2 := mul_bnd h2 h10
  rw [show (d0 * r + d1) + 256 * (d1 * r + d2) + 65536 * (d2 * r + d3) + 16777216 * (d3 * r)
    = ((d0 * r + d1) + 256 * (d1 * r + d2)) + 2 ^ 16 * ((d2 * r + d3) + 128 * (2 * (d3 * r))) by omega]
  rw [divK _ _ _ (by omega)]
  exact modK _ _ _ (by omega)

theorem p4_s5 : ((d0 * r + d1) * r % 2 ^ 32 * r % 2 ^ 32 + (d2 * r + d3)) % 2 ^ 32 = ((d0 * r + d1) * r + d2) * r + d3 := by
  have b0 := mul_bnd h0 h10; have b2 := mul_bnd h2 h10
  have c1 : (d0 * r + d1) * r ≤ 99 * 10 := Nat.mul_le_mul (by omega) h10
  have c2 : (d0 * r + d1) * r * r ≤ 99 * 10 * 10 := Nat.mul_le_mul c1 h10
  have m1 : (d0 * r + d1) * r % 2 ^ 32 = (d0 * r + d1) * r := Nat.mod_eq_of_lt (by omega)
  have m2 : (d0 * r + d1) * r * r % 2 ^ 32 = (d0 * r + d1) * r * r := Nat.mod_eq_of_lt (by omega)
  have m3 : ((d0 * r + d1) * r * r + (d2 * r + d3)) % 2 ^ 32 = (d0 * r + d1) * r * r + (d2 * r + d3) :=
    Nat.mod_eq_of_lt (by omega)
  rw [m1, m2, m3]
  ring

theorem parse4_digits :
    parse4digits r (leWord [d0 + 48, d1 + 48, d2 + 48, d3 + 48]) = ((d0 * r + d1) * r + d2) * r + d3 := by
  unfold parse4digits
  simp only [leWord, Nat.shiftRight_eq_div_pow, and_7f]
  rw [p4_s1 h10 d0 d1 d2 d3 h0 h1 h2 h3, p4_s2 h10 d0 d1 d2 d3 h0 h1 h2 h3,
    p4_s3 h10 d0 d1 d2 d3 h0 h1 h2 h3, p4_s4 h10 d0 d1 d2 d3 h0 h1 h2 h3,
    p4_s5 h10 d0 d1 d2 d3 h0 h1 h2 h3]
end p4

/-! ### `parse_8digits` -/



theorem and_ff (x : Nat) : x &&& 255 = x % 256 := Nat.and_two_pow_sub_one_eq_mod x 8

theorem and_mask8 (x : Nat) : x &&& 0x000000FF000000FF = x % 256 + 2 ^ 32 * (x / 2 ^ 32 % 256) := by
  have h := Nat.div_add_mod (x &&& 0x000000FF000000FF) (2 ^ 32)
  rw [Nat.and_div_two_pow, Nat.and_mod_two_pow] at h
  rw [show (0x000000FF000000FF : Nat) / 2 ^ 32 = 255 by decide,
    show (0x000000FF000000FF : Nat) % 2 ^ 32 = 255 by decide, and_ff, and_ff] at h
  omega

section p8
variable {r : Nat} (h10 : r ≤ 10) (d0 d1 d2 d3 d4 d5 d6 d7 : Nat)
    (h0 : d0 < r) (h1 : d1 < r) (h2 : d2 < r) (h3 : d3 < r) (h4 : d4 < r) (h5 : d5 < r) (h6 : d6 < r) (h7 : d7 < r)
include h10 h0 h1 h2 h3 h4 h5 h6 h7
set_option linter.unusedSectionVars false

theorem p8_s1 : (d0 + 48 + 256 * (d1 + 48 + 256 * (d2 + 48 + 256 * (d3 + 48 + 256 * (d4 + 48 + 256 * (d5 + 48 +
      256 * (d6 + 48 + 256 * (d7 + 48 + 256 * 0))))))) + (2 ^ 64 - 0x3030303030303030)) % 2 ^ 64
    = d0 + 256 * d1 + 65536 * d2 + 16777216 * d3 + 4294967296 * d4 + 1099511627776 * d5 + 281474976710656 * d6
      + 72057594037927936 * d7 := by omega

theorem p8_s2 : ((d0 + 256 * d1 + 65536 * d2 + 16777216 * d3 + 4294967296 * d4 + 1099511627776 * d5 + 281474976710656 * d6
      + 72057594037927936 * d7) * r % 2 ^ 64
      + (d0 + 256 * d1 + 65536 * d2 + 16777216 * d3 + 4294967296 * d4 + 1099511627776 * d5 + 281474976710656 * d6
      + 72057594037927936 * d7) / 2 ^ 8) % 2 ^ 64
    = (d0 * r + d1) + 256 * (d1 * r + d2) + 65536 * (d2 * r + d3) + 16777216 * (d3 * r + d4)
      + 4294967296 * (d4 * r + d5) + 1099511627776 * (d5 * r + d6) + 281474976710656 * (d6 * r + d7)
      + 72057594037927936 * (d7 * r) := by
  have b0 := mul_bnd h0 h10; have b1 := mul_bnd h1 h10; have b2 := mul_bnd h2 h10; have b3 := mul_bnd h3 h10
  have b4 := mul_bnd h4 h10; have b5 := mul_bnd h5 h10; have b6 := mul_bnd h6 h10; have b7 := mul_bnd h7 h10
  have e1 : (d0 + 256 * d1 + 65536 * d2 + 16777216 * d3 + 4294967296 * d4 + 1099511627776 * d5 + 281474976710656 * d6
      + 72057594037927936 * d7) / 2 ^ 8 = d1 + 256 * d2 + 65536 * d3 + 16777216 * d4 + 4294967296 * d5
        + 1099511627776 * d6 + 281474976710656 * d7 := by
    rw [show d0 + 256 * d1 + 65536 * d2 + 16777216 * d3 + 4294967296 * d4 + 1099511627776 * d5 + 281474976710656 * d6
      + 72057594037927936 * d7 = d0 + 2 ^ 8 * (d1 + 256 * d2 + 65536 * d3 + 16777216 * d4 + 4294967296 * d5
        + 1099511627776 * d6 + 281474976710656 * d7) by omega]
    exact divK _ _ _ (by omega)
  have hm : (d0 + 256 * d1 + 65536 * d2 + 16777216 * d3 + 4294967296 * d4 + 1099511627776 * d5 + 281474976710656 * d6
      + 72057594037927936 * d7) * r
      = d0 * r + 256 * (d1 * r) + 65536 * (d2 * r) + 16777216 * (d3 * r) + 4294967296 * (d4 * r)
        + 1099511627776 * (d5 * r) + 281474976710656 * (d6 * r) + 72057594037927936 * (d7 * r) := by ring
  rw [hm, e1]
  have m1 : (d0 * r + 256 * (d1 * r) + 65536 * (d2 * r) + 16777216 * (d3 * r) + 4294967296 * (d4 * r)
        + 1099511627776 * (d5 * r) + 281474976710656 * (d6 * r) + 72057594037927936 * (d7 * r)) % 2 ^ 64 = _ :=
    Nat.mod_eq_of_lt (by omega)
  rw [m1, Nat.mod_eq_of_lt (by omega)]; omega

end p8

section p8b
variable (B0 B1 B2 B3 B4 B5 B6 B7 : Nat)
    (c0 : B0 ≤ 99) (c1 : B1 ≤ 99) (c2 : B2 ≤ 99) (c3 : B3 ≤ 99) (c4 : B4 ≤ 99) (c5 : B5 ≤ 99) (c6 : B6 ≤ 99) (c7 : B7 ≤ 99)
include c0 c1 c2 c3 c4 c5 c6 c7
set_option linter.unusedSectionVars false

theorem p8_s3 : (B0 + 256 * B1 + 65536 * B2 + 16777216 * B3 + 4294967296 * B4 + 1099511627776 * B5
      + 281474976710656 * B6 + 72057594037927936 * B7) &&& 0x000000FF000000FF = B0 + 2 ^ 32 * B4 := by
  rw [and_mask8]
  have e1 : (B0 + 256 * B1 + 65536 * B2 + 16777216 * B3 + 4294967296 * B4 + 1099511627776 * B5
      + 281474976710656 * B6 + 72057594037927936 * B7) % 256 = B0 := by
    rw [show B0 + 256 * B1 + 65536 * B2 + 16777216 * B3 + 4294967296 * B4 + 1099511627776 * B5
      + 281474976710656 * B6 + 72057594037927936 * B7 = B0 + 256 * (B1 + 256 * B2 + 65536 * B3 + 16777216 * B4
        + 4294967296 * B5 + 1099511627776 * B6 + 281474976710656 * B7) by omega]
    exact modK _ _ _ (by omega)
  have e2 : (B0 + 256 * B1 + 65536 * B2 + 16777216 * B3 + 4294967296 * B4 + 1099511627776 * B5
      + 281474976710656 * B6 + 72057594037927936 * B7) / 2 ^ 32 = B4 + 256 * (B5 + 256 * B6 + 65536 * B7) := by
    rw [show B0 + 256 * B1 + 65536 * B2 + 16777216 * B3 + 4294967296 * B4 + 1099511627776 * B5
      + 281474976710656 * B6 + 72057594037927936 * B7 = (B0 + 256 * B1 + 65536 * B2 + 16777216 * B3)
        + 2 ^ 32 * (B4 + 256 * (B5 + 256 * B6 + 65536 * B7)) by omega]
    exact divK _ _ _ (by omega)
  rw [e1, e2, modK _ _ _ (by omega)]

theorem p8_s4 : ((B0 + 256 * B1 + 65536 * B2 + 16777216 * B3 + 4294967296 * B4 + 1099511627776 * B5
      + 281474976710656 * B6 + 72057594037927936 * B7) / 2 ^ 16) &&& 0x000000FF000000FF = B2 + 2 ^ 32 * B6 := by
  have e0 : (B0 + 256 * B1 + 65536 * B2 + 16777216 * B3 + 4294967296 * B4 + 1099511627776 * B5
      + 281474976710656 * B6 + 72057594037927936 * B7) / 2 ^ 16
      = B2 + 256 * B3 + 65536 * B4 + 16777216 * B5 + 4294967296 * B6 + 1099511627776 * B7 := by
    rw [show B0 + 256 * B1 + 65536 * B2 + 16777216 * B3 + 4294967296 * B4 + 1099511627776 * B5
      + 281474976710656 * B6 + 72057594037927936 * B7 = (B0 + 256 * B1)
        + 2 ^ 16 * (B2 + 256 * B3 + 65536 * B4 + 16777216 * B5 + 4294967296 * B6 + 1099511627776 * B7) by omega]
    exact divK _ _ _ (by omega)
  rw [e0, and_mask8]
  have e1 : (B2 + 256 * B3 + 65536 * B4 + 16777216 * B5 + 4294967296 * B6 + 1099511627776 * B7) % 256 = B2 := by
    rw [show B2 + 256 * B3 + 65536 * B4 + 16777216 * B5 + 4294967296 * B6 + 1099511627776 * B7
      = B2 + 256 * (B3 + 256 * B4 + 65536 * B5 + 16777216 * B6 + 4294967296 * B7) by omega]
    exact modK _ _ _ (by omega)
  have e2 : (B2 + 256 * B3 + 65536 * B4 + 16777216 * B5 + 4294967296 * B6 + 1099511627776 * B7) / 2 ^ 32
      = B6 + 256 * B7 := by
    rw [show B2 + 256 * B3 + 65536 * B4 + 16777216 * B5 + 4294967296 * B6 + 1099511627776 * B7
      = (B2 + 256 * B3 + 65536 * B4 + 16777216 * B5) + 2 ^ 32 * (B6 + 256 * B7) by omega]
    exact divK _ _ _ (by omega)
  rw [e1, e2, modK _ _ _ (by omega)]
end p8b

/-- the two multiplications and the final shift of `parse_8digits` -/
theorem p8_s5 (B0 B2 B4 B6 R2 R4 R6 : Nat) (c0 : B0 ≤ 99) (c2 : B2 ≤ 99) (c4 : B4 ≤ 99) (c6 : B6 ≤ 99)
    (q2 : R2 ≤ 100) (q4 : R4 ≤ 10000) (q6 : R6 ≤ 1000000) :
    ((((B0 + 2 ^ 32 * B4) * (R2 + R6 * 2 ^ 32)) % 2 ^ 64 + ((B2 + 2 ^ 32 * B6) * (1 + R4 * 2 ^ 32)) % 2 ^ 64) % 2 ^ 64
      / 2 ^ 32) % 2 ^ 32 = B0 * R6 + B2 * R4 + B4 * R2 + B6 := by
  have p02 : B0 * R2 ≤ 99 * 100 := Nat.mul_le_mul c0 q2
  have p06 : B0 * R6 ≤ 99 * 1000000 := Nat.mul_le_mul c0 q6
  have p42 : B4 * R2 ≤ 99 * 100 := Nat.mul_le_mul c4 q2
  have p24 : B2 * R4 ≤ 99 * 10000 := Nat.mul_le_mul c2 q4
  have x1 : (B0 + 2 ^ 32 * B4) * (R2 + R6 * 2 ^ 32)
      = (B0 * R2 + 2 ^ 32 * (B0 * R6 + B4 * R2)) + 2 ^ 64 * (B4 * R6) := by ring
  have x2 : (B2 + 2 ^ 32 * B6) * (1 + R4 * 2 ^ 32) = (B2 + 2 ^ 32 * (B2 * R4 + B6)) + 2 ^ 64 * (B6 * R4) := by ring
  rw [x1, x2, modK _ _ _ (by omega), modK _ _ _ (by omega)]
  have m : (B0 * R2 + 2 ^ 32 * (B0 * R6 + B4 * R2) + (B2 + 2 ^ 32 * (B2 * R4 + B6))) % 2 ^ 64
      = (B0 * R2 + B2) + 2 ^ 32 * (B0 * R6 + B2 * R4 + B4 * R2 + B6) := by
    rw [Nat.mod_eq_of_lt (by omega)]; omega
  rw [m, divK _ _ _ (by omega), Nat.mod_eq_of_lt (by omega)]

theorem parse8_digits {r : Nat} (h10 : r ≤ 10) (d0 d1 d2 d3 d4 d5 d6 d7 : Nat)
    (h0 : d0 < r) (h1 : d1 < r) (h2 : d2 < r) (h3 : d3 < r) (h4 : d4 < r) (h5 : d5 < r) (h6 : d6 < r) (h7 : d7 < r) :
    parse8digits r (leWord [d0 + 48, d1 + 48, d2 + 48, d3 + 48, d4 + 48, d5 + 48, d6 + 48, d7 + 48])
      = ((((((d0 * r + d1) * r + d2) * r + d3) * r + d4) * r + d5) * r + d6) * r + d7 := by
  have b0 := mul_bnd h0 h10; have b1 := mul_bnd h1 h10; have b2 := mul_bnd h2 h10; have b3 := mul_bnd h3 h10
  have b4 := mul_bnd h4 h10; have b5 := mul_bnd h5 h10; have b6 := mul_bnd h6 h10; have b7 := mul_bnd h7 h10
  have q2 : r * r ≤ 100 := Nat.mul_le_mul h10 h10
  have q4 : r * r * (r * r) ≤ 10000 := Nat.mul_le_mul q2 q2
  have q6 : r * r * (r * r * (r * r)) ≤ 1000000 := Nat.mul_le_mul q2 q4
  have k2 : r * r % 2 ^ 64 = r * r := Nat.mod_eq_of_lt (by omega)
  have k4 : r * r * (r * r) % 2 ^ 64 = r * r * (r * r) := Nat.mod_eq_of_lt (by omega)
  have k6 : r * r * (r * r * (r * r)) % 2 ^ 64 = r * r * (r * r * (r * r)) := Nat.mod_eq_of_lt (by omega)
  have km1 : (r * r + r * r * (r * r * (r * r)) * 2 ^ 32 % 2 ^ 64) % 2 ^ 64
      = r * r + r * r * (r * r * (r * r)) * 2 ^ 32 := by
    rw [Nat.mod_eq_of_lt (show r * r * (r * r * (r * r)) * 2 ^ 32 < 2 ^ 64 by omega)]
    exact Nat.mod_eq_of_lt (by omega)
  have km2 : (1 + r * r * (r * r) * 2 ^ 32 % 2 ^ 64) % 2 ^ 64 = 1 + r * r * (r * r) * 2 ^ 32 := by
    rw [Nat.mod_eq_of_lt (show r * r * (r * r) * 2 ^ 32 < 2 ^ 64 by omega)]
    exact Nat.mod_eq_of_lt (by omega)
  unfold parse8digits
  simp only [leWord, Nat.shiftRight_eq_div_pow, Nat.shiftLeft_eq]
  rw [k2, k4, k6, km1, km2]
  rw [p8_s1 h10 d0 d1 d2 d3 d4 d5 d6 d7 h0 h1 h2 h3 h4 h5 h6 h7,
    p8_s2 h10 d0 d1 d2 d3 d4 d5 d6 d7 h0 h1 h2 h3 h4 h5 h6 h7]
  rw [p8_s3 _ _ _ _ _ _ _ _ (by omega) (by omega) (by omega) (by omega) (by omega) (by omega) (by omega) (by omega),
    p8_s4 _ _ _ _ _ _ _ _ (by omega) (by omega) (by omega) (by omega) (by omega) (by omega) (by omega) (by omega)]
  rw [p8_s5 _ _ _ _ _ _ _ (by omega) (by omega) (by omega) (by omega) q2 q4 q6]
  ring

/-! ### `SwarCorrect` for every radix the multi-digit paths can see -/

theorem swarCorrect {r : Nat} (h2 : 2 ≤ r) (h10 : r ≤ 10) : SwarCorrect r where
  is8 := is8_correct h2 h10
  is4 := is4_correct h2 h10
  parse8 := by
    intro bs hl hv
    match bs, hl, hv with
    | [b0, b1, b2, b3, b4, b5, b6, b7], _, hv =>
      simp only [List.mem_cons, List.mem_nil_iff, or_false, forall_eq_or_imp, forall_eq] at hv
      obtain ⟨v0, v1, v2, v3, v4, v5, v6, v7⟩ := hv
      obtain ⟨d0, rfl⟩ : ∃ d, b0 = d + 48 := ⟨b0 - 48, by omega⟩
      obtain ⟨d1, rfl⟩ : ∃ d, b1 = d + 48 := ⟨b1 - 48, by omega⟩
      obtain ⟨d2, rfl⟩ : ∃ d, b2 = d + 48 := ⟨b2 - 48, by omega⟩
      obtain ⟨d3, rfl⟩ : ∃ d, b3 = d + 48 := ⟨b3 - 48, by omega⟩
      obtain ⟨d4, rfl⟩ : ∃ d, b4 = d + 48 := ⟨b4 - 48, by omega⟩
      obtain ⟨d5, rfl⟩ : ∃ d, b5 = d + 48 := ⟨b5 - 48, by omega⟩
      obtain ⟨d6, rfl⟩ : ∃ d, b6 = d + 48 := ⟨b6 - 48, by omega⟩
      obtain ⟨d7, rfl⟩ : ∃ d, b7 = d + 48 := ⟨b7 - 48, by omega⟩
      rw [parse8_digits h10 d0 d1 d2 d3 d4 d5 d6 d7 (by omega) (by omega) (by omega) (by omega) (by omega)
        (by omega) (by omega) (by omega)]
      simp [ofDigits]
  parse4 := by
    intro bs hl hv
    match bs, hl, hv with
    | [b0, b1, b2, b3], _, hv =>
      simp only [List.mem_cons, List.mem_nil_iff, or_false, forall_eq_or_imp, forall_eq] at hv
      obtain ⟨v0, v1, v2, v3⟩ := hv
      obtain ⟨d0, rfl⟩ : ∃ d, b0 = d + 48 := ⟨b0 - 48, by omega⟩
      obtain ⟨d1, rfl⟩ : ∃ d, b1 = d + 48 := ⟨b1 - 48, by omega⟩
      obtain ⟨d2, rfl⟩ : ∃ d, b2 = d + 48 := ⟨b2 - 48, by omega⟩
      obtain ⟨d3, rfl⟩ : ∃ d, b3 = d + 48 := ⟨b3 - 48, by omega⟩
      rw [parse4_digits h10 d0 d1 d2 d3 (by omega) (by omega) (by omega) (by omega)]
      simp [ofDigits]

end LexVerif.Proof.ParseInt
