import LexVerif.Proof.BinaryCorrect
/-!
# Proof.SlowBinary — `slow_binary` on an undecided mantissa

`slowBinary_core`: the rounding `slow_binary` performs — normalise the first `u64_step` digits `M`, shift,
round **up iff some later digit is non-zero** — is `roundNE` of `(M + ρ)·base^e` (`0 ≤ ρ < 1` the value of
the later digits), *provided* `binary` was undecided on `M` (exactly half-way above an even significand).
`parseDigits_spec`: the digit loop of `parse_u64_digits` accumulates exactly the first `step` digits and
reports whether all later ones are zero (no overflow because `radix^step ≤ 2^64`).  Mathlib-free.
-/
namespace LexVerif.Proof.SlowBinary
open LexVerif.Spec LexVerif.Model LexVerif.Model.Bellerophon LexVerif.Model.Binary
open LexVerif.Proof.RoundNE LexVerif.Proof.ExtRound LexVerif.Proof.BinaryCorrect

/-- the undecided situation of `binary`: truncated bits exactly `100…0`, kept significand even -/
def HalfwayEven (mant shift : Nat) : Prop :=
  mant % 2 ^ shift = 2 ^ (shift - 1) ∧ mant / 2 ^ shift % 2 = 0

/-- value lemma with a sticky part: `(M·c + r)/c · (2^lg)^e`, `r < c`, `M·2^cz` normalised and exactly
half-way/even at `shift`, `cz < shift`: `roundNE` is the significand `mant / 2^shift`, plus one iff `r ≠ 0`. -/
theorem roundNE_norm_sticky {F p eb} (lay : Layout F p eb) (lg M cz c r : Nat) (e : Int)
    (hm1 : 2 ^ 63 ≤ M * 2 ^ cz) (hm2 : M * 2 ^ cz < 2 ^ 64) (hcz : cz ≤ 63) (hr : r < c)
    (power2 : Int) (hpw : power2 = (lg : Int) * e + F.C.exponentBias - cz) (hp2 : -power2 + 1 ≤ 64)
    (hcs : r ≠ 0 → cz < shiftOf p power2) (hhe : HalfwayEven (M * 2 ^ cz) (shiftOf p power2)) :
    roundNE F.fmt (powFrac (2 ^ lg) e (M * c + r)).1 ((powFrac (2 ^ lg) e (M * c + r)).2 * c) =
      encode F.fmt (power2 + 64 - p - 1).toNat
        (M * 2 ^ cz / 2 ^ shiftOf p power2 + (if r = 0 then 0 else 1)) := by
  have hf := lay.wf
  have hp := lay.hp; have hp64 := lay.hp64; have heb := lay.heb
  have hfp : F.fmt.p = p := by rw [lay.fmt]
  have hL := L_eq lay
  have hLge := lay.hL
  have hB := lay.bias
  have hc : 0 < c := by omega
  obtain ⟨qa, qb, qc, qd, qe⟩ := quot_bounds hp (by omega) hm1 hm2 power2 hp2
  generalize hk : (power2 + 64 - (p : Int) - 1).toNat = k at *
  generalize hs : shiftOf p power2 = s at *
  obtain ⟨hh1, hh2⟩ := hhe
  -- the rounded quotient
  have hq : rhe ((M * 2 ^ cz) * c + r * 2 ^ cz) (2 ^ s * c) =
      M * 2 ^ cz / 2 ^ s + (if r = 0 then 0 else 1) := by
    by_cases hr0 : r = 0
    · subst hr0
      have hsc : rhe (M * 2 ^ cz * c) (2 ^ s * c) = rhe (M * 2 ^ cz) (2 ^ s) := by
        rw [Nat.mul_comm (M * 2 ^ cz) c, Nat.mul_comm (2 ^ s) c]; exact rhe_scale c _ _ hc
      have : ¬ (2 ^ (s - 1) > 2 ^ (s - 1) ∨ 2 ^ (s - 1) = 2 ^ (s - 1) ∧ M * 2 ^ cz / 2 ^ s % 2 = 1) := by
        omega
      simp only [Nat.zero_mul, Nat.add_zero, if_true]
      rw [hsc, rhe_pow2 _ s qc, hh1, if_neg this, Nat.add_zero]
    · rw [if_neg hr0]
      apply rhe_sticky_half_wide (M * 2 ^ cz) s c (r * 2 ^ cz) (2 ^ cz) qc
      · exact Nat.mul_pos (Nat.pos_of_ne_zero hr0) (Nat.two_pow_pos _)
      · rw [Nat.mul_comm (2 ^ cz) c]; exact Nat.mul_lt_mul_of_pos_right hr (Nat.two_pow_pos _)
      · exact Nat.pow_le_pow_right (by decide) (by have := hcs hr0; omega)
      · exact hh1
  rw [← hq]
  have hg := rhe_ge ((M * 2 ^ cz) * c + r * 2 ^ cz) (2 ^ s * c)
  -- floor of the sticky quotient equals the plain one
  have hfloor : ((M * 2 ^ cz) * c + r * 2 ^ cz) / (2 ^ s * c) = M * 2 ^ cz / 2 ^ s := by
    by_cases hr0 : r = 0
    · subst hr0
      rw [Nat.zero_mul, Nat.add_zero, Nat.mul_comm (2 ^ s) c, Nat.mul_comm _ c, Nat.mul_div_mul_left _ _ hc]
    · have hcs' := hcs hr0
      rw [sticky_split (M * 2 ^ cz) s c (r * 2 ^ cz), hh1]
      have h1 : r * 2 ^ cz < c * 2 ^ cz := Nat.mul_lt_mul_of_pos_right hr (Nat.two_pow_pos _)
      have h2 : c * 2 ^ cz ≤ c * 2 ^ (s - 1) :=
        Nat.mul_le_mul_left c (Nat.pow_le_pow_right (by decide) (by omega))
      have e2 : 2 ^ s * c = 2 * (2 ^ (s - 1) * c) := by
        rw [show 2 ^ s = 2 * 2 ^ (s - 1) by rw [← Nat.pow_succ']; congr 1; omega, Nat.mul_assoc]
      have h3 : 2 ^ (s - 1) * c + r * 2 ^ cz < 2 ^ s * c := by
        rw [e2]; rw [Nat.mul_comm c (2 ^ (s - 1))] at h2; omega
      rw [Nat.mul_add_div (Nat.mul_pos (Nat.two_pow_pos _) hc), Nat.div_eq_of_lt h3, Nat.add_zero]
  rw [hfloor] at hg
  have hkey : (s : Int) + ((lg : Int) * e + (L F.fmt : Int) - cz) = (k : Int) := by
    rw [hL]; rw [hpw, hB] at qe; omega
  have hden : ∀ d, 0 < d → d * c ≠ 0 := fun d hd => Nat.ne_of_gt (Nat.mul_pos hd hc)
  unfold powFrac
  by_cases he : e ≥ 0
  · rw [if_pos he]
    obtain ⟨en, hen⟩ : ∃ en : Nat, e = (en : Int) := ⟨e.toNat, by omega⟩
    subst hen
    simp only [Int.toNat_natCast]
    rw [pow_pow2]
    have hkey' : s + (lg * en + L F.fmt - cz) = k := by
      have : ((lg * en : Nat) : Int) = (lg : Int) * (en : Int) := by push_cast; rfl
      omega
    have hγ : cz ≤ lg * en + L F.fmt := by omega
    apply roundNE_of_scaled hf (hden 1 Nat.one_pos) k ((M * 2 ^ cz) * c + r * 2 ^ cz) (2 ^ s * c)
      (2 ^ (lg * en + L F.fmt - cz)) (Nat.two_pow_pos _) (Nat.mul_pos (Nat.two_pow_pos _) hc)
    · have e1 : (M * 2 ^ cz * c + r * 2 ^ cz) = (M * c + r) * 2 ^ cz := by rw [Nat.add_mul]; ac_rfl
      rw [e1, Nat.mul_assoc, Nat.mul_assoc, ← Nat.pow_add, ← Nat.pow_add]
      congr 2; omega
    · rw [Nat.one_mul, Nat.mul_right_comm, ← Nat.pow_add, hkey', Nat.mul_comm]
    · intro h0; rw [hfp]; exact Nat.le_trans (qa h0).2.1 hg.1
    · rw [hfp]; omega
    · intro h0; rw [hfp]
      have := (qa h0).2.2
      calc 2 ^ s * c * 2 ^ (p - 1) = (2 ^ s * 2 ^ (p - 1)) * c := by ac_rfl
        _ ≤ (M * 2 ^ cz) * c := Nat.mul_le_mul_right c this
        _ ≤ (M * 2 ^ cz) * c + r * 2 ^ cz := Nat.le_add_right _ _
  · rw [if_neg he]
    obtain ⟨en, hen⟩ : ∃ en : Nat, -e = (en : Int) := ⟨(-e).toNat, by omega⟩
    have he' : e = -(en : Int) := by omega
    subst he'
    simp only [Int.neg_neg, Int.toNat_natCast]
    rw [pow_pow2]
    have hkey' : s + (L F.fmt - cz) = lg * en + k := by
      have : ((lg * en : Nat) : Int) = (lg : Int) * (en : Int) := by push_cast; rfl
      have h2 : (lg : Int) * -(en : Int) = -((lg : Int) * (en : Int)) := Int.mul_neg _ _
      omega
    apply roundNE_of_scaled hf (hden _ (Nat.two_pow_pos _)) k ((M * 2 ^ cz) * c + r * 2 ^ cz) (2 ^ s * c)
      (2 ^ (L F.fmt - cz)) (Nat.two_pow_pos _) (Nat.mul_pos (Nat.two_pow_pos _) hc)
    · have e1 : (M * 2 ^ cz * c + r * 2 ^ cz) = (M * c + r) * 2 ^ cz := by rw [Nat.add_mul]; ac_rfl
      rw [e1, Nat.mul_assoc, ← Nat.pow_add]
      congr 2; omega
    · have : 2 ^ (lg * en) * c * 2 ^ k = 2 ^ (lg * en + k) * c := by rw [Nat.pow_add]; ac_rfl
      rw [this, ← hkey', Nat.pow_add]; ac_rfl
    · intro h0; rw [hfp]; exact Nat.le_trans (qa h0).2.1 hg.1
    · rw [hfp]; omega
    · intro h0; rw [hfp]
      have := (qa h0).2.2
      calc 2 ^ s * c * 2 ^ (p - 1) = (2 ^ s * 2 ^ (p - 1)) * c := by ac_rfl
        _ ≤ (M * 2 ^ cz) * c := Nat.mul_le_mul_right c this
        _ ≤ (M * 2 ^ cz) * c + r * 2 ^ cz := Nat.le_add_right _ _

/-- what `slow_binary` does once the digits are accumulated: `Ms` = the first `u64_step` significant digits,
`zero` = "every later digit is `0`" -/
def slowTail (F : FTy) (base : Nat) (e : Int) (Ms : Nat) (zero : Bool) : ExtendedFloat80 :=
  let ctlz := clz64 Ms
  let mantissa := shl64m Ms ctlz
  let power2 := calculatePower2 F base e ctlz
  round F { mant := mantissa, exp := power2 } fun f sh => roundNearestTieEven f sh fun _ _ _ => !zero

/-- **`slow_binary`, rounding part**: if `binary` was undecided on the accumulated mantissa `Ms` (non-zero, at
its shift the truncated bits are exactly `100…0` and the kept significand is even, not in the underflow cut),
the later digits amount to `r/c ∈ [0, 1)` of a unit of `Ms` with `zero ↔ r = 0`, then the result is
`roundNE ((Ms + r/c)·base^e)`. -/
theorem slowBinary_core {F p eb} (lay : Layout F p eb) {base : Nat}
    (hb : base = 2 ∨ base = 4 ∨ base = 8 ∨ base = 16 ∨ base = 32) (e : Int)
    (he1 : -(2 ^ 27 : Int) ≤ e) (he2 : e ≤ (2 ^ 27 : Int)) (Ms : Nat) (zero : Bool) (c r : Nat)
    (hMs0 : Ms ≠ 0) (hMs : Ms < 2 ^ 64) (hr : r < c) (hz : zero = true ↔ r = 0)
    (hp2 : -(calculatePower2 F base e (clz64 Ms)) + 1 ≤ 64)
    (hcs : r ≠ 0 → clz64 Ms < shiftOf p (calculatePower2 F base e (clz64 Ms)))
    (hhe : HalfwayEven (Ms * 2 ^ clz64 Ms) (shiftOf p (calculatePower2 F base e (clz64 Ms)))) :
    extendedToFloat F (slowTail F base e Ms zero) =
      roundNE F.fmt (powFrac base e (Ms * c + r)).1 ((powFrac base e (Ms * c + r)).2 * c) := by
  obtain ⟨lg, hlg⟩ := isPow2Base_of base hb
  obtain ⟨hc, hm1, hm2, hshl⟩ := clz_norm hMs0 hMs
  have hpw := calculatePower2_eq lay hlg e he1 he2 (clz64 Ms) (by omega)
  unfold slowTail
  simp only [hshl]
  generalize hP : calculatePower2 F base e (clz64 Ms) = power2 at *
  generalize hcz : clz64 Ms = cz at *
  obtain ⟨_, hbits⟩ := round_bits lay (Ms * 2 ^ cz) power2 (fun _ _ _ => !zero) hm1 hm2 hp2
  rw [hbits, hlg.1, roundNE_norm_sticky lay lg Ms cz c r e hm1 hm2 hc hr power2 hpw hp2 hcs hhe]
  congr 2
  unfold upOf
  cases zero with
  | true => have := hz.mp rfl; simp [this]
  | false =>
    have : r ≠ 0 := fun h => by have := hz.mpr h; exact absurd this (by decide)
    simp [this]

theorem slowBinary_eq (F : FTy) (compact : Bool) (radix base step : Nat) (e : Int) (integer : List Nat)
    (fraction : Option (List Nat)) :
    slowBinary F compact radix base step e integer fraction =
      let s0 : DigitState := { mantissa := 0, step := step, overflowed := false, zero := true }
      let s1 := parseU64Digits compact radix (skipZeros integer) s0
      let s2 := match fraction with
        | some fr => parseU64Digits compact radix (if s1.mantissa = 0 then skipZeros fr else fr) s1
        | none => s1
      slowTail F base e s2.mantissa s2.zero := rfl

end LexVerif.Proof.SlowBinary
