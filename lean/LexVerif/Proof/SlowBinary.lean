import LexVerif.Proof.BinaryCorrect
/-!
# Proof.SlowBinary — `slow_binary` on an undecided mantissa

`slowBinary_core`: the rounding `slow_binary` performs — normalise the first `u64_step` digits `M`, shift,
round **up iff some later digit is non-zero** — is `roundNE` of `(M + ρ)·base^e` (`0 ≤ ρ < 1` the value of
the later digits), *provided* `binary` was undecided on `M` (exactly half-way above an even significand).
`parseDigits_spec`: the digit loop of `parse_u64_digits` accumulates exactly the first `step` digits and
reports whether all later ones are zero (no overflow because `radix^step ≤ 2^64`).  Mathlib-free.
-/
namespace LexVerif.Proof.SlowBinary
open LexVerif.Spec LexVerif.Model LexVerif.Model.Bellerophon LexVerif.Model.Binary
open LexVerif.Proof.RoundNE LexVerif.Proof.ExtRound LexVerif.Proof.BinaryCorrect

/-- the undecided situation of `binary`: truncated bits exactly `100…0`, kept significand even -/
def HalfwayEven (mant shift : Nat) : Prop :=
  mant % 2 ^ shift = 2 ^ (shift - 1) ∧ mant / 2 ^ shift % 2 = 0

/-- value lemma with a sticky part: `(M·c + r)/c · (2^lg)^e`, `r < c`, `M·2^cz` normalised and exactly
half-way/even at `shift`, `cz < shift`: `roundNE` is the significand `mant / 2^shift`, plus one iff `r ≠ 0`. -/
theorem roundNE_norm_sticky {F p eb} (lay : Layout F p eb) (lg M cz c r : Nat) (e : Int)
    (hm1 : 2 ^ 63 ≤ M * 2 ^ cz) (hm2 : M * 2 ^ cz < 2 ^ 64) (hcz : cz ≤ 63) (hr : r < c)
    (power2 : Int) (hpw : power2 = (lg : Int) * e + F.C.exponentBias - cz) (hp2 : -power2 + 1 ≤ 64)
    (hcs : r ≠ 0 → cz < shiftOf p power2) (hhe : HalfwayEven (M * 2 ^ cz) (shiftOf p power2)) :
    roundNE F.fmt (powFrac (2 ^ lg) e (M * c + r)).1 ((powFrac (2 ^ lg) e (M * c + r)).2 * c) =
      encode F.fmt (power2 + 64 - p - 1).toNat
        (M * 2 ^ cz / 2 ^ shiftOf p power2 + (if r = 0 then 0 else 1)) := by
  have hf := lay.wf
  have hp := lay.hp; have hp64 := lay.hp64; have heb := lay.heb
  have hfp : F.fmt.p = p := by rw [lay.fmt]
  have hL := L_eq lay
  have hLge := lay.hL
  have hB := lay.bias
  have hc : 0 < c := by omega
  obtain ⟨qa, qb, qc, qd, qe⟩ := quot_bounds hp (by omega) hm1 hm2 power2 hp2
  generalize hk : (power2 + 64 - (p : Int) - 1).toNat = k at *
  generalize hs : shiftOf p power2 = s at *
  obtain ⟨hh1, hh2⟩ := hhe
  -- the rounded quotient
  have hq : rhe ((M * 2 ^ cz) * c + r * 2 ^ cz) (2 ^ s * c) =
      M * 2 ^ cz / 2 ^ s + (if r = 0 then 0 else 1) := by
    by_cases hr0 : r = 0
    · subst hr0
      have hsc : rhe (M * 2 ^ cz * c) (2 ^ s * c) = rhe (M * 2 ^ cz) (2 ^ s) := by
        rw [Nat.mul_comm (M * 2 ^ cz) c, Nat.mul_comm (2 ^ s) c]; exact rhe_scale c _ _ hc
      have : ¬ (2 ^ (s - 1) > 2 ^ (s - 1) ∨ 2 ^ (s - 1) = 2 ^ (s - 1) ∧ M * 2 ^ cz / 2 ^ s % 2 = 1) := by
        omega
      simp only [Nat.zero_mul, Nat.add_zero, if_true]
      rw [hsc, rhe_pow2 _ s qc, hh1, if_neg this, Nat.add_zero]
    · rw [if_neg hr0]
      apply rhe_sticky_half_wide (M * 2 ^ cz) s c (r * 2 ^ cz) (2 ^ cz) qc
      · exact Nat.mul_pos (Nat.pos_of_ne_zero hr0) (Nat.two_pow_pos _)
      · rw [Nat.mul_comm (2 ^ cz) c]; exact Nat.mul_lt_mul_of_pos_right hr (Nat.two_pow_pos _)
      · exact Nat.pow_le_pow_right (by decide) (by have := hcs hr0; omega)
      · exact hh1
  rw [← hq]
  have hg := rhe_ge ((M * 2 ^ cz) * c + r * 2 ^ cz) (2 ^ s * c)
  -- floor of the sticky quotient equals the plain one
  have hfloor : ((M * 2 ^ cz) * c + r * 2 ^ cz) / (2 ^ s * c) = M * 2 ^ cz / 2 ^ s := by
    by_cases hr0 : r = 0
    · subst hr0
      rw [Nat.zero_mul, Nat.add_zero, Nat.mul_comm (2 ^ s) c, Nat.mul_comm _ c, Nat.mul_div_mul_left _ _ hc]
    · have hcs' := hcs hr0
      rw [sticky_split (M * 2 ^ cz) s c (r * 2 ^ cz), hh1]
      have h1 : r * 2 ^ cz < c * 2 ^ cz := Nat.mul_lt_mul_of_pos_right hr (Nat.two_pow_pos _)
      have h2 : c * 2 ^ cz ≤ c * 2 ^ (s - 1) :=
        Nat.mul_le_mul_left c (Nat.pow_le_pow_right (by decide) (by omega))
      have e2 : 2 ^ s * c = 2 * (2 ^ (s - 1) * c) := by
        rw [show 2 ^ s = 2 * 2 ^ (s - 1) by rw [← Nat.pow_succ']; congr 1; omega, Nat.mul_assoc]
      have h3 : 2 ^ (s - 1) * c + r * 2 ^ cz < 2 ^ s * c := by
        rw [e2]; rw [Nat.mul_comm c (2 ^ (s - 1))] at h2; omega
      rw [Nat.mul_add_div (Nat.mul_pos (Nat.two_pow_pos _) hc), Nat.div_eq_of_lt h3, Nat.add_zero]
  rw [hfloor] at hg
  have hkey : (s : Int) + ((lg : Int) * e + (L F.fmt : Int) - cz) = (k : Int) := by
    rw [hL]; rw [hpw, hB] at qe; omega
  have hden : ∀ d, 0 < d → d * c ≠ 0 := fun d hd => Nat.ne_of_gt (Nat.mul_pos hd hc)
  unfold powFrac
  by_cases he : e ≥ 0
  · rw [if_pos he]
    obtain ⟨en, hen⟩ : ∃ en : Nat, e = (en : Int) := ⟨e.toNat, by omega⟩
    subst hen
    simp only [Int.toNat_natCast]
    rw [pow_pow2]
    have hkey' : s + (lg * en + L F.fmt - cz) = k := by
      have : ((lg * en : Nat) : Int) = (lg : Int) * (en : Int) := by push_cast; rfl
      omega
    have hγ : cz ≤ lg * en + L F.fmt := by omega
    apply roundNE_of_scaled hf (hden 1 Nat.one_pos) k ((M * 2 ^ cz) * c + r * 2 ^ cz) (2 ^ s * c)
      (2 ^ (lg * en + L F.fmt - cz)) (Nat.two_pow_pos _) (Nat.mul_pos (Nat.two_pow_pos _) hc)
    · have e1 : (M * 2 ^ cz * c + r * 2 ^ cz) = (M * c + r) * 2 ^ cz := by rw [Nat.add_mul]; ac_rfl
      rw [e1, Nat.mul_assoc, Nat.mul_assoc, ← Nat.pow_add, ← Nat.pow_add]
      congr 2; omega
    · rw [Nat.one_mul, Nat.mul_right_comm, ← Nat.pow_add, hkey', Nat.mul_comm]
    · intro h0; rw [hfp]; exact Nat.le_trans (qa h0).2.1 hg.1
    · rw [hfp]; omega
    · intro h0; rw [hfp]
      have := (qa h0).2.2
      calc 2 ^ s * c * 2 ^ (p - 1) = (2 ^ s * 2 ^ (p - 1)) * c := by ac_rfl
        _ ≤ (M * 2 ^ cz) * c := Nat.mul_le_mul_right c this
        _ ≤ (M * 2 ^ cz) * c + r * 2 ^ cz := Nat.le_add_right _ _
  · rw [if_neg he]
    obtain ⟨en, hen⟩ : ∃ en : Nat, -e = (en : Int) := ⟨(-e).toNat, by omega⟩
    have he' : e = -(en : Int) := by omega
    subst he'
    simp only [Int.neg_neg, Int.toNat_natCast]
    rw [pow_pow2]
    have hkey' : s + (L F.fmt - cz) = lg * en + k := by
      have : ((lg * en : Nat) : Int) = (lg : Int) * (en : Int) := by push_cast; rfl
      have h2 : (lg : Int) * -(en : Int) = -((lg : Int) * (en : Int)) := Int.mul_neg _ _
      omega
    apply roundNE_of_scaled hf (hden _ (Nat.two_pow_pos _)) k ((M * 2 ^ cz) * c + r * 2 ^ cz) (2 ^ s * c)
      (2 ^ (L F.fmt - cz)) (Nat.two_pow_pos _) (Nat.mul_pos (Nat.two_pow_pos _) hc)
    · have e1 : (M * 2 ^ cz * c + r * 2 ^ cz) = (M * c + r) * 2 ^ cz := by rw [Nat.add_mul]; ac_rfl
      rw [e1, Nat.mul_assoc, ← Nat.pow_add]
      congr 2; omega
    · have : 2 ^ (lg * en) * c * 2 ^ k = 2 ^ (lg * en + k) * c := by rw [Nat.pow_add]; ac_rfl
      rw [this, ← hkey', Nat.pow_add]; ac_rfl
    · intro h0; rw [hfp]; exact Nat.le_trans (qa h0).2.1 hg.1
    · rw [hfp]; omega
    · intro h0; rw [hfp]
      have := (qa h0).2.2
      calc 2 ^ s * c * 2 ^ (p - 1) = (2 ^ s * 2 ^ (p - 1)) * c := by ac_rfl
        _ ≤ (M * 2 ^ cz) * c := Nat.mul_le_mul_right c this
        _ ≤ (M * 2 ^ cz) * c + r * 2 ^ cz := Nat.le_add_right _ _

/-- value lemma for a **decided** truncated mantissa: `x = (M·c + r)/c · (2^lg)^e` with `0 ≤ r < c`, the
normalised `mant = M·2^cz` has truncated bits `t = mant % 2^shift`; if the increment `up` follows the
rule "above half → 1, below half → 0, exactly half → 1 if the kept significand is odd, and exactly half
above an even one only when nothing was truncated (`r = 0`) → 0", then `roundNE x` is the encoding of
`mant / 2^shift + up`.  Needs `cz < shift` (the truncated digits are worth less than `2^cz` units). -/
theorem roundNE_norm_trunc {F p eb} (lay : Layout F p eb) (lg M cz c r up : Nat) (e : Int)
    (hm1 : 2 ^ 63 ≤ M * 2 ^ cz) (hm2 : M * 2 ^ cz < 2 ^ 64) (hcz : cz ≤ 63) (hr : r < c)
    (power2 : Int) (hpw : power2 = (lg : Int) * e + F.C.exponentBias - cz) (hp2 : -power2 + 1 ≤ 64)
    (hcs : cz < shiftOf p power2)
    (hup1 : M * 2 ^ cz % 2 ^ shiftOf p power2 > 2 ^ (shiftOf p power2 - 1) → up = 1)
    (hup0 : M * 2 ^ cz % 2 ^ shiftOf p power2 < 2 ^ (shiftOf p power2 - 1) → up = 0)
    (huph : M * 2 ^ cz % 2 ^ shiftOf p power2 = 2 ^ (shiftOf p power2 - 1) →
      (M * 2 ^ cz / 2 ^ shiftOf p power2 % 2 = 1 ∧ up = 1) ∨
      (M * 2 ^ cz / 2 ^ shiftOf p power2 % 2 = 0 ∧ r = 0 ∧ up = 0)) :
    roundNE F.fmt (powFrac (2 ^ lg) e (M * c + r)).1 ((powFrac (2 ^ lg) e (M * c + r)).2 * c) =
      encode F.fmt (power2 + 64 - p - 1).toNat (M * 2 ^ cz / 2 ^ shiftOf p power2 + up) := by
  have hf := lay.wf
  have hp := lay.hp; have hp64 := lay.hp64; have heb := lay.heb
  have hfp : F.fmt.p = p := by rw [lay.fmt]
  have hL := L_eq lay
  have hLge := lay.hL
  have hB := lay.bias
  have hc : 0 < c := by omega
  obtain ⟨qa, qb, qc, qd, qe⟩ := quot_bounds hp (by omega) hm1 hm2 power2 hp2
  generalize hk : (power2 + 64 - (p : Int) - 1).toNat = k at *
  generalize hs : shiftOf p power2 = s at *
  -- divisibility: t and the half are multiples of 2^cz
  have e2s : 2 ^ s = 2 * 2 ^ (s - 1) := by rw [← Nat.pow_succ']; congr 1; omega
  have hsplit2 : 2 ^ s = 2 ^ (s - cz) * 2 ^ cz := by rw [← Nat.pow_add]; congr 1; omega
  have hhalf2 : 2 ^ (s - 1) = 2 ^ (s - 1 - cz) * 2 ^ cz := by rw [← Nat.pow_add]; congr 1; omega
  have htmul : M * 2 ^ cz % 2 ^ s = (M % 2 ^ (s - cz)) * 2 ^ cz := by
    rw [hsplit2]; exact Nat.mul_mod_mul_right _ _ _
  have hg : 0 < 2 ^ cz := Nat.two_pow_pos _
  -- t + 2^cz ≤ 2^s, and t < h → t + 2^cz ≤ h
  have ht_lt := Nat.mod_lt (M * 2 ^ cz) (Nat.two_pow_pos s)
  have htop : M * 2 ^ cz % 2 ^ s + 2 ^ cz ≤ 2 ^ s := by
    rw [htmul, hsplit2] at *
    have : M % 2 ^ (s - cz) < 2 ^ (s - cz) := Nat.lt_of_mul_lt_mul_right ht_lt
    have : (M % 2 ^ (s - cz) + 1) * 2 ^ cz ≤ 2 ^ (s - cz) * 2 ^ cz := Nat.mul_le_mul_right _ this
    rw [Nat.add_mul, Nat.one_mul] at this; exact this
  have hbelow : M * 2 ^ cz % 2 ^ s < 2 ^ (s - 1) → M * 2 ^ cz % 2 ^ s + 2 ^ cz ≤ 2 ^ (s - 1) := by
    intro hlt
    rw [htmul, hhalf2] at *
    have : M % 2 ^ (s - cz) < 2 ^ (s - 1 - cz) := Nat.lt_of_mul_lt_mul_right hlt
    have : (M % 2 ^ (s - cz) + 1) * 2 ^ cz ≤ 2 ^ (s - 1 - cz) * 2 ^ cz := Nat.mul_le_mul_right _ this
    rw [Nat.add_mul, Nat.one_mul] at this; exact this
  -- the sticky part in units of c
  have hρ : r * 2 ^ cz < 2 ^ cz * c := by
    rw [Nat.mul_comm (2 ^ cz) c]; exact Nat.mul_lt_mul_of_pos_right hr hg
  generalize ht : M * 2 ^ cz % 2 ^ s = t at *
  generalize ha : M * 2 ^ cz / 2 ^ s = a at *
  have hq : rhe ((M * 2 ^ cz) * c + r * 2 ^ cz) (2 ^ s * c) = a + up ∧
      ((M * 2 ^ cz) * c + r * 2 ^ cz) / (2 ^ s * c) = a := by
    rw [sticky_split (M * 2 ^ cz) s c (r * 2 ^ cz), ht, ha]
    have h1 : (t + 2 ^ cz) * c ≤ 2 ^ s * c := Nat.mul_le_mul_right c htop
    rw [Nat.add_mul] at h1
    have hrem : t * c + r * 2 ^ cz < 2 ^ s * c := by omega
    have eD : 2 ^ s * c = 2 * (2 ^ (s - 1) * c) := by rw [e2s, Nat.mul_assoc]
    refine ⟨?_, by rw [Nat.mul_add_div (Nat.mul_pos (Nat.two_pow_pos _) hc), Nat.div_eq_of_lt hrem, Nat.add_zero]⟩
    rw [rhe_of_split _ _ _ hrem, eD]
    rcases Nat.lt_trichotomy t (2 ^ (s - 1)) with hlt | heq | hgt
    · have h2 : (t + 2 ^ cz) * c ≤ 2 ^ (s - 1) * c := Nat.mul_le_mul_right c (hbelow hlt)
      rw [Nat.add_mul] at h2
      rw [hup0 hlt, if_neg (by omega), Nat.add_zero]
    · rcases huph heq with ⟨ho, hu⟩ | ⟨hev, hr0, hu⟩
      · rw [hu, heq, if_pos (by omega)]
      · rw [hu, hr0, heq, Nat.zero_mul, Nat.add_zero, if_neg (by omega), Nat.add_zero]
    · have h2 : (2 ^ (s - 1) + 1) * c ≤ t * c := Nat.mul_le_mul_right c hgt
      rw [Nat.add_mul, Nat.one_mul] at h2
      rw [hup1 hgt, if_pos (by omega)]
  obtain ⟨hq1, hfloor⟩ := hq
  rw [← hq1]
  have hg' := rhe_ge ((M * 2 ^ cz) * c + r * 2 ^ cz) (2 ^ s * c)
  rw [hfloor] at hg'
  have hkey : (s : Int) + ((lg : Int) * e + (L F.fmt : Int) - cz) = (k : Int) := by
    rw [hL]; rw [hpw, hB] at qe; omega
  have hden : ∀ d, 0 < d → d * c ≠ 0 := fun d hd => Nat.ne_of_gt (Nat.mul_pos hd hc)
  unfold powFrac
  by_cases he : e ≥ 0
  · rw [if_pos he]
    obtain ⟨en, hen⟩ : ∃ en : Nat, e = (en : Int) := ⟨e.toNat, by omega⟩
    subst hen
    simp only [Int.toNat_natCast]
    rw [pow_pow2]
    have hkey' : s + (lg * en + L F.fmt - cz) = k := by
      have : ((lg * en : Nat) : Int) = (lg : Int) * (en : Int) := by push_cast; rfl
      omega
    have hγ : cz ≤ lg * en + L F.fmt := by omega
    apply roundNE_of_scaled hf (hden 1 Nat.one_pos) k ((M * 2 ^ cz) * c + r * 2 ^ cz) (2 ^ s * c)
      (2 ^ (lg * en + L F.fmt - cz)) (Nat.two_pow_pos _) (Nat.mul_pos (Nat.two_pow_pos _) hc)
    · have e1 : (M * 2 ^ cz * c + r * 2 ^ cz) = (M * c + r) * 2 ^ cz := by rw [Nat.add_mul]; ac_rfl
      rw [e1, Nat.mul_assoc, Nat.mul_assoc, ← Nat.pow_add, ← Nat.pow_add]
      congr 2; omega
    · rw [Nat.one_mul, Nat.mul_right_comm, ← Nat.pow_add, hkey', Nat.mul_comm]
    · intro h0; rw [hfp]; exact Nat.le_trans (qa h0).2.1 hg'.1
    · rw [hfp]; omega
    · intro h0; rw [hfp]
      have := (qa h0).2.2
      calc 2 ^ s * c * 2 ^ (p - 1) = (2 ^ s * 2 ^ (p - 1)) * c := by ac_rfl
        _ ≤ (M * 2 ^ cz) * c := Nat.mul_le_mul_right c this
        _ ≤ (M * 2 ^ cz) * c + r * 2 ^ cz := Nat.le_add_right _ _
  · rw [if_neg he]
    obtain ⟨en, hen⟩ : ∃ en : Nat, -e = (en : Int) := ⟨(-e).toNat, by omega⟩
    have he' : e = -(en : Int) := by omega
    subst he'
    simp only [Int.neg_neg, Int.toNat_natCast]
    rw [pow_pow2]
    have hkey' : s + (L F.fmt - cz) = lg * en + k := by
      have : ((lg * en : Nat) : Int) = (lg : Int) * (en : Int) := by push_cast; rfl
      have h2 : (lg : Int) * -(en : Int) = -((lg : Int) * (en : Int)) := Int.mul_neg _ _
      omega
    apply roundNE_of_scaled hf (hden _ (Nat.two_pow_pos _)) k ((M * 2 ^ cz) * c + r * 2 ^ cz) (2 ^ s * c)
      (2 ^ (L F.fmt - cz)) (Nat.two_pow_pos _) (Nat.mul_pos (Nat.two_pow_pos _) hc)
    · have e1 : (M * 2 ^ cz * c + r * 2 ^ cz) = (M * c + r) * 2 ^ cz := by rw [Nat.add_mul]; ac_rfl
      rw [e1, Nat.mul_assoc, ← Nat.pow_add]
      congr 2; omega
    · have : 2 ^ (lg * en) * c * 2 ^ k = 2 ^ (lg * en + k) * c := by rw [Nat.pow_add]; ac_rfl
      rw [this, ← hkey', Nat.pow_add]; ac_rfl
    · intro h0; rw [hfp]; exact Nat.le_trans (qa h0).2.1 hg'.1
    · rw [hfp]; omega
    · intro h0; rw [hfp]
      have := (qa h0).2.2
      calc 2 ^ s * c * 2 ^ (p - 1) = (2 ^ s * 2 ^ (p - 1)) * c := by ac_rfl
        _ ≤ (M * 2 ^ cz) * c := Nat.mul_le_mul_right c this
        _ ≤ (M * 2 ^ cz) * c + r * 2 ^ cz := Nat.le_add_right _ _

/-- what `slow_binary` does once the digits are accumulated: `Ms` = the first `u64_step` significant digits,
`zero` = "every later digit is `0`" -/
def slowTail (F : FTy) (base : Nat) (e : Int) (Ms : Nat) (zero : Bool) : ExtendedFloat80 :=
  let ctlz := clz64 Ms
  let mantissa := shl64m Ms ctlz
  let power2 := calculatePower2 F base e ctlz
  round F { mant := mantissa, exp := power2 } fun f sh => roundNearestTieEven f sh fun _ _ _ => !zero

/-- **`slow_binary`, rounding part**: if `binary` was undecided on the accumulated mantissa `Ms` (non-zero, at
its shift the truncated bits are exactly `100…0` and the kept significand is even, not in the underflow cut),
the later digits amount to `r/c ∈ [0, 1)` of a unit of `Ms` with `zero ↔ r = 0`, then the result is
`roundNE ((Ms + r/c)·base^e)`. -/
theorem slowBinary_core {F p eb} (lay : Layout F p eb) {base : Nat}
    (hb : base = 2 ∨ base = 4 ∨ base = 8 ∨ base = 16 ∨ base = 32) (e : Int)
    (he1 : -(2 ^ 27 : Int) ≤ e) (he2 : e ≤ (2 ^ 27 : Int)) (Ms : Nat) (zero : Bool) (c r : Nat)
    (hMs0 : Ms ≠ 0) (hMs : Ms < 2 ^ 64) (hr : r < c) (hz : zero = true ↔ r = 0)
    (hp2 : -(calculatePower2 F base e (clz64 Ms)) + 1 ≤ 64)
    (hcs : r ≠ 0 → clz64 Ms < shiftOf p (calculatePower2 F base e (clz64 Ms)))
    (hhe : HalfwayEven (Ms * 2 ^ clz64 Ms) (shiftOf p (calculatePower2 F base e (clz64 Ms)))) :
    extendedToFloat F (slowTail F base e Ms zero) =
      roundNE F.fmt (powFrac base e (Ms * c + r)).1 ((powFrac base e (Ms * c + r)).2 * c) := by
  obtain ⟨lg, hlg⟩ := isPow2Base_of base hb
  obtain ⟨hc, hm1, hm2, hshl⟩ := clz_norm hMs0 hMs
  have hpw := calculatePower2_eq lay hlg e he1 he2 (clz64 Ms) (by omega)
  unfold slowTail
  simp only [hshl]
  generalize hP : calculatePower2 F base e (clz64 Ms) = power2 at *
  generalize hcz : clz64 Ms = cz at *
  obtain ⟨_, hbits⟩ := round_bits lay (Ms * 2 ^ cz) power2 (fun _ _ _ => !zero) hm1 hm2 hp2
  rw [hbits, hlg.1, roundNE_norm_sticky lay lg Ms cz c r e hm1 hm2 hc hr power2 hpw hp2 hcs hhe]
  congr 2
  unfold upOf
  cases zero with
  | true => have := hz.mp rfl; simp [this]
  | false =>
    have : r ≠ 0 := fun h => by have := hz.mpr h; exact absurd this (by decide)
    simp [this]

/-- underflow cut with a sticky part: still below half the least subnormal -/
theorem roundNE_norm_zero_trunc {F p eb} (lay : Layout F p eb) (lg M cz c r : Nat) (e : Int)
    (hm2 : M * 2 ^ cz < 2 ^ 64) (hcz : cz ≤ 63) (hr : r < c)
    (power2 : Int) (hpw : power2 = (lg : Int) * e + F.C.exponentBias - cz) (hp2 : -power2 + 1 > 64) :
    roundNE F.fmt (powFrac (2 ^ lg) e (M * c + r)).1 ((powFrac (2 ^ lg) e (M * c + r)).2 * c) = 0 := by
  have hf := lay.wf
  have hL := L_eq lay
  have hLge := lay.hL
  have hB := lay.bias
  have hc : 0 < c := by omega
  have hneg : ¬ e ≥ 0 := by
    intro he
    have : 0 ≤ (lg : Int) * e := Int.mul_nonneg (by omega) he
    rw [hB] at hpw; omega
  unfold powFrac
  rw [if_neg hneg]
  obtain ⟨en, hen⟩ : ∃ en : Nat, -e = (en : Int) := ⟨(-e).toNat, by omega⟩
  have he' : e = -(en : Int) := by omega
  subst he'
  simp only [Int.neg_neg, Int.toNat_natCast]
  rw [pow_pow2]
  apply roundNE_tiny hf (Nat.ne_of_gt (Nat.mul_pos (Nat.two_pow_pos _) hc))
  have h2 : (lg : Int) * -(en : Int) = -((lg : Int) * (en : Int)) := Int.mul_neg _ _
  have hcast : ((lg * en : Nat) : Int) = (lg : Int) * (en : Int) := by push_cast; rfl
  have hexp : 65 + (L F.fmt - cz) ≤ lg * en := by
    rw [hL]; rw [hB, h2] at hpw; omega
  -- (M·c + r)·2^cz < (M·2^cz + 2^cz)·c ≤ 2^64·c
  have hg := Nat.two_pow_pos cz
  have h64 : M * 2 ^ cz + 2 ^ cz ≤ 2 ^ 64 := by
    have hsp : 2 ^ 64 = 2 ^ (64 - cz) * 2 ^ cz := by rw [← Nat.pow_add]; congr 1; omega
    rw [hsp] at hm2 ⊢
    have : M < 2 ^ (64 - cz) := Nat.lt_of_mul_lt_mul_right hm2
    have : (M + 1) * 2 ^ cz ≤ 2 ^ (64 - cz) * 2 ^ cz := Nat.mul_le_mul_right _ this
    rw [Nat.add_mul, Nat.one_mul] at this; exact this
  have h1 : (M * c + r) * 2 ^ cz < (M * 2 ^ cz + 2 ^ cz) * c := by
    have : r * 2 ^ cz < c * 2 ^ cz := Nat.mul_lt_mul_of_pos_right hr hg
    rw [Nat.add_mul, Nat.add_mul]
    have e1 : M * c * 2 ^ cz = M * 2 ^ cz * c := by ac_rfl
    have e2 : c * 2 ^ cz = 2 ^ cz * c := Nat.mul_comm _ _
    omega
  have h3 : (M * c + r) * 2 ^ cz < 2 ^ 64 * c := Nat.lt_of_lt_of_le h1 (Nat.mul_le_mul_right c h64)
  have h4 := Nat.mul_lt_mul_of_pos_right h3 (Nat.two_pow_pos (L F.fmt - cz))
  have e3 : (M * c + r) * 2 ^ cz * 2 ^ (L F.fmt - cz) = (M * c + r) * 2 ^ L F.fmt := by
    rw [Nat.mul_assoc, ← Nat.pow_add]; congr 2; omega
  have e4 : 2 * (2 ^ 64 * c * 2 ^ (L F.fmt - cz)) = 2 ^ (65 + (L F.fmt - cz)) * c := by
    have a1 : 2 ^ (65 + (L F.fmt - cz)) = 2 ^ 65 * 2 ^ (L F.fmt - cz) := Nat.pow_add _ _ _
    have a2 : (2 : Nat) ^ 65 = 2 * 2 ^ 64 := Nat.pow_succ'
    rw [a1, a2]; ac_rfl
  have h5 : 2 ^ (65 + (L F.fmt - cz)) * c ≤ 2 ^ (lg * en) * c :=
    Nat.mul_le_mul_right c (Nat.pow_le_pow_right (by decide) hexp)
  rw [e3] at h4
  omega

/-- the literal's value `(M·c + r)/c · base^e` is at least `M·base^e` -/
theorem roundNE_sticky_inf {f : Fmt} (hf : WF f) (base M c r : Nat) (e : Int) (hb : 0 < base) (hc : 0 < c)
    (h : roundNE f (powFrac base e M).1 (powFrac base e M).2 = f.infBits) :
    roundNE f (powFrac base e (M * c + r)).1 ((powFrac base e (M * c + r)).2 * c) = f.infBits := by
  have hden : ∀ m, 0 < (powFrac base e m).2 := by
    intro m; unfold powFrac; split
    · exact Nat.one_pos
    · exact Nat.pow_pos hb
  have hle : (powFrac base e M).1 * ((powFrac base e (M * c + r)).2 * c) ≤
      (powFrac base e (M * c + r)).1 * (powFrac base e M).2 := by
    unfold powFrac; split
    · simp only [Nat.one_mul, Nat.mul_one]
      calc M * base ^ e.toNat * c = M * c * base ^ e.toNat := by ac_rfl
        _ ≤ (M * c + r) * base ^ e.toNat := Nat.mul_le_mul_right _ (Nat.le_add_right _ _)
    · simp only []
      calc M * (base ^ (-e).toNat * c) = M * c * base ^ (-e).toNat := by ac_rfl
        _ ≤ (M * c + r) * base ^ (-e).toNat := Nat.mul_le_mul_right _ (Nat.le_add_right _ _)
  have h1 := roundNE_mono' hf (hden M) (Nat.mul_pos (hden (M * c + r)) hc) hle
  have h2 := roundNE_le_infBits hf (powFrac base e (M * c + r)).1 (Nat.mul_pos (hden (M * c + r)) hc)
  omega

/-- **`binary` on a truncated mantissa**: a *valid* non-lossy answer is `roundNE x` for every
`x = (M + r/c)·base^e`, `0 ≤ r < c` (the true value of the untruncated literal), provided the truncated digits
are worth less than the bits shifted out (`clz(M) < shift`; always so when `M` holds `u64_step` digits) and,
without `many_digits`, nothing was truncated. -/
theorem binary_truncated {F p eb} (lay : Layout F p eb) {base : Nat}
    (hb : base = 2 ∨ base = 4 ∨ base = 8 ∨ base = 16 ∨ base = 32) (n : Num)
    (hm : n.mantissa < 2 ^ 64) (he1 : -(2 ^ 27 : Int) ≤ n.exponent) (he2 : n.exponent ≤ (2 ^ 27 : Int))
    (c r : Nat) (hr : r < c) (hmany : n.manyDigits = false → r = 0)
    (hM0 : n.mantissa ≠ 0)
    (hcs : clz64 n.mantissa < shiftOf p (calculatePower2 F base n.exponent (clz64 n.mantissa)))
    {fp : ExtendedFloat80} (h : binary F base n false = .ok fp) (hv : 0 ≤ fp.exp) :
    extendedToFloat F fp =
      roundNE F.fmt (powFrac base n.exponent (n.mantissa * c + r)).1
        ((powFrac base n.exponent (n.mantissa * c + r)).2 * c) := by
  obtain ⟨lg, hlg⟩ := isPow2Base_of base hb
  have hbase : base = 2 ^ lg := hlg.1
  rw [binary_eq, if_neg hM0] at h
  obtain ⟨hc, hm1, hm2, hshl⟩ := clz_norm hM0 hm
  have hpw := calculatePower2_eq lay hlg n.exponent he1 he2 (clz64 n.mantissa) (by omega)
  simp only [hshl] at h
  generalize hP : calculatePower2 F base n.exponent (clz64 n.mantissa) = power2 at *
  generalize hcz : clz64 n.mantissa = cz at *
  rw [hbase]
  by_cases hz : -power2 + 1 > 64
  · rw [if_pos hz] at h
    injection h with h; subst h
    rw [roundNE_norm_zero_trunc lay lg n.mantissa cz c r n.exponent hm2 hc hr power2 hpw hz, ext_zero lay]
  · rw [if_neg hz] at h
    have hp2 : -power2 + 1 ≤ 64 := by omega
    by_cases hinf : power2 ≥ F.C.infinitePower
    · rw [if_pos hinf] at h
      injection h with h; subst h
      rw [ext_infinite lay]
      exact (roundNE_sticky_inf lay.wf (2 ^ lg) n.mantissa c r n.exponent (Nat.two_pow_pos _) (by omega)
        (roundNE_norm_inf lay lg n.mantissa cz n.exponent hm1 hm2 hc power2 hpw hinf)).symm
    rw [if_neg hinf] at h
    have hmk : power2 + invalidFp < 0 := by
      have h15 : 2 ^ eb ≤ 2 ^ 15 := Nat.pow_le_pow_right (by decide) lay.heb15
      have : invalidFp = -32768 := rfl
      rw [lay.infp] at hinf
      omega
    rw [calculateShift_eq lay power2] at h
    obtain ⟨_, _, hs0, hs64, _⟩ := quot_bounds lay.hp (by have := lay.hp64; have := lay.heb; omega)
      hm1 hm2 power2 hp2
    by_cases hu : binUndecided (n.mantissa * 2 ^ cz) (shiftOf p power2) false n.manyDigits = true
    · rw [if_pos hu] at h
      injection h with h; subst h
      exfalso; simp only [] at hv; omega
    · rw [if_neg hu] at h
      injection h with h; subst h
      obtain ⟨_, hbits⟩ := round_bits lay (n.mantissa * 2 ^ cz) power2
        (fun _ _ _ => binRoundUp (n.mantissa * 2 ^ cz) (shiftOf p power2)) hm1 hm2 hp2
      rw [hbits]
      -- the bits `binary` looks at
      generalize hs : shiftOf p power2 = s at *
      have hh := lowerNHalfway_eq hs0 hs64
      have htb : (if s = 64 then n.mantissa * 2 ^ cz else n.mantissa * 2 ^ cz % 2 ^ (s % 64)) =
          n.mantissa * 2 ^ cz % 2 ^ s := by
        split
        · subst_vars; rw [Nat.mod_eq_of_lt hm2]
        · rw [Nat.mod_eq_of_lt (show s < 64 by omega)]
      have hev : (if s = 64 then true else decide (n.mantissa * 2 ^ cz / 2 ^ (s % 64) % 2 = 0)) =
          decide (n.mantissa * 2 ^ cz / 2 ^ s % 2 = 0) := by
        split
        · subst_vars; rw [Nat.div_eq_of_lt hm2]; rfl
        · rw [Nat.mod_eq_of_lt (show s < 64 by omega)]
      unfold binUndecided at hu
      simp only [htb, hev, hh, Bool.not_false, Bool.true_and, Bool.and_eq_true, decide_eq_true_eq,
        not_and] at hu
      have hru : binRoundUp (n.mantissa * 2 ^ cz) s =
          (decide (n.mantissa * 2 ^ cz % 2 ^ s > 2 ^ (s - 1)) ||
            (!decide (n.mantissa * 2 ^ cz / 2 ^ s % 2 = 0) && decide (n.mantissa * 2 ^ cz % 2 ^ s = 2 ^ (s - 1)))) := by
        unfold binRoundUp
        simp only [htb, hev, hh]
      have hupv : upOf (n.mantissa * 2 ^ cz) s (fun _ _ _ => binRoundUp (n.mantissa * 2 ^ cz) s) =
          if binRoundUp (n.mantissa * 2 ^ cz) s = true then 1 else 0 := rfl
      rw [hupv, hru]
      symm
      have key := roundNE_norm_trunc lay lg n.mantissa cz c r
        (if (decide (n.mantissa * 2 ^ cz % 2 ^ s > 2 ^ (s - 1)) ||
            (!decide (n.mantissa * 2 ^ cz / 2 ^ s % 2 = 0) && decide (n.mantissa * 2 ^ cz % 2 ^ s = 2 ^ (s - 1)))) = true
          then 1 else 0) n.exponent hm1 hm2 hc hr power2 hpw hp2 (by rw [hs]; exact hcs)
      rw [hs] at key
      apply key
      · intro hgt; simp [hgt]
      · intro hlt
        have h1 : ¬ (n.mantissa * 2 ^ cz % 2 ^ s > 2 ^ (s - 1)) := by omega
        have h2 : ¬ (n.mantissa * 2 ^ cz % 2 ^ s = 2 ^ (s - 1)) := by omega
        simp [h1, h2]
      · intro heq
        have h1 : ¬ (n.mantissa * 2 ^ cz % 2 ^ s > 2 ^ (s - 1)) := by omega
        by_cases hodd : n.mantissa * 2 ^ cz / 2 ^ s % 2 = 0
        · right
          have hnm : n.manyDigits = false := by
            have := hu ⟨hodd, heq⟩
            cases hmd : n.manyDigits <;> simp_all
          exact ⟨hodd, hmany hnm, by simp [h1, hodd]⟩
        · left
          exact ⟨by omega, by simp [hodd, heq]⟩

theorem slowBinary_eq (F : FTy) (compact : Bool) (radix base step : Nat) (e : Int) (integer : List Nat)
    (fraction : Option (List Nat)) :
    slowBinary F compact radix base step e integer fraction =
      let s0 : DigitState := { mantissa := 0, step := step, overflowed := false, zero := true }
      let s1 := parseU64Digits compact radix (skipZeros integer) s0
      let s2 := match fraction with
        | some fr => parseU64Digits compact radix (if s1.mantissa = 0 then skipZeros fr else fr) s1
        | none => s1
      slowTail F base e s2.mantissa s2.zero := rfl

end LexVerif.Proof.SlowBinary
