import LexVerif.Proof.WriteIntAlgorithm
import LexVerif.Proof.Div128Slow
import LexVerif.Proof.WriteIntSplice
/-!
# Proof.WriteIntAlgorithmU128 — `algorithm_u128` and the u128 `digit_count` for magnitudes above `u64::MAX`
-/
namespace LexVerif.Model.WriteInt
open LexVerif.Spec

/-- `u64_step(r)`: `r^step ≤ 2^64`, and two chunks cover at least 116 bits -/
def StepOK (r : Nat) : Prop :=
  r ^ u64StepTable r ≤ 2 ^ 64 ∧ 2 ^ 58 ≤ r ^ u64StepTable r ∧ 1 ≤ u64StepTable r ∧ u64StepTable r ≤ 64

instance (r : Nat) : Decidable (StepOK r) := by unfold StepOK; infer_instance

theorem stepOK_all : ∀ r, 2 ≤ r → r ≤ 36 → StepOK r := by decide +kernel

theorem validRadix_eff (feats : Features) (radix : Nat) (h : validRadix feats radix = true) :
    (if feats.radix then radix
     else if feats.powerOfTwo then
       (if radix = 2 ∨ radix = 4 ∨ radix = 8 ∨ radix = 10 ∨ radix = 16 ∨ radix = 32 then radix else 0)
     else 10) = radix := by
  unfold validRadix at h
  by_cases hr : feats.radix = true
  · rw [if_pos hr]
  · rw [if_neg hr] at h ⊢
    by_cases hp : feats.powerOfTwo = true
    · rw [if_pos hp] at h ⊢
      rw [if_pos (by simp at h; omega)]
    · rw [if_neg hp] at h ⊢
      simp at h; omega

theorem u64Step_eff (feats : Features) (radix : Nat) (h : validRadix feats radix = true) :
    u64Step feats radix = u64StepTable radix := by
  unfold u64Step
  unfold validRadix at h
  by_cases hr : feats.radix = true
  · rw [if_pos hr]
  · rw [if_neg hr] at h ⊢
    by_cases hp : feats.powerOfTwo = true
    · rw [if_pos hp] at h ⊢
      rw [if_pos (by simp at h; omega)]
    · rw [if_neg hp] at h ⊢
      simp at h; rw [h]

/-- `u128_divrem(n, radix) = (n / radix^u64_step(radix), n % radix^u64_step(radix))` -/
theorem u128Divrem_spec (feats : Features) (n radix : Nat) (hvalid : validRadix feats radix = true)
    (hn : n < 2 ^ 128) :
    u128Divrem feats n radix = .ok (n / radix ^ u64StepTable radix, n % radix ^ u64StepTable radix) := by
  obtain ⟨hr2, hr36⟩ := validRadix_range feats radix hvalid
  obtain ⟨k, hk, hrun⟩ := runDivRem_spec n radix hn hr2 hr36
  unfold u128Divrem
  simp only [validRadix_eff feats radix hvalid, hk, hrun]

end LexVerif.Model.WriteInt

namespace LexVerif.Model.WriteInt
open LexVerif.Spec

theorem small64 : SmallBits 64 := Or.inr (Or.inr (Or.inr rfl))

/-- `write_step_digits`: exactly `step` (zero padded) digits of `low` below `index` -/
theorem writeStepDigits_spec (r low step : Nat) (hr : 2 ≤ r) (hr36 : r ≤ 36) (hlow : low < 2 ^ 64)
    (hstep : low < r ^ step) (hs1 : 1 ≤ step) (pre suf : List Nat) (hlen : step ≤ pre.length)
    (hp64 : pre.length < 2 ^ 64) :
    ∃ pre', pre'.length + step = pre.length ∧
      writeStepDigits 64 low r (pre ++ suf) pre.length step =
        .ok (pre' ++ (padDigits r step low).map digitChar ++ suf, pre'.length) := by
  have hL : (toDigits r low).length ≤ step := toDigits_length_le r low step hr hs1 hstep
  obtain ⟨H4, H2, HN2⟩ := widths_ok 64 r small64 hr hr36
  obtain ⟨p1, hp1, hrun⟩ := writeDigits_spec 64 r low hr hr36 (by omega) (by omega) hlow H4 H2 HN2 pre suf
    (by omega) hp64
  obtain ⟨pa, pb, pc, hcut, hpa, hpb⟩ := cut3 p1 (pre.length - step) (step - (toDigits r low).length) (by omega)
  have hpc : pc = [] := by
    apply List.eq_nil_of_length_eq_zero
    have := congrArg List.length hcut; simp at this; omega
  subst hpc
  rw [List.append_nil] at hcut
  refine ⟨pa, by omega, ?_⟩
  unfold writeStepDigits
  rw [hrun, bind_ok]
  simp only []
  rw [if_pos (by simp; omega)]
  have hpad := padDigits_eq_replicate_append r hr step low hstep hs1
  have e1 : (p1 ++ numeral r low ++ suf).take (pre.length - step) = pa := by
    rw [hcut, ← hpa]; simp
  have e2 : (p1 ++ numeral r low ++ suf).drop p1.length = numeral r low ++ suf := by
    rw [List.append_assoc]; simp
  have e3 : p1.length - (pre.length - step) = step - (toDigits r low).length := by omega
  rw [e1, e2, e3, hpad, List.map_append, ← hpa]
  congr 1
  simp [numeral]
  right; rfl

end LexVerif.Model.WriteInt

namespace LexVerif.Model.WriteInt
open LexVerif.Spec

theorem numeral_split (r n S : Nat) (hr : 2 ≤ r) (h : r ^ S ≤ n) :
    numeral r n = numeral r (n / r ^ S) ++ (padDigits r S (n % r ^ S)).map digitChar := by
  unfold numeral; rw [toDigits_split r hr S n h, List.map_append]

theorem len_split (r n S : Nat) (hr : 2 ≤ r) (h : r ^ S ≤ n) :
    (toDigits r n).length = (toDigits r (n / r ^ S)).length + S := by
  rw [toDigits_split r hr S n h]; simp

/-- chunk arithmetic for a 128-bit value above `u64::MAX`, `D = r^u64_step(r)` -/
theorem chunk_facts (r value : Nat) (hr : 2 ≤ r) (hr36 : r ≤ 36) (hv : value < 2 ^ 128) (hbig : ¬ value ≤ 2 ^ 64 - 1) :
    r ^ u64StepTable r ≤ value ∧ 1 ≤ value / r ^ u64StepTable r ∧ value % r ^ u64StepTable r < 2 ^ 64 ∧
    (¬ value / r ^ u64StepTable r ≤ 2 ^ 64 - 1 →
      r ^ u64StepTable r ≤ value / r ^ u64StepTable r ∧ value / r ^ u64StepTable r / r ^ u64StepTable r ≠ 0 ∧
      value / r ^ u64StepTable r / r ^ u64StepTable r < 2 ^ 64 ∧
      value / r ^ u64StepTable r % r ^ u64StepTable r < 2 ^ 64) := by
  obtain ⟨h1, h2, _, _⟩ := stepOK_all r hr hr36
  generalize r ^ u64StepTable r = D at *
  have hD0 : 0 < D := by omega
  have hDle : D ≤ value := by omega
  have hmod : value % D < D := Nat.mod_lt _ hD0
  refine ⟨hDle, Nat.div_pos hDle hD0, by omega, ?_⟩
  intro hv1
  have hDle1 : D ≤ value / D := by omega
  have hmod1 : value / D % D < D := Nat.mod_lt _ hD0
  refine ⟨hDle1, Nat.pos_iff_ne_zero.mp (Nat.div_pos hDle1 hD0), ?_, by omega⟩
  rw [Nat.div_div_eq_div_mul]
  apply Nat.div_lt_of_lt_mul
  have hDD : 2 ^ 58 * 2 ^ 58 ≤ D * D := Nat.mul_le_mul h2 h2
  have e1 : (2:Nat) ^ 58 * 2 ^ 58 = 2 ^ 116 := by rw [← Nat.pow_add]
  have h3 : 2 ^ 116 * 2 ^ 64 ≤ D * D * 2 ^ 64 := Nat.mul_le_mul_right _ (by omega)
  have e2 : (2:Nat) ^ 116 * 2 ^ 64 = 2 ^ 180 := by rw [← Nat.pow_add]
  omega

/-- `<u128 as DigitCount>::digit_count` is exact for every non-decimal radix -/
theorem digitCountU128_spec (feats : Features) (value radix : Nat) (hvalid : validRadix feats radix = true)
    (h10 : radix ≠ 10) (hv : value < 2 ^ 128) :
    digitCountU128 feats value radix = .ok (toDigits radix value).length := by
  obtain ⟨hr, hr36⟩ := validRadix_range feats radix hvalid
  unfold digitCountU128
  rw [if_neg h10]
  by_cases h2 : radix = 2
  · subst h2; rw [if_pos rfl]
    have := pow2_count 128 value 1 (by omega) hv (by omega) (by omega)
    simp at this; rw [this]
  rw [if_neg h2]
  by_cases h4 : radix = 4
  · subst h4; rw [if_pos rfl]
    have := pow2_count 128 value 2 (by omega) hv (by omega) (by omega)
    rw [show (2:Nat) ^ 2 = 4 from rfl] at this; rw [this]
  rw [if_neg h4]
  by_cases h8 : radix = 8
  · subst h8; rw [if_pos rfl]
    have := pow2_count 128 value 3 (by omega) hv (by omega) (by omega)
    rw [show (2:Nat) ^ 3 = 8 from rfl] at this; rw [this]
  rw [if_neg h8]
  by_cases h16 : radix = 16
  · subst h16; rw [if_pos rfl]
    have := pow2_count 128 value 4 (by omega) hv (by omega) (by omega)
    rw [show (2:Nat) ^ 4 = 16 from rfl] at this; rw [this]
  rw [if_neg h16]
  by_cases h32 : radix = 32
  · subst h32; rw [if_pos rfl]
    have := pow2_count 128 value 5 (by omega) hv (by omega) (by omega)
    rw [show (2:Nat) ^ 5 = 32 from rfl] at this; rw [this]
  rw [if_neg h32]
  by_cases hsmall : value ≤ 2 ^ 64 - 1
  · rw [if_pos hsmall, Nat.mod_eq_of_lt (by omega)]
    exact naiveCount_spec 64 radix value small64 hr hr36 (by omega)
  rw [if_neg hsmall]
  obtain ⟨hD, hq1, hlow, hbig2⟩ := chunk_facts radix value hr hr36 hv hsmall
  rw [u128Divrem_spec feats value radix hvalid hv, bind_ok, u64Step_eff feats radix hvalid]
  simp only []
  have hl1 := len_split radix value _ hr hD
  by_cases hv1 : value / radix ^ u64StepTable radix ≤ 2 ^ 64 - 1
  · rw [if_pos hv1, Nat.mod_eq_of_lt (by omega),
      naiveCount_spec 64 radix _ small64 hr hr36 (by omega), bind_ok, hl1, Nat.add_comm]
  · rw [if_neg hv1]
    obtain ⟨hD2, hq2, hq2lt, _⟩ := hbig2 hv1
    have hv1lt : value / radix ^ u64StepTable radix < 2 ^ 128 := Nat.lt_of_le_of_lt (Nat.div_le_self _ _) hv
    rw [u128Divrem_spec feats _ radix hvalid hv1lt, bind_ok]
    simp only []
    have hl2 := len_split radix _ _ hr hD2
    rw [if_pos hq2, Nat.mod_eq_of_lt hq2lt, naiveCount_spec 64 radix _ small64 hr hr36 hq2lt, bind_ok, hl1, hl2]
    congr 1; omega

end LexVerif.Model.WriteInt

namespace LexVerif.Model.WriteInt
open LexVerif.Spec

/-- `write_digits::<u64>` filling exactly the free prefix -/
theorem writeDigits_fill (r v : Nat) (hr : 2 ≤ r) (hr36 : r ≤ 36) (hv : v < 2 ^ 64) (pre suf : List Nat)
    (hlen : (toDigits r v).length = pre.length) (hp64 : pre.length < 2 ^ 64) :
    writeDigits 64 v r (pre ++ suf) pre.length = .ok (numeral r v ++ suf, 0) := by
  obtain ⟨H4, H2, HN2⟩ := widths_ok 64 r small64 hr hr36
  obtain ⟨p, hp, hrun⟩ := writeDigits_spec 64 r v hr hr36 (by omega) (by omega) hv H4 H2 HN2 pre suf (by omega) hp64
  have : p = [] := List.eq_nil_of_length_eq_zero (by omega)
  subst this
  rw [hrun]; simp

/-- `algorithm_u128` for magnitudes above `u64::MAX`, every non-decimal radix -/
theorem algorithmU128_big_spec (feats : Features) (value radix : Nat) (hvalid : validRadix feats radix = true)
    (h10 : radix ≠ 10) (hv : value < 2 ^ 128) (hbig : ¬ value ≤ 2 ^ 64 - 1) :
    MantSpec (algorithmU128 feats value radix) (numeral radix value) (numeral radix value).length := by
  intro buffer hbuf
  rw [numeral_length] at hbuf ⊢
  obtain ⟨hr, hr36⟩ := validRadix_range feats radix hvalid
  obtain ⟨hS1, hS2, hS3, hS4⟩ := stepOK_all radix hr hr36
  have htabl : ¬ tableLen radix < radix * radix * 2 % 2 ^ 32 := by
    have := sq_le_36 radix hr36
    rw [Nat.mod_eq_of_lt (by omega)]; unfold tableLen; rw [Nat.mul_assoc]; omega
  obtain ⟨hD, hq1, hlow, hbig2⟩ := chunk_facts radix value hr hr36 hv hbig
  have hL128 : (toDigits radix value).length ≤ 128 := toDigits_length_le_bits radix value 128 hr (by omega) hv
  have hl1 := len_split radix value _ hr hD
  have hn1 := numeral_split radix value _ hr hD
  unfold algorithmU128
  rw [if_neg (by simp [hvalid]), if_neg (by simp [hr, hr36]), if_neg htabl, if_neg hbig,
    digitCountU128_spec feats value radix hvalid h10 hv, bind_ok, if_neg (by omega),
    u128Divrem_spec feats value radix hvalid hv, bind_ok, u64Step_eff feats radix hvalid]
  simp only []
  generalize hSdef : u64StepTable radix = S at *
  generalize hDdef : radix ^ S = D at *
  have hD0 : 0 < D := by omega
  have htl : (buffer.take (toDigits radix value).length).length = (toDigits radix value).length := by
    simp [List.length_take]; omega
  -- low chunk
  obtain ⟨pa, hpa, hw1⟩ := writeStepDigits_spec radix (value % D) S hr hr36 hlow
    (by rw [hDdef]; exact Nat.mod_lt _ hD0) hS3 (buffer.take (toDigits radix value).length) [] (by omega) (by omega)
  rw [htl, List.append_nil] at hw1
  rw [hw1, bind_ok]
  simp only []
  by_cases hv1 : value / D ≤ 2 ^ 64 - 1
  · rw [if_pos hv1, Nat.mod_eq_of_lt (by omega)]
    rw [List.append_assoc, writeDigits_fill radix (value / D) hr hr36 (by omega) pa _ (by omega) (by omega), bind_ok]
    simp only []
    rw [hn1]; simp
  · rw [if_neg hv1]
    obtain ⟨hD2, hq2, hq2lt, hmid⟩ := hbig2 hv1
    have hv1lt : value / D < 2 ^ 128 := Nat.lt_of_le_of_lt (Nat.div_le_self _ _) hv
    have hl2 := len_split radix (value / D) S hr (by rw [hDdef]; exact hD2)
    have hn2 := numeral_split radix (value / D) S hr (by rw [hDdef]; exact hD2)
    rw [hDdef] at hl2 hn2
    have hud := u128Divrem_spec feats (value / D) radix hvalid hv1lt
    rw [hSdef, hDdef] at hud
    rw [hud, bind_ok]
    simp only []
    obtain ⟨pb, hpb, hw2⟩ := writeStepDigits_spec radix (value / D % D) S hr hr36 hmid
      (by rw [hDdef]; exact Nat.mod_lt _ hD0) hS3 pa
      ((padDigits radix S (value % D)).map digitChar ++ []) (by omega) (by omega)
    rw [List.append_assoc, hw2, bind_ok]
    simp only []
    have hq2' : 1 ≤ (toDigits radix (value / D / D)).length := (toDigits_length_spec radix _ hr).1
    rw [if_pos (by omega), Nat.mod_eq_of_lt hq2lt]
    rw [List.append_assoc, writeDigits_fill radix (value / D / D) hr hr36 hq2lt pb _ (by omega) (by omega), bind_ok]
    simp only []
    rw [hn1, hn2]; simp

end LexVerif.Model.WriteInt
