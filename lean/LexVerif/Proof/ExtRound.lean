import LexVerif.Proof.AlgoRound
import LexVerif.Model.Binary
/-!
# Proof.ExtRound — `shared::round` / `round_nearest_tie_even` / `extended_to_float` produce an `encode`

For a normalised 64-bit significand `mant` at biased exponent `power2` (value `mant·2^(power2 − EXPONENT_BIAS)`)
`round` shifts by `calculate_shift`, adds the callback's increment and assembles the float whose bit
pattern is `encode f k (mant / 2^shift + up)`.  Stated for the two float types separately (all layout
constants are then numerals and `omega` does the arithmetic).  Mathlib-free.
-/
namespace LexVerif.Proof.ExtRound
open LexVerif.Spec LexVerif.Model LexVerif.Model.Bellerophon LexVerif.Proof.RoundNE

/-! ## constants of the two float types, as numerals -/

theorem f64_ms : FTy.f64.ms = 52 := rfl
theorem f32_ms : FTy.f32.ms = 23 := rfl

theorem lowerNMask_succ {n : Nat} (h : n ≤ 64) : lowerNMask n + 1 = 2 ^ n := by
  unfold lowerNMask
  split
  · subst_vars; rfl
  · have hn : n < 64 := by omega
    have : shl64m 1 n = 2 ^ n := by
      unfold shl64m shl64
      rw [Nat.mod_eq_of_lt hn, Nat.one_mul, Nat.mod_eq_of_lt (Nat.pow_lt_pow_right (by decide) hn)]
    rw [this]
    have := Nat.two_pow_pos n
    omega

theorem lowerNHalfway_eq {n : Nat} (h0 : 0 < n) (h : n ≤ 64) : lowerNHalfway n = 2 ^ (n - 1) := by
  unfold lowerNHalfway nthBit shl64m shl64
  have hn : n - 1 < 64 := by omega
  rw [if_neg (by omega), Nat.mod_eq_of_lt hn, Nat.one_mul,
    Nat.mod_eq_of_lt (Nat.pow_lt_pow_right (by decide) hn)]

theorem shr64m_eq {x n : Nat} (h : n < 64) : shr64m x n = x / 2 ^ n := by
  unfold shr64m shr; rw [Nat.mod_eq_of_lt h]

/-- the increment the callback of `round_nearest_tie_even` sees -/
def upOf (mant shift : Nat) (cb : Bool → Bool → Bool → Bool) : Nat :=
  if cb (decide ((mant / 2 ^ shift) % 2 = 1)) (decide (mant % 2 ^ shift = 2 ^ (shift - 1)))
      (decide (mant % 2 ^ shift > 2 ^ (shift - 1))) then 1 else 0

theorem upOf_le (mant shift : Nat) (cb) : upOf mant shift cb ≤ 1 := by
  unfold upOf; split <;> omega

/-- `round_nearest_tie_even` unfolded (`1 ≤ shift ≤ 64`, `mant < 2^64`) -/
theorem rnte_eq (mant : Nat) (e : Int) (shift : Nat) (cb : Bool → Bool → Bool → Bool)
    (hm : mant < 2 ^ 64) (h0 : 0 < shift) (h64 : shift ≤ 64) :
    roundNearestTieEven ⟨mant, e⟩ shift cb = ⟨mant / 2 ^ shift + upOf mant shift cb, e + shift⟩ := by
  unfold roundNearestTieEven upOf
  simp only [lowerNMask_succ h64, lowerNHalfway_eq h0 h64]
  have hdiv : (if shift = 64 then 0 else shr64m mant shift) = mant / 2 ^ shift := by
    split
    · subst_vars; rw [Nat.div_eq_of_lt hm]
    · rw [shr64m_eq (by omega)]
  rw [hdiv]
  have hlt : mant / 2 ^ shift < 2 ^ 63 := by
    rw [Nat.div_lt_iff_lt_mul (Nat.two_pow_pos _)]
    calc mant < 2 ^ 64 := hm
      _ = 2 ^ 63 * 2 ^ 1 := by decide
      _ ≤ 2 ^ 63 * 2 ^ shift := Nat.mul_le_mul_left _ (Nat.pow_le_pow_right (by decide) h0)
  congr 1
  unfold wrap64
  split <;> (apply Nat.mod_eq_of_lt; omega)

/-! ## `extended_to_float` -/

theorem asU64_ofNat {e : Nat} (he : e < 2 ^ 64) : asU64 (e : Int) = e := by
  unfold asU64
  have : ((e : Int) % (2 ^ 64 : Int)) = (e : Int) := Int.emod_eq_of_lt (by omega) (by exact_mod_cast he)
  rw [this]; rfl

/-- assembling a float from a significand field below the hidden bit and an exponent field -/
theorem ext_of_fields (F : FTy) (ms bits : Nat) (hms : F.ms = ms) (hbits : F.C.bits.toNat = bits)
    (m e : Nat) (hm : m < 2 ^ ms) (he : e * 2 ^ ms + m < 2 ^ bits) (hb : bits ≤ 64) :
    extendedToFloat F ⟨m, (e : Int)⟩ = e * 2 ^ ms + m := by
  have hpos := Nat.two_pow_pos ms
  have hle : 2 ^ bits ≤ 2 ^ 64 := Nat.pow_le_pow_right (by decide) hb
  have he64 : e < 2 ^ 64 := by
    have : e ≤ e * 2 ^ ms := Nat.le_mul_of_pos_right e hpos
    omega
  unfold extendedToFloat
  rw [hms, hbits]
  show (m ||| shl64 (asU64 (e : Int)) ms) % 2 ^ bits = _
  rw [asU64_ofNat he64]
  unfold shl64
  have h1 : e * 2 ^ ms % 2 ^ 64 = e * 2 ^ ms := Nat.mod_eq_of_lt (by omega)
  rw [h1, Nat.or_comm, Nat.mul_comm e, ← Nat.two_pow_add_eq_or_of_lt hm]
  exact Nat.mod_eq_of_lt (by rw [Nat.mul_comm]; exact he)

/-- a denormal rounded up to the hidden bit: field `2^ms`, exponent `1` -/
theorem ext_of_hidden (F : FTy) (ms bits : Nat) (hms : F.ms = ms) (hbits : F.C.bits.toNat = bits)
    (hlt : 2 ^ ms < 2 ^ bits) (hb : bits ≤ 64) :
    extendedToFloat F ⟨2 ^ ms, 1⟩ = 2 ^ ms := by
  have hle : 2 ^ bits ≤ 2 ^ 64 := Nat.pow_le_pow_right (by decide) hb
  unfold extendedToFloat
  rw [hms, hbits]
  show (2 ^ ms ||| shl64 (asU64 ((1 : Nat) : Int)) ms) % 2 ^ bits = _
  rw [asU64_ofNat (by decide)]
  unfold shl64
  have h1 : 2 ^ ms % 2 ^ 64 = 2 ^ ms := Nat.mod_eq_of_lt (by omega)
  rw [Nat.one_mul, h1, Nat.or_self, Nat.mod_eq_of_lt hlt]

/-! ## layout of a float type -/

/-- the `Gen.FloatConsts` constants of `F` in terms of its IEEE format `⟨p, eb⟩`
(instances by evaluation; `Props.TablesParse.float_constants_*` states the same as `layoutOk`) -/
structure Layout (F : FTy) (p eb : Nat) : Prop where
  fmt : F.fmt = ⟨p, eb⟩
  ms : F.C.mantissaSize = ((p - 1 : Nat) : Int)
  hidden : F.C.hiddenBitMask = ((2 ^ (p - 1) : Nat) : Int)
  carry : F.C.carryMask = ((2 ^ p : Nat) : Int)
  mask : F.C.mantissaMask = ((2 ^ (p - 1) - 1 : Nat) : Int)
  infp : F.C.infinitePower = ((2 ^ eb - 1 : Nat) : Int)
  bits : F.C.bits = ((p + eb : Nat) : Int)
  bias : F.C.exponentBias = ((2 ^ (eb - 1) - 1 + (p - 1) : Nat) : Int)
  hp : 2 ≤ p
  hp64 : p + eb ≤ 64
  heb : 2 ≤ eb
  heb16 : eb ≤ 16
  heb15 : eb ≤ 15
  hL : 63 ≤ 2 ^ (eb - 1) - 1 + (p - 1) - 1
  maxMant : F.C.maxMantissaFastPath = ((2 ^ p : Nat) : Int)
  hpb : p + 1 ≤ 2 ^ (eb - 1) - 1
  hL127 : 127 ≤ 2 ^ (eb - 1) - 1 + (p - 1) - 1
  hL1074 : 2 ^ (eb - 1) - 1 + (p - 1) - 1 ≤ 1074
  hb1024 : 2 ^ (eb - 1) ≤ 1024

theorem layout_f64 : Layout FTy.f64 53 11 := by
  constructor <;> decide
theorem layout_f32 : Layout FTy.f32 24 8 := by
  constructor <;> decide

theorem Layout.wf {F p eb} (lay : Layout F p eb) : WF F.fmt := by
  rw [lay.fmt]; exact ⟨lay.hp, lay.heb⟩

theorem Layout.msNat {F p eb} (lay : Layout F p eb) : F.ms = p - 1 := by
  unfold FTy.ms; rw [lay.ms]; rfl

theorem mul_le_iff_of_lt {M E T r : Nat} (hr : r < T) : M * T ≤ E * T + r ↔ M ≤ E := by
  constructor
  · intro h
    apply Classical.byContradiction; intro hc
    have : (E + 1) * T ≤ M * T := Nat.mul_le_mul_right T (by omega)
    rw [Nat.add_mul, Nat.one_mul] at this
    omega
  · intro h
    have : M * T ≤ E * T := Nat.mul_le_mul_right T h
    omega

/-- the shift `shared::round` applies (the same as `calculate_shift`) -/
def shiftOf (p : Nat) (power2 : Int) : Nat :=
  if -power2 ≥ 64 - (p : Int) then (-power2 + 1).toNat else 64 - p

theorem calculateShift_eq {F p eb} (lay : Layout F p eb) (power2 : Int) :
    (Binary.calculateShift F power2).toNat = shiftOf p power2 := by
  have hp := lay.hp; have hp64 := lay.hp64
  unfold Binary.calculateShift shiftOf
  rw [lay.ms]
  have e : (64 : Int) - ((p - 1 : Nat) : Int) - 1 = 64 - (p : Int) := by omega
  simp only [e]
  split
  · rfl
  · omega

/-- **`shared::round` + `round_nearest_tie_even` + `extended_to_float`** for a normalised significand:
the bit pattern is the encoding of `mant / 2^shift + up` at exponent field `power2 + 64 − p`. -/
theorem round_bits {F : FTy} {p eb : Nat} (lay : Layout F p eb) (mant : Nat) (power2 : Int)
    (cb : Bool → Bool → Bool → Bool) (hm1 : 2 ^ 63 ≤ mant) (hm2 : mant < 2 ^ 64)
    (hp2 : -power2 + 1 ≤ 64) :
    0 ≤ (round F ⟨mant, power2⟩ (fun f s => roundNearestTieEven f s cb)).exp ∧
    extendedToFloat F (round F ⟨mant, power2⟩ (fun f s => roundNearestTieEven f s cb)) =
      encode F.fmt (power2 + 64 - p - 1).toNat
        (mant / 2 ^ shiftOf p power2 + upOf mant (shiftOf p power2) cb) := by
  have hp := lay.hp; have hp64 := lay.hp64; have heb := lay.heb
  have hms := lay.msNat
  have hbits : F.C.bits.toNat = p + eb := by rw [lay.bits]; rfl
  -- T = 2^(p-1), 2^p = 2T, M = 2^eb - 1
  have hTT : 2 ^ p = 2 * 2 ^ (p - 1) := by
    rw [← Nat.pow_succ']; congr 1; omega
  have hinf : F.fmt.infBits = (2 ^ eb - 1) * 2 ^ (p - 1) := by rw [lay.fmt]; rfl
  have hM3 : 3 ≤ 2 ^ eb - 1 := by
    have : 2 ^ 2 ≤ 2 ^ eb := Nat.pow_le_pow_right (by decide) heb
    omega
  have hbitsPow : 2 ^ (p + eb) = 2 ^ eb * (2 * 2 ^ (p - 1)) := by
    rw [← hTT, ← Nat.pow_add, Nat.add_comm]
  have hfp : F.fmt.p = p := by rw [lay.fmt]
  unfold round
  rw [lay.ms, lay.hidden, lay.carry, lay.mask, lay.infp, hTT]
  have e : (64 : Int) - ((p - 1 : Nat) : Int) - 1 = 64 - (p : Int) := by omega
  simp only [e]
  unfold shiftOf encode
  rw [hinf, hfp]
  generalize hT : 2 ^ (p - 1) = T at *
  have hTpos : 0 < T := by rw [← hT]; exact Nat.two_pow_pos _
  generalize hM : 2 ^ eb - 1 = M at *
  have hfit : ∀ m e : Nat, m < T → e ≤ M → e * T + m < 2 ^ eb * (2 * T) := by
    intro m e h1 h2
    have a1 : (e + 1) * T ≤ (M + 1) * T := Nat.mul_le_mul_right T (by omega)
    have a2 : M + 1 = 2 ^ eb := by have := Nat.two_pow_pos eb; omega
    rw [a2, Nat.add_mul, Nat.one_mul] at a1
    have a3 : 2 ^ eb * (2 * T) = 2 * (2 ^ eb * T) := by ac_rfl
    have a4 : 0 < 2 ^ eb * T := Nat.mul_pos (Nat.two_pow_pos eb) hTpos
    omega
  have extF : ∀ m e : Nat, m < T → e ≤ M → extendedToFloat F ⟨m, (e : Int)⟩ = e * T + m := by
    intro m e h1 h2
    have := ext_of_fields F (p - 1) (p + eb) hms hbits m e (by rw [hT]; exact h1)
      (by rw [hT, hbitsPow]; exact hfit m e h1 h2) hp64
    rw [hT] at this; exact this
  have extH : extendedToFloat F ⟨T, 1⟩ = T := by
    have := ext_of_hidden F (p - 1) (p + eb) hms hbits
      (Nat.pow_lt_pow_right (by decide) (by omega)) hp64
    rw [hT] at this; exact this
  by_cases hden : -power2 ≥ 64 - (p : Int)
  · -- denormal branch
    rw [if_pos hden, if_pos hden]
    have hs : (min (-power2 + 1) 64).toNat = (-power2 + 1).toNat := by
      rw [Int.min_eq_left hp2]
    rw [hs]
    generalize hsd : (-power2 + 1).toNat = s
    have hs1 : 65 - p ≤ s := by omega
    have hs2 : s ≤ 64 := by omega
    simp only [rnte_eq mant power2 s cb hm2 (by omega) hs2]
    have hu := upOf_le mant s cb
    generalize upOf mant s cb = u at *
    have ha : mant / 2 ^ s < T := by
      rw [Nat.div_lt_iff_lt_mul (Nat.two_pow_pos _), ← hT, ← Nat.pow_add]
      exact Nat.lt_of_lt_of_le hm2 (Nat.pow_le_pow_right (by decide) (by omega))
    generalize mant / 2 ^ s = a at *
    have hk : (power2 + 64 - (p : Int) - 1).toNat = 0 := by omega
    rw [hk, Nat.zero_mul, Nat.zero_add]
    have hMT : 3 * T ≤ M * T := Nat.mul_le_mul_right T hM3
    rw [if_neg (show ¬ M * T ≤ a + u by omega)]
    by_cases hq : a + u < T
    · have hc : ¬ (((a + u : Nat) : Int) ≥ ((T : Nat) : Int)) := by omega
      rw [if_neg hc]
      refine ⟨by omega, ?_⟩
      have := extF (a + u) 0 hq (by omega)
      rw [Nat.zero_mul, Nat.zero_add] at this
      exact this
    · have hqe : a + u = T := by omega
      have hc : (((a + u : Nat) : Int) ≥ ((T : Nat) : Int)) := by omega
      rw [if_pos hc]
      refine ⟨by omega, ?_⟩
      rw [hqe]; exact extH
  · -- normal branch
    rw [if_neg hden, if_neg hden]
    have hsn : (64 - (p : Int)).toNat = 64 - p := by omega
    rw [hsn]
    simp only [rnte_eq mant power2 (64 - p) cb hm2 (by omega) (by omega)]
    have hu := upOf_le mant (64 - p) cb
    generalize upOf mant (64 - p) cb = u at *
    have hS : 2 ^ 64 = 2 ^ (64 - p) * (2 * T) := by
      rw [← hTT, ← Nat.pow_add]; congr 1; omega
    have hS63 : 2 ^ 63 = 2 ^ (64 - p) * T := by
      rw [← hT, ← Nat.pow_add]; congr 1; omega
    have ha1 : T ≤ mant / 2 ^ (64 - p) := by
      rw [Nat.le_div_iff_mul_le (Nat.two_pow_pos _), Nat.mul_comm, ← hS63]; exact hm1
    have ha2 : mant / 2 ^ (64 - p) < 2 * T := by
      rw [Nat.div_lt_iff_lt_mul (Nat.two_pow_pos _), Nat.mul_comm, ← hS]; exact hm2
    generalize mant / 2 ^ (64 - p) = a at *
    -- exponent field E ≥ 1
    obtain ⟨En, hEn⟩ : ∃ En : Nat, power2 + ((64 - p : Nat) : Int) = ((En + 1 : Nat) : Int) :=
      ⟨(power2 + ((64 - p : Nat) : Int) - 1).toNat, by omega⟩
    have hk : (power2 + 64 - (p : Int) - 1).toNat = En := by omega
    rw [hk, hEn]
    have hcast : ((2 * T : Nat) : Int).toNat = 2 * T := Int.toNat_natCast _
    have hcastm : ((T - 1 : Nat) : Int).toNat + 1 = T := by
      have : ((T - 1 : Nat) : Int).toNat = T - 1 := Int.toNat_natCast _
      omega
    rw [hcast, hcastm]
    by_cases hcar : a + u = 2 * T
    · -- carry
      have hc1 : (a + u) / (2 * T) % 2 = 1 := by
        rw [hcar, Nat.div_self (by omega)]
      rw [if_pos hc1]
      have hshr : shr (a + u) 1 = T := by unfold shr; omega
      simp only [hshr]
      by_cases hov : ((En + 1 : Nat) : Int) + 1 ≥ ((M : Nat) : Int)
      · rw [if_pos hov]
        dsimp only
        refine ⟨by omega, ?_⟩
        have hle : M * T ≤ En * T + (a + u) := by
          rw [hcar]
          have : M * T ≤ (En + 2) * T := Nat.mul_le_mul_right T (by omega)
          rw [Nat.add_mul] at this; omega
        rw [if_pos hle]
        have := extF 0 M hTpos (Nat.le_refl _)
        rw [Nat.add_zero] at this
        exact this
      · rw [if_neg hov]
        dsimp only
        refine ⟨by omega, ?_⟩
        have hlt : ¬ M * T ≤ En * T + (a + u) := by
          rw [hcar]
          have : (En + 3) * T ≤ M * T := Nat.mul_le_mul_right T (by omega)
          rw [Nat.add_mul] at this; omega
        rw [if_neg hlt]
        simp only [Nat.mod_self]
        have hE : ((En + 1 : Nat) : Int) + 1 = ((En + 2 : Nat) : Int) := by omega
        rw [hE, extF 0 (En + 2) hTpos (by omega), hcar, Nat.add_mul]; omega
    · -- no carry
      have hq2 : a + u < 2 * T := by omega
      have hc1 : ¬ ((a + u) / (2 * T) % 2 = 1) := by
        rw [Nat.div_eq_of_lt hq2]; decide
      rw [if_neg hc1]
      have hmod : (a + u) % T = a + u - T := by
        rw [Nat.mod_eq_sub_mod (by omega), Nat.mod_eq_of_lt (by omega)]
      have hsplit : En * T + (a + u) = (En + 1) * T + (a + u - T) := by
        rw [Nat.add_mul]; omega
      by_cases hov : ((En + 1 : Nat) : Int) ≥ ((M : Nat) : Int)
      · rw [if_pos hov]
        dsimp only
        refine ⟨by omega, ?_⟩
        have hle : M * T ≤ En * T + (a + u) := by
          rw [hsplit, mul_le_iff_of_lt (by omega)]; omega
        rw [if_pos hle]
        have := extF 0 M hTpos (Nat.le_refl _)
        rw [Nat.add_zero] at this
        exact this
      · rw [if_neg hov]
        dsimp only
        refine ⟨by omega, ?_⟩
        have hlt : ¬ M * T ≤ En * T + (a + u) := by
          rw [hsplit, mul_le_iff_of_lt (by omega)]; omega
        rw [if_neg hlt]
        simp only [hmod]
        rw [extF (a + u - T) (En + 1) (by omega) (by omega), hsplit]

end LexVerif.Proof.ExtRound
