import LexVerif.Proof.DragonboxSpec
/-!
`compute_nearest_normal` (f32), binade edges: for EVERY exponent field `0 … 254` the patterns with mantissa field `1`
(smallest subnormal / successor of a power of two) and `2^23 - 1` (largest subnormal / predecessor of a power of two),
each checked against `Spec.shortest` by the kernel. These exercise every row of `DRAGONBOX32_POWERS_OF_FIVE` that the
normal branch can reach, on both sides of the asymmetric interval's neighbours.
-/
namespace LexVerif.Proof.DragonboxSpec
open LexVerif.Model.Dragonbox

def edges (t : FTy) (lo hi step : Nat) : List Nat :=
  ((List.range hi).filter (fun e => lo ≤ e ∧ e % step = 0)).flatMap fun e => [e * 2 ^ t.ms + 1, e * 2 ^ t.ms + (2 ^ t.ms - 1)]

theorem edges32_all : (edges .f32 0 255 1).all (dragonboxOk .f32) = true := by decide +kernel

end LexVerif.Proof.DragonboxSpec
