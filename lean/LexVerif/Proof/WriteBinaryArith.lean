import LexVerif.Model.WriteBinary
/-!
# Proof.WriteBinaryArith — the integer helpers of binary.rs / hex.rs are floor division and modulus

`calculate_shl`, `inverse_remainder`, `fast_ceildiv`, `scale_sci_exp` (both files), on the whole range of exponents a
finite f32/f64 can have (`|e| ≤ 2000` is far more than needed), for `bits_per_digit ∈ 1..5`:
the Rust truncating `/`, `%` and the `wrapping_neg`s never see a negative operand or an overflow.
-/
namespace LexVerif.Proof.WriteBinaryArith
open LexVerif.Model.WriteBinary LexVerif.Model.Dragonbox

theorem i32_def (x : Int) : i32 x = (x + 2147483648) % 4294967296 - 2147483648 := rfl

theorem i32_id {x : Int} (h1 : -2147483648 ≤ x) (h2 : x < 2147483648) : i32 x = x := by
  unfold i32; omega

theorem bpd_cases {bpd : Int} (h1 : 1 ≤ bpd) (h5 : bpd ≤ 5) : bpd = 1 ∨ bpd = 2 ∨ bpd = 3 ∨ bpd = 4 ∨ bpd = 5 := by
  omega

/-- `fast_ceildiv(v, bpd) = ⌈v / bpd⌉ = -⌊-v / bpd⌋` for `v ≥ 0` -/
theorem fastCeildiv_eq {v bpd : Int} (hv0 : 0 ≤ v) (hv : v ≤ 4000) (h1 : 1 ≤ bpd) (h5 : bpd ≤ 5) :
    fastCeildiv v bpd = -((-v) / bpd) := by
  unfold fastCeildiv
  rw [i32_id (x := v + bpd) (by omega) (by omega), i32_id (x := v + bpd - 1) (by omega) (by omega),
    Int.tdiv_eq_ediv_of_nonneg (by omega)]
  rcases bpd_cases h1 h5 with h | h | h | h | h <;> subst h <;> omega

/-- `calculate_shl(e, bpd)` is `e mod bpd` (the non-negative modulus): the shift that makes `e - shl` a multiple of
`bits_per_digit` -/
theorem calculateShl_eq {e bpd : Int} (he1 : -4000 ≤ e) (he2 : e ≤ 4000) (h1 : 1 ≤ bpd) (h5 : bpd ≤ 5) :
    calculateShl e bpd = e % bpd := by
  unfold calculateShl inverseRemainder
  by_cases hneg : e < 0
  · rw [if_pos hneg, i32_id (x := -e) (by omega) (by omega), Int.tmod_eq_emod_of_nonneg (by omega)]
    rcases bpd_cases h1 h5 with h | h | h | h | h <;> subst h <;> (split <;> (try rw [i32_id (by omega) (by omega)]) <;> omega)
  · rw [if_neg hneg, Int.tmod_eq_emod_of_nonneg (by omega)]

/-- `binary::scale_sci_exp(s, bpd) = ⌊s / bpd⌋` -/
theorem scaleSciExp_eq {s bpd : Int} (hs1 : -4000 ≤ s) (hs2 : s ≤ 4000) (h1 : 1 ≤ bpd) (h5 : bpd ≤ 5) :
    scaleSciExp s bpd = s / bpd := by
  unfold scaleSciExp
  by_cases hneg : s < 0
  · rw [if_pos hneg, i32_id (x := -s) (by omega) (by omega), fastCeildiv_eq (by omega) (by omega) h1 h5, Int.neg_neg]
    have hq : -4000 ≤ s / bpd ∧ s / bpd ≤ 0 := by
      rcases bpd_cases h1 h5 with h | h | h | h | h <;> subst h <;> omega
    rw [Int.neg_neg, i32_id (by omega) (by omega)]
  · rw [if_neg hneg, Int.tdiv_eq_ediv_of_nonneg (by omega)]

theorem mul_bounds {q L : Int} (hq1 : -4000 ≤ q) (hq2 : q ≤ 4000) (h1 : 1 ≤ L) (h5 : L ≤ 5) :
    -20000 ≤ q * L ∧ q * L ≤ 20000 := by
  rcases bpd_cases h1 h5 with h | h | h | h | h <;> subst h <;> omega

theorem ediv_bounds {s L : Int} (hs1 : -4000 ≤ s) (hs2 : s ≤ 4000) (h1 : 1 ≤ L) (h5 : L ≤ 5) :
    -4000 ≤ s / L ∧ s / L ≤ 4000 ∧ (s < 0 → s / L ≤ 0) ∧ (0 ≤ s → 0 ≤ s / L) := by
  rcases bpd_cases h1 h5 with h | h | h | h | h <;> subst h <;> omega

/-- `hex::scale_sci_exp(s, bpd, bpb) · bpb = ⌊s / bpd⌋ · bpd` when `bits_per_base` divides `bits_per_digit`
(true for the documented pairs 4/2, 8/2, 16/2, 32/2, 16/4 and for equal bases) -/
theorem scaleSciExpHex_eq {s bpd bpb : Int} (hs1 : -4000 ≤ s) (hs2 : s ≤ 4000) (h1 : 1 ≤ bpd) (h5 : bpd ≤ 5)
    (hb : bpb = 1 ∨ (bpb = 2 ∧ bpd = 4) ∨ bpb = bpd) :
    scaleSciExpHex s bpd bpb * bpb = s / bpd * bpd := by
  obtain ⟨q1, q2, q3, q4⟩ := ediv_bounds hs1 hs2 h1 h5
  have hP := mul_bounds q1 q2 h1 h5
  -- the value `⌊s/bpd⌋·bpd / bpb` (exact division) and its bounds
  have hex : ∃ z : Int, z * bpb = s / bpd * bpd ∧ -20000 ≤ z ∧ z ≤ 20000 ∧ (s / bpd * bpd) / bpb = z
      ∧ (-(s / bpd * bpd)) / bpb = -z := by
    rcases hb with hb | ⟨hb, hd⟩ | hb
    · subst hb; exact ⟨s / bpd * bpd, by omega, hP.1, hP.2, by rw [Int.ediv_one], by rw [Int.ediv_one]⟩
    · subst hb; subst hd
      refine ⟨s / 4 * 2, by omega, by omega, by omega, by omega, by omega⟩
    · subst hb
      refine ⟨s / bpb, rfl, by omega, by omega, Int.mul_ediv_cancel _ (by omega), ?_⟩
      rw [← Int.neg_mul, Int.mul_ediv_cancel _ (by omega)]
  obtain ⟨z, hz, z1, z2, hd1, hd2⟩ := hex
  unfold scaleSciExpHex
  by_cases hneg : s < 0
  · rw [if_pos hneg]
    simp only []
    rw [i32_id (x := -s) (by omega) (by omega), fastCeildiv_eq (by omega) (by omega) h1 h5, Int.neg_neg,
      Int.neg_mul, i32_id (x := -(s / bpd * bpd)) (by omega) (by omega),
      Int.tdiv_eq_ediv_of_nonneg (by have := q3 hneg; have : s / bpd * bpd ≤ 0 := Int.mul_nonpos_of_nonpos_of_nonneg (by omega) (by omega); omega),
      hd2, Int.neg_neg, i32_id (by omega) (by omega), hz]
  · rw [if_neg hneg]
    simp only []
    rw [Int.tdiv_eq_ediv_of_nonneg (a := s) (by omega), i32_id (x := s / bpd * bpd) (by omega) (by omega),
      Int.tdiv_eq_ediv_of_nonneg (Int.mul_nonneg (q4 (by omega)) (by omega)), hd1, hz]

end LexVerif.Proof.WriteBinaryArith
