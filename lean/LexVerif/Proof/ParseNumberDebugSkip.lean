import LexVerif.Proof.ParseNumberDebugLoops
/-!
# Proof.ParseNumberDebugSkip — component iterators that are contiguous or skip *every* separator (I+L+T+C)

`Good c k`: the iterator `k` either never moves in `peek` (`PeekTriv`), or its predicate is `iltc` — then `peek`
skips every run of separators unconditionally, independent of the bytes before and after, so the first pass
and the re-scan of the stored slice agree and `peek` never returns the separator.
-/
namespace LexVerif.Proof.PNDebug
open LexVerif LexVerif.Model
open LexVerif.Props.C12 (Bytes.Valid incCount_spec peek_spec peek_error_iff)
open LexVerif.Proof.PNTotal (Adv csum step_adv incCount_adv incCount_csum)

variable {c : Cfg}

theorem countSeps_spec (c : Cfg) : ∀ (l : List Nat),
    (∀ n, n < countSeps c l → ∃ x, l[n]? = some x ∧ c.isSep x = true) ∧
    (∀ x, l[countSeps c l]? = some x → c.isSep x = false) := by
  intro l
  induction l with
  | nil => simp [countSeps]
  | cons y ys ih =>
    unfold countSeps
    split
    · next hy =>
      refine ⟨?_, ?_⟩
      · intro n hn
        cases n with
        | zero => exact ⟨y, by simp, hy⟩
        | succ m => simpa using ih.1 m (by omega)
      · intro x hx
        exact ih.2 x (by simpa using hx)
    · next hy =>
      refine ⟨fun n hn => by omega, ?_⟩
      intro x hx
      simp only [List.getElem?_cons_zero, Option.some.injEq] at hx
      subst hx
      simpa using hy

/-- the bytes `peek_1!/peek_n!` moves over are separators -/
theorem peekPred_skipped (c : Cfg) (p : Pred) (cnt : Nat) (b : Bytes) :
    ∀ n, b.index ≤ n → n < (peekPred c p cnt b).2.index → ∃ x, b.slc[n]? = some x ∧ c.isSep x = true := by
  intro n h1 h2
  unfold peekPred at h2
  cases hv : b.slc[b.index]? with
  | none => simp only [hv] at h2; omega
  | some v =>
    simp only [hv] at h2
    split at h2
    · next hsep =>
      split at h2
      · simp only at h2
        by_cases hn : n = b.index
        · subst hn; exact ⟨v, hv, hsep⟩
        · split at h2
          · have := (countSeps_spec c (b.slc.drop (b.index + 1))).1 (n - (b.index + 1)) (by omega)
            rw [List.getElem?_drop] at this
            have e : b.index + 1 + (n - (b.index + 1)) = n := by omega
            rw [e] at this; exact this
          · omega
      · simp only at h2; omega
    · simp only at h2; omega

/-- `iltc` never returns a separator -/
theorem peekPred_iltc_notsep (c : Cfg) (cnt : Nat) (b : Bytes) :
    ∀ x, (peekPred c .iltc cnt b).1 = some x → c.isSep x = false := by
  intro x hx
  unfold peekPred at hx
  cases hv : b.slc[b.index]? with
  | none => simp [hv] at hx
  | some v =>
    simp only [hv, Pred.holds, Pred.consecutive, if_true] at hx
    split at hx
    · have := (countSeps_spec c (b.slc.drop (b.index + 1))).2 x
      rw [List.getElem?_drop] at this
      exact this hx
    · next hns =>
      simp only [Option.some.injEq] at hx
      subst hx; simpa using hns

/-- the iterator skips every separator unconditionally, and there is a separator byte -/
def Skips (c : Cfg) (k : Comp) : Prop := c.skip k = .pred .iltc ∧ c.bytesContiguous = false

/-- the classes of component iterators covered -/
def Good (c : Cfg) (k : Comp) : Prop := PeekTriv c k ∨ Skips c k

/-- digit, or (for a skipping iterator) the separator -/
def DSk (c : Cfg) (k : Comp) (x : Nat) : Prop :=
  IsDig c.mantissaRadix x ∨ (x = c.fmt.digitSeparator ∧ Skips c k)

def DSRange (c : Cfg) (k : Comp) (s : List Nat) (i j : Nat) : Prop :=
  ∀ n, i ≤ n → n < j → ∃ x, s[n]? = some x ∧ DSk c k x

theorem DSRange.refl (k : Comp) (s : List Nat) (i : Nat) : DSRange c k s i i := by
  intro n h1 h2; omega

theorem DSRange.trans {k : Comp} {s : List Nat} {i j l : Nat} (h1 : DSRange c k s i j) (h2 : DSRange c k s j l) :
    DSRange c k s i l := by
  intro n hn1 hn2
  by_cases h : n < j
  · exact h1 n hn1 h
  · exact h2 n (by omega) hn2

theorem DigRange.toDS {k : Comp} {s : List Nat} {i j : Nat} (h : DigRange c.mantissaRadix s i j) : DSRange c k s i j := by
  intro n h1 h2
  obtain ⟨x, hx, hd⟩ := h n h1 h2
  exact ⟨x, hx, Or.inl hd⟩

theorem isSep_eq (cx : Ctx c) {x : Nat} (h : c.isSep x = true) : x = c.fmt.digitSeparator := by
  unfold Cfg.isSep at h
  simp only [Bool.and_eq_true, bne_iff_ne, ne_eq, decide_eq_true_eq] at h
  have hf : c.feats.format = true := by
    cases hff : c.feats.format
    · exfalso; apply h.1; simp [Cfg.digitSeparator, hff]
    · rfl
  rw [h.2]; simp [Cfg.digitSeparator, hf]

theorem sep_isSep (hbc : c.bytesContiguous = false) : c.isSep c.fmt.digitSeparator = true := by
  unfold Cfg.bytesContiguous at hbc
  have hne : c.digitSeparator ≠ 0 := by simpa using hbc
  have hf : c.feats.format = true := by
    cases hff : c.feats.format
    · exfalso; apply hne; simp [Cfg.digitSeparator, hff]
    · rfl
  have : c.digitSeparator = c.fmt.digitSeparator := by simp [Cfg.digitSeparator, hf]
  unfold Cfg.isSep
  simp [this ▸ hne, this]

/-- `peek` of a `Good` iterator -/
theorem peek_good (cx : Ctx c) (k : Comp) (hg : Good c k) (b : Bytes) (hb : Bytes.Valid b) :
    ∃ v b', peek c k b = .ok (v, b') ∧ Adv b b' ∧ v = b'.slc[b'.index]? ∧ csum b' = csum b ∧
      DSRange c k b.slc b.index b'.index ∧ (Skips c k → v ≠ some c.fmt.digitSeparator) ∧
      (¬ Skips c k → b' = b) := by
  obtain ⟨v, b1, hp, ha, hx, hcs⟩ := peek_gen cx k b hb
  refine ⟨v, b1, hp, ha, hx, hcs, ?_⟩
  by_cases hs : Skips c k
  · have hpp : (v, b1) = peekPred c .iltc (b.iterCount c k) b := by
      have := hp
      unfold peek at this
      rw [hs.1] at this
      simp only [Except.ok.injEq] at this
      exact this.symm
    refine ⟨?_, ?_, fun h => absurd hs h⟩
    · intro n h1 h2
      have h2' : n < (peekPred c .iltc (b.iterCount c k) b).2.index := by rw [← hpp]; exact h2
      obtain ⟨x, hxn, hsep⟩ := peekPred_skipped c .iltc _ b n h1 h2'
      exact ⟨x, hxn, Or.inr ⟨isSep_eq cx hsep, hs⟩⟩
    · intro _ hv
      have h1 : (peekPred c .iltc (b.iterCount c k) b).1 = some c.fmt.digitSeparator := by rw [← hpp]; exact hv
      have := peekPred_iltc_notsep c _ b _ h1
      rw [sep_isSep hs.2] at this
      cases this
  · rcases hg with ht | hs'
    · have := ht b
      rw [hp] at this
      simp only [Except.ok.injEq, Prod.mk.injEq] at this
      have hb1 : b1 = b := this.2
      refine ⟨?_, fun h => absurd h hs, fun _ => hb1⟩
      rw [hb1]; exact DSRange.refl _ _ _
    · exact absurd hs' hs

/-- a component iterator without separator flags, or with all four (I+L+T+C), is `Good` -/
theorem good_of_flags (cx : Ctx c) (k : Comp) (hk : k = .integer ∨ k = .fraction)
    (h : c.iterContiguous k = true ∨ c.sepFlags k = ⟨true, true, true, true⟩) : Good c k := by
  rcases h with h | h
  · exact Or.inl (peek_triv c cx k (Or.inr h))
  · cases hbc : c.bytesContiguous
    · right
      refine ⟨?_, hbc⟩
      rcases hk with rfl | rfl <;> simp [Cfg.skip, h, SepFlags.skip]
    · exact Or.inl (peek_triv c cx k (Or.inl hbc))

theorem DSRange.step {k : Comp} {s : List Nat} {i x : Nat} (hx : s[i]? = some x) (hd : IsDig c.mantissaRadix x) :
    DSRange c k s i (i + 1) := by
  intro n h1 h2
  have : n = i := by omega
  subst this
  exact ⟨x, hx, Or.inl hd⟩

/-- first pass over the mantissa digits with a `Good` iterator: what lies between the cursors is digits (and,
for a skipping iterator, separators) -/
theorem parseDigitsLoop_ds (cx : Ctx c) (k : Comp) (hg : Good c k) :
    ∀ (fuel : Nat) (b : Bytes), Bytes.Valid b → b.slc.length - b.index < fuel →
      Safe (parseDigitsLoop c k c.mantissaRadix fuel b) (fun r => Adv b r.2 ∧ DSRange c k b.slc b.index r.2.index) := by
  intro fuel
  induction fuel with
  | zero => intro b _ h; omega
  | succ n ih =>
    intro b hb hf
    obtain ⟨x, b1, hp, ha, hx, _, hds, _, _⟩ := peek_good cx k hg b hb
    unfold parseDigitsLoop
    simp only [hp, bind, Except.bind]
    cases x with
    | none => exact ⟨ha, hds⟩
    | some ch =>
      simp only
      cases hd : charToDigit ch c.mantissaRadix with
      | none => exact ⟨ha, hds⟩
      | some d =>
        simp only
        have hxs : b1.slc[b1.index]? = some ch := hx.symm
        have hlt := get_lt hxs
        have hdig := charToDigit_some hd
        rw [iterStep_ok k b1 hlt (Or.inr (ne_sep_of_dig cx.sepNotDigM hxs hdig))]
        simp only
        have hi := incCount_spec c k { b1 with index := b1.index + 1 }
        have hadv : Adv b (Bytes.incCount c k { b1 with index := b1.index + 1 }) := adv_step_inc k ha hlt
        have hf2 : (Bytes.incCount c k { b1 with index := b1.index + 1 }).slc.length
            - (Bytes.incCount c k { b1 with index := b1.index + 1 }).index < n := by
          rw [hi.1, hi.2]; simp only
          have := ha.mono; have := ha.len; omega
        have hrec := ih _ hadv.valid' hf2
        cases hres : parseDigitsLoop c k c.mantissaRadix n (Bytes.incCount c k { b1 with index := b1.index + 1 }) with
        | error e =>
          rw [hres] at hrec
          cases e <;> simp_all [Safe]
        | ok r2 =>
          rw [hres] at hrec
          obtain ⟨ds2, b2⟩ := r2
          obtain ⟨ha2, hdr⟩ := hrec
          simp only [pure, Except.pure]
          refine ⟨hadv.trans ha2, ?_⟩
          rw [hi.1, hi.2] at hdr
          simp only at hdr
          rw [ha.slc] at hxs hdr
          exact (hds.trans (DSRange.step hxs hdig)).trans hdr

theorem parseDigits_ds (cx : Ctx c) (k : Comp) (hg : Good c k) (b : Bytes) (hb : Bytes.Valid b) :
    Safe (parseDigits c k c.mantissaRadix b) (fun r => Adv b r.2 ∧ DSRange c k b.slc b.index r.2.index) :=
  parseDigitsLoop_ds cx k hg _ b hb (by omega)

end LexVerif.Proof.PNDebug
