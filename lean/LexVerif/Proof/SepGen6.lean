import LexVerif.Proof.SepGen5
/-!
# Proof.SepGen6 — `parse_number` over an input with separators against the stripped input: the general strip theorem
-/
set_option linter.unusedSimpArgs false
namespace LexVerif.Proof.Sep
open LexVerif LexVerif.Model LexVerif.Spec
open LexVerif.Props.C12

/-- every successful exit of the many-digits path reports the end index it was given -/
theorem manyDigitsPhase_count (c : Cfg) (o : POpts) (neg : Bool) (ip : IntPart) (fp : FracPart) (ep : ExpPart)
    (nDigits step : Nat) (ex0 : Int) (endIdx : Nat) (n : Number) (cnt : Nat)
    (h : manyDigitsPhase c o neg ip fp ep nDigits step ex0 endIdx = .ok (n, cnt)) : cnt = endIdx := by
  unfold manyDigitsPhase at h
  simp only [bind, Except.bind, pure, Except.pure] at h
  repeat' split at h
  all_goals first
    | (cases h; done)
    | (cases h; rfl)
    | (simp only [Except.ok.injEq, Prod.mk.injEq] at h; exact h.2.symm)

/-- what the fraction phase did, over an input with separators -/
def FracLeft (c : Cfg) (o : POpts) (b eI : Bytes) (mI : Nat) (fp : FracPart) : Prop :=
  (fp = ⟨eI, mI, 0, 0, none, false⟩ ∧ eI.firstIsCased o.dp = false) ∨
  (∃ dsF eF, b.slc[eI.index]? = some o.dp ∧ Run c .fraction c.mantissaRadix { eI with index := eI.index + 1 } eF dsF ∧
    (c.iterContiguous .fraction = true →
      eF.index - (eI.index + 1) = dsF.length ∧ NoSep c (slice b.slc (eI.index + 1) eF.index)) ∧
    (c.requiredFractionDigits && decide (dsF.length = 0)) = false ∧
    fp = ⟨eF, foldMantissa c.mantissaRadix mI dsF, dsF.length, scaleVal c (-(dsF.length : Int)),
      some (slice b.slc (eI.index + 1) eF.index), true⟩)

/-- **decomposition of a successful `parse_number`** over an input with separators -/
theorem parseNumber_left (c : Cfg) (o : POpts) (hG : GenStrip c o) (b : Bytes) (hv : Bytes.Valid b) (p neg fv : Bool)
    (n : Number) (cnt : Nat) (h : parseNumber c p o b neg fv = .ok (n, cnt)) :
    ∃ dsI eI fp ep, Run c .integer c.mantissaRadix b eI dsI ∧
      (c.iterContiguous .integer = true → eI.index - b.index = dsI.length ∧ NoSep c (slice b.slc b.index eI.index)) ∧
      (c.requiredIntegerDigits && decide (dsI.length = 0)) = false ∧
      FracLeft c o b eI (foldMantissa c.mantissaRadix 0 dsI) fp ∧
      (decide (dsI.length + fp.nAfterDot = 0) || decide (Bytes.currentCount c fp.byte = 0)) = false ∧
      exponentPhase c (fp.byte.firstIs o.exp (c.caseSensitiveExponent && c.feats.format)) fp.byte fp.fraction
        fp.exponent = .ok ep ∧
      cnt = ep.byte.index ∧
      (if dsI.length + fp.nAfterDot ≤ u64Step c.feats c.mantissaRadix then
        n = ⟨fp.mantissa, ep.exponent, neg, false, slice b.slc b.index eI.index, fp.fraction, ep.explicit⟩
       else manyDigitsPhase c o neg ⟨false, b, eI, foldMantissa c.mantissaRadix 0 dsI, dsI.length,
          slice b.slc b.index eI.index⟩ fp ep (dsI.length + fp.nAfterDot) (u64Step c.feats c.mantissaRadix)
          ep.exponent ep.byte.index = .ok (n, cnt)) := by
  obtain ⟨dsI, eI, hRI, hconI, hint⟩ := integerPhase_left c o hG b hv
  have hvI : Bytes.Valid eI := by unfold Bytes.Valid; rw [hRI.slc]; exact hRI.valid
  unfold parseNumber at h
  simp only [hG.rel.debug, Bool.false_and, Bool.false_eq_true, if_false, hint, bind, Except.bind] at h
  by_cases hzI : (c.requiredIntegerDigits && decide (dsI.length = 0)) = true
  · rw [if_pos hzI] at h; cases h
  · have hzI' : (c.requiredIntegerDigits && decide (dsI.length = 0)) = false := by simpa using hzI
    rw [if_neg hzI] at h
    simp only at h
    cases hfpE : fractionPhase c o eI (foldMantissa c.mantissaRadix 0 dsI) with
    | error er => rw [hfpE] at h; cases h
    | ok fp =>
      rw [hfpE] at h
      simp only at h
      have hFL : FracLeft c o b eI (foldMantissa c.mantissaRadix 0 dsI) fp := by
        rcases fractionPhase_left c o hG eI (foldMantissa c.mantissaRadix 0 dsI) hvI with ⟨h1, h2⟩ | ⟨h1, dsF, eF, h2, h3, h4⟩
        · rw [hfpE] at h2
          simp only [Except.ok.injEq] at h2
          exact Or.inl ⟨h2, h1⟩
        · rw [hfpE] at h4
          by_cases hzF : (c.requiredFractionDigits && decide (dsF.length = 0)) = true
          · rw [if_pos hzF] at h4; cases h4
          · rw [if_neg hzF] at h4
            simp only [Except.ok.injEq] at h4
            rw [hRI.slc] at h1 h3 h4
            exact Or.inr ⟨dsF, eF, h1, h2, h3, by simpa using hzF, h4⟩
      -- the mantissa check
      have hcond : (c.requiredMantissaDigits && (decide (dsI.length + fp.nAfterDot = 0) ||
          c.feats.format && decide (Bytes.currentCount c fp.byte = 0)))
          = (decide (dsI.length + fp.nAfterDot = 0) || decide (Bytes.currentCount c fp.byte = 0)) := by
        simp only [hG.reqMant, hG.format, Bool.true_and]
      rw [hcond] at h
      by_cases hm : (decide (dsI.length + fp.nAfterDot = 0) || decide (Bytes.currentCount c fp.byte = 0)) = true
      · rw [if_pos hm] at h
        cases hpk : peek c .integer b with
        | error er => rw [hpk] at h; cases h
        | ok r => rw [hpk] at h; simp only at h; split at h <;> cases h
      · rw [if_neg hm] at h
        cases hepE : exponentPhase c (fp.byte.firstIs o.exp (c.caseSensitiveExponent && c.feats.format)) fp.byte
            fp.fraction fp.exponent with
        | error er => rw [hepE] at h; cases h
        | ok ep =>
          rw [hepE] at h
          simp only [suffixPhase_none c hG.noSuffix] at h
          have hexp : (if (c.feats.format && !c.requiredMantissaDigits && decide (dsI.length + fp.nAfterDot = 0)) = true
              then (0 : Int) else ep.exponent) = ep.exponent := by
            simp only [hG.reqMant, Bool.not_true, Bool.and_false, Bool.false_and, Bool.false_eq_true, if_false]
          rw [hexp] at h
          refine ⟨dsI, eI, fp, ep, hRI, hconI, hzI', hFL, by simpa using hm, hepE, ?_, ?_⟩
          · split at h
            · simp only [pure, Except.pure, Except.ok.injEq, Prod.mk.injEq] at h; exact h.2.symm
            · exact manyDigitsPhase_count c o neg _ fp ep _ _ _ _ n cnt h
          · split at h
            · next hle =>
              simp only [pure, Except.pure, Except.ok.injEq, Prod.mk.injEq] at h
              rw [if_pos hle]; exact h.1.symm
            · next hle => rw [if_neg hle]; exact h

/-- **re-scan consistency** of component `k`: whenever the first pass of its (non-contiguous) iterator, started with
digit count 0 behind a byte that is neither digit nor separator (or on a non-separator byte), has consumed a region
that ends before a byte that is neither digit nor separator, the iterator restarted on the stored region alone runs
through all of it. True for `noskip` (vacuous) and I+L+T+C; false for I+T+C (recorded defect). -/
def Rescan (c : Cfg) (k : Comp) : Prop :=
  c.iterContiguous k = false →
  ∀ (b e : Bytes) (ds : List Nat), Run c k c.mantissaRadix b e ds → Bytes.iterCount c k b = 0 → Bytes.Valid b →
    ((∀ x, getPrev b.slc b.index = some x → c.isDigit x = false ∧ c.isSep x = false) ∨
      (∀ x, b.slc[b.index]? = some x → c.isSep x = false)) →
    (∀ x, b.slc[e.index]? = some x → c.isDigit x = false ∧ c.isSep x = false) →
    ∃ ds' e', parseDigits c k c.mantissaRadix (Bytes.new (slice b.slc b.index e.index)) = .ok (ds', e') ∧
      e'.index = (slice b.slc b.index e.index).length

theorem sliceOK_of_run {c : Cfg} {k : Comp} {b e : Bytes} {ds : List Nat} (hres : Rescan c k)
    (hR : Run c k c.mantissaRadix b e ds)
    (hcon : c.iterContiguous k = true → NoSep c (slice b.slc b.index e.index))
    (h0 : c.iterContiguous k = false → Bytes.iterCount c k b = 0) (hv : Bytes.Valid b)
    (hprev : (∀ x, getPrev b.slc b.index = some x → c.isDigit x = false ∧ c.isSep x = false) ∨
      (∀ x, b.slc[b.index]? = some x → c.isSep x = false))
    (hnext : ∀ x, b.slc[e.index]? = some x → c.isDigit x = false ∧ c.isSep x = false) :
    SliceOK c k (slice b.slc b.index e.index) := by
  cases hc : c.iterContiguous k
  · exact Or.inr ⟨hc, hres hc b e ds hR (h0 hc) hv hprev hnext⟩
  · exact Or.inl ⟨hc, hcon hc⟩

/-- a byte that `parse_digits` stopped at is not a digit in the sense of the separator predicates -/
theorem isDigit_of_stop (c : Cfg) (x : Nat) (hx : x < 256) (hr : c.mantissaRadix ≤ 36)
    (h : charToDigit x c.mantissaRadix = none) : c.isDigit x = false := by
  unfold Cfg.isDigit
  rw [← LexVerif.Proof.Grammar.charToDigit_eq x c.mantissaRadix hx (by omega), h]; rfl

theorem manyClosed_fields (r : Nat) (scale : Int → Int) (dp : Nat) (s : List Nat) (i : Nat) (ids : List Nat) (ipN : Nat)
    (fraction : Option (List Nat)) (fpMant : Nat) (explicit : Int) (neg : Bool) (nDigits step : Nat) (ex0 : Int)
    (endIdx : Nat) (sm : Bool) (res : Number × Nat)
    (h : manyClosed r scale dp s i ids ipN fraction fpMant explicit neg nDigits step ex0 endIdx sm = .ok res) :
    res.1.integer = ids ∧ res.1.fraction = fraction ∧ res.2 = endIdx := by
  unfold manyClosed manyCore at h
  simp only at h
  repeat' split at h
  all_goals first
    | (cases h; done)
    | (cases h; exact ⟨rfl, rfl, rfl⟩)

theorem manyClosed_endIdx (r : Nat) (scale : Int → Int) (dp : Nat) (s : List Nat) (i : Nat) (ids : List Nat) (ipN : Nat)
    (fraction : Option (List Nat)) (fpMant : Nat) (explicit : Int) (neg : Bool) (nDigits step : Nat) (ex0 : Int)
    (e1 e2 : Nat) (sm : Bool) :
    manyClosed r scale dp s i ids ipN fraction fpMant explicit neg nDigits step ex0 e2 sm =
      (manyClosed r scale dp s i ids ipN fraction fpMant explicit neg nDigits step ex0 e1 sm).map (fun x => (x.1, e2)) := by
  unfold manyClosed manyCore
  simp only
  repeat' split
  all_goals first
    | rfl
    | simp_all [Except.map]

/-- the fraction phase over the stripped input, given what it did over the input with separators -/
theorem frac_right (c : Cfg) (o : POpts) (hG : GenStrip c o) (s : List Nat) (b eI bI' : Bytes) (mI : Nat)
    (fp : FracPart) (hsl : b.slc = s) (heI : eI.slc = s) (hvI : eI.index ≤ s.length)
    (hFL : FracLeft c o b eI mI fp) (hr : StripRel c s eI bI')
    (hNI : ∀ x, s[eI.index]? = some x → c.isSep x = false)
    (hNF : fp.byte.slc = s → ∀ x, s[fp.byte.index]? = some x → c.isSep x = false) :
    fp.byte.slc = s ∧ fp.byte.index ≤ s.length ∧
    ∃ fp', fractionPhase c o bI' mI = .ok fp' ∧ StripRel c s fp.byte fp'.byte ∧ fp'.mantissa = fp.mantissa ∧
      fp'.nAfterDot = fp.nAfterDot ∧ fp'.exponent = fp.exponent ∧ fp'.fraction = fp.fraction.map (nonSep c) := by
  rcases hFL with ⟨rfl, hnodp⟩ | ⟨dsF, eF, hdp, hRF, hconF, hzF, rfl⟩
  · refine ⟨heI, hvI, ⟨bI', mI, 0, 0, none, false⟩, ?_, hr, rfl, rfl, rfl, rfl⟩
    have hN : Normal c eI := by intro x hx; rw [heI] at hx; exact hNI x hx
    have hf : bI'.firstIsCased o.dp = false := by
      unfold Bytes.firstIsCased at hnodp ⊢
      rw [hr.first hN]; exact hnodp
    unfold fractionPhase
    simp only [hf, Bool.false_eq_true, if_false, pure, Except.pure]
  · have hslF : eF.slc = s := by rw [hRF.slc]; exact heI
    have hvF : eF.index ≤ s.length := by have := hRF.valid; simp only [heI] at this; exact this
    rw [hsl] at hdp
    have hN2 : ∀ x, eI.slc[eF.index]? = some x → c.isSep x = false := by
      intro x hx; rw [heI] at hx; exact hNF hslF x hx
    obtain ⟨g1, g2⟩ := fractionPhase_right c o hG s eI bI' eF mI dsF (by rw [heI]; exact hdp) hRF hr hN2 hzF
    refine ⟨hslF, hvF, _, g1, g2, rfl, rfl, rfl, ?_⟩
    simp only [Option.map_some, heI, hsl]

theorem exponentPhase_noexp (c : Cfg) (b : Bytes) (fr : Option (List Nat)) (ex : Int) (ep : ExpPart)
    (h : exponentPhase c false b fr ex = .ok ep) : ep.byte = b := by
  rw [exponentPhase_eq] at h
  simp only [Bool.false_eq_true, if_false] at h
  split at h
  · cases h
  · simp only [pure, Except.pure, Except.ok.injEq] at h; rw [← h]

/-- a successful `parse_number` that consumed the whole input: its decomposition, and the cursors after the integer
and the fraction phase do not stand on a separator (otherwise nothing more would be consumed) -/
theorem parseNumber_left2 (c : Cfg) (o : POpts) (hG : GenStrip c o) (s : List Nat) (b : Bytes) (hsl : b.slc = s)
    (hv : b.index ≤ s.length) (p neg fv : Bool) (n : Number) (cnt : Nat)
    (h : parseNumber c p o b neg fv = .ok (n, cnt)) (hcnt : cnt = s.length) :
    ∃ dsI eI fp ep, Run c .integer c.mantissaRadix b eI dsI ∧
      (c.iterContiguous .integer = true → eI.index - b.index = dsI.length ∧ NoSep c (slice b.slc b.index eI.index)) ∧
      (c.requiredIntegerDigits && decide (dsI.length = 0)) = false ∧
      FracLeft c o b eI (foldMantissa c.mantissaRadix 0 dsI) fp ∧
      (decide (dsI.length + fp.nAfterDot = 0) || decide (Bytes.currentCount c fp.byte = 0)) = false ∧
      exponentPhase c (fp.byte.firstIs o.exp (c.caseSensitiveExponent && c.feats.format)) fp.byte fp.fraction
        fp.exponent = .ok ep ∧
      cnt = ep.byte.index ∧
      (if dsI.length + fp.nAfterDot ≤ u64Step c.feats c.mantissaRadix then
        n = ⟨fp.mantissa, ep.exponent, neg, false, slice b.slc b.index eI.index, fp.fraction, ep.explicit⟩
       else manyDigitsPhase c o neg ⟨false, b, eI, foldMantissa c.mantissaRadix 0 dsI, dsI.length,
          slice b.slc b.index eI.index⟩ fp ep (dsI.length + fp.nAfterDot) (u64Step c.feats c.mantissaRadix)
          ep.exponent ep.byte.index = .ok (n, cnt)) ∧
      eI.slc = s ∧ eI.index ≤ s.length ∧ fp.byte.slc = s ∧ fp.byte.index ≤ s.length ∧
      (∀ x, s[fp.byte.index]? = some x → c.isSep x = false) ∧ (∀ x, s[eI.index]? = some x → c.isSep x = false) := by
  have hvb : Bytes.Valid b := by unfold Bytes.Valid; rw [hsl]; exact hv
  obtain ⟨dsI, eI, fp, ep, hRI, hconI, hzI, hFL, hm, hep, hcntE, hres⟩ := parseNumber_left c o hG b hvb p neg fv n cnt h
  have heI : eI.slc = s := by rw [hRI.slc]; exact hsl
  have hvI : eI.index ≤ s.length := by have := hRI.valid; rw [hsl] at this; exact this
  have hfps : fp.byte.slc = s ∧ fp.byte.index ≤ s.length := by
    rcases hFL with ⟨rfl, _⟩ | ⟨dsF, eF, _, hRF, _, _, rfl⟩
    · exact ⟨heI, hvI⟩
    · refine ⟨by rw [hRF.slc]; exact heI, ?_⟩
      have := hRF.valid; simp only [heI] at this; exact this
  have hNF : ∀ x, s[fp.byte.index]? = some x → c.isSep x = false := by
    intro x hx
    cases hcs : c.isSep x with
    | false => rfl
    | true =>
      exfalso
      have hfe : fp.byte.firstIs o.exp (c.caseSensitiveExponent && c.feats.format) = false := by
        rw [firstIs_exp, hfps.1, hx]; exact hG.sepExp x hcs
      rw [hfe] at hep
      have := exponentPhase_noexp c _ _ _ _ hep
      rw [this] at hcntE
      have hlt : fp.byte.index < s.length := (List.getElem?_eq_some_iff.mp hx).1
      omega
  have hNI : ∀ x, s[eI.index]? = some x → c.isSep x = false := by
    rcases hFL with ⟨rfl, _⟩ | ⟨dsF, eF, hdp, _, _, _, _⟩
    · exact hNF
    · intro x hx; rw [hsl] at hdp; rw [hdp] at hx; cases hx; exact hG.sepDp
  exact ⟨dsI, eI, fp, ep, hRI, hconI, hzI, hFL, hm, hep, hcntE, hres, heI, hvI, hfps.1, hfps.2, hNF, hNI⟩

/-- the stored digit slices of a many-digits number re-scan consistently (so `numberBits` reads the digits of the
stripped slices from them) -/
def SlicesOK (c : Cfg) (n : Number) : Prop :=
  n.manyDigits = true → SliceOK c .integer n.integer ∧ ∀ fd, n.fraction = some fd → SliceOK c .fraction fd

/-- **`parse_number` accepted the whole input with separators ⟹ it accepts the whole stripped input, as the same
number** — any separator predicates with consistent re-scan (`Rescan`) on the integer and fraction component. -/
theorem number_strip_gen (c : Cfg) (o : POpts) (hG : GenStrip c o) (hresI : Rescan c .integer)
    (hresF : Rescan c .fraction) (s : List Nat) (hb256 : ∀ x ∈ s, x < 256) (b b' : Bytes) (hr : StripRel c s b b')
    (hv : b.index ≤ s.length) (hic : b.ic = 0) (hfc : b.fc = 0)
    (hstart : (∀ x, getPrev s b.index = some x → c.isDigit x = false ∧ c.isSep x = false) ∨
      (∀ x, s[b.index]? = some x → c.isSep x = true → peek c .integer b = .ok (some x, b)))
    (p neg fv : Bool) (n : Number) (cnt : Nat) (h : parseNumber c p o b neg fv = .ok (n, cnt))
    (hcnt : cnt = s.length) :
    ∃ n', parseNumber c p o b' neg fv = .ok (n', (nonSep c s).length) ∧ NumRel c n n' ∧ SlicesOK c n := by
  have hsl : b.slc = s := hr.1
  have hvb : Bytes.Valid b := by unfold Bytes.Valid; rw [hsl]; exact hv
  obtain ⟨dsI, eI, fp, ep, hRI, hconI, hzI, hFL, hm, hep, hcntE, hres, heI, hvI, hfps1, hfps2, hNF, hNI⟩ :=
    parseNumber_left2 c o hG s b hsl hv p neg fv n cnt h hcnt
  have hfps : fp.byte.slc = s ∧ fp.byte.index ≤ s.length := ⟨hfps1, hfps2⟩
  -- the stripped run: integer phase
  have hNIb : ∀ x, b.slc[eI.index]? = some x → c.isSep x = false := by rw [hsl]; exact hNI
  obtain ⟨hipR, hrI⟩ := integerPhase_right c o hG s b b' eI dsI hRI hr hNIb hzI
  -- fraction phase
  obtain ⟨_, _, fp', hfpR, hrF, f1, f2, f3, f4⟩ :=
    frac_right c o hG s b eI (adv c .integer dsI.length b') (foldMantissa c.mantissaRadix 0 dsI) fp hsl heI hvI hFL hrI
      hNI (fun _ => hNF)
  have hNFn : Normal c fp.byte := by intro x hx; rw [hfps.1] at hx; exact hNF x hx
  have hcc : Bytes.currentCount c fp'.byte = Bytes.currentCount c fp.byte := by
    simp only [Bytes.currentCount, hG.bytes, Bool.false_eq_true, if_false, hrF.2.2.2.1, hrF.2.2.2.2.1, hrF.2.2.2.2.2]
  have hfi : ∀ v cased, fp'.byte.firstIs v cased = fp.byte.firstIs v cased := by
    intro v cased; simp [Bytes.firstIs, Bytes.firstIsCased, Bytes.firstIsUncased, hrF.first hNFn]
  -- exponent phase
  have hNe : ∀ x, s[ep.byte.index]? = some x → c.isSep x = false := by
    intro x hx
    have hlt : ep.byte.index < s.length := (List.getElem?_eq_some_iff.mp hx).1
    omega
  obtain ⟨ep', hepR, hrE, e1, e2, _⟩ := exponentPhase_strip c o hG s _ fp.byte fp'.byte hrF hNFn
    (fun hh => firstIs_some _ _ _ hh) hfps.2 fp.fraction fp.exponent ep hep hNe
  have hend : ep'.byte.index = (nonSep c s).length := by
    rw [hrE.2.2.1, ← hcntE, hcnt, List.take_length]
  -- assemble the stripped run
  unfold parseNumber
  simp only [hG.rel.debug, Bool.false_and, Bool.false_eq_true, if_false, hipR, bind, Except.bind, hfpR, f1, f2, f3, f4,
    hfi, hcc]
  have hcond : (c.requiredMantissaDigits && (decide (dsI.length + fp.nAfterDot = 0) ||
      c.feats.format && decide (Bytes.currentCount c fp.byte = 0))) = false := by
    simp only [hG.reqMant, hG.format, Bool.true_and]; exact hm
  rw [hcond]
  simp only [Bool.false_eq_true, if_false, hepR, suffixPhase_none c hG.noSuffix, e1, e2, hend]
  have hexp : (if (c.feats.format && !c.requiredMantissaDigits && decide (dsI.length + fp.nAfterDot = 0)) = true
      then (0 : Int) else ep.exponent) = ep.exponent := by
    simp only [hG.reqMant, Bool.not_true, Bool.and_false, Bool.false_and, Bool.false_eq_true, if_false]
  rw [hexp]
  by_cases hle : dsI.length + fp.nAfterDot ≤ u64Step c.feats c.mantissaRadix
  · rw [if_pos hle] at hres
    rw [if_pos hle]
    refine ⟨_, rfl, ?_, ?_⟩
    · subst hres
      simp only [NumRel, hsl, and_self]
    · subst hres; intro hmd; cases hmd
  · rw [if_neg hle] at hres
    rw [if_neg hle]
    -- the many-digits path
    have hnext : ∀ (e : Bytes) (r : Nat) (hr36 : r = c.mantissaRadix), (∀ x, s[e.index]? = some x → c.isSep x = false) →
        (∀ x, s[e.index]? = some x → charToDigit x r = none) →
        ∀ x, s[e.index]? = some x → c.isDigit x = false ∧ c.isSep x = false := by
      intro e r hr36 hn hs x hx
      subst hr36
      exact ⟨isDigit_of_stop c x (hb256 x (List.mem_of_getElem? hx)) hG.radixM (hs x hx), hn x hx⟩
    have hokI : SliceOK c .integer (slice s b.index eI.index) := by
      have := sliceOK_of_run hresI hRI (fun hc => (hconI hc).2)
        (by intro hc; simp [Bytes.iterCount, hc, hic])
        hvb (by
          rw [hsl]
          rcases hstart with h1 | h2
          · exact Or.inl h1
          · -- a separator under the start cursor that `peek` does not skip would end the integer run right there
            right
            intro x hx
            cases hcs : c.isSep x with
            | false => rfl
            | true =>
              exfalso
              have hpk := h2 x hx hcs
              have hrun : parseDigits c .integer c.mantissaRadix b = .ok ([], b) := by
                unfold parseDigits
                rw [parseDigitsLoop.eq_2]
                simp only [hpk, bind, Except.bind, hG.sepDigM x hcs, pure, Except.pure]
              have := hRI.run
              rw [hrun] at this
              simp only [Except.ok.injEq, Prod.mk.injEq] at this
              have hx2 := hNI x (by rw [← this.2]; exact hx)
              rw [hcs] at hx2; cases hx2)
        (by rw [hsl]; exact hnext eI _ rfl hNI (by intro x hx; exact hRI.stop x (by rw [hsl]; exact hx)))
      rw [hsl] at this; exact this
    have hfcI : eI.fc = 0 := by rw [hRI.eq]; simp [advS, hfc]
    have hokF : ∀ fd, fp.fraction = some fd → SliceOK c .fraction fd := by
      intro fd hfd
      rcases hFL with ⟨rfl, _⟩ | ⟨dsF, eF, hdp, hRF, hconF, _, rfl⟩
      · cases hfd
      · simp only [Option.some.injEq] at hfd
        subst hfd
        rw [hsl] at hdp
        have hvF : Bytes.Valid ({ eI with index := eI.index + 1 } : Bytes) := by
          unfold Bytes.Valid; simp only [heI]
          have := (List.getElem?_eq_some_iff.mp hdp).1; omega
        have := sliceOK_of_run hresF hRF (fun hc => by simpa [heI, hsl] using (hconF hc).2)
          (by intro hc; simp [Bytes.iterCount, hc, hfcI]) hvF
          (Or.inl (by
            intro x hx
            simp only [getPrev, heI, Nat.add_sub_cancel, Nat.succ_ne_zero, if_false, hdp, Option.some.injEq] at hx
            subst hx
            exact ⟨isDigit_of_stop c _ (hb256 _ (List.mem_of_getElem? hdp)) hG.radixM hG.dpDigit, hG.sepDp⟩))
          (by
            simp only [heI]
            exact hnext eF _ rfl hNF (by intro x hx; exact hRF.stop x (by simp only [heI]; exact hx)))
        simpa [heI, hsl] using this
    have hfracM : s[eI.index]? = some o.dp → ∃ dsF eF,
        Run c .fraction c.mantissaRadix { eI with index := eI.index + 1 } eF dsF ∧
        (c.iterContiguous .fraction = true → NoSep c (slice s (eI.index + 1) eF.index)) ∧
        (∀ x, s[eF.index]? = some x → c.isSep x = false) := by
      intro hdp
      rcases hFL with ⟨rfl, hnodp⟩ | ⟨dsF, eF, _, hRF, hconF, _, rfl⟩
      · exfalso
        simp [Bytes.firstIsCased, Bytes.first, heI, hdp] at hnodp
      · exact ⟨dsF, eF, hRF, fun hc => by simpa [hsl] using (hconF hc).2, hNF⟩
    have hL := manyDigits_left c o hG s neg ⟨false, b, eI, foldMantissa c.mantissaRadix 0 dsI, dsI.length,
      slice b.slc b.index eI.index⟩ fp ep (dsI.length + fp.nAfterDot) (u64Step c.feats c.mantissaRadix) ep.exponent
      ep.byte.index eI dsI hsl hvb hRI (fun hc => by simpa [hsl] using (hconI hc).2) hNI hfracM
      (by simpa [hsl] using hokI) hokF
    rw [hL] at hres
    have hnS : NoSep c (nonSep c s) := nonSep_noSep c s
    rw [manyDigits_rel c hG.rel (nonSep c s) hnS o neg _ _ _ _ _ _ _ hr.2.1 (nonSep_noSep c _)
      (by
        intro fd hfd
        rw [f4] at hfd
        cases hfr : fp.fraction with
        | none => rw [hfr] at hfd; cases hfd
        | some x =>
          rw [hfr] at hfd
          simp only [Option.map_some, Option.some.injEq] at hfd; rw [← hfd]; exact nonSep_noSep c _)]
    simp only [hr.2.2.1, hG.format, hG.bytes, Bool.not_false, Bool.and_true, f1, f4, e1] at hres ⊢
    rw [manyClosed_endIdx _ _ _ _ _ _ _ _ _ _ _ _ _ _ ep.byte.index (nonSep c s).length]
    cases hmc : manyClosed c.mantissaRadix (scaleVal c) o.dp (nonSep c s) (nonSep c (List.take b.index s)).length
        (nonSep c (slice b.slc b.index eI.index)) dsI.length (Option.map (nonSep c) fp.fraction) fp.mantissa ep.explicit
        neg (dsI.length + fp.nAfterDot) (u64Step c.feats c.mantissaRadix) ep.exponent ep.byte.index true with
    | error er => rw [hmc] at hres; cases hres
    | ok res =>
      rw [hmc] at hres
      simp only [Except.map, Except.ok.injEq, Prod.mk.injEq] at hres
      obtain ⟨g1, g2, _⟩ := manyClosed_fields _ _ _ _ _ _ _ _ _ _ _ _ _ _ _ _ _ hmc
      refine ⟨res.1, rfl, ?_, ?_⟩
      · rw [← hres.1]
        simp only [NumRel, g1, g2, and_self]
      · rw [← hres.1]
        intro _
        exact ⟨by simpa [hsl] using hokI, hokF⟩

end LexVerif.Proof.Sep
