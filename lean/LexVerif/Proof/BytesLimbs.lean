import LexVerif.Proof.SlowLimbs
import Mathlib.Tactic.Ring
/-!
# Proof.BytesLimbs — the limb-level big-integer operations `byte_comp` uses, specified by the numbers they denote

For **normalised** vectors (64-bit limbs, non-zero top limb; `Proof.SlowLimbs.Normalized`) every operation returns a
normalised vector denoting the expected number, and fails exactly when that number does not fit the capacity:
`small_mul` (`smallMulL_spec`), `compare` (`compareL_spec`), `shl_bits` / `shl` (`shlL_spec`), `large_quorem`
(`largeQuoremL_spec`: the single-limb quotient estimate plus one correction is the true quotient when the divisor's top limb
is large enough), `long_mul` / `large_mul` (`largeMulL_spec`) and `pow` (`powOddL_spec`).
-/
namespace LexVerif.Proof.Slow
open LexVerif.Spec LexVerif.Model LexVerif.Model.Slow LexVerif.Proof.RoundNE

theorem B64_eq : B64 = 2 ^ 64 := rfl

theorem limbsOk_nil : LimbsOk [] := fun _ h => by simp at h
theorem normalized_nil : Normalized [] := ⟨limbsOk_nil, fun l h => by simp at h⟩

theorem limbsOk_cons {a : Nat} {as : Limbs} : LimbsOk (a :: as) ↔ a < B64 ∧ LimbsOk as := by
  unfold LimbsOk
  constructor
  · intro h; exact ⟨h a (List.mem_cons_self ..), fun l hl => h l (List.mem_cons_of_mem _ hl)⟩
  · intro ⟨h1, h2⟩ l hl
    rcases List.mem_cons.mp hl with h | h
    · rw [h]; exact h1
    · exact h2 l h

theorem limbsOk_append {x y : Limbs} : LimbsOk (x ++ y) ↔ LimbsOk x ∧ LimbsOk y := by
  unfold LimbsOk
  constructor
  · intro h; exact ⟨fun l hl => h l (List.mem_append_left _ hl), fun l hl => h l (List.mem_append_right _ hl)⟩
  · intro ⟨h1, h2⟩ l hl
    rcases List.mem_append.mp hl with h | h
    · exact h1 l h
    · exact h2 l h

theorem valL_append_pow (x y : Limbs) : valL (x ++ y) = valL x + B64 ^ x.length * valL y := by
  induction x with
  | nil => simp [valL]
  | cons a as ih =>
    simp only [List.cons_append, valL, ih, List.length_cons, Nat.pow_succ]
    ring

/-- limbs in range denoting at least `B64^(n−1)` with `n` limbs: the top limb is non-zero -/
theorem normalized_of_ge {x : Limbs} (h : LimbsOk x) (hge : x ≠ [] → B64 ^ (x.length - 1) ≤ valL x) : Normalized x := by
  refine ⟨h, ?_⟩
  intro l hl
  have hne : x ≠ [] := by intro h0; rw [h0] at hl; simp at hl
  intro hz
  subst hz
  obtain ⟨ys, hys⟩ : ∃ ys, x = ys ++ [0] := List.getLast?_eq_some_iff.mp hl
  have hge' := hge hne
  rw [hys, valL_append, Nat.mul_zero, Nat.add_zero, List.length_append, List.length_singleton,
    Nat.add_sub_cancel] at hge'
  have := valL_lt (x := ys) (fun l hl => h l (by rw [hys]; exact List.mem_append_left _ hl))
  omega

/-- a normalised non-empty vector has a positive value -/
theorem valL_pos {x : Limbs} (h : Normalized x) (hne : x ≠ []) : 0 < valL x :=
  Nat.lt_of_lt_of_le (Nat.pow_pos B64_pos) (valL_ge h hne)

theorem valL_eq_zero {x : Limbs} (h : Normalized x) : valL x = 0 ↔ x = [] := by
  constructor
  · intro h0
    apply Classical.byContradiction; intro hne
    have := valL_pos h hne; omega
  · intro h0; subst h0; rfl

/-- normalised vectors are determined by their value -/
theorem normalized_length_le {x y : Limbs} (hx : Normalized x) (hy : Normalized y) (h : valL x ≤ valL y) :
    x.length ≤ y.length := by
  by_cases hne : x = []
  · subst hne; simp
  · have h1 := valL_ge hx hne
    have h2 := valL_lt hy.1
    have h3 : B64 ^ (x.length - 1) < B64 ^ y.length := by omega
    have := (Nat.pow_lt_pow_iff_right (by unfold B64; decide : 1 < B64)).mp h3
    omega

/-! ## `small_mul` -/

/-- **`small_mul`**: value, normal form, and success exactly when the product fits -/
theorem smallMulL_spec {cap : Nat} {x : Limbs} (h : Normalized x) (hlen : x.length ≤ cap) {y : Nat} (hy0 : y ≠ 0)
    (hy : y < B64) :
    (∀ z, smallMulL cap x y = some z → Normalized z ∧ valL z = valL x * y) ∧
    (valL x * y < B64 ^ cap → ∃ z, smallMulL cap x y = some z) := by
  have href := smallMul_refines h hlen hy0 hy
  obtain ⟨h1, h2, h3⟩ := smallMulGo_spec y x 0
  have e : ∀ n, B64 ^ n = 2 ^ (64 * n) := fun n => by unfold B64; rw [← Nat.pow_mul]
  constructor
  · intro z hz
    have hv : valL z = valL x * y := by
      rw [hz, Option.map_some] at href
      unfold smallMul at href
      split at href
      · rename_i h0
        injection href with href
        rw [href, h0, Nat.zero_mul]
      · unfold Slow.guard at href
        split at href
        · injection href with href
        · exact absurd href (by simp)
    refine ⟨?_, hv⟩
    -- normal form
    unfold smallMulL at hz
    dsimp only at hz
    rw [Nat.add_zero] at h1
    by_cases hc : (smallMulGo y x 0).2 = 0
    · rw [if_neg (by simpa using hc)] at hz
      injection hz with hz
      subst hz
      apply normalized_of_ge h3
      intro hne
      rw [h2]
      have hxne : x ≠ [] := by
        intro h0; apply hne; apply List.eq_nil_of_length_eq_zero; rw [h2, h0]; rfl
      have := valL_ge h hxne
      rw [hc, Nat.mul_zero, Nat.add_zero] at h1
      rw [h1]
      calc B64 ^ (x.length - 1) ≤ valL x := this
        _ = valL x * 1 := (Nat.mul_one _).symm
        _ ≤ valL x * y := Nat.mul_le_mul_left _ (by omega)
    · rw [if_pos (by simpa using hc)] at hz
      unfold tryPush at hz
      split at hz
      · injection hz with hz
        subst hz
        have hcl : (smallMulGo y x 0).2 < B64 := by
          apply Classical.byContradiction; intro hcon
          have hx := valL_lt h.1
          have : valL x * y < B64 ^ x.length * B64 :=
            Nat.mul_lt_mul_of_lt_of_le hx (Nat.le_of_lt hy) (by omega)
          have : B64 ^ x.length * B64 ≤ B64 ^ x.length * (smallMulGo y x 0).2 :=
            Nat.mul_le_mul_left _ (by omega)
          omega
        refine ⟨limbsOk_append.mpr ⟨h3, fun l hl => by simp at hl; rw [hl]; exact hcl⟩, ?_⟩
        intro l hl
        simp at hl
        rw [← hl]; exact hc
      · exact absurd hz (by simp)
  · intro hfit
    rw [e] at hfit
    have : limbsOf (valL x * y) ≤ cap := (limbsOf_le_iff _ _).mpr hfit
    unfold smallMul at href
    by_cases h0 : valL x = 0
    · rw [if_pos h0] at href
      cases hz : smallMulL cap x y with
      | none => rw [hz] at href; exact absurd href (by simp)
      | some z => exact ⟨z, rfl⟩
    · rw [if_neg h0] at href
      unfold Slow.guard at href
      have hdec : decide (limbsOf (valL x * y) ≤ cap) = true := by simpa using this
      rw [if_pos hdec] at href
      cases hz : smallMulL cap x y with
      | none => rw [hz] at href; exact absurd href (by simp)
      | some z => exact ⟨z, rfl⟩

/-! ## `compare` -/

theorem eq_nil_or_snoc (l : Limbs) : l = [] ∨ ∃ l' b, l = l' ++ [b] := by
  rcases List.eq_nil_or_concat l with h | ⟨l', b, h⟩
  · exact Or.inl h
  · exact Or.inr ⟨l', b, by rw [h, List.concat_eq_append]⟩

theorem cmp_lt {a b : Nat} (h : a < b) : compare a b = .lt := Nat.compare_eq_lt.mpr h
theorem cmp_gt {a b : Nat} (h : b < a) : compare a b = .gt := Nat.compare_eq_gt.mpr h
theorem cmp_eq {a b : Nat} (h : a = b) : compare a b = .eq := Nat.compare_eq_eq.mpr h

theorem compareTop_spec : ∀ (n : Nat) (xs ys : Limbs), xs.length = n → ys.length = n → LimbsOk xs → LimbsOk ys →
    compareTop xs.reverse ys.reverse = compare (valL xs) (valL ys)
  | 0, xs, ys, hx, hy, _, _ => by
    have := List.eq_nil_of_length_eq_zero hx
    have := List.eq_nil_of_length_eq_zero hy
    subst_vars
    simp [compareTop, valL]
  | n + 1, xs, ys, hx, hy, ox, oy => by
    rcases eq_nil_or_snoc xs with h | ⟨xs', a, rfl⟩
    · subst h; simp at hx
    rcases eq_nil_or_snoc ys with h | ⟨ys', b, rfl⟩
    · subst h; simp at hy
    simp only [List.length_append, List.length_singleton, Nat.add_right_cancel_iff] at hx hy
    have ox' := (limbsOk_append.mp ox).1
    have oy' := (limbsOk_append.mp oy).1
    have ih := compareTop_spec n xs' ys' hx hy ox' oy'
    rw [List.reverse_append, List.reverse_append]
    simp only [List.reverse_singleton, List.singleton_append, compareTop]
    rw [valL_append, valL_append, hx, hy]
    have lx := valL_lt ox'
    have ly := valL_lt oy'
    rw [hx] at lx
    rw [hy] at ly
    have hpos : 0 < B64 ^ n := Nat.pow_pos B64_pos
    rcases Nat.lt_trichotomy a b with hab | hab | hab
    · rw [cmp_lt hab]
      simp only
      symm; apply cmp_lt
      have : B64 ^ n * (a + 1) ≤ B64 ^ n * b := Nat.mul_le_mul_left _ hab
      rw [Nat.mul_add, Nat.mul_one] at this
      omega
    · subst hab
      rw [cmp_eq rfl]
      simp only
      rw [ih]
      rcases Nat.lt_trichotomy (valL xs') (valL ys') with h | h | h
      · rw [cmp_lt h, cmp_lt (by omega)]
      · rw [cmp_eq h, cmp_eq (by omega)]
      · rw [cmp_gt h, cmp_gt (by omega)]
    · rw [cmp_gt hab]
      simp only
      symm; apply cmp_gt
      have : B64 ^ n * (b + 1) ≤ B64 ^ n * a := Nat.mul_le_mul_left _ hab
      rw [Nat.mul_add, Nat.mul_one] at this
      omega

/-- **`compare`** of normalised vectors is the comparison of the numbers -/
theorem compareL_spec {x y : Limbs} (hx : Normalized x) (hy : Normalized y) :
    compareL x y = compare (valL x) (valL y) := by
  unfold compareL
  rcases Nat.lt_trichotomy x.length y.length with h | h | h
  · rw [cmp_lt h]
    simp only
    symm; apply cmp_lt
    have hne : y ≠ [] := by intro h0; subst h0; simp at h
    have h1 := valL_lt hx.1
    have h2 := valL_ge hy hne
    have : B64 ^ x.length ≤ B64 ^ (y.length - 1) := Nat.pow_le_pow_right B64_pos (by omega)
    omega
  · rw [cmp_eq h]
    simp only
    exact compareTop_spec x.length x y rfl h.symm hx.1 hy.1
  · rw [cmp_gt h]
    simp only
    symm; apply cmp_gt
    have hne : x ≠ [] := by intro h0; subst h0; simp at h
    have h1 := valL_lt hy.1
    have h2 := valL_ge hx hne
    have : B64 ^ y.length ≤ B64 ^ (x.length - 1) := Nat.pow_le_pow_right B64_pos (by omega)
    omega

/-! ## `shl_bits`, `shl_limbs`, `shl` -/

theorem shl_limb_split {xi n : Nat} (hn : n < 64) :
    xi * 2 ^ n = xi * 2 ^ n % B64 + B64 * (xi / 2 ^ (64 - n)) := by
  have hB : B64 = 2 ^ (64 - n) * 2 ^ n := by
    unfold B64; rw [← Nat.pow_add]; congr 1; omega
  have h1 : xi * 2 ^ n / B64 = xi / 2 ^ (64 - n) := by
    rw [hB]; exact Nat.mul_div_mul_right _ _ (Nat.two_pow_pos _)
  have := Nat.div_add_mod (xi * 2 ^ n) B64
  rw [h1] at this
  omega

theorem shl_limb_lt {xi prev n : Nat} (hn0 : 0 < n) (hn : n < 64) (hp : prev < B64) :
    xi * 2 ^ n % B64 + prev / 2 ^ (64 - n) < B64 := by
  have hB : B64 = 2 ^ (64 - n) * 2 ^ n := by
    unfold B64; rw [← Nat.pow_add]; congr 1; omega
  have h1 : xi * 2 ^ n % B64 = xi % 2 ^ (64 - n) * 2 ^ n := by
    rw [hB]; exact Nat.mul_mod_mul_right _ _ _
  have h2 : prev / 2 ^ (64 - n) < 2 ^ n := by
    rw [Nat.div_lt_iff_lt_mul (Nat.two_pow_pos _), Nat.mul_comm, ← hB]; exact hp
  have h3 : xi % 2 ^ (64 - n) + 1 ≤ 2 ^ (64 - n) := Nat.mod_lt _ (Nat.two_pow_pos _)
  have h4 := Nat.mul_le_mul_right (2 ^ n) h3
  rw [Nat.add_mul, Nat.one_mul, ← hB] at h4
  omega

theorem shlBitsGo_spec (n : Nat) (hn0 : 0 < n) (hn : n < 64) : ∀ (x : Limbs) (prev : Nat), LimbsOk x → prev < B64 →
    valL (shlBitsGo n x prev).1 + B64 ^ x.length * ((shlBitsGo n x prev).2 / 2 ^ (64 - n)) =
      valL x * 2 ^ n + prev / 2 ^ (64 - n) ∧
    (shlBitsGo n x prev).1.length = x.length ∧ LimbsOk (shlBitsGo n x prev).1 ∧ (shlBitsGo n x prev).2 < B64
  | [], prev, _, hp => by simp [shlBitsGo, valL, limbsOk_nil, hp]
  | xi :: xs, prev, hx, hp => by
    obtain ⟨hxi, hxs⟩ := limbsOk_cons.mp hx
    obtain ⟨h1, h2, h3, h4⟩ := shlBitsGo_spec n hn0 hn xs xi hxs hxi
    simp only [shlBitsGo, valL, List.length_cons]
    refine ⟨?_, by rw [h2], limbsOk_cons.mpr ⟨shl_limb_lt hn0 hn hp, h3⟩, h4⟩
    have hs := shl_limb_split (xi := xi) hn
    rw [Nat.pow_succ]
    calc xi * 2 ^ n % B64 + prev / 2 ^ (64 - n) + B64 * valL (shlBitsGo n xs xi).1 +
          B64 ^ xs.length * B64 * ((shlBitsGo n xs xi).2 / 2 ^ (64 - n))
        = xi * 2 ^ n % B64 + prev / 2 ^ (64 - n) + B64 * (valL (shlBitsGo n xs xi).1 +
            B64 ^ xs.length * ((shlBitsGo n xs xi).2 / 2 ^ (64 - n))) := by ring
      _ = xi * 2 ^ n % B64 + prev / 2 ^ (64 - n) + B64 * (valL xs * 2 ^ n + xi / 2 ^ (64 - n)) := by rw [h1]
      _ = (xi * 2 ^ n % B64 + B64 * (xi / 2 ^ (64 - n))) + B64 * valL xs * 2 ^ n + prev / 2 ^ (64 - n) := by ring
      _ = xi * 2 ^ n + B64 * valL xs * 2 ^ n + prev / 2 ^ (64 - n) := by rw [← hs]
      _ = (xi + B64 * valL xs) * 2 ^ n + prev / 2 ^ (64 - n) := by ring

/-- **`shl_bits`** (`0 < n < 64`) -/
theorem shlBitsL_spec {cap : Nat} {x : Limbs} (h : Normalized x) (hlen : x.length ≤ cap) {n : Nat} (hn0 : 0 < n)
    (hn : n < 64) :
    (∀ z, shlBitsL cap x n = some z → Normalized z ∧ valL z = valL x * 2 ^ n) ∧
    (valL x * 2 ^ n < B64 ^ cap → ∃ z, shlBitsL cap x n = some z) := by
  obtain ⟨h1, h2, h3, h4⟩ := shlBitsGo_spec n hn0 hn x 0 h.1 B64_pos
  rw [Nat.zero_div, Nat.add_zero] at h1
  have hcl : (shlBitsGo n x 0).2 / 2 ^ (64 - n) < B64 :=
    Nat.lt_of_le_of_lt (Nat.div_le_self _ _) h4
  unfold shlBitsL
  dsimp only
  by_cases hc : (shlBitsGo n x 0).2 / 2 ^ (64 - n) = 0
  · rw [if_neg (by simpa using hc)]
    rw [hc, Nat.mul_zero, Nat.add_zero] at h1
    refine ⟨?_, fun _ => ⟨_, rfl⟩⟩
    intro z hz
    injection hz with hz
    subst hz
    refine ⟨normalized_of_ge h3 ?_, h1⟩
    intro hne
    rw [h2, h1]
    have hxne : x ≠ [] := by
      intro h0; apply hne; apply List.eq_nil_of_length_eq_zero; rw [h2, h0]; rfl
    calc B64 ^ (x.length - 1) ≤ valL x := valL_ge h hxne
      _ = valL x * 1 := (Nat.mul_one _).symm
      _ ≤ valL x * 2 ^ n := Nat.mul_le_mul_left _ (Nat.two_pow_pos _)
  · rw [if_pos (by simpa using hc)]
    unfold tryPush
    rw [h2]
    constructor
    · intro z hz
      split at hz
      · injection hz with hz
        subst hz
        refine ⟨⟨limbsOk_append.mpr ⟨h3, fun l hl => by simp at hl; rw [hl]; exact hcl⟩, ?_⟩, ?_⟩
        · intro l hl
          simp at hl
          rw [← hl]; exact hc
        · rw [valL_append, h2]; exact h1
      · exact absurd hz (by simp)
    · intro hfit
      have hge : B64 ^ x.length ≤ valL x * 2 ^ n := by
        rw [← h1]
        have : B64 ^ x.length * 1 ≤ B64 ^ x.length * ((shlBitsGo n x 0).2 / 2 ^ (64 - n)) :=
          Nat.mul_le_mul_left _ (Nat.pos_of_ne_zero hc)
        omega
      have : x.length < cap := by
        have : B64 ^ x.length < B64 ^ cap := by omega
        exact (Nat.pow_lt_pow_iff_right (by unfold B64; decide : 1 < B64)).mp this
      rw [if_pos this]
      exact ⟨_, rfl⟩

/-- **`shl_limbs`** -/
theorem shlLimbsL_spec {cap : Nat} {x : Limbs} (h : Normalized x) (n : Nat) :
    (∀ z, shlLimbsL cap x n = some z → Normalized z ∧ valL z = valL x * B64 ^ n) ∧
    (x ≠ [] → valL x * B64 ^ n < B64 ^ cap → ∃ z, shlLimbsL cap x n = some z) := by
  unfold shlLimbsL
  constructor
  · intro z hz
    split at hz
    · exact absurd hz (by simp)
    · split at hz
      · rename_i he
        injection hz with hz; subst hz
        have : x = [] := by cases x with
          | nil => rfl
          | cons a as => simp at he
        subst this
        exact ⟨normalized_nil, by simp [valL]⟩
      · rename_i he
        injection hz with hz; subst hz
        have hne : x ≠ [] := by intro h0; subst h0; simp at he
        refine ⟨⟨limbsOk_append.mpr ⟨fun l hl => by rw [List.eq_of_mem_replicate hl]; exact B64_pos, h.1⟩, ?_⟩, ?_⟩
        · intro l hl
          rw [List.getLast?_append] at hl
          cases hx : x.getLast? with
          | none => exact absurd (List.getLast?_eq_none_iff.mp hx) hne
          | some a =>
            rw [hx] at hl
            simp only [Option.some_or] at hl
            injection hl with hl
            subst hl
            exact h.2 a hx
        · rw [valL_zeros_append]; ring
  · intro hne hfit
    have hge := valL_ge h hne
    have : ¬ (n + x.length > cap) := by
      intro hcon
      have h1 : B64 ^ cap ≤ B64 ^ (x.length - 1 + n) := Nat.pow_le_pow_right B64_pos (by
        have := List.length_pos_iff.mpr hne; omega)
      have h2 : B64 ^ (x.length - 1) * B64 ^ n ≤ valL x * B64 ^ n := Nat.mul_le_mul_right _ hge
      rw [← Nat.pow_add] at h2
      omega
    rw [if_neg this]
    split <;> exact ⟨_, rfl⟩

/-- **`shl`** -/
theorem shlL_spec {cap : Nat} {x : Limbs} (h : Normalized x) (hne : x ≠ []) (hlen : x.length ≤ cap) (n : Nat) :
    (∀ z, shlL cap x n = some z → Normalized z ∧ valL z = valL x * 2 ^ n) ∧
    (valL x * 2 ^ n < B64 ^ cap → ∃ z, shlL cap x n = some z) := by
  have hdm := Nat.div_add_mod n 64
  have hpw : (2 : Nat) ^ n = 2 ^ (n % 64) * B64 ^ (n / 64) := by
    unfold B64; rw [← Nat.pow_mul, ← Nat.pow_add]; congr 1; omega
  have hB1 : 1 ≤ B64 ^ (n / 64) := Nat.pow_pos B64_pos
  unfold shlL
  dsimp only
  by_cases hr : n % 64 = 0
  · rw [if_neg (by simpa using hr)]
    simp only [Option.bind_some]
    rw [hr, Nat.pow_zero, Nat.one_mul] at hpw
    by_cases hd : n / 64 = 0
    · rw [if_neg (by simpa using hd)]
      rw [hd, Nat.pow_zero] at hpw
      refine ⟨fun z hz => ?_, fun _ => ⟨_, rfl⟩⟩
      injection hz with hz; subst hz
      exact ⟨h, by rw [hpw, Nat.mul_one]⟩
    · rw [if_pos (by simpa using hd)]
      obtain ⟨s1, s2⟩ := shlLimbsL_spec (cap := cap) h (n / 64)
      rw [hpw]
      exact ⟨s1, s2 hne⟩
  · rw [if_pos (by simpa using hr)]
    obtain ⟨b1, b2⟩ := shlBitsL_spec (cap := cap) h hlen (Nat.pos_of_ne_zero hr) (Nat.mod_lt _ (by decide))
    constructor
    · intro z hz
      cases hb : shlBitsL cap x (n % 64) with
      | none => rw [hb] at hz; exact absurd hz (by simp)
      | some y =>
        rw [hb, Option.bind_some] at hz
        obtain ⟨ny, vy⟩ := b1 y hb
        by_cases hd : n / 64 = 0
        · rw [if_neg (by simpa using hd)] at hz
          injection hz with hz; subst hz
          rw [hd, Nat.pow_zero, Nat.mul_one] at hpw
          exact ⟨ny, by rw [vy, hpw]⟩
        · rw [if_pos (by simpa using hd)] at hz
          obtain ⟨nz, vz⟩ := (shlLimbsL_spec (cap := cap) ny (n / 64)).1 z hz
          exact ⟨nz, by rw [vz, vy, hpw]; ring⟩
    · intro hfit
      have hfit1 : valL x * 2 ^ (n % 64) < B64 ^ cap := by
        have : valL x * 2 ^ (n % 64) * 1 ≤ valL x * 2 ^ (n % 64) * B64 ^ (n / 64) := Nat.mul_le_mul_left _ hB1
        rw [hpw] at hfit
        have e : valL x * (2 ^ (n % 64) * B64 ^ (n / 64)) = valL x * 2 ^ (n % 64) * B64 ^ (n / 64) := by ring
        omega
      obtain ⟨y, hb⟩ := b2 hfit1
      obtain ⟨ny, vy⟩ := b1 y hb
      rw [hb, Option.bind_some]
      by_cases hd : n / 64 = 0
      · rw [if_neg (by simpa using hd)]; exact ⟨_, rfl⟩
      · rw [if_pos (by simpa using hd)]
        have hyne : y ≠ [] := by
          intro h0
          have := valL_pos h hne
          have : 0 < valL x * 2 ^ (n % 64) := Nat.mul_pos this (Nat.two_pow_pos _)
          rw [h0] at vy; simp [valL] at vy; omega
        apply (shlLimbsL_spec (cap := cap) ny (n / 64)).2 hyne
        rw [vy]
        rw [hpw] at hfit
        have e : valL x * (2 ^ (n % 64) * B64 ^ (n / 64)) = valL x * 2 ^ (n % 64) * B64 ^ (n / 64) := by ring
        omega

/-! ## `normalize` -/

theorem normalizeL_snoc (xs : Limbs) (a : Nat) :
    normalizeL (xs ++ [a]) = if a = 0 then normalizeL xs else xs ++ [a] := by
  unfold normalizeL
  rw [List.reverse_append, List.reverse_singleton, List.singleton_append, List.dropWhile_cons]
  by_cases h : a = 0
  · simp [h]
  · simp [h]

/-- **`normalize`** strips the zero limbs at the top -/
theorem normalizeL_spec : ∀ (n : Nat) (x : Limbs), x.length = n → LimbsOk x →
    Normalized (normalizeL x) ∧ valL (normalizeL x) = valL x ∧ (normalizeL x).length ≤ x.length
  | 0, x, hx, _ => by
    have := List.eq_nil_of_length_eq_zero hx
    subst this
    exact ⟨by unfold normalizeL; simpa using normalized_nil, rfl, Nat.le_refl _⟩
  | n + 1, x, hx, ok => by
    rcases eq_nil_or_snoc x with h | ⟨xs, a, rfl⟩
    · subst h; simp at hx
    simp only [List.length_append, List.length_singleton, Nat.add_right_cancel_iff] at hx
    obtain ⟨oxs, oa⟩ := limbsOk_append.mp ok
    rw [normalizeL_snoc]
    by_cases h : a = 0
    · rw [if_pos h]
      obtain ⟨i1, i2, i3⟩ := normalizeL_spec n xs hx oxs
      refine ⟨i1, ?_, by simp; omega⟩
      rw [i2, valL_append, h, Nat.mul_zero, Nat.add_zero]
    · rw [if_neg h]
      refine ⟨⟨ok, ?_⟩, rfl, Nat.le_refl _⟩
      intro l hl
      simp at hl
      rw [← hl]; exact h

/-! ## `large_quorem` -/

/-- one limb of the multiply-subtract loop, in wrapping 128-bit arithmetic -/
theorem sub_limb (xj P bin : Nat) (hx : xj < 2 ^ 64) (hP : P < 2 ^ 128) (hb : bin ≤ 1) :
    (xj + 2 ^ 128 - P % 2 ^ 64 + 2 ^ 128 - bin) % 2 ^ 128 % 2 ^ 64 + P % 2 ^ 64 + bin =
      xj + 2 ^ 64 * ((xj + 2 ^ 128 - P % 2 ^ 64 + 2 ^ 128 - bin) % 2 ^ 128 / 2 ^ 64 % 2) ∧
    (xj + 2 ^ 128 - P % 2 ^ 64 + 2 ^ 128 - bin) % 2 ^ 128 / 2 ^ 64 % 2 ≤ 1 := by
  have h64 : (2 : Nat) ^ 64 = 18446744073709551616 := by norm_num
  have h128 : (2 : Nat) ^ 128 = 340282366920938463463374607431768211456 := by norm_num
  rw [h64, h128] at *
  omega

/-- the multiplier of a pass of the loop: `q`, or `1` for the plain subtraction -/
def mulOf (mul : Option Nat) : Nat := match mul with | some q => q | none => 1

theorem sub_step (m yj carry xj borrow t R k xsV ysV Bn : Nat)
    (s1 : t % B64 + (yj * m + carry) % B64 + borrow = xj + B64 * (t / B64 % 2))
    (e1 : R + m * ysV + (yj * m + carry) / B64 + t / B64 % 2 = xsV + Bn * k) :
    t % B64 + B64 * R + m * (yj + B64 * ysV) + carry + borrow = xj + B64 * xsV + Bn * B64 * k := by
  have hdm := Nat.div_add_mod (yj * m + carry) B64
  have a1 : B64 * (R + m * ysV + (yj * m + carry) / B64 + t / B64 % 2) = B64 * (xsV + Bn * k) := by rw [e1]
  have a2 : m * (yj + B64 * ysV) = yj * m + B64 * (m * ysV) := by ring
  have a3 : B64 * (R + m * ysV + (yj * m + carry) / B64 + t / B64 % 2) =
      B64 * R + B64 * (m * ysV) + B64 * ((yj * m + carry) / B64) + B64 * (t / B64 % 2) := by ring
  have a4 : B64 * (xsV + Bn * k) = B64 * xsV + Bn * B64 * k := by ring
  omega

theorem subGo_spec (mul : Option Nat) (hm : mulOf mul < B64) : ∀ (xs ys : Limbs) (borrow carry : Nat),
    xs.length = ys.length → LimbsOk xs → LimbsOk ys → borrow ≤ 1 → carry < B64 →
    ∃ k, valL (subGo mul xs ys borrow carry) + mulOf mul * valL ys + carry + borrow =
        valL xs + B64 ^ xs.length * k ∧
      (subGo mul xs ys borrow carry).length = xs.length ∧ LimbsOk (subGo mul xs ys borrow carry)
  | [], [], borrow, carry, _, _, _, _, _ => by
    exact ⟨carry + borrow, by simp [subGo, valL], rfl, limbsOk_nil⟩
  | [], _ :: _, _, _, h, _, _, _, _ => by simp at h
  | _ :: _, [], _, _, h, _, _, _, _ => by simp at h
  | xj :: xs, yj :: ys, borrow, carry, hl, ox, oy, hb, hc => by
    obtain ⟨hxj, oxs⟩ := limbsOk_cons.mp ox
    obtain ⟨hyj, oys⟩ := limbsOk_cons.mp oy
    simp only [List.length_cons, Nat.add_right_cancel_iff] at hl
    have hPlt : yj * mulOf mul + carry < 2 ^ 128 := by
      have h1 : yj * mulOf mul ≤ (B64 - 1) * (B64 - 1) := Nat.mul_le_mul (by omega) (by omega)
      have : (B64 - 1) * (B64 - 1) + B64 ≤ 2 ^ 128 := by unfold B64; decide
      omega
    have hunf : subGo mul (xj :: xs) (yj :: ys) borrow carry =
        ((xj + 2 ^ 128 - (yj * mulOf mul + carry) % B64 + 2 ^ 128 - borrow) % 2 ^ 128 % B64) ::
          subGo mul xs ys ((xj + 2 ^ 128 - (yj * mulOf mul + carry) % B64 + 2 ^ 128 - borrow) % 2 ^ 128 / B64 % 2)
            ((yj * mulOf mul + carry) / B64) := by
      cases mul with
      | none =>
        have hP' : yj + carry < 2 ^ 128 := by simpa [mulOf] using hPlt
        simp only [subGo, mulOf, Nat.mul_one, Nat.mod_eq_of_lt hP']
      | some q =>
        have hP' : yj * q + carry < 2 ^ 128 := by simpa [mulOf] using hPlt
        simp only [subGo, mulOf, Nat.mod_eq_of_lt hP']
    rw [hunf]
    obtain ⟨s1, s2⟩ := sub_limb xj (yj * mulOf mul + carry) borrow hxj hPlt hb
    rw [← B64_eq] at s1 s2
    have hcout : (yj * mulOf mul + carry) / B64 < B64 := by
      rw [Nat.div_lt_iff_lt_mul B64_pos]
      have : B64 * B64 = 2 ^ 128 := by unfold B64; rw [← Nat.pow_add]
      omega
    obtain ⟨k, e1, e2, e3⟩ := subGo_spec mul hm xs ys _ _ hl oxs oys s2 hcout
    refine ⟨k, ?_, by simp only [List.length_cons]; rw [e2], limbsOk_cons.mpr ⟨Nat.mod_lt _ B64_pos, e3⟩⟩
    simp only [valL, List.length_cons]
    rw [Nat.pow_succ]
    exact sub_step _ _ _ _ _ _ _ _ _ _ _ s1 e1

theorem quot_rem_unique (X Y Q R : Nat) (h : X = Q * Y + R) (hR : R < Y) : X / Y = Q ∧ X % Y = R := by
  have hd : X / Y = Q := by
    apply Nat.div_eq_of_lt_le
    · omega
    · rw [Nat.add_mul, Nat.one_mul]; omega
  refine ⟨hd, ?_⟩
  have := Nat.div_add_mod X Y
  rw [hd, Nat.mul_comm] at this
  omega

theorem q_small (q yn1 xm1 : Nat) (hqd : q * (yn1 + 1) ≤ xm1) (hxm : xm1 < B64) (hy57 : 2 ^ 57 ≤ yn1) :
    q + 1 ≤ yn1 := by
  have h1 : q * 2 ^ 57 ≤ q * (yn1 + 1) := Nat.mul_le_mul_left _ (by omega)
  have hB : B64 = 2 ^ 7 * 2 ^ 57 := by unfold B64; norm_num
  have : q * 2 ^ 57 < 2 ^ 7 * 2 ^ 57 := by omega
  have := Nat.lt_of_mul_lt_mul_right this
  have h7 : (2 : Nat) ^ 7 = 128 := by norm_num
  have h57 : (2 : Nat) ^ 57 = 144115188075855872 := by norm_num
  omega

theorem mulOf_none_lt : mulOf none < B64 := by
  show 1 < B64
  unfold B64; norm_num

theorem getLast_snoc (xs : Limbs) (a : Nat) : (xs ++ [a]).getLast?.getD 0 = a := by simp

/-- one pass `x − m·y` of `large_quorem` when `m·y ≤ x` -/
theorem sub_pass (mul : Option Nat) (hm : mulOf mul < B64) {x y : Limbs} (hl : x.length = y.length)
    (ox : LimbsOk x) (oy : LimbsOk y) (hle : mulOf mul * valL y ≤ valL x) :
    Normalized (normalizeL (subGo mul x y 0 0)) ∧
    valL (normalizeL (subGo mul x y 0 0)) + mulOf mul * valL y = valL x ∧
    (normalizeL (subGo mul x y 0 0)).length ≤ x.length := by
  obtain ⟨k, e1, e2, e3⟩ := subGo_spec mul hm x y 0 0 hl ox oy (by omega) B64_pos
  obtain ⟨n1, n2, n3⟩ := normalizeL_spec _ _ rfl e3
  have hs := valL_lt e3
  have hxlt := valL_lt ox
  rw [e2] at hs n3
  refine ⟨n1, ?_, n3⟩
  rw [n2]
  generalize B64 ^ x.length = Bn at *
  have hk : k = 0 := by
    apply Classical.byContradiction; intro hk
    have : Bn * 1 ≤ Bn * k := Nat.mul_le_mul_left _ (by omega)
    omega
  rw [hk] at e1; omega

/-- **`large_quorem`**: for a numerator below `K` times the divisor, whose top limb exceeds `K` (and is not all ones), the
single-limb quotient estimate `x_top / (y_top + 1)` is the true quotient or one less, and the one correction step makes it exact -/
theorem largeQuoremL_spec {x ys : Limbs} {yn1 : Nat} (hx : Normalized x) (hy : Normalized (ys ++ [yn1]))
    (hlen : x.length ≤ ys.length + 1) (K : Nat) (hxK : valL x < K * valL (ys ++ [yn1])) (hyK : K + 1 ≤ yn1)
    (hyB : yn1 + 1 < B64) :
    ∃ R, largeQuoremL x (ys ++ [yn1]) = some (valL x / valL (ys ++ [yn1]), R) ∧ Normalized R ∧
      valL R = valL x % valL (ys ++ [yn1]) := by
  have hyne : ys ++ [yn1] ≠ [] := by simp
  have hYge := valL_ge hy hyne
  have hylen : (ys ++ [yn1]).length = ys.length + 1 := by simp
  rw [hylen, Nat.add_sub_cancel] at hYge
  have hemp : (ys ++ [yn1]).isEmpty = false := by simp
  unfold largeQuoremL
  rw [hemp]
  simp only [Bool.false_eq_true, if_false]
  rw [if_neg (by rw [hylen]; omega)]
  by_cases hlt : x.length < ys.length + 1
  · rw [if_pos (by rw [hylen]; exact hlt)]
    have hX : valL x < valL (ys ++ [yn1]) := by
      have h1 := valL_lt hx.1
      have : B64 ^ x.length ≤ B64 ^ ys.length := Nat.pow_le_pow_right B64_pos (by omega)
      omega
    exact ⟨x, by rw [Nat.div_eq_of_lt hX], hx, (Nat.mod_eq_of_lt hX).symm⟩
  · rw [if_neg (by rw [hylen]; exact hlt)]
    have hxl : x.length = ys.length + 1 := by omega
    rcases eq_nil_or_snoc x with h0 | ⟨xs, xm1, rfl⟩
    · subst h0; simp at hxl
    simp only [List.length_append, List.length_singleton, Nat.add_right_cancel_iff] at hxl
    rw [getLast_snoc, getLast_snoc]
    have hw : wrap64 (yn1 + 1) = yn1 + 1 := Nat.mod_eq_of_lt hyB
    rw [hw, if_neg (by omega)]
    obtain ⟨oxs, oxm⟩ := limbsOk_append.mp hx.1
    obtain ⟨oys, _⟩ := limbsOk_append.mp hy.1
    have hxm : xm1 < B64 := oxm xm1 (by simp)
    have hXs := valL_lt oxs
    have hYs := valL_lt oys
    rw [hxl] at hXs
    have hXv : valL (xs ++ [xm1]) = valL xs + B64 ^ ys.length * xm1 := by rw [valL_append, hxl]
    have hYv : valL (ys ++ [yn1]) = valL ys + B64 ^ ys.length * yn1 := valL_append _ _
    generalize hq : xm1 / (yn1 + 1) = q at *
    generalize hBn : B64 ^ ys.length = Bn at *
    have hBnpos : 0 < Bn := by rw [← hBn]; exact Nat.pow_pos B64_pos
    have hqd : q * (yn1 + 1) ≤ xm1 := by rw [← hq]; exact Nat.div_mul_le_self _ _
    have hqd2 : xm1 < (q + 1) * (yn1 + 1) := by
      rw [← hq, Nat.mul_comm]; exact Nat.lt_mul_div_succ _ (by omega)
    have hqB : q < B64 := by
      have : q * 1 ≤ q * (yn1 + 1) := Nat.mul_le_mul_left _ (by omega)
      omega
    generalize hX : valL (xs ++ [xm1]) = X at *
    generalize hY : valL (ys ++ [yn1]) = Y at *
    -- `q·Y ≤ X < (q+2)·Y`
    have hqY : q * Y ≤ X := by
      have h1 : q * Y ≤ q * (Bn * (yn1 + 1)) := Nat.mul_le_mul_left _ (by rw [hYv, Nat.mul_add, Nat.mul_one]; omega)
      have h2 : q * (Bn * (yn1 + 1)) = Bn * (q * (yn1 + 1)) := by ring
      have h3 : Bn * (q * (yn1 + 1)) ≤ Bn * xm1 := Nat.mul_le_mul_left _ hqd
      omega
    have hq7 : q + 1 ≤ yn1 := by
      have hYpos : 0 < Y := by
        have : 0 < Bn * yn1 := Nat.mul_pos hBnpos (by omega)
        rw [hYv]; omega
      have : q * Y < K * Y := by omega
      have := Nat.lt_of_mul_lt_mul_right this
      omega
    have hX2 : X < (q + 2) * Y := by
      have h1 : X < Bn * (xm1 + 1) := by rw [hXv, Nat.mul_add, Nat.mul_one]; omega
      have h2 : Bn * (xm1 + 1) ≤ Bn * ((q + 1) * (yn1 + 1)) := Nat.mul_le_mul_left _ hqd2
      have h3 : (q + 1) * (yn1 + 1) ≤ (q + 2) * yn1 := by
        have : (q + 1) * (yn1 + 1) = (q + 1) * yn1 + (q + 1) := by ring
        have : (q + 2) * yn1 = (q + 1) * yn1 + yn1 := by ring
        omega
      have h4 : Bn * ((q + 1) * (yn1 + 1)) ≤ Bn * ((q + 2) * yn1) := Nat.mul_le_mul_left _ h3
      have h5 : Bn * ((q + 2) * yn1) ≤ (q + 2) * Y := by
        have : (q + 2) * (Bn * yn1) ≤ (q + 2) * Y := Nat.mul_le_mul_left _ (by rw [hYv]; omega)
        have : Bn * ((q + 2) * yn1) = (q + 2) * (Bn * yn1) := by ring
        omega
      omega
    have hXB : X < Bn * B64 := by
      have : Bn * (xm1 + 1) ≤ Bn * B64 := Nat.mul_le_mul_left _ hxm
      rw [hXv, Nat.mul_add, Nat.mul_one] at *
      omega
    -- the first pass
    obtain ⟨x1, hx1def, nx1, vx1, lx1⟩ : ∃ x1, (if q ≠ 0 then normalizeL (subGo (some q) (xs ++ [xm1]) (ys ++ [yn1]) 0 0)
        else xs ++ [xm1]) = x1 ∧ Normalized x1 ∧ valL x1 + q * Y = X ∧ x1.length ≤ ys.length + 1 := by
      by_cases hq0 : q = 0
      · rw [if_neg (by simpa using hq0)]
        exact ⟨_, rfl, hx, by rw [hX, hq0]; omega, by simp [hxl]⟩
      · rw [if_pos hq0]
        obtain ⟨n1, n2, n3⟩ := sub_pass (some q) hqB (x := xs ++ [xm1]) (y := ys ++ [yn1]) (by simp [hxl]) hx.1 hy.1
          (by rw [hX, hY]; exact hqY)
        rw [hX, hY] at n2
        exact ⟨_, rfl, n1, n2, by simpa [hxl] using n3⟩
    rw [hx1def]
    rw [compareL_spec nx1 hy, hY]
    have hX1 : valL x1 < 2 * Y := by
      have : (q + 2) * Y = q * Y + 2 * Y := by ring
      omega
    by_cases hge : Y ≤ valL x1
    · have hcmp : compare (valL x1) Y ≠ .lt := by
        intro h; have := Nat.compare_eq_lt.mp h; omega
      rw [if_pos hcmp]
      have hl1 : x1.length = ys.length + 1 := by
        have := normalized_length_le hy nx1 (by rw [hY]; exact hge)
        simp at this; omega
      obtain ⟨n1, n2, n3⟩ := sub_pass none mulOf_none_lt (x := x1) (y := ys ++ [yn1]) (by simp [hl1]) nx1.1 hy.1
        (by rw [hY]; show 1 * Y ≤ valL x1; omega)
      rw [hY] at n2
      have n2' : valL (normalizeL (subGo none x1 (ys ++ [yn1]) 0 0)) + Y = valL x1 := by
        have : mulOf none * Y = Y := by show 1 * Y = Y; omega
        omega
      have hw2 : wrap64 (q + 1) = q + 1 := Nat.mod_eq_of_lt (by
        have hB : B64 = 2 ^ 64 := rfl
        rw [← hB]; omega)
      obtain ⟨d1, d2⟩ := quot_rem_unique X Y (q + 1) (valL x1 - Y) (by
        have : (q + 1) * Y = q * Y + Y := by ring
        omega) (by omega)
      refine ⟨_, by rw [hw2, d1], n1, ?_⟩
      rw [d2]; omega
    · have hcmp : compare (valL x1) Y = .lt := Nat.compare_eq_lt.mpr (by omega)
      rw [if_neg (by simp [hcmp])]
      obtain ⟨d1, d2⟩ := quot_rem_unique X Y q (valL x1) (by omega) (by omega)
      exact ⟨_, by rw [d1], nx1, by rw [d2]⟩

end LexVerif.Proof.Slow
