import LexVerif.Proof.SlowLimbs
import Mathlib.Tactic.Ring
/-!
# Proof.BytesLimbs — the limb-level big-integer operations `byte_comp` uses, specified by the numbers they denote

For **normalised** vectors (64-bit limbs, non-zero top limb; `Proof.SlowLimbs.Normalized`) every operation returns a
normalised vector denoting the expected number, and fails exactly when that number does not fit the capacity:
`small_mul` (`smallMulL_spec`), `compare` (`compareL_spec`), `shl_bits` / `shl` (`shlL_spec`), `large_quorem`
(`largeQuoremL_spec`: the single-limb quotient estimate plus one correction is the true quotient when the divisor's top limb
is large enough), `long_mul` / `large_mul` (`largeMulL_spec`) and `pow` (`powOddL_spec`).
-/
namespace LexVerif.Proof.Slow
open LexVerif.Spec LexVerif.Model LexVerif.Model.Slow LexVerif.Proof.RoundNE

theorem B64_eq : B64 = 2 ^ 64 := rfl

theorem limbsOk_nil : LimbsOk [] := fun _ h => by simp at h
theorem normalized_nil : Normalized [] := ⟨limbsOk_nil, fun l h => by simp at h⟩

theorem limbsOk_cons {a : Nat} {as : Limbs} : LimbsOk (a :: as) ↔ a < B64 ∧ LimbsOk as := by
  unfold LimbsOk
  constructor
  · intro h; exact ⟨h a (List.mem_cons_self ..), fun l hl => h l (List.mem_cons_of_mem _ hl)⟩
  · intro ⟨h1, h2⟩ l hl
    rcases List.mem_cons.mp hl with h | h
    · rw [h]; exact h1
    · exact h2 l h

theorem limbsOk_append {x y : Limbs} : LimbsOk (x ++ y) ↔ LimbsOk x ∧ LimbsOk y := by
  unfold LimbsOk
  constructor
  · intro h; exact ⟨fun l hl => h l (List.mem_append_left _ hl), fun l hl => h l (List.mem_append_right _ hl)⟩
  · intro ⟨h1, h2⟩ l hl
    rcases List.mem_append.mp hl with h | h
    · exact h1 l h
    · exact h2 l h

theorem valL_append' (x y : Limbs) : valL (x ++ y) = valL x + B64 ^ x.length * valL y := by
  induction x with
  | nil => simp [valL]
  | cons a as ih =>
    simp only [List.cons_append, valL, ih, List.length_cons, Nat.pow_succ]
    ring

/-- limbs in range denoting at least `B64^(n−1)` with `n` limbs: the top limb is non-zero -/
theorem normalized_of_ge {x : Limbs} (h : LimbsOk x) (hge : x ≠ [] → B64 ^ (x.length - 1) ≤ valL x) : Normalized x := by
  refine ⟨h, ?_⟩
  intro l hl
  have hne : x ≠ [] := by intro h0; rw [h0] at hl; simp at hl
  intro hz
  subst hz
  obtain ⟨ys, hys⟩ : ∃ ys, x = ys ++ [0] := List.getLast?_eq_some_iff.mp hl
  have hge' := hge hne
  rw [hys, valL_append, Nat.mul_zero, Nat.add_zero, List.length_append, List.length_singleton,
    Nat.add_sub_cancel] at hge'
  have := valL_lt (x := ys) (fun l hl => h l (by rw [hys]; exact List.mem_append_left _ hl))
  omega

/-- a normalised non-empty vector has a positive value -/
theorem valL_pos {x : Limbs} (h : Normalized x) (hne : x ≠ []) : 0 < valL x :=
  Nat.lt_of_lt_of_le (Nat.pow_pos B64_pos) (valL_ge h hne)

theorem valL_eq_zero {x : Limbs} (h : Normalized x) : valL x = 0 ↔ x = [] := by
  constructor
  · intro h0
    apply Classical.byContradiction; intro hne
    have := valL_pos h hne; omega
  · intro h0; subst h0; rfl

/-- normalised vectors are determined by their value -/
theorem normalized_length_le {x y : Limbs} (hx : Normalized x) (hy : Normalized y) (h : valL x ≤ valL y) :
    x.length ≤ y.length := by
  by_cases hne : x = []
  · subst hne; simp
  · have h1 := valL_ge hx hne
    have h2 := valL_lt hy.1
    have h3 : B64 ^ (x.length - 1) < B64 ^ y.length := by omega
    have := (Nat.pow_lt_pow_iff_right (by unfold B64; decide : 1 < B64)).mp h3
    omega

/-! ## `small_mul` -/

/-- **`small_mul`**: value, normal form, and success exactly when the product fits -/
theorem smallMulL_spec {cap : Nat} {x : Limbs} (h : Normalized x) (hlen : x.length ≤ cap) {y : Nat} (hy0 : y ≠ 0)
    (hy : y < B64) :
    (∀ z, smallMulL cap x y = some z → Normalized z ∧ valL z = valL x * y) ∧
    (valL x * y < B64 ^ cap → ∃ z, smallMulL cap x y = some z) := by
  have href := smallMul_refines h hlen hy0 hy
  obtain ⟨h1, h2, h3⟩ := smallMulGo_spec y x 0
  have e : ∀ n, B64 ^ n = 2 ^ (64 * n) := fun n => by unfold B64; rw [← Nat.pow_mul]
  constructor
  · intro z hz
    have hv : valL z = valL x * y := by
      rw [hz, Option.map_some] at href
      unfold smallMul at href
      split at href
      · rename_i h0
        injection href with href
        rw [href, h0, Nat.zero_mul]
      · unfold Slow.guard at href
        split at href
        · injection href with href
        · exact absurd href (by simp)
    refine ⟨?_, hv⟩
    -- normal form
    unfold smallMulL at hz
    dsimp only at hz
    rw [Nat.add_zero] at h1
    by_cases hc : (smallMulGo y x 0).2 = 0
    · rw [if_neg (by simpa using hc)] at hz
      injection hz with hz
      subst hz
      apply normalized_of_ge h3
      intro hne
      rw [h2]
      have hxne : x ≠ [] := by
        intro h0; apply hne; apply List.eq_nil_of_length_eq_zero; rw [h2, h0]; rfl
      have := valL_ge h hxne
      rw [hc, Nat.mul_zero, Nat.add_zero] at h1
      rw [h1]
      calc B64 ^ (x.length - 1) ≤ valL x := this
        _ = valL x * 1 := (Nat.mul_one _).symm
        _ ≤ valL x * y := Nat.mul_le_mul_left _ (by omega)
    · rw [if_pos (by simpa using hc)] at hz
      unfold tryPush at hz
      split at hz
      · injection hz with hz
        subst hz
        have hcl : (smallMulGo y x 0).2 < B64 := by
          apply Classical.byContradiction; intro hcon
          have hx := valL_lt h.1
          have : valL x * y < B64 ^ x.length * B64 :=
            Nat.mul_lt_mul_of_lt_of_le hx (Nat.le_of_lt hy) (by omega)
          have : B64 ^ x.length * B64 ≤ B64 ^ x.length * (smallMulGo y x 0).2 :=
            Nat.mul_le_mul_left _ (by omega)
          omega
        refine ⟨limbsOk_append.mpr ⟨h3, fun l hl => by simp at hl; rw [hl]; exact hcl⟩, ?_⟩
        intro l hl
        simp at hl
        rw [← hl]; exact hc
      · exact absurd hz (by simp)
  · intro hfit
    rw [e] at hfit
    have : limbsOf (valL x * y) ≤ cap := (limbsOf_le_iff _ _).mpr hfit
    unfold smallMul at href
    by_cases h0 : valL x = 0
    · rw [if_pos h0] at href
      cases hz : smallMulL cap x y with
      | none => rw [hz] at href; exact absurd href (by simp)
      | some z => exact ⟨z, rfl⟩
    · rw [if_neg h0] at href
      unfold Slow.guard at href
      have hdec : decide (limbsOf (valL x * y) ≤ cap) = true := by simpa using this
      rw [if_pos hdec] at href
      cases hz : smallMulL cap x y with
      | none => rw [hz] at href; exact absurd href (by simp)
      | some z => exact ⟨z, rfl⟩

/-! ## `compare` -/

theorem eq_nil_or_snoc (l : Limbs) : l = [] ∨ ∃ l' b, l = l' ++ [b] := by
  rcases List.eq_nil_or_concat l with h | ⟨l', b, h⟩
  · exact Or.inl h
  · exact Or.inr ⟨l', b, by rw [h, List.concat_eq_append]⟩

theorem cmp_lt {a b : Nat} (h : a < b) : compare a b = .lt := Nat.compare_eq_lt.mpr h
theorem cmp_gt {a b : Nat} (h : b < a) : compare a b = .gt := Nat.compare_eq_gt.mpr h
theorem cmp_eq {a b : Nat} (h : a = b) : compare a b = .eq := Nat.compare_eq_eq.mpr h

theorem compareTop_spec : ∀ (n : Nat) (xs ys : Limbs), xs.length = n → ys.length = n → LimbsOk xs → LimbsOk ys →
    compareTop xs.reverse ys.reverse = compare (valL xs) (valL ys)
  | 0, xs, ys, hx, hy, _, _ => by
    have := List.eq_nil_of_length_eq_zero hx
    have := List.eq_nil_of_length_eq_zero hy
    subst_vars
    simp [compareTop, valL]
  | n + 1, xs, ys, hx, hy, ox, oy => by
    rcases eq_nil_or_snoc xs with h | ⟨xs', a, rfl⟩
    · subst h; simp at hx
    rcases eq_nil_or_snoc ys with h | ⟨ys', b, rfl⟩
    · subst h; simp at hy
    simp only [List.length_append, List.length_singleton, Nat.add_right_cancel_iff] at hx hy
    have ox' := (limbsOk_append.mp ox).1
    have oy' := (limbsOk_append.mp oy).1
    have ih := compareTop_spec n xs' ys' hx hy ox' oy'
    rw [List.reverse_append, List.reverse_append]
    simp only [List.reverse_singleton, List.singleton_append, compareTop]
    rw [valL_append, valL_append, hx, hy]
    have lx := valL_lt ox'
    have ly := valL_lt oy'
    rw [hx] at lx
    rw [hy] at ly
    have hpos : 0 < B64 ^ n := Nat.pow_pos B64_pos
    rcases Nat.lt_trichotomy a b with hab | hab | hab
    · rw [cmp_lt hab]
      simp only
      symm; apply cmp_lt
      have : B64 ^ n * (a + 1) ≤ B64 ^ n * b := Nat.mul_le_mul_left _ hab
      rw [Nat.mul_add, Nat.mul_one] at this
      omega
    · subst hab
      rw [cmp_eq rfl]
      simp only
      rw [ih]
      rcases Nat.lt_trichotomy (valL xs') (valL ys') with h | h | h
      · rw [cmp_lt h, cmp_lt (by omega)]
      · rw [cmp_eq h, cmp_eq (by omega)]
      · rw [cmp_gt h, cmp_gt (by omega)]
    · rw [cmp_gt hab]
      simp only
      symm; apply cmp_gt
      have : B64 ^ n * (b + 1) ≤ B64 ^ n * a := Nat.mul_le_mul_left _ hab
      rw [Nat.mul_add, Nat.mul_one] at this
      omega

/-- **`compare`** of normalised vectors is the comparison of the numbers -/
theorem compareL_spec {x y : Limbs} (hx : Normalized x) (hy : Normalized y) :
    compareL x y = compare (valL x) (valL y) := by
  unfold compareL
  rcases Nat.lt_trichotomy x.length y.length with h | h | h
  · rw [cmp_lt h]
    simp only
    symm; apply cmp_lt
    have hne : y ≠ [] := by intro h0; subst h0; simp at h
    have h1 := valL_lt hx.1
    have h2 := valL_ge hy hne
    have : B64 ^ x.length ≤ B64 ^ (y.length - 1) := Nat.pow_le_pow_right B64_pos (by omega)
    omega
  · rw [cmp_eq h]
    simp only
    exact compareTop_spec x.length x y rfl h.symm hx.1 hy.1
  · rw [cmp_gt h]
    simp only
    symm; apply cmp_gt
    have hne : x ≠ [] := by intro h0; subst h0; simp at h
    have h1 := valL_lt hy.1
    have h2 := valL_ge hx hne
    have : B64 ^ y.length ≤ B64 ^ (x.length - 1) := Nat.pow_le_pow_right B64_pos (by omega)
    omega

end LexVerif.Proof.Slow
