import LexVerif.Proof.ParseNumberTotal
/-!
# Proof.ParseNumberTotalPhases — the invariant through the phases of `parse_number` (release mode)
-/
namespace LexVerif.Proof.PNTotal
open LexVerif LexVerif.Model LexVerif.Props.C12 LexVerif.Spec

variable {c : Cfg}

theorem first_lt {b : Bytes} {x : Nat} (h : b.first = some x) : b.index < b.slc.length :=
  some_lt (x := x) (by rw [← h]; rfl)

theorem firstIsCased_lt {b : Bytes} {v : Nat} (h : b.firstIsCased v = true) : b.index < b.slc.length := by
  unfold Bytes.firstIsCased at h
  cases hf : b.first with
  | none => simp [hf] at h
  | some x => exact first_lt hf

theorem firstIs_lt {b : Bytes} {v : Nat} {cased : Bool} (h : b.firstIs v cased = true) : b.index < b.slc.length := by
  unfold Bytes.firstIs at h
  split at h
  · exact firstIsCased_lt h
  · unfold Bytes.firstIsUncased at h
    cases hf : b.first with
    | none => simp [hf] at h
    | some x => exact first_lt hf

theorem parseSign_tot (hc : Rel c) (np rq : Bool) (ip ms : String) (b : Bytes) (hv : b.index ≤ b.slc.length) :
    TotP Prod.snd b (parseSign c np rq ip ms b) := by
  unfold parseSign
  split
  · next hf =>
    have hlt := first_lt hf
    split
    · simp only [bstep_rel hc, bind, Except.bind, pure, Except.pure]
      exact step_adv b 1 hlt
    · exact hv
  · next hf =>
    have hlt := first_lt hf
    simp only [bstep_rel hc, bind, Except.bind, pure, Except.pure]
    exact step_adv b 1 hlt
  · split
    · exact hv
    · exact Adv.refl b hv

/-- `read_if_value*` move the cursor only: the digit counts and the slice are unchanged -/
theorem readIfValueCased_csum (hc : Rel c) (k : Comp) (v : Nat) (b : Bytes) (hv : b.index ≤ b.slc.length)
    (hit : Bool) (b' : Bytes) (h : readIfValueCased c k v b = .ok (hit, b')) : csum b' = csum b ∧ b'.slc = b.slc := by
  obtain ⟨x, b1, hp, ha, _, hcs⟩ := peek_tot hc k b hv
  unfold readIfValueCased at h
  simp only [hp, bind, Except.bind] at h
  split at h
  · rw [iterStep_rel hc] at h
    simp only [pure, Except.pure, Except.ok.injEq, Prod.mk.injEq] at h
    obtain ⟨_, rfl⟩ := h
    exact ⟨hcs, ha.slc⟩
  · simp only [pure, Except.pure, Except.ok.injEq, Prod.mk.injEq] at h
    obtain ⟨_, rfl⟩ := h
    exact ⟨hcs, ha.slc⟩

theorem readIfValue_csum (hc : Rel c) (k : Comp) (v : Nat) (cased : Bool) (b : Bytes) (hv : b.index ≤ b.slc.length)
    (hit : Bool) (b' : Bytes) (h : readIfValue c k v cased b = .ok (hit, b')) : csum b' = csum b ∧ b'.slc = b.slc := by
  unfold readIfValue at h
  split at h
  · exact readIfValueCased_csum hc k v b hv hit b' h
  · obtain ⟨x, b1, hp, ha, _, hcs⟩ := peek_tot hc k b hv
    unfold readIfValueUncased at h
    simp only [hp, bind, Except.bind] at h
    split at h
    · split at h
      · rw [iterStep_rel hc] at h
        simp only [pure, Except.pure, Except.ok.injEq, Prod.mk.injEq] at h
        obtain ⟨_, rfl⟩ := h
        exact ⟨hcs, ha.slc⟩
      · simp only [pure, Except.pure, Except.ok.injEq, Prod.mk.injEq] at h
        obtain ⟨_, rfl⟩ := h
        exact ⟨hcs, ha.slc⟩
    · simp only [pure, Except.pure, Except.ok.injEq, Prod.mk.injEq] at h
      obtain ⟨_, rfl⟩ := h
      exact ⟨hcs, ha.slc⟩

/-- holds for BOTH values of the switch `prefixRepair` (the repaired code restores the cursor: `set_cursor(prefix_start)`
with `prefix_start ≤ buffer_length`, counts untouched) -/
theorem prefixPhase_tot (hc : Rel c) (b : Bytes) (hv : b.index ≤ b.slc.length) :
    TotP Prod.snd b (prefixPhase c b) := by
  unfold prefixPhase
  split
  · obtain ⟨zero, b1, hr, ha, _⟩ := readIfValueCased_tot hc .integer 48 b hv
    have hc1 := readIfValueCased_csum hc .integer 48 b hv zero b1 hr
    simp only [hr, bind, Except.bind, pure, Except.pure]
    cases zero with
    | false => exact ha
    | true =>
      simp only [if_true]
      obtain ⟨hit, b2, hr2, ha2⟩ := readIfValue_tot hc .integer c.basePrefix c.caseSensitiveBasePrefix b1 ha.valid'
      have hc2 := readIfValue_csum hc .integer _ _ b1 ha.valid' hit b2 hr2
      simp only [hr2]
      by_cases hR : prefixRepair = true
      · rw [if_pos hR]
        cases hit with
        | true =>
          simp only [if_true]
          split
          · exact (ha.trans ha2).valid
          · exact ha.trans ha2
        | false =>
          have hsl : b2.slc = b.slc := hc2.2.trans hc1.2
          simp only [Bool.false_eq_true, if_false]
          rw [if_pos (by rw [hsl]; exact hv)]
          exact ⟨hsl, hv, Nat.le_refl _, by simp only [csum] at *; omega⟩
      · rw [if_neg hR]
        split
        · exact (ha.trans ha2).valid
        · exact ha.trans ha2
  · exact Adv.refl b hv

theorem sliceTo_ok (start : Bytes) (n : Nat) (tag : String) (h : n ≤ start.slc.length - start.index) :
    sliceTo c start n tag = .ok ((start.slc.drop start.index).take n) := by
  unfold sliceTo Bytes.asSlice
  simp only [List.length_drop]
  rw [if_pos h]; rfl

/-- counted digits never exceed the bytes the cursor moved over -/
theorem count_diff_le {s e : Bytes} (h : Adv s e) : e.currentCount c - s.currentCount c ≤ e.index - s.index := by
  unfold Bytes.currentCount
  have h1 := h.cnt
  have h2 := h.mono
  simp only [csum] at h1
  split <;> omega

theorem log2Radix_bound (r : Nat) : 1 ≤ log2Radix r ∧ log2Radix r ≤ 5 := by
  unfold log2Radix
  repeat' split
  all_goals omega

/-- release build: the mixed-base scaling always succeeds and multiplies the magnitude by at most 5 (= log2 32) -/
theorem scaleExponent_rel (hc : Rel c) (i : Int) : ∃ e, scaleExponent c i = .ok e ∧ e.natAbs ≤ 5 * i.natAbs := by
  unfold scaleExponent
  split
  · exact ⟨_, rfl, by omega⟩
  · simp only [hc.hd, Bool.false_and, Bool.false_eq_true, ↓reduceIte]
    refine ⟨_, rfl, ?_⟩
    have h1 := log2Radix_bound c.mantissaRadix
    have h2 := log2Radix_bound c.exponentBase
    rw [Int.natAbs_tdiv, Int.natAbs_mul]
    calc i.natAbs * (log2Radix c.mantissaRadix).natAbs / (log2Radix c.exponentBase).natAbs
        ≤ i.natAbs * (log2Radix c.mantissaRadix).natAbs := Nat.div_le_self _ _
      _ ≤ i.natAbs * 5 := Nat.mul_le_mul_left _ (by omega)
      _ = 5 * i.natAbs := Nat.mul_comm _ _

/-- what `integerPhase` guarantees -/
def IntOK (c : Cfg) (b : Bytes) (r : Except Err IntPart) : Prop :=
  match r with
  | .ok ip => Adv b ip.start ∧ Adv ip.start ip.byte ∧ ip.nDigits ≤ ip.byte.index - ip.start.index ∧
      ip.integerDigits.length ≤ ip.start.slc.length - ip.start.index ∧
      (c.bytesContiguous = true → ip.nDigits = ip.byte.index - ip.start.index ∧
        ip.integerDigits = (ip.start.slc.drop ip.start.index).take (ip.byte.index - ip.start.index))
  | .error e => ErrOK b.slc.length e

theorem integerPhase_tot (hc : Rel c) (b : Bytes) (hv : b.index ≤ b.slc.length) : IntOK c b (integerPhase c b) := by
  unfold integerPhase
  simp only [bind, Except.bind, pure, Except.pure]
  have h0 := prefixPhase_tot hc b hv
  cases hpp : prefixPhase c b with
  | error e => rw [hpp] at h0; exact h0
  | ok r0 =>
    obtain ⟨isPrefix, byte0⟩ := r0
    rw [hpp] at h0
    have ha0 : Adv b byte0 := h0
    simp only
    obtain ⟨m1, byte1, hr1, ha1⟩ := parse8Digits_tot hc .integer byte0 0 ha0.valid'
    simp only [hr1]
    obtain ⟨ds, byte2, hr2, ha2⟩ := parseDigits_tot hc .integer c.mantissaRadix byte1 ha1.valid'
    simp only [hr2]
    have ha12 := ha1.trans ha2
    split
    · exact (ha0.trans ha12).valid
    · have hb : (if (c.feats.format && !c.iterContiguous Comp.integer) = true then byte2.index - byte0.index
          else byte2.currentCount c - byte0.currentCount c) ≤ byte0.slc.length - byte0.index := by
        have h1 := count_diff_le (c := c) ha12
        have h2 := ha12.valid
        split <;> omega
      generalize hbd : (if (c.feats.format && !c.iterContiguous Comp.integer) = true then byte2.index - byte0.index
          else byte2.currentCount c - byte0.currentCount c) = bD at hb ⊢
      rw [sliceTo_ok byte0 _ _ hb]
      simp only
      split
      · exact ha0.valid
      · refine ⟨ha0, ha12, count_diff_le (c := c) ha12, ?_, ?_⟩
        · simp only [List.length_take, List.length_drop]; omega
        intro hcont
        have hcc : ∀ x : Bytes, x.currentCount c = x.index := by
          intro x; unfold Bytes.currentCount; rw [if_pos hcont]
        simp only [hcc] at hbd ⊢
        have : bD = byte2.index - byte0.index := by
          rw [← hbd]; split <;> rfl
        rw [this]
        exact ⟨trivial, rfl⟩

/-- what `fractionPhase` guarantees -/
def FracOK (byte : Bytes) (r : Except Err FracPart) : Prop :=
  match r with
  | .ok fp => Adv byte fp.byte ∧ (fp.fraction = none → fp.nAfterDot = 0) ∧
      fp.nAfterDot ≤ fp.byte.index - byte.index ∧ fp.exponent.natAbs ≤ 5 * fp.nAfterDot ∧
      (∀ fd, fp.fraction = some fd → fd.length ≤ byte.slc.length)
  | .error e => ErrOK byte.slc.length e

theorem fractionPhase_tot (hc : Rel c) (o : POpts) (byte : Bytes) (m : Nat) (hv : byte.index ≤ byte.slc.length) :
    FracOK byte (fractionPhase c o byte m) := by
  unfold fractionPhase
  split
  · next hdp =>
    have hlt := firstIsCased_lt hdp
    simp only [bstep_rel hc, bind, Except.bind, pure, Except.pure]
    have ha0 : Adv byte { byte with index := byte.index + 1 } := step_adv byte 1 hlt
    obtain ⟨m1, byte1, hr1, ha1⟩ := parse8Digits_tot hc .fraction { byte with index := byte.index + 1 } m ha0.valid'
    simp only [hr1]
    obtain ⟨ds, byte2, hr2, ha2⟩ := parseDigits_tot hc .fraction c.mantissaRadix byte1 ha1.valid'
    simp only [hr2]
    have ha12 := ha1.trans ha2
    have hcd := count_diff_le (c := c) ha12
    simp only at hcd
    have hb : (if (c.feats.format && !c.iterContiguous Comp.fraction) = true then byte2.index - (byte.index + 1)
        else byte2.currentCount c - Bytes.currentCount c { byte with index := byte.index + 1 }) ≤
        byte.slc.length - (byte.index + 1) := by
      have h2 := ha12.valid
      simp only at h2
      split <;> omega
    rw [sliceTo_ok (c := c) { byte with index := byte.index + 1 } _ _ hb]
    simp only
    obtain ⟨e, hse, hbound⟩ := scaleExponent_rel hc
      (-((byte2.currentCount c - Bytes.currentCount c { byte with index := byte.index + 1 } : Nat) : Int))
    simp only [hse]
    split
    · have := (ha0.trans ha12).valid
      exact this
    · refine ⟨ha0.trans ha12, by simp, ?_, ?_, ?_⟩
      · have h1 := ha0.mono; have h2 := ha12.mono
        simp only at h1 h2 ⊢; omega
      · simpa using hbound
      · intro fd hfd
        simp only [Option.some.injEq] at hfd
        subst hfd
        simp only [List.length_take, List.length_drop]; omega
  · exact ⟨Adv.refl byte hv, fun _ => rfl, Nat.zero_le _, by simp, by simp⟩

/-- every digit value `parse_digits` hands to its callback is below the radix (any build mode) -/
theorem parseDigitsLoop_digits_lt (c : Cfg) (k : Comp) (radix : Nat) :
    ∀ (fuel : Nat) (b b' : Bytes) (ds : List Nat), parseDigitsLoop c k radix fuel b = .ok (ds, b') →
      ∀ d ∈ ds, d < radix := by
  intro fuel
  induction fuel with
  | zero => intro b b' ds h; simp [parseDigitsLoop] at h
  | succ n ih =>
    intro b b' ds h
    unfold parseDigitsLoop at h
    cases hp : peek c k b with
    | error e => simp [hp, bind, Except.bind] at h
    | ok r =>
      obtain ⟨v, b1⟩ := r
      simp only [hp, bind, Except.bind] at h
      cases v with
      | none =>
        simp only [pure, Except.pure, Except.ok.injEq, Prod.mk.injEq] at h
        obtain ⟨rfl, _⟩ := h; simp
      | some ch =>
        simp only at h
        cases hdg : charToDigit ch radix with
        | none =>
          simp only [hdg, pure, Except.pure, Except.ok.injEq, Prod.mk.injEq] at h
          obtain ⟨rfl, _⟩ := h; simp
        | some d =>
          simp only [hdg] at h
          have hd : d < radix := by
            unfold charToDigit at hdg
            simp only at hdg
            split at hdg
            · cases hdg; assumption
            · cases hdg
          cases hst : iterStep c k b1 with
          | error e => simp [hst] at h
          | ok b2 =>
            simp only [hst] at h
            cases hrec : parseDigitsLoop c k radix n (Bytes.incCount c k b2) with
            | error e => simp [hrec] at h
            | ok r2 =>
              obtain ⟨ds2, b3⟩ := r2
              simp only [hrec, pure, Except.pure, Except.ok.injEq, Prod.mk.injEq] at h
              obtain ⟨rfl, _⟩ := h
              intro x hx
              simp only [List.mem_cons] at hx
              rcases hx with rfl | hx
              · exact hd
              · exact ih _ _ _ hrec x hx

/-- what `exponentPhase` guarantees (`e0` = the implicit exponent handed in) -/
def ExpOK (c : Cfg) (byte : Bytes) (e0 : Int) (r : Except Err ExpPart) : Prop :=
  match r with
  | .ok ep => Adv byte ep.byte ∧ ep.exponent = e0 + ep.explicit ∧
      ∃ ds : List Nat, (∀ d ∈ ds, d < c.exponentRadix) ∧ ep.explicit.natAbs = foldExponent c.exponentRadix 0 ds
  | .error e => ErrOK byte.slc.length e

theorem exponentPhase_tot (hc : Rel c) (hasExp : Bool) (byte : Bytes) (fr : Option (List Nat)) (e0 : Int)
    (hv : byte.index ≤ byte.slc.length) (hlt : hasExp = true → byte.index < byte.slc.length) :
    ExpOK c byte e0 (exponentPhase c hasExp byte fr e0) := by
  unfold exponentPhase
  split
  · next he =>
    have hlt := hlt he
    simp only [bstep_rel hc, bind, Except.bind, pure, Except.pure]
    have ha0 : Adv byte { byte with index := byte.index + 1 } := step_adv byte 1 hlt
    split
    · show byte.index + 1 - 1 ≤ byte.slc.length
      omega
    · split
      · show byte.index + 1 - 1 ≤ byte.slc.length
        omega
      · have hs := parseSign_tot hc c.noPositiveExponentSign c.requiredExponentSign "InvalidPositiveExponentSign"
          "MissingExponentSign" { byte with index := byte.index + 1 } ha0.valid'
        unfold parseExponentSign
        cases hps : parseSign c c.noPositiveExponentSign c.requiredExponentSign "InvalidPositiveExponentSign"
            "MissingExponentSign" { byte with index := byte.index + 1 } with
        | error e => rw [hps] at hs; exact hs
        | ok r =>
          obtain ⟨negExp, byte1⟩ := r
          rw [hps] at hs
          have ha1 : Adv { byte with index := byte.index + 1 } byte1 := hs
          simp only
          obtain ⟨ds, byte2, hr2, ha2⟩ := parseDigits_tot hc .exponent c.exponentRadix byte1 ha1.valid'
          simp only [hr2]
          have ha := ha0.trans (ha1.trans ha2)
          split
          · exact ha.valid
          · refine ⟨ha, rfl, ds, parseDigitsLoop_digits_lt _ _ _ _ _ _ _ hr2, ?_⟩
            simp only
            split <;> simp
  · split
    · exact hv
    · exact ⟨Adv.refl byte hv, by simp, [], by simp, by simp [foldExponent]⟩

theorem suffixPhase_tot (hc : Rel c) (byte : Bytes) (hv : byte.index ≤ byte.slc.length) :
    ∃ b', suffixPhase c byte = .ok b' ∧ Adv byte b' := by
  unfold suffixPhase
  split
  · next h =>
    simp only [Bool.and_eq_true] at h
    rw [bstep_rel hc]
    exact ⟨_, rfl, step_adv byte 1 (firstIs_lt h.2)⟩
  · exact ⟨byte, rfl, Adv.refl byte hv⟩

end LexVerif.Proof.PNTotal
