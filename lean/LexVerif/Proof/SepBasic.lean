import LexVerif.Props.C12
/-!
# Proof.SepBasic — list slices and what `peek` skips (helpers for `Props/C13.lean`)
-/
namespace LexVerif.Proof.Sep
open LexVerif LexVerif.Model
open LexVerif.Props.C12

/-- bytes `i ≤ · < j` of a buffer -/
def slice (s : List Nat) (i j : Nat) : List Nat := (s.drop i).take (j - i)

theorem slice_self (s : List Nat) (i : Nat) : slice s i i = [] := by simp [slice]

theorem slice_append (s : List Nat) (i j k : Nat) (h1 : i ≤ j) (h2 : j ≤ k) :
    slice s i k = slice s i j ++ slice s j k := by
  unfold slice
  have e : k - i = (j - i) + (k - j) := by omega
  rw [e, List.take_add, List.drop_drop]
  have : i + (j - i) = j := by omega
  rw [this]

theorem slice_one (s : List Nat) (i x : Nat) (h : s[i]? = some x) : slice s i (i + 1) = [x] := by
  unfold slice
  have : i + 1 - i = 1 := by omega
  rw [this]
  rcases List.getElem?_eq_some_iff.mp h with ⟨hl, hx⟩
  rw [List.drop_eq_getElem_cons hl]
  simp [hx]

theorem slice_drop (s : List Nat) (i n : Nat) : slice s i (i + n) = (s.drop i).take n := by
  unfold slice
  have : i + n - i = n := by omega
  rw [this]

/-- the bytes `countSeps` counts are separators -/
theorem countSeps_all (c : Cfg) (l : List Nat) : (l.take (countSeps c l)).all c.isSep = true := by
  induction l with
  | nil => simp [countSeps]
  | cons x xs ih =>
    simp only [countSeps]
    split
    · next h => simp only [List.take_succ_cons, List.all_cons, h, ih, Bool.and_self]
    · simp

/-- … and the byte after them (if any) is not -/
theorem countSeps_stop (c : Cfg) (l : List Nat) (x : Nat) (h : l[countSeps c l]? = some x) : c.isSep x = false := by
  induction l with
  | nil => simp at h
  | cons y ys ih =>
    simp only [countSeps] at h
    split at h
    · simp only [List.getElem?_cons_succ] at h
      exact ih h
    · next hy =>
      simp only [List.getElem?_cons_zero, Option.some.injEq] at h
      subst h
      simpa using hy

/-- `peek_1!` / `peek_n!`: every byte the cursor moves over is the digit separator -/
theorem peekPred_skips (c : Cfg) (p : Pred) (cnt : Nat) (b : Bytes) :
    (slice b.slc b.index (peekPred c p cnt b).2.index).all c.isSep = true := by
  simp only [peekPred]
  cases hv : b.slc[b.index]? with
  | none => simp [slice_self]
  | some v =>
    simp only
    split
    · next hs =>
      split
      · simp only
        split
        · rw [slice_append _ _ (b.index + 1) _ (by omega) (by omega), slice_one _ _ _ hv]
          have : b.index + 1 + countSeps c (List.drop (b.index + 1) b.slc)
              = (b.index + 1) + countSeps c (List.drop (b.index + 1) b.slc) := rfl
          rw [slice_drop]
          simp only [List.cons_append, List.nil_append, List.all_cons, hs, Bool.true_and]
          exact countSeps_all c _
        · rw [slice_one _ _ _ hv]
          simp [hs]
      · simp [slice_self]
    · simp [slice_self]

/-- `DigitsIter::peek` of every component iterator skips nothing but separator bytes -/
theorem peek_skips (c : Cfg) (k : Comp) (b b' : Bytes) (v : Option Nat) (hp : peek c k b = .ok (v, b')) :
    (slice b.slc b.index b'.index).all c.isSep = true := by
  unfold peek at hp
  split at hp
  · simp only [Except.ok.injEq, Prod.mk.injEq] at hp
    obtain ⟨_, rfl⟩ := hp
    simp [slice_self]
  · next p _ =>
    simp only [Except.ok.injEq] at hp
    have := peekPred_skips c p (b.iterCount c k) b
    rw [hp] at this
    exact this
  · cases hp

end LexVerif.Proof.Sep
