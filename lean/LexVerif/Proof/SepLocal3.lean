import LexVerif.Proof.SepLocal2
/-!
# Proof.SepLocal3 — re-scan consistency (`Rescan`) and `PeekStable` for every separator predicate except I+T+C
-/
set_option linter.unusedSimpArgs false
namespace LexVerif.Proof.Sep
open LexVerif LexVerif.Model LexVerif.Spec
open LexVerif.Props.C12

theorem peek_pred (c : Cfg) (k : Comp) (p : Pred) (hk : c.skip k = .pred p) (b : Bytes) :
    peek c k b = .ok (peekPred c p (b.iterCount c k) b) := by
  unfold peek; rw [hk]

theorem parseDigitsLoop_fuel_le (c : Cfg) (k : Comp) (radix : Nat) (hd : c.debug = false) (n m : Nat) (h : n ≤ m)
    (b : Bytes) (ds : List Nat) (e : Bytes) (hr : parseDigitsLoop c k radix n b = .ok (ds, e)) :
    parseDigitsLoop c k radix m b = .ok (ds, e) := by
  induction m with
  | zero => have : n = 0 := by omega
            subst this; exact hr
  | succ q ih =>
    by_cases hq : n ≤ q
    · exact parseDigitsLoop_fuel_succ c k radix hd q b ds e (ih hq)
    · have : n = q + 1 := by omega
      subst this; exact hr

theorem iterCount_inc (c : Cfg) (k : Comp) (hc : c.iterContiguous k = false) (hf : c.feats.format = true)
    (hk : k ≠ .special) (b b' : Bytes) (i i' : Nat)
    (h : Bytes.iterCount c k b' = Bytes.iterCount c k b) :
    Bytes.iterCount c k (Bytes.incCount c k { b' with index := i' })
      = Bytes.iterCount c k (Bytes.incCount c k { b with index := i }) := by
  cases k <;> simp_all [Bytes.iterCount, Bytes.incCount]

/-- **simulation**: the first pass over `s` from inside the region `[a, e)` and the re-scan of the stored region
`R = s[a..e)` from the corresponding position take the same decisions -/
theorem rescan_sim (c : Cfg) (k : Comp) (p : Pred) (hk : c.skip k = .pred p) (hp : p ≠ .itc ∨ Fix.itc = true)
    (hd : c.debug = false)
    (hc : c.iterContiguous k = false) (hf : c.feats.format = true) (hks : k ≠ .special)
    (hsep : ∀ x, c.isSep x = true → charToDigit x c.mantissaRadix = none)
    (s : List Nat) (a e : Nat) (he : e ≤ s.length)
    (hprev : (∀ x, getPrev s a = some x → c.isDigit x = false ∧ c.isSep x = false) ∨
      (∀ x, s[a]? = some x → c.isSep x = false))
    (hnext : ∀ x, s[e]? = some x → c.isDigit x = false ∧ c.isSep x = false) :
    ∀ (fuel : Nat) (bb ee rr : Bytes) (dd : List Nat),
      parseDigitsLoop c k c.mantissaRadix fuel bb = .ok (dd, ee) → bb.slc = s → a ≤ bb.index → ee.index = e →
      rr.slc = slice s a e → rr.index = bb.index - a → Bytes.iterCount c k rr = Bytes.iterCount c k bb →
      ∃ e', parseDigitsLoop c k c.mantissaRadix fuel rr = .ok (dd, e') ∧ e'.index = e - a := by
  intro fuel
  induction fuel with
  | zero => intro bb ee rr dd h; simp [parseDigitsLoop] at h
  | succ n ih =>
    intro bb ee rr dd h hbs hab hee hrs hri hcnt
    have hRlen : (slice s a e).length = e - a := slice_length s a e he
    have hsp0 := parseDigitsLoop_spec c k c.mantissaRadix hd (n + 1) bb ee dd
    -- validity of `bb`: its cursor is at most the final cursor
    have hbe : bb.index ≤ e := by
      by_cases hv : bb.index ≤ bb.slc.length
      · have := (hsp0 hv h).2.2; omega
      · -- an invalid cursor: `peek` returns none and the loop stops where it is
        have hnone : bb.slc[bb.index]? = none := List.getElem?_eq_none (by omega)
        rw [parseDigitsLoop.eq_2, peek_pred c k p hk] at h
        simp only [peekPred, hnone, bind, Except.bind, pure, Except.pure, Except.ok.injEq, Prod.mk.injEq] at h
        rw [← h.2] at hee; omega
    have hvb : Bytes.Valid bb := by unfold Bytes.Valid; rw [hbs]; omega
    have hsp := hsp0 hvb h
    -- the common continuation after `peek`
    have cont : ∀ (i1 : Nat) (v v' : Option Nat) (bb1 rr1 : Bytes), bb1 = { bb with index := i1 } →
        rr1 = { rr with index := i1 - a } → bb.index ≤ i1 → i1 ≤ e → v = s[i1]? →
        v' = (if i1 < e then s[i1]? else none) →
        (match v with
          | none => (pure ([], bb1) : Except Err (List Nat × Bytes))
          | some ch =>
            match charToDigit ch c.mantissaRadix with
            | none => pure ([], bb1)
            | some d => do
              let b ← iterStep c k bb1
              let (ds, b) ← parseDigitsLoop c k c.mantissaRadix n (b.incCount c k)
              pure (d :: ds, b)) = .ok (dd, ee) →
        ∃ e' : Bytes, (match v' with
          | none => (pure ([], rr1) : Except Err (List Nat × Bytes))
          | some ch =>
            match charToDigit ch c.mantissaRadix with
            | none => pure ([], rr1)
            | some d => do
              let b ← iterStep c k rr1
              let (ds, b) ← parseDigitsLoop c k c.mantissaRadix n (b.incCount c k)
              pure (d :: ds, b)) = .ok (dd, e') ∧ e'.index = e - a := by
      intro i1 v v' bb1 rr1 hbb1 hrr1 h1 h2 hv hv' hm
      subst hbb1 hrr1
      by_cases hlt : i1 < e
      · -- inside the region: the byte is a digit (otherwise the first pass would stop before `e`)
        have hin : i1 < s.length := by omega
        rw [if_pos hlt] at hv'
        rw [hv'] ; rw [hv] at hm
        rw [List.getElem?_eq_getElem hin] at hm ⊢
        simp only at hm ⊢
        cases hdg : charToDigit s[i1] c.mantissaRadix with
        | none =>
          simp only [hdg, pure, Except.pure, Except.ok.injEq, Prod.mk.injEq] at hm
          rw [← hm.2] at hee; simp only at hee; omega
        | some d =>
          simp only [hdg, iterStep, stepUnchecked_release c _ _ hd, bind, Except.bind] at hm ⊢
          cases hrec : parseDigitsLoop c k c.mantissaRadix n
              (Bytes.incCount c k { ({ bb with index := i1 } : Bytes) with index := i1 + 1 }) with
          | error er => simp only [hrec] at hm; cases hm
          | ok r2 =>
            obtain ⟨ds2, b2⟩ := r2
            simp only [hrec, pure, Except.pure, Except.ok.injEq, Prod.mk.injEq] at hm
            obtain ⟨rfl, rfl⟩ := hm
            have hi1 := incCount_spec c k { ({ bb with index := i1 } : Bytes) with index := i1 + 1 }
            have hi2 := incCount_spec c k { ({ rr with index := i1 - a } : Bytes) with index := i1 - a + 1 }
            obtain ⟨e', g1, g2⟩ := ih _ _ (Bytes.incCount c k { ({ rr with index := i1 - a } : Bytes) with index := i1 - a + 1 })
              _ hrec (by rw [hi1.1]; exact hbs) (by rw [hi1.2]; simp only; omega) hee
              (by rw [hi2.1]; exact hrs) (by rw [hi2.2, hi1.2]; simp only; omega)
              (iterCount_inc c k hc hf hks _ _ _ _ (by simpa [Bytes.iterCount, hc] using hcnt))
            exact ⟨e', by simp only [g1, pure, Except.pure], g2⟩
      · -- at the end of the region: the first pass stops here, the re-scan sees the end of its buffer
        have hie : i1 = e := by omega
        rw [if_neg hlt] at hv'
        rw [hv']
        simp only [pure, Except.pure]
        have hdd : dd = [] ∧ ee.index = i1 := by
          rw [hv] at hm
          cases hsv : s[i1]? with
          | none =>
            rw [hsv] at hm
            simp only [pure, Except.pure, Except.ok.injEq, Prod.mk.injEq] at hm
            exact ⟨hm.1.symm, by rw [← hm.2]⟩
          | some ch =>
            rw [hsv] at hm
            simp only at hm
            cases hdg : charToDigit ch c.mantissaRadix with
            | none =>
              simp only [hdg, pure, Except.pure, Except.ok.injEq, Prod.mk.injEq] at hm
              exact ⟨hm.1.symm, by rw [← hm.2]⟩
            | some d =>
              exfalso
              simp only [hdg, iterStep, stepUnchecked_release c _ _ hd, bind, Except.bind] at hm
              cases hrec : parseDigitsLoop c k c.mantissaRadix n
                  (Bytes.incCount c k { ({ bb with index := i1 } : Bytes) with index := i1 + 1 }) with
              | error er => simp only [hrec] at hm; cases hm
              | ok r2 =>
                obtain ⟨ds2, b2⟩ := r2
                simp only [hrec, pure, Except.pure, Except.ok.injEq, Prod.mk.injEq] at hm
                obtain ⟨_, rfl⟩ := hm
                have hi1 := incCount_spec c k { ({ bb with index := i1 } : Bytes) with index := i1 + 1 }
                have hin : i1 < s.length := (List.getElem?_eq_some_iff.mp hsv).1
                have := (parseDigitsLoop_spec c k c.mantissaRadix hd n _ _ _
                  (by unfold Bytes.Valid; rw [hi1.1, hi1.2]; simp only; rw [hbs]; omega) hrec).2.2
                rw [hi1.2] at this; simp only at this; omega
        exact ⟨_, by rw [hdd.1], by simp only; omega⟩
    -- unfold one step of both loops
    rw [parseDigitsLoop.eq_2, peek_pred c k p hk] at h ⊢
    rw [hcnt]
    simp only [bind, Except.bind] at h ⊢
    by_cases hlt : bb.index < e
    · have hin : bb.index < s.length := by omega
      have hgs : bb.slc[bb.index]? = some s[bb.index] := by rw [hbs]; exact List.getElem?_eq_getElem hin
      have hgr : rr.slc[rr.index]? = some s[bb.index] := by
        rw [hrs, hri, slice_get s a e (bb.index - a) (by omega)]
        have : a + (bb.index - a) = bb.index := by omega
        rw [this]; exact List.getElem?_eq_getElem hin
      cases hs : c.isSep s[bb.index] with
      | false =>
        simp only [peekPred, hgs, hgr, hs, Bool.false_eq_true, if_false] at h ⊢
        exact cont bb.index (some s[bb.index]) (some s[bb.index]) bb rr rfl (by rw [← hri]) (Nat.le_refl _) (by omega)
          (by rw [List.getElem?_eq_getElem hin]) (by rw [if_pos hlt, List.getElem?_eq_getElem hin]) h
      | true =>
        -- a separator inside the region: the first pass skipped it (else it would have stopped here) …
        by_cases hh : p.holds c (nbr c bb.slc bb.index) (bb.iterCount c k == 0) = true
        · -- … and so does the re-scan
          have hw := nbr_slice c s a e (bb.index - a) (by omega) he
            (by
              rcases hprev with h1 | h2
              · exact Or.inl h1
              · right
                refine ⟨?_, h2⟩
                -- `s[a]` is no separator, the current byte is: the position is behind `a`
                by_cases h0 : bb.index = a
                · exfalso
                  have hg : s[a]? = s[bb.index]? := by rw [h0]
                  rw [List.getElem?_eq_getElem hin] at hg
                  have := h2 s[bb.index] hg
                  rw [hs] at this; cases this
                · omega)
            hnext
          have hab' : a + (bb.index - a) = bb.index := by omega
          rw [hab'] at hw
          have hh' : p.holds c (nbr c rr.slc rr.index) (bb.iterCount c k == 0) = true := by
            rw [hrs, hri]
            exact holds_weaker c p hp _ _ _ hw.1 hw.2.1 hw.2.2.1 hw.2.2.2 (by rw [hbs] at hh; exact hh)
          simp only [peekPred, hgs, hgr, hs, if_true, hh, hh'] at h ⊢
          -- the new cursors correspond
          by_cases hcons : p.consecutive = true
          · simp only [hcons, if_true] at h ⊢
            have hcs : countSeps c (rr.slc.drop (rr.index + 1)) = min (countSeps c (bb.slc.drop (bb.index + 1))) (e - (bb.index + 1)) := by
              rw [hrs, hri, slice_drop_eq, hbs]
              have : a + (bb.index - a + 1) = bb.index + 1 := by omega
              rw [this]
              unfold slice
              exact countSeps_take c _ _
            -- the first-pass cursor after the skip is at most `e`
            have hle1 : bb.index + 1 + countSeps c (bb.slc.drop (bb.index + 1)) ≤ e := by
              -- the loop continues from there and ends at `e`
              cases hsv : bb.slc[bb.index + 1 + countSeps c (List.drop (bb.index + 1) bb.slc)]? with
              | none =>
                simp only [hsv, pure, Except.pure, Except.ok.injEq, Prod.mk.injEq] at h
                rw [← h.2] at hee; simp only at hee; omega
              | some ch =>
                simp only [hsv] at h
                cases hdg : charToDigit ch c.mantissaRadix with
                | none =>
                  simp only [hdg, pure, Except.pure, Except.ok.injEq, Prod.mk.injEq] at h
                  rw [← h.2] at hee; simp only at hee; omega
                | some d =>
                  simp only [hdg, iterStep, stepUnchecked_release c _ _ hd] at h
                  cases hrec : parseDigitsLoop c k c.mantissaRadix n (Bytes.incCount c k
                      { ({ bb with index := bb.index + 1 + countSeps c (List.drop (bb.index + 1) bb.slc) } : Bytes) with
                        index := bb.index + 1 + countSeps c (List.drop (bb.index + 1) bb.slc) + 1 }) with
                  | error er => simp only [hrec] at h; cases h
                  | ok r2 =>
                    obtain ⟨ds2, b2⟩ := r2
                    simp only [hrec, pure, Except.pure, Except.ok.injEq, Prod.mk.injEq] at h
                    obtain ⟨_, rfl⟩ := h
                    have hi1 := incCount_spec c k { ({ bb with index := bb.index + 1 + countSeps c (List.drop (bb.index + 1) bb.slc) } : Bytes) with
                      index := bb.index + 1 + countSeps c (List.drop (bb.index + 1) bb.slc) + 1 }
                    have hin2 := (List.getElem?_eq_some_iff.mp hsv).1
                    have := (parseDigitsLoop_spec c k c.mantissaRadix hd n _ _ _
                      (by unfold Bytes.Valid; rw [hi1.1, hi1.2]; simp only; omega) hrec).2.2
                    rw [hi1.2] at this; simp only at this; omega
            have hmin : min (countSeps c (bb.slc.drop (bb.index + 1))) (e - (bb.index + 1))
                = countSeps c (bb.slc.drop (bb.index + 1)) := by omega
            rw [hcs, hmin]
            have hidx : rr.index + 1 + countSeps c (bb.slc.drop (bb.index + 1))
                = bb.index + 1 + countSeps c (bb.slc.drop (bb.index + 1)) - a := by rw [hri]; omega
            rw [hidx]
            refine cont (bb.index + 1 + countSeps c (bb.slc.drop (bb.index + 1))) _ _ _ _ rfl rfl (by omega) hle1 (by rw [hbs]) ?_ h
            rw [hrs]
            by_cases hl2 : bb.index + 1 + countSeps c (bb.slc.drop (bb.index + 1)) < e
            · rw [if_pos hl2, slice_get s a e _ (by omega)]; congr 1; omega
            · rw [if_neg hl2, slice_get_none s a e _ (by omega)]
          · simp only [hcons, Bool.false_eq_true, if_false] at h ⊢
            have hidx : rr.index + 1 = bb.index + 1 - a := by rw [hri]; omega
            rw [hidx]
            refine cont (bb.index + 1) _ _ _ _ rfl rfl (by omega) (by omega) (by rw [hbs]) ?_ h
            rw [hrs]
            by_cases hl2 : bb.index + 1 < e
            · rw [if_pos hl2, slice_get s a e _ (by omega)]; congr 1; omega
            · rw [if_neg hl2, slice_get_none s a e _ (by omega)]
        · -- not skipped: the first pass returns the separator, which is no digit, and stops before `e`
          exfalso
          simp only [peekPred, hgs, hs, if_true, hh, Bool.false_eq_true, if_false, hsep _ hs, pure, Except.pure,
            Except.ok.injEq, Prod.mk.injEq] at h
          rw [← h.2] at hee; omega
    · -- the first pass starts at the end of the region
      have hie : bb.index = e := by omega
      have hrn : rr.slc[rr.index]? = none := by
        rw [hrs, hri]; exact slice_get_none s a e _ (by omega)
      simp only [peekPred, hrn, pure, Except.pure]
      have hdd : dd = [] := by
        have := hsp.2.2
        cases dd with
        | nil => rfl
        | cons d ds' => simp only [List.length_cons] at this; omega
      exact ⟨rr, by rw [hdd], by rw [hri]; omega⟩

theorem contig_of_pred (c : Cfg) (k : Comp) (p : Pred) (hk : c.skip k = .pred p) : c.iterContiguous k = false := by
  cases hc : c.iterContiguous k
  · rfl
  · rw [skip_of_contig c k hc] at hk; cases hk

/-- **re-scan consistency for every separator predicate except I+T+C** -/
theorem rescan_pred (c : Cfg) (k : Comp) (p : Pred) (hk : c.skip k = .pred p) (hp : p ≠ .itc ∨ Fix.itc = true)
    (hd : c.debug = false)
    (hreach : ∀ k, c.skip k ≠ .unreachable) (hf : c.feats.format = true) (hks : k ≠ .special)
    (hsep : ∀ x, c.isSep x = true → charToDigit x c.mantissaRadix = none) : Rescan c k := by
  intro hc b e ds hR h0 hv hprev hnext
  have hrun := hR.run
  unfold parseDigits at hrun
  have hnew : Bytes.iterCount c k (Bytes.new (slice b.slc b.index e.index)) = Bytes.iterCount c k b := by
    rw [h0]; cases k <;> simp_all [Bytes.iterCount, Bytes.new]
  obtain ⟨e', g1, g2⟩ := rescan_sim c k p hk hp hd hc hf hks hsep b.slc b.index e.index hR.valid hprev hnext
    (b.slc.length + 1) b e (Bytes.new (slice b.slc b.index e.index)) ds hrun rfl (Nat.le_refl _) rfl rfl
    (by simp [Bytes.new]) hnew
  obtain ⟨ds', e'', hrun', _⟩ := PNTotal.parseDigits_tot ⟨hd, hreach⟩ k c.mantissaRadix
    (Bytes.new (slice b.slc b.index e.index)) (by simp [Bytes.new])
  refine ⟨ds', e'', hrun', ?_⟩
  unfold parseDigits at hrun'
  have hlen : (slice b.slc b.index e.index).length = e.index - b.index := slice_length _ _ _ hR.valid
  have := parseDigitsLoop_fuel_le c k c.mantissaRadix hd _ (b.slc.length + 1)
    (by simp only [new_slc, hlen]; have := hR.valid; omega) _ _ _ hrun'
  rw [g1] at this
  simp only [Except.ok.injEq, Prod.mk.injEq] at this
  rw [← this.2, g2, hlen]

/-- a non-consecutive predicate that skips a separator although the next byte is a separator too does not skip that
next one when asked again (only `il` before the first digit does the former) -/
theorem holds_next_sep (c : Cfg) (p : Pred) (hnc : p.consecutive = false) (n n2 : Nbr) (first : Bool) (x v0 : Nat)
    (hn : n.next = some x) (hsx : c.isSep x = true) (hdx : c.isDigit x = false) (hv0s : c.isSep v0 = true)
    (hv0d : c.isDigit v0 = false) (hp2 : n2.prev = some v0) (h : p.holds c n first = true) :
    p.holds c n2 first = false := by
  obtain ⟨p1, x1, pc1, xc1⟩ := n
  obtain ⟨p2, x2, pc2, xc2⟩ := n2
  simp only at hn hp2
  subst hn hp2
  cases p <;> cases first <;> simp_all [Pred.holds, Pred.consecutive]

/-- a separator that a skip iterator returned is returned again by a second `peek` -/
theorem peekStable_pred (c : Cfg) (k : Comp) (p : Pred) (hk : c.skip k = .pred p)
    (hsepd : ∀ x, c.isSep x = true → c.isDigit x = false) : PeekStable c k := by
  intro b b1 x hv hp hs
  have hc := contig_of_pred c k p hk
  rw [peek_pred c k p hk] at hp ⊢
  simp only [Except.ok.injEq] at hp ⊢
  unfold peekPred at hp
  cases hg : b.slc[b.index]? with
  | none => rw [hg] at hp; simp only [Prod.mk.injEq] at hp; cases hp.1
  | some v0 =>
    rw [hg] at hp
    simp only at hp
    by_cases hs0 : c.isSep v0 = true
    · by_cases hh : p.holds c (nbr c b.slc b.index) (b.iterCount c k == 0) = true
      · simp only [hs0, hh, if_true] at hp
        by_cases hcons : p.consecutive = true
        · -- a consecutive predicate lands behind the whole run of separators
          exfalso
          simp only [hcons, if_true, Prod.mk.injEq] at hp
          have := countSeps_stop c (b.slc.drop (b.index + 1)) x (by rw [List.getElem?_drop]; rw [← hp.1])
          rw [hs] at this; cases this
        · have hcons' : p.consecutive = false := by simpa using hcons
          simp only [hcons', Bool.false_eq_true, if_false, Prod.mk.injEq] at hp
          obtain ⟨hx, rfl⟩ := hp
          -- the byte behind is a separator again; asked there, the predicate says no
          have hcnt : Bytes.iterCount c k ({ b with index := b.index + 1 } : Bytes) = Bytes.iterCount c k b := by
            cases k <;> simp [Bytes.iterCount, hc]
          have hno : p.holds c (nbr c b.slc (b.index + 1)) (b.iterCount c k == 0) = false :=
            holds_next_sep c p hcons' (nbr c b.slc b.index) (nbr c b.slc (b.index + 1)) _ x v0
              (by simp [nbr, hx]) hs (hsepd x hs) hs0 (hsepd v0 hs0) (by simp [nbr, getPrev, hg]) hh
          unfold peekPred
          simp only [hx, hs, if_true, hcnt, hno, Bool.false_eq_true, if_false]
      · simp only [hs0, hh, if_true, Bool.false_eq_true, if_false, Prod.mk.injEq] at hp
        obtain ⟨hx, rfl⟩ := hp
        unfold peekPred
        simp only [hg, hs0, hh, if_true, Bool.false_eq_true, if_false, hx, ite_self]
    · simp only [hs0, Bool.false_eq_true, if_false, Prod.mk.injEq] at hp
      obtain ⟨hx, rfl⟩ := hp
      simp only [Option.some.injEq] at hx
      subst hx
      exact absurd hs hs0

end LexVerif.Proof.Sep
