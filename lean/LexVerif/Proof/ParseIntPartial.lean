import LexVerif.Spec.ParseInt
/-!
# Proof.ParseIntPartial — complete vs. partial on the specification scan (helper lemmas for C11, integers)

Everything here is about `Spec.parseInt` / `Spec.scanDigits`; `Props/C11Int.lean` transfers the results to the
model of `algorithm.rs` through C04 (`parseInt_model_eq_spec`).
-/
namespace LexVerif.Proof.ParseIntPartial
open LexVerif.Spec

/-! ## the sign prefix, as functions of the input -/

/-- number of bytes consumed as a sign: 1 for a leading `+`, 1 for a leading `-` of a signed type, else 0 -/
def signLen (t : IntTy) (s : List Nat) : Nat :=
  if s.head? = some 43 then 1 else if s.head? = some 45 ∧ t.signed = true then 1 else 0

/-- the sign that was consumed is a minus -/
def isNeg (t : IntTy) (s : List Nat) : Bool := decide (s.head? = some 45 ∧ t.signed = true)

theorem signLen_le_one (t : IntTy) (s : List Nat) : signLen t s ≤ 1 := by
  unfold signLen; split
  · exact Nat.le_refl _
  · split <;> omega

theorem signLen_le_length (t : IntTy) (s : List Nat) : signLen t s ≤ s.length := by
  cases s with
  | nil => simp [signLen]
  | cons c cs => have := signLen_le_one t (c :: cs); simp only [List.length_cons]; omega

theorem signLen_eq_one_iff (t : IntTy) (s : List Nat) :
    signLen t s = 1 ↔ (s.head? = some 43 ∨ (s.head? = some 45 ∧ t.signed = true)) := by
  unfold signLen
  by_cases h1 : s.head? = some 43
  · simp [h1]
  · by_cases h2 : s.head? = some 45 ∧ t.signed = true
    · simp [h2]
    · simp [h1, h2]

theorem signLen_eq_zero_iff (t : IntTy) (s : List Nat) :
    signLen t s = 0 ↔ ¬ (s.head? = some 43 ∨ (s.head? = some 45 ∧ t.signed = true)) := by
  have h1 := signLen_eq_one_iff t s
  have h2 := signLen_le_one t s
  constructor
  · intro h hc; have := h1.2 hc; omega
  · intro h
    have : signLen t s ≠ 1 := fun hc => h (h1.1 hc)
    omega

/-- explicit reading of the exclusion -/
theorem signLen_lt_iff (t : IntTy) (s : List Nat) (n : Nat) (hn : 0 < n) :
    signLen t s < n ↔ (2 ≤ n ∨ ¬ (s.head? = some 43 ∨ (s.head? = some 45 ∧ t.signed = true))) := by
  have h0 := signLen_eq_zero_iff t s
  have h1 := signLen_le_one t s
  constructor
  · intro h
    by_cases h2 : 2 ≤ n
    · exact .inl h2
    · exact .inr (h0.1 (by omega))
  · rintro (h | h)
    · omega
    · have := h0.2 h; omega

theorem take_bytes (s : List Nat) (hs : ∀ b ∈ s, b < 256) (n : Nat) : ∀ b ∈ s.take n, b < 256 :=
  fun b hb => hs b (List.mem_of_mem_take hb)

/-- `Spec.parseInt` with the sign match written as functions of the input -/
theorem parseInt_eq (t : IntTy) (r : Nat) (p : Bool) (s : List Nat) :
    parseInt t r p s =
      if s.drop (signLen t s) = [] then .empty (signLen t s)
      else scanDigits r (t.maxMag (isNeg t s)) (isNeg t s) p (s.drop (signLen t s)) 0 (signLen t s) := by
  cases s with
  | nil => simp [parseInt, signLen]
  | cons c cs =>
    by_cases h43 : c = 43
    · subst h43
      cases cs <;> simp [parseInt, signLen, isNeg]
    · by_cases h45 : c = 45
      · subst h45
        cases hs : t.signed
        · simp [parseInt, signLen, isNeg, hs]
        · cases cs <;> simp [parseInt, signLen, isNeg, hs]
      · have : parseInt t r p (c :: cs) = scanDigits r (t.maxMag false) false p (c :: cs) 0 0 := by
          unfold parseInt
          split
          next neg rest i heq =>
            split at heq
            · rename_i heq2; cases heq2; exact absurd rfl h43
            · rename_i heq2; cases heq2; exact absurd rfl h45
            · cases heq; rfl
        simp [this, signLen, isNeg, h43, h45]

/-! ## `scanDigits`: complete vs. partial -/

/-- a complete scan that succeeds consumed everything, and the partial scan returns the same -/
theorem scan_complete_ok (r mx : Nat) (neg : Bool) (cs : List Nat) (acc i : Nat) (v : Int) (n : Nat) :
    scanDigits r mx neg false cs acc i = .ok v n →
      n = i + cs.length ∧ scanDigits r mx neg true cs acc i = .ok v n := by
  induction cs generalizing acc i with
  | nil => simp only [scanDigits, PRes.ok.injEq, List.length_nil, Nat.add_zero]; intro h; exact ⟨h.2.symm, h⟩
  | cons c cs ih =>
    simp only [scanDigits]
    cases digitVal r c with
    | none => simp
    | some d =>
      simp only
      split
      · cases neg <;> simp
      · intro h
        have := ih _ _ h
        simp only [List.length_cons]; constructor
        · omega
        · exact this.2

/-- the partial scan's count lies between the start index and the end of the input -/
theorem scan_partial_ok_bounds (r mx : Nat) (neg p : Bool) (cs : List Nat) (acc i : Nat) (v : Int) (n : Nat) :
    scanDigits r mx neg p cs acc i = .ok v n → i ≤ n ∧ n ≤ i + cs.length := by
  induction cs generalizing acc i with
  | nil => simp [scanDigits]; omega
  | cons c cs ih =>
    simp only [scanDigits]
    cases digitVal r c with
    | none => cases p <;> simp <;> omega
    | some d =>
      simp only
      split
      · cases neg <;> simp
      · intro h
        have := ih _ _ h
        simp only [List.length_cons]; omega

/-- a partial scan that consumed everything is a successful complete scan -/
theorem scan_partial_full (r mx : Nat) (neg : Bool) (cs : List Nat) (acc i : Nat) (v : Int) :
    scanDigits r mx neg true cs acc i = .ok v (i + cs.length) →
      scanDigits r mx neg false cs acc i = .ok v (i + cs.length) := by
  induction cs generalizing acc i with
  | nil => simp [scanDigits]
  | cons c cs ih =>
    simp only [scanDigits]
    cases digitVal r c with
    | none => simp
    | some d =>
      simp only
      split
      · cases neg <;> simp
      · intro h
        have e : i + (c :: cs).length = (i + 1) + cs.length := by simp only [List.length_cons]; omega
        rw [e] at h ⊢
        exact ih _ _ h

/-- **prefix lemma**: the complete scan of exactly the bytes the partial scan consumed succeeds with the same value -/
theorem scan_partial_prefix (r mx : Nat) (neg : Bool) (cs : List Nat) (acc i : Nat) (v : Int) (n : Nat) :
    scanDigits r mx neg true cs acc i = .ok v n →
      scanDigits r mx neg false (cs.take (n - i)) acc i = .ok v n := by
  induction cs generalizing acc i with
  | nil => simp [scanDigits]
  | cons c cs ih =>
    intro h
    have hb := scan_partial_ok_bounds _ _ _ _ _ _ _ _ _ h
    revert h
    simp only [scanDigits]
    cases hd : digitVal r c with
    | none =>
      simp only [if_true]
      intro h; cases h
      simp [scanDigits]
    | some d =>
      simp only
      split
      · cases neg <;> simp
      · rename_i hov
        intro h
        have hb2 := scan_partial_ok_bounds _ _ _ _ _ _ _ _ _ h
        have e : n - i = (n - (i + 1)) + 1 := by omega
        rw [e, List.take_succ_cons]
        simp only [scanDigits, hd, if_neg hov]
        exact ih _ _ h

/-- the partial scan never reports `InvalidDigit` -/
theorem scan_partial_ne_invalidDigit (r mx : Nat) (neg : Bool) (cs : List Nat) (acc i k : Nat) :
    scanDigits r mx neg true cs acc i ≠ .invalidDigit k := by
  induction cs generalizing acc i with
  | nil => simp [scanDigits]
  | cons c cs ih =>
    simp only [scanDigits]
    cases digitVal r c with
    | none => simp
    | some d =>
      simp only
      split
      · cases neg <;> simp
      · exact ih _ _

/-- every result of the complete scan other than `InvalidDigit` is also the partial scan's result -/
theorem scan_complete_eq_partial (r mx : Nat) (neg : Bool) (cs : List Nat) (acc i : Nat) :
    (∀ k, scanDigits r mx neg false cs acc i ≠ .invalidDigit k) →
      scanDigits r mx neg true cs acc i = scanDigits r mx neg false cs acc i := by
  induction cs generalizing acc i with
  | nil => simp [scanDigits]
  | cons c cs ih =>
    simp only [scanDigits]
    cases digitVal r c with
    | none => simp
    | some d =>
      simp only
      split
      · intro _; rfl
      · exact ih _ _

/-- `InvalidDigit(k)` of the complete scan is `Ok(_, k)` with `k` short of the end for the partial scan -/
theorem scan_complete_invalidDigit (r mx : Nat) (neg : Bool) (cs : List Nat) (acc i k : Nat) :
    scanDigits r mx neg false cs acc i = .invalidDigit k →
      k < i + cs.length ∧ ∃ v, scanDigits r mx neg true cs acc i = .ok v k := by
  induction cs generalizing acc i with
  | nil => simp [scanDigits]
  | cons c cs ih =>
    simp only [scanDigits]
    cases digitVal r c with
    | none => simp only [if_true, List.length_cons]; intro h; cases h; exact ⟨by omega, _, rfl⟩
    | some d =>
      simp only
      split
      · cases neg <;> simp
      · intro h
        have := ih _ _ h
        simp only [List.length_cons]; exact ⟨by omega, this.2⟩

/-! ## `Spec.parseInt`: complete vs. partial -/

theorem drop_length_add (t : IntTy) (s : List Nat) : signLen t s + (s.drop (signLen t s)).length = s.length := by
  have := signLen_le_length t s
  simp only [List.length_drop]; omega

/-- complete `Ok(v)` carries the input length and the partial parser returns `Ok(v, length)` -/
theorem spec_complete_ok (t : IntTy) (r : Nat) (s : List Nat) (v : Int) (n : Nat) :
    parseInt t r false s = .ok v n → n = s.length ∧ parseInt t r true s = .ok v n := by
  rw [parseInt_eq, parseInt_eq]
  split
  · simp
  · intro h
    have := scan_complete_ok _ _ _ _ _ _ _ _ h
    have e := drop_length_add t s
    exact ⟨by omega, this.2⟩

/-- partial `Ok(v, length)` is complete `Ok(v)` -/
theorem spec_partial_full (t : IntTy) (r : Nat) (s : List Nat) (v : Int) :
    parseInt t r true s = .ok v s.length → parseInt t r false s = .ok v s.length := by
  rw [parseInt_eq, parseInt_eq]
  split
  · simp
  · intro h
    have e := drop_length_add t s
    rw [← e] at h ⊢
    exact scan_partial_full _ _ _ _ _ _ _ h

/-- the partial count is at least the sign length and at most the input length -/
theorem spec_partial_bounds (t : IntTy) (r : Nat) (p : Bool) (s : List Nat) (v : Int) (n : Nat) :
    parseInt t r p s = .ok v n → signLen t s ≤ n ∧ n ≤ s.length := by
  rw [parseInt_eq]
  split
  · simp
  · intro h
    have := scan_partial_ok_bounds _ _ _ _ _ _ _ _ _ h
    have e := drop_length_add t s
    omega

theorem signLen_take (t : IntTy) (s : List Nat) (n : Nat) (hn : 0 < n) : signLen t (s.take n) = signLen t s := by
  cases s with
  | nil => simp
  | cons c cs =>
    obtain ⟨m, rfl⟩ : ∃ m, n = m + 1 := ⟨n - 1, by omega⟩
    simp [signLen]

theorem isNeg_take (t : IntTy) (s : List Nat) (n : Nat) (hn : 0 < n) : isNeg t (s.take n) = isNeg t s := by
  cases s with
  | nil => simp
  | cons c cs =>
    obtain ⟨m, rfl⟩ : ∃ m, n = m + 1 := ⟨n - 1, by omega⟩
    simp [isNeg]

/-- **prefix property on the specification**: if the partial parser consumed more than the sign, the complete
parser on exactly the consumed bytes returns the same value -/
theorem spec_partial_prefix (t : IntTy) (r : Nat) (s : List Nat) (v : Int) (n : Nat) :
    parseInt t r true s = .ok v n → signLen t s < n → parseInt t r false (s.take n) = .ok v n := by
  intro h hn
  have hb := spec_partial_bounds _ _ _ _ _ _ h
  revert h
  have hn0 : 0 < n := by omega
  rw [parseInt_eq, parseInt_eq, signLen_take t s n hn0, isNeg_take t s n hn0]
  split
  · simp
  · intro h
    have e : (s.take n).drop (signLen t s) = (s.drop (signLen t s)).take (n - signLen t s) := by
      rw [List.drop_take]
    rw [e, if_neg]
    · exact scan_partial_prefix _ _ _ _ _ _ _ _ h
    · intro hc
      have := congrArg List.length hc
      simp only [List.length_take, List.length_drop, List.length_nil] at this
      omega

/-- when only the sign was consumed, the complete parser on the consumed bytes is `Empty(1)` -/
theorem spec_sign_only_empty (t : IntTy) (r : Nat) (p : Bool) (s : List Nat) (h : signLen t s = 1) :
    parseInt t r p (s.take 1) = .empty 1 := by
  rw [parseInt_eq, signLen_take t s 1 (by omega), h]
  simp

/-- the partial parser returns `Ok(0, 1)` on sign + non-digit -/
theorem spec_partial_sign_nondigit (t : IntTy) (r : Nat) (s : List Nat) (c : Nat)
    (h : signLen t s = 1) (hc : s[1]? = some c) (hd : digitVal r c = none) :
    parseInt t r true s = .ok 0 1 := by
  rw [parseInt_eq, h]
  match s, hc with
  | a :: b :: cs, hc =>
    simp only [List.getElem?_cons_succ, List.getElem?_cons_zero, Option.some.injEq] at hc
    subst hc
    simp [scanDigits, hd]

/-- … and only then: partial `Ok(v, 1)` after a consumed sign means `v = 0` and a non-digit second byte -/
theorem spec_partial_sign_only (t : IntTy) (r : Nat) (s : List Nat) (v : Int)
    (h : signLen t s = 1) : parseInt t r true s = .ok v 1 → v = 0 ∧ ∃ c, s[1]? = some c ∧ digitVal r c = none := by
  rw [parseInt_eq, h]
  split
  · simp
  · rename_i hne
    match s, hne with
    | [a], hne => simp at hne
    | a :: b :: cs, _ =>
      simp only [List.drop_succ_cons, List.drop_zero, scanDigits]
      cases hd : digitVal r b with
      | none =>
        simp only [if_true]
        intro h; cases h
        refine ⟨?_, b, by simp, hd⟩
        cases isNeg t (a :: b :: cs) <;> simp
      | some d =>
        simp only
        split
        · cases isNeg t (a :: b :: cs) <;> simp
        · intro h
          have := scan_partial_ok_bounds _ _ _ _ _ _ _ _ _ h
          omega

/-- the partial parser never reports `InvalidDigit` -/
theorem spec_partial_ne_invalidDigit (t : IntTy) (r : Nat) (s : List Nat) (k : Nat) :
    parseInt t r true s ≠ .invalidDigit k := by
  rw [parseInt_eq]
  split
  · simp
  · exact scan_partial_ne_invalidDigit _ _ _ _ _ _ _

/-- every complete result other than `InvalidDigit` is also the partial result -/
theorem spec_complete_eq_partial (t : IntTy) (r : Nat) (s : List Nat) :
    (∀ k, parseInt t r false s ≠ .invalidDigit k) → parseInt t r true s = parseInt t r false s := by
  rw [parseInt_eq, parseInt_eq]
  split
  · simp
  · exact scan_complete_eq_partial _ _ _ _ _ _

/-- complete `InvalidDigit(k)` is partial `Ok(_, k)` with `k < length` -/
theorem spec_complete_invalidDigit (t : IntTy) (r : Nat) (s : List Nat) (k : Nat) :
    parseInt t r false s = .invalidDigit k → k < s.length ∧ ∃ v, parseInt t r true s = .ok v k := by
  rw [parseInt_eq, parseInt_eq]
  split
  · simp
  · intro h
    have := scan_complete_invalidDigit _ _ _ _ _ _ _ h
    have e := drop_length_add t s
    exact ⟨by omega, this.2⟩

end LexVerif.Proof.ParseIntPartial
