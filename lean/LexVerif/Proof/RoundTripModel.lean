import LexVerif.Proof.WriteFloatDragon
import LexVerif.Proof.RoundTripFlags
/-!
# Proof.RoundTripModel — what the buffer-faithful `write_float` model returns, as text (C08)

`writeFloat_done_text`: whenever `Model.WriteFloat.writeFloat` completes (`.done w`), the returned slice
`w.bytes.take w.len` is the sign (`-` for a negative non-NaN value, `+` when the format requires a mantissa sign)
followed by `writeDecimal` of the digits (finite values, decimal back-end), or by the configured NaN / infinity string.
-/
namespace LexVerif.Proof.RoundTrip
open LexVerif.Spec LexVerif.Model LexVerif.Model.WriteFloat LexVerif.Proof.WriteFloatBuf
open LexVerif.Model.WriteInt (Res)

theorem take_append_sign (sign bytes : List Nat) (n : Nat) :
    (sign ++ bytes).take (sign.length + n) = sign ++ bytes.take n := by
  simp [List.take_append, List.take_of_length_le]

/-- the text after the sign -/
def bodyText (feats : Features) (f : Fmt) (fmt : Format) (o : WOpts) (bits : Nat) (ds : List Nat) (sci : Int) : List Nat :=
  if ¬ f.isSpecial bits then writeDecimal fmt feats ds sci o
  else if f.isNaN bits then o.nan.getD [] else o.inf.getD []

/-- the sign `write_float` writes -/
def signText (feats : Features) (f : Fmt) (fmt : Format) (bits : Nat) : List Nat :=
  if f.isNeg bits = true ∧ ¬ f.isNaN bits = true then [45]
  else if feats.format = true ∧ fmt.requiredMantissaSign = true then [43] else []

theorem writeFloat_done_text (feats : Features) (f : Fmt) (fmt : Format) (o : WOpts) (debug : Bool) (bits : Nat)
    (ds : List Nat) (sci : Int) (buf : List Nat) (w : Written) (hds : 1 ≤ ds.length) (hmx : o.maxDigits ≠ some 0)
    (h : writeFloat feats f fmt o debug bits (ds, sci) buf = .done w) :
    w.bytes.take w.len = signText feats f fmt bits ++ bodyText feats f fmt o bits ds sci ∧
      FormatError.isValid feats fmt.raw = true ∧
      (f.isSpecial bits = false → backend feats fmt = .decimal) ∧
      (f.isSpecial bits = true → (if f.isNaN bits then o.nan else o.inf) ≠ none) := by
  unfold writeFloat at h
  dsimp only at h
  split at h
  · cases h
  split at h
  · cases h
  rename_i hvalid
  split at h
  · cases h
  unfold signText bodyText
  generalize (if f.isNeg bits = true ∧ ¬f.isNaN bits = true then [45]
      else if feats.format = true ∧ fmt.requiredMantissaSign = true then [43] else []) = sign at h ⊢
  split at h
  · cases h
  · have key : ∀ (g : WBuf → Res Out) (target : List Nat),
        (∀ r, g ⟨buf.drop sign.length, 0⟩ = .ok r → r.buf.bytes.take r.cursor = target) →
        finalCheck (onTail sign (buf.drop sign.length) g) = .done w → w.bytes.take w.len = sign ++ target := by
      intro g target hg hfc
      unfold onTail at hfc
      cases hr' : g ⟨buf.drop sign.length, 0⟩ with
      | fault => rw [hr'] at hfc; cases hfc
      | panic => rw [hr'] at hfc; cases hfc
      | ok r =>
        rw [hr'] at hfc
        simp only [finalCheck] at hfc
        split at hfc
        · simp only [Outcome.done.injEq] at hfc
          subst hfc
          dsimp only
          rw [take_append_sign, hg r hr']
        · cases hfc
    have hvalid' : FormatError.isValid feats fmt.raw = true := by simpa using hvalid
    split at h
    · rename_i hsp
      have hsp' : f.isSpecial bits = false := by simpa using hsp
      split at h
      · rename_i hbe
        refine ⟨?_, hvalid', fun _ => hbe, fun h' => ?_⟩
        · rw [if_pos hsp]
          exact key _ _
            (fun r hr' => LexVerif.Proof.WriteFloatDragon.decimalB_bytes fmt feats f debug ds sci o _ r hds hmx hr') h
        · rw [hsp'] at h'; cases h'
      · simp only [finalCheck] at h; cases h
    · rename_i hsp
      have hsp' : f.isSpecial bits = true := by simpa using hsp
      rw [if_neg hsp]
      have hspecial : ∀ (s : Option (List Nat)),
          finalCheck (onTail sign (buf.drop sign.length) (writeSpecial s)) = .done w →
          w.bytes.take w.len = sign ++ s.getD [] ∧ s ≠ none := by
        intro s hfc
        cases hn : s with
        | none => rw [hn] at hfc; simp [writeSpecial, onTail, finalCheck] at hfc
        | some t =>
          rw [hn] at hfc
          refine ⟨key _ t ?_ hfc, by simp⟩
          intro r hr'
          simp only [writeSpecial, bind_ok_iff, blit_ok_iff, Res.ok.injEq] at hr'
          obtain ⟨b1, ⟨h1, rfl⟩, rfl⟩ := hr'
          apply take_eq_of_getD
          · simpa [WBuf.len] using h1
          · rfl
          · intro i hi
            simp only [put_getD, put_length]
            simp only [WBuf.len, List.length_drop] at h1
            simp only [List.getD_eq_getElem?_getD, List.length_drop]
            grind
      have hnd : ∀ h' : f.isSpecial bits = false, backend feats fmt = .decimal := by
        intro h'; rw [hsp'] at h'; cases h'
      split at h
      · rename_i hnan
        obtain ⟨h1, h2⟩ := hspecial o.nan h
        refine ⟨?_, hvalid', hnd, fun _ => ?_⟩
        · rw [if_pos hnan]; exact h1
        · rw [if_pos hnan]; exact h2
      · rename_i hnan
        obtain ⟨h1, h2⟩ := hspecial o.inf h
        refine ⟨?_, hvalid', hnd, fun _ => ?_⟩
        · rw [if_neg hnan]; exact h1
        · rw [if_neg hnan]; exact h2

theorem signText_eq (feats : Features) (f : Fmt) (fmt : Format) (bits : Nat) :
    signText feats f fmt bits = signBytes (mantSign feats fmt (f.isNeg bits && !f.isNaN bits)) := by
  unfold signText mantSign mantPlus signBytes
  cases f.isNeg bits <;> cases f.isNaN bits <;> cases feats.format <;> cases fmt.requiredMantissaSign <;> simp

end LexVerif.Proof.RoundTrip
