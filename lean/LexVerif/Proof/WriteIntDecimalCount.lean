import LexVerif.Proof.WriteIntAlgorithm
import LexVerif.Proof.WriteIntApi
/-!
# Proof.WriteIntDecimalCount — `fast_digit_count` (all `u32`), `fallback_digit_count` / `fast_log10` (u64, u128)
are the exact decimal digit count
-/
namespace LexVerif.Model.WriteInt
open LexVerif.Spec

/-- what row `j` of the `fast_digit_count` table must satisfy (`D` = decimal digits of `2^j`) -/
def RowOK (j T : Nat) : Prop :=
  let D := (toDigits 10 (2 ^ j)).length
  1 ≤ D ∧ D ≤ 10 ∧ ((j = 0 ∧ D = 1) ∨ 10 ^ (D - 1) ≤ 2 ^ j) ∧ 2 ^ (j + 1) ≤ 10 ^ (D + 1) ∧
    ((10 ^ D ≤ 2 ^ 32 ∧ T + 10 ^ D = (D + 1) * 2 ^ 32 ∧ 1 ≤ j) ∨ (T = D * 2 ^ 32 ∧ 2 ^ (j + 1) ≤ 10 ^ D))

instance (j T : Nat) : Decidable (RowOK j T) := by unfold RowOK; infer_instance

theorem fastDigitCount_rows : ∀ j, j < 32 → RowOK j (fastDigitCountTable.getD j 0) := by decide +kernel

theorem div_of_eq (x K a L : Nat) (h : x = a * K + L) (hL : L < K) : x / K = a := by
  subst h
  have hK : 0 < K := by omega
  rw [Nat.mul_comm, Nat.mul_add_div hK, Nat.div_eq_of_lt hL]; simp

theorem fastLog2_lt (bits x : Nat) (hb : 1 ≤ bits) (hx : x < 2 ^ bits) : fastLog2 bits x < bits := by
  obtain ⟨_, hlo, hz⟩ := fastLog2_spec bits x hb hx
  rcases Nat.eq_zero_or_pos x with h0 | h0
  · rw [hz h0]; omega
  · have := hlo h0
    rcases Nat.lt_or_ge (fastLog2 bits x) bits with h | h
    · exact h
    · have : 2 ^ bits ≤ 2 ^ fastLog2 bits x := Nat.pow_le_pow_right (by omega) h
      omega

/-- `fast_digit_count(x)` is the number of decimal digits of `x`, for every `u32` -/
theorem fastDigitCount_spec (x : Nat) (hx : x < 2 ^ 32) : fastDigitCount x = .ok (toDigits 10 x).length := by
  obtain ⟨hup, hlo, hz⟩ := fastLog2_spec 32 x (by omega) hx
  have hj := fastLog2_lt 32 x (by omega) hx
  have hrow := fastDigitCount_rows _ hj
  unfold fastDigitCount
  generalize fastLog2 32 x = j at *
  have hlen : j < fastDigitCountTable.length := by simpa [fastDigitCountTable] using hj
  rw [List.getElem?_eq_getElem hlen]
  have hget : fastDigitCountTable.getD j 0 = fastDigitCountTable[j] := by
    rw [List.getD_eq_getElem?_getD, List.getElem?_eq_getElem hlen]; rfl
  rw [hget] at hrow
  generalize fastDigitCountTable[j] = T at *
  obtain ⟨hD1, hD10, hlo10, hhi10, hT⟩ := hrow
  generalize (toDigits 10 (2 ^ j)).length = D at *
  simp only []
  congr 1
  have hxlo : j = 0 ∨ 2 ^ j ≤ x := by
    rcases Nat.eq_zero_or_pos x with h0 | h0
    · left; exact hz h0
    · right; exact hlo h0
  have hDpow : 10 ^ (D + 1) = 10 ^ D * 10 := by rw [Nat.pow_succ]
  have hDpow' : 10 ^ D = 10 ^ (D - 1) * 10 := by
    have : D = (D - 1) + 1 := by omega
    rw [this, Nat.pow_succ]; simp
  have h2j : 2 ^ (j + 1) = 2 ^ j * 2 := by rw [Nat.pow_succ]
  have hx2 : j = 0 → x < 2 := by intro h; rw [h] at hup; simpa using hup
  rcases hT with ⟨hle, hTeq, hj1⟩ | ⟨hTeq, hle⟩
  · -- T = (D+1)·2^32 − 10^D
    by_cases hge : 10 ^ D ≤ x
    · have hl : (toDigits 10 x).length = D + 1 :=
        toDigits_length_eq 10 x (D + 1) (by omega) (by omega) (by omega) (Or.inr (by simpa using hge))
      rw [hl]
      generalize 10 ^ D = P at *
      clear hl hDpow hDpow' hlo10 hhi10 hxlo hx2
      have h64 : x + T < 2 ^ 64 := by
        have : (D + 1) * 2 ^ 32 ≤ 11 * 2 ^ 32 := Nat.mul_le_mul_right _ (by omega)
        omega
      rw [Nat.mod_eq_of_lt h64]
      exact div_of_eq (x + T) (2 ^ 32) (D + 1) (x - P) (by omega) (by omega)
    · have hl : (toDigits 10 x).length = D :=
        toDigits_length_eq 10 x D (by omega) hD1 (by omega) (by
          rcases hlo10 with ⟨h, hD⟩ | h
          · left; exact hD
          · right; rcases hxlo with h' | h'
            · omega
            · omega)
      rw [hl]
      generalize 10 ^ D = P at *
      clear hl hDpow hDpow' hlo10 hhi10 hxlo hx2
      have hDm : (D + 1) * 2 ^ 32 = D * 2 ^ 32 + 2 ^ 32 := by rw [Nat.add_mul, Nat.one_mul]
      have h64 : x + T < 2 ^ 64 := by
        have : (D + 1) * 2 ^ 32 ≤ 11 * 2 ^ 32 := Nat.mul_le_mul_right _ (by omega)
        omega
      rw [Nat.mod_eq_of_lt h64]
      exact div_of_eq (x + T) (2 ^ 32) D (x + 2 ^ 32 - P) (by omega) (by omega)
  · have hl : (toDigits 10 x).length = D :=
      toDigits_length_eq 10 x D (by omega) hD1 (by omega) (by
        rcases hlo10 with ⟨h, hD⟩ | h
        · left; exact hD
        · rcases hxlo with h' | h'
          · left
            subst h'
            rcases Nat.lt_or_ge D 2 with hd | hd
            · omega
            · exfalso
              have : 10 ^ 1 ≤ 10 ^ (D - 1) := Nat.pow_le_pow_right (by omega) (by omega)
              simp at h this; omega
          · right; omega)
    rw [hl, hTeq]
    have h64 : x + D * 2 ^ 32 < 2 ^ 64 := by
      have : D * 2 ^ 32 ≤ 10 * 2 ^ 32 := Nat.mul_le_mul_right _ hD10
      omega
    rw [Nat.mod_eq_of_lt h64]
    exact div_of_eq _ (2 ^ 32) D x (by omega) hx

/-- what `fast_log10` and the power-of-ten table must satisfy at bit length `l + 1` -/
def LogOK (l : Nat) (table : List Nat) : Prop :=
  let e := l * 1233 / 2 ^ 12
  10 ^ e ≤ 2 ^ l ∧ 2 ^ (l + 1) ≤ 10 ^ (e + 2) ∧
    (table[e]? = some (10 ^ (e + 1)) ∨ (table[e]? = none ∧ 2 ^ (l + 1) ≤ 10 ^ (e + 1)))

instance (l : Nat) (table : List Nat) : Decidable (LogOK l table) := by unfold LogOK; infer_instance

theorem fallback_rows64 : ∀ l, l < 64 → LogOK l decimalTableU64 := by decide +kernel
theorem fallback_rows128 : ∀ l, l < 128 → LogOK l decimalTableU128 := by decide +kernel

def fbCore (x e : Nat) (table : List Nat) : Nat :=
  e + (if (match table[e]? with | some y => decide (x ≥ y) | none => false) = true then 1 else 0) + 1

theorem fallbackDigitCount_eq (bits x : Nat) (table : List Nat) :
    fallbackDigitCount bits x table = fbCore x (fastLog2 bits x * 1233 / 2 ^ 12) table := rfl

theorem fbCore_spec (x l e : Nat) (table : List Nat) (hup : x < 2 ^ (l + 1)) (hlo : 1 ≤ x → 2 ^ l ≤ x)
    (hz : x = 0 → l = 0) (h1 : 10 ^ e ≤ 2 ^ l) (h2 : 2 ^ (l + 1) ≤ 10 ^ (e + 2))
    (h3 : table[e]? = some (10 ^ (e + 1)) ∨ (table[e]? = none ∧ 2 ^ (l + 1) ≤ 10 ^ (e + 1))) :
    fbCore x e table = (toDigits 10 x).length := by
  have hp1 : 10 ^ (e + 1) = 10 ^ e * 10 := by rw [Nat.pow_succ]
  have hp2 : 10 ^ (e + 2) = 10 ^ e * 100 := by rw [show e + 2 = (e + 1) + 1 from rfl, Nat.pow_succ, Nat.pow_succ]; omega
  have h2l : 2 ^ (l + 1) = 2 ^ l * 2 := by rw [Nat.pow_succ]
  have hx0 : x = 0 ∨ 2 ^ l ≤ x := by
    rcases Nat.eq_zero_or_pos x with h | h
    · left; exact h
    · right; exact hlo h
  have hsmall : 10 ^ e ≤ x ∨ (x = 0 ∧ e = 0) := by
    rcases hx0 with h | h
    · right
      refine ⟨h, ?_⟩
      have := hz h; subst this
      rcases Nat.eq_zero_or_pos e with he | he
      · exact he
      · exfalso
        have : 10 ^ 1 ≤ 10 ^ e := Nat.pow_le_pow_right (by omega) he
        simp at h1 this; omega
    · left; omega
  have hlow : x < 10 ^ (e + 1) → (toDigits 10 x).length = e + 1 := by
    intro hlt
    refine toDigits_length_eq 10 x (e + 1) (by omega) (by omega) hlt ?_
    rcases hsmall with h | ⟨_, h⟩
    · right; simpa using h
    · left; omega
  unfold fbCore
  rcases h3 with hs | ⟨hn, hle⟩
  · by_cases hge : x ≥ 10 ^ (e + 1)
    · have := toDigits_length_eq 10 x (e + 1 + 1) (by omega) (by omega) (by omega) (Or.inr (by simpa using hge))
      simp [hs, hge]; omega
    · have := hlow (by omega)
      simp [hs, hge]; omega
  · have := hlow (by omega)
    simp [hn]; omega

/-- `fallback_digit_count(x, TABLE)` is the number of decimal digits of `x` -/
theorem fallbackDigitCount_spec (bits x : Nat) (table : List Nat) (hb : 1 ≤ bits) (hx : x < 2 ^ bits)
    (hrows : ∀ l, l < bits → LogOK l table) : fallbackDigitCount bits x table = (toDigits 10 x).length := by
  obtain ⟨hup, hlo, hz⟩ := fastLog2_spec bits x hb hx
  have hl := fastLog2_lt bits x hb hx
  obtain ⟨h1, h2, h3⟩ := hrows _ hl
  rw [fallbackDigitCount_eq]
  exact fbCore_spec x _ _ table hup hlo hz h1 h2 h3

/-- `DecimalCount::decimal_count` is exact for every value of every unsigned type -/
theorem decimalCount_spec (bits x : Nat) (hb : ValidBits bits) (hx : x < 2 ^ bits) :
    decimalCount bits x = .ok (toDigits 10 x).length := by
  unfold decimalCount
  rcases hb with h | h | h | h | h <;> subst h
  · rw [if_pos (by simp), Nat.mod_eq_of_lt (by omega)]; exact fastDigitCount_spec x (by omega)
  · rw [if_pos (by simp), Nat.mod_eq_of_lt (by omega)]; exact fastDigitCount_spec x (by omega)
  · rw [if_pos (by simp), Nat.mod_eq_of_lt (by omega)]; exact fastDigitCount_spec x (by omega)
  · rw [if_neg (by simp), if_pos rfl, fallbackDigitCount_spec 64 x _ (by omega) hx fallback_rows64]
  · rw [if_neg (by simp), if_neg (by simp), if_pos rfl,
      fallbackDigitCount_spec 128 x _ (by omega) hx fallback_rows128]

end LexVerif.Model.WriteInt
