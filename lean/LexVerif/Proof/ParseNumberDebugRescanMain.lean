import LexVerif.Proof.ParseNumberDebugRescanFacts
/-!
# Proof.ParseNumberDebugRescanMain — `parse_number` and the entry points, debug build, integer / fraction component with
ANY separator predicate except I+T+C (I+T+C on the integer allowed when there is no base prefix)

Parallel to `Proof/ParseNumberDebug{Phases,Main,Api}.lean` (`Good` iterators); here the per-component hypothesis is
`CompOk`, the statement is about the entry points (digit counts 0, the cursor in a state `peek` left), and `Bytes` is not contiguous (otherwise every iterator is `PeekTriv` and the old chain applies).
-/
set_option linter.unusedSimpArgs false
set_option linter.unusedVariables false
namespace LexVerif.Proof.PNDebug
open LexVerif LexVerif.Model LexVerif.Spec
open LexVerif.Props.C12 (Bytes.Valid incCount_spec peek_spec peek_some_in_range)
open LexVerif.Proof.PNTotal (Adv csum step_adv)
open LexVerif.Proof.Sep (slice contig_of_pred)

variable {c : Cfg}

/-- hypothesis on a digit component: no separator flags, or a predicate other than I+T+C — or I+T+C if `allow` holds
(then its digit run never starts directly behind a non-digit) -/
def CompOk (c : Cfg) (k : Comp) (allow : Prop) : Prop :=
  c.iterContiguous k = true ∨ ∃ p, c.skip k = .pred p ∧ (p ≠ .itc ∨ allow)

theorem format_of_nbc (cx : Ctx c) (hbc : c.bytesContiguous = false) : c.feats.format = true := by
  cases hf : c.feats.format
  · have := cx.nfbc hf; rw [hbc] at this; cases this
  · rfl

theorem notSep_of_ne (cx : Ctx c) {x : Nat} (h : x ≠ c.fmt.digitSeparator) : c.isSep x = false := by
  cases hs : c.isSep x with
  | false => rfl
  | true => exact absurd (isSep_eq cx hs) h

theorem u64ok_of_allDS {k : Comp} {s : List Nat} (hg : Good c k) (h : ∀ x ∈ s, DSk c k x) : U64Ok c k (Bytes.new s) :=
  Or.inl ⟨hg, allDS_range h 0⟩

/-! ## integer phase -/

structure IntOk2 (c : Cfg) (b : Bytes) (ip : IntPart) : Prop where
  advStart : Adv b ip.start
  advByte : Adv ip.start ip.byte
  fc : ip.byte.fc = b.fc
  slice : U64Ok c .integer (Bytes.new ip.integerDigits)

theorem integerPhase_safe2 (cx : Ctx c) (hbc : c.bytesContiguous = false) (hI : CompOk c .integer (c.basePrefix = 0))
    (hpre : c.basePrefix ≠ 0 → ∀ y, matchesB y c.basePrefix c.caseSensitiveBasePrefix = true →
      c.isDigit y = false ∧ c.isSep y = false)
    (b : Bytes) (hb : Bytes.Valid b) (hic : b.ic = 0) (hpost : Alt23 c .integer b) :
    Safe (integerPhase c b) (IntOk2 c b) := by
  have hf := format_of_nbc cx hbc
  unfold integerPhase
  refine Safe.bind_eq (prefixPhase_safe cx b hb) ?_
  rintro ⟨isPrefix, start⟩ hpeq hadv0
  have hadv0 : Adv b start := hadv0
  obtain ⟨hsic, hsfc, hstartC, hnopre⟩ := prefixPhase_facts cx b start isPrefix hb hpost hpre hpeq
  simp only
  refine Safe.bind_eq (parse8Digits_safe cx .integer start 0 hadv0.valid') ?_
  rintro ⟨m1, b1⟩ h8eq ⟨hadv1, hd1⟩
  have hadv1 : Adv start b1 := hadv1
  have hd1 : DigRange c.mantissaRadix start.slc start.index b1.index := hd1
  have hfc1 : b1.fc = start.fc := parse8Digits_fc _ _ _ _ h8eq
  simp only
  refine Safe.bind_eq (parseDigits_safe cx .integer c.mantissaRadix cx.sepNotDigM b1 hadv1.valid') ?_
  rintro ⟨ds, b2⟩ hdeq ⟨hadv2, _⟩
  have hadv2 : Adv b1 b2 := hadv2
  have hfc2 : b2.fc = b1.fc := parseDigits_integer_fc cx b1 b2 ds hadv1.valid' hdeq
  simp only
  have hadv12 := hadv1.trans hadv2
  have hN1 := count_le (c := c) hadv12
  generalize b2.currentCount c - start.currentCount c = N at hN1 ⊢
  have hv2 : b2.index ≤ start.slc.length := hadv12.valid
  have hm2 : start.index ≤ b2.index := hadv12.mono
  split
  · exact Safe.err
  · generalize hL : (if (c.feats.format && !c.iterContiguous Comp.integer) = true then b2.index - start.index else N) = L
    have hL1 : L ≤ b2.index - start.index := by rw [← hL]; split <;> omega
    rw [sliceTo_ok start _ _ (by omega)]
    simp only [bind, Except.bind]
    split
    · exact Safe.err
    · refine ⟨hadv0, hadv12, by simp only; rw [hfc2, hfc1, hsfc], ?_⟩
      simp only
      rcases hI with hcon | ⟨p, hk, hp⟩
      · -- no separator flags: the stored bytes are digits
        have hg : Good c .integer := Or.inl (peek_triv c cx .integer (Or.inr hcon))
        obtain ⟨_, hd2⟩ := (parseDigits_ds cx .integer hg b1 hadv1.valid').of_eq_ok hdeq
        have hd2 : DSRange c .integer b1.slc b1.index b2.index := hd2
        rw [hadv1.slc] at hd2
        exact u64ok_of_allDS hg (slice_allDS (hd1.toDS.trans hd2) hL1)
      · -- a skip iterator: the release-build `parse_digits` runs through the stored slice
        have hnc := contig_of_pred c .integer p hk
        right
        refine ⟨hnc, ?_⟩
        have hb1 : b1 = start := by
          rw [parse8Digits_noncontig .integer hnc] at h8eq
          simp only [Except.ok.injEq, Prod.mk.injEq] at h8eq
          exact h8eq.2.symm
        subst hb1
        have hLe : L = b2.index - b1.index := by rw [← hL]; simp [hf, hnc]
        rw [hLe]
        have hcnt : Bytes.iterCount c .integer b1 = 0 := by simp [Bytes.iterCount, hnc, hsic, hic]
        exact firstPass_sliceRun cx hf .integer (by decide) p hk b1 b2 ds hadv0.valid' hcnt hstartC
          (hp.imp id hnopre) hdeq

/-! ## fraction phase -/

structure FracOk2 (c : Cfg) (byte : Bytes) (fp : FracPart) : Prop where
  adv : Adv byte fp.byte
  digits : ∀ fd, fp.fraction = some fd → U64Ok c .fraction (Bytes.new fd)

theorem fractionPhase_safe2 (cx : Ctx c) (hbc : c.bytesContiguous = false) (hF : CompOk c .fraction False) (o : POpts)
    (hdp : o.dp ≠ c.fmt.digitSeparator) (hdpd : c.isDigit o.dp = false) (byte : Bytes) (m : Nat)
    (hb : Bytes.Valid byte) (hfc : byte.fc = 0) :
    Safe (fractionPhase c o byte m) (FracOk2 c byte) := by
  have hf := format_of_nbc cx hbc
  unfold fractionPhase
  split
  · next hdpb =>
    have hx := firstIsCased_get hdpb
    have hlt := get_lt hx
    rw [step_ok byte hlt (Or.inr (by rw [hx]; intro he; exact hdp (Option.some.inj he)))]
    simp only [bind, Except.bind]
    have hadv0 : Adv byte { byte with index := byte.index + 1 } := step_adv byte 1 hlt
    refine Safe.bind_eq (parse8Digits_safe cx .fraction _ m hadv0.valid') ?_
    rintro ⟨m1, b1⟩ h8eq ⟨hadv1, hd1⟩
    have hadv1 : Adv { byte with index := byte.index + 1 } b1 := hadv1
    have hd1 : DigRange c.mantissaRadix byte.slc (byte.index + 1) b1.index := hd1
    simp only
    refine Safe.bind_eq (parseDigits_safe cx .fraction c.mantissaRadix cx.sepNotDigM b1 hadv1.valid') ?_
    rintro ⟨ds, b2⟩ hdeq ⟨hadv2, _⟩
    have hadv2 : Adv b1 b2 := hadv2
    simp only
    have hadv12 := hadv1.trans hadv2
    have hN1 := count_le (c := c) hadv12
    generalize b2.currentCount c - Bytes.currentCount c { byte with index := byte.index + 1 } = N at hN1 ⊢
    have hv2 : b2.index ≤ byte.slc.length := hadv12.valid
    have hm2 : byte.index + 1 ≤ b2.index := hadv12.mono
    simp only at hN1
    rw [sliceTo_ok { byte with index := byte.index + 1 } _ _ (by simp only; split <;> omega)]
    simp only [bind, Except.bind]
    refine Safe.bind (scaleExponent_safe cx _) ?_
    intro e _
    split
    · exact Safe.err
    · refine ⟨hadv0.trans hadv12, ?_⟩
      intro fd hfd
      simp only [Option.some.injEq] at hfd
      subst hfd
      rcases hF with hcon | ⟨p, hk, hp⟩
      · have hg : Good c .fraction := Or.inl (peek_triv c cx .fraction (Or.inr hcon))
        obtain ⟨_, hd2⟩ := (parseDigits_ds cx .fraction hg b1 hadv1.valid').of_eq_ok hdeq
        have hd2 : DSRange c .fraction b1.slc b1.index b2.index := hd2
        rw [hadv1.slc] at hd2
        exact u64ok_of_allDS hg (slice_allDS (hd1.toDS.trans hd2) (by split <;> omega))
      · have hnc := contig_of_pred c .fraction p hk
        right
        refine ⟨hnc, ?_⟩
        have hb1 : b1 = { byte with index := byte.index + 1 } := by
          rw [parse8Digits_noncontig .fraction hnc] at h8eq
          simp only [Except.ok.injEq, Prod.mk.injEq] at h8eq
          exact h8eq.2.symm
        subst hb1
        have hLe : (if (c.feats.format && !c.iterContiguous Comp.fraction) = true then
            b2.index - ({ byte with index := byte.index + 1 } : Bytes).index else N) = b2.index - (byte.index + 1) := by
          simp [hf, hnc]
        rw [hLe]
        have hcnt : Bytes.iterCount c .fraction ({ byte with index := byte.index + 1 } : Bytes) = 0 := by
          simp [Bytes.iterCount, hnc, hfc]
        have hstartC : StartC c .fraction ({ byte with index := byte.index + 1 } : Bytes) := by
          left
          intro x hxp
          simp only [getPrev, Nat.succ_ne_zero, if_false, Nat.add_sub_cancel, hx, Option.some.injEq] at hxp
          subst hxp
          exact ⟨hdpd, notSep_of_ne cx hdp⟩
        have hp' : p ≠ .itc := by
          rcases hp with h | h
          · exact h
          · exact h.elim
        exact firstPass_sliceRun cx hf .fraction (by decide) p hk _ b2 ds hadv0.valid' hcnt hstartC (Or.inl hp') hdeq
  · exact ⟨adv_refl hb, by simp⟩

/-! ## the many-digits re-scan -/

theorem manyDigitsPhase_safe2 (cx : Ctx c) (hbc : c.bytesContiguous = false) (o : POpts)
    (hdp : o.dp ≠ c.fmt.digitSeparator) (neg : Bool) (b : Bytes) (ip : IntPart)
    (fp : FracPart) (ep : ExpPart) (e0 : Int) (endIdx : Nat) (hip : IntOk2 c b ip) (hfp : FracOk2 c ip.byte fp) :
    Safe (manyDigitsPhase c o neg ip fp ep (ip.nDigits + fp.nAfterDot) (u64Step c.feats c.mantissaRadix) e0 endIdx)
      (fun r => r.2 = endIdx) := by
  have hfmt := format_of_nbc cx hbc
  unfold manyDigitsPhase
  refine Safe.bind (skipZeros_safe cx .integer ip.start hip.advStart.valid') ?_
  rintro ⟨zi, zeros⟩ hadvz
  have hadvz : Adv ip.start zeros := hadvz
  simp only
  have hrest : ∀ (F : Bytes → Except Err (Number × Nat)),
      (∀ z, Bytes.Valid z → Safe (F z) (fun r => r.2 = endIdx)) →
      Safe (if zeros.firstIsCased o.dp = true then Bytes.step c zeros >>= F else pure zeros >>= F)
        (fun r => r.2 = endIdx) := by
    intro F hF
    split
    · next hdpb =>
      have hx := firstIsCased_get hdpb
      have hlt := get_lt hx
      rw [step_ok zeros hlt (Or.inr (by rw [hx]; intro he; exact hdp (Option.some.inj he)))]
      exact hF _ (step_adv zeros 1 hlt).valid'
    · exact hF _ hadvz.valid'
  refine hrest _ ?_
  intro zeros2 hz2
  refine Safe.bind (skipZeros_safe cx .fraction zeros2 hz2) ?_
  rintro ⟨zf, _⟩ _
  simp only
  split
  · next hnd =>
    refine Safe.bind_eq (skipZeros_safe cx .integer (Bytes.new ip.integerDigits) (new_valid _)) ?_
    rintro ⟨z1, int1⟩ hz1eq hadv1
    have hadv1 : Adv (Bytes.new ip.integerDigits) int1 := hadv1
    have hu1 := skipZeros_u64ok cx .integer _ (new_valid _) hip.slice z1 int1 hz1eq
    simp only
    refine Safe.bind (parseU64Digits_safe2 cx .integer int1 0 _ hadv1.valid' (minv_init c cx) hu1) ?_
    rintro ⟨int2, m2, step2⟩ ⟨hadv2, hinv2, hend2⟩
    have hinv2 : MInv c m2 step2 := hinv2
    simp only
    split
    · refine Safe.bind (P := fun _ => True) (Safe.pure trivial) ?_
      intro _ _
      refine Safe.bind (scaleExponent_safe cx _) ?_
      intro _ _
      rfl
    · next hcond =>
      simp only [Bool.or_eq_true, decide_eq_true_eq, not_or] at hcond
      cases hfr : fp.fraction with
      | none =>
        -- `Bytes` not contiguous: the model's (and the Rust code's) explicit guard fires
        exfalso
        apply hcond.2
        simp [hfmt, hbc, hfr]
      | some fd =>
        simp only
        have hfd := hfp.digits fd hfr
        have hfrac : ∀ (G : (Bytes × Nat × Nat) → Except Err (Number × Nat)),
            (∀ x, Safe (G x) (fun r => r.2 = endIdx)) → ∀ f : Bytes, Bytes.Valid f → U64Ok c .fraction f →
            Safe (parseU64Digits c .fraction f m2 step2 >>= G) (fun r => r.2 = endIdx) := by
          intro G hG f hfv hfu
          refine Safe.bind (parseU64Digits_safe2 cx .fraction f m2 step2 hfv hinv2 hfu) ?_
          intro x _
          exact hG x
        split
        · refine Safe.bind (P := fun f => Bytes.Valid f ∧ U64Ok c .fraction f) ?_ ?_
          · refine Safe.bind_eq (skipZeros_safe cx .fraction (Bytes.new fd) (new_valid _)) ?_
            rintro ⟨zz, f⟩ hzeq hadvf
            have hadvf : Adv (Bytes.new fd) f := hadvf
            exact ⟨hadvf.valid', skipZeros_u64ok cx .fraction _ (new_valid _) hfd zz f hzeq⟩
          · intro f ⟨hfv, hfu⟩
            refine hfrac _ ?_ f hfv hfu
            intro x
            refine Safe.bind (P := fun _ => True) (Safe.pure trivial) ?_
            intro _ _
            refine Safe.bind (scaleExponent_safe cx _) ?_
            intro _ _
            rfl
        · refine Safe.bind (P := fun f => Bytes.Valid f ∧ U64Ok c .fraction f) (Safe.pure ⟨new_valid _, hfd⟩) ?_
          intro f ⟨hfv, hfu⟩
          refine hfrac _ ?_ f hfv hfu
          intro x
          refine Safe.bind (P := fun _ => True) (Safe.pure trivial) ?_
          intro _ _
          refine Safe.bind (scaleExponent_safe cx _) ?_
          intro _ _
          rfl
  · rfl

/-! ## `parse_number` started by an entry point -/

theorem parseNumber_safe2 (cx : Ctx c) (hbc : c.bytesContiguous = false) (hI : CompOk c .integer (c.basePrefix = 0))
    (hF : CompOk c .fraction False)
    (hpre : c.basePrefix ≠ 0 → ∀ y, matchesB y c.basePrefix c.caseSensitiveBasePrefix = true →
      c.isDigit y = false ∧ c.isSep y = false)
    (isPartial : Bool) (o : POpts) (ox : OCtx c o) (hdpd : c.isDigit o.dp = false) (b : Bytes) (neg : Bool)
    (hb : b.index < b.slc.length) (hic : b.ic = 0) (hfc : b.fc = 0)
    (hpost : Alt23 c .integer b) :
    Safe (parseNumber c isPartial o b neg) (fun r => r.2 ≤ b.slc.length) := by
  have hv : Bytes.Valid b := Nat.le_of_lt hb
  have hdp : o.dp ≠ c.fmt.digitSeparator := by
    rcases ox.dpOk with h | h
    · rw [hbc] at h; cases h
    · exact h
  unfold parseNumber
  have h1 : b.isBufferEmpty = false := by simp [Bytes.isBufferEmpty]; omega
  simp only [h1, Bool.not_true, Bool.and_false, Bool.false_eq_true, if_false]
  refine Safe.bind (integerPhase_safe2 cx hbc hI hpre b hv hic hpost) ?_
  intro ip hip
  refine Safe.bind (fractionPhase_safe2 cx hbc hF o hdp hdpd ip.byte ip.mantissa hip.advByte.valid'
    (by rw [hip.fc]; exact hfc)) ?_
  intro fp hfp
  split
  · obtain ⟨⟨v, b1⟩, hp⟩ := peek_ok cx .integer ip.start
    simp only [hp, bind, Except.bind]
    split <;> exact Safe.err
  · refine Safe.bind (exponentPhase_safe cx _ fp.byte fp.fraction fp.exponent hfp.adv.valid' ?_) ?_
    · intro h
      rcases ox.expOk with hbc' | hm
      · obtain ⟨x, hx, _⟩ := firstIs_match h
        exact ⟨get_lt hx, Or.inl hbc'⟩
      · have := firstIs_ne_sep (c := c) h hm
        exact ⟨this.1, Or.inr this.2⟩
    intro ep hep
    have hep : Adv fp.byte ep.byte := hep
    refine Safe.bind (suffixPhase_safe cx ep.byte hep.valid') ?_
    intro byte hsuf
    have hsuf : Adv ep.byte byte := hsuf
    have hle : byte.index ≤ b.slc.length := by
      have h : byte.index ≤ byte.slc.length := hsuf.valid'
      rw [hsuf.slc, hep.slc, hfp.adv.slc, hip.advByte.slc, hip.advStart.slc] at h
      exact h
    split
    · exact hle
    · refine (manyDigitsPhase_safe2 cx hbc o hdp neg b ip fp ep _ byte.index hip hfp).mono ?_
      intro r hr
      rw [hr]; exact hle

/-! ## `parse_complete` / `parse_partial` -/

theorem step_eq {b b' : Bytes} (h : b.step c = .ok b') : b' = { b with index := b.index + 1 } := by
  unfold Bytes.step Bytes.stepUnchecked at h
  split at h
  · cases h
  · exact stepBy_eq h

theorem parseSign_facts (np rq : Bool) (ip ms : String) (b b' : Bytes) (neg : Bool)
    (h : parseSign c np rq ip ms b = .ok (neg, b')) : b'.ic = b.ic ∧ b'.fc = b.fc ∧ b'.slc = b.slc := by
  unfold parseSign at h
  split at h
  · split at h
    · cases hs : b.step c with
      | error e => simp [hs, bind, Except.bind] at h
      | ok b2 =>
        simp only [hs, bind, Except.bind, pure, Except.pure, Except.ok.injEq, Prod.mk.injEq] at h
        rw [← h.2, step_eq hs]; exact ⟨rfl, rfl, rfl⟩
    · cases h
  · cases hs : b.step c with
    | error e => simp [hs, bind, Except.bind] at h
    | ok b2 =>
      simp only [hs, bind, Except.bind, pure, Except.pure, Except.ok.injEq, Prod.mk.injEq] at h
      rw [← h.2, step_eq hs]; exact ⟨rfl, rfl, rfl⟩
  · split at h
    · cases h
    · simp only [pure, Except.pure, Except.ok.injEq, Prod.mk.injEq] at h
      rw [← h.2]; exact ⟨rfl, rfl, rfl⟩

theorem isConsumed_facts (cx : Ctx c) (hf : c.feats.format = true) (k : Comp) (b b' : Bytes) (cons : Bool)
    (hb : Bytes.Valid b) (h : isConsumed c k b = .ok (cons, b')) :
    b'.ic = b.ic ∧ b'.fc = b.fc ∧ b'.slc = b.slc ∧ Alt23 c k b' := by
  unfold isConsumed at h
  simp only [hf, Bool.not_true, Bool.false_eq_true, if_false] at h
  cases hp : peek c k b with
  | error e => simp [hp, bind, Except.bind] at h
  | ok r =>
    obtain ⟨v, b1⟩ := r
    simp only [hp, bind, Except.bind, pure, Except.pure, Except.ok.injEq, Prod.mk.injEq] at h
    have hs := peek_spec c k b b1 v hb hp
    rw [← h.2]
    exact ⟨hs.2.1, hs.2.2.1, hs.1, alt23_of_peek cx k b b1 v hb hp⟩

theorem parseCompleteNumber_safe2 (cx : Ctx c) (hbc : c.bytesContiguous = false)
    (hI : CompOk c .integer (c.basePrefix = 0)) (hF : CompOk c .fraction False)
    (hpre : c.basePrefix ≠ 0 → ∀ y, matchesB y c.basePrefix c.caseSensitiveBasePrefix = true →
      c.isDigit y = false ∧ c.isSep y = false)
    (o : POpts) (ox : OCtx c o) (hdpd : c.isDigit o.dp = false) (b : Bytes) (neg : Bool)
    (hb : b.index < b.slc.length) (hic : b.ic = 0) (hfc : b.fc = 0)
    (hpost : Alt23 c .integer b) :
    Safe (parseCompleteNumber c o b neg) (fun _ => True) := by
  unfold parseCompleteNumber
  refine Safe.bind (parseNumber_safe2 cx hbc hI hF hpre false o ox hdpd b neg hb hic hfc hpost) ?_
  rintro ⟨n, count⟩ _
  simp only
  split
  · trivial
  · exact Safe.err

/-- **entry points, debug build**: integer / fraction component with any separator predicate but I+T+C (I+T+C on the
integer when there is no base prefix) -/
theorem parseFloatSyntax_safe2 (cx : Ctx c) (hbc : c.bytesContiguous = false)
    (hI : CompOk c .integer (c.basePrefix = 0)) (hF : CompOk c .fraction False)
    (hpre : c.basePrefix ≠ 0 → ∀ y, matchesB y c.basePrefix c.caseSensitiveBasePrefix = true →
      c.isDigit y = false ∧ c.isSep y = false)
    (o : POpts) (ox : OCtx c o) (hdpd : c.isDigit o.dp = false) (isPartial : Bool) (input : List Nat) :
    Safe (parseFloatSyntax c o isPartial input) (fun _ => True) := by
  have hf := format_of_nbc cx hbc
  unfold parseFloatSyntax
  unfold parseMantissaSign
  refine Safe.bind_eq (parseSign_safe cx _ _ _ _ _ (new_valid input)) ?_
  rintro ⟨neg, b1⟩ hseq hadv1
  have hadv1 : Adv (Bytes.new input) b1 := hadv1
  obtain ⟨s1, s2, s3⟩ := parseSign_facts _ _ _ _ _ _ _ hseq
  simp only
  refine Safe.bind_eq (isConsumed_safe cx .integer b1 hadv1.valid') ?_
  rintro ⟨consumed, b2⟩ hceq ⟨hb2, hne⟩
  have hne : consumed = false → b2.index < b2.slc.length := hne
  obtain ⟨c1, c2, c3, hpost⟩ := isConsumed_facts cx hf .integer b1 b2 consumed hadv1.valid' hceq
  have hic : b2.ic = 0 := by rw [c1, s1]; rfl
  have hfc : b2.fc = 0 := by rw [c2, s2]; rfl
  simp only
  split
  · split
    · exact Safe.err
    · trivial
  · next hc =>
    have hlt := hne (by simpa using hc)
    split
    · have h := parseNumber_safe2 cx hbc hI hF hpre true o ox hdpd b2 neg hlt hic hfc hpost
      cases hres : parseNumber c true o b2 neg with
      | ok r => trivial
      | error e =>
        rw [hres] at h
        cases e with
        | err k i =>
          simp only
          refine Safe.bind (parsePositiveSpecial_safe cx o b2) ?_
          intro r _
          split
          · trivial
          · exact Safe.err
        | panic t => exact h.elim
        | fault t => exact h.elim
    · have h := parseCompleteNumber_safe2 cx hbc hI hF hpre o ox hdpd b2 neg hlt hic hfc hpost
      cases hres : parseCompleteNumber c o b2 neg with
      | ok r => trivial
      | error e =>
        rw [hres] at h
        cases e with
        | err k i =>
          simp only
          refine Safe.bind (parseSpecialComplete_safe cx o b2) ?_
          intro r _
          split
          · trivial
          · exact Safe.err
        | panic t => exact h.elim
        | fault t => exact h.elim

end LexVerif.Proof.PNDebug
