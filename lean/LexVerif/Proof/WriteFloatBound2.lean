import LexVerif.Proof.WriteFloatBound
/-!
# Proof.WriteFloatBound2 — panic characterisation and high-water facts of `algorithm.rs` positive / scientific layout
-/
namespace LexVerif.Proof.WriteFloatBound
open LexVerif.Spec LexVerif.Model LexVerif.Model.WriteFloat LexVerif.Proof.WriteFloatBuf
open LexVerif.Model.WriteInt (Res)

def needPosN (nd n0 count leading : Nat) (trim : Bool) (exact1 exact : Nat) : Nat :=
  max (max nd n0)
    (if leading ≥ count then
      (if trim = true then leading else max (leading + 2) (needPad (leading + 2) (leading + 1) exact1))
     else max (count + 1) (needPad (count + 1) count exact))

theorem posN_panic_iff (nd : Nat) (ds : List Nat) (e : Int) (o : WOpts) (b : WBuf)
    (hc1 : 1 ≤ (truncateAndRound ds o).1.length) (hc2 : (truncateAndRound ds o).1.length ≤ ds.length) :
    posN nd ds e o b = .panic ↔
      b.len < needPosN nd ds.length (roundPos ds e o).1.length
        (e.toNat + 1 + (if (truncateAndRound ds o).2 = true then 1 else 0)) o.trim
        (minExactDigits (e.toNat + 1 + (if (truncateAndRound ds o).2 = true then 1 else 0) + 1) o)
        (minExactDigits (roundPos ds e o).1.length o) := by
  unfold posN needPosN roundPos
  dsimp only
  generalize truncateAndRound ds o = tr at hc1 hc2 ⊢
  obtain ⟨dr, c⟩ := tr
  dsimp only at hc1 hc2 ⊢
  have hk := trimPos_length o (e.toNat + 1 + (if c = true then 1 else 0)) dr hc1 (by omega)
  generalize e.toNat + 1 + (if c = true then 1 else 0) = leading at hk ⊢
  generalize trimPos o leading dr = ds' at hk ⊢
  generalize minExactDigits (leading + 1) o = ex1
  generalize minExactDigits ds'.length o = ex
  by_cases c1 : leading ≥ ds'.length
  · by_cases c2 : o.trim = true
    · panic_tac [c1, c2]
    · by_cases hc : leading + 1 < ex1
      · panic_tac [c1, c2, hc]
      · panic_tac [c1, c2, hc]
  · by_cases hc : ds'.length < ex
    · panic_tac [c1, hc, List.length_drop]
    · panic_tac [c1, hc, List.length_drop]

theorem posN_ok_facts (nd : Nat) (ds : List Nat) (e : Int) (o : WOpts) (b : WBuf) (r : Out)
    (hc1 : 1 ≤ (truncateAndRound ds o).1.length) (hc2 : (truncateAndRound ds o).1.length ≤ ds.length)
    (h : posN nd ds e o b = .ok r) :
    r.buf.len = b.len ∧
    r.cursor ≤ needPosN nd ds.length (roundPos ds e o).1.length
        (e.toNat + 1 + (if (truncateAndRound ds o).2 = true then 1 else 0)) o.trim
        (minExactDigits (e.toNat + 1 + (if (truncateAndRound ds o).2 = true then 1 else 0) + 1) o)
        (minExactDigits (roundPos ds e o).1.length o) ∧
    r.buf.hi ≤ max b.hi (needPosN nd ds.length (roundPos ds e o).1.length
        (e.toNat + 1 + (if (truncateAndRound ds o).2 = true then 1 else 0)) o.trim
        (minExactDigits (e.toNat + 1 + (if (truncateAndRound ds o).2 = true then 1 else 0) + 1) o)
        (minExactDigits (roundPos ds e o).1.length o)) := by
  unfold posN at h
  unfold needPosN roundPos
  dsimp only at h ⊢
  generalize truncateAndRound ds o = tr at hc1 hc2 h ⊢
  obtain ⟨dr, c⟩ := tr
  dsimp only at hc1 hc2 h ⊢
  have hk := trimPos_length o (e.toNat + 1 + (if c = true then 1 else 0)) dr hc1 (by omega)
  generalize e.toNat + 1 + (if c = true then 1 else 0) = leading at h hk ⊢
  generalize trimPos o leading dr = ds' at h hk ⊢
  generalize minExactDigits (leading + 1) o = ex1 at h ⊢
  generalize minExactDigits ds'.length o = ex at h ⊢
  by_cases c1 : leading ≥ ds'.length
  · by_cases c2 : o.trim = true
    · simp only [c1, c2, not_true_eq_false, ↓reduceIte] at h ⊢
      fn_simp at h
      obtain ⟨_, _, _, _, rfl⟩ := h
      refine ⟨by simp, by simp; omega, ?_⟩
      hi_tac
    · simp only [c1, c2, not_false_eq_true, ↓reduceIte, Bool.false_eq_true] at h ⊢
      fn_simp at h
      obtain ⟨_, _, _, _, _, _, _, rfl⟩ := h
      refine ⟨by simp, ?_, ?_⟩
      · simp only [padCur, needPad]; split <;> omega
      · hi_tac
  · simp only [c1, ↓reduceIte] at h ⊢
    fn_simp at h
    simp only [List.length_drop] at h
    obtain ⟨_, _, _, _, _, _, _, rfl⟩ := h
    refine ⟨by simp, ?_, ?_⟩
    · simp only [padCur, needPad]; split <;> omega
    · hi_tac

def needSciN (fmt : Format) (feats : Features) (nd n0 count : Nat) (o : WOpts) (s nl : Nat) : Nat :=
  max (1 + max nd n0) (max (needBody fmt count 0 o) (needExp feats fmt.exponentRadix (bodyCur fmt count o) s nl))

def bodyBuf (fmt : Format) (n : Nat) (frac : List Nat) (o : WOpts) (b : WBuf) : WBuf :=
  if ¬ fmt.noExponentWithoutFraction = true ∧ n = 1 ∧ o.trim = true then b
  else if n < minExactDigits n o then padBuf (b.put 2 frac) (n + 1) n (minExactDigits n o)
  else if n = 1 then b.put 2 [48]
  else b.put 2 frac

@[simp] theorem bodyBuf_len (fmt : Format) (n : Nat) (frac : List Nat) (o : WOpts) (b : WBuf) :
    (bodyBuf fmt n frac o b).len = b.len := by
  unfold bodyBuf; repeat' split
  all_goals simp

theorem sciBody_ok_iff (fmt : Format) (n : Nat) (frac : List Nat) (o : WOpts) (b : WBuf) (r : Out) :
    sciBody fmt n frac o b = .ok r ↔
      needBody fmt n frac.length o ≤ b.len ∧ r = ⟨bodyBuf fmt n frac o b, bodyCur fmt n o⟩ := by
  unfold sciBody needBody bodyBuf bodyCur
  dsimp only
  by_cases c1 : ¬ fmt.noExponentWithoutFraction = true ∧ n = 1 ∧ o.trim = true
  · simp only [if_pos c1, Res.ok.injEq, Nat.zero_le, true_and]
    exact eq_comm
  · simp only [if_neg c1]
    by_cases c2 : n < minExactDigits n o
    · simp only [if_pos c2]
      fn_simp_goal
      simp only [needPad, if_pos c2, padCur]
      constructor
      · rintro ⟨h1, h2, rfl⟩; exact ⟨by omega, rfl⟩
      · rintro ⟨h1, rfl⟩; exact ⟨by omega, by omega, rfl⟩
    · simp only [if_neg c2]
      by_cases c3 : n = 1
      · simp only [if_pos c3]
        fn_simp_goal
        constructor
        · rintro ⟨h1, rfl⟩; exact ⟨by omega, rfl⟩
        · rintro ⟨h1, rfl⟩; exact ⟨by omega, rfl⟩
      · simp only [if_neg c3]
        fn_simp_goal
        constructor <;> rintro ⟨h1, rfl⟩ <;> exact ⟨h1, rfl⟩

theorem sciN_panic_iff (fmt : Format) (feats : Features) (nd : Nat) (ds : List Nat) (e : Int) (o : WOpts) (b : WBuf)
    (hc1 : 1 ≤ (truncateAndRound ds o).1.length) (hc2 : (truncateAndRound ds o).1.length ≤ ds.length) :
    sciN fmt feats nd ds e o b = .panic ↔
      b.len < needSciN fmt feats nd ds.length (roundSci ds o).1.length o
        (expSign fmt feats (e + (if (truncateAndRound ds o).2 = true then 1 else 0))).length
        (numeral fmt.exponentRadix (e + (if (truncateAndRound ds o).2 = true then 1 else 0)).natAbs).length := by
  unfold sciN needSciN roundSci
  dsimp only
  generalize truncateAndRound ds o = tr at hc1 hc2 ⊢
  obtain ⟨dr, c⟩ := tr
  dsimp only at hc1 hc2 ⊢
  have hk := trimSci_length o dr hc1
  generalize trimSci o dr = ds' at hk ⊢
  generalize e + (if c = true then 1 else 0) = e'
  have hge := needExp_ge feats fmt.exponentRadix (bodyCur fmt ds'.length o) (expSign fmt feats e').length
    (numeral fmt.exponentRadix e'.natAbs).length
  have hbc := bodyCur_ge fmt ds'.length o
  constructor <;> intro h
  · simp only [bind_panic_iff, demand_panic_iff, demand_ok_iff, blit_panic_iff, blit_ok_iff, get_panic_iff, get_ok_iff,
      set_panic_iff, set_ok_iff, ex_elim, ex_elim_unit, put_len, sciBody_panic_iff, sciBody_ok_iff, writeExponentB_panic_iff,
      bodyBuf_len, chars_length, List.length_nil] at h
    generalize needExp feats fmt.exponentRadix (bodyCur fmt ds'.length o) (expSign fmt feats e').length
      (numeral fmt.exponentRadix e'.natAbs).length = ne at hge h ⊢
    generalize needBody fmt ds'.length 0 o = nb at h ⊢
    omega
  · simp only [bind_panic_iff, demand_panic_iff, demand_ok_iff, blit_panic_iff, blit_ok_iff, get_panic_iff, get_ok_iff,
      set_panic_iff, set_ok_iff, ex_elim, ex_elim_unit, put_len, sciBody_panic_iff, sciBody_ok_iff, writeExponentB_panic_iff,
      bodyBuf_len, chars_length, List.length_nil]
    generalize needExp feats fmt.exponentRadix (bodyCur fmt ds'.length o) (expSign fmt feats e').length
      (numeral fmt.exponentRadix e'.natAbs).length = ne at hge h ⊢
    generalize needBody fmt ds'.length 0 o = nb at h ⊢
    omega

theorem sciN_ok_facts (fmt : Format) (feats : Features) (nd : Nat) (ds : List Nat) (e : Int) (o : WOpts) (b : WBuf) (r : Out)
    (hc1 : 1 ≤ (truncateAndRound ds o).1.length) (hc2 : (truncateAndRound ds o).1.length ≤ ds.length)
    (h : sciN fmt feats nd ds e o b = .ok r) :
    r.buf.len = b.len ∧
    r.cursor ≤ needSciN fmt feats nd ds.length (roundSci ds o).1.length o
        (expSign fmt feats (e + (if (truncateAndRound ds o).2 = true then 1 else 0))).length
        (numeral fmt.exponentRadix (e + (if (truncateAndRound ds o).2 = true then 1 else 0)).natAbs).length ∧
    r.buf.hi ≤ max b.hi (needSciN fmt feats nd ds.length (roundSci ds o).1.length o
        (expSign fmt feats (e + (if (truncateAndRound ds o).2 = true then 1 else 0))).length
        (numeral fmt.exponentRadix (e + (if (truncateAndRound ds o).2 = true then 1 else 0)).natAbs).length) := by
  unfold sciN at h
  unfold needSciN roundSci
  dsimp only at h ⊢
  generalize truncateAndRound ds o = tr at hc1 hc2 h ⊢
  obtain ⟨dr, c⟩ := tr
  dsimp only at hc1 hc2 h ⊢
  have hk := trimSci_length o dr hc1
  generalize trimSci o dr = ds' at h hk ⊢
  generalize e + (if c = true then 1 else 0) = e' at h ⊢
  simp only [bind_ok_iff, demand_ok_iff, blit_ok_iff, get_ok_iff, set_ok_iff, ex_elim, ex_elim_unit] at h
  obtain ⟨_, _, _, _, _, _, r1, h1, h2⟩ := h
  obtain ⟨hl, hc, hh⟩ := sciBody_ok_facts _ _ _ _ _ _ h1
  obtain ⟨el, ec, eh⟩ := writeExponentB_ok_facts _ _ _ _ _ _ _ h2
  simp only [put_len, chars_length, put_hi, List.length_cons, List.length_nil] at hl hh
  rw [hc] at ec
  refine ⟨by rw [el, hl], ?_, ?_⟩
  · rw [ec]; unfold needExp; omega
  · rw [eh, ec]; unfold needExp
    have := bodyCur_ge fmt ds'.length o
    omega

end LexVerif.Proof.WriteFloatBound
