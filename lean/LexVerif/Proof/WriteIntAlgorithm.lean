import LexVerif.Proof.WriteIntDigits
import LexVerif.Proof.WriteIntApi
/-!
# Proof.WriteIntAlgorithm — `algorithm.rs::algorithm` (u8..u64) is correct whenever the digit count is exact
-/
namespace LexVerif.Model.WriteInt
open LexVerif.Spec

theorem algorithm_eq (bits value radix : Nat) (buffer : Buf) : algorithm bits value radix buffer =
  if ¬ (2 ≤ radix ∧ radix ≤ 36) then .panic else
  if tableLen radix < radix * radix * 2 % 2 ^ 32 then .panic else
  digitCountSmall bits value radix >>= fun count =>
  if ¬ count ≤ buffer.length then .panic else
  writeDigits bits value radix (buffer.take count) (buffer.take count).length >>= fun w =>
  Res.ok (w.1 ++ buffer.drop count, count) := rfl

theorem algorithm_spec (bits r value : Nat) (hb : SmallBits bits) (hr : 2 ≤ r) (hr36 : r ≤ 36)
    (hv : value < 2 ^ bits) (hcount : digitCountSmall bits value r = .ok (toDigits r value).length) :
    MantSpec (algorithm bits value r) (numeral r value) (numeral r value).length := by
  intro buffer hbuf
  rw [numeral_length] at hbuf ⊢
  obtain ⟨H4, H2, HN2⟩ := widths_ok bits r hb hr hr36
  have hb8 : 8 ≤ bits := by rcases hb with h | h | h | h <;> omega
  have hb64 : bits ≤ 64 := by rcases hb with h | h | h | h <;> omega
  have htab : ¬ tableLen r < r * r * 2 % 2 ^ 32 := by
    have := sq_le_36 r hr36
    rw [Nat.mod_eq_of_lt (by omega)]; unfold tableLen; rw [Nat.mul_assoc]; omega
  rw [algorithm_eq, if_neg (by simp [hr, hr36]), if_neg htab, hcount, bind_ok, if_neg (by omega)]
  have htl : (buffer.take (toDigits r value).length).length = (toDigits r value).length := by
    simp [List.length_take]; omega
  -- 64-bit `usize`: the buffer length is a `usize`
  by_cases hbig : (toDigits r value).length < 2 ^ 64
  · obtain ⟨pre', hl, hrun⟩ := writeDigits_spec bits r value hr hr36 hb8 hb64 hv H4 H2 HN2
      (buffer.take (toDigits r value).length) [] (by omega) (by omega)
    rw [List.append_nil] at hrun
    rw [hrun, bind_ok]
    have : pre' = [] := by
      apply List.eq_nil_of_length_eq_zero; omega
    subst this
    simp
  · exfalso
    have := toDigits_length_le_bits r value bits hr (by omega) hv
    omega

end LexVerif.Model.WriteInt

namespace LexVerif.Model.WriteInt
open LexVerif.Spec

/-- `fast_log2(x)` is `⌊log2 x⌋` (0 for `x = 0`) -/
theorem fastLog2_spec (bits x : Nat) (hb : 1 ≤ bits) (hx : x < 2 ^ bits) :
    x < 2 ^ (fastLog2 bits x + 1) ∧ (1 ≤ x → 2 ^ fastLog2 bits x ≤ x) ∧ (x = 0 → fastLog2 bits x = 0) := by
  have hy0 : x ||| 1 ≠ 0 := by
    intro h; have := Nat.or_eq_zero_iff.mp h; omega
  have h1 : (1:Nat) < 2 ^ bits := by
    calc 1 < 2 ^ 1 := by decide
      _ ≤ 2 ^ bits := Nat.pow_le_pow_right (by omega) hb
  have hyb : x ||| 1 < 2 ^ bits := Nat.or_lt_two_pow hx h1
  have hlog : Nat.log2 (x ||| 1) < bits := (Nat.log2_lt hy0).mpr hyb
  have hfl : fastLog2 bits x = Nat.log2 (x ||| 1) := by
    unfold fastLog2 clz; rw [if_neg hy0]; omega
  rw [hfl]
  have hup : x ||| 1 < 2 ^ (Nat.log2 (x ||| 1) + 1) := Nat.lt_log2_self
  have hlo : 2 ^ Nat.log2 (x ||| 1) ≤ x ||| 1 := Nat.log2_self_le hy0
  refine ⟨Nat.lt_of_le_of_lt Nat.left_le_or hup, ?_, ?_⟩
  · intro hx1
    rcases Nat.eq_zero_or_pos (Nat.log2 (x ||| 1)) with h0 | h0
    · rw [h0]; simpa using hx1
    · rcases Nat.lt_or_ge x (2 ^ Nat.log2 (x ||| 1)) with hlt | hge
      · exfalso
        have h1' : (1:Nat) < 2 ^ Nat.log2 (x ||| 1) := by
          calc 1 < 2 ^ 1 := by decide
            _ ≤ 2 ^ Nat.log2 (x ||| 1) := Nat.pow_le_pow_right (by omega) h0
        have := Nat.or_lt_two_pow hlt h1'
        omega
      · exact hge
  · intro h0; subst h0; decide

/-- digit count of a power-of-two radix `2^s` from `fast_log2` -/
theorem pow2_count (bits x s : Nat) (hb : 1 ≤ bits) (hx : x < 2 ^ bits) (hs : 1 ≤ s) (hs5 : s ≤ 5) :
    (toDigits (2 ^ s) x).length = fastLog2 bits x / s + 1 := by
  obtain ⟨hup, hlo, hz⟩ := fastLog2_spec bits x hb hx
  have hr : 2 ≤ 2 ^ s := by
    calc 2 = 2 ^ 1 := by simp
      _ ≤ 2 ^ s := Nat.pow_le_pow_right (by omega) hs
  generalize fastLog2 bits x = l at *
  apply toDigits_length_eq (2 ^ s) x (l / s + 1) hr (Nat.le_add_left 1 _)
  · rw [← Nat.pow_mul]
    refine Nat.lt_of_lt_of_le hup (Nat.pow_le_pow_right (by omega) ?_)
    have := Nat.div_add_mod l s
    have := Nat.mod_lt l (by omega : 0 < s)
    rw [Nat.mul_add]; omega
  · rcases Nat.eq_zero_or_pos x with h0 | h0
    · left; rw [hz h0]; simp
    · right
      rw [Nat.add_sub_cancel, ← Nat.pow_mul]
      refine Nat.le_trans (Nat.pow_le_pow_right (by omega) ?_) (hlo h0)
      exact Nat.mul_div_le l s

/-- `digit_count` is exact for every non-decimal radix on u8..u64 -/
theorem digitCountSmall_spec (bits r value : Nat) (hb : SmallBits bits) (hr : 2 ≤ r) (hr36 : r ≤ 36)
    (h10 : r ≠ 10) (hv : value < 2 ^ bits) :
    digitCountSmall bits value r = .ok (toDigits r value).length := by
  have hb1 : 1 ≤ bits := by rcases hb with h | h | h | h <;> omega
  unfold digitCountSmall
  rw [if_neg (by simp [hr, hr36]), if_neg h10]
  by_cases h2 : r = 2
  · subst h2; rw [if_pos rfl]
    have := pow2_count bits value 1 hb1 hv (by omega) (by omega)
    simp at this; rw [this]
  rw [if_neg h2]
  by_cases h4 : r = 4
  · subst h4; rw [if_pos rfl]
    have := pow2_count bits value 2 hb1 hv (by omega) (by omega)
    rw [show (2:Nat) ^ 2 = 4 from rfl] at this; rw [this]
  rw [if_neg h4]
  by_cases h8 : r = 8
  · subst h8; rw [if_pos rfl]
    have := pow2_count bits value 3 hb1 hv (by omega) (by omega)
    rw [show (2:Nat) ^ 3 = 8 from rfl] at this; rw [this]
  rw [if_neg h8]
  by_cases h16 : r = 16
  · subst h16; rw [if_pos rfl]
    have := pow2_count bits value 4 hb1 hv (by omega) (by omega)
    rw [show (2:Nat) ^ 4 = 16 from rfl] at this; rw [this]
  rw [if_neg h16]
  by_cases h32 : r = 32
  · subst h32; rw [if_pos rfl]
    have := pow2_count bits value 5 hb1 hv (by omega) (by omega)
    rw [show (2:Nat) ^ 5 = 32 from rfl] at this; rw [this]
  rw [if_neg h32]
  exact naiveCount_spec bits r value hb hr hr36 hv

/-- `Radix::radix` for u8..u64 (and for u128 values that fit in 64 bits) writes the canonical numeral -/
theorem radixWrite_small_spec (feats : Features) (bits r value : Nat) (hb : SmallBits bits) (hr : 2 ≤ r)
    (hr36 : r ≤ 36) (h10 : r ≠ 10) (hv : value < 2 ^ bits) (htab : hasTable feats r = true) :
    MantSpec (radixWrite feats bits value r) (numeral r value) (numeral r value).length := by
  intro buffer hbuf
  have hne : bits ≠ 128 := by rcases hb with h | h | h | h <;> omega
  unfold radixWrite
  rw [if_neg (by simp [htab]), if_neg hne]
  exact algorithm_spec bits r value hb hr hr36 hv (digitCountSmall_spec bits r value hb hr hr36 h10 hv) buffer hbuf

theorem radixWrite_u128_small_spec (feats : Features) (r value : Nat) (hr : 2 ≤ r)
    (hr36 : r ≤ 36) (h10 : r ≠ 10) (hv : value < 2 ^ 64) (htab : hasTable feats r = true)
    (hvalid : validRadix feats r = true) :
    MantSpec (radixWrite feats 128 value r) (numeral r value) (numeral r value).length := by
  intro buffer hbuf
  have htabl : ¬ tableLen r < r * r * 2 % 2 ^ 32 := by
    have := sq_le_36 r hr36
    rw [Nat.mod_eq_of_lt (by omega)]; unfold tableLen; rw [Nat.mul_assoc]; omega
  unfold radixWrite
  rw [if_neg (by simp [htab]), if_pos rfl]
  unfold algorithmU128
  rw [if_neg (by simp [hvalid]), if_neg (by simp [hr, hr36]), if_neg htabl, if_pos (by omega),
    Nat.mod_eq_of_lt hv]
  exact algorithm_spec 64 r value (Or.inr (Or.inr (Or.inr rfl))) hr hr36 hv
    (digitCountSmall_spec 64 r value (Or.inr (Or.inr (Or.inr rfl))) hr hr36 h10 hv) buffer hbuf

end LexVerif.Model.WriteInt
