import LexVerif.Proof.ExtRound
import LexVerif.Model.FastPath
/-!
# Proof.FastPathExact — `try_fast_path` returns the correctly rounded float

`fastPath_exact`: whenever the model's `tryFastPath` answers `some v`, `v` is `roundNE (m·r^e)` with the
sign attached.  Ingredients: the mantissa (`≤ 2^p`, checked) converts exactly; the table entry
`pow_fast_path(e)` is exactly `r^e` for every `e ≤ exponent_limit` (`FloatPowStmt`, a table theorem);
one correctly rounded multiplication or division (IEEE assumption built into `fmul`/`fdiv`); in the
disguised case `m·r^shift` is computed exactly in `u64` (`int_pow_fast_path` exact, overflow checked) and
re-checked against `2^p`.  Mathlib-free.
-/
namespace LexVerif.Proof.FastPathExact
open LexVerif.Spec LexVerif.Spec.PowerTables LexVerif.Model LexVerif.Model.FastPath LexVerif.Proof.Tables
open LexVerif.Proof.RoundNE LexVerif.Proof.ExtRound

/-- what the proof needs from the tables of one radix (all are table theorems of `Props.TablesParse`) -/
structure FastTables (S : SmallSet) (f : Fmt) (r : Nat) : Prop where
  pow : ∀ e (he : e < (S.floatPow f r).size),
    floatPowOk f (S.exponentLimit f r).2 r e (S.floatPow f r)[e] = true
  lim : limitsOk S f r = true
  int : ∀ e (he : e < (S.intPow r).size), (S.intPow r)[e] = r ^ e
  rpos : 0 < r
  powSize : (S.exponentLimit f r).2 < ((S.floatPow f r).size : Int)
  intSize : S.mantissaLimit f r < ((S.intPow r).size : Int)

theorem toFrac_den_pos (d : Dec) : 0 < d.toFrac.2 := by
  unfold Dec.toFrac; split
  · exact Nat.one_pos
  · exact Nat.two_pow_pos _

/-- integers up to `2^p` convert exactly -/
theorem ofU64_exact {f : Fmt} (hf : WF f) (hpb : f.p + 1 ≤ f.bias) {m : Nat} (hm : m ≤ 2 ^ f.p) :
    (fracOf f (ofU64 f m)).1 = m * (fracOf f (ofU64 f m)).2 := by
  have hp := hf.hp
  have hTT := two_pow_P hf
  unfold ofU64 fracOf
  by_cases h0 : m = 0
  · subst h0
    rw [roundNE_zero]
    have : f.decode 0 = ⟨false, 0, f.eminLsb⟩ := by
      rw [decode_finite hf (infBits_pos hf)]; simp
    rw [this]; unfold Dec.toFrac; split <;> simp
  · -- m = q0·2^(-(p - bl)), q0 = m·2^(p-bl)
    have hlo := bitlen_lower h0
    have hup := bitlen_upper m
    have hbpos := bitlen_pos h0
    have hbl : bitlen m ≤ f.p + 1 := by
      apply Classical.byContradiction; intro hc
      have : 2 ^ (f.p + 1) ≤ 2 ^ (bitlen m - 1) := Nat.pow_le_pow_right (by decide) (by omega)
      have : 2 ^ f.p < 2 ^ (f.p + 1) := Nat.pow_lt_pow_right (by decide) (by omega)
      omega
    generalize bitlen m = bl at *
    -- k = L - (p - bl), q0 = m * 2^(p - bl)
    have hLp : f.p ≤ L f := by unfold L; omega
    have key : roundNE f m 1 = (L f - (f.p - bl)) * 2 ^ (f.p - 1) + m * 2 ^ (f.p - bl) ∧
        ival f ((L f - (f.p - bl)) * 2 ^ (f.p - 1) + m * 2 ^ (f.p - bl)) = m * 2 ^ L f ∧
        (L f - (f.p - bl)) * 2 ^ (f.p - 1) + m * 2 ^ (f.p - bl) < f.infBits := by
      have hq1 : 2 ^ (f.p - 1) ≤ m * 2 ^ (f.p - bl) := by
        by_cases hc : bl ≤ f.p
        · calc 2 ^ (f.p - 1) = 2 ^ (bl - 1) * 2 ^ (f.p - bl) := by rw [← Nat.pow_add]; congr 1; omega
            _ ≤ m * 2 ^ (f.p - bl) := Nat.mul_le_mul_right _ hlo
        · have : f.p - bl = 0 := by omega
          rw [this, Nat.pow_zero, Nat.mul_one]
          have : 2 ^ (f.p - 1) ≤ 2 ^ (bl - 1) := Nat.pow_le_pow_right (by decide) (by omega)
          omega
      have hq2 : m * 2 ^ (f.p - bl) ≤ 2 * 2 ^ (f.p - 1) := by
        rw [← hTT]
        by_cases hc : bl ≤ f.p
        · have : m * 2 ^ (f.p - bl) < 2 ^ bl * 2 ^ (f.p - bl) :=
            Nat.mul_lt_mul_of_pos_right hup (Nat.two_pow_pos _)
          rw [← Nat.pow_add, show bl + (f.p - bl) = f.p by omega] at this
          omega
        · have : f.p - bl = 0 := by omega
          rw [this, Nat.pow_zero, Nat.mul_one]; exact hm
      have hval : m * 2 ^ (f.p - bl) * 2 ^ (L f - (f.p - bl)) = m * 2 ^ L f := by
        rw [Nat.mul_assoc, ← Nat.pow_add]; congr 2; omega
      have hk : 0 < L f - (f.p - bl) := by omega
      have hr := roundNE_of_q0 (num := m) hf (show (1 : Nat) ≠ 0 by decide) (L f - (f.p - bl))
        (m * 2 ^ (f.p - bl)) (fun _ => hq1) hq2
        (by rw [Nat.one_mul, Nat.mul_comm (2 ^ _), hval]; exact Nat.le_add_right _ _)
        (by rw [Nat.one_mul, Nat.mul_comm (2 ^ _), hval]; exact Nat.le_add_right _ _)
        (by rw [Nat.one_mul, Nat.mul_comm (2 ^ _), hval]; intro h; have := Nat.two_pow_pos (L f - (f.p - bl)); omega)
        (by rw [Nat.one_mul, Nat.mul_comm (2 ^ _), hval]; intro h; have := Nat.two_pow_pos (L f - (f.p - bl)); omega)
        (fun _ => by
          rw [Nat.one_mul, ← hval, Nat.mul_comm]
          exact Nat.mul_le_mul_right _ hq1)
      have hiv := ival_kq f (L f - (f.p - bl)) (m * 2 ^ (f.p - bl)) (fun _ => hq1) hq2
      rw [hval] at hiv
      -- below infinity: (k + 2)·T ≤ M·T
      have hMeq := M_eq hf
      have hfin : (L f - (f.p - bl)) * 2 ^ (f.p - 1) + m * 2 ^ (f.p - bl) < f.infBits := by
        rw [infBits_eq, hMeq]
        have h1 : (L f - (f.p - bl) + 2) * 2 ^ (f.p - 1) ≤ (2 * f.bias) * 2 ^ (f.p - 1) :=
          Nat.mul_le_mul_right _ (by unfold L; omega)
        have h2 : (2 * f.bias + 1) * 2 ^ (f.p - 1) = (2 * f.bias) * 2 ^ (f.p - 1) + 2 ^ (f.p - 1) := by
          rw [Nat.add_mul, Nat.one_mul]
        rw [Nat.add_mul] at h1
        have := Nat.two_pow_pos (f.p - 1)
        omega
      refine ⟨?_, hiv, hfin⟩
      rw [hr]; unfold encode; rw [if_neg (by omega)]
    obtain ⟨k1, k2, k3⟩ := key
    rw [k1]
    obtain ⟨t1, t2⟩ := toFrac_decode hf k3
    rw [k2] at t1
    -- a·2^L = m·2^L·b
    have : (f.decode ((L f - (f.p - bl)) * 2 ^ (f.p - 1) + m * 2 ^ (f.p - bl))).toFrac.1 * 2 ^ L f =
        (m * (f.decode ((L f - (f.p - bl)) * 2 ^ (f.p - 1) + m * 2 ^ (f.p - bl))).toFrac.2) * 2 ^ L f := by
      rw [t1]; ac_rfl
    exact Nat.eq_of_mul_eq_mul_right (Nat.two_pow_pos _) this

/-- a table entry the fast path may use is exactly `r^e` -/
theorem pow_entry {S : SmallSet} {F : FTy} {r : Nat} (T : FastTables S F.fmt r) {e v : Nat}
    (hv : powFastPath S F r e = some v) (he : (e : Int) ≤ (S.exponentLimit F.fmt r).2) :
    (fracOf F.fmt v).1 = r ^ e * (fracOf F.fmt v).2 := by
  unfold powFastPath at hv
  obtain ⟨hlt, heq⟩ := Array.getElem?_eq_some_iff.mp hv
  have := T.pow e hlt
  rw [heq] at this
  unfold floatPowOk at this
  rw [if_pos he] at this
  simp only [Bool.and_eq_true, beq_iff_eq] at this
  have h2 := this.2
  unfold exactlyRepr at h2
  simp only [Bool.and_eq_true, beq_iff_eq] at h2
  exact h2.2

theorem int_entry {S : SmallSet} {f : Fmt} {r : Nat} (T : FastTables S f r) {e v : Nat}
    (hv : intPowFastPath S r e = some v) : v = r ^ e := by
  unfold intPowFastPath at hv
  obtain ⟨hlt, heq⟩ := Array.getElem?_eq_some_iff.mp hv
  rw [← heq]; exact T.int e hlt

theorem limits_of {S : SmallSet} {f : Fmt} {r : Nat} (T : FastTables S f r) :
    S.minExpFast f r = -(S.exponentLimit f r).2 ∧ S.maxExpFast f r = (S.exponentLimit f r).2 ∧
    0 ≤ (S.exponentLimit f r).2 := by
  have := T.lim
  unfold limitsOk exponentLimitOk at this
  simp only [Bool.and_eq_true, beq_iff_eq, decide_eq_true_eq] at this
  obtain ⟨⟨⟨⟨⟨⟨h1, h2⟩, _⟩, _⟩, h3⟩, h4⟩, _⟩ := this
  refine ⟨by rw [h3, h2], h4, h1⟩

theorem fmul_exact {f : Fmt} (hf : WF f) {a b m k : Nat}
    (ha : (fracOf f a).1 = m * (fracOf f a).2) (hb : (fracOf f b).1 = k * (fracOf f b).2) :
    fmul f a b = roundNE f (m * k) 1 := by
  unfold fmul
  have h1 : 0 < (fracOf f a).2 := toFrac_den_pos _
  have h2 : 0 < (fracOf f b).2 := toFrac_den_pos _
  simp only []
  apply roundNE_congr' hf (Nat.mul_pos h1 h2) Nat.one_pos
  rw [ha, hb]; ac_rfl

theorem fdiv_exact {f : Fmt} (hf : WF f) {a b m k : Nat} (hk : 0 < k)
    (ha : (fracOf f a).1 = m * (fracOf f a).2) (hb : (fracOf f b).1 = k * (fracOf f b).2) :
    fdiv f a b = roundNE f m k := by
  unfold fdiv
  have h1 : 0 < (fracOf f a).2 := toFrac_den_pos _
  have h2 : 0 < (fracOf f b).2 := toFrac_den_pos _
  have h3 : 0 < (fracOf f b).1 := by rw [hb]; exact Nat.mul_pos hk h2
  simp only []
  rw [if_neg (by omega)]
  apply roundNE_congr' hf (Nat.mul_pos h1 h3) hk
  rw [ha, hb]; ac_rfl

theorem sign_eq (neg : Bool) (A B sb : Nat) (h : A = B) :
    (if neg = true then A + sb else A) = B + (if neg = true then sb else 0) := by
  subst h; cases neg <;> simp

/-- **`try_fast_path` is exact**: an answer `some v` is the correctly rounded, signed float of
`mantissa · radix^exponent`. -/
theorem fastPath_exact {F : FTy} {p eb : Nat} (lay : Layout F p eb) {S : SmallSet} {r : Nat}
    (T : FastTables S F.fmt r) (expBase : Nat) (n : Num) (v : Nat)
    (h : tryFastPath S F r expBase n = .some v) :
    v = roundSigned F.fmt n.isNegative (powFrac r n.exponent n.mantissa).1
          (powFrac r n.exponent n.mantissa).2 := by
  have hf := lay.wf
  have hpb : F.fmt.p + 1 ≤ F.fmt.bias := by rw [lay.fmt]; exact lay.hpb
  have hfp : F.fmt.p = p := by rw [lay.fmt]
  obtain ⟨hmin, hmax, hlim0⟩ := limits_of T
  have hrpos := T.rpos
  unfold tryFastPath at h
  split at h
  · exact absurd h (by simp)
  · split at h
    · rename_i hfast
      unfold isFastPath at hfast
      simp only [Bool.and_eq_true, decide_eq_true_eq, Bool.not_eq_true'] at hfast
      obtain ⟨⟨⟨hlo, hhi⟩, hmant⟩, _⟩ := hfast
      rw [lay.maxMant] at hmant
      have hm : n.mantissa ≤ 2 ^ F.fmt.p := by rw [hfp]; exact_mod_cast hmant
      simp only [] at h
      unfold roundSigned powFrac withSign at *
      split at h
      · -- normal fast path
        rename_i hnorm
        split at h
        · rename_i hneg
          split at h
          · rename_i pw hpw
            injection h with h
            rw [if_neg (by omega), ← h]
            apply sign_eq
            have hent := pow_entry T hpw (by omega)
            exact fdiv_exact hf (Nat.pow_pos hrpos) (ofU64_exact hf hpb hm) hent
          · exact absurd h (by simp)
        · rename_i hneg
          split at h
          · rename_i pw hpw
            injection h with h
            rw [if_pos (by omega), ← h]
            apply sign_eq
            have hent := pow_entry T hpw (by omega)
            exact fmul_exact hf (ofU64_exact hf hpb hm) hent
          · exact absurd h (by simp)
      · -- disguised fast path
        rename_i hnorm
        split at h
        · exact absurd h (by simp)
        · rename_i ip hip
          split at h
          · exact absurd h (by simp)
          · rename_i hov
            split at h
            · exact absurd h (by simp)
            · rename_i hbig
              split at h
              · rename_i pw hpw
                injection h with h
                have hipv := int_entry T hip
                rw [lay.maxMant] at hbig
                have hm2 : n.mantissa * ip ≤ 2 ^ F.fmt.p := by
                  rw [hfp]; exact_mod_cast (Int.not_lt.mp hbig)
                have hent := pow_entry T hpw (by omega)
                rw [if_pos (by omega), ← h]
                apply sign_eq
                rw [fmul_exact hf (ofU64_exact hf hpb hm2) hent, hipv, Nat.mul_assoc, ← Nat.pow_add]
                have : (n.exponent - S.maxExpFast F.fmt r).toNat + (S.maxExpFast F.fmt r).toNat = n.exponent.toNat := by omega
                rw [this]
              · exact absurd h (by simp)
    · exact absurd h (by simp)

/-- **`try_fast_path` never panics**: every table index it uses is inside the table -/
theorem fastPath_no_panic {F : FTy} {S : SmallSet} {r : Nat} (T : FastTables S F.fmt r) (expBase : Nat)
    (n : Num) : tryFastPath S F r expBase n ≠ .panic := by
  obtain ⟨hmin, hmax, hlim0⟩ := limits_of T
  have hdis : S.maxExpDisguised F.fmt r = (S.exponentLimit F.fmt r).2 + S.mantissaLimit F.fmt r := by
    have := T.lim
    unfold limitsOk at this
    simp only [Bool.and_eq_true, beq_iff_eq] at this
    exact this.2
  have hps := T.powSize
  have his := T.intSize
  unfold tryFastPath
  split
  · simp
  · split
    · rename_i hfast
      unfold isFastPath at hfast
      simp only [Bool.and_eq_true, decide_eq_true_eq, Bool.not_eq_true'] at hfast
      obtain ⟨⟨⟨hlo, hhi⟩, _⟩, _⟩ := hfast
      simp only []
      split
      · rename_i hnorm
        split
        · have hidx : (-n.exponent).toNat < (S.floatPow F.fmt r).size := by omega
          unfold powFastPath
          rw [Array.getElem?_eq_getElem hidx]; simp
        · have hidx : n.exponent.toNat < (S.floatPow F.fmt r).size := by omega
          unfold powFastPath
          rw [Array.getElem?_eq_getElem hidx]; simp
      · rename_i hnorm
        have hidx : (n.exponent - S.maxExpFast F.fmt r).toNat < (S.intPow r).size := by omega
        have hidx2 : (S.maxExpFast F.fmt r).toNat < (S.floatPow F.fmt r).size := by omega
        unfold intPowFastPath powFastPath
        rw [Array.getElem?_eq_getElem hidx, Array.getElem?_eq_getElem hidx2]
        simp only []
        split
        · simp
        · split <;> simp
    · simp

end LexVerif.Proof.FastPathExact
