import LexVerif.Proof.SepGen3
/-!
# Proof.SepGen4 — the re-scan of a stored digit slice (`parse_u64_digits` of the many-digits path) in terms of the
stripped slice, for any component whose iterator, restarted on the slice, runs through all of it (`SliceOK`)
-/
set_option linter.unusedSimpArgs false
namespace LexVerif.Proof.Sep
open LexVerif LexVerif.Model LexVerif.Spec
open LexVerif.Props.C12

/-- what the re-scan of a stored digit slice `R` needs: either the component has no separator flags and the slice has
no separator byte, or its iterator, restarted on the slice alone, runs through all of it (yielding digits `ds`) -/
def SliceOK (c : Cfg) (k : Comp) (R : List Nat) : Prop :=
  (c.iterContiguous k = true ∧ NoSep c R) ∨
  (c.iterContiguous k = false ∧ ∃ ds e', parseDigits c k c.mantissaRadix (Bytes.new R) = .ok (ds, e') ∧
    e'.index = R.length)

theorem nonSep_of_noSep (c : Cfg) (l : List Nat) (h : NoSep c l) : nonSep c l = l := by
  simp only [nonSep, List.filter_eq_self]
  intro x hx; simp [h x hx]

theorem zerosPrefix_replicate (z : Nat) (rest : List Nat) (h : ∀ x, rest.head? = some x → x ≠ 48) :
    zerosPrefix (List.replicate z 48 ++ rest) = z := by
  induction z with
  | zero =>
    simp only [List.replicate_zero, List.nil_append]
    cases rest with
    | nil => rfl
    | cons x xs => simp [zerosPrefix, h x rfl]
  | succ n ih => simp [List.replicate_succ, zerosPrefix, ih]

theorem slice_zero_length (l : List Nat) : slice l 0 l.length = l := by simp [slice]

theorem currentCount_advS (c : Cfg) (k : Comp) (di dc : Nat) (b : Bytes) (hf : c.feats.format = true)
    (hb : c.bytesContiguous = false) (hk : k ≠ .special) :
    Bytes.currentCount c (advS c k di dc b) = Bytes.currentCount c b + dc := by
  simp only [Bytes.currentCount, hb, Bool.false_eq_true, if_false, advS_count c k di dc b hf hk]

/-- **re-scan with `skip_zeros` first** -/
theorem rescan_zeros_u64 (c : Cfg) (o : POpts) (hG : GenStrip c o) (k : Comp) (hk : k = .integer ∨ k = .fraction)
    (R : List Nat) (hok : SliceOK c k R) (m st : Nat) :
    ∃ n bz bu, skipZeros c k (Bytes.new R) = .ok (n, bz) ∧
      parseU64Digits c k bz m st =
        .ok (bu, (u64Spec c.mantissaRadix ((nonSep c R).drop (zerosPrefix (nonSep c R))) m st).2.1,
             (u64Spec c.mantissaRadix ((nonSep c R).drop (zerosPrefix (nonSep c R))) m st).2.2) ∧
      Bytes.currentCount c bu = zerosPrefix (nonSep c R)
        + (u64Spec c.mantissaRadix ((nonSep c R).drop (zerosPrefix (nonSep c R))) m st).1 := by
  have hks : k ≠ .special := by rcases hk with rfl | rfl <;> decide
  rcases hok with ⟨hc, hn⟩ | ⟨hc, ds, e', hrun, hend⟩
  · have hp := plainPeek_noskip c k R (skip_of_contig c k hc)
    rw [nonSep_of_noSep c R hn]
    have hz := skipZeros_pk c k hG.rel.debug (Bytes.new R) hp
    have hu := parseU64_pk c k hG.rel (adv c k (zerosPrefix R) (Bytes.new R)) m st (by simpa [new_slc] using hp)
    simp only [new_slc, new_index, List.drop_zero] at hz
    simp only [adv_slc, adv_index, new_slc, new_index, Nat.zero_add] at hu
    refine ⟨_, _, _, hz, hu, ?_⟩
    simp only [currentCount_adv c k _ _ hks, currentCount_new, Nat.zero_add]
  · have hv0 : Bytes.Valid (Bytes.new R) := by simp [Bytes.Valid, Bytes.new]
    have htr := parseDigits_trace c k _ hG.rel.debug hG.sepDigM _ e' ds hv0 hrun
    have h48 : charToDigit 48 c.mantissaRadix = some 0 := by
      have := hG.radixM1
      unfold charToDigit charToValidDigit
      by_cases h10 : c.mantissaRadix ≤ 10
      · simp [h10]; omega
      · simp [h10]; omega
    unfold parseDigits at hrun
    obtain ⟨bz, z, g1, g2, g3, g4, g5, g6, g7, g8⟩ :=
      skipZerosLoop_along c k _ hG.rel.debug (hG.rel.reach k) hG.sepDigM h48 _ _ e' ds hv0 hrun
    simp only [new_slc, new_index, Nat.sub_zero] at g3 g4 g5 g6 g7
    have hyl := htr.2.2.2.1
    simp only [new_slc, new_index, hend, slice_zero_length] at hyl
    -- the stripped slice = the zeros + what follows the cursor after `skip_zeros`
    have hsplit : nonSep c R = List.replicate z 48 ++ nonSep c (R.drop bz.index) := by
      have h0 := drop_slice_append R 0 bz.index (Nat.zero_le _)
      simp only [List.drop_zero] at h0
      have h1 : nonSep c R = nonSep c (slice R 0 bz.index ++ R.drop bz.index) := congrArg (nonSep c) h0
      rw [h1, nonSep_append, g6]
    have hzero : zerosPrefix (nonSep c R) = z := by
      rw [hsplit]
      apply zerosPrefix_replicate
      intro x hx
      by_cases hz : z < ds.length
      · obtain ⟨⟨v, hv, hv48, hvd⟩, _⟩ := g7 hz
        have hvs : c.isSep v = false := by
          cases hcs : c.isSep v with
          | false => rfl
          | true => have := hG.sepDigM v hcs; rw [this] at hvd; cases hvd
        rw [drop_of_get hv, nonSep_cons_non c v _ hvs] at hx
        simp only [List.head?_cons, Option.some.injEq] at hx
        rw [← hx]; exact hv48
      · have hze : z = ds.length := by omega
        have := g8 hze
        rw [this, hend] at hx
        simp [nonSep] at hx
    have hbzslc : bz.slc = R := by rw [g3]; simp [new_slc]
    have hvz : Bytes.Valid bz := by unfold Bytes.Valid; rw [hbzslc]; have := htr.2.2.1; simp only [new_slc] at this; omega
    -- `parse_digits` continues from there with the remaining digits
    have hcont : parseDigitsLoop c k c.mantissaRadix (R.length + 1) bz = .ok (ds.drop z, e') := by
      by_cases hz : z < ds.length
      · exact (g7 hz).2
      · have hze : z = ds.length := by omega
        have hbe := g8 hze
        rw [hze, List.drop_length, hbe]
        have hpk : peek c k e' = .ok (none, e') := by
          rw [peek_at_nonsep c k e' (hG.rel.reach k)]
          · have : e'.slc = R := by rw [← hbe]; exact hbzslc
            rw [this, hend]; simp
          · intro x hx
            have : e'.slc = R := by rw [← hbe]; exact hbzslc
            rw [this, hend] at hx; simp at hx
        rw [parseDigitsLoop.eq_2]
        simp only [hpk, bind, Except.bind, pure, Except.pure]
    have hendz : bz.slc[e'.index]? = none := by rw [hbzslc, hend]; simp
    obtain ⟨bu, u1, u2, u3, u4⟩ := u64Loop1_along c k hG.rel.debug hG.sepDigM (R.length + 1) bz e' (ds.drop z) m st hvz
      hcont hendz
    -- bytes of the stripped slice after the zeros are the remaining digits
    have hmap : ((nonSep c R).drop z).map (fun x => charToDigit x c.mantissaRadix) = (ds.drop z).map some := by
      rw [List.map_drop, List.map_drop, hyl]
    have hspec := u64Spec_of_digits c.mantissaRadix _ _ m st hmap
    refine ⟨Bytes.iterCount c k bz - Bytes.iterCount c k (Bytes.new R), bz, bu, ?_, ?_, ?_⟩
    · unfold skipZeros
      simp only [new_slc] at g1
      simp only [new_slc, g1, bind, Except.bind, pure, Except.pure]
    · unfold parseU64Digits
      simp only [canMultidigit, hc, Bool.false_and, Bool.and_false, Bool.false_eq_true, if_false, pure, Except.pure,
        bind, Except.bind, hbzslc, u1, hzero, hspec]
    · rw [u2, g3, hzero, hspec]
      simp only [currentCount_advS c k _ _ _ hG.format hG.bytes hks, currentCount_new, Nat.zero_add]

/-- **re-scan without `skip_zeros`** -/
theorem rescan_u64 (c : Cfg) (o : POpts) (hG : GenStrip c o) (k : Comp) (hk : k = .integer ∨ k = .fraction)
    (R : List Nat) (hok : SliceOK c k R) (m st : Nat) :
    ∃ bu, parseU64Digits c k (Bytes.new R) m st =
        .ok (bu, (u64Spec c.mantissaRadix (nonSep c R) m st).2.1, (u64Spec c.mantissaRadix (nonSep c R) m st).2.2) ∧
      Bytes.currentCount c bu = (u64Spec c.mantissaRadix (nonSep c R) m st).1 := by
  have hks : k ≠ .special := by rcases hk with rfl | rfl <;> decide
  rcases hok with ⟨hc, hn⟩ | ⟨hc, ds, e', hrun, hend⟩
  · have hp := plainPeek_noskip c k R (skip_of_contig c k hc)
    rw [nonSep_of_noSep c R hn]
    have hu := parseU64_pk c k hG.rel (Bytes.new R) m st (by simpa [new_slc] using hp)
    simp only [new_slc, new_index, List.drop_zero] at hu
    refine ⟨_, hu, ?_⟩
    simp only [currentCount_adv c k _ _ hks, currentCount_new, Nat.zero_add]
  · have hv0 : Bytes.Valid (Bytes.new R) := by simp [Bytes.Valid, Bytes.new]
    have htr := parseDigits_trace c k _ hG.rel.debug hG.sepDigM _ e' ds hv0 hrun
    have hyl := htr.2.2.2.1
    simp only [new_slc, new_index, hend, slice_zero_length] at hyl
    unfold parseDigits at hrun
    simp only [new_slc] at hrun
    obtain ⟨bu, u1, u2, u3, u4⟩ := u64Loop1_along c k hG.rel.debug hG.sepDigM (R.length + 1) (Bytes.new R) e' ds m st hv0
      hrun (by simp [new_slc, hend])
    have hspec := u64Spec_of_digits c.mantissaRadix _ _ m st hyl
    refine ⟨bu, ?_, ?_⟩
    · unfold parseU64Digits
      simp only [canMultidigit, hc, Bool.false_and, Bool.and_false, Bool.false_eq_true, if_false, pure, Except.pure,
        bind, Except.bind, new_slc, u1, hspec]
    · rw [u2, hspec]
      simp only [currentCount_advS c k _ _ _ hG.format hG.bytes hks, currentCount_new, Nat.zero_add]

end LexVerif.Proof.Sep
