import LexVerif.Proof.ParseNumberC11SepMany
import LexVerif.Proof.SepFree8
/-!
# Proof.ParseNumberC11SepZeros — `ZerosMirror` for every component iterator

* a component WITH separator flags (non-contiguous iterator): `parse_8digits` is the identity, and `skip_zeros` started
  in the state of the first pass repeats its `peek` decisions (`zeros_mirror`);
* a component WITHOUT separator flags (contiguous iterator, `peek` = `slc.get(index)`): closed forms — the first pass
  (8-digit blocks, then single digits) consumes the longest run of digit bytes, `skip_zeros` the leading `'0'` bytes.
-/
set_option linter.unusedSectionVars false
set_option linter.unusedSimpArgs false
set_option linter.unusedVariables false
namespace LexVerif.Proof.C11
open LexVerif LexVerif.Model LexVerif.Spec
open LexVerif.Props.C12 (Bytes.Valid incCount_spec peek_spec stepUnchecked_release)
open LexVerif.Proof.PNTotal (Rel Adv csum)
open LexVerif.Proof.Sep (adv adv_zero adv_succ adv_slc adv_index adv_add digitsPrefix zerosPrefix drop_of_get drop_of_none
  parse8Loop_spec)

/-- only the cursor and the count of component `k` change -/
def Frame (k : Comp) (b b' : Bytes) : Prop :=
  (k ≠ .integer → b'.ic = b.ic) ∧ (k ≠ .fraction → b'.fc = b.fc) ∧ (k ≠ .exponent → b'.ec = b.ec)

theorem Frame.refl (k : Comp) (b : Bytes) : Frame k b b := ⟨fun _ => rfl, fun _ => rfl, fun _ => rfl⟩

theorem Frame.trans {k : Comp} {a b d : Bytes} (h1 : Frame k a b) (h2 : Frame k b d) : Frame k a d :=
  ⟨fun h => (h2.1 h).trans (h1.1 h), fun h => (h2.2.1 h).trans (h1.2.1 h), fun h => (h2.2.2 h).trans (h1.2.2 h)⟩

theorem frame_step_inc (c : Cfg) (k : Comp) (b : Bytes) (i : Nat) : Frame k b ((Bytes.at b i).incCount c k) := by
  unfold Frame Bytes.incCount Bytes.at
  cases k <;> cases c.feats.format <;> simp

section
variable {c : Cfg} {o : POpts} (H : SepCfg c o)
include H

theorem parseDigitsLoop_frame (k : Comp) (r : Nat) :
    ∀ (fuel : Nat) (b b' : Bytes) (ds : List Nat), Bytes.Valid b → parseDigitsLoop c k r fuel b = .ok (ds, b') →
      Frame k b b' := by
  intro fuel
  induction fuel with
  | zero => intro b b' ds _ h; simp [parseDigitsLoop] at h
  | succ f ih =>
    intro b b' ds hv h
    rw [parseDigitsLoop] at h
    cases hp : peek c k b with
    | error e => simp [hp, bind, Except.bind] at h
    | ok pr =>
      obtain ⟨v, b1⟩ := pr
      obtain ⟨p1, p2, p3, p4⟩ := peek_at c k b b1 v hv hp
      have hf1 : Frame k b b1 := by rw [p1]; exact ⟨fun _ => rfl, fun _ => rfl, fun _ => rfl⟩
      simp only [hp, bind, Except.bind, pure, Except.pure] at h
      cases v with
      | none =>
        simp only [Except.ok.injEq, Prod.mk.injEq] at h
        obtain ⟨_, rfl⟩ := h
        exact hf1
      | some ch =>
        simp only at h
        cases hdg : charToDigit ch r with
        | none =>
          simp only [hdg, Except.ok.injEq, Prod.mk.injEq] at h
          obtain ⟨_, rfl⟩ := h
          exact hf1
        | some d =>
          simp only [hdg, iterStep_r H.rel] at h
          have hlt : b1.index < b.slc.length := (List.getElem?_eq_some_iff.mp p2.symm).1
          cases hrec : parseDigitsLoop c k r f ((Bytes.at b1 (b1.index + 1)).incCount c k) with
          | error e => simp [hrec] at h
          | ok pr =>
            obtain ⟨ds2, b2⟩ := pr
            simp only [hrec, Except.ok.injEq, Prod.mk.injEq] at h
            obtain ⟨_, rfl⟩ := h
            have hs1 : b1.slc = b.slc := by rw [p1]; rfl
            have hvn : Bytes.Valid ((Bytes.at b1 (b1.index + 1)).incCount c k) := by
              simp only [Bytes.Valid, incCount_slc, incCount_index, at_index, at_slc, hs1]; omega
            exact (hf1.trans (frame_step_inc c k b1 _)).trans (ih _ _ _ hvn hrec)

/-- `Bytes::current_count` (sum of the three counts: there is a separator byte) against the count of component `k` -/
theorem cc_of_frame (k : Comp) (hk : k ≠ .special) (b b' : Bytes) (hf : Frame k b b') (hnc : c.iterContiguous k = false) :
    b'.currentCount c - b.currentCount c = b'.iterCount c k - b.iterCount c k := by
  unfold Bytes.currentCount Bytes.iterCount
  simp only [H.bytes, hnc, Bool.false_eq_true, if_false]
  obtain ⟨h1, h2, h3⟩ := hf
  cases k with
  | special => exact absurd rfl hk
  | integer => simp only; rw [h2 (by decide), h3 (by decide)]; omega
  | fraction => simp only; rw [h1 (by decide), h3 (by decide)]; omega
  | exponent => simp only; rw [h1 (by decide), h2 (by decide)]; omega

/-- truncation part of `ZerosMirror`, common to both kinds of iterator -/
theorem zerosMirror_of (k : Comp)
    (core : ∀ (b0 b1 b2 : Bytes) (m0 m : Nat) (ds : List Nat), Bytes.Valid b0 →
      parse8Digits c k b0 m0 = .ok (m, b1) → parseDigits c k c.mantissaRadix b1 = .ok (ds, b2) →
      ∃ z zb, skipZeros c k b0 = .ok (z, zb) ∧
        ((zb = b2 ∧ z = b2.currentCount c - b0.currentCount c) ∨
         (zb.index < b2.index ∧ zb.slc = b0.slc ∧ b0.index ≤ zb.index ∧
           ∃ x, b0.slc[zb.index]? = some x ∧ x ≠ 48 ∧ charToDigit x c.mantissaRadix ≠ none))) :
    ZerosMirror c k := by
  intro b0 b1 b2 m0 m ds hv h8 hdg
  obtain ⟨z, zb, hz, hor⟩ := core b0 b1 b2 m0 m ds hv h8 hdg
  refine ⟨z, zb, hz, hor, ?_⟩
  intro n ha
  obtain ⟨_, _, _, _, _, _, e7⟩ := skipZeros_truncS H.rel k (sep48 H) b0 zb z hv hz
  apply e7 n
  rcases hor with ⟨rfl, _⟩ | ⟨q1, q2, q3, x, q4, q5, q6⟩
  · exact ha
  · have hn := ha.1
    refine Adm.of_lt (by omega) ?_
    intro y hy
    rw [q2, q4] at hy
    cases hy
    cases hsx : c.isSep x with
    | false => rfl
    | true => exact absurd (H.sepM x hsx) q6

/-- a component with separator flags -/
theorem zerosMirror_skip (k : Comp) (hk : k ≠ .special) (hnc : c.iterContiguous k = false) : ZerosMirror c k := by
  apply zerosMirror_of H k
  intro b0 b1 b2 m0 m ds hv h8 hdg
  have e8 : parse8Digits c k b0 m0 = .ok (m0, b0) := by
    unfold parse8Digits canMultidigit
    simp only [hnc, Bool.false_and, Bool.false_eq_true, if_false, pure, Except.pure, ite_self]
  rw [e8] at h8
  simp only [Except.ok.injEq, Prod.mk.injEq] at h8
  obtain ⟨_, rfl⟩ := h8
  obtain ⟨d1, d2, d3, _, _⟩ := parseDigits_truncS H.rel k c.mantissaRadix H.sepM b0 b2 ds hv hdg
  have hb2 : b2.index ≤ b0.slc.length := by have : b2.index ≤ b2.slc.length := d3; rwa [d1] at this
  obtain ⟨zb, hzl, hor⟩ := zeros_mirror H.rel k c.mantissaRadix (charToDigit_48 _ H.radix) H.sepM _ b0 b2 ds hv hdg
    (b0.slc.length + 1) (by omega)
  refine ⟨zb.iterCount c k - b0.iterCount c k, zb, ?_, ?_⟩
  · unfold skipZeros
    simp only [hzl, bind, Except.bind, pure, Except.pure]
  · rcases hor with rfl | h2
    · left
      refine ⟨rfl, ?_⟩
      rw [cc_of_frame H k hk b0 zb (parseDigitsLoop_frame H k _ _ b0 zb ds hv hdg) hnc]
    · right; exact h2

/-! ## a component without separator flags: `peek` is `slc.get(index)` -/

omit H in
theorem skip_of_contig (k : Comp) (hk : k ≠ .special) (h : c.iterContiguous k = true) : c.skip k = .noskip := by
  cases k with
  | special => exact absurd rfl hk
  | integer => exact skip_of_not_any _ (by simpa [Cfg.iterContiguous] using h)
  | fraction => exact skip_of_not_any _ (by simpa [Cfg.iterContiguous] using h)
  | exponent => exact skip_of_not_any _ (by simpa [Cfg.iterContiguous] using h)

omit H in
theorem peek_raw (k : Comp) (hs : c.skip k = .noskip) (b : Bytes) : peek c k b = .ok (b.slc[b.index]?, b) := by
  unfold peek; rw [hs]

theorem parseDigitsLoop_raw (k : Comp) (r : Nat) (hs : c.skip k = .noskip) :
    ∀ (fuel : Nat) (b : Bytes), b.slc.length - b.index < fuel →
      parseDigitsLoop c k r fuel b =
        .ok (digitsPrefix r (b.slc.drop b.index), adv c k (digitsPrefix r (b.slc.drop b.index)).length b) := by
  intro fuel
  induction fuel with
  | zero => intro b h; omega
  | succ n ih =>
    intro b hf
    unfold parseDigitsLoop
    rw [peek_raw k hs b]
    simp only [bind, Except.bind]
    cases hv : b.slc[b.index]? with
    | none => simp [drop_of_none hv, digitsPrefix, adv_zero, pure, Except.pure]
    | some ch =>
      have hlt : b.index < b.slc.length := (List.getElem?_eq_some_iff.mp hv).1
      simp only [drop_of_get hv, digitsPrefix]
      cases hdg : charToDigit ch r with
      | none => simp [adv_zero, pure, Except.pure]
      | some d =>
        simp only [iterStep, stepUnchecked_release c _ b H.rel.hd]
        have hi := incCount_spec c k { b with index := b.index + 1 }
        have hf2 : (Bytes.incCount c k { b with index := b.index + 1 }).slc.length
            - (Bytes.incCount c k { b with index := b.index + 1 }).index < n := by
          rw [hi.1, hi.2]; simp only; omega
        rw [ih _ hf2, hi.1, hi.2]
        simp only [pure, Except.pure, List.length_cons, adv_succ]

theorem skipZerosLoop_raw (k : Comp) (hs : c.skip k = .noskip) :
    ∀ (fuel : Nat) (b : Bytes), b.slc.length - b.index < fuel →
      skipZerosLoop c k fuel b = .ok (adv c k (zerosPrefix (b.slc.drop b.index)) b) := by
  intro fuel
  induction fuel with
  | zero => intro b h; omega
  | succ n ih =>
    intro b hf
    rw [skipZerosLoop, readIfValueCased_eqS H.rel k 48 b b _ (peek_raw k hs b)]
    simp only [bind, Except.bind]
    cases hv : b.slc[b.index]? with
    | none => simp [drop_of_none hv, zerosPrefix, adv_zero, pure, Except.pure]
    | some ch =>
      have hlt : b.index < b.slc.length := (List.getElem?_eq_some_iff.mp hv).1
      simp only [drop_of_get hv, zerosPrefix]
      by_cases h48 : ch = 48
      · subst h48
        simp only [if_true]
        have hi := incCount_spec c k (Bytes.at b (b.index + 1))
        have hf2 : (Bytes.incCount c k (Bytes.at b (b.index + 1))).slc.length
            - (Bytes.incCount c k (Bytes.at b (b.index + 1))).index < n := by
          rw [hi.1, hi.2]; simp only [at_slc, at_index]; omega
        rw [ih _ hf2, hi.1, hi.2]
        simp only [at_slc, at_index]
        exact congrArg Except.ok (adv_succ c k _ b)
      · have : ¬ (some ch = some 48) := by simpa using h48
        simp [this, h48, adv_zero, pure, Except.pure]

omit H in
theorem zerosPrefix_le_digits (r : Nat) (h0 : charToDigit 48 r = some 0) (l : List Nat) :
    zerosPrefix l ≤ (digitsPrefix r l).length := by
  induction l with
  | nil => simp [zerosPrefix]
  | cons x xs ih =>
    simp only [zerosPrefix]
    split
    · next hx => subst hx; simp only [digitsPrefix, h0, List.length_cons]; omega
    · omega

omit H in
theorem zerosPrefix_stop (l : List Nat) : l[zerosPrefix l]? ≠ some 48 := by
  induction l with
  | nil => simp [zerosPrefix]
  | cons x xs ih =>
    by_cases hx : x = 48
    · simp only [zerosPrefix, hx, if_true, List.getElem?_cons_succ]; exact ih
    · simp [zerosPrefix, hx]

omit H in
theorem digitsPrefix_get (r : Nat) (l : List Nat) : ∀ j, j < (digitsPrefix r l).length →
    ∃ x, l[j]? = some x ∧ charToDigit x r ≠ none := by
  induction l with
  | nil => intro j h; simp [digitsPrefix] at h
  | cons y ys ih =>
    intro j h
    simp only [digitsPrefix] at h
    cases hd : charToDigit y r with
    | none => simp [hd] at h
    | some d =>
      simp only [hd, List.length_cons] at h
      cases j with
      | zero => exact ⟨y, by simp, by rw [hd]; simp⟩
      | succ j2 =>
        obtain ⟨x, hx, hxd⟩ := ih j2 (by omega)
        exact ⟨x, by simpa using hx, hxd⟩

theorem adv_cc (k : Comp) (hk : k ≠ .special) (n : Nat) (b : Bytes) :
    (adv c k n b).currentCount c - b.currentCount c = n := by
  unfold Bytes.currentCount
  simp only [H.bytes, Bool.false_eq_true, if_false]
  cases k <;> simp [adv, H.fmt] at hk ⊢ <;> omega

/-- a component without separator flags -/
theorem zerosMirror_contig (k : Comp) (hk : k ≠ .special) (hct : c.iterContiguous k = true) : ZerosMirror c k := by
  have hs := skip_of_contig k hk hct
  have h0 := charToDigit_48 c.mantissaRadix H.radix
  apply zerosMirror_of H k
  intro b0 b1 b2 m0 m ds hv h8 hdg
  -- the first pass consumes the run of digit bytes
  have hb1 : ∃ j, b1 = adv c k (8 * j) b0 ∧
      (digitsPrefix c.mantissaRadix (b0.slc.drop b0.index)).length
        = 8 * j + (digitsPrefix c.mantissaRadix (b0.slc.drop (b0.index + 8 * j))).length := by
    unfold parse8Digits at h8
    split at h8
    · simp only [pure, Except.pure, Except.ok.injEq, Prod.mk.injEq] at h8
      exact ⟨0, by rw [← h8.2]; simp [adv_zero], by simp⟩
    · split at h8
      · next hcm =>
        simp only [H.rel.hd, Bool.false_and, Bool.false_eq_true, if_false] at h8
        have hr10 : c.mantissaRadix ≤ 10 := by
          unfold canMultidigit at hcm
          simp only [Bool.and_eq_true, Bool.or_eq_true, Bool.not_eq_true', decide_eq_true_eq] at hcm
          rcases hcm.2 with h | h
          · exact H.rad h
          · exact h
        obtain ⟨j, m1, e1, e2, _⟩ := parse8Loop_spec c k H.rel.hd hr10 (b0.slc.length + 1) b0 m0 (by omega)
        rw [e1] at h8
        simp only [Except.ok.injEq, Prod.mk.injEq] at h8
        exact ⟨j, h8.2.symm, e2⟩
      · simp only [pure, Except.pure, Except.ok.injEq, Prod.mk.injEq] at h8
        exact ⟨0, by rw [← h8.2]; simp [adv_zero], by simp⟩
  obtain ⟨j, rfl, hL⟩ := hb1
  unfold parseDigits at hdg
  rw [parseDigitsLoop_raw H k _ hs _ _ (by simp only [adv_slc, adv_index]; omega)] at hdg
  simp only [adv_slc, adv_index, adv_add, Except.ok.injEq, Prod.mk.injEq] at hdg
  rw [← hL] at hdg
  obtain ⟨_, rfl⟩ := hdg
  -- the zero run
  have hz : skipZeros c k b0 = .ok (zerosPrefix (b0.slc.drop b0.index), adv c k (zerosPrefix (b0.slc.drop b0.index)) b0) := by
    unfold skipZeros
    rw [skipZerosLoop_raw H k hs _ b0 (by omega)]
    simp only [bind, Except.bind, pure, Except.pure, Bytes.iterCount, hct, if_true, adv_index, Nat.add_sub_cancel_left]
  refine ⟨_, _, hz, ?_⟩
  have hle := zerosPrefix_le_digits c.mantissaRadix h0 (b0.slc.drop b0.index)
  by_cases heq : zerosPrefix (b0.slc.drop b0.index) = (digitsPrefix c.mantissaRadix (b0.slc.drop b0.index)).length
  · left
    rw [heq]
    exact ⟨rfl, (adv_cc H k hk _ b0).symm⟩
  · right
    obtain ⟨x, hx, hxd⟩ := digitsPrefix_get c.mantissaRadix (b0.slc.drop b0.index)
      (zerosPrefix (b0.slc.drop b0.index)) (by omega)
    have hstop := zerosPrefix_stop (b0.slc.drop b0.index)
    rw [List.getElem?_drop] at hx hstop
    refine ⟨by simp only [adv_index]; omega, by simp, by simp, x, by simpa using hx, ?_, hxd⟩
    intro e; subst e; exact hstop hx

/-- every digit component -/
theorem zerosMirror_all (k : Comp) (hk : k ≠ .special) : ZerosMirror c k := by
  cases hct : c.iterContiguous k with
  | true => exact zerosMirror_contig H k hk hct
  | false => exact zerosMirror_skip H k hk hct

end
end LexVerif.Proof.C11
