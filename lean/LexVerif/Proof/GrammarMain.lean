import LexVerif.Proof.GrammarSpecial
/-!
# Proof.GrammarMain — `parse_complete` (syntax layer) against `Spec.Grammar.grammarFloatSyn`
-/
namespace LexVerif.Proof.Grammar
open LexVerif LexVerif.Spec LexVerif.Model

theorem isConsumed_spec {c : Cfg} (hn : NoSep c) (b : Bytes) (hv : b.index ≤ b.slc.length) :
    isConsumed c .integer b = .ok ((tl b).isEmpty, b) := by
  have hiff : (tl b).isEmpty = decide (b.index ≥ b.slc.length) := by
    have := tl_length b
    cases h : tl b with
    | nil => rw [h] at this; simp at this; simp; omega
    | cons x xs => rw [h] at this; simp at this; simp; omega
  unfold isConsumed
  split
  · simp [Bytes.isBufferEmpty, hiff]
  · rw [hn.peek]
    simp only [bind, Except.bind, pure, Except.pure]
    rw [← tl_head]
    cases tl b <;> rfl

/-- the verdict of the model's complete parser, in the grammar's terms -/
inductive Verdict (c : Cfg) (o : POpts) (s : List Nat) : Parsed → Prop
  | number (n : Number) (P : Parts) (hP : P = splitNumber (cfgSyn c) o (splitSign s).1 (splitSign s).2)
      (hok : numberOk (cfgSyn c) P = true)
      (hn : NumberIs n ((splitSign s).1 == some true) ((splitSign s).2.take P.ints.length)
        (if P.point = true then some ((((splitSign s).2.drop P.ints.length).drop 1).take P.fracs.length) else none)
        (if P.hasExp = true then expValue c.exponentRadix P.expSign P.exps else 0)) :
      Verdict c o s (.number n s.length)
  | special (t : Bool)
      (hno : numberOk (cfgSyn c) (splitNumber (cfgSyn c) o (splitSign s).1 (splitSign s).2) = false)
      (hsg : signOk (cfgSyn c).noPosMant (cfgSyn c).reqMantSign (splitSign s).1 = true)
      (hsp : specialOf (cfgSyn c) o (splitSign s).2 = some t) :
      Verdict c o s (.special (if t then .nan else .inf) ((splitSign s).1 == some true) s.length)

/-- **Model vs grammar, complete parse, separator-free prefix-free format, something after the sign.**
Accepted ⇒ the grammar derives the input with the same sign / digits / exponent (or the same special);
rejected with a proper error ⇒ the grammar rejects. (Panic / fault exits: C10.) -/
theorem parseFloatSyntax_grammar {c : Cfg} (hs : Std c) (o : POpts) (wf : SpecialsWF o) (hlet : LettersOnly o)
    (s : List Nat) (hb : ∀ x ∈ s, x < 256) (fv : Bool) (hbody : (splitSign s).2 ≠ []) :
    (∀ p, parseFloatSyntax c o false s fv = .ok p → Verdict c o s p) ∧
    (∀ k i, parseFloatSyntax c o false s fv = .error (.err k i) → grammarFloatSyn (cfgSyn c) o s = .err) := by
  have hs_ne : s ≠ [] := by
    intro h; subst h; exact hbody rfl
  have htl0 : tl (Bytes.new s) = s := by simp [tl, Bytes.new]
  obtain ⟨hsg1, hsg2⟩ := parseSign_spec (c := c) hs.release c.noPositiveMantissaSign c.requiredMantissaSign
    "InvalidPositiveSign" "MissingSign" (Bytes.new s)
  rw [htl0] at hsg1 hsg2
  have hgram : grammarFloatSyn (cfgSyn c) o s =
      (if numberOk (cfgSyn c) (splitNumber (cfgSyn c) o (splitSign s).1 (splitSign s).2) = true then
        .num ((splitNumber (cfgSyn c) o (splitSign s).1 (splitSign s).2).lit (cfgSyn c)) s.length
       else if signOk (cfgSyn c).noPosMant (cfgSyn c).reqMantSign (splitSign s).1 = true then
        (match specialOf (cfgSyn c) o (splitSign s).2 with
          | some true => .nan s.length
          | some false => .inf ((splitSign s).1 == some true) s.length
          | none => .err)
       else .err) := by
    unfold grammarFloatSyn
    have : s.isEmpty = false := by cases s <;> simp_all
    simp only [this, Bool.false_eq_true, if_false]
    rfl
  unfold parseFloatSyntax parseMantissaSign
  cases hso : signOk c.noPositiveMantissaSign c.requiredMantissaSign (splitSign s).1 with
  | false =>
    obtain ⟨k, i, he⟩ := hsg1 hso
    simp only [he, bind, Except.bind]
    refine ⟨fun p hp => (by cases hp), fun _ _ _ => ?_⟩
    have hsn : (splitNumber (cfgSyn c) o (splitSign s).1 (splitSign s).2).sign = (splitSign s).1 := rfl
    rw [hgram, numberOk_eq, syn_noPosMant, syn_reqMantSign, hsn, hso]
    simp
  | true =>
    obtain ⟨b1, he, hadv⟩ := hsg2 hso
    have hle := (splitSign_rest s).2
    have hv1 : b1.index ≤ b1.slc.length := hadv.valid (by rw [htl0]; omega) (by simp [Bytes.new])
    have htl1 : tl b1 = (splitSign s).2 := by
      rw [hadv.tl, htl0]; exact (splitSign_rest s).1.symm
    have hb1 : ∀ x ∈ b1.slc, x < 256 := by rw [hadv.1]; exact hb
    have hcons : (tl b1).isEmpty = false := by
      rw [htl1]; cases h : (splitSign s).2 with
      | nil => exact absurd h hbody
      | cons _ _ => rfl
    simp only [he, bind, Except.bind, isConsumed_spec hs.nosep b1 hv1, hcons, Bool.false_eq_true, if_false]
    obtain ⟨hc1, hc2⟩ := parseCompleteNumber_sound hs o b1 ((splitSign s).1 == some true) fv (splitSign s).1 hb1 hv1
    rw [htl1] at hc1 hc2
    have hnok : ∀ P, numberOk (cfgSyn c) P = (P.rest.isEmpty && bodyOk (cfgSyn c) P) ∨ True := fun _ => Or.inr trivial
    have hnum : numberOk (cfgSyn c) (splitNumber (cfgSyn c) o (splitSign s).1 (splitSign s).2) =
        ((splitNumber (cfgSyn c) o (splitSign s).1 (splitSign s).2).rest.isEmpty &&
          bodyOk (cfgSyn c) (splitNumber (cfgSyn c) o (splitSign s).1 (splitSign s).2)) := by
      rw [numberOk_eq, syn_noPosMant, syn_reqMantSign]
      have : (splitNumber (cfgSyn c) o (splitSign s).1 (splitSign s).2).sign = (splitSign s).1 := rfl
      rw [this, hso, Bool.and_true]
    cases hres : parseCompleteNumber c o b1 ((splitSign s).1 == some true) fv with
    | ok n =>
      obtain ⟨hok, hni⟩ := hc2 n hres
      simp only [pure, Except.pure]
      refine ⟨fun p hp => ?_, fun k i hh => by cases hh⟩
      simp only [Except.ok.injEq] at hp
      subst hp
      exact Verdict.number n _ rfl (by rw [hnum]; exact hok) hni
    | error e =>
      cases e with
      | err k i =>
        have hno := hc1 k i hres
        rw [← hnum] at hno
        have hsp := parseSpecialComplete_grammar hs.nosep o wf hlet b1 hv1 hb1 (by rw [htl1]; exact hbody)
        rw [htl1] at hsp
        simp only [hsp]
        cases hspo : specialOf (cfgSyn c) o (splitSign s).2 with
        | none =>
          simp only [specialOfBool]
          refine ⟨fun p hp => (by cases hp), fun _ _ _ => ?_⟩
          rw [hgram, hno, hspo]
          simp
        | some t =>
          have hsgy : signOk (cfgSyn c).noPosMant (cfgSyn c).reqMantSign (splitSign s).1 = true := by
            rw [syn_noPosMant, syn_reqMantSign]; exact hso
          refine ⟨fun p hp => ?_, fun k' i' hh => ?_⟩
          · cases t <;> simp only [specialOfBool, pure, Except.pure, Except.ok.injEq] at hp <;> subst hp
            · exact Verdict.special false hno hsgy hspo
            · exact Verdict.special true hno hsgy hspo
          · cases t <;> simp [specialOfBool, pure, Except.pure] at hh
      | panic t => exact ⟨fun p hp => (by cases hp), fun k i hh => by cases hh⟩
      | fault t => exact ⟨fun p hp => (by cases hp), fun k i hh => by cases hh⟩
end LexVerif.Proof.Grammar
