import LexVerif.Proof.ParseIntFormatSimple
import LexVerif.Spec.Grammar
import LexVerif.Proof.ParseIntPartial
/-!
# Proof.ParseIntFormatGrammar — the specification scan of C04 against the documented integer grammar

`Spec.parseInt` (complete) accepts exactly when `Spec.grammarIntSyn` derives the input, for syntaxes without base
prefix / suffix and without the leading-zero flag, with the sign flags and the "digits required" flags checked on top.
-/
namespace LexVerif.Proof.PIF
open LexVerif LexVerif.Spec LexVerif.Model

def hornerFrom (r acc : Nat) (ds : List Nat) : Nat := ds.foldl (fun a d => a * r + d) acc

theorem hornerFrom_ge (r : Nat) (hr : 1 ≤ r) (ds : List Nat) (acc : Nat) : acc ≤ hornerFrom r acc ds := by
  induction ds generalizing acc with
  | nil => simp [hornerFrom]
  | cons d ds ih =>
    simp only [hornerFrom, List.foldl_cons]
    have := ih (acc * r + d)
    simp only [hornerFrom] at this
    have : acc ≤ acc * r := Nat.le_mul_of_pos_right _ hr
    omega

def sgn (neg : Bool) (x : Nat) : Int := if neg then -(x : Int) else (x : Int)

theorem scan_complete_iff (r mx : Nat) (hr : 1 ≤ r) (neg : Bool) (cs : List Nat) (acc i : Nat) (v : Int) (n : Nat)
    (hacc : acc ≤ mx) :
    scanDigits r mx neg false cs acc i = .ok v n ↔
      ((takeDigits r cs).2 = [] ∧ hornerFrom r acc (takeDigits r cs).1 ≤ mx ∧
        v = sgn neg (hornerFrom r acc (takeDigits r cs).1) ∧ n = i + cs.length) := by
  induction cs generalizing acc i with
  | nil =>
    simp only [scanDigits, takeDigits, hornerFrom, List.foldl_nil, sgn, PRes.ok.injEq, List.length_nil, Nat.add_zero,
      true_and]
    constructor
    · rintro ⟨h1, h2⟩; exact ⟨hacc, h1.symm, h2.symm⟩
    · rintro ⟨_, h1, h2⟩; exact ⟨h1.symm, h2.symm⟩
  | cons c cs ih =>
    simp only [scanDigits, takeDigits]
    cases hd : digitVal r c with
    | none => simp
    | some d =>
      simp only [Bool.false_eq_true, if_false]
      by_cases hov : acc * r + d > mx
      · have := hornerFrom_ge r hr (takeDigits r cs).1 (acc * r + d)
        simp only [hov, if_true, hornerFrom, List.foldl_cons]
        simp only [hornerFrom] at this
        constructor
        · intro h; cases neg <;> simp at h
        · rintro ⟨_, h, _⟩; omega
      · simp only [hov, if_false, hornerFrom, List.foldl_cons, List.length_cons]
        rw [ih _ _ (by omega)]
        simp only [hornerFrom]
        constructor
        · rintro ⟨a, b, c, d⟩; exact ⟨a, b, c, by omega⟩
        · rintro ⟨a, b, c, d⟩; exact ⟨a, b, c, by omega⟩

theorem splitPrefix_none (y : Syn) (h : y.pre = 0) (l : List Nat) : splitPrefix y l = (false, l) := by
  unfold splitPrefix
  split
  · simp [h]
  · rfl

theorem splitSuffix_none (y : Syn) (h : y.suf = 0) (l : List Nat) : splitSuffix y l = (false, l) := by
  unfold splitSuffix
  split
  · simp [h]
  · rfl

theorem takeDigits_nonempty (r c : Nat) (cs : List Nat) (h : (takeDigits r (c :: cs)).2 = []) :
    (takeDigits r (c :: cs)).1 ≠ [] := by
  simp only [takeDigits] at h ⊢
  cases hd : digitVal r c with
  | none => simp [hd] at h
  | some d => simp

theorem digitVal_sign (r : Nat) : digitVal r 43 = none ∧ digitVal r 45 = none := by
  simp [digitVal, digitVal36]

/-- the digits part of the grammar for a syntax without prefix / suffix / leading-zero flag that requires digits -/
theorem grammar_body (y : Syn) (t : IntTy) (hr : 1 ≤ y.radix) (hpre : y.pre = 0) (hsuf : y.suf = 0)
    (hlz : y.noIntLZ = false) (hreq : (y.reqInt || y.reqMant) = true) (sign : Option Bool) (body : List Nat)
    (neg : Bool) (hneg : neg = (sign == some true)) (hsg : neg = true → t.signed = true) (i : Nat) (v : Int) :
    ((let (pre, r) := splitPrefix y body
      let (ds, r) := takeDigits y.radix r
      let (_, r) := splitSuffix y r
      let ok := r.isEmpty && signOk y.noPosMant y.reqMantSign sign && !((y.reqInt || y.reqMant) && ds.isEmpty)
        && !(pre && ds.isEmpty) && !(y.noIntLZ && !pre && leadingZeros ds)
      let v : Int := if sign == some true then -(ofDigits y.radix ds : Int) else (ofDigits y.radix ds : Int)
      if ok && decide (t.minVal ≤ v) && decide (v ≤ t.maxVal) then IRes.ok v else IRes.err) = IRes.ok v) ↔
      (signOk y.noPosMant y.reqMantSign sign = true ∧ body ≠ [] ∧
        ∃ n, scanDigits y.radix (t.maxMag neg) neg false body 0 i = .ok v n) := by
  simp only [splitPrefix_none y hpre, splitSuffix_none y hsuf, hlz, hreq, Bool.false_and, Bool.not_false,
    Bool.and_true, Bool.true_and]
  cases body with
  | nil => simp [takeDigits]
  | cons c cs =>
    have hne := takeDigits_nonempty y.radix c cs
    simp only [scan_complete_iff y.radix _ hr neg (c :: cs) 0 i v _ (Nat.zero_le _), ne_eq, reduceCtorEq,
      not_false_eq_true, true_and]
    have hof : ∀ ds, ofDigits y.radix ds = hornerFrom y.radix 0 ds := fun _ => rfl
    generalize htd : takeDigits y.radix (c :: cs) = td at hne ⊢
    obtain ⟨ds, rest⟩ := td
    have hvv : (if (sign == some true) = true then -(ofDigits y.radix ds : Int) else (ofDigits y.radix ds : Int)) =
        sgn neg (hornerFrom y.radix 0 ds) := by
      subst hneg; simp [sgn, hof]
    simp only [hvv]
    generalize hw : sgn neg (hornerFrom y.radix 0 ds) = w
    have hrange : hornerFrom y.radix 0 ds ≤ t.maxMag neg ↔ (t.minVal ≤ w ∧ w ≤ t.maxVal) := by
      rw [← hw]
      simp only [sgn, IntTy.minVal, IntTy.maxVal]
      cases neg with
      | true =>
        have hsig := hsg rfl
        simp only [if_true, IntTy.maxMag, hsig]
        constructor
        · intro h; constructor <;> omega
        · rintro ⟨h1, h2⟩; omega
      | false =>
        simp only [Bool.false_eq_true, if_false]
        constructor
        · intro h; constructor <;> omega
        · rintro ⟨h1, h2⟩; omega
    constructor
    · intro h
      by_cases hok : (rest.isEmpty && signOk y.noPosMant y.reqMantSign sign && !ds.isEmpty &&
          decide (t.minVal ≤ w) && decide (w ≤ t.maxVal)) = true
      · simp only [hok, if_true, IRes.ok.injEq] at h
        simp only [Bool.and_eq_true, List.isEmpty_iff, Bool.not_eq_eq_eq_not, Bool.not_true, decide_eq_true_eq] at hok
        obtain ⟨⟨⟨⟨hrest, hsok⟩, hds⟩, hmin⟩, hmax⟩ := hok
        exact ⟨hsok, i + (c :: cs).length, hrest, hrange.2 ⟨hmin, hmax⟩, h.symm, rfl⟩
      · simp [hok] at h
    · rintro ⟨hsok, n, hrest, hle, hv, _⟩
      have hds : ds ≠ [] := hne hrest
      have := hrange.1 hle
      simp [hrest, hsok, hds, this.1, this.2, hv]

theorem spec_nonempty (t : IntTy) (r : Nat) (neg : Bool) (rest : List Nat) (i : Nat) (v : Int) :
    (∃ n : Nat, (match rest with
           | [] => PRes.empty i
           | _ => scanDigits r (t.maxMag neg) neg false rest 0 i : PRes) = PRes.ok v n) ↔
      (rest ≠ [] ∧ ∃ n, scanDigits r (t.maxMag neg) neg false rest 0 i = .ok v n) := by
  cases rest with
  | nil => simp
  | cons c cs => simp

/-- **the documented integer grammar = the specification scan behind the sign flags**, for a syntax without base
prefix, base suffix and leading-zero flag in which digits are required -/
theorem grammar_iff_spec (y : Syn) (t : IntTy) (hr : 1 ≤ y.radix) (hpre : y.pre = 0) (hsuf : y.suf = 0)
    (hlz : y.noIntLZ = false) (hreq : (y.reqInt || y.reqMant) = true) (s : List Nat) (v : Int) :
    grammarIntSyn y t s = .ok v ↔
      (signOk y.noPosMant y.reqMantSign (splitIntSign t.signed s).1 = true ∧
        ∃ n, Spec.parseInt t y.radix false s = .ok v n) := by
  unfold grammarIntSyn
  rw [LexVerif.Proof.ParseIntPartial.parseInt_eq]
  cases s with
  | nil => simp [splitIntSign]
  | cons c cs =>
    simp only [List.isEmpty_cons, Bool.false_eq_true, if_false]
    by_cases h43 : c = 43
    · subst h43
      simp only [splitIntSign]
      rw [grammar_body y t hr hpre hsuf hlz hreq (some false) cs false (by simp) (by simp) 1 v]
      cases cs <;> simp [LexVerif.Proof.ParseIntPartial.signLen, LexVerif.Proof.ParseIntPartial.isNeg]
    · by_cases h45 : c = 45
      · subst h45
        by_cases hsg : t.signed = true
        · simp only [splitIntSign, hsg, if_true]
          rw [grammar_body y t hr hpre hsuf hlz hreq (some true) cs true (by simp) (by simp [hsg]) 1 v]
          cases cs <;> simp [LexVerif.Proof.ParseIntPartial.signLen, LexVerif.Proof.ParseIntPartial.isNeg, hsg]
        · have hsg' : t.signed = false := by simpa using hsg
          simp only [splitIntSign, hsg', Bool.false_eq_true, if_false]
          rw [grammar_body y t hr hpre hsuf hlz hreq none (45 :: cs) false (by simp) (by simp) 0 v]
          simp [LexVerif.Proof.ParseIntPartial.signLen, LexVerif.Proof.ParseIntPartial.isNeg, hsg']
      · have hsp : splitIntSign t.signed (c :: cs) = (none, c :: cs) := by
          unfold splitIntSign; split <;> simp_all
        simp only [hsp]
        rw [grammar_body y t hr hpre hsuf hlz hreq none (c :: cs) false (by simp) (by simp) 0 v]
        simp [LexVerif.Proof.ParseIntPartial.signLen, LexVerif.Proof.ParseIntPartial.isNeg, h43, h45]
