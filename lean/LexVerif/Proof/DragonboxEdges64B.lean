import LexVerif.Proof.DragonboxEdges32
/-! `compute_nearest_normal` (f64), binade edges at every 4th exponent field, part B -/
namespace LexVerif.Proof.DragonboxSpec
open LexVerif.Model.Dragonbox
theorem edges64_1024_1536 : (edges .f64 1024 1536 4).all (dragonboxOk .f64) = true := by decide +kernel
theorem edges64_1536_2047 : (edges .f64 1536 2047 4).all (dragonboxOk .f64) = true := by decide +kernel
end LexVerif.Proof.DragonboxSpec
