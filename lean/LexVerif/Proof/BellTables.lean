import LexVerif.Model.Bellerophon
import LexVerif.Proof.Tables.Util
/-!
# Proof.BellTables — what the error analysis of Bellerophon needs from `bellerophon_powers(radix)`

A direct, kernel-evaluated check on the **model's accessors** (`getSmallInt`, `getSmall`, `getLarge`, i.e. the
tables *and* the `log2`-multiplier exponent formula), for every index:
small powers exact (`small[i]·2^(−ns) = r^i`, normalised), large powers normalised and truncated
(`b·2^eb ≤ r^K < (b+1)·2^eb`, `K = i·step − bias`), the index range covers every finite float.
-/
namespace LexVerif.Proof.Bell
open LexVerif.Spec LexVerif.Model LexVerif.Model.Bellerophon
open LexVerif.Gen.Bellerophon (Powers)

/-- index `i` of the small tables -/
def smallOk (r : Nat) (P : Powers) (i : Nat) : Bool :=
  (getSmallInt P i == some (r ^ i)) && decide (r ^ i < 2 ^ 64) &&
  match getSmall P i with
  | some ⟨sm, es⟩ => decide (es ≤ 0) && decide (-64 ≤ es) && (sm == r ^ i * 2 ^ (-es).toNat) &&
      decide (2 ^ 63 ≤ sm) && decide (sm < 2 ^ 64)
  | none => false

/-- index `j` of the large table: `b·2^eb ≤ r^K < (b+1)·2^eb`, cross-multiplied -/
def largeOk (r : Nat) (P : Powers) (j : Nat) : Bool :=
  match getLarge P j with
  | some ⟨b, eb⟩ =>
    let K : Int := (j : Int) * P.step - P.bias
    let kn := r ^ K.toNat
    let kd := r ^ (-K).toNat
    let g := eb.toNat
    let d := (-eb).toNat
    decide (2 ^ 63 ≤ b) && decide (b < 2 ^ 64) && decide (-2000 ≤ eb) && decide (eb ≤ 2000) &&
    decide (b * 2 ^ g * kd ≤ kn * 2 ^ d) && decide (kn * 2 ^ d < (b + 1) * 2 ^ g * kd)
  | none => false

def bellCheck (r : Nat) (P : Powers) : Bool :=
  decide (0 < P.step) && decide (0 ≤ P.bias) && decide (P.bias ≤ 2000) && decide (P.step ≤ 64) &&
  decide (2 ≤ r) &&
  (List.range P.step.toNat).all (smallOk r P) &&
  (List.range P.large.size).all (largeOk r P) &&
  decide (2 ^ 1140 ≤ r ^ (P.bias.toNat + 1)) &&
  decide (2 ^ 1024 ≤ r ^ (P.large.size * P.step.toNat - P.bias.toNat)) &&
  decide (P.bias.toNat ≤ P.large.size * P.step.toNat)

/-- radices with Bellerophon tables in a `radix` build -/
def bellRadicesRadix : List Nat :=
  [3, 5, 6, 7, 9, 11, 12, 13, 14, 15, 17, 18, 19, 20, 21, 22, 23, 24, 25, 26, 27, 28, 29, 30, 31, 33, 34, 35, 36]

theorem bellCheck_radix_a : ([3, 5, 6, 7, 9, 11, 12, 13, 14, 15] : List Nat).all
    (fun r => bellCheck r (Gen.Bellerophon.Radix.powers r)) = true := by decide +kernel

theorem bellCheck_radix_b : ([17, 18, 19, 20, 21, 22, 23, 24, 25, 26] : List Nat).all
    (fun r => bellCheck r (Gen.Bellerophon.Radix.powers r)) = true := by decide +kernel
theorem bellCheck_radix_c : ([27, 28, 29, 30, 31, 33, 34, 35, 36] : List Nat).all
    (fun r => bellCheck r (Gen.Bellerophon.Radix.powers r)) = true := by decide +kernel

/-- the same tables in a `compact` build, plus the decimal one -/
def bellRadicesCompact : List Nat := 10 :: bellRadicesRadix

theorem bellCheck_compact_a : ([10, 3, 5, 6, 7, 9, 11, 12, 13, 14, 15] : List Nat).all
    (fun r => bellCheck r (Gen.Bellerophon.CompactRadix.powers r)) = true := by decide +kernel
theorem bellCheck_compact_b : ([17, 18, 19, 20, 21, 22, 23, 24, 25, 26] : List Nat).all
    (fun r => bellCheck r (Gen.Bellerophon.CompactRadix.powers r)) = true := by decide +kernel
theorem bellCheck_compact_c : ([27, 28, 29, 30, 31, 33, 34, 35, 36] : List Nat).all
    (fun r => bellCheck r (Gen.Bellerophon.CompactRadix.powers r)) = true := by decide +kernel

theorem bellCheck_radix : ∀ r ∈ bellRadicesRadix, bellCheck r (Gen.Bellerophon.Radix.powers r) = true := by
  intro r hr
  have ha := List.all_eq_true.mp bellCheck_radix_a
  have hb := List.all_eq_true.mp bellCheck_radix_b
  have hc := List.all_eq_true.mp bellCheck_radix_c
  simp only [bellRadicesRadix, List.mem_cons, List.mem_nil_iff, or_false] at hr
  rcases hr with h | h | h | h | h | h | h | h | h | h | h | h | h | h | h | h | h | h | h | h | h | h | h | h | h | h | h | h | h <;>
    subst h <;> first | exact ha _ (by decide) | exact hb _ (by decide) | exact hc _ (by decide)

theorem bellCheck_compact : ∀ r ∈ bellRadicesCompact, bellCheck r (Gen.Bellerophon.CompactRadix.powers r) = true := by
  intro r hr
  have ha := List.all_eq_true.mp bellCheck_compact_a
  have hb := List.all_eq_true.mp bellCheck_compact_b
  have hc := List.all_eq_true.mp bellCheck_compact_c
  simp only [bellRadicesCompact, bellRadicesRadix, List.mem_cons, List.mem_nil_iff, or_false] at hr
  rcases hr with h | h | h | h | h | h | h | h | h | h | h | h | h | h | h | h | h | h | h | h | h | h | h | h | h | h | h | h | h | h <;>
    subst h <;> first | exact ha _ (by decide) | exact hb _ (by decide) | exact hc _ (by decide)

end LexVerif.Proof.Bell
