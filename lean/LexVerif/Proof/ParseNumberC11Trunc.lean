import LexVerif.Proof.ParseNumberC11
/-!
# Proof.ParseNumberC11Trunc — truncation lemmas for C11 (B), non-`format` release build

`trunc n b` cuts the buffer of `b` after `n` bytes. With the `format` feature off (contiguous no-skip iterators)
every phase of `parse_number` that returns with the cursor at `i ≤ n` returns the same result on the truncated
buffer: bytes at positions `≥ i` are only inspected to decide to stop, and the end of the buffer leads to the same
decision.
-/
set_option linter.unusedSectionVars false
set_option linter.unusedSimpArgs false
namespace LexVerif.Proof.C11
open LexVerif LexVerif.Model LexVerif.Spec
open LexVerif.Props.C12 (Bytes.Valid peek_noformat stepUnchecked_release)

/-- move the cursor -/
def Bytes.at (b : Bytes) (i : Nat) : Bytes := { b with index := i }
/-- cut the buffer after `n` bytes -/
def trunc (n : Nat) (b : Bytes) : Bytes := { b with slc := b.slc.take n }

@[simp] theorem trunc_index (n : Nat) (b : Bytes) : (trunc n b).index = b.index := rfl
@[simp] theorem trunc_slc (n : Nat) (b : Bytes) : (trunc n b).slc = b.slc.take n := rfl
@[simp] theorem at_index (b : Bytes) (i : Nat) : (Bytes.at b i).index = i := rfl
@[simp] theorem at_slc (b : Bytes) (i : Nat) : (Bytes.at b i).slc = b.slc := rfl
theorem trunc_at (n : Nat) (b : Bytes) (i : Nat) : trunc n (Bytes.at b i) = Bytes.at (trunc n b) i := rfl
@[simp] theorem at_at (b : Bytes) (i j : Nat) : Bytes.at (Bytes.at b i) j = Bytes.at b j := rfl
theorem at_self (b : Bytes) : Bytes.at b b.index = b := rfl

theorem take_get_lt (l : List Nat) (n i : Nat) (h : i < n) : (l.take n)[i]? = l[i]? := by
  rw [List.getElem?_take]; simp [h]
theorem take_get_ge (l : List Nat) (n i : Nat) (h : n ≤ i) : (l.take n)[i]? = none := by
  rw [List.getElem?_take]; simp; omega

theorem take8_trunc (l : List Nat) (n i : Nat) (h : i + 8 ≤ n) : ((l.take n).drop i).take 8 = (l.drop i).take 8 := by
  rw [List.drop_take, List.take_take]
  congr 1
  omega

section
variable {c : Cfg} (hf : c.feats.format = false) (hd : c.debug = false)
include hf

theorem incCount_nf (k : Comp) (b : Bytes) : b.incCount c k = b := by simp [Bytes.incCount, hf]
theorem digitSeparator_nf : c.digitSeparator = 0 := by simp [Cfg.digitSeparator, hf]
theorem bytesContiguous_nf : c.bytesContiguous = true := by simp [Cfg.bytesContiguous, digitSeparator_nf hf]
theorem currentCount_nf (b : Bytes) : b.currentCount c = b.index := by
  simp [Bytes.currentCount, bytesContiguous_nf hf]
theorem iterContiguous_nf (k : Comp) : c.iterContiguous k = true := by
  cases k <;> simp [Cfg.iterContiguous, Cfg.sepFlags, Cfg.flag, Cfg.specialSep, hf, SepFlags.any]

omit hf
include hd
theorem iterStep_nf (k : Comp) (b : Bytes) : iterStep c k b = .ok (Bytes.at b (b.index + 1)) := by
  simp [iterStep, stepUnchecked_release c _ b hd, Bytes.at]
theorem step_nf (b : Bytes) : b.step c = .ok (Bytes.at b (b.index + 1)) := by
  simp [Bytes.step, stepUnchecked_release c _ b hd, Bytes.at]
theorem stepBy_nf (ct : Bool) (n : Nat) (b : Bytes) : b.stepBy c ct n = .ok (Bytes.at b (b.index + n)) := by
  simp [Bytes.stepBy, hd, Bytes.at]

include hf
/-- one iteration of `parse_digits` in the no-skip release build -/
theorem parseDigitsLoop_succ (k : Comp) (r fuel : Nat) (b : Bytes) :
    parseDigitsLoop c k r (fuel + 1) b =
      match b.slc[b.index]? with
      | none => .ok ([], b)
      | some ch =>
        match charToDigit ch r with
        | none => .ok ([], b)
        | some d =>
          match parseDigitsLoop c k r fuel (Bytes.at b (b.index + 1)) with
          | .ok (ds, b2) => .ok (d :: ds, b2)
          | .error e => .error e := by
  rw [parseDigitsLoop]
  simp only [peek_noformat c k b hf, bind, Except.bind, pure, Except.pure]
  cases b.slc[b.index]? with
  | none => rfl
  | some ch =>
    simp only
    cases charToDigit ch r with
    | none => rfl
    | some d =>
      simp only [iterStep_nf hd, incCount_nf hf]
      cases parseDigitsLoop c k r fuel (Bytes.at b (b.index + 1)) with
      | error e => rfl
      | ok p => rfl

theorem parseDigitsLoop_trunc (k : Comp) (r : Nat) :
    ∀ (fuel : Nat) (b b' : Bytes) (ds : List Nat), Bytes.Valid b → parseDigitsLoop c k r fuel b = .ok (ds, b') →
      b' = Bytes.at b b'.index ∧ b.index ≤ b'.index ∧ Bytes.Valid b' ∧
      (∀ ch, b.slc[b'.index]? = some ch → charToDigit ch r = none) ∧
      ∀ n fuel2, b'.index ≤ n → b'.index - b.index < fuel2 →
        parseDigitsLoop c k r fuel2 (trunc n b) = .ok (ds, trunc n b') := by
  intro fuel
  induction fuel with
  | zero => intro b b' ds _ h; simp [parseDigitsLoop] at h
  | succ f ih =>
    intro b b' ds hv h
    rw [parseDigitsLoop_succ hf hd] at h
    cases hg : b.slc[b.index]? with
    | none =>
      simp only [hg, Except.ok.injEq, Prod.mk.injEq] at h
      obtain ⟨rfl, rfl⟩ := h
      refine ⟨rfl, Nat.le_refl _, hv, (by intro ch hc; rw [hg] at hc; cases hc), ?_⟩
      intro n fuel2 _ hfu
      obtain ⟨f2, rfl⟩ : ∃ f2, fuel2 = f2 + 1 := ⟨fuel2 - 1, by omega⟩
      rw [parseDigitsLoop_succ hf hd]
      have : (trunc n b).slc[(trunc n b).index]? = none := by
        simp only [trunc_slc, trunc_index]
        have := List.getElem?_eq_none_iff.mp hg
        exact List.getElem?_eq_none_iff.mpr (by simp only [List.length_take]; omega)
      rw [this]
    | some ch =>
      simp only [hg] at h
      have hlt : b.index < b.slc.length := (List.getElem?_eq_some_iff.mp hg).1
      cases hdg : charToDigit ch r with
      | none =>
        simp only [hdg, Except.ok.injEq, Prod.mk.injEq] at h
        obtain ⟨rfl, rfl⟩ := h
        refine ⟨rfl, Nat.le_refl _, hv, (by intro ch2 hc; rw [hg] at hc; cases hc; exact hdg), ?_⟩
        intro n fuel2 _ hfu
        obtain ⟨f2, rfl⟩ : ∃ f2, fuel2 = f2 + 1 := ⟨fuel2 - 1, by omega⟩
        rw [parseDigitsLoop_succ hf hd]
        simp only [trunc_slc, trunc_index]
        by_cases hn : b.index < n
        · rw [take_get_lt _ _ _ hn, hg]; simp only [hdg]
        · rw [take_get_ge _ _ _ (by omega)]
      | some d =>
        simp only [hdg] at h
        cases hrec : parseDigitsLoop c k r f (Bytes.at b (b.index + 1)) with
        | error e => simp [hrec] at h
        | ok p =>
          obtain ⟨ds2, b2⟩ := p
          simp only [hrec, Except.ok.injEq, Prod.mk.injEq] at h
          obtain ⟨rfl, rfl⟩ := h
          have hv1 : Bytes.Valid (Bytes.at b (b.index + 1)) := by
            simp only [Bytes.Valid, at_index, at_slc]; omega
          obtain ⟨e1, e2, e3, e4, e5⟩ := ih _ _ _ hv1 hrec
          simp only [at_index, at_slc, at_at] at e1 e2 e4
          refine ⟨e1, by omega, e3, e4, ?_⟩
          intro n fuel2 hn hfu
          obtain ⟨f2, rfl⟩ : ∃ f2, fuel2 = f2 + 1 := ⟨fuel2 - 1, by omega⟩
          rw [parseDigitsLoop_succ hf hd]
          simp only [trunc_slc, trunc_index]
          rw [take_get_lt _ _ _ (by omega), hg]
          simp only [hdg]
          have := e5 n f2 hn (by simp only [at_index]; omega)
          rw [trunc_at] at this
          rw [this]

/-- `f` only moves the cursor forward, keeps it inside the buffer, and returns the same on every truncation of the
buffer at or beyond the final cursor -/
def TruncOK {α : Type} (f : Bytes → Except Err (α × Bytes)) : Prop :=
  ∀ (b b' : Bytes) (r : α), Bytes.Valid b → f b = .ok (r, b') →
    b' = Bytes.at b b'.index ∧ b.index ≤ b'.index ∧ Bytes.Valid b' ∧
    ∀ n, b'.index ≤ n → f (trunc n b) = .ok (r, trunc n b')

theorem parseDigits_trunc (k : Comp) (r : Nat) : TruncOK (parseDigits c k r) := by
  intro b b' ds hv h
  obtain ⟨e1, e2, e3, _, e5⟩ := parseDigitsLoop_trunc hf hd k r _ b b' ds hv h
  refine ⟨e1, e2, e3, ?_⟩
  intro n hn
  unfold parseDigits
  apply e5 n _ hn
  have hlen : b'.slc = b.slc := by rw [e1]; rfl
  have : b'.index ≤ b'.slc.length := e3
  rw [hlen] at this
  simp only [trunc_slc, List.length_take]
  omega

/-- the byte `parse_digits` stops at is not a digit -/
theorem parseDigits_stop (k : Comp) (r : Nat) (b b' : Bytes) (ds : List Nat) (hv : Bytes.Valid b)
    (h : parseDigits c k r b = .ok (ds, b')) : ∀ ch, b.slc[b'.index]? = some ch → charToDigit ch r = none :=
  (parseDigitsLoop_trunc hf hd k r _ b b' ds hv h).2.2.2.1

theorem tryParse8_nf (k : Comp) (b : Bytes) :
    tryParse8 c k b =
      if b.slc.length - b.index ≥ 8 ∧ b.index ≤ b.slc.length then
        (if is8Digits c.mantissaRadix ((b.slc.drop b.index).take 8) then
          .ok (some (val8Digits c.mantissaRadix ((b.slc.drop b.index).take 8)), Bytes.at b (b.index + 8))
         else .ok (none, b))
      else .ok (none, b) := by
  by_cases hc : b.slc.length - b.index ≥ 8 ∧ b.index ≤ b.slc.length
  · rw [if_pos hc]
    simp only [tryParse8, peekBytes, hd, iterContiguous_nf hf, stepBy_nf hd, hc, Bool.false_and, Bool.false_eq_true,
      if_false, Bool.true_and, Bool.and_eq_true, decide_eq_true_eq, and_self, if_true, bind, Except.bind, pure,
      Except.pure]
  · rw [if_neg hc]
    simp only [tryParse8, peekBytes, hd, iterContiguous_nf hf, hc, Bool.false_and, Bool.false_eq_true,
      if_false, Bool.true_and, Bool.and_eq_true, decide_eq_true_eq, pure, Except.pure]

theorem tryParse8_trunc (k : Comp) : TruncOK (tryParse8 c k) := by
  intro b b' r hv h
  rw [tryParse8_nf hf hd] at h
  have key : ∀ n, b.index ≤ n → r = none → b' = b →
      (¬ (b.slc.length - b.index ≥ 8 ∧ b.index ≤ b.slc.length) ∨
        is8Digits c.mantissaRadix ((b.slc.drop b.index).take 8) = false) →
      tryParse8 c k (trunc n b) = .ok (r, trunc n b') := by
    intro n _ hr hb hcase
    subst hr hb
    rw [tryParse8_nf hf hd]
    by_cases hc2 : (trunc n b').slc.length - (trunc n b').index ≥ 8 ∧ (trunc n b').index ≤ (trunc n b').slc.length
    · rw [if_pos hc2]
      have hn8 : b'.index + 8 ≤ n ∧ b'.slc.length - b'.index ≥ 8 ∧ b'.index ≤ b'.slc.length := by
        simp only [trunc_slc, trunc_index, List.length_take] at hc2; omega
      rw [show List.take 8 (List.drop (trunc n b').index (trunc n b').slc) = List.take 8 (List.drop b'.index b'.slc)
        from take8_trunc _ _ _ hn8.1]
      rcases hcase with hcase | hcase
      · exact absurd hn8.2 hcase
      · rw [hcase]; rfl
    · rw [if_neg hc2]
  split at h
  · next hc =>
    split at h
    · next h8 =>
      simp only [Except.ok.injEq, Prod.mk.injEq] at h
      obtain ⟨rfl, rfl⟩ := h
      refine ⟨rfl, by simp, by simp only [Bytes.Valid, at_index, at_slc]; omega, ?_⟩
      intro n hn
      simp only [at_index] at hn
      rw [tryParse8_nf hf hd]
      have hc2 : (trunc n b).slc.length - (trunc n b).index ≥ 8 ∧ (trunc n b).index ≤ (trunc n b).slc.length := by
        simp only [trunc_slc, trunc_index, List.length_take]; omega
      rw [if_pos hc2]
      rw [show List.take 8 (List.drop (trunc n b).index (trunc n b).slc) = List.take 8 (List.drop b.index b.slc)
        from take8_trunc _ _ _ hn]
      rw [if_pos h8]
      rfl
    · next h8 =>
      simp only [Except.ok.injEq, Prod.mk.injEq] at h
      obtain ⟨rfl, rfl⟩ := h
      exact ⟨rfl, Nat.le_refl _, hv, fun n hn => key n hn rfl rfl (Or.inr (by simpa using h8))⟩
  · next hc =>
    simp only [Except.ok.injEq, Prod.mk.injEq] at h
    obtain ⟨rfl, rfl⟩ := h
    exact ⟨rfl, Nat.le_refl _, hv, fun n hn => key n hn rfl rfl (Or.inl hc)⟩

theorem parse8Loop_trunc (k : Comp) :
    ∀ (fuel : Nat) (b b' : Bytes) (m r : Nat), Bytes.Valid b → parse8Loop c k fuel b m = .ok (r, b') →
      b' = Bytes.at b b'.index ∧ b.index ≤ b'.index ∧ Bytes.Valid b' ∧
      ∀ n fuel2, b'.index ≤ n → b'.index - b.index < fuel2 →
        parse8Loop c k fuel2 (trunc n b) m = .ok (r, trunc n b') := by
  intro fuel
  induction fuel with
  | zero => intro b b' m r _ h; simp [parse8Loop] at h
  | succ f ih =>
    intro b b' m r hv h
    rw [parse8Loop] at h
    simp only [bind, Except.bind, pure, Except.pure] at h
    cases ht : tryParse8 c k b with
    | error e => simp [ht] at h
    | ok p =>
      obtain ⟨v, b1⟩ := p
      obtain ⟨t1, t2, t3, t4⟩ := tryParse8_trunc hf hd k b b1 v hv ht
      simp only [ht] at h
      cases v with
      | none =>
        simp only [Except.ok.injEq, Prod.mk.injEq] at h
        obtain ⟨rfl, rfl⟩ := h
        refine ⟨t1, t2, t3, ?_⟩
        intro n fuel2 hn hfu
        obtain ⟨f2, rfl⟩ : ∃ f2, fuel2 = f2 + 1 := ⟨fuel2 - 1, by omega⟩
        rw [parse8Loop]
        simp only [bind, Except.bind, pure, Except.pure, t4 n hn]
      | some x =>
        simp only at h
        obtain ⟨e1, e2, e3, e5⟩ := ih _ _ _ _ t3 h
        have hstep : b.index + 8 ≤ b1.index := by
          rw [tryParse8_nf hf hd] at ht
          split at ht
          · split at ht
            · simp only [Except.ok.injEq, Prod.mk.injEq] at ht
              rw [← ht.2]; simp
            · simp at ht
          · simp at ht
        refine ⟨by rw [e1, t1]; rfl, by omega, e3, ?_⟩
        intro n fuel2 hn hfu
        obtain ⟨f2, rfl⟩ : ∃ f2, fuel2 = f2 + 1 := ⟨fuel2 - 1, by omega⟩
        rw [parse8Loop]
        simp only [bind, Except.bind, pure, Except.pure, t4 n (by omega)]
        exact e5 n f2 hn (by omega)

theorem parse8Digits_trunc (k : Comp) (m : Nat) : TruncOK (fun b => parse8Digits c k b m) := by
  intro b b' r hv h
  by_cases hcomp : c.feats.compact = true
  · simp only [parse8Digits, hcomp, if_true, pure, Except.pure, Except.ok.injEq, Prod.mk.injEq] at h
    obtain ⟨rfl, rfl⟩ := h
    refine ⟨rfl, Nat.le_refl _, hv, fun n _ => ?_⟩
    simp only [parse8Digits, hcomp, if_true, pure, Except.pure]
  · by_cases hcm : canMultidigit c k = true
    · simp only [parse8Digits, hcomp, hcm, hd, if_true, if_false, Bool.false_and, Bool.false_eq_true] at h
      obtain ⟨e1, e2, e3, e5⟩ := parse8Loop_trunc hf hd k _ b b' m r hv h
      refine ⟨e1, e2, e3, ?_⟩
      intro n hn
      simp only [parse8Digits, hcomp, hcm, hd, if_true, if_false, Bool.false_and, Bool.false_eq_true]
      apply e5 n _ hn
      have hlen : b'.slc = b.slc := by rw [e1]; rfl
      have : b'.index ≤ b'.slc.length := e3
      rw [hlen] at this
      simp only [trunc_slc, List.length_take]
      omega
    · simp only [parse8Digits, hcomp, hcm, if_false, pure, Except.pure, Except.ok.injEq, Prod.mk.injEq,
        Bool.false_eq_true] at h
      obtain ⟨rfl, rfl⟩ := h
      refine ⟨rfl, Nat.le_refl _, hv, fun n _ => ?_⟩
      simp only [parse8Digits, hcomp, hcm, if_false, pure, Except.pure, Bool.false_eq_true]

omit hf hd in
theorem takeDrop_trunc (l : List Nat) (n i j : Nat) (h : i + j ≤ n) :
    ((l.take n).drop i).take j = (l.drop i).take j := by
  rw [List.drop_take, List.take_take]
  congr 1
  omega

/-- `integer_digits` slice: inside the truncated buffer it is the same slice -/
theorem sliceTo_trunc (b : Bytes) (j n : Nat) (tag : String) (r : List Nat) (h : sliceTo c b j tag = .ok r)
    (hn : b.index + j ≤ n) : sliceTo c (trunc n b) j tag = .ok r := by
  unfold sliceTo at h ⊢
  by_cases hle : j ≤ b.asSlice.length
  · rw [if_pos hle] at h
    have hle2 : j ≤ b.slc.length - b.index := by simpa [Bytes.asSlice] using hle
    have h2 : j ≤ (trunc n b).asSlice.length := by
      simp only [Bytes.asSlice, trunc_slc, trunc_index, List.length_drop, List.length_take]; omega
    rw [if_pos h2]
    have : (trunc n b).asSlice.take j = b.asSlice.take j := takeDrop_trunc _ _ _ _ hn
    rw [this]; exact h
  · rw [if_neg hle] at h
    simp only [hd, Bool.false_eq_true, if_false] at h
    cases h

theorem integerPhase_trunc (b : Bytes) (ip : IntPart) (hv : Bytes.Valid b) (h : integerPhase c b = .ok ip) :
    ip.start = b ∧ ip.byte = Bytes.at b ip.byte.index ∧ b.index ≤ ip.byte.index ∧ Bytes.Valid ip.byte ∧
    ip.nDigits = ip.byte.index - b.index ∧
    (∀ ch, b.slc[ip.byte.index]? = some ch → charToDigit ch c.mantissaRadix = none) ∧
    ∀ n, ip.byte.index ≤ n →
      integerPhase c (trunc n b) = .ok { ip with start := trunc n b, byte := trunc n ip.byte } := by
  unfold integerPhase at h
  simp only [prefixPhase, hf, Bool.false_and, Bool.false_eq_true, if_false, bind, Except.bind, pure, Except.pure,
    currentCount_nf hf] at h
  cases h8 : parse8Digits c .integer b 0 with
  | error e => simp [h8] at h
  | ok p8 =>
    obtain ⟨m, b1⟩ := p8
    obtain ⟨a1, a2, a3, a4⟩ := parse8Digits_trunc hf hd .integer 0 b b1 m hv h8
    simp only [h8] at h
    cases hdg : parseDigits c .integer c.mantissaRadix b1 with
    | error e => simp [hdg] at h
    | ok pd =>
      obtain ⟨ds, b2⟩ := pd
      obtain ⟨d1, d2, d3, d4⟩ := parseDigits_trunc hf hd .integer c.mantissaRadix b1 b2 ds a3 hdg
      have dstop := parseDigits_stop hf hd .integer c.mantissaRadix b1 b2 ds a3 hdg
      simp only [hdg] at h
      cases hsl : sliceTo c b (b2.index - b.index) "integer get_unchecked(..b_digits)" with
      | error e => simp [hsl] at h
      | ok sl =>
        simp only [hsl, Except.ok.injEq] at h
        subst h
        have hb1 : b1.slc = b.slc := by rw [a1]; rfl
        refine ⟨rfl, ?_, by simp only; omega, d3, rfl, ?_, ?_⟩
        · simp only; rw [d1, a1]; rfl
        · intro ch hch; simp only at hch; rw [← hb1] at hch; exact dstop ch hch
        · intro n hn
          simp only at hn
          unfold integerPhase
          simp only [prefixPhase, hf, Bool.false_and, Bool.false_eq_true, if_false, bind, Except.bind, pure,
            Except.pure, currentCount_nf hf]
          have t1 := a4 n (by omega)
          simp only at t1
          rw [t1]
          simp only
          rw [d4 n hn]
          simp only [trunc_index]
          rw [sliceTo_trunc hf hd b _ n _ sl hsl (by omega)]

omit hf hd in
/-- the byte under the cursor of the truncated buffer -/
theorem first_trunc (b : Bytes) (n : Nat) :
    (trunc n b).first = if b.index < n then b.first else none := by
  unfold Bytes.first
  simp only [trunc_slc, trunc_index]
  split
  · next h => exact take_get_lt _ _ _ h
  · next h => exact take_get_ge _ _ _ (by omega)

theorem fractionPhase_trunc (o : POpts) (b : Bytes) (m0 : Nat) (fp : FracPart) (hv : Bytes.Valid b)
    (h : fractionPhase c o b m0 = .ok fp) :
    fp.byte = Bytes.at b fp.byte.index ∧ b.index ≤ fp.byte.index ∧ Bytes.Valid fp.byte ∧
    fp.nAfterDot ≤ fp.byte.index - b.index ∧
    (b.firstIsCased o.dp = true → b.index + 1 ≤ fp.byte.index ∧
      ∀ ch, b.slc[fp.byte.index]? = some ch → charToDigit ch c.mantissaRadix = none) ∧
    (¬ b.firstIsCased o.dp = true → fp.byte = b ∧ fp.nAfterDot = 0) ∧
    ∀ n, fp.byte.index ≤ n →
      fractionPhase c o (trunc n b) m0 = .ok { fp with byte := trunc n fp.byte } := by
  unfold fractionPhase at h
  by_cases hdp : b.firstIsCased o.dp = true
  · rw [if_pos hdp] at h
    have hfirst : b.first = some o.dp := by simpa [Bytes.firstIsCased] using hdp
    have hlt := first_some_lt b _ hfirst
    simp only [step_nf hd, hf, Bool.false_and, Bool.false_eq_true, if_false, bind, Except.bind, pure, Except.pure,
      currentCount_nf hf, at_index] at h
    have hv0 : Bytes.Valid (Bytes.at b (b.index + 1)) := by simp only [Bytes.Valid, at_index, at_slc]; omega
    cases h8 : parse8Digits c .fraction (Bytes.at b (b.index + 1)) m0 with
    | error e => simp [h8] at h
    | ok p8 =>
      obtain ⟨m, b1⟩ := p8
      obtain ⟨a1, a2, a3, a4⟩ := parse8Digits_trunc hf hd .fraction m0 _ b1 m hv0 h8
      simp only [h8] at h
      cases hdg : parseDigits c .fraction c.mantissaRadix b1 with
      | error e => simp [hdg] at h
      | ok pd =>
        obtain ⟨ds, b2⟩ := pd
        obtain ⟨d1, d2, d3, d4⟩ := parseDigits_trunc hf hd .fraction c.mantissaRadix b1 b2 ds a3 hdg
        have dstop := parseDigits_stop hf hd .fraction c.mantissaRadix b1 b2 ds a3 hdg
        have hb1 : b1.slc = b.slc := by rw [a1]; rfl
        simp only [hdg] at h
        cases hsl : sliceTo c (Bytes.at b (b.index + 1)) (b2.index - (b.index + 1))
            "fraction get_unchecked(..b_after_dot)" with
        | error e => simp [hsl] at h
        | ok sl =>
          simp only [hsl] at h
          cases hsc : scaleExponent c (-((b2.index - (b.index + 1) : Nat) : Int)) with
          | error e => simp [hsc] at h
          | ok ex =>
            simp only [hsc, Except.ok.injEq] at h
            subst h
            simp only [at_index] at a2
            refine ⟨?_, by simp only; omega, d3, by simp only; omega, ?_, fun hne => absurd hdp hne, ?_⟩
            · simp only; rw [d1, a1]; rfl
            · intro _
              refine ⟨by simp only; omega, ?_⟩
              intro ch hch; simp only at hch; rw [← hb1] at hch; exact dstop ch hch
            · intro n hn
              simp only at hn
              unfold fractionPhase
              have hf2 : (trunc n b).firstIsCased o.dp = true := by
                simp only [Bytes.firstIsCased, first_trunc, show b.index < n by omega, if_true, hfirst, beq_self_eq_true]
              rw [if_pos hf2]
              simp only [step_nf hd, hf, Bool.false_and, Bool.false_eq_true, if_false, bind, Except.bind, pure,
                Except.pure, currentCount_nf hf, at_index, trunc_index]
              have t1 := a4 n (by omega)
              simp only at t1
              rw [← trunc_at, t1]
              simp only
              rw [d4 n hn]
              simp only [trunc_index]
              rw [sliceTo_trunc hf hd (Bytes.at b (b.index + 1)) _ n _ sl hsl (by simp only [at_index]; omega)]
              simp only [hsc]
  · rw [if_neg hdp] at h
    simp only [pure, Except.pure, Except.ok.injEq] at h
    subst h
    refine ⟨rfl, Nat.le_refl _, hv, by simp, fun hh => absurd hh hdp, fun _ => ⟨rfl, rfl⟩, ?_⟩
    intro n hn
    unfold fractionPhase
    have hf2 : ¬ (trunc n b).firstIsCased o.dp = true := by
      simp only [Bytes.firstIsCased, first_trunc] at hdp ⊢
      split
      · exact hdp
      · simp
    rw [if_neg hf2]
    rfl

theorem parseSign_trunc (np rq : Bool) (ip ms : String) : TruncOK (parseSign c np rq ip ms) := by
  intro b b' neg hv h
  unfold parseSign at h
  split at h
  · next hfst =>
    have hlt := first_some_lt b _ hfst
    split at h
    · next hnp =>
      simp only [step_nf hd, bind, Except.bind, pure, Except.pure, Except.ok.injEq, Prod.mk.injEq] at h
      obtain ⟨rfl, rfl⟩ := h
      refine ⟨rfl, by simp, by simp only [Bytes.Valid, at_index, at_slc]; omega, ?_⟩
      intro n hn
      simp only [at_index] at hn
      unfold parseSign
      rw [first_trunc, if_pos (by omega), hfst]
      simp only [hnp, if_true, step_nf hd, bind, Except.bind, pure, Except.pure, trunc_index]
      rfl
    · cases h
  · next hfst =>
    have hlt := first_some_lt b _ hfst
    simp only [step_nf hd, bind, Except.bind, pure, Except.pure, Except.ok.injEq, Prod.mk.injEq] at h
    obtain ⟨rfl, rfl⟩ := h
    refine ⟨rfl, by simp, by simp only [Bytes.Valid, at_index, at_slc]; omega, ?_⟩
    intro n hn
    simp only [at_index] at hn
    unfold parseSign
    rw [first_trunc, if_pos (by omega), hfst]
    simp only [step_nf hd, bind, Except.bind, pure, Except.pure, trunc_index]
    rfl
  · next h43 h45 =>
    split at h
    · cases h
    · next hrq =>
      simp only [pure, Except.pure, Except.ok.injEq, Prod.mk.injEq] at h
      obtain ⟨rfl, rfl⟩ := h
      refine ⟨rfl, Nat.le_refl _, hv, ?_⟩
      intro n hn
      unfold parseSign
      rw [first_trunc]
      split
      · next hc => split at hc <;> simp_all
      · next hc => split at hc <;> simp_all
      · simp only [hrq]; rfl

theorem exponentPhase_trunc (he : Bool) (b : Bytes) (fr : Option (List Nat)) (ex : Int) (ep : ExpPart)
    (hv : Bytes.Valid b) (hlt : he = true → b.index < b.slc.length)
    (h : exponentPhase c he b fr ex = .ok ep) :
    ep.byte = Bytes.at b ep.byte.index ∧ b.index ≤ ep.byte.index ∧ Bytes.Valid ep.byte ∧
    (he = true → b.index + 1 ≤ ep.byte.index) ∧
    ∀ n, ep.byte.index ≤ n →
      exponentPhase c he (trunc n b) fr ex = .ok { ep with byte := trunc n ep.byte } := by
  unfold exponentPhase at h
  cases he with
  | false =>
    simp only [Bool.false_eq_true, if_false, hf, Bool.false_and, pure, Except.pure, Except.ok.injEq] at h
    subst h
    refine ⟨rfl, Nat.le_refl _, hv, by simp, ?_⟩
    intro n _
    unfold exponentPhase
    simp only [Bool.false_eq_true, if_false, hf, Bool.false_and, pure, Except.pure]
  | true =>
    have hlt := hlt rfl
    simp only [if_true, step_nf hd, hf, Bool.false_and, Bool.false_eq_true, if_false, bind, Except.bind, pure,
      Except.pure, currentCount_nf hf] at h
    have hv0 : Bytes.Valid (Bytes.at b (b.index + 1)) := by simp only [Bytes.Valid, at_index, at_slc]; omega
    cases hs : parseExponentSign c (Bytes.at b (b.index + 1)) with
    | error e => simp [hs] at h
    | ok ps =>
      obtain ⟨ng, b1⟩ := ps
      obtain ⟨a1, a2, a3, a4⟩ := parseSign_trunc hf hd _ _ _ _ _ b1 ng hv0 hs
      simp only [hs] at h
      cases hdg : parseDigits c .exponent c.exponentRadix b1 with
      | error e => simp [hdg] at h
      | ok pd =>
        obtain ⟨ds, b2⟩ := pd
        obtain ⟨d1, d2, d3, d4⟩ := parseDigits_trunc hf hd .exponent c.exponentRadix b1 b2 ds a3 hdg
        simp only [hdg] at h
        split at h
        · cases h
        · next hreq =>
          simp only [Except.ok.injEq] at h
          subst h
          simp only [at_index] at a2
          refine ⟨?_, by simp only; omega, d3, by intro _; simp only; omega, ?_⟩
          · simp only; rw [d1, a1]; rfl
          · intro n hn
            simp only at hn
            unfold exponentPhase
            simp only [if_true, step_nf hd, hf, Bool.false_and, Bool.false_eq_true, if_false, bind, Except.bind,
              pure, Except.pure, currentCount_nf hf, trunc_index]
            have t1 := a4 n (by omega)
            rw [← trunc_at]
            unfold parseExponentSign at hs ⊢
            rw [t1]
            simp only
            rw [d4 n hn]
            simp only [trunc_index]
            split
            · next hc => exact absurd hc hreq
            · rfl

end
end LexVerif.Proof.C11
