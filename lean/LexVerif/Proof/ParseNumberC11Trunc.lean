import LexVerif.Proof.ParseNumberC11
import LexVerif.Proof.ParseNumberTotalMany
/-!
# Proof.ParseNumberC11Trunc — truncation lemmas for C11 (B): no digit-separator byte, release build

`trunc n b` cuts the buffer of `b` after `n` bytes. Setting: `Rel c` (release build, no "consecutive-only" separator
flag set) and `NumContig c`: the digit separator byte is 0, OR none of the integer / fraction / exponent components has
a separator flag (a separator byte used by the special values only, or by nothing). This covers the build without the
`format` feature and every `format` build whose format has no digit separator in numbers (base prefix / suffix and all
syntax flags allowed). In the second case the buffer is not contiguous and `Bytes::current_count` is the sum of the
per-component digit counts: the proofs use that every digit — also those of the 8-digit fast loop, /repo 7e8a135 — is
counted exactly once (`*_cc` lemmas).
Every phase of `parse_number` that returns with the cursor at `i ≤ n` returns the same result on the truncated
buffer: bytes at positions `≥ i` are only inspected to decide to stop, and the end of the buffer leads to the same
decision.
-/
set_option linter.unusedSectionVars false
set_option linter.unusedSimpArgs false
namespace LexVerif.Proof.C11
open LexVerif LexVerif.Model LexVerif.Spec
open LexVerif.Props.C12 (Bytes.Valid incCount_spec)
open LexVerif.Proof.PNTotal (Rel peek_contig iterStep_rel bstep_rel stepBy_rel)

/-- move the cursor -/
def Bytes.at (b : Bytes) (i : Nat) : Bytes := { b with index := i }
/-- cut the buffer after `n` bytes -/
def trunc (n : Nat) (b : Bytes) : Bytes := { b with slc := b.slc.take n }

@[simp] theorem trunc_index (n : Nat) (b : Bytes) : (trunc n b).index = b.index := by cases b; rfl
@[simp] theorem trunc_slc (n : Nat) (b : Bytes) : (trunc n b).slc = b.slc.take n := by cases b; rfl
@[simp] theorem at_index (b : Bytes) (i : Nat) : (Bytes.at b i).index = i := by cases b; rfl
@[simp] theorem at_slc (b : Bytes) (i : Nat) : (Bytes.at b i).slc = b.slc := by cases b; rfl
theorem trunc_at (n : Nat) (b : Bytes) (i : Nat) : trunc n (Bytes.at b i) = Bytes.at (trunc n b) i := rfl
@[simp] theorem at_at (b : Bytes) (i j : Nat) : Bytes.at (Bytes.at b i) j = Bytes.at b j := rfl
theorem at_self (b : Bytes) : Bytes.at b b.index = b := rfl

theorem trunc_incCount (c : Cfg) (k : Comp) (n : Nat) (b : Bytes) :
    trunc n (b.incCount c k) = (trunc n b).incCount c k := by
  unfold Bytes.incCount
  split
  · rfl
  · cases k <;> rfl

@[simp] theorem incCount_slc (c : Cfg) (k : Comp) (b : Bytes) : (b.incCount c k).slc = b.slc := (incCount_spec c k b).1
@[simp] theorem incCount_index (c : Cfg) (k : Comp) (b : Bytes) : (b.incCount c k).index = b.index :=
  (incCount_spec c k b).2

/-- `for _ in 0..n { iter.increment_count() }` (the counted multi-digit block of `try_parse_8digits`) -/
def incFold (c : Cfg) (k : Comp) (l : List Nat) (b : Bytes) : Bytes := l.foldl (fun b _ => b.incCount c k) b

theorem incFold_spec (c : Cfg) (k : Comp) : ∀ (l : List Nat) (b : Bytes),
    (incFold c k l b).slc = b.slc ∧ (incFold c k l b).index = b.index ∧
    ∀ n, trunc n (incFold c k l b) = incFold c k l (trunc n b) := by
  intro l
  induction l with
  | nil => intro b; exact ⟨rfl, rfl, fun _ => rfl⟩
  | cons x xs ih =>
    intro b
    obtain ⟨h1, h2, h3⟩ := ih (b.incCount c k)
    simp only [incFold, List.foldl_cons] at h1 h2 h3 ⊢
    refine ⟨by rw [h1, incCount_slc], by rw [h2, incCount_index], fun n => ?_⟩
    rw [h3 n, trunc_incCount]

@[simp] theorem incFold_slc (c : Cfg) (k : Comp) (l : List Nat) (b : Bytes) : (incFold c k l b).slc = b.slc :=
  (incFold_spec c k l b).1
@[simp] theorem incFold_index (c : Cfg) (k : Comp) (l : List Nat) (b : Bytes) : (incFold c k l b).index = b.index :=
  (incFold_spec c k l b).2.1
theorem trunc_incFold (c : Cfg) (k : Comp) (l : List Nat) (n : Nat) (b : Bytes) :
    trunc n (incFold c k l b) = incFold c k l (trunc n b) := (incFold_spec c k l b).2.2 n

theorem take_get_lt (l : List Nat) (n i : Nat) (h : i < n) : (l.take n)[i]? = l[i]? := by
  rw [List.getElem?_take]; simp [h]
theorem take_get_ge (l : List Nat) (n i : Nat) (h : n ≤ i) : (l.take n)[i]? = none := by
  rw [List.getElem?_take]; simp; omega

theorem take8_trunc (l : List Nat) (n i : Nat) (h : i + 8 ≤ n) : ((l.take n).drop i).take 8 = (l.drop i).take 8 := by
  rw [List.drop_take, List.take_take]
  congr 1
  omega

theorem takeDrop_trunc (l : List Nat) (n i j : Nat) (h : i + j ≤ n) :
    ((l.take n).drop i).take j = (l.drop i).take j := by
  rw [List.drop_take, List.take_take]
  congr 1
  omega

/-- the byte under the cursor of the truncated buffer -/
theorem first_trunc (b : Bytes) (n : Nat) :
    (trunc n b).first = if b.index < n then b.first else none := by
  unfold Bytes.first
  simp only [trunc_slc, trunc_index]
  split
  · next h => exact take_get_lt _ _ _ h
  · next h => exact take_get_ge _ _ _ (by omega)

theorem get_trunc (b : Bytes) (n : Nat) :
    (trunc n b).slc[(trunc n b).index]? = if b.index < n then b.slc[b.index]? else none := first_trunc b n

/-- the integer, fraction and exponent iterators never skip: there is no digit-separator byte, or none of the three
components has a separator flag (the special-value iterator may have one) -/
def NumContig (c : Cfg) : Prop :=
  c.bytesContiguous = true ∨ ∀ k, k ≠ Comp.special → c.iterContiguous k = true

theorem NumContig.of_bytes {c : Cfg} (hb : c.bytesContiguous = true) : NumContig c := Or.inl hb

theorem skip_of_not_any (f : SepFlags) (h : f.any = false) : f.skip = .noskip := by
  obtain ⟨i, l, t, cc⟩ := f
  cases i <;> cases l <;> cases t <;> cases cc <;> first | rfl | (simp [SepFlags.any] at h)

@[simp] theorem trunc_currentCount (c : Cfg) (n : Nat) (b : Bytes) : (trunc n b).currentCount c = b.currentCount c := by
  cases b; rfl

theorem format_of_not_bytesContig {c : Cfg} (h : c.bytesContiguous = false) : c.feats.format = true := by
  cases hf : c.feats.format with
  | true => rfl
  | false => rw [PNTotal.notFormat_bytesContig hf] at h; cases h

/-- one counted digit: `step_unchecked(); increment_count()` raises `Bytes::current_count` by one (any format) -/
theorem cc_step_inc (c : Cfg) (k : Comp) (hk : k ≠ .special) (b : Bytes) :
    ((Bytes.at b (b.index + 1)).incCount c k).currentCount c = b.currentCount c + 1 := by
  cases hbc : c.bytesContiguous with
  | true => simp [Bytes.currentCount, hbc]
  | false =>
    have hf := format_of_not_bytesContig hbc
    unfold Bytes.currentCount Bytes.incCount Bytes.at
    simp only [hbc, hf, Bool.not_true, Bool.false_eq_true, if_false]
    cases k with
    | special => exact absurd rfl hk
    | integer => simp only; omega
    | fraction => simp only; omega
    | exponent => simp only; omega

/-- a counted block: `step_by_unchecked(n); for _ in 0..n { increment_count() }` raises it by `n` -/
theorem cc_block (c : Cfg) (k : Comp) (hk : k ≠ .special) (l : List Nat) (b : Bytes) :
    (incFold c k l (Bytes.at b (b.index + l.length))).currentCount c = b.currentCount c + l.length := by
  cases hbc : c.bytesContiguous with
  | true => simp [Bytes.currentCount, hbc]
  | false =>
    have hf := format_of_not_bytesContig hbc
    have key : ∀ (l : List Nat) (b : Bytes), (incFold c k l b).ic + (incFold c k l b).fc + (incFold c k l b).ec =
        b.ic + b.fc + b.ec + l.length := by
      intro l
      induction l with
      | nil => intro b; rfl
      | cons x xs ih =>
        intro b
        have := ih (b.incCount c k)
        simp only [incFold, List.foldl_cons, List.length_cons] at this ⊢
        rw [this]
        unfold Bytes.incCount
        simp only [hf, Bool.not_true, Bool.false_eq_true, if_false]
        cases k with
        | special => exact absurd rfl hk
        | integer => simp only; omega
        | fraction => simp only; omega
        | exponent => simp only; omega
    unfold Bytes.currentCount
    simp only [hbc, Bool.false_eq_true, if_false, key]
    rfl

section
variable {c : Cfg} (hc : Rel c) (hb : NumContig c)
include hc hb

/-- `peek` of the integer / fraction / exponent iterator is `slc.get(index)` -/
theorem peek_num (k : Comp) (hk : k ≠ .special) (b : Bytes) : peek c k b = .ok (b.slc[b.index]?, b) := by
  rcases hb with hb | hi
  · exact peek_contig hc hb k b
  · have hik := hi k hk
    have hs : c.skip k = .noskip := by
      cases k with
      | special => exact absurd rfl hk
      | integer => exact skip_of_not_any _ (by simpa [Cfg.iterContiguous] using hik)
      | fraction => exact skip_of_not_any _ (by simpa [Cfg.iterContiguous] using hik)
      | exponent => exact skip_of_not_any _ (by simpa [Cfg.iterContiguous] using hik)
    unfold peek
    rw [hs]

theorem iterStep_g (k : Comp) (b : Bytes) : iterStep c k b = .ok (Bytes.at b (b.index + 1)) := iterStep_rel hc k b
theorem step_g (b : Bytes) : b.step c = .ok (Bytes.at b (b.index + 1)) := bstep_rel hc b
theorem stepBy_g (ct : Bool) (n : Nat) (b : Bytes) : b.stepBy c ct n = .ok (Bytes.at b (b.index + n)) :=
  stepBy_rel hc ct n b

/-- one iteration of `parse_digits` -/
theorem parseDigitsLoop_succ (k : Comp) (hk : k ≠ .special) (r fuel : Nat) (b : Bytes) :
    parseDigitsLoop c k r (fuel + 1) b =
      match b.slc[b.index]? with
      | none => .ok ([], b)
      | some ch =>
        match charToDigit ch r with
        | none => .ok ([], b)
        | some d =>
          match parseDigitsLoop c k r fuel ((Bytes.at b (b.index + 1)).incCount c k) with
          | .ok (ds, b2) => .ok (d :: ds, b2)
          | .error e => .error e := by
  rw [parseDigitsLoop]
  simp only [peek_num hc hb k hk b, bind, Except.bind, pure, Except.pure]
  cases b.slc[b.index]? with
  | none => rfl
  | some ch =>
    simp only
    cases charToDigit ch r with
    | none => rfl
    | some d =>
      simp only [iterStep_g hc hb]
      cases parseDigitsLoop c k r fuel ((Bytes.at b (b.index + 1)).incCount c k) with
      | error e => rfl
      | ok p => rfl

theorem parseDigitsLoop_trunc (k : Comp) (hk : k ≠ .special) (r : Nat) :
    ∀ (fuel : Nat) (b b' : Bytes) (ds : List Nat), Bytes.Valid b → parseDigitsLoop c k r fuel b = .ok (ds, b') →
      b'.slc = b.slc ∧ b.index ≤ b'.index ∧ Bytes.Valid b' ∧
      (∀ ch, b.slc[b'.index]? = some ch → charToDigit ch r = none) ∧
      ∀ n fuel2, b'.index ≤ n → b'.index - b.index < fuel2 →
        parseDigitsLoop c k r fuel2 (trunc n b) = .ok (ds, trunc n b') := by
  intro fuel
  induction fuel with
  | zero => intro b b' ds _ h; simp [parseDigitsLoop] at h
  | succ f ih =>
    intro b b' ds hv h
    rw [parseDigitsLoop_succ hc hb k hk] at h
    cases hg : b.slc[b.index]? with
    | none =>
      simp only [hg, Except.ok.injEq, Prod.mk.injEq] at h
      obtain ⟨rfl, rfl⟩ := h
      refine ⟨rfl, Nat.le_refl _, hv, (by intro ch hch; rw [hg] at hch; cases hch), ?_⟩
      intro n fuel2 _ hfu
      obtain ⟨f2, rfl⟩ : ∃ f2, fuel2 = f2 + 1 := ⟨fuel2 - 1, by omega⟩
      rw [parseDigitsLoop_succ hc hb k hk]
      have : (trunc n b).slc[(trunc n b).index]? = none := by
        rw [get_trunc, hg]; split <;> rfl
      rw [this]
    | some ch =>
      simp only [hg] at h
      have hlt : b.index < b.slc.length := (List.getElem?_eq_some_iff.mp hg).1
      cases hdg : charToDigit ch r with
      | none =>
        simp only [hdg, Except.ok.injEq, Prod.mk.injEq] at h
        obtain ⟨rfl, rfl⟩ := h
        refine ⟨rfl, Nat.le_refl _, hv, (by intro ch2 hch; rw [hg] at hch; cases hch; exact hdg), ?_⟩
        intro n fuel2 _ hfu
        obtain ⟨f2, rfl⟩ : ∃ f2, fuel2 = f2 + 1 := ⟨fuel2 - 1, by omega⟩
        rw [parseDigitsLoop_succ hc hb k hk, get_trunc]
        by_cases hn : b.index < n
        · rw [if_pos hn, hg]; simp only [hdg]
        · rw [if_neg hn]
      | some d =>
        simp only [hdg] at h
        cases hrec : parseDigitsLoop c k r f ((Bytes.at b (b.index + 1)).incCount c k) with
        | error e => simp [hrec] at h
        | ok p =>
          obtain ⟨ds2, b2⟩ := p
          simp only [hrec, Except.ok.injEq, Prod.mk.injEq] at h
          obtain ⟨rfl, rfl⟩ := h
          have hv1 : Bytes.Valid ((Bytes.at b (b.index + 1)).incCount c k) := by
            simp only [Bytes.Valid, incCount_slc, incCount_index, at_index, at_slc]; omega
          obtain ⟨e1, e2, e3, e4, e5⟩ := ih _ _ _ hv1 hrec
          simp only [incCount_slc, incCount_index, at_index, at_slc] at e1 e2 e4
          refine ⟨e1, by omega, e3, e4, ?_⟩
          intro n fuel2 hn hfu
          obtain ⟨f2, rfl⟩ : ∃ f2, fuel2 = f2 + 1 := ⟨fuel2 - 1, by omega⟩
          rw [parseDigitsLoop_succ hc hb k hk, get_trunc, if_pos (by omega), hg]
          simp only [hdg]
          have := e5 n f2 hn (by simp only [incCount_index, at_index]; omega)
          rw [trunc_incCount, trunc_at] at this
          simp only [trunc_index]
          rw [this]

/-- `f` keeps the buffer, only moves the cursor forward, keeps it inside the buffer, and returns the same on every
truncation of the buffer at or beyond the final cursor -/
def TruncOK {α : Type} (f : Bytes → Except Err (α × Bytes)) : Prop :=
  ∀ (b b' : Bytes) (r : α), Bytes.Valid b → f b = .ok (r, b') →
    b'.slc = b.slc ∧ b.index ≤ b'.index ∧ Bytes.Valid b' ∧
    ∀ n, b'.index ≤ n → f (trunc n b) = .ok (r, trunc n b')

theorem parseDigits_trunc (k : Comp) (hk : k ≠ .special) (r : Nat) : TruncOK (parseDigits c k r) := by
  intro b b' ds hv h
  obtain ⟨e1, e2, e3, _, e5⟩ := parseDigitsLoop_trunc hc hb k hk r _ b b' ds hv h
  refine ⟨e1, e2, e3, ?_⟩
  intro n hn
  unfold parseDigits
  apply e5 n _ hn
  have : b'.index ≤ b'.slc.length := e3
  rw [e1] at this
  simp only [trunc_slc, List.length_take]
  omega

/-- the byte `parse_digits` stops at is not a digit -/
theorem parseDigits_stop (k : Comp) (hk : k ≠ .special) (r : Nat) (b b' : Bytes) (ds : List Nat) (hv : Bytes.Valid b)
    (h : parseDigits c k r b = .ok (ds, b')) : ∀ ch, b.slc[b'.index]? = some ch → charToDigit ch r = none :=
  (parseDigitsLoop_trunc hc hb k hk r _ b b' ds hv h).2.2.2.1

/-- `parse_digits` counts every digit it consumes: `current_count` grows exactly like the cursor -/
theorem parseDigitsLoop_cc (k : Comp) (hk : k ≠ .special) (r : Nat) :
    ∀ (fuel : Nat) (b b' : Bytes) (ds : List Nat), parseDigitsLoop c k r fuel b = .ok (ds, b') →
      b'.currentCount c + b.index = b.currentCount c + b'.index := by
  intro fuel
  induction fuel with
  | zero => intro b b' ds h; simp [parseDigitsLoop] at h
  | succ f ih =>
    intro b b' ds h
    rw [parseDigitsLoop_succ hc hb k hk] at h
    cases hg : b.slc[b.index]? with
    | none =>
      simp only [hg, Except.ok.injEq, Prod.mk.injEq] at h
      obtain ⟨_, rfl⟩ := h
      rfl
    | some ch =>
      simp only [hg] at h
      cases hdg : charToDigit ch r with
      | none =>
        simp only [hdg, Except.ok.injEq, Prod.mk.injEq] at h
        obtain ⟨_, rfl⟩ := h
        rfl
      | some d =>
        simp only [hdg] at h
        cases hrec : parseDigitsLoop c k r f ((Bytes.at b (b.index + 1)).incCount c k) with
        | error e => simp [hrec] at h
        | ok p =>
          obtain ⟨ds2, b2⟩ := p
          simp only [hrec, Except.ok.injEq, Prod.mk.injEq] at h
          obtain ⟨_, rfl⟩ := h
          have := ih _ _ _ hrec
          rw [cc_step_inc c k hk] at this
          simp only [incCount_index, at_index] at this
          omega

theorem parseDigits_cc (k : Comp) (hk : k ≠ .special) (r : Nat) (b b' : Bytes) (ds : List Nat)
    (h : parseDigits c k r b = .ok (ds, b')) : b'.currentCount c + b.index = b.currentCount c + b'.index :=
  parseDigitsLoop_cc hc hb k hk r _ b b' ds h

theorem tryParse8_g (k : Comp) (b : Bytes) :
    tryParse8 c k b =
      if c.iterContiguous k = true ∧ b.slc.length - b.index ≥ 8 ∧ b.index ≤ b.slc.length then
        (if is8Digits c.mantissaRadix ((b.slc.drop b.index).take 8) then
          .ok (some (val8Digits c.mantissaRadix ((b.slc.drop b.index).take 8)),
            incFold c k (List.range 8) (Bytes.at b (b.index + 8)))
         else .ok (none, b))
      else .ok (none, b) := by
  by_cases hcnd : c.iterContiguous k = true ∧ b.slc.length - b.index ≥ 8 ∧ b.index ≤ b.slc.length
  · rw [if_pos hcnd]
    simp only [tryParse8, peekBytes, hc.hd, stepBy_g hc hb, hcnd, Bool.false_and, Bool.false_eq_true,
      if_false, Bool.true_and, Bool.and_eq_true, decide_eq_true_eq, and_self, if_true, bind, Except.bind, pure,
      Except.pure, incFold]
  · rw [if_neg hcnd]
    have : (c.iterContiguous k && decide (b.slc.length - b.index ≥ 8) && decide (b.index ≤ b.slc.length)) = false := by
      cases hk : c.iterContiguous k
      · rfl
      · simp only [hk, true_and] at hcnd
        simp only [Bool.true_and, Bool.and_eq_false_iff, decide_eq_false_iff_not]
        by_cases h1 : b.slc.length - b.index ≥ 8
        · right; intro h2; exact hcnd ⟨h1, h2⟩
        · left; exact h1
    simp only [tryParse8, peekBytes, hc.hd, this, Bool.false_and, Bool.false_eq_true, if_false, pure, Except.pure]

theorem tryParse8_trunc (k : Comp) : TruncOK (tryParse8 c k) := by
  intro b b' r hv h
  rw [tryParse8_g hc hb] at h
  have key : ∀ n, b.index ≤ n → r = none → b' = b →
      (¬ (c.iterContiguous k = true ∧ b.slc.length - b.index ≥ 8 ∧ b.index ≤ b.slc.length) ∨
        is8Digits c.mantissaRadix ((b.slc.drop b.index).take 8) = false) →
      tryParse8 c k (trunc n b) = .ok (r, trunc n b') := by
    intro n _ hr hbb hcase
    subst hr hbb
    rw [tryParse8_g hc hb]
    by_cases hc2 : c.iterContiguous k = true ∧ (trunc n b').slc.length - (trunc n b').index ≥ 8 ∧
        (trunc n b').index ≤ (trunc n b').slc.length
    · rw [if_pos hc2]
      have hn8 : b'.index + 8 ≤ n ∧ b'.slc.length - b'.index ≥ 8 ∧ b'.index ≤ b'.slc.length := by
        have := hc2.2
        simp only [trunc_slc, trunc_index, List.length_take] at this; omega
      rw [show List.take 8 (List.drop (trunc n b').index (trunc n b').slc) = List.take 8 (List.drop b'.index b'.slc)
        from take8_trunc _ _ _ hn8.1]
      rcases hcase with hcase | hcase
      · exact absurd ⟨hc2.1, hn8.2⟩ hcase
      · rw [hcase]; rfl
    · rw [if_neg hc2]
  split at h
  · next hcnd =>
    split at h
    · next h8 =>
      simp only [Except.ok.injEq, Prod.mk.injEq] at h
      obtain ⟨rfl, rfl⟩ := h
      refine ⟨by simp, by simp, by simp only [Bytes.Valid, incFold_index, incFold_slc, at_index, at_slc]; omega, ?_⟩
      intro n hn
      simp only [incFold_index, at_index] at hn
      rw [tryParse8_g hc hb]
      have hc2 : c.iterContiguous k = true ∧ (trunc n b).slc.length - (trunc n b).index ≥ 8 ∧
          (trunc n b).index ≤ (trunc n b).slc.length := by
        refine ⟨hcnd.1, ?_⟩
        simp only [trunc_slc, trunc_index, List.length_take]; omega
      rw [if_pos hc2]
      rw [show List.take 8 (List.drop (trunc n b).index (trunc n b).slc) = List.take 8 (List.drop b.index b.slc)
        from take8_trunc _ _ _ hn]
      rw [if_pos h8, trunc_incFold]
      rfl
    · next h8 =>
      simp only [Except.ok.injEq, Prod.mk.injEq] at h
      obtain ⟨rfl, rfl⟩ := h
      exact ⟨rfl, Nat.le_refl _, hv, fun n hn => key n hn rfl rfl (Or.inr (by simpa using h8))⟩
  · next hcnd =>
    simp only [Except.ok.injEq, Prod.mk.injEq] at h
    obtain ⟨rfl, rfl⟩ := h
    exact ⟨rfl, Nat.le_refl _, hv, fun n hn => key n hn rfl rfl (Or.inl hcnd)⟩

/-- … and so does the 8-digit fast loop (`increment_count` × 8 after `step_by_unchecked(8)`, /repo 7e8a135) -/
theorem tryParse8_cc (k : Comp) (hk : k ≠ .special) (b b' : Bytes) (v : Option Nat)
    (h : tryParse8 c k b = .ok (v, b')) : b'.currentCount c + b.index = b.currentCount c + b'.index := by
  rw [tryParse8_g hc hb] at h
  split at h
  · split at h
    · simp only [Except.ok.injEq, Prod.mk.injEq] at h
      obtain ⟨_, rfl⟩ := h
      have := cc_block c k hk (List.range 8) b
      simp only [List.length_range] at this
      rw [this]
      simp only [incFold_index, at_index]
      omega
    · simp only [Except.ok.injEq, Prod.mk.injEq] at h
      obtain ⟨_, rfl⟩ := h
      rfl
  · simp only [Except.ok.injEq, Prod.mk.injEq] at h
    obtain ⟨_, rfl⟩ := h
    rfl

theorem parse8Loop_cc (k : Comp) (hk : k ≠ .special) :
    ∀ (fuel : Nat) (b b' : Bytes) (m r : Nat), parse8Loop c k fuel b m = .ok (r, b') →
      b'.currentCount c + b.index = b.currentCount c + b'.index := by
  intro fuel
  induction fuel with
  | zero => intro b b' m r h; simp [parse8Loop] at h
  | succ f ih =>
    intro b b' m r h
    rw [parse8Loop] at h
    simp only [bind, Except.bind, pure, Except.pure] at h
    cases ht : tryParse8 c k b with
    | error e => simp [ht] at h
    | ok p =>
      obtain ⟨v, b1⟩ := p
      have t := tryParse8_cc hc hb k hk b b1 v ht
      simp only [ht] at h
      cases v with
      | none =>
        simp only [Except.ok.injEq, Prod.mk.injEq] at h
        obtain ⟨_, rfl⟩ := h
        exact t
      | some x =>
        simp only at h
        have := ih _ _ _ _ h
        omega

theorem parse8Digits_cc (k : Comp) (hk : k ≠ .special) (m : Nat) (b b' : Bytes) (r : Nat)
    (h : parse8Digits c k b m = .ok (r, b')) : b'.currentCount c + b.index = b.currentCount c + b'.index := by
  unfold parse8Digits at h
  split at h
  · simp only [pure, Except.pure, Except.ok.injEq, Prod.mk.injEq] at h
    obtain ⟨_, rfl⟩ := h
    rfl
  · split at h
    · simp only [hc.hd, Bool.false_and, Bool.false_eq_true, if_false] at h
      exact parse8Loop_cc hc hb k hk _ b b' m r h
    · simp only [pure, Except.pure, Except.ok.injEq, Prod.mk.injEq] at h
      obtain ⟨_, rfl⟩ := h
      rfl

theorem parse8Loop_trunc (k : Comp) :
    ∀ (fuel : Nat) (b b' : Bytes) (m r : Nat), Bytes.Valid b → parse8Loop c k fuel b m = .ok (r, b') →
      b'.slc = b.slc ∧ b.index ≤ b'.index ∧ Bytes.Valid b' ∧
      ∀ n fuel2, b'.index ≤ n → b'.index - b.index < fuel2 →
        parse8Loop c k fuel2 (trunc n b) m = .ok (r, trunc n b') := by
  intro fuel
  induction fuel with
  | zero => intro b b' m r _ h; simp [parse8Loop] at h
  | succ f ih =>
    intro b b' m r hv h
    rw [parse8Loop] at h
    simp only [bind, Except.bind, pure, Except.pure] at h
    cases ht : tryParse8 c k b with
    | error e => simp [ht] at h
    | ok p =>
      obtain ⟨v, b1⟩ := p
      obtain ⟨t1, t2, t3, t4⟩ := tryParse8_trunc hc hb k b b1 v hv ht
      simp only [ht] at h
      cases v with
      | none =>
        simp only [Except.ok.injEq, Prod.mk.injEq] at h
        obtain ⟨rfl, rfl⟩ := h
        refine ⟨t1, t2, t3, ?_⟩
        intro n fuel2 hn hfu
        obtain ⟨f2, rfl⟩ : ∃ f2, fuel2 = f2 + 1 := ⟨fuel2 - 1, by omega⟩
        rw [parse8Loop]
        simp only [bind, Except.bind, pure, Except.pure, t4 n hn]
      | some x =>
        simp only at h
        obtain ⟨e1, e2, e3, e5⟩ := ih _ _ _ _ t3 h
        have hstep : b.index + 8 ≤ b1.index := by
          rw [tryParse8_g hc hb] at ht
          split at ht
          · split at ht
            · simp only [Except.ok.injEq, Prod.mk.injEq] at ht
              rw [← ht.2]; simp
            · simp at ht
          · simp at ht
        refine ⟨by rw [e1, t1], by omega, e3, ?_⟩
        intro n fuel2 hn hfu
        obtain ⟨f2, rfl⟩ : ∃ f2, fuel2 = f2 + 1 := ⟨fuel2 - 1, by omega⟩
        rw [parse8Loop]
        simp only [bind, Except.bind, pure, Except.pure, t4 n (by omega)]
        exact e5 n f2 hn (by omega)

theorem parse8Digits_trunc (k : Comp) (m : Nat) : TruncOK (fun b => parse8Digits c k b m) := by
  intro b b' r hv h
  by_cases hcomp : c.feats.compact = true
  · simp only [parse8Digits, hcomp, if_true, pure, Except.pure, Except.ok.injEq, Prod.mk.injEq] at h
    obtain ⟨rfl, rfl⟩ := h
    refine ⟨rfl, Nat.le_refl _, hv, fun n _ => ?_⟩
    simp only [parse8Digits, hcomp, if_true, pure, Except.pure]
  · by_cases hcm : canMultidigit c k = true
    · simp only [parse8Digits, hcomp, hcm, hc.hd, if_true, if_false, Bool.false_and, Bool.false_eq_true] at h
      obtain ⟨e1, e2, e3, e5⟩ := parse8Loop_trunc hc hb k _ b b' m r hv h
      refine ⟨e1, e2, e3, ?_⟩
      intro n hn
      simp only [parse8Digits, hcomp, hcm, hc.hd, if_true, if_false, Bool.false_and, Bool.false_eq_true]
      apply e5 n _ hn
      have : b'.index ≤ b'.slc.length := e3
      rw [e1] at this
      simp only [trunc_slc, List.length_take]
      omega
    · simp only [parse8Digits, hcomp, hcm, if_false, pure, Except.pure, Except.ok.injEq, Prod.mk.injEq,
        Bool.false_eq_true] at h
      obtain ⟨rfl, rfl⟩ := h
      refine ⟨rfl, Nat.le_refl _, hv, fun n _ => ?_⟩
      simp only [parse8Digits, hcomp, hcm, if_false, pure, Except.pure, Bool.false_eq_true]

/-- `integer_digits` slice: inside the truncated buffer it is the same slice -/
theorem sliceTo_trunc (b : Bytes) (j n : Nat) (tag : String) (r : List Nat) (h : sliceTo c b j tag = .ok r)
    (hn : b.index + j ≤ n) : sliceTo c (trunc n b) j tag = .ok r := by
  unfold sliceTo at h ⊢
  by_cases hle : j ≤ b.asSlice.length
  · rw [if_pos hle] at h
    have hle2 : j ≤ b.slc.length - b.index := by simpa [Bytes.asSlice] using hle
    have h2 : j ≤ (trunc n b).asSlice.length := by
      simp only [Bytes.asSlice, trunc_slc, trunc_index, List.length_drop, List.length_take]; omega
    rw [if_pos h2]
    have : (trunc n b).asSlice.take j = b.asSlice.take j := takeDrop_trunc _ _ _ _ hn
    rw [this]; exact h
  · rw [if_neg hle] at h
    simp only [hc.hd, Bool.false_eq_true, if_false] at h
    cases h

/-! ## single-byte reads, base prefix -/

omit hc hb in
/-- `first_is` / `read_if_value`: the byte test -/
def matchByte (v : Nat) (cased : Bool) (x : Option Nat) : Bool :=
  if cased then x == some v
  else match x with
    | some y => eqIgnoreCase y v
    | none => false

omit hc hb in
theorem firstIs_eq (b : Bytes) (v : Nat) (cased : Bool) : b.firstIs v cased = matchByte v cased b.first := by
  unfold Bytes.firstIs Bytes.firstIsCased Bytes.firstIsUncased matchByte
  rfl

omit hc hb in
theorem matchByte_some (v : Nat) (cased : Bool) (x : Option Nat) (h : matchByte v cased x = true) : ∃ y, x = some y := by
  cases x with
  | some y => exact ⟨y, rfl⟩
  | none => cases cased <;> simp [matchByte] at h

omit hc hb in
theorem matchByte_none (v : Nat) (cased : Bool) : matchByte v cased none = false := by
  cases cased <;> simp [matchByte]

theorem readIfValueCased_g (k : Comp) (hk : k ≠ .special) (v : Nat) (b : Bytes) :
    readIfValueCased c k v b =
      .ok (if (b.slc[b.index]? == some v) = true then (true, Bytes.at b (b.index + 1)) else (false, b)) := by
  unfold readIfValueCased
  simp only [peek_num hc hb k hk b, bind, Except.bind, pure, Except.pure, iterStep_g hc hb]
  split <;> rfl

theorem readIfValue_g (k : Comp) (hk : k ≠ .special) (v : Nat) (cased : Bool) (b : Bytes) :
    readIfValue c k v cased b =
      .ok (if matchByte v cased b.slc[b.index]? = true then (true, Bytes.at b (b.index + 1)) else (false, b)) := by
  unfold readIfValue
  cases cased with
  | true =>
    simp only [if_true, readIfValueCased_g hc hb k hk, matchByte]
  | false =>
    simp only [Bool.false_eq_true, if_false, matchByte]
    unfold readIfValueUncased
    simp only [peek_num hc hb k hk b, bind, Except.bind, pure, Except.pure, iterStep_g hc hb]
    cases b.slc[b.index]? with
    | none => rfl
    | some y =>
      simp only
      split <;> rfl

theorem prefixPhase_g (b : Bytes) :
    prefixPhase c b =
      if (c.feats.format && c.basePrefix ≠ 0) = true then
        (if (b.slc[b.index]? == some 48) = true then
          (if matchByte c.basePrefix c.caseSensitiveBasePrefix b.slc[b.index + 1]? = true then
            (if ((Bytes.at b (b.index + 2)).isBufferEmpty && c.requiredIntegerDigits) = true then
              .error (.err "EmptyInteger" (b.index + 2))
             else .ok (true, Bytes.at b (b.index + 2)))
           else .ok (true, Bytes.at b (b.index + 1)))
         else .ok (false, b))
      else .ok (false, b) := by
  unfold prefixPhase
  simp only [prefixRepair, Bool.false_eq_true, if_false]
  by_cases hfmt : (c.feats.format && c.basePrefix ≠ 0) = true
  · rw [if_pos hfmt, if_pos hfmt]
    simp only [readIfValueCased_g hc hb .integer (by decide), bind, Except.bind]
    by_cases h48 : (b.slc[b.index]? == some 48) = true
    · rw [if_pos h48, if_pos h48]
      have hr2 : readIfValue c .integer c.basePrefix c.caseSensitiveBasePrefix (Bytes.at b (b.index + 1)) =
          .ok (if matchByte c.basePrefix c.caseSensitiveBasePrefix b.slc[b.index + 1]? = true then
            (true, Bytes.at b (b.index + 2)) else (false, Bytes.at b (b.index + 1))) :=
        readIfValue_g hc hb .integer (by decide) _ _ (Bytes.at b (b.index + 1))
      simp only [if_true, hr2]
      by_cases hm : matchByte c.basePrefix c.caseSensitiveBasePrefix b.slc[b.index + 1]? = true
      · rw [if_pos hm, if_pos hm]
        simp only [Bool.true_and, pure, Except.pure, at_index]
      · rw [if_neg hm, if_neg hm]
        simp only [Bool.false_and, Bool.false_eq_true, if_false, pure, Except.pure]
    · rw [if_neg h48, if_neg h48]
      simp only [Bool.false_eq_true, if_false, pure, Except.pure]
  · rw [if_neg hfmt, if_neg hfmt]
    rfl

/-- the base-prefix phase under truncation; when integer digits are required the cut must lie strictly after the
prefix (otherwise the complete parser reports `EmptyInteger` there — and so does the partial parser, later) -/
theorem prefixPhase_trunc (b b' : Bytes) (isP : Bool) (hv : Bytes.Valid b) (h : prefixPhase c b = .ok (isP, b')) :
    b'.slc = b.slc ∧ b.index ≤ b'.index ∧ Bytes.Valid b' ∧
    ∀ n, b'.index ≤ n → (c.requiredIntegerDigits = true → b'.index < n) →
      prefixPhase c (trunc n b) = .ok (isP, trunc n b') := by
  rw [prefixPhase_g hc hb] at h
  split at h
  · next hfmt =>
    split at h
    · next h48 =>
      have hlt : b.index < b.slc.length := by
        have : b.slc[b.index]? = some 48 := by simpa using h48
        exact (List.getElem?_eq_some_iff.mp this).1
      split at h
      · next hm =>
        obtain ⟨y, hy⟩ := matchByte_some _ _ _ hm
        have hlt2 : b.index + 1 < b.slc.length := (List.getElem?_eq_some_iff.mp hy).1
        split at h
        · cases h
        · next hemp =>
          simp only [Except.ok.injEq, Prod.mk.injEq] at h
          obtain ⟨rfl, rfl⟩ := h
          refine ⟨rfl, by simp, by simp only [Bytes.Valid, at_index, at_slc]; omega, ?_⟩
          intro n hn hreq
          simp only [at_index] at hn hreq
          rw [prefixPhase_g hc hb, if_pos hfmt]
          rw [show (trunc n b).slc[(trunc n b).index]? = b.slc[b.index]? from
              take_get_lt _ _ _ (by simp only [trunc_index]; omega), if_pos h48,
            show (trunc n b).slc[(trunc n b).index + 1]? = b.slc[b.index + 1]? from
              take_get_lt _ _ _ (by simp only [trunc_index]; omega), if_pos hm]
          have hX : ¬ ((Bytes.at (trunc n b) ((trunc n b).index + 2)).isBufferEmpty && c.requiredIntegerDigits) = true := by
            cases hri : c.requiredIntegerDigits with
            | false => simp
            | true =>
              have := hreq hri
              simp only [hri, Bool.and_true, Bytes.isBufferEmpty, at_index, at_slc, trunc_slc, trunc_index,
                List.length_take, decide_eq_true_eq, ge_iff_le, Nat.not_le] at hemp ⊢
              omega
          rw [if_neg hX]
          rfl
      · next hm =>
        simp only [Except.ok.injEq, Prod.mk.injEq] at h
        obtain ⟨rfl, rfl⟩ := h
        refine ⟨rfl, by simp, by simp only [Bytes.Valid, at_index, at_slc]; omega, ?_⟩
        intro n hn _
        simp only [at_index] at hn
        rw [prefixPhase_g hc hb, if_pos hfmt]
        rw [show (trunc n b).slc[(trunc n b).index]? = b.slc[b.index]? from
          take_get_lt _ _ _ (by simp only [trunc_index]; omega), if_pos h48]
        have : matchByte c.basePrefix c.caseSensitiveBasePrefix (trunc n b).slc[(trunc n b).index + 1]? = false := by
          by_cases hlt3 : b.index + 1 < n
          · rw [show (trunc n b).slc[(trunc n b).index + 1]? = b.slc[b.index + 1]? from take_get_lt _ _ _ hlt3]
            simpa using hm
          · rw [show (trunc n b).slc[(trunc n b).index + 1]? = none from take_get_ge _ _ _ (by simp only [trunc_index]; omega)]
            exact matchByte_none _ _
        rw [this]
        rfl
    · next h48 =>
      simp only [Except.ok.injEq, Prod.mk.injEq] at h
      obtain ⟨rfl, rfl⟩ := h
      refine ⟨rfl, Nat.le_refl _, hv, ?_⟩
      intro n hn _
      rw [prefixPhase_g hc hb, if_pos hfmt, get_trunc]
      have : ((if b.index < n then b.slc[b.index]? else none) == some 48) = false := by
        split
        · simpa using h48
        · rfl
      rw [this]
      rfl
  · next hfmt =>
    simp only [Except.ok.injEq, Prod.mk.injEq] at h
    obtain ⟨rfl, rfl⟩ := h
    refine ⟨rfl, Nat.le_refl _, hv, ?_⟩
    intro n _ _
    rw [prefixPhase_g hc hb, if_neg hfmt]

omit hc hb in
theorem requiredIntegerDigits_format (h : c.requiredIntegerDigits = true) : c.feats.format = true := by
  unfold Cfg.requiredIntegerDigits Cfg.flag at h
  split at h
  · assumption
  · cases h

theorem integerPhase_trunc (b : Bytes) (ip : IntPart) (hv : Bytes.Valid b) (h : integerPhase c b = .ok ip) :
    ip.start.slc = b.slc ∧ b.index ≤ ip.start.index ∧ Bytes.Valid ip.start ∧
    ip.byte.slc = b.slc ∧ ip.start.index ≤ ip.byte.index ∧ Bytes.Valid ip.byte ∧
    ip.nDigits = ip.byte.index - ip.start.index ∧
    (∀ ch, b.slc[ip.byte.index]? = some ch → charToDigit ch c.mantissaRadix = none) ∧
    ∀ n, ip.byte.index ≤ n →
      integerPhase c (trunc n b) = .ok { ip with start := trunc n ip.start, byte := trunc n ip.byte } := by
  unfold integerPhase at h
  simp only [bind, Except.bind, pure, Except.pure] at h
  cases hpp : prefixPhase c b with
  | error e => simp [hpp] at h
  | ok pp =>
    obtain ⟨isP, b0⟩ := pp
    obtain ⟨p1, p2, p3, p4⟩ := prefixPhase_trunc hc hb b b0 isP hv hpp
    simp only [hpp] at h
    cases h8 : parse8Digits c .integer b0 0 with
    | error e => simp [h8] at h
    | ok p8 =>
      obtain ⟨m, b1⟩ := p8
      obtain ⟨a1, a2, a3, a4⟩ := parse8Digits_trunc hc hb .integer 0 b0 b1 m p3 h8
      have c8 := parse8Digits_cc hc hb .integer (by decide) 0 b0 b1 m h8
      simp only [h8] at h
      cases hdg : parseDigits c .integer c.mantissaRadix b1 with
      | error e => simp [hdg] at h
      | ok pd =>
        obtain ⟨ds, b2⟩ := pd
        obtain ⟨d1, d2, d3, d4⟩ := parseDigits_trunc hc hb .integer (by decide) c.mantissaRadix b1 b2 ds a3 hdg
        have dstop := parseDigits_stop hc hb .integer (by decide) c.mantissaRadix b1 b2 ds a3 hdg
        have cd := parseDigits_cc hc hb .integer (by decide) c.mantissaRadix b1 b2 ds hdg
        have hnd : b2.currentCount c - b0.currentCount c = b2.index - b0.index := by omega
        simp only [hdg, hnd, ite_self] at h
        split at h
        · cases h
        · next hreq =>
          cases hsl : sliceTo c b0 (b2.index - b0.index) "integer get_unchecked(..b_digits)" with
          | error e => simp [hsl] at h
          | ok sl =>
            simp only [hsl] at h
            split at h
            · cases h
            · next hlz =>
              simp only [Except.ok.injEq] at h
              subst h
              have hb1 : b1.slc = b.slc := by rw [a1, p1]
              refine ⟨p1, p2, p3, by rw [d1, hb1], by simp only; omega, d3, rfl, ?_, ?_⟩
              · intro ch hch; simp only at hch; rw [← hb1] at hch; exact dstop ch hch
              · intro n hn
                simp only at hn
                have hpre : c.requiredIntegerDigits = true → b0.index < n := by
                  intro hri
                  have hfm := requiredIntegerDigits_format hri
                  simp only [hfm, hri, Bool.and_self, Bool.true_and, decide_eq_true_eq] at hreq
                  omega
                unfold integerPhase
                simp only [bind, Except.bind, pure, Except.pure, p4 n (by omega) hpre]
                have t1 := a4 n (by omega)
                simp only at t1
                rw [t1]
                simp only
                rw [d4 n hn]
                simp only [trunc_index, trunc_currentCount, hnd, ite_self]
                split
                · next hcnd => exact absurd hcnd hreq
                · rw [sliceTo_trunc hc hb b0 _ n _ sl hsl (by omega)]
                  simp only
                  split
                  · next hcnd => exact absurd hcnd hlz
                  · rfl

theorem fractionPhase_trunc (o : POpts) (b : Bytes) (m0 : Nat) (fp : FracPart) (hv : Bytes.Valid b)
    (h : fractionPhase c o b m0 = .ok fp) :
    fp.byte.slc = b.slc ∧ b.index ≤ fp.byte.index ∧ Bytes.Valid fp.byte ∧
    fp.nAfterDot ≤ fp.byte.index - b.index ∧
    (b.firstIsCased o.dp = true → b.index + 1 ≤ fp.byte.index ∧
      ∀ ch, b.slc[fp.byte.index]? = some ch → charToDigit ch c.mantissaRadix = none) ∧
    (¬ b.firstIsCased o.dp = true → fp.byte = b ∧ fp.nAfterDot = 0) ∧
    ∀ n, fp.byte.index ≤ n →
      fractionPhase c o (trunc n b) m0 = .ok { fp with byte := trunc n fp.byte } := by
  unfold fractionPhase at h
  by_cases hdp : b.firstIsCased o.dp = true
  · rw [if_pos hdp] at h
    have hfirst : b.first = some o.dp := by simpa [Bytes.firstIsCased] using hdp
    have hlt := first_some_lt b _ hfirst
    simp only [step_g hc hb, bind, Except.bind, pure, Except.pure] at h
    have hv0 : Bytes.Valid (Bytes.at b (b.index + 1)) := by simp only [Bytes.Valid, at_index, at_slc]; omega
    cases h8 : parse8Digits c .fraction (Bytes.at b (b.index + 1)) m0 with
    | error e => simp [h8] at h
    | ok p8 =>
      obtain ⟨m, b1⟩ := p8
      obtain ⟨a1, a2, a3, a4⟩ := parse8Digits_trunc hc hb .fraction m0 _ b1 m hv0 h8
      have c8 := parse8Digits_cc hc hb .fraction (by decide) m0 _ b1 m h8
      simp only [h8] at h
      cases hdg : parseDigits c .fraction c.mantissaRadix b1 with
      | error e => simp [hdg] at h
      | ok pd =>
        obtain ⟨ds, b2⟩ := pd
        obtain ⟨d1, d2, d3, d4⟩ := parseDigits_trunc hc hb .fraction (by decide) c.mantissaRadix b1 b2 ds a3 hdg
        have dstop := parseDigits_stop hc hb .fraction (by decide) c.mantissaRadix b1 b2 ds a3 hdg
        have hb1 : b1.slc = b.slc := by rw [a1]; rfl
        have cd := parseDigits_cc hc hb .fraction (by decide) c.mantissaRadix b1 b2 ds hdg
        simp only [at_index] at a2 c8
        have hnd : b2.currentCount c - (Bytes.at b (b.index + 1)).currentCount c = b2.index - (b.index + 1) := by omega
        simp only [hdg, hnd, at_index, ite_self] at h
        cases hsl : sliceTo c (Bytes.at b (b.index + 1)) (b2.index - (b.index + 1))
            "fraction get_unchecked(..b_after_dot)" with
        | error e => simp [hsl] at h
        | ok sl =>
          simp only [hsl] at h
          cases hsc : scaleExponent c (-((b2.index - (b.index + 1) : Nat) : Int)) with
          | error e => simp [hsc] at h
          | ok ex =>
            simp only [hsc] at h
            split at h
            · cases h
            · next hreq =>
              simp only [Except.ok.injEq] at h
              subst h
              refine ⟨by rw [d1, hb1], by simp only; omega, d3, by simp only; omega, ?_, fun hne => absurd hdp hne, ?_⟩
              · intro _
                refine ⟨by simp only; omega, ?_⟩
                intro ch hch; simp only at hch; rw [← hb1] at hch; exact dstop ch hch
              · intro n hn
                simp only at hn
                unfold fractionPhase
                have hf2 : (trunc n b).firstIsCased o.dp = true := by
                  simp only [Bytes.firstIsCased, first_trunc, show b.index < n by omega, if_true, hfirst,
                    beq_self_eq_true]
                rw [if_pos hf2]
                simp only [step_g hc hb, bind, Except.bind, pure, Except.pure, trunc_index]
                have t1 := a4 n (by omega)
                simp only at t1
                rw [← trunc_at, t1]
                simp only
                rw [d4 n hn]
                simp only [trunc_index, trunc_currentCount, hnd, at_index, ite_self]
                rw [sliceTo_trunc hc hb (Bytes.at b (b.index + 1)) _ n _ sl hsl (by simp only [at_index]; omega)]
                simp only [hsc]
                split
                · next hcnd => exact absurd hcnd hreq
                · rfl
  · rw [if_neg hdp] at h
    simp only [pure, Except.pure, Except.ok.injEq] at h
    subst h
    refine ⟨rfl, Nat.le_refl _, hv, by simp, fun hh => absurd hh hdp, fun _ => ⟨rfl, rfl⟩, ?_⟩
    intro n hn
    unfold fractionPhase
    have hf2 : ¬ (trunc n b).firstIsCased o.dp = true := by
      simp only [Bytes.firstIsCased, first_trunc] at hdp ⊢
      split
      · exact hdp
      · simp
    rw [if_neg hf2]
    rfl

theorem parseSign_trunc (np rq : Bool) (ip ms : String) : TruncOK (parseSign c np rq ip ms) := by
  intro b b' neg hv h
  unfold parseSign at h
  split at h
  · next hfst =>
    have hlt := first_some_lt b _ hfst
    split at h
    · next hnp =>
      simp only [step_g hc hb, bind, Except.bind, pure, Except.pure, Except.ok.injEq, Prod.mk.injEq] at h
      obtain ⟨rfl, rfl⟩ := h
      refine ⟨rfl, by simp, by simp only [Bytes.Valid, at_index, at_slc]; omega, ?_⟩
      intro n hn
      simp only [at_index] at hn
      unfold parseSign
      rw [first_trunc, if_pos (by omega), hfst]
      simp only [hnp, if_true, step_g hc hb, bind, Except.bind, pure, Except.pure, trunc_index]
      rfl
    · cases h
  · next hfst =>
    have hlt := first_some_lt b _ hfst
    simp only [step_g hc hb, bind, Except.bind, pure, Except.pure, Except.ok.injEq, Prod.mk.injEq] at h
    obtain ⟨rfl, rfl⟩ := h
    refine ⟨rfl, by simp, by simp only [Bytes.Valid, at_index, at_slc]; omega, ?_⟩
    intro n hn
    simp only [at_index] at hn
    unfold parseSign
    rw [first_trunc, if_pos (by omega), hfst]
    simp only [step_g hc hb, bind, Except.bind, pure, Except.pure, trunc_index]
    rfl
  · next h43 h45 =>
    split at h
    · cases h
    · next hrq =>
      simp only [pure, Except.pure, Except.ok.injEq, Prod.mk.injEq] at h
      obtain ⟨rfl, rfl⟩ := h
      refine ⟨rfl, Nat.le_refl _, hv, ?_⟩
      intro n hn
      unfold parseSign
      rw [first_trunc]
      split
      · next hcnd => split at hcnd <;> simp_all
      · next hcnd => split at hcnd <;> simp_all
      · simp only [hrq]; rfl

theorem exponentPhase_trunc (he : Bool) (b : Bytes) (fr : Option (List Nat)) (ex : Int) (ep : ExpPart)
    (hv : Bytes.Valid b) (hlt : he = true → b.index < b.slc.length)
    (h : exponentPhase c he b fr ex = .ok ep) :
    ep.byte.slc = b.slc ∧ b.index ≤ ep.byte.index ∧ Bytes.Valid ep.byte ∧
    (he = true → b.index + 1 ≤ ep.byte.index) ∧
    ∀ n, ep.byte.index ≤ n →
      exponentPhase c he (trunc n b) fr ex = .ok { ep with byte := trunc n ep.byte } := by
  unfold exponentPhase at h
  cases he with
  | false =>
    simp only [Bool.false_eq_true, if_false] at h
    split at h
    · cases h
    · next hren =>
      simp only [pure, Except.pure, Except.ok.injEq] at h
      subst h
      refine ⟨rfl, Nat.le_refl _, hv, by simp, ?_⟩
      intro n _
      unfold exponentPhase
      simp only [Bool.false_eq_true, if_false]
      rw [if_neg hren]
      rfl
  | true =>
    have hlt := hlt rfl
    simp only [if_true, step_g hc hb, bind, Except.bind, pure, Except.pure] at h
    have hv0 : Bytes.Valid (Bytes.at b (b.index + 1)) := by simp only [Bytes.Valid, at_index, at_slc]; omega
    split at h
    · cases h
    · next hnen =>
      split at h
      · cases h
      · next hnewf =>
        cases hs : parseExponentSign c (Bytes.at b (b.index + 1)) with
        | error e => simp [hs] at h
        | ok ps =>
          obtain ⟨ng, b1⟩ := ps
          obtain ⟨a1, a2, a3, a4⟩ := parseSign_trunc hc hb _ _ _ _ _ b1 ng hv0 hs
          simp only [hs] at h
          cases hdg : parseDigits c .exponent c.exponentRadix b1 with
          | error e => simp [hdg] at h
          | ok pd =>
            obtain ⟨ds, b2⟩ := pd
            obtain ⟨d1, d2, d3, d4⟩ := parseDigits_trunc hc hb .exponent (by decide) c.exponentRadix b1 b2 ds a3 hdg
            simp only [hdg] at h
            split at h
            · cases h
            · next hreq =>
              simp only [Except.ok.injEq] at h
              subst h
              simp only [at_index] at a2
              refine ⟨by rw [d1, a1]; simp, by simp only; omega, d3, by intro _; simp only; omega, ?_⟩
              intro n hn
              simp only at hn
              unfold exponentPhase
              simp only [if_true, step_g hc hb, bind, Except.bind, pure, Except.pure, trunc_index, at_index]
              rw [if_neg hnen, if_neg hnewf]
              have t1 := a4 n (by omega)
              rw [← trunc_at]
              unfold parseExponentSign at hs ⊢
              rw [t1]
              simp only
              rw [d4 n hn]
              simp only [trunc_index, trunc_currentCount]
              rw [if_neg hreq]

theorem suffixPhase_trunc (b b' : Bytes) (hv : Bytes.Valid b) (h : suffixPhase c b = .ok b') :
    b'.slc = b.slc ∧ b.index ≤ b'.index ∧ Bytes.Valid b' ∧
    ∀ n, b'.index ≤ n → suffixPhase c (trunc n b) = .ok (trunc n b') := by
  unfold suffixPhase at h
  split at h
  · next hcnd =>
    simp only [Bool.and_eq_true] at hcnd
    have hlt : b.index < b.slc.length := PNTotal.firstIs_lt hcnd.2
    rw [step_g hc hb] at h
    cases h
    refine ⟨by simp, by simp, by simp only [Bytes.Valid, at_index, at_slc]; omega, ?_⟩
    intro n hn
    simp only [at_index] at hn
    unfold suffixPhase
    have hfi : (trunc n b).firstIs c.baseSuffix c.caseSensitiveBaseSuffix = true := by
      rw [firstIs_eq, first_trunc, if_pos (by omega), ← firstIs_eq]; exact hcnd.2
    rw [hfi]
    simp only [hcnd.1, Bool.and_self, if_true, step_g hc hb]
    rfl
  · next hcnd =>
    simp only [pure, Except.pure, Except.ok.injEq] at h
    subst h
    refine ⟨rfl, Nat.le_refl _, hv, ?_⟩
    intro n _
    unfold suffixPhase
    have hfi : (c.feats.format && decide (c.baseSuffix ≠ 0) &&
        (trunc n b).firstIs c.baseSuffix c.caseSensitiveBaseSuffix) = false := by
      rw [firstIs_eq, first_trunc]
      split
      · rw [← firstIs_eq]; simpa using hcnd
      · rw [matchByte_none]; simp
    rw [hfi]
    rfl

end
end LexVerif.Proof.C11
