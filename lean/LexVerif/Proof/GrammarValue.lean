import LexVerif.Proof.GrammarMain
import LexVerif.Proof.GrammarComplete
import LexVerif.Proof.SepFree
import LexVerif.Model.ParseFloatAlgo
/-!
# Proof.GrammarValue — the VALUE clause of C12: the digit content of an accepted `Number` is the grammar's literal

`Verdict` (`Proof.GrammarMain`) says an accepted `Number` stores the byte slices of the grammar's integer and
fraction digits and the implementation's (saturating) explicit exponent. Here:
* `sliceDigits_sepfree`: the digit values `numberBits` reads off a stored separator-free slice are the digit values
  of its longest digit prefix (any format whose iterators are reachable — separator flags allowed);
* `numberLit_of_verdict`: `numberLit c n` (what `numberBits` rounds for a truncated mantissa, and what `NumberExactAt`
  compares the `mantissa`/`exponent` words with) is the grammar's literal with the saturated exponent (`Parts.litSat`);
* `foldExponent_sat`, `litBits_exp_far`: the saturation of the exponent accumulator at `0x10000000` does not change
  `litBits` as long as the literal has fewer than `(0x10000000 − 1200) / 6` digits.
-/
namespace LexVerif.Proof.Grammar
open LexVerif LexVerif.Spec LexVerif.Model LexVerif.Model.ParseFloatAlgo

/-! ## digit values of a stored slice -/

theorem digitsPrefix_eq_takeDigits (r : Nat) (hr : r ≤ 255) : ∀ l : List Nat, (∀ x ∈ l, x < 256) →
    Sep.digitsPrefix r l = (takeDigits r l).1 := by
  intro l
  induction l with
  | nil => intro _; rfl
  | cons x xs ih =>
    intro hl
    have hx : x < 256 := hl x List.mem_cons_self
    simp only [Sep.digitsPrefix, takeDigits, charToDigit_eq x r hx hr]
    cases digitVal r x with
    | none => rfl
    | some d => simp only [ih (fun y hy => hl y (List.mem_cons_of_mem _ hy))]

/-- **the digit values of a stored, separator-free slice** (release or debug configuration — `sliceDigits` runs the
release iterator) -/
theorem sliceDigits_sepfree (c : Cfg) (k : Comp) (hk : c.skip k ≠ .unreachable) (s : List Nat)
    (hn : Sep.NoSep c s) : sliceDigits c k s = Sep.digitsPrefix c.mantissaRadix s := by
  unfold sliceDigits
  have h := Sep.parseDigits_nosep { c with debug := false } k c.mantissaRadix rfl hk (Bytes.new s) hn
  rw [h]
  simp [Bytes.new]

/-- … of the slice that holds exactly the digit run of `l` -/
theorem sliceDigits_run (c : Cfg) (k : Comp) (hk : c.skip k ≠ .unreachable) (hr : c.mantissaRadix ≤ 255)
    (l : List Nat) (hl : ∀ x ∈ l, x < 256) (hn : Sep.NoSep c l) :
    sliceDigits c k (l.take (takeDigits c.mantissaRadix l).1.length) = (takeDigits c.mantissaRadix l).1 := by
  rw [sliceDigits_sepfree c k hk _ (hn.take _),
    digitsPrefix_eq_takeDigits _ hr _ (fun x hx => hl x (List.mem_of_mem_take hx)), takeDigits_take]

/-! ## `numberLit` of an accepted number -/

theorem splitFraction_cases (y : Syn) (o : POpts) (l : List Nat) :
    ((splitFraction y o l).1 = false ∧ (splitFraction y o l).2.1 = []) ∨
    (∃ cs, l = o.dp :: cs ∧ (splitFraction y o l).1 = true ∧ (splitFraction y o l).2.1 = (takeDigits y.radix cs).1) := by
  cases l with
  | nil => exact Or.inl ⟨rfl, rfl⟩
  | cons x xs =>
    unfold splitFraction
    by_cases h : x = o.dp
    · subst h; simp
    · simp [h]

theorem splitExponent_noexp (y : Syn) (o : POpts) (l : List Nat) (h : (splitExponent y o l).1 = false) :
    (splitExponent y o l).2.2.1 = [] ∧ (splitExponent y o l).2.1 = none := by
  cases l with
  | nil => exact ⟨rfl, rfl⟩
  | cons x xs =>
    simp only [splitExponent] at h ⊢
    split <;> simp_all

/-- the fields of `splitNumber` for a prefix-free syntax, with the shape of the fraction spelled out -/
theorem splitNumber_value (y : Syn) (hp : y.pre = 0) (o : POpts) (sign : Option Bool) (l : List Nat) :
    let P := splitNumber y o sign l
    P.sign = sign ∧ P.ints = (takeDigits y.radix l).1 ∧
    ((P.point = false ∧ P.fracs = []) ∨
      (P.point = true ∧ P.fracs = (takeDigits y.radix ((l.drop P.ints.length).drop 1)).1)) ∧
    (P.hasExp = false → P.exps = [] ∧ P.expSign = none) ∧
    P.ints.length + P.fracs.length ≤ l.length := by
  intro P
  have hP : P = _ := splitNumber_stages y hp o sign l
  have hrest := takeDigits_rest y.radix l
  have hlen := takeDigits_length y.radix l
  have e1 : P.sign = sign := by rw [hP]
  have e2 : P.ints = (takeDigits y.radix l).1 := by rw [hP]
  have e3 : P.point = (splitFraction y o (takeDigits y.radix l).2).1 := by rw [hP]
  have e4 : P.fracs = (splitFraction y o (takeDigits y.radix l).2).2.1 := by rw [hP]
  have e5 : P.hasExp = (splitExponent y o (splitFraction y o (takeDigits y.radix l).2).2.2).1 := by rw [hP]
  have e6 : P.exps = (splitExponent y o (splitFraction y o (takeDigits y.radix l).2).2.2).2.2.1 := by rw [hP]
  have e7 : P.expSign = (splitExponent y o (splitFraction y o (takeDigits y.radix l).2).2.2).2.1 := by rw [hP]
  refine ⟨e1, e2, ?_, ?_, ?_⟩
  · rcases splitFraction_cases y o (takeDigits y.radix l).2 with ⟨h1, h2⟩ | ⟨cs, h0, h1, h2⟩
    · exact Or.inl ⟨by rw [e3, h1], by rw [e4, h2]⟩
    · refine Or.inr ⟨by rw [e3, h1], ?_⟩
      rw [e4, h2, e2, ← hrest, h0]
      rfl
  · intro h
    rw [e5] at h
    rw [e6, e7]
    exact splitExponent_noexp y o _ h
  · rcases splitFraction_cases y o (takeDigits y.radix l).2 with ⟨_, h2⟩ | ⟨cs, h0, _, h2⟩
    · rw [e4, h2, e2]; simp only [List.length_nil]; omega
    · rw [e4, h2, e2]
      have := takeDigits_le y.radix cs
      rw [h0] at hlen
      simp only [List.length_cons] at hlen
      omega

/-- **the digit content of an accepted `Number` is the grammar's literal** (with the exponent as the implementation
accumulates it): every format without base prefix whose iterators are reachable, separator-free input. -/
theorem numberLit_of_verdict (c : Cfg) (hk : ∀ k, c.skip k ≠ .unreachable) (hpre : c.basePrefix = 0)
    (hr : c.mantissaRadix ≤ 255) (o : POpts) (s : List Nat) (hb : ∀ x ∈ s, x < 256) (hn : Sep.NoSep c s)
    (n : Number) (cnt : Nat) (h : Verdict c o s (.number n cnt)) :
    ∃ P, P = splitNumber (cfgSyn c) o (splitSign s).1 (splitSign s).2 ∧ numberOk (cfgSyn c) P = true ∧
      cnt = s.length ∧ numberLit c n = Parts.litSat (cfgSyn c) P ∧ P.ints.length + P.fracs.length ≤ s.length := by
  cases h with
  | number n P hP hok hni =>
    refine ⟨P, hP, hok, rfl, ?_, ?_⟩
    · have hpre2 : (cfgSyn c).pre = 0 := by rw [syn_pre]; exact hpre
      obtain ⟨v1, v2, v3, _, _⟩ := splitNumber_value (cfgSyn c) hpre2 o (splitSign s).1 (splitSign s).2
      rw [← hP] at v1 v2 v3
      rw [syn_radix] at v2 v3
      have hbody : (splitSign s).2 = s.drop (s.length - (splitSign s).2.length) := (splitSign_rest s).1
      have hbb : ∀ x ∈ (splitSign s).2, x < 256 := by
        intro x hx; rw [hbody] at hx; exact hb x (List.mem_of_mem_drop hx)
      have hnb : Sep.NoSep c (splitSign s).2 := by rw [hbody]; exact hn.drop _
      unfold numberLit Parts.litSat
      rw [hni.neg, hni.int, hni.frac, hni.exp, v1, syn_expRadix]
      have hint : sliceDigits c .integer ((splitSign s).2.take P.ints.length) = P.ints := by
        rw [v2]
        exact sliceDigits_run c .integer (hk _) hr _ hbb hnb
      rw [hint]
      rcases v3 with ⟨p1, p2⟩ | ⟨p1, p2⟩
      · simp only [p1, p2, Bool.false_eq_true, if_false]
      · simp only [p1, if_true]
        have hfr : sliceDigits c .fraction ((((splitSign s).2.drop P.ints.length).drop 1).take P.fracs.length) =
            P.fracs := by
          rw [p2]
          exact sliceDigits_run c .fraction (hk _) hr _
            (fun x hx => hbb x (List.mem_of_mem_drop (List.mem_of_mem_drop hx))) ((hnb.drop _).drop _)
        rw [hfr]
    · have hpre2 : (cfgSyn c).pre = 0 := by rw [syn_pre]; exact hpre
      obtain ⟨_, _, _, _, v5⟩ := splitNumber_value (cfgSyn c) hpre2 o (splitSign s).1 (splitSign s).2
      rw [← hP] at v5
      have := (splitSign_rest s).2
      omega

/-! ## the saturating exponent accumulator -/

/-- `explicit_exponent` is the exact value of the exponent digits below `0x10000000`; above, both are large -/
theorem foldExponent_sat (r : Nat) (hr : 0 < r) (ds : List Nat) :
    foldExponent r 0 ds = ofDigits r ds ∨ (0x10000000 ≤ foldExponent r 0 ds ∧ foldExponent r 0 ds ≤ ofDigits r ds) := by
  unfold foldExponent ofDigits
  suffices h : ∀ (ds : List Nat) (a b : Nat), (a = b ∨ (0x10000000 ≤ a ∧ a ≤ b)) →
      (ds.foldl (fun acc d => if acc < 0x10000000 then acc * r + d else acc) a =
          ds.foldl (fun acc d => acc * r + d) b) ∨
        (0x10000000 ≤ ds.foldl (fun acc d => if acc < 0x10000000 then acc * r + d else acc) a ∧
          ds.foldl (fun acc d => if acc < 0x10000000 then acc * r + d else acc) a ≤
            ds.foldl (fun acc d => acc * r + d) b) from h ds 0 0 (Or.inl rfl)
  intro ds
  induction ds with
  | nil => intro a b h; simpa using h
  | cons d ds ih =>
    intro a b h
    simp only [List.foldl_cons]
    apply ih
    rcases h with rfl | ⟨h1, h2⟩
    · by_cases hlt : a < 0x10000000
      · left; rw [if_pos hlt]
      · right
        rw [if_neg hlt]
        have : a * 1 ≤ a * r := Nat.mul_le_mul_left a hr
        omega
    · right
      rw [if_neg (by omega)]
      have : b * 1 ≤ b * r := Nat.mul_le_mul_left b hr
      omega

/-- `litBits` does not see the exponent beyond its short-circuit thresholds -/
theorem litBits_exp_far (f : Fmt) (r b : Nat) (neg : Bool) (I Fr : List Nat) (e1 e2 : Int)
    (h : e1 = e2 ∨
      ((((1200 + 6 * (I ++ Fr).length : Nat) : Int) ≤ e1 ∧ ((1200 + 6 * (I ++ Fr).length : Nat) : Int) ≤ e2) ∨
       (e1 ≤ -((1200 + 6 * (I ++ Fr).length : Nat) : Int) ∧ e2 ≤ -((1200 + 6 * (I ++ Fr).length : Nat) : Int)))) :
    litBits f r b ⟨neg, I, Fr, e1⟩ = litBits f r b ⟨neg, I, Fr, e2⟩ := by
  rcases h with rfl | h
  · rfl
  · unfold litBits
    simp only []
    split
    · rfl
    · have hl : Fr.length ≤ (I ++ Fr).length := by simp
      have hUT : ((1100 + 6 * Fr.length : Nat) : Int) ≤ ((1200 + 6 * (I ++ Fr).length : Nat) : Int) :=
        Int.ofNat_le.mpr (by omega)
      have hU0 : (0 : Int) ≤ ((1100 + 6 * Fr.length : Nat) : Int) := Int.natCast_nonneg _
      have hT0 : (0 : Int) < ((1200 + 6 * (I ++ Fr).length : Nat) : Int) := Int.natCast_pos.mpr (by omega)
      generalize ((1100 + 6 * Fr.length : Nat) : Int) = U at *
      generalize ((1200 + 6 * (I ++ Fr).length : Nat) : Int) = T at *
      rcases h with ⟨h1, h2⟩ | ⟨h1, h2⟩
      · rw [if_pos (show e1 ≥ U by omega), if_pos (show e2 ≥ U by omega)]
      · rw [if_neg (show ¬ e1 ≥ U by omega), if_neg (show ¬ e2 ≥ U by omega), if_pos h1, if_pos h2]

/-- **saturated and exact exponent give the same bits** for a literal with fewer than `(0x10000000 − 1200)/6` digits -/
theorem litBits_litSat (f : Fmt) (r b : Nat) (y : Syn) (hy : 0 < y.expRadix) (P : Parts)
    (hne : P.hasExp = false → P.exps = [] ∧ P.expSign = none)
    (hlen : 1200 + 6 * (P.ints.length + P.fracs.length) ≤ 0x10000000) :
    litBits f r b (Parts.litSat y P) = litBits f r b (P.lit y) := by
  unfold Parts.litSat Parts.lit
  apply litBits_exp_far
  cases hh : P.hasExp with
  | false =>
    left
    obtain ⟨h1, h2⟩ := hne hh
    simp [h1, h2, ofDigits]
  | true =>
    simp only [if_true, expValue]
    have hl : (P.ints ++ P.fracs).length = P.ints.length + P.fracs.length := by simp
    rw [hl]
    rcases foldExponent_sat y.expRadix hy P.exps with h | ⟨h1, h2⟩
    · left; rw [h]
    · right
      cases hs : (P.expSign == some true)
      · left
        simp only [Bool.false_eq_true, if_false]
        omega
      · right
        simp only [if_true]
        omega

/-- non-vacuity of the saturation: eleven 9s saturate, the exact value is larger -/
example : foldExponent 10 0 [9, 9, 9, 9, 9, 9, 9, 9, 9, 9, 9] = 999999999 ∧
    ofDigits 10 [9, 9, 9, 9, 9, 9, 9, 9, 9, 9, 9] = 99999999999 := by decide

end LexVerif.Proof.Grammar
