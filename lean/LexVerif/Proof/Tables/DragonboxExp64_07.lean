import LexVerif.Proof.DragonboxExpDefs
/-! `compute_nearest_normal`, binary64: the per-exponent certificate `expOk` for the binary exponents -178 … -51. -/
namespace LexVerif.Proof.DragonboxExp
open LexVerif.Model.Dragonbox

theorem exp64_07_0 : (expList (-178) 64).all (expOk .f64) = true := by decide +kernel
theorem exp64_07_1 : (expList (-114) 64).all (expOk .f64) = true := by decide +kernel

end LexVerif.Proof.DragonboxExp
