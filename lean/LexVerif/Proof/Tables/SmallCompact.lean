import LexVerif.Proof.Tables.SmallDefs
/-! Small integer / f32 / f64 power tables, feature set `compact`: every entry of every radix. -/
namespace LexVerif.Proof.Tables
open LexVerif.Spec LexVerif.Spec.PowerTables LexVerif.Proof

theorem small_int_pow_compact : SmallSet.CompactRadix.intRadices.all (intPowTableOk SmallSet.CompactRadix) = true := by
  decide +kernel

theorem small_f32_pow_compact : SmallSet.CompactRadix.radices.all (floatPowTableOk SmallSet.CompactRadix f32) = true := by
  unfold floatPowTableOk floatPowOk roundNE ilog2Q bitlen
  rw [log2_eq_log2F]
  decide +kernel

theorem small_f64_pow_compact : SmallSet.CompactRadix.radices.all (floatPowTableOk SmallSet.CompactRadix f64) = true := by
  unfold floatPowTableOk floatPowOk roundNE ilog2Q bitlen
  rw [log2_eq_log2F]
  decide +kernel

end LexVerif.Proof.Tables
