import LexVerif.Proof.Tables.FloatConstsDefs
/-! theorems about the tables of `FloatConstsDefs` (definitions are split off so that the executable models never depend on a proof) -/
namespace LexVerif.Proof.Tables
open LexVerif.Spec LexVerif.Spec.PowerTables LexVerif.Gen

theorem float_consts_f32 :
    layoutOk f32 FloatConstSet.F32 = true ∧ lemireConstsOk f32 FloatConstSet.F32 = true ∧
    fastPathConstsOk f32 FloatConstSet.F32 = true := by decide +kernel

theorem float_consts_f64 :
    layoutOk f64 FloatConstSet.F64 = true ∧ lemireConstsOk f64 FloatConstSet.F64 = true ∧
    fastPathConstsOk f64 FloatConstSet.F64 = true := by decide +kernel

theorem smallest_power_of_ten_tightness :
    (10 ^ 342 ≤ (2 ^ 64 - 1) * 2 ^ 1075) ∧ ¬ (10 ^ 65 ≤ (2 ^ 64 - 1) * 2 ^ 150) := by decide +kernel

/-- `lower_n_mask(n) = 2^n − 1` (`n ≤ 64`), `lower_n_halfway(n) = 2^(n−1)` (`0` for `n = 0`),
`nth_bit(n) = 2^n` (`n < 64`), `INVALID_FP = −2^15` -/
theorem masks_ok :
    tableAll (fun n v => v == 2 ^ n - 1) FloatConsts.lowerNMask = true ∧ FloatConsts.lowerNMask.size = 65 ∧
    tableAll (fun n v => v == if n = 0 then 0 else 2 ^ (n - 1)) FloatConsts.lowerNHalfway = true ∧
    FloatConsts.lowerNHalfway.size = 65 ∧
    tableAll (fun n v => v == 2 ^ n) FloatConsts.nthBit = true ∧ FloatConsts.nthBit.size = 64 ∧
    FloatConsts.invalidFp = -2 ^ 15 := by decide +kernel

/-- **The Bellerophon mantissas are truncated, not rounded to nearest** (the table module's docs and
`etc/bellerophon_table.py` say "rounded perfectly, within 0.5 ULP"; the algorithm books half a unit
per table multiplication). Witness: decimal table (`compact`), `large[0]` = `10^-350`: the stored
mantissa is the truncation and differs from the nearest 64-bit value; 38 of the 66 decimal rows do. -/
theorem bell_truncated_not_nearest :
    bellLargeOk (Bellerophon.CompactRadix.powers 10) 10 0 ((Bellerophon.CompactRadix.powers 10).large[0]!) = true ∧
    bellLargeNearestOk (Bellerophon.CompactRadix.powers 10) 10 0 ((Bellerophon.CompactRadix.powers 10).large[0]!) = false ∧
    bellNotNearestCount Bellerophon.CompactRadix.powers 10 = 38 := by
  unfold bellNotNearestCount bellLargeOk bellLargeNearestOk extTrunc extNearest ilog2Q bitlen
  rw [LexVerif.Proof.log2_eq_log2F]
  decide +kernel

end LexVerif.Proof.Tables
