import LexVerif.Gen.Dragonbox
import LexVerif.Gen.Logs
import LexVerif.Spec.Tables
import LexVerif.Proof.Tables.Walk
/-! `DRAGONBOX32_POWERS_OF_FIVE`: every row is `⌈10^k⌉` normalised to 64 bits. -/
namespace LexVerif.Proof.Tables.Dragonbox
open LexVerif LexVerif.Spec.Tables LexVerif.Gen.Dragonbox

/-- closed form -/
def row32Ok (i v : Nat) : Bool := v == pow10Cache 64 (smallestF32Pow5 + i)

/-- the slice of the dumped `floor_log2_pow10` vector that lines up with the table's powers -/
def logSlice32 : List Nat :=
  Gen.Logs.floorLog2Pow10TabBiasedList.drop (smallestF32Pow5 - Gen.Logs.floorLog2Pow10Lo).toNat

/-- declarative form, with the binary exponent the writer itself uses (`floor_log2_pow10(k) - 63`):
the row is the unique 64-bit `c` with `(c-1)·2^e < 10^k ≤ c·2^e`. -/
def row32Ceil (i : Nat) (vl : Nat × Nat) : Bool :=
  decide (IsCeilPow10 64 (smallestF32Pow5 + i) ((vl.2 : Int) - Gen.Logs.floorLog2Pow10TabBias - 63) vl.1)

theorem pow5_32_walk : allIdx row32Ok 0 pow5_32.toList = true := by decide +kernel
theorem pow5_32_ceil_walk :
    allIdx row32Ceil 0 (List.zip pow5_32List logSlice32) = true ∧ 78 ≤ logSlice32.length := by decide +kernel
theorem pow5_32_size : pow5_32.size = n32PowersOfFive
    ∧ (n32PowersOfFive : Int) = largestF32Pow5 - smallestF32Pow5 + 1 := by decide +kernel

end LexVerif.Proof.Tables.Dragonbox
