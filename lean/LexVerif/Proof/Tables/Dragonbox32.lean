import LexVerif.Gen.Dragonbox
import LexVerif.Spec.Tables
import LexVerif.Proof.Tables.Walk
/-! `DRAGONBOX32_POWERS_OF_FIVE`: every row is `⌈10^k⌉` normalised to 64 bits. -/
namespace LexVerif.Proof.Tables.Dragonbox
open LexVerif LexVerif.Spec.Tables LexVerif.Gen.Dragonbox

/-- closed form -/
def row32Ok (i v : Nat) : Bool := v == pow10Cache 64 (smallestF32Pow5 + i)

/-- declarative form: the row is `⌈10^k / 2^e⌉`, `e = ⌊log₂ 10^k⌋ - 63`, a 64-bit number -/
def row32Ceil (i v : Nat) : Bool := decide (IsCacheRow 64 (smallestF32Pow5 + i) v)

theorem pow5_32_walk : allIdx row32Ok 0 pow5_32.toList = true := by decide +kernel
theorem pow5_32_ceil_walk : allIdx row32Ceil 0 pow5_32.toList = true := by decide +kernel
theorem pow5_32_size : pow5_32.size = n32PowersOfFive
    ∧ (n32PowersOfFive : Int) = largestF32Pow5 - smallestF32Pow5 + 1 := by decide +kernel

end LexVerif.Proof.Tables.Dragonbox
