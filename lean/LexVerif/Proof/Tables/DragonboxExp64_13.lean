import LexVerif.Proof.DragonboxExpDefs
/-! `compute_nearest_normal`, binary64: the per-exponent certificate `expOk` for the binary exponents 590 … 717. -/
namespace LexVerif.Proof.DragonboxExp
open LexVerif.Model.Dragonbox

theorem exp64_13_0 : (expList (590) 64).all (expOk .f64) = true := by decide +kernel
theorem exp64_13_1 : (expList (654) 64).all (expOk .f64) = true := by decide +kernel

end LexVerif.Proof.DragonboxExp
