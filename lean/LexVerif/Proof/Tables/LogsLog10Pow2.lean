import LexVerif.Gen.Logs
import LexVerif.Spec.Tables
import LexVerif.Proof.Tables.Walk
/-! `floor_log10_pow2` is the exact floor logarithm on its whole documented domain. -/
namespace LexVerif.Proof.Tables.Logs
open LexVerif LexVerif.Spec.Tables LexVerif.Gen.Logs

theorem log10Pow2_walk :
    allIdx (vecOk IsFloorLog10Pow2 floorLog10Pow2Lo floorLog10Pow2TabBias) 0 floorLog10Pow2TabBiased.toList = true := by
  decide +kernel

theorem log10Pow2_size : floorLog10Pow2TabBiased.size = (floorLog10Pow2Hi - floorLog10Pow2Lo + 1).toNat := by
  decide +kernel

theorem log10Pow2_exact (q : Int) (h1 : floorLog10Pow2Lo ≤ q) (h2 : q ≤ floorLog10Pow2Hi) :
    IsFloorLog10Pow2 q (floorLog10Pow2 q) := by
  have := vec_spec log10Pow2_size log10Pow2_walk q h1 h2
  simpa [floorLog10Pow2, floorLog10Pow2TabAt, h1, h2] using this

end LexVerif.Proof.Tables.Logs
