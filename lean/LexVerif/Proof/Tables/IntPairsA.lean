import LexVerif.Gen.IntTables
import LexVerif.Spec.Tables
import LexVerif.Proof.Tables.Walk
/-! Digit-pair tables `DIGIT_TO_BASE<r>_SQUARED`, r = 2…22: byte `j` is the character of
`(j/2) / r` (even `j`) or `(j/2) % r` (odd `j`), and the table has `2·r²` bytes. -/
namespace LexVerif.Proof.Tables.IntPairs
open LexVerif LexVerif.Spec.Tables LexVerif.Gen.IntTables

/-- row check shared by all pair-table modules -/
def pairOk (r j v : Nat) : Bool := v == pairEntry r j

theorem base2_walk : allIdx (pairOk 2) 0 base2.toList = true ∧ base2.size = 2 * 2 * 2 := by decide +kernel
theorem base3_walk : allIdx (pairOk 3) 0 base3.toList = true ∧ base3.size = 2 * 3 * 3 := by decide +kernel
theorem base4_walk : allIdx (pairOk 4) 0 base4.toList = true ∧ base4.size = 2 * 4 * 4 := by decide +kernel
theorem base5_walk : allIdx (pairOk 5) 0 base5.toList = true ∧ base5.size = 2 * 5 * 5 := by decide +kernel
theorem base6_walk : allIdx (pairOk 6) 0 base6.toList = true ∧ base6.size = 2 * 6 * 6 := by decide +kernel
theorem base7_walk : allIdx (pairOk 7) 0 base7.toList = true ∧ base7.size = 2 * 7 * 7 := by decide +kernel
theorem base8_walk : allIdx (pairOk 8) 0 base8.toList = true ∧ base8.size = 2 * 8 * 8 := by decide +kernel
theorem base9_walk : allIdx (pairOk 9) 0 base9.toList = true ∧ base9.size = 2 * 9 * 9 := by decide +kernel
theorem base10_walk : allIdx (pairOk 10) 0 base10.toList = true ∧ base10.size = 2 * 10 * 10 := by decide +kernel
theorem base11_walk : allIdx (pairOk 11) 0 base11.toList = true ∧ base11.size = 2 * 11 * 11 := by decide +kernel
theorem base12_walk : allIdx (pairOk 12) 0 base12.toList = true ∧ base12.size = 2 * 12 * 12 := by decide +kernel
theorem base13_walk : allIdx (pairOk 13) 0 base13.toList = true ∧ base13.size = 2 * 13 * 13 := by decide +kernel
theorem base14_walk : allIdx (pairOk 14) 0 base14.toList = true ∧ base14.size = 2 * 14 * 14 := by decide +kernel
theorem base15_walk : allIdx (pairOk 15) 0 base15.toList = true ∧ base15.size = 2 * 15 * 15 := by decide +kernel
theorem base16_walk : allIdx (pairOk 16) 0 base16.toList = true ∧ base16.size = 2 * 16 * 16 := by decide +kernel
theorem base17_walk : allIdx (pairOk 17) 0 base17.toList = true ∧ base17.size = 2 * 17 * 17 := by decide +kernel
theorem base18_walk : allIdx (pairOk 18) 0 base18.toList = true ∧ base18.size = 2 * 18 * 18 := by decide +kernel
theorem base19_walk : allIdx (pairOk 19) 0 base19.toList = true ∧ base19.size = 2 * 19 * 19 := by decide +kernel
theorem base20_walk : allIdx (pairOk 20) 0 base20.toList = true ∧ base20.size = 2 * 20 * 20 := by decide +kernel
theorem base21_walk : allIdx (pairOk 21) 0 base21.toList = true ∧ base21.size = 2 * 21 * 21 := by decide +kernel
theorem base22_walk : allIdx (pairOk 22) 0 base22.toList = true ∧ base22.size = 2 * 22 * 22 := by decide +kernel

end LexVerif.Proof.Tables.IntPairs
