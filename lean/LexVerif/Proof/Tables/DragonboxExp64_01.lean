import LexVerif.Proof.DragonboxExpDefs
/-! `compute_nearest_normal`, binary64: the per-exponent certificate `expOk` for the binary exponents -946 … -819. -/
namespace LexVerif.Proof.DragonboxExp
open LexVerif.Model.Dragonbox

theorem exp64_01_0 : (expList (-946) 64).all (expOk .f64) = true := by decide +kernel
theorem exp64_01_1 : (expList (-882) 64).all (expOk .f64) = true := by decide +kernel

end LexVerif.Proof.DragonboxExp
