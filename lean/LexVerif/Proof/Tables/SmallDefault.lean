import LexVerif.Proof.Tables.SmallDefs
/-! Small integer / f32 / f64 power tables, feature set `default`: every entry of every radix. -/
namespace LexVerif.Proof.Tables
open LexVerif.Spec LexVerif.Spec.PowerTables LexVerif.Proof

theorem small_int_pow_default : SmallSet.Default.intRadices.all (intPowTableOk SmallSet.Default) = true := by
  decide +kernel

theorem small_f32_pow_default : SmallSet.Default.radices.all (floatPowTableOk SmallSet.Default f32) = true := by
  unfold floatPowTableOk floatPowOk roundNE ilog2Q bitlen
  rw [log2_eq_log2F]
  decide +kernel

theorem small_f64_pow_default : SmallSet.Default.radices.all (floatPowTableOk SmallSet.Default f64) = true := by
  unfold floatPowTableOk floatPowOk roundNE ilog2Q bitlen
  rw [log2_eq_log2F]
  decide +kernel

end LexVerif.Proof.Tables
