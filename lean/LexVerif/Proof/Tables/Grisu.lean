import LexVerif.Gen.Grisu
import LexVerif.Spec.Tables
import LexVerif.Proof.Tables.Walk
/-!
Grisu (`compact`): `GRISU_POWERS_OF_TEN` rows are the nearest 64-bit normalised mantissas of `10^k`,
`k = -348 + 8·i`, with binary exponent `⌊log₂ 10^k⌋ - 63`; `cached_grisu_power` on the whole range its
debug assertion admits returns a table row that brings the product's exponent into `[-60, -32]`.
-/
namespace LexVerif.Proof.Tables.Grisu
open LexVerif LexVerif.Spec.Tables LexVerif.Gen.Grisu

/-- row `i`: `(mant, biased decimal exponent, biased binary exponent)` -/
def rows : List (Nat × Nat × Nat) := List.zip powersOfTenList (List.zip decimalPowerBiasedList binaryPowerBiasedList)

def rowOk (i : Nat) (r : Nat × Nat × Nat) : Bool :=
  let k : Int := (r.2.1 : Int) - decimalPowerBias
  let e : Int := (r.2.2 : Int) - binaryPowerBias
  decide (k = -348 + 8 * (i : Int) ∧ IsFloorLog2Pow10 k (e + 63) ∧ IsNearestPow10 k e r.1)

theorem rows_walk : allIdx rowOk 0 rows = true := by decide +kernel

theorem rows_size : powersOfTenList.length = 87 ∧ decimalPowerBiasedList.length = 87
    ∧ binaryPowerBiasedList.length = 87 ∧ accessorIsIndex = true := by decide +kernel

/-- `fast_binary_power(q) = ⌊log₂ 10^q⌋ - 63` -/
def IsFastBinaryPower (q v : Int) : Prop := IsFloorLog2Pow10 q (v + 63)
instance (q v : Int) : Decidable (IsFastBinaryPower q v) := by unfold IsFastBinaryPower; infer_instance

theorem fastBinaryPower_walk :
    allIdx (vecOk IsFastBinaryPower fastBinaryPowerLo fastBinaryPowerTabBias) 0 fastBinaryPowerTabBiased.toList = true := by
  decide +kernel
theorem fastBinaryPower_size :
    fastBinaryPowerTabBiased.size = (fastBinaryPowerHi - fastBinaryPowerLo + 1).toNat := by decide +kernel

/-- probe `i` (`exp = cachedLo + i`): `(mant, biased binary exponent, biased k)` -/
def cachedRows : List (Nat × Nat × Nat) := List.zip cachedMantList (List.zip cachedBinExpBiasedList cachedKBiasedList)

def cachedOk (i : Nat) (r : Nat × Nat × Nat) : Bool :=
  let exp : Int := cachedLo + i
  let be : Int := (r.2.1 : Int) - cachedBinExpBias
  let k : Int := (r.2.2 : Int) - cachedKBias
  let idx : Nat := ((k + 348) / 8).toNat
  decide (0 ≤ k + 348 ∧ (k + 348) % 8 = 0 ∧ idx < 87
    ∧ r.1 = powersOfTenList.getD idx 0
    ∧ be = (binaryPowerBiasedList.getD idx 0 : Int) - binaryPowerBias
    ∧ -60 ≤ exp + be + 64 ∧ exp + be + 64 ≤ -32)

theorem cached_walk : allIdx cachedOk 0 cachedRows = true := by decide +kernel

theorem cached_size : cachedMantList.length = (cachedHi - cachedLo + 1).toNat
    ∧ cachedBinExpBiasedList.length = (cachedHi - cachedLo + 1).toNat
    ∧ cachedKBiasedList.length = (cachedHi - cachedLo + 1).toNat ∧ cachedPanics = [] := by decide +kernel

/-- the exponent of the normalised upper boundary of every finite float lies in the dumped range -/
theorem cached_domain :
    cachedLo ≤ F64.minUpperExp ∧ F64.maxUpperExp ≤ cachedHi ∧ cachedLo ≤ F32.minUpperExp ∧ F32.maxUpperExp ≤ cachedHi
    ∧ F64.minUpperExp = F64.minFiniteExponent - 1 - 62 ∧ F64.maxUpperExp = F64.maxFiniteExponent - 1 - (64 - (F64.mantissaSize + 2))
    ∧ F32.minUpperExp = F32.minFiniteExponent - 1 - 62 ∧ F32.maxUpperExp = F32.maxFiniteExponent - 1 - (64 - (F32.mantissaSize + 2))
    ∧ F64.minFiniteExponent = -1074 ∧ F64.maxFiniteExponent = 971 ∧ F32.minFiniteExponent = -149 ∧ F32.maxFiniteExponent = 104 := by
  decide +kernel

end LexVerif.Proof.Tables.Grisu
