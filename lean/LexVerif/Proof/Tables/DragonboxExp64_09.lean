import LexVerif.Proof.DragonboxExpDefs
/-! `compute_nearest_normal`, binary64: the per-exponent certificate `expOk` for the binary exponents 78 … 205. -/
namespace LexVerif.Proof.DragonboxExp
open LexVerif.Model.Dragonbox

theorem exp64_09_0 : (expList (78) 64).all (expOk .f64) = true := by decide +kernel
theorem exp64_09_1 : (expList (142) 64).all (expOk .f64) = true := by decide +kernel

end LexVerif.Proof.DragonboxExp
