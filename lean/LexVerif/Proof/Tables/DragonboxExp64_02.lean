import LexVerif.Proof.DragonboxExpDefs
/-! `compute_nearest_normal`, binary64: the per-exponent certificate `expOk` for the binary exponents -818 … -691. -/
namespace LexVerif.Proof.DragonboxExp
open LexVerif.Model.Dragonbox

theorem exp64_02_0 : (expList (-818) 64).all (expOk .f64) = true := by decide +kernel
theorem exp64_02_1 : (expList (-754) 64).all (expOk .f64) = true := by decide +kernel

end LexVerif.Proof.DragonboxExp
