import LexVerif.Proof.DragonboxExpDefs
/-! `compute_nearest_normal`, binary64: the per-exponent certificate `expOk` for the binary exponents 846 … 971. -/
namespace LexVerif.Proof.DragonboxExp
open LexVerif.Model.Dragonbox

theorem exp64_15_0 : (expList (846) 64).all (expOk .f64) = true := by decide +kernel
theorem exp64_15_1 : (expList (910) 62).all (expOk .f64) = true := by decide +kernel

end LexVerif.Proof.DragonboxExp
