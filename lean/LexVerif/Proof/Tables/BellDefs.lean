import LexVerif.Proof.Tables.Util
import LexVerif.Gen.Bellerophon
/-!
# Row predicates for the Bellerophon power tables

`bellerophon()` indexes `exponent + bias` as `large_index·step + small_index`, multiplies the mantissa
by `small[small_index]` (or exactly by `small_int[small_index]` when that does not overflow) and by
`large[large_index]`, taking the binary exponents from `(log2·k) >> log2_shift`.
-/
namespace LexVerif.Proof.Tables
open LexVerif.Spec LexVerif.Spec.PowerTables LexVerif.Gen.Bellerophon

/-- radices that have Bellerophon tables in a build: not powers of two; 10 only with `compact` -/
def bellHasTable (compact : Bool) (r : Nat) : Bool := !isPow2 r && (compact || r != 10)

/-- `small[i]` is the **truncated** normalised 64-bit mantissa of `r^i`, and `get_small(i).exp` its exponent -/
def bellSmallOk (r i m : Nat) : Bool := m == (extTrunc (r ^ i) 1).1
def bellSmallExpOk (r i : Nat) (e : Int) : Bool := e == (extTrunc (r ^ i) 1).2
/-- `large[i]` is the truncated normalised 64-bit mantissa of `r^(i·step − bias)` -/
def bellLargeOk (P : Powers) (r i m : Nat) : Bool :=
  let q := powQ r (i * P.step - P.bias)
  m == (extTrunc q.1 q.2).1
def bellLargeExpOk (P : Powers) (r i : Nat) (e : Int) : Bool :=
  let q := powQ r (i * P.step - P.bias)
  e == (extTrunc q.1 q.2).2
/-- the same with round-to-nearest instead of truncation (what the module docs claim) -/
def bellLargeNearestOk (P : Powers) (r i m : Nat) : Bool :=
  let q := powQ r (i * P.step - P.bias)
  m == (extNearest q.1 q.2).1

/-- the multiplier formula `(log2·k) >> shift = ⌊k·log2 r⌋` (`2^e ≤ r^k < 2^(e+1)`) on the whole exponent range
`−bias ≤ k < large.len·step − bias` -/
def bellLog2Ok (P : Powers) (r : Nat) : Bool :=
  (List.range (P.large.size * P.step.toNat)).all fun j =>
    let k : Int := (j : Int) - P.bias
    isFloorLog2Q (powQ r k).1 (powQ r k).2 ((P.log2 * k) / (2 ^ P.log2Shift.toNat : Int))

/-- shape: `step = ⌊log_r 10^10⌋` small powers; exponents below `−bias` underflow to zero and exponents
from `large.len·step − bias` on overflow to infinity for every 64-bit mantissa (binary64) -/
def bellShapeOk (P : Powers) (r : Nat) : Bool :=
  P.step > 0 && P.bias ≥ 0 && P.log2Shift ≥ 0 &&
  P.small.size == P.step.toNat && P.smallInt.size == P.step.toNat &&
  P.smallExp.size == P.small.size && P.largeExp.size == P.large.size &&
  r ^ P.step.toNat ≤ 10 ^ 10 && 10 ^ 10 < r ^ (P.step.toNat + 1) &&
  P.bias % P.step == 0 &&
  (2 ^ 64 - 1) * 2 ^ 1075 < r ^ (P.bias.toNat + 1) &&
  2 ^ 1024 ≤ r ^ (P.large.size * P.step.toNat - P.bias.toNat)

def bellRadixOk (compact : Bool) (powers : Nat → Powers) (r : Nat) : Bool :=
  let P := powers r
  if bellHasTable compact r then
    bellShapeOk P r &&
    tableAll (bellSmallOk r) P.small && tableAll (bellSmallExpOk r) P.smallExp &&
    tableAll (fun i v => v == r ^ i && v < 2 ^ 64) P.smallInt &&
    tableAll (bellLargeOk P r) P.large && tableAll (bellLargeExpOk P r) P.largeExp
  else P.small.size == 0 && P.large.size == 0 && P.smallInt.size == 0

def bellRadixLog2Ok (compact : Bool) (powers : Nat → Powers) (r : Nat) : Bool :=
  !bellHasTable compact r || bellLog2Ok (powers r) r

/-- number of large mantissas that are *not* the nearest 64-bit value (they are truncated) -/
def bellNotNearestCount (powers : Nat → Powers) (r : Nat) : Nat :=
  (tableBad (bellLargeNearestOk (powers r) r) (powers r).large).length

end LexVerif.Proof.Tables
