import LexVerif.Gen.Dragonbox
import LexVerif.Gen.Logs
import LexVerif.Spec.Tables
import LexVerif.Proof.Tables.Walk
/-!
Index ranges of the Dragonbox caches cover every `-minus_k` the writer can form from a finite float.

`compute_nearest_normal` (and the two directed variants): `minus_k = floor_log10_pow2(e) - KAPPA`;
`compute_nearest_shorter`: `minus_k = floor_log10_pow2_minus_log10_4_over_3(e)`; the cache is indexed by
`-minus_k - SMALLEST` (unchecked) and `floor_log2_pow10(-minus_k)` is evaluated. `e` ranges over `exponent()` of
every finite non-zero float (`f64`: -1074…971, `f32`: -149…104).

The right-closed directed variant (not called by `to_decimal`) uses `e - 1` when `shorter`; `e - 1` stays in the
finite range for every float whose mantissa bits are zero and whose exponent is not the minimum. For the
record: at `e - 1 = -150` the f32 table *would* be exceeded (`right_closed_f32_below_min`), at `-1075` the f64
table is not (`right_closed_f64_below_min`).
-/
namespace LexVerif.Proof.Tables.Dragonbox
open LexVerif LexVerif.Spec.Tables LexVerif.Gen.Dragonbox LexVerif.Gen.Logs

abbrev Normal64 := MinusKInRange F64.kappa smallestF64Pow5 largestF64Pow5 floorLog2Pow10Lo floorLog2Pow10Hi
  F64.minFiniteExponent F64.maxFiniteExponent
abbrev Shorter64 := MinusKInRange 0 smallestF64Pow5 largestF64Pow5 floorLog2Pow10Lo floorLog2Pow10Hi
  F64.minFiniteExponent F64.maxFiniteExponent
abbrev Normal32 := MinusKInRange F32.kappa smallestF32Pow5 largestF32Pow5 floorLog2Pow10Lo floorLog2Pow10Hi
  F32.minFiniteExponent F32.maxFiniteExponent
abbrev Shorter32 := MinusKInRange 0 smallestF32Pow5 largestF32Pow5 floorLog2Pow10Lo floorLog2Pow10Hi
  F32.minFiniteExponent F32.maxFiniteExponent

theorem normal64_walk : allIdx (vecOk Normal64 floorLog10Pow2Lo floorLog10Pow2TabBias) 0 floorLog10Pow2TabBiased.toList = true := by
  decide +kernel
theorem normal32_walk : allIdx (vecOk Normal32 floorLog10Pow2Lo floorLog10Pow2TabBias) 0 floorLog10Pow2TabBiased.toList = true := by
  decide +kernel
theorem shorter64_walk :
    allIdx (vecOk Shorter64 floorLog10Pow2MinusLog10_4Over3Lo floorLog10Pow2MinusLog10_4Over3TabBias) 0
      floorLog10Pow2MinusLog10_4Over3TabBiased.toList = true := by decide +kernel
theorem shorter32_walk :
    allIdx (vecOk Shorter32 floorLog10Pow2MinusLog10_4Over3Lo floorLog10Pow2MinusLog10_4Over3TabBias) 0
      floorLog10Pow2MinusLog10_4Over3TabBiased.toList = true := by decide +kernel

theorem sizes : floorLog10Pow2TabBiased.size = (floorLog10Pow2Hi - floorLog10Pow2Lo + 1).toNat
    ∧ floorLog10Pow2MinusLog10_4Over3TabBiased.size = (floorLog10Pow2MinusLog10_4Over3Hi - floorLog10Pow2MinusLog10_4Over3Lo + 1).toNat
    ∧ floorLog10Pow2Lo ≤ F64.minFiniteExponent ∧ F64.maxFiniteExponent ≤ floorLog10Pow2Hi
    ∧ floorLog10Pow2MinusLog10_4Over3Lo ≤ F64.minFiniteExponent ∧ F64.maxFiniteExponent ≤ floorLog10Pow2MinusLog10_4Over3Hi
    ∧ F64.minFiniteExponent ≤ F32.minFiniteExponent ∧ F32.maxFiniteExponent ≤ F64.maxFiniteExponent := by decide +kernel

/-- one below the smallest f32 exponent `-minus_k = 47 > LARGEST_F32_POW5` (unreachable: see the header) -/
theorem right_closed_f32_below_min :
    ¬ (-(floorLog10Pow2 (F32.minFiniteExponent - 1) - F32.kappa) ≤ largestF32Pow5) := by decide +kernel

theorem right_closed_f64_below_min :
    -(floorLog10Pow2 (F64.minFiniteExponent - 1) - F64.kappa) ≤ largestF64Pow5 := by decide +kernel

/-- constants: the derived constants equal the Dragonbox paper's formulas over the (proved exact) logarithms
(`DIV_BY_5_THRESHOLD = ⌊log₂ 10^(⌊log₅ 2^(p+2)⌋ + κ + 1)⌋`, `FC_PM_HALF_LOWER = -κ - ⌊log₅ 2^κ⌋`), the exponent
range is the IEEE one -/
theorem consts :
    F32.fcPmHalfLower = -F32.kappa - floorLog5Pow2 F32.kappa
    ∧ F32.divBy5Threshold = floorLog2Pow10 (floorLog5Pow2 (F32.mantissaSize + 2) + F32.kappa + 1)
    ∧ F64.fcPmHalfLower = -F64.kappa - floorLog5Pow2 F64.kappa
    ∧ F64.divBy5Threshold = floorLog2Pow10 (floorLog5Pow2 (F64.mantissaSize + 2) + F64.kappa + 1)
    ∧ F32.kappa = 1 ∧ F64.kappa = 2 ∧ F32.decimalDigits = 9 ∧ F64.decimalDigits = 17
    ∧ F32.minFiniteExponent = F32.denormalExponent ∧ F32.maxFiniteExponent = F32.maxExponent - 1
    ∧ F64.minFiniteExponent = F64.denormalExponent ∧ F64.maxFiniteExponent = F64.maxExponent - 1
    ∧ F32.denormalExponent = 1 - (127 + 23) ∧ F32.maxExponent = 255 - (127 + 23) ∧ F32.mantissaSize = 23
    ∧ F64.denormalExponent = 1 - (1023 + 52) ∧ F64.maxExponent = 2047 - (1023 + 52) ∧ F64.mantissaSize = 52
    ∧ dragonboxPowerIsIndex = true := by
  decide +kernel

/-- `floor_log2` samples (0, every `2^j`, every `2^(j+1)-1`, the writer's arguments) -/
theorem floorLog2_samples :
    allIdx (fun _ (p : Nat × Nat) => decide (((p.2 : Int) - floorLog2ValBias) = floorLog2 p.1)) 0
      (List.zip floorLog2ArgList floorLog2ValBiasedList) = true
    ∧ floorLog2ArgList.length = floorLog2ValBiasedList.length ∧ 129 ≤ floorLog2ArgList.length := by
  decide +kernel

/-- `pow64(10,e)`, `pow32(10,e)` are powers of ten -/
theorem pow10_samples :
    allIdx (fun i v => v == 10 ^ i) 0 pow64_10List = true ∧ pow64_10List.length = 20
    ∧ allIdx (fun i v => v == 10 ^ i) 0 pow32_10List = true ∧ pow32_10List.length = 10 := by
  decide +kernel

end LexVerif.Proof.Tables.Dragonbox
