import LexVerif.Proof.Tables.SmallDefs
import LexVerif.Gen.LargePowers
/-!
# Large big-integer powers, `split_radix`, `integral_binary_factor`, big-integer sizes

`Bigint::pow(base, exp)` computes `split_radix(base) = (odd, shift)`, multiplies by `odd^exp` using
`get_large_int_power(odd)` (`exp ≥ step`), `u64_power_limit(odd)` and `int_pow_fast_path(_, odd)`, then
shifts left by `exp·shift`. It is right iff `odd·2^shift = base` and the table entry selected **for
`odd`** denotes `odd^step`.
-/
namespace LexVerif.Proof.Tables
open LexVerif.Spec LexVerif.Spec.PowerTables LexVerif.Proof

structure LargeSet where
  limbBits : Nat
  bigintBits : Nat
  bigintLimbs : Nat
  bigfloatBits : Nat
  splitRadix : Nat → Nat × Nat
  integralBinaryFactor : Nat → Nat
  hasLarge : Bool
  largeStep : Nat → Nat
  largeLimbs : Nat → Array Nat

namespace LargeSet
def Radix : LargeSet where
  limbBits := Gen.LargePowers.Radix.limbBits
  bigintBits := Gen.LargePowers.Radix.bigintBits
  bigintLimbs := Gen.LargePowers.Radix.bigintLimbs
  bigfloatBits := Gen.LargePowers.Radix.bigfloatBits
  splitRadix := Gen.LargePowers.Radix.splitRadix
  integralBinaryFactor := Gen.LargePowers.Radix.integralBinaryFactor
  hasLarge := Gen.LargePowers.Radix.hasLarge
  largeStep := Gen.LargePowers.Radix.largeStep
  largeLimbs := Gen.LargePowers.Radix.largeLimbs

def CompactRadix : LargeSet where
  limbBits := Gen.LargePowers.CompactRadix.limbBits
  bigintBits := Gen.LargePowers.CompactRadix.bigintBits
  bigintLimbs := Gen.LargePowers.CompactRadix.bigintLimbs
  bigfloatBits := Gen.LargePowers.CompactRadix.bigfloatBits
  splitRadix := Gen.LargePowers.CompactRadix.splitRadix
  integralBinaryFactor := Gen.LargePowers.CompactRadix.integralBinaryFactor
  hasLarge := Gen.LargePowers.CompactRadix.hasLarge
  largeStep := Gen.LargePowers.CompactRadix.largeStep
  largeLimbs := Gen.LargePowers.CompactRadix.largeLimbs

def Default : LargeSet where
  limbBits := Gen.LargePowers.Default.limbBits
  bigintBits := Gen.LargePowers.Default.bigintBits
  bigintLimbs := Gen.LargePowers.Default.bigintLimbs
  bigfloatBits := Gen.LargePowers.Default.bigfloatBits
  splitRadix := Gen.LargePowers.Default.splitRadix
  integralBinaryFactor := Gen.LargePowers.Default.integralBinaryFactor
  hasLarge := Gen.LargePowers.Default.hasLarge
  largeStep := Gen.LargePowers.Default.largeStep
  largeLimbs := Gen.LargePowers.Default.largeLimbs

end LargeSet

/-- `get_large_int_power(b)` denotes `b^step`, every limb in range, step positive -/
def largeEntryOk (L : LargeSet) (b : Nat) : Bool :=
  limbsVal L.limbBits (L.largeLimbs b).toList == b ^ L.largeStep b &&
  (L.largeLimbs b).toList.all (· < 2 ^ L.limbBits) && 0 < L.largeStep b

/-- `split_radix(r) = (odd, shift)` is usable by `pow`: powers of two give `(0, log2 r)`; otherwise
`odd·2^shift = r` and (when the build has large powers) the large-power entry selected for `odd`
denotes `odd^step`. (`odd` need not be odd for `pow` to be right; the small powers exist for every base.) -/
def splitRadixOk (L : LargeSet) (r : Nat) : Bool :=
  let (odd, shift) := L.splitRadix r
  if odd = 0 then 2 ^ shift == r
  else odd * 2 ^ shift == r && (!L.hasLarge || largeEntryOk L odd)

/-- the weaker arithmetic half alone: `odd·2^shift = r` -/
def splitRadixProductOk (L : LargeSet) (r : Nat) : Bool :=
  let (odd, shift) := L.splitRadix r
  if odd = 0 then 2 ^ shift == r else odd * 2 ^ shift == r

/-- `integral_binary_factor(r) = ⌈log2 r⌉` for the radices the slow path handles (not powers of two) -/
def binaryFactorOk (L : LargeSet) (r : Nat) : Bool :=
  isPow2 r || L.integralBinaryFactor r == clog2 r

/-- `BIGINT_LIMBS = BIGINT_BITS / Limb::BITS`, and `BIGINT_BITS` exceeds `log2(r^max_digits(r))` (the
bound its doc comment gives) for every radix with a digit limit -/
def bigintSizeOk (L : LargeSet) (S : SmallSet) : Bool :=
  L.bigintLimbs == L.bigintBits / L.limbBits && L.limbBits == 64 &&
  S.radices.all fun r => match S.f64MaxDigits r with
    | none => true
    | some d => r ^ d < 2 ^ L.bigintBits

/-! ### feature set `radix` -/

end LexVerif.Proof.Tables
