import LexVerif.Proof.Tables.BellDefs
/-! Bellerophon tables, feature set `Radix`, radices 13..24: every mantissa, exponent, constant. -/
namespace LexVerif.Proof.Tables
open LexVerif.Spec LexVerif.Spec.PowerTables LexVerif.Proof LexVerif.Gen

theorem bell_radix_b : ((List.range 25).filter (13 ≤ ·)).all (bellRadixOk false Bellerophon.Radix.powers) = true := by
  unfold bellRadixOk bellSmallOk bellSmallExpOk bellLargeOk bellLargeExpOk extTrunc ilog2Q bitlen
  rw [log2_eq_log2F]
  decide +kernel

end LexVerif.Proof.Tables
