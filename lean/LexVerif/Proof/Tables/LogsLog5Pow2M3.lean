import LexVerif.Gen.Logs
import LexVerif.Spec.Tables
import LexVerif.Proof.Tables.Walk
/-! `floor_log5_pow2_minus_log5_3` is the exact floor logarithm on its whole documented domain. -/
namespace LexVerif.Proof.Tables.Logs
open LexVerif LexVerif.Spec.Tables LexVerif.Gen.Logs

theorem log5Pow2MinusLog5_3_walk :
    allIdx (vecOk IsFloorLog5Pow2MinusLog5_3 floorLog5Pow2MinusLog5_3Lo floorLog5Pow2MinusLog5_3TabBias) 0 floorLog5Pow2MinusLog5_3TabBiased.toList = true := by
  decide +kernel

theorem log5Pow2MinusLog5_3_size : floorLog5Pow2MinusLog5_3TabBiased.size = (floorLog5Pow2MinusLog5_3Hi - floorLog5Pow2MinusLog5_3Lo + 1).toNat := by
  decide +kernel

theorem log5Pow2MinusLog5_3_exact (q : Int) (h1 : floorLog5Pow2MinusLog5_3Lo ≤ q) (h2 : q ≤ floorLog5Pow2MinusLog5_3Hi) :
    IsFloorLog5Pow2MinusLog5_3 q (floorLog5Pow2MinusLog5_3 q) := by
  have := vec_spec log5Pow2MinusLog5_3_size log5Pow2MinusLog5_3_walk q h1 h2
  simpa [floorLog5Pow2MinusLog5_3, floorLog5Pow2MinusLog5_3TabAt, h1, h2] using this

end LexVerif.Proof.Tables.Logs
