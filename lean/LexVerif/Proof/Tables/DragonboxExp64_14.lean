import LexVerif.Proof.DragonboxExpDefs
/-! `compute_nearest_normal`, binary64: the per-exponent certificate `expOk` for the binary exponents 718 … 845. -/
namespace LexVerif.Proof.DragonboxExp
open LexVerif.Model.Dragonbox

theorem exp64_14_0 : (expList (718) 64).all (expOk .f64) = true := by decide +kernel
theorem exp64_14_1 : (expList (782) 64).all (expOk .f64) = true := by decide +kernel

end LexVerif.Proof.DragonboxExp
