/-!
# Linear table walkers for `decide +kernel`

Indexing a large `Array`/`List` literal inside the kernel is linear per access, so a `∀ i < n` check by
indexing is quadratic (measured: minutes for 2.6 k entries). `allIdx` walks the list once, carrying the
index; `allIdx_get` turns a successful walk into the per-index statement.
-/
namespace LexVerif.Proof.Tables

/-- `p i l[i]` for all positions, index starting at `s` -/
def allIdx {α : Type} (p : Nat → α → Bool) : Nat → List α → Bool
  | _, [] => true
  | s, a :: l => p s a && allIdx p (s + 1) l

theorem allIdx_get {α : Type} (p : Nat → α → Bool) :
    ∀ (l : List α) (s : Nat), allIdx p s l = true → ∀ (j : Nat) (h : j < l.length), p (s + j) l[j] = true
  | [], _, _, j, h => absurd h (Nat.not_lt_zero j)
  | a :: l, s, hw, j, h => by
    simp only [allIdx, Bool.and_eq_true] at hw
    cases j with
    | zero => simpa using hw.1
    | succ j =>
      have := allIdx_get p l (s + 1) hw.2 j (by simpa using h)
      simpa [Nat.add_assoc, Nat.add_comm 1 j] using this

/-- Array form: a successful walk over `a.toList` gives `p i a[i]` for every index. -/
theorem allIdx_array {p : Nat → Nat → Bool} {a : Array Nat} (hw : allIdx p 0 a.toList = true)
    (j : Nat) (h : j < a.size) : p j a[j] = true := by
  have := allIdx_get p a.toList 0 hw j (by simpa using h)
  simpa using this

/-- row check for an `Int`-valued vector stored with a bias: `P (lo + i) (v - bias)` -/
def vecOk (P : Int → Int → Prop) [∀ q v, Decidable (P q v)] (lo : Int) (bias : Nat) (i v : Nat) : Bool :=
  decide (P (lo + i) ((v : Int) - bias))

/-- From a successful walk over a biased vector dumped on `[lo, hi]` to the statement about the accessor. -/
theorem vec_spec {P : Int → Int → Prop} [∀ q v, Decidable (P q v)] {lo hi : Int} {bias : Nat} {tab : Array Nat}
    (hsize : tab.size = (hi - lo + 1).toNat)
    (hw : allIdx (vecOk P lo bias) 0 tab.toList = true)
    (q : Int) (h1 : lo ≤ q) (h2 : q ≤ hi) :
    P q ((tab.getD (q - lo).toNat 0 : Int) - bias) := by
  have hj : (q - lo).toNat < tab.size := by omega
  have h := allIdx_array hw (q - lo).toNat hj
  have hq : lo + ((q - lo).toNat : Int) = q := by omega
  simp only [vecOk, decide_eq_true_eq, hq] at h
  have hg : tab.getD (q - lo).toNat 0 = tab[(q - lo).toNat] := by simp [Array.getD, hj]
  rw [hg]; exact h

/-- indices (from `s`) at which the walk fails — for diagnostics (`#eval`) after a broken theorem -/
def badIdx {α : Type} (p : Nat → α → Bool) : Nat → List α → List Nat
  | _, [] => []
  | s, a :: l => if p s a then badIdx p (s + 1) l else s :: badIdx p (s + 1) l

end LexVerif.Proof.Tables
