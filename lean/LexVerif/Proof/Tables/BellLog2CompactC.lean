import LexVerif.Proof.Tables.BellDefs
/-! Bellerophon `log2` multiplier, feature set `CompactRadix`, radices 25..36: right on the whole exponent range. -/
namespace LexVerif.Proof.Tables
open LexVerif.Spec LexVerif.Spec.PowerTables LexVerif.Proof LexVerif.Gen

theorem bell_log2_compact_c : ((List.range 37).filter (25 ≤ ·)).all (bellRadixLog2Ok true Bellerophon.CompactRadix.powers) = true := by
  decide +kernel

end LexVerif.Proof.Tables
