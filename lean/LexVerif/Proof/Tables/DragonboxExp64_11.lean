import LexVerif.Proof.DragonboxExpDefs
/-! `compute_nearest_normal`, binary64: the per-exponent certificate `expOk` for the binary exponents 334 … 461. -/
namespace LexVerif.Proof.DragonboxExp
open LexVerif.Model.Dragonbox

theorem exp64_11_0 : (expList (334) 64).all (expOk .f64) = true := by decide +kernel
theorem exp64_11_1 : (expList (398) 64).all (expOk .f64) = true := by decide +kernel

end LexVerif.Proof.DragonboxExp
