import LexVerif.Gen.IntTables
import LexVerif.Spec.Tables
import LexVerif.Proof.Tables.IntPairsA
/-! Digit-pair tables `DIGIT_TO_BASE<r>_SQUARED`, r = 23…28: byte `j` is the character of
`(j/2) / r` (even `j`) or `(j/2) % r` (odd `j`), and the table has `2·r²` bytes. -/
namespace LexVerif.Proof.Tables.IntPairs
open LexVerif LexVerif.Spec.Tables LexVerif.Gen.IntTables

theorem base23_walk : allIdx (pairOk 23) 0 base23.toList = true ∧ base23.size = 2 * 23 * 23 := by decide +kernel
theorem base24_walk : allIdx (pairOk 24) 0 base24.toList = true ∧ base24.size = 2 * 24 * 24 := by decide +kernel
theorem base25_walk : allIdx (pairOk 25) 0 base25.toList = true ∧ base25.size = 2 * 25 * 25 := by decide +kernel
theorem base26_walk : allIdx (pairOk 26) 0 base26.toList = true ∧ base26.size = 2 * 26 * 26 := by decide +kernel
theorem base27_walk : allIdx (pairOk 27) 0 base27.toList = true ∧ base27.size = 2 * 27 * 27 := by decide +kernel
theorem base28_walk : allIdx (pairOk 28) 0 base28.toList = true ∧ base28.size = 2 * 28 * 28 := by decide +kernel

end LexVerif.Proof.Tables.IntPairs
