import LexVerif.Proof.DragonboxExpDefs
/-! `compute_nearest_normal`, binary64: the per-exponent certificate `expOk` for the binary exponents 206 … 333. -/
namespace LexVerif.Proof.DragonboxExp
open LexVerif.Model.Dragonbox

theorem exp64_10_0 : (expList (206) 64).all (expOk .f64) = true := by decide +kernel
theorem exp64_10_1 : (expList (270) 64).all (expOk .f64) = true := by decide +kernel

end LexVerif.Proof.DragonboxExp
