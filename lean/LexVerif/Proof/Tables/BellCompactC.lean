import LexVerif.Proof.Tables.BellDefs
/-! Bellerophon tables, feature set `CompactRadix`, radices 25..36: every mantissa, exponent, constant. -/
namespace LexVerif.Proof.Tables
open LexVerif.Spec LexVerif.Spec.PowerTables LexVerif.Proof LexVerif.Gen

theorem bell_compact_c : ((List.range 37).filter (25 ≤ ·)).all (bellRadixOk true Bellerophon.CompactRadix.powers) = true := by
  unfold bellRadixOk bellSmallOk bellSmallExpOk bellLargeOk bellLargeExpOk extTrunc ilog2Q bitlen
  rw [log2_eq_log2F]
  decide +kernel

end LexVerif.Proof.Tables
