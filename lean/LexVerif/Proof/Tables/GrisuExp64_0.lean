import LexVerif.Proof.GrisuExpDefs
/-! `grisu` (compact builds): the per-(exponent, shift) certificate `gOk`, binary64, chunk 0. -/
namespace LexVerif.Proof.GrisuExp
open LexVerif.Model.Dragonbox

theorem g64_0_0 : (normalPairs .f64 (-1074) 256).all (fun p => gOk .f64 p.1 p.2) = true := by decide +kernel
theorem g64_0_1 : (normalPairs .f64 (-818) 256).all (fun p => gOk .f64 p.1 p.2) = true := by decide +kernel

end LexVerif.Proof.GrisuExp
