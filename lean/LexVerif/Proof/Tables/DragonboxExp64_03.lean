import LexVerif.Proof.DragonboxExpDefs
/-! `compute_nearest_normal`, binary64: the per-exponent certificate `expOk` for the binary exponents -690 … -563. -/
namespace LexVerif.Proof.DragonboxExp
open LexVerif.Model.Dragonbox

theorem exp64_03_0 : (expList (-690) 64).all (expOk .f64) = true := by decide +kernel
theorem exp64_03_1 : (expList (-626) 64).all (expOk .f64) = true := by decide +kernel

end LexVerif.Proof.DragonboxExp
