import LexVerif.Proof.Tables.LemireDefs
/-! Eisel–Lemire table, rows of the non-negative powers (`5^0 … 5^308`), shape constants and `power`. -/
namespace LexVerif.Proof.Tables
open LexVerif.Gen LexVerif.Spec LexVerif.Spec.PowerTables LexVerif.Proof

theorem lemire_shape :
    Lemire.smallestPowerOfFive = -342 ∧ Lemire.largestPowerOfFive = 308 ∧ Lemire.nPowersOfFive = 651 ∧
    Lemire.powerOfFive128.size = 651 ∧ Lemire.powerTab.size = 651 := by decide +kernel

theorem lemire_rows_pos : tableAll (fun j => lemireRowOk (342 + j)) lemirePosRows = true := by
  unfold lemireRowOk lemireRow normTrunc clog2 bitlen
  rw [log2_eq_log2F]
  decide +kernel

theorem lemire_power_all : tableAll lemirePowerOk Lemire.powerTab = true := by
  unfold lemirePowerOk floorLog2Pow ilog2Q bitlen
  rw [log2_eq_log2F]
  decide +kernel

end LexVerif.Proof.Tables
