import LexVerif.Proof.DragonboxExpDefs
/-! `compute_nearest_normal`, binary64: the per-exponent certificate `expOk` for the binary exponents -562 … -435. -/
namespace LexVerif.Proof.DragonboxExp
open LexVerif.Model.Dragonbox

theorem exp64_04_0 : (expList (-562) 64).all (expOk .f64) = true := by decide +kernel
theorem exp64_04_1 : (expList (-498) 64).all (expOk .f64) = true := by decide +kernel

end LexVerif.Proof.DragonboxExp
