import LexVerif.Proof.DragonboxExpDefs
/-! `compute_nearest_normal`, binary64: the per-exponent certificate `expOk` for the binary exponents -50 … 77. -/
namespace LexVerif.Proof.DragonboxExp
open LexVerif.Model.Dragonbox

theorem exp64_08_0 : (expList (-50) 64).all (expOk .f64) = true := by decide +kernel
theorem exp64_08_1 : (expList (14) 64).all (expOk .f64) = true := by decide +kernel

end LexVerif.Proof.DragonboxExp
