import LexVerif.Gen.IntTables
import LexVerif.Spec.Tables
import LexVerif.Proof.Tables.IntPairsA
/-! Digit-pair tables `DIGIT_TO_BASE<r>_SQUARED`, r = 33…36: byte `j` is the character of
`(j/2) / r` (even `j`) or `(j/2) % r` (odd `j`), and the table has `2·r²` bytes. -/
namespace LexVerif.Proof.Tables.IntPairs
open LexVerif LexVerif.Spec.Tables LexVerif.Gen.IntTables

theorem base33_walk : allIdx (pairOk 33) 0 base33.toList = true ∧ base33.size = 2 * 33 * 33 := by decide +kernel
theorem base34_walk : allIdx (pairOk 34) 0 base34.toList = true ∧ base34.size = 2 * 34 * 34 := by decide +kernel
theorem base35_walk : allIdx (pairOk 35) 0 base35.toList = true ∧ base35.size = 2 * 35 * 35 := by decide +kernel
theorem base36_walk : allIdx (pairOk 36) 0 base36.toList = true ∧ base36.size = 2 * 36 * 36 := by decide +kernel

end LexVerif.Proof.Tables.IntPairs
