import LexVerif.Gen.Dragonbox
import LexVerif.Gen.Logs
import LexVerif.Gen.Grisu
import LexVerif.Gen.IntTables
import LexVerif.Gen.Sizes
import LexVerif.Spec.Tables
import LexVerif.Proof.Tables.Walk
/-!
Diagnostics after a broken table theorem: which rows of which table disagree with the closed form.
Not part of any proof; imports only `Gen`, `Spec` and the walkers, so it still builds when a theorem does not.

    cd lean && lake env lean --run LexVerif/Proof/Tables/Diag.lean      # prints `table: [rows…]` for each mismatch
-/
open LexVerif LexVerif.Spec LexVerif.Spec.Tables LexVerif.Proof.Tables

def logBad (spec : Int → Int → Bool) (lo : Int) (bias : Nat) (l : List Nat) : List Nat :=
  badIdx (fun (i : Nat) (v : Nat) => spec (lo + (i : Int)) ((v : Int) - (bias : Int))) 0 l

def badRows : List (String × List Nat) :=
  let L := fun (n : String) (x : List Nat) => (n, x)
  [ L "floor_log5_pow2 (index = q + 1492)" (logBad (fun q v => decide (IsFloorLog5Pow2 q v)) Gen.Logs.floorLog5Pow2Lo Gen.Logs.floorLog5Pow2TabBias Gen.Logs.floorLog5Pow2TabBiasedList),
    L "floor_log10_pow2 (index = q + 1700)" (logBad (fun q v => decide (IsFloorLog10Pow2 q v)) Gen.Logs.floorLog10Pow2Lo Gen.Logs.floorLog10Pow2TabBias Gen.Logs.floorLog10Pow2TabBiasedList),
    L "floor_log2_pow10 (index = q + 1233)" (logBad (fun q v => decide (IsFloorLog2Pow10 q v)) Gen.Logs.floorLog2Pow10Lo Gen.Logs.floorLog2Pow10TabBias Gen.Logs.floorLog2Pow10TabBiasedList),
    L "floor_log5_pow2_minus_log5_3 (index = q + 2427)" (logBad (fun q v => decide (IsFloorLog5Pow2MinusLog5_3 q v)) Gen.Logs.floorLog5Pow2MinusLog5_3Lo Gen.Logs.floorLog5Pow2MinusLog5_3TabBias Gen.Logs.floorLog5Pow2MinusLog5_3TabBiasedList),
    L "floor_log10_pow2_minus_log10_4_over_3 (index = q + 1700)" (logBad (fun q v => decide (IsFloorLog10Pow2MinusLog10_4Over3 q v)) Gen.Logs.floorLog10Pow2MinusLog10_4Over3Lo Gen.Logs.floorLog10Pow2MinusLog10_4Over3TabBias Gen.Logs.floorLog10Pow2MinusLog10_4Over3TabBiasedList),
    L "DRAGONBOX32_POWERS_OF_FIVE" (badIdx (fun i v => v == pow10Cache 64 (Gen.Dragonbox.smallestF32Pow5 + i)) 0 Gen.Dragonbox.pow5_32List),
    L "DRAGONBOX64_POWERS_OF_FIVE" (badIdx (fun i v => v == pow10Cache 128 (Gen.Dragonbox.smallestF64Pow5 + i)) 0
        (List.zipWith (fun hi lo => hi * 2 ^ 64 + lo) Gen.Dragonbox.pow5_64HiList Gen.Dragonbox.pow5_64LoList)),
    L "GRISU_POWERS_OF_TEN" (badIdx (fun i (r : Nat × Nat) =>
        decide (IsNearestPow10 (-348 + 8 * (i : Int)) ((r.2 : Int) - Gen.Grisu.binaryPowerBias) r.1)) 0
        (List.zip Gen.Grisu.powersOfTenList Gen.Grisu.binaryPowerBiasedList)),
    L "fast_digit_count TABLE" (badIdx (fun j v => v == fastDigitCountRow j) 0 Gen.IntTables.fastDigitCountTableList),
    L "u64_step (index = radix - 2)" ((List.range 35).filter fun i => !decide (IsMaxPow (i + 2) (2 ^ 64) (Gen.IntTables.u64Step (i + 2)))),
    L "min_step (index = ((r-2)*5 + log2(bits/8))*2 + signed)" (badIdx (fun i v => decide (IsMaxPow (i / 10 + 2) (2 ^ (8 * 2 ^ (i / 2 % 5) - i % 2)) v)) 0 Gen.IntTables.minStepTabList) ]
  ++ Gen.IntTables.tableRadices.map fun r =>
    (s!"DIGIT_TO_BASE{r}_SQUARED (byte index)", badIdx (fun j v => v == pairEntry r j) 0 (Gen.IntTables.namedTable r).toList)

def main : IO Unit := do
  let mut n := 0
  for (name, rows) in badRows do
    if !rows.isEmpty then
      n := n + 1
      IO.println s!"{name}: {rows}"
  IO.println s!"{n} table(s) with mismatching rows"
