import LexVerif.Spec.PowerTables
import LexVerif.Proof.FastLog2
/-!
# Proof.Tables.Util — how the table theorems are evaluated and restated

A table theorem is checked by the kernel in the form `tableAll p tab = true` /
`radixAll p = true` (one linear pass, indices as literals — indexing with `tab[i]!` or carrying
`i+1` along is quadratic for the kernel), then turned into the `∀ i < size` statement by the
lemmas below.
-/
namespace LexVerif.Proof.Tables

/-- `p i tab[i]` for every index of the array, evaluated in one pass -/
def tableAll {α} (p : Nat → α → Bool) (tab : Array α) : Bool :=
  ((List.range tab.toList.length).zip tab.toList).all fun x => p x.1 x.2

/-- indices of the rows violating `p` (for `#eval` when a table theorem breaks) -/
def tableBad {α} (p : Nat → α → Bool) (tab : Array α) : List Nat :=
  (((List.range tab.toList.length).zip tab.toList).filter fun x => !p x.1 x.2).map (·.1)

/-- the radices `2..=36` as literals -/
def radixList : List Nat := (List.range 37).filter (2 ≤ ·)

def radixAll (p : Nat → Bool) : Bool := radixList.all p
def radixBad (p : Nat → Bool) : List Nat := radixList.filter fun r => !p r

theorem of_listAll {α} (l : List α) (p : Nat → α → Bool)
    (h : ((List.range l.length).zip l).all (fun x => p x.1 x.2) = true) :
    ∀ i (hi : i < l.length), p i l[i] = true := by
  intro i hi
  have hm : (i, l[i]) ∈ (List.range l.length).zip l := by
    rw [List.mem_iff_getElem]
    exact ⟨i, by simp [hi], by simp⟩
  exact (List.all_eq_true.mp h) _ hm

theorem of_tableAll {α} {p : Nat → α → Bool} {tab : Array α} (h : tableAll p tab = true) :
    ∀ i (hi : i < tab.size), p i tab[i] = true := by
  intro i hi
  have := of_listAll tab.toList p h i (by simpa using hi)
  simpa using this

/-- a table checked in two halves (two modules, in parallel) -/
theorem of_tableAll_split {α} {p : Nat → α → Bool} {tab : Array α} (n : Nat)
    (h1 : tableAll p (tab.toList.take n).toArray = true)
    (h2 : tableAll (fun j => p (n + j)) (tab.toList.drop n).toArray = true) :
    ∀ i (hi : i < tab.size), p i tab[i] = true := by
  intro i hi
  by_cases hn : i < n
  · have := of_tableAll h1 i (by simp; omega)
    simpa using this
  · have := of_tableAll h2 (i - n) (by simp; omega)
    have e : n + (i - n) = i := by omega
    simp only [e] at this
    simpa [e] using this

theorem of_rangeAll {p : Nat → Bool} {lo hi : Nat} (h : ((List.range hi).filter (lo ≤ ·)).all p = true) :
    ∀ r, lo ≤ r → r < hi → p r = true := by
  intro r h1 h2
  apply (List.all_eq_true.mp h) r
  simp only [List.mem_filter, List.mem_range, decide_eq_true_eq]
  omega

theorem of_radixAll {p : Nat → Bool} (h : radixAll p = true) :
    ∀ r, 2 ≤ r → r ≤ 36 → p r = true := by
  intro r h2 h36
  apply (List.all_eq_true.mp h) r
  simp only [radixList, List.mem_filter, List.mem_range, decide_eq_true_eq]
  omega

end LexVerif.Proof.Tables
