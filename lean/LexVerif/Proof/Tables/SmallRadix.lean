import LexVerif.Proof.Tables.SmallDefs
/-! Small integer / f32 / f64 power tables, feature set `radix`: every entry of every radix. -/
namespace LexVerif.Proof.Tables
open LexVerif.Spec LexVerif.Spec.PowerTables LexVerif.Proof

theorem small_int_pow_radix : SmallSet.Radix.intRadices.all (intPowTableOk SmallSet.Radix) = true := by
  decide +kernel

theorem small_f32_pow_radix : SmallSet.Radix.radices.all (floatPowTableOk SmallSet.Radix f32) = true := by
  unfold floatPowTableOk floatPowOk roundNE ilog2Q bitlen
  rw [log2_eq_log2F]
  decide +kernel

theorem small_f64_pow_radix : SmallSet.Radix.radices.all (floatPowTableOk SmallSet.Radix f64) = true := by
  unfold floatPowTableOk floatPowOk roundNE ilog2Q bitlen
  rw [log2_eq_log2F]
  decide +kernel

end LexVerif.Proof.Tables
