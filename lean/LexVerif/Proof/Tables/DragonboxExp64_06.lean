import LexVerif.Proof.DragonboxExpDefs
/-! `compute_nearest_normal`, binary64: the per-exponent certificate `expOk` for the binary exponents -306 … -179. -/
namespace LexVerif.Proof.DragonboxExp
open LexVerif.Model.Dragonbox

theorem exp64_06_0 : (expList (-306) 64).all (expOk .f64) = true := by decide +kernel
theorem exp64_06_1 : (expList (-242) 64).all (expOk .f64) = true := by decide +kernel

end LexVerif.Proof.DragonboxExp
