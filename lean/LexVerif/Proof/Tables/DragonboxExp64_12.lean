import LexVerif.Proof.DragonboxExpDefs
/-! `compute_nearest_normal`, binary64: the per-exponent certificate `expOk` for the binary exponents 462 … 589. -/
namespace LexVerif.Proof.DragonboxExp
open LexVerif.Model.Dragonbox

theorem exp64_12_0 : (expList (462) 64).all (expOk .f64) = true := by decide +kernel
theorem exp64_12_1 : (expList (526) 64).all (expOk .f64) = true := by decide +kernel

end LexVerif.Proof.DragonboxExp
