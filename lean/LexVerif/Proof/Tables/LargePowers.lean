import LexVerif.Proof.Tables.LargePowersDefs
/-! theorems about the tables of `LargePowersDefs` (definitions are split off so that the executable models never depend on a proof) -/
namespace LexVerif.Proof.Tables
open LexVerif.Spec LexVerif.Spec.PowerTables LexVerif.Proof

/-- All 35 radices. History: until /repo commit 64f91ce (`fix: split_radix(12) must return the odd part
(3, 2)`) this theorem needed the exclusion `r ≠ 12`: `split_radix(12)` was `(6, 1)` and
`get_large_int_power(6)` falls through to the radix-35 entry (`35^60` instead of `6^60`); the exclusion
and its `decide`d witness were dropped when the fix landed and this statement became provable. -/
theorem split_radix_radix : radixAll (splitRadixOk LargeSet.Radix) = true := by
  decide +kernel

/-- bases without an arm in `get_large_int_power` (even bases, 1) fall through to the radix-35 entry,
so `split_radix` must never return one of them: e.g. base 6 selects `35^60` -/
theorem large_power_fallthrough :
    LargeSet.Radix.largeStep 6 = 60 ∧
    limbsVal 64 (LargeSet.Radix.largeLimbs 6).toList = 35 ^ 60 ∧
    limbsVal 64 (LargeSet.Radix.largeLimbs 6).toList ≠ 6 ^ 60 := by
  decide +kernel

/-- every odd base that has a dedicated arm denotes its own power (3, 5, …, 35) -/
theorem large_powers_radix :
    ((List.range 37).filter fun b => 3 ≤ b && b % 2 == 1).all (largeEntryOk LargeSet.Radix) = true := by
  decide +kernel

theorem binary_factor_radix : radixAll (binaryFactorOk LargeSet.Radix) = true := by
  unfold binaryFactorOk clog2
  rw [log2_eq_log2F]
  decide +kernel

theorem bigint_size_radix : bigintSizeOk LargeSet.Radix SmallSet.Radix = true := by decide +kernel

/-! ### feature set `compact+radix` (no large powers: `pow` uses the small powers only) -/

/-- no exclusion here: without the large-power table `split_radix(12) = (6, 1)` is harmless -/
theorem split_radix_compact : radixAll (splitRadixOk LargeSet.CompactRadix) = true := by
  decide +kernel

theorem binary_factor_compact : radixAll (binaryFactorOk LargeSet.CompactRadix) = true := by
  unfold binaryFactorOk clog2
  rw [log2_eq_log2F]
  decide +kernel

theorem bigint_size_compact : bigintSizeOk LargeSet.CompactRadix SmallSet.CompactRadix = true := by decide +kernel

/-! ### feature set `default` (decimal only: bases 2, 5, 10) -/

theorem split_radix_default : [2, 5, 10].all (splitRadixOk LargeSet.Default) = true := by decide +kernel

theorem binary_factor_default : binaryFactorOk LargeSet.Default 10 = true := by
  unfold binaryFactorOk clog2
  rw [log2_eq_log2F]
  decide +kernel

theorem bigint_size_default : bigintSizeOk LargeSet.Default SmallSet.Default = true := by decide +kernel

end LexVerif.Proof.Tables
