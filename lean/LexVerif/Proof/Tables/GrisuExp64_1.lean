import LexVerif.Proof.GrisuExpDefs
/-! `grisu` (compact builds): the per-(exponent, shift) certificate `gOk`, binary64, chunk 1. -/
namespace LexVerif.Proof.GrisuExp
open LexVerif.Model.Dragonbox

theorem g64_1_0 : (normalPairs .f64 (-562) 256).all (fun p => gOk .f64 p.1 p.2) = true := by decide +kernel
theorem g64_1_1 : (normalPairs .f64 (-306) 256).all (fun p => gOk .f64 p.1 p.2) = true := by decide +kernel

end LexVerif.Proof.GrisuExp
