import LexVerif.Proof.DragonboxExpDefs
/-! `compute_nearest_normal`, binary64: the per-exponent certificate `expOk` for the binary exponents -1074 … -947. -/
namespace LexVerif.Proof.DragonboxExp
open LexVerif.Model.Dragonbox

theorem exp64_00_0 : (expList (-1074) 64).all (expOk .f64) = true := by decide +kernel
theorem exp64_00_1 : (expList (-1010) 64).all (expOk .f64) = true := by decide +kernel

end LexVerif.Proof.DragonboxExp
