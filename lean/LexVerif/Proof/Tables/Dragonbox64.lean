import LexVerif.Gen.Dragonbox
import LexVerif.Spec.Tables
import LexVerif.Proof.Tables.Walk
/-! `DRAGONBOX64_POWERS_OF_FIVE`: every row `(hi, lo)` is `⌈10^k⌉` normalised to 128 bits. -/
namespace LexVerif.Proof.Tables.Dragonbox
open LexVerif LexVerif.Spec.Tables LexVerif.Gen.Dragonbox

/-- rows as 128-bit numbers `hi·2^64 + lo` -/
def rows64 : List Nat := List.zipWith (fun hi lo => hi * 2 ^ 64 + lo) pow5_64HiList pow5_64LoList

theorem pow5_64_halves :
    (pow5_64HiList.all fun v => decide (v < 2 ^ 64)) = true ∧ (pow5_64LoList.all fun v => decide (v < 2 ^ 64)) = true := by
  decide +kernel

def row64Ok (i v : Nat) : Bool := v == pow10Cache 128 (smallestF64Pow5 + i)

/-- declarative form: the row is `⌈10^k / 2^e⌉`, `e = ⌊log₂ 10^k⌋ - 127`, a 128-bit number -/
def row64Ceil (i v : Nat) : Bool := decide (IsCacheRow 128 (smallestF64Pow5 + i) v)

theorem pow5_64_walk : allIdx row64Ok 0 rows64 = true := by decide +kernel
theorem pow5_64_ceil_walk : allIdx row64Ceil 0 rows64 = true := by decide +kernel
theorem pow5_64_size : pow5_64Hi.size = n64PowersOfFive ∧ pow5_64Lo.size = n64PowersOfFive
    ∧ (n64PowersOfFive : Int) = largestF64Pow5 - smallestF64Pow5 + 1 := by decide +kernel

end LexVerif.Proof.Tables.Dragonbox
