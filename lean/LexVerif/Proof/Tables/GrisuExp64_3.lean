import LexVerif.Proof.GrisuExpDefs
/-! `grisu` (compact builds): the per-(exponent, shift) certificate `gOk`, binary64, chunk 3. -/
namespace LexVerif.Proof.GrisuExp
open LexVerif.Model.Dragonbox

theorem g64_3_0 : (normalPairs .f64 (462) 256).all (fun p => gOk .f64 p.1 p.2) = true := by decide +kernel
theorem g64_3_1 : (normalPairs .f64 (718) 254).all (fun p => gOk .f64 p.1 p.2) = true := by decide +kernel
theorem g64_sub : (subnormalPairs .f64).all (fun p => gOk .f64 p.1 p.2) = true := by decide +kernel

end LexVerif.Proof.GrisuExp
