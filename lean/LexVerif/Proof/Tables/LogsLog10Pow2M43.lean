import LexVerif.Gen.Logs
import LexVerif.Spec.Tables
import LexVerif.Proof.Tables.Walk
/-! `floor_log10_pow2_minus_log10_4_over_3` is the exact floor logarithm on its whole documented domain. -/
namespace LexVerif.Proof.Tables.Logs
open LexVerif LexVerif.Spec.Tables LexVerif.Gen.Logs

theorem log10Pow2MinusLog10_4Over3_walk :
    allIdx (vecOk IsFloorLog10Pow2MinusLog10_4Over3 floorLog10Pow2MinusLog10_4Over3Lo floorLog10Pow2MinusLog10_4Over3TabBias) 0 floorLog10Pow2MinusLog10_4Over3TabBiased.toList = true := by
  decide +kernel

theorem log10Pow2MinusLog10_4Over3_size : floorLog10Pow2MinusLog10_4Over3TabBiased.size = (floorLog10Pow2MinusLog10_4Over3Hi - floorLog10Pow2MinusLog10_4Over3Lo + 1).toNat := by
  decide +kernel

theorem log10Pow2MinusLog10_4Over3_exact (q : Int) (h1 : floorLog10Pow2MinusLog10_4Over3Lo ≤ q) (h2 : q ≤ floorLog10Pow2MinusLog10_4Over3Hi) :
    IsFloorLog10Pow2MinusLog10_4Over3 q (floorLog10Pow2MinusLog10_4Over3 q) := by
  have := vec_spec log10Pow2MinusLog10_4Over3_size log10Pow2MinusLog10_4Over3_walk q h1 h2
  simpa [floorLog10Pow2MinusLog10_4Over3, floorLog10Pow2MinusLog10_4Over3TabAt, h1, h2] using this

end LexVerif.Proof.Tables.Logs
