import LexVerif.Proof.DragonboxExpDefs
/-! `compute_nearest_normal`, binary32: the per-exponent certificate `expOk` holds for every binary exponent -149 … 104. -/
namespace LexVerif.Proof.DragonboxExp
open LexVerif.Model.Dragonbox

theorem exp32_all : (expList (-149) 254).all (expOk .f32) = true := by decide +kernel

end LexVerif.Proof.DragonboxExp
