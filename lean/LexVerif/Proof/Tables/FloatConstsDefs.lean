import LexVerif.Proof.Tables.Util
import LexVerif.Gen.FloatConsts
import LexVerif.Proof.Tables.BellDefs
/-!
# Float layout / Eisel–Lemire constants and mask functions against `Spec.Fmt`; truncation witness
-/
namespace LexVerif.Proof.Tables
open LexVerif.Spec LexVerif.Spec.PowerTables LexVerif.Gen

structure FloatConstSet where
  bits : Int
  signMask : Int
  exponentMask : Int
  hiddenBitMask : Int
  mantissaMask : Int
  carryMask : Int
  infinityBits : Int
  negativeInfinityBits : Int
  exponentSize : Int
  mantissaSize : Int
  exponentBias : Int
  denormalExponent : Int
  maxExponent : Int
  maxMantissaFastPath : Int
  infinitePower : Int
  minExponentRoundToEven : Int
  maxExponentRoundToEven : Int
  minimumExponent : Int
  smallestPowerOfTen : Int
  largestPowerOfTen : Int
  minExponentFastPath10 : Int
  maxExponentFastPath10 : Int
  maxExponentDisguisedFastPath10 : Int

namespace FloatConstSet
def F32 : FloatConstSet where
  bits := Gen.FloatConsts.F32.bits
  signMask := Gen.FloatConsts.F32.signMask
  exponentMask := Gen.FloatConsts.F32.exponentMask
  hiddenBitMask := Gen.FloatConsts.F32.hiddenBitMask
  mantissaMask := Gen.FloatConsts.F32.mantissaMask
  carryMask := Gen.FloatConsts.F32.carryMask
  infinityBits := Gen.FloatConsts.F32.infinityBits
  negativeInfinityBits := Gen.FloatConsts.F32.negativeInfinityBits
  exponentSize := Gen.FloatConsts.F32.exponentSize
  mantissaSize := Gen.FloatConsts.F32.mantissaSize
  exponentBias := Gen.FloatConsts.F32.exponentBias
  denormalExponent := Gen.FloatConsts.F32.denormalExponent
  maxExponent := Gen.FloatConsts.F32.maxExponent
  maxMantissaFastPath := Gen.FloatConsts.F32.maxMantissaFastPath
  infinitePower := Gen.FloatConsts.F32.infinitePower
  minExponentRoundToEven := Gen.FloatConsts.F32.minExponentRoundToEven
  maxExponentRoundToEven := Gen.FloatConsts.F32.maxExponentRoundToEven
  minimumExponent := Gen.FloatConsts.F32.minimumExponent
  smallestPowerOfTen := Gen.FloatConsts.F32.smallestPowerOfTen
  largestPowerOfTen := Gen.FloatConsts.F32.largestPowerOfTen
  minExponentFastPath10 := Gen.FloatConsts.F32.minExponentFastPath10
  maxExponentFastPath10 := Gen.FloatConsts.F32.maxExponentFastPath10
  maxExponentDisguisedFastPath10 := Gen.FloatConsts.F32.maxExponentDisguisedFastPath10

def F64 : FloatConstSet where
  bits := Gen.FloatConsts.F64.bits
  signMask := Gen.FloatConsts.F64.signMask
  exponentMask := Gen.FloatConsts.F64.exponentMask
  hiddenBitMask := Gen.FloatConsts.F64.hiddenBitMask
  mantissaMask := Gen.FloatConsts.F64.mantissaMask
  carryMask := Gen.FloatConsts.F64.carryMask
  infinityBits := Gen.FloatConsts.F64.infinityBits
  negativeInfinityBits := Gen.FloatConsts.F64.negativeInfinityBits
  exponentSize := Gen.FloatConsts.F64.exponentSize
  mantissaSize := Gen.FloatConsts.F64.mantissaSize
  exponentBias := Gen.FloatConsts.F64.exponentBias
  denormalExponent := Gen.FloatConsts.F64.denormalExponent
  maxExponent := Gen.FloatConsts.F64.maxExponent
  maxMantissaFastPath := Gen.FloatConsts.F64.maxMantissaFastPath
  infinitePower := Gen.FloatConsts.F64.infinitePower
  minExponentRoundToEven := Gen.FloatConsts.F64.minExponentRoundToEven
  maxExponentRoundToEven := Gen.FloatConsts.F64.maxExponentRoundToEven
  minimumExponent := Gen.FloatConsts.F64.minimumExponent
  smallestPowerOfTen := Gen.FloatConsts.F64.smallestPowerOfTen
  largestPowerOfTen := Gen.FloatConsts.F64.largestPowerOfTen
  minExponentFastPath10 := Gen.FloatConsts.F64.minExponentFastPath10
  maxExponentFastPath10 := Gen.FloatConsts.F64.maxExponentFastPath10
  maxExponentDisguisedFastPath10 := Gen.FloatConsts.F64.maxExponentDisguisedFastPath10

end FloatConstSet

/-- layout constants of `lexical_util::num::Float` and `RawFloat` in terms of the IEEE format
(`p` = precision with hidden bit, `ebits` = exponent width). Note lexical's `EXPONENT_BIAS` is the IEEE
bias **plus** the mantissa size, `MAX_EXPONENT` is relative to it. -/
def layoutOk (f : Fmt) (C : FloatConstSet) : Bool :=
  C.bits == f.totalBits && C.signMask == f.signBit && C.exponentMask == f.infBits &&
  C.hiddenBitMask == 2 ^ (f.p - 1) && C.mantissaMask == 2 ^ (f.p - 1) - 1 && C.carryMask == 2 ^ f.p &&
  C.infinityBits == f.infBits && C.negativeInfinityBits == f.infBits + f.signBit &&
  C.exponentSize == f.ebits && C.mantissaSize == f.p - 1 &&
  C.exponentBias == f.bias + (f.p - 1) && C.denormalExponent == f.eminLsb &&
  C.maxExponent == (f.maxExpField : Int) - C.exponentBias &&
  C.maxMantissaFastPath == 2 ^ f.p && C.infinitePower == f.maxExpField &&
  C.minimumExponent == -(f.bias : Int)

/-- Eisel–Lemire constants. Round-to-even window (float.rs comment): `q ≥ 0`: `5^q ≤ 2^(p+1)`;
`q < 0`: `5^(−q) < 2^(64−p)`; both bounds are the extreme ones.
`SMALLEST_POWER_OF_TEN`: every `w < 2^64` has `w·10^q < 2^(eminLsb−1)` (rounds to zero) for
`q < smallest` (sound; it is the least such bound for binary64 but not for binary32, where `−64` would
do — see `smallest_power_of_ten_tightness`); `LARGEST_POWER_OF_TEN`: `10^q ≥ 2^(emax+1)`
(infinite for every `w ≥ 1`) for `q > largest`, and `largest` is the greatest such. -/
def lemireConstsOk (f : Fmt) (C : FloatConstSet) : Bool :=
  let qmax := C.maxExponentRoundToEven.toNat
  let qmin := (-C.minExponentRoundToEven).toNat
  let s := (-C.smallestPowerOfTen).toNat
  let l := C.largestPowerOfTen.toNat
  let half := (1 - f.eminLsb).toNat        -- 2^(-half) = half the least subnormal
  C.maxExponentRoundToEven ≥ 0 && C.minExponentRoundToEven ≤ 0 &&
  5 ^ qmax ≤ 2 ^ (f.p + 1) && 2 ^ (f.p + 1) < 5 ^ (qmax + 1) &&
  5 ^ qmin < 2 ^ (64 - f.p) && 2 ^ (64 - f.p) ≤ 5 ^ (qmin + 1) &&
  C.smallestPowerOfTen < 0 && C.largestPowerOfTen > 0 &&
  (2 ^ 64 - 1) * 2 ^ half < 10 ^ (s + 1) &&
  2 ^ (f.bias + 1) ≤ 10 ^ (l + 1) && 10 ^ l < 2 ^ (f.bias + 1)

/-- decimal fast-path constants agree with the limit tables -/
def fastPathConstsOk (f : Fmt) (C : FloatConstSet) : Bool :=
  let h := C.maxExponentFastPath10.toNat
  C.minExponentFastPath10 == -C.maxExponentFastPath10 && C.maxExponentFastPath10 ≥ 0 &&
  5 ^ h ≤ 2 ^ f.p && 2 ^ f.p < 5 ^ (h + 1) &&
  (let m := (C.maxExponentDisguisedFastPath10 - C.maxExponentFastPath10).toNat
   10 ^ m ≤ 2 ^ f.p && 2 ^ f.p < 10 ^ (m + 1))

end LexVerif.Proof.Tables
