import LexVerif.Gen.Sizes
import LexVerif.Spec.Tables
import LexVerif.Proof.Tables.Walk
/-!
`FORMATTED_SIZE` / `FORMATTED_SIZE_DECIMAL` / `BUFFER_SIZE` against the longest numeral of each integer type,
for the feature sets `default`, `radix`, `compact+radix`.
-/
namespace LexVerif.Proof.Tables.Sizes
open LexVerif LexVerif.Spec.Tables LexVerif.Gen.Sizes

/-- the dumped limits are the two's-complement ones -/
def tyOk (t : Ty) : Bool :=
  if t.float then true
  else if t.signed then t.minMag == 2 ^ (t.bits - 1) && t.max == 2 ^ (t.bits - 1) - 1
  else t.minMag == 0 && t.max == 2 ^ t.bits - 1

/-- largest magnitude the type can hold -/
def maxMag (t : Ty) : Nat := max t.minMag t.max

/-- decimal: room for the longest digit string, plus the `-` for signed types -/
def decimalOk (t : Ty) (sz : Nat × Nat) : Bool :=
  t.float || (if t.signed then 1 + numDigits 10 (maxMag t) ≤ sz.2 else numDigits 10 (maxMag t) ≤ sz.2)

/-- decimal, *with* room for a sign character on every type (`+` is written for unsigned types when the format has
`required_mantissa_sign`) -/
def decimalSignOk (t : Ty) (sz : Nat × Nat) : Bool := t.float || 1 + numDigits 10 (maxMag t) ≤ sz.2

/-- any radix 2..36: room for the longest digit string plus a sign character -/
def radixOk (t : Ty) (sz : Nat × Nat) : Bool :=
  t.float || (List.range 35).all fun i => 1 + numDigits (i + 2) (maxMag t) ≤ sz.1

def all2 (p : Ty → Nat × Nat → Bool) (sizes : List (Nat × Nat)) : Bool :=
  (List.zip types sizes).all fun x => p x.1 x.2

theorem types_ok : (types.all tyOk) = true ∧ types.length = 14
    ∧ types.map (·.name) = ["i8", "i16", "i32", "i64", "i128", "isize", "u8", "u16", "u32", "u64", "u128", "usize", "f32", "f64"] := by
  decide +kernel

theorem lengths : sizesDefault.length = 14 ∧ sizesRadix.length = 14 ∧ sizesCompactRadix.length = 14 := by decide +kernel

/-- `FORMATTED_SIZE_DECIMAL` holds every decimal numeral of the type including `-` (all feature sets) -/
theorem decimal_ok : all2 decimalOk sizesDefault = true ∧ all2 decimalOk sizesRadix = true
    ∧ all2 decimalOk sizesCompactRadix = true := by decide +kernel

/-- with `power-of-two`/`radix`, `FORMATTED_SIZE` holds every numeral in every radix 2..36 with a sign character -/
theorem radix_ok : all2 radixOk sizesRadix = true ∧ all2 radixOk sizesCompactRadix = true := by decide +kernel

/-- without `power-of-two`, `FORMATTED_SIZE = FORMATTED_SIZE_DECIMAL` -/
theorem default_same : (sizesDefault.all fun s => s.1 == s.2) = true := by decide +kernel

/-- FAILING ROWS: for the *signed* types `FORMATTED_SIZE_DECIMAL ≥ 1 + digits` holds, for every *unsigned* type
it does not: the constant equals the digit count of `MAX`, leaving no room for the `+` that `unsigned()` in
lexical-write-integer/src/api.rs writes when `format` is on and the format has `required_mantissa_sign`. -/
theorem decimal_sign_signed :
    ((List.zip types sizesRadix).all fun x => !x.1.signed || decimalSignOk x.1 x.2) = true := by decide +kernel

theorem decimal_sign_unsigned_fails :
    ((List.zip types sizesRadix).all fun x => x.1.signed || !decimalSignOk x.1 x.2) = true
    ∧ ((List.zip types sizesDefault).all fun x => x.1.signed || !decimalSignOk x.1 x.2) = true := by decide +kernel

/-- floats: both sizes are the same constant for f32/f64 and `BUFFER_SIZE` is f64's `FORMATTED_SIZE` -/
theorem buffer_size :
    bufferSizeDefault = 64 ∧ bufferSizeRadix = 256 ∧ bufferSizeCompactRadix = 256
    ∧ coreBufferSizeDefault = bufferSizeDefault ∧ coreBufferSizeRadix = bufferSizeRadix
    ∧ coreBufferSizeCompactRadix = bufferSizeCompactRadix
    ∧ (sizesDefault.drop 12) = [(64, 64), (64, 64)] ∧ (sizesRadix.drop 12) = [(256, 64), (256, 64)]
    ∧ (sizesCompactRadix.drop 12) = [(256, 64), (256, 64)] := by decide +kernel

end LexVerif.Proof.Tables.Sizes
