import LexVerif.Gen.IntTables
import LexVerif.Spec.Tables
import LexVerif.Proof.Tables.IntPairsA
/-! Digit-pair tables `DIGIT_TO_BASE<r>_SQUARED`, r = 29…32: byte `j` is the character of
`(j/2) / r` (even `j`) or `(j/2) % r` (odd `j`), and the table has `2·r²` bytes. -/
namespace LexVerif.Proof.Tables.IntPairs
open LexVerif LexVerif.Spec.Tables LexVerif.Gen.IntTables

theorem base29_walk : allIdx (pairOk 29) 0 base29.toList = true ∧ base29.size = 2 * 29 * 29 := by decide +kernel
theorem base30_walk : allIdx (pairOk 30) 0 base30.toList = true ∧ base30.size = 2 * 30 * 30 := by decide +kernel
theorem base31_walk : allIdx (pairOk 31) 0 base31.toList = true ∧ base31.size = 2 * 31 * 31 := by decide +kernel
theorem base32_walk : allIdx (pairOk 32) 0 base32.toList = true ∧ base32.size = 2 * 32 * 32 := by decide +kernel

end LexVerif.Proof.Tables.IntPairs
