import LexVerif.Gen.Logs
import LexVerif.Spec.Tables
import LexVerif.Proof.Tables.Walk
/-! `floor_log5_pow2` is the exact floor logarithm on its whole documented domain. -/
namespace LexVerif.Proof.Tables.Logs
open LexVerif LexVerif.Spec.Tables LexVerif.Gen.Logs

theorem log5Pow2_walk :
    allIdx (vecOk IsFloorLog5Pow2 floorLog5Pow2Lo floorLog5Pow2TabBias) 0 floorLog5Pow2TabBiased.toList = true := by
  decide +kernel

theorem log5Pow2_size : floorLog5Pow2TabBiased.size = (floorLog5Pow2Hi - floorLog5Pow2Lo + 1).toNat := by
  decide +kernel

theorem log5Pow2_exact (q : Int) (h1 : floorLog5Pow2Lo ≤ q) (h2 : q ≤ floorLog5Pow2Hi) :
    IsFloorLog5Pow2 q (floorLog5Pow2 q) := by
  have := vec_spec log5Pow2_size log5Pow2_walk q h1 h2
  simpa [floorLog5Pow2, floorLog5Pow2TabAt, h1, h2] using this

end LexVerif.Proof.Tables.Logs
