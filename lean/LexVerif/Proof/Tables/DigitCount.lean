import LexVerif.Gen.IntTables
import LexVerif.Spec.Tables
import LexVerif.Proof.Tables.Walk
/-!
Digit counting: `fast_log2`, `fast_log10` on every bit length of every unsigned type; the `fast_digit_count`
table (S) row by row against Lemire's closed form, and against the compiled function's values (R); the
power-of-ten tables of `fallback_digit_count`.
-/
namespace LexVerif.Proof.Tables.DigitCount
open LexVerif LexVerif.Spec LexVerif.Spec.Tables LexVerif.Gen.IntTables

/-- the probe arguments are: 0, then for every bit length `j`: `2^j` and `2^(j+1) - 1` -/
def argOk (i x : Nat) : Bool :=
  if i = 0 then x == 0 else if (i - 1) % 2 = 0 then x == 2 ^ ((i - 1) / 2) else x == 2 ^ ((i - 1) / 2 + 1) - 1

/-- `fast_log2(x) = ⌊log₂ (x|1)⌋`; `fast_log10(x) = (fast_log2(x)·1233) >> 12 = ⌊log₁₀ 2^fast_log2(x)⌋` -/
def logOk (_ : Nat) (t : Nat × Nat × Nat) : Bool :=
  t.2.1 == (t.1 ||| 1).log2 && t.2.2 == (t.2.1 * 1233) >>> 12 && decide (IsFloorLog 10 (2 ^ t.2.1) 1 (t.2.2 : Int))

theorem fastLogU8_walk :
    allIdx argOk 0 fastLogU8ArgList = true ∧ fastLogU8ArgList.length = 1 + 2 * 8
    ∧ allIdx logOk 0 (List.zip fastLogU8ArgList (List.zip fastLogU8Log2List fastLogU8Log10List)) = true
    ∧ fastLogU8Log2List.length = 1 + 2 * 8 ∧ fastLogU8Log10List.length = 1 + 2 * 8 := by decide +kernel

theorem fastLogU16_walk :
    allIdx argOk 0 fastLogU16ArgList = true ∧ fastLogU16ArgList.length = 1 + 2 * 16
    ∧ allIdx logOk 0 (List.zip fastLogU16ArgList (List.zip fastLogU16Log2List fastLogU16Log10List)) = true
    ∧ fastLogU16Log2List.length = 1 + 2 * 16 ∧ fastLogU16Log10List.length = 1 + 2 * 16 := by decide +kernel

theorem fastLogU32_walk :
    allIdx argOk 0 fastLogU32ArgList = true ∧ fastLogU32ArgList.length = 1 + 2 * 32
    ∧ allIdx logOk 0 (List.zip fastLogU32ArgList (List.zip fastLogU32Log2List fastLogU32Log10List)) = true
    ∧ fastLogU32Log2List.length = 1 + 2 * 32 ∧ fastLogU32Log10List.length = 1 + 2 * 32 := by decide +kernel

theorem fastLogU64_walk :
    allIdx argOk 0 fastLogU64ArgList = true ∧ fastLogU64ArgList.length = 1 + 2 * 64
    ∧ allIdx logOk 0 (List.zip fastLogU64ArgList (List.zip fastLogU64Log2List fastLogU64Log10List)) = true
    ∧ fastLogU64Log2List.length = 1 + 2 * 64 ∧ fastLogU64Log10List.length = 1 + 2 * 64 := by decide +kernel

theorem fastLogU128_walk :
    allIdx argOk 0 fastLogU128ArgList = true ∧ fastLogU128ArgList.length = 1 + 2 * 128
    ∧ allIdx logOk 0 (List.zip fastLogU128ArgList (List.zip fastLogU128Log2List fastLogU128Log10List)) = true
    ∧ fastLogU128Log2List.length = 1 + 2 * 128 ∧ fastLogU128Log10List.length = 1 + 2 * 128 := by decide +kernel

theorem fastLogUsize_walk :
    allIdx argOk 0 fastLogUsizeArgList = true ∧ fastLogUsizeArgList.length = 1 + 2 * 64
    ∧ allIdx logOk 0 (List.zip fastLogUsizeArgList (List.zip fastLogUsizeLog2List fastLogUsizeLog10List)) = true
    ∧ fastLogUsizeLog2List.length = 1 + 2 * 64 ∧ fastLogUsizeLog10List.length = 1 + 2 * 64 := by decide +kernel

/-- S-extracted `TABLE` of `fast_digit_count` = Lemire's closed form, all 32 rows -/
theorem fastDigitCountTable_walk :
    allIdx (fun j v => v == fastDigitCountRow j) 0 fastDigitCountTable.toList = true ∧ fastDigitCountTable.size = 32 := by
  decide +kernel

/-- the row for bit length `j` counts digits correctly at both ends of `[2^j, 2^(j+1))` and on both sides of every
power of ten inside it (the function is monotone in `x`, so these are the only places it can be wrong) -/
def rowSemOk (j t : Nat) : Bool :=
  let lo := if j = 0 then 0 else 2 ^ j
  let hi := 2 ^ (j + 1) - 1
  let d := numDigits 10 lo
  (lo + t) >>> 32 == d && (hi + t) >>> 32 == numDigits 10 hi && numDigits 10 hi ≤ d + 1 &&
  (if numDigits 10 hi == d then true else (10 ^ d - 1 + t) >>> 32 == d && (10 ^ d + t) >>> 32 == d + 1)

theorem fastDigitCountTable_sem : allIdx rowSemOk 0 fastDigitCountTable.toList = true := by decide +kernel

/-- R: the compiled `fast_digit_count(x)` is the number of decimal digits on every probe, and agrees with
`(x + TABLE[⌊log₂(x|1)⌋]) >> 32` computed from the S-extracted table -/
def fdcOk (_ : Nat) (t : Nat × Nat) : Bool :=
  t.2 == numDigits 10 t.1 && t.2 == (t.1 + fastDigitCountTableList.getD (t.1 ||| 1).log2 0) >>> 32 && decide (t.1 < 2 ^ 32)

theorem fastDigitCount_samples :
    allIdx fdcOk 0 (List.zip fastDigitCountArgList fastDigitCountValList) = true
    ∧ fastDigitCountArgList.length = fastDigitCountValList.length ∧ 64 ≤ fastDigitCountArgList.length := by decide +kernel

/-- `fallback_digit_count` tables: row `i` is `10^(i+1)`; 19 rows for u64 (all powers of ten below `2^64`),
38 rows for u128 (all below `2^128`) -/
theorem decimalCountTables :
    allIdx (fun i v => v == 10 ^ (i + 1)) 0 decimalCountTableU64.toList = true ∧ decimalCountTableU64.size = 19
    ∧ 10 ^ 19 < 2 ^ 64 ∧ 2 ^ 64 ≤ 10 ^ 20
    ∧ allIdx (fun i v => v == 10 ^ (i + 1)) 0 decimalCountTableU128.toList = true ∧ decimalCountTableU128.size = 38
    ∧ 10 ^ 38 < 2 ^ 128 ∧ 2 ^ 128 ≤ 10 ^ 39 := by decide +kernel

end LexVerif.Proof.Tables.DigitCount
