import LexVerif.Proof.DragonboxExpDefs
/-! `compute_nearest_normal`, binary64: the per-exponent certificate `expOk` for the binary exponents -434 … -307. -/
namespace LexVerif.Proof.DragonboxExp
open LexVerif.Model.Dragonbox

theorem exp64_05_0 : (expList (-434) 64).all (expOk .f64) = true := by decide +kernel
theorem exp64_05_1 : (expList (-370) 64).all (expOk .f64) = true := by decide +kernel

end LexVerif.Proof.DragonboxExp
