import LexVerif.Gen.Logs
import LexVerif.Spec.Tables
import LexVerif.Proof.Tables.Walk
/-! `floor_log2_pow10` is the exact floor logarithm on its whole documented domain. -/
namespace LexVerif.Proof.Tables.Logs
open LexVerif LexVerif.Spec.Tables LexVerif.Gen.Logs

theorem log2Pow10_walk :
    allIdx (vecOk IsFloorLog2Pow10 floorLog2Pow10Lo floorLog2Pow10TabBias) 0 floorLog2Pow10TabBiased.toList = true := by
  decide +kernel

theorem log2Pow10_size : floorLog2Pow10TabBiased.size = (floorLog2Pow10Hi - floorLog2Pow10Lo + 1).toNat := by
  decide +kernel

theorem log2Pow10_exact (q : Int) (h1 : floorLog2Pow10Lo ≤ q) (h2 : q ≤ floorLog2Pow10Hi) :
    IsFloorLog2Pow10 q (floorLog2Pow10 q) := by
  have := vec_spec log2Pow10_size log2Pow10_walk q h1 h2
  simpa [floorLog2Pow10, floorLog2Pow10TabAt, h1, h2] using this

end LexVerif.Proof.Tables.Logs
