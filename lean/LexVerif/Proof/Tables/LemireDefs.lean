import LexVerif.Proof.Tables.Util
import LexVerif.Gen.Lemire
/-! Row predicates of the Eisel–Lemire table theorems (shared by the modules that check the halves). -/
namespace LexVerif.Proof.Tables
open LexVerif.Spec.PowerTables LexVerif.Gen

/-- the 128-bit value of a stored row: `.0` holds the **high** 64 bits, `.1` the low 64 bits
(the Rust destructures it as `let (lo5, hi5) = POWER_OF_FIVE_128[index]`: its `lo5` is the high word) -/
def lemireRowVal (r : Nat × Nat) : Nat := r.1 * 2 ^ 64 + r.2

/-- row `i` is the closed form for `5^(smallest + i)`, both words in range -/
def lemireRowOk (i : Nat) (r : Nat × Nat) : Bool :=
  r.1 < 2 ^ 64 && r.2 < 2 ^ 64 && lemireRowVal r == lemireRow (Lemire.smallestPowerOfFive + i)

/-- `power(smallest + i) = ⌊(smallest + i)·log2 10⌋ + 63` -/
def lemirePowerOk (i : Nat) (v : Int) : Bool :=
  v == floorLog2Pow 10 (Lemire.smallestPowerOfFive + i) + 63

/-- the table split into the negative powers and the rest (two modules, checked in parallel) -/
def lemireNegRows : Array (Nat × Nat) := (Lemire.powerOfFive128.toList.take 342).toArray
def lemirePosRows : Array (Nat × Nat) := (Lemire.powerOfFive128.toList.drop 342).toArray

end LexVerif.Proof.Tables
