import LexVerif.Proof.GrisuExpDefs
/-! `grisu` (compact builds): the per-(exponent, shift) certificate `gOk`, binary32: all 254 binary exponents of normal floats and the 23 subnormal shifts. -/
namespace LexVerif.Proof.GrisuExp
open LexVerif.Model.Dragonbox

theorem g32_normal : (normalPairs .f32 (-149) 254).all (fun p => gOk .f32 p.1 p.2) = true := by decide +kernel
theorem g32_sub : (subnormalPairs .f32).all (fun p => gOk .f32 p.1 p.2) = true := by decide +kernel

end LexVerif.Proof.GrisuExp
