import LexVerif.Proof.Tables.LemireDefs
/-! Eisel–Lemire table, rows of the negative powers (`5^-342 … 5^-1`). -/
namespace LexVerif.Proof.Tables
open LexVerif.Gen LexVerif.Spec LexVerif.Spec.PowerTables LexVerif.Proof

theorem lemire_rows_neg : tableAll lemireRowOk lemireNegRows = true := by
  unfold lemireRowOk lemireRow normTrunc clog2 bitlen
  rw [log2_eq_log2F]
  decide +kernel

end LexVerif.Proof.Tables
