import LexVerif.Proof.Tables.Util
import LexVerif.Gen.SmallPowers
/-!
# Row predicates for the small power tables, limits and step functions

`SmallSet` bundles what `Gen/SmallPowers.lean` holds for one feature set, so that each closed-form
predicate is written once and instantiated for `radix`, `compact+radix` and `default`.
-/
namespace LexVerif.Proof.Tables
open LexVerif.Spec LexVerif.Spec.PowerTables

structure SmallSet where
  tabled : Bool
  radices : List Nat
  intRadices : List Nat
  f32ExponentLimit : Nat → Int × Int
  f64ExponentLimit : Nat → Int × Int
  f32MantissaLimit : Nat → Int
  f64MantissaLimit : Nat → Int
  f32MaxDigits : Nat → Option Nat
  f64MaxDigits : Nat → Option Nat
  u32PowerLimit : Nat → Nat
  u64PowerLimit : Nat → Nat
  f32MinExponentFastPath : Nat → Int
  f32MaxExponentFastPath : Nat → Int
  f32MaxExponentDisguisedFastPath : Nat → Int
  f64MinExponentFastPath : Nat → Int
  f64MaxExponentFastPath : Nat → Int
  f64MaxExponentDisguisedFastPath : Nat → Int
  u64Step : Nat → Nat
  stepTab : List (Nat × Nat × Nat × Nat × Nat)
  intPow : Nat → Array Nat
  f32Pow : Nat → Array Nat
  f64Pow : Nat → Array Nat

namespace SmallSet
def Radix : SmallSet where
  tabled := Gen.SmallPowers.Radix.tabled
  radices := Gen.SmallPowers.Radix.radices
  intRadices := Gen.SmallPowers.Radix.intRadices
  f32ExponentLimit := Gen.SmallPowers.Radix.f32ExponentLimit
  f64ExponentLimit := Gen.SmallPowers.Radix.f64ExponentLimit
  f32MantissaLimit := Gen.SmallPowers.Radix.f32MantissaLimit
  f64MantissaLimit := Gen.SmallPowers.Radix.f64MantissaLimit
  f32MaxDigits := Gen.SmallPowers.Radix.f32MaxDigits
  f64MaxDigits := Gen.SmallPowers.Radix.f64MaxDigits
  u32PowerLimit := Gen.SmallPowers.Radix.u32PowerLimit
  u64PowerLimit := Gen.SmallPowers.Radix.u64PowerLimit
  f32MinExponentFastPath := Gen.SmallPowers.Radix.f32MinExponentFastPath
  f32MaxExponentFastPath := Gen.SmallPowers.Radix.f32MaxExponentFastPath
  f32MaxExponentDisguisedFastPath := Gen.SmallPowers.Radix.f32MaxExponentDisguisedFastPath
  f64MinExponentFastPath := Gen.SmallPowers.Radix.f64MinExponentFastPath
  f64MaxExponentFastPath := Gen.SmallPowers.Radix.f64MaxExponentFastPath
  f64MaxExponentDisguisedFastPath := Gen.SmallPowers.Radix.f64MaxExponentDisguisedFastPath
  u64Step := Gen.SmallPowers.Radix.u64Step
  stepTab := Gen.SmallPowers.Radix.stepTab
  intPow := Gen.SmallPowers.Radix.intPow
  f32Pow := Gen.SmallPowers.Radix.f32Pow
  f64Pow := Gen.SmallPowers.Radix.f64Pow

def CompactRadix : SmallSet where
  tabled := Gen.SmallPowers.CompactRadix.tabled
  radices := Gen.SmallPowers.CompactRadix.radices
  intRadices := Gen.SmallPowers.CompactRadix.intRadices
  f32ExponentLimit := Gen.SmallPowers.CompactRadix.f32ExponentLimit
  f64ExponentLimit := Gen.SmallPowers.CompactRadix.f64ExponentLimit
  f32MantissaLimit := Gen.SmallPowers.CompactRadix.f32MantissaLimit
  f64MantissaLimit := Gen.SmallPowers.CompactRadix.f64MantissaLimit
  f32MaxDigits := Gen.SmallPowers.CompactRadix.f32MaxDigits
  f64MaxDigits := Gen.SmallPowers.CompactRadix.f64MaxDigits
  u32PowerLimit := Gen.SmallPowers.CompactRadix.u32PowerLimit
  u64PowerLimit := Gen.SmallPowers.CompactRadix.u64PowerLimit
  f32MinExponentFastPath := Gen.SmallPowers.CompactRadix.f32MinExponentFastPath
  f32MaxExponentFastPath := Gen.SmallPowers.CompactRadix.f32MaxExponentFastPath
  f32MaxExponentDisguisedFastPath := Gen.SmallPowers.CompactRadix.f32MaxExponentDisguisedFastPath
  f64MinExponentFastPath := Gen.SmallPowers.CompactRadix.f64MinExponentFastPath
  f64MaxExponentFastPath := Gen.SmallPowers.CompactRadix.f64MaxExponentFastPath
  f64MaxExponentDisguisedFastPath := Gen.SmallPowers.CompactRadix.f64MaxExponentDisguisedFastPath
  u64Step := Gen.SmallPowers.CompactRadix.u64Step
  stepTab := Gen.SmallPowers.CompactRadix.stepTab
  intPow := Gen.SmallPowers.CompactRadix.intPow
  f32Pow := Gen.SmallPowers.CompactRadix.f32Pow
  f64Pow := Gen.SmallPowers.CompactRadix.f64Pow

def Default : SmallSet where
  tabled := Gen.SmallPowers.Default.tabled
  radices := Gen.SmallPowers.Default.radices
  intRadices := Gen.SmallPowers.Default.intRadices
  f32ExponentLimit := Gen.SmallPowers.Default.f32ExponentLimit
  f64ExponentLimit := Gen.SmallPowers.Default.f64ExponentLimit
  f32MantissaLimit := Gen.SmallPowers.Default.f32MantissaLimit
  f64MantissaLimit := Gen.SmallPowers.Default.f64MantissaLimit
  f32MaxDigits := Gen.SmallPowers.Default.f32MaxDigits
  f64MaxDigits := Gen.SmallPowers.Default.f64MaxDigits
  u32PowerLimit := Gen.SmallPowers.Default.u32PowerLimit
  u64PowerLimit := Gen.SmallPowers.Default.u64PowerLimit
  f32MinExponentFastPath := Gen.SmallPowers.Default.f32MinExponentFastPath
  f32MaxExponentFastPath := Gen.SmallPowers.Default.f32MaxExponentFastPath
  f32MaxExponentDisguisedFastPath := Gen.SmallPowers.Default.f32MaxExponentDisguisedFastPath
  f64MinExponentFastPath := Gen.SmallPowers.Default.f64MinExponentFastPath
  f64MaxExponentFastPath := Gen.SmallPowers.Default.f64MaxExponentFastPath
  f64MaxExponentDisguisedFastPath := Gen.SmallPowers.Default.f64MaxExponentDisguisedFastPath
  u64Step := Gen.SmallPowers.Default.u64Step
  stepTab := Gen.SmallPowers.Default.stepTab
  intPow := Gen.SmallPowers.Default.intPow
  f32Pow := Gen.SmallPowers.Default.f32Pow
  f64Pow := Gen.SmallPowers.Default.f64Pow

end SmallSet

/-- per-format view of a `SmallSet` -/
def SmallSet.exponentLimit (S : SmallSet) (f : Fmt) : Nat → Int × Int :=
  if f.p = 24 then S.f32ExponentLimit else S.f64ExponentLimit
def SmallSet.mantissaLimit (S : SmallSet) (f : Fmt) : Nat → Int :=
  if f.p = 24 then S.f32MantissaLimit else S.f64MantissaLimit
def SmallSet.maxDigits (S : SmallSet) (f : Fmt) : Nat → Option Nat :=
  if f.p = 24 then S.f32MaxDigits else S.f64MaxDigits
def SmallSet.floatPow (S : SmallSet) (f : Fmt) : Nat → Array Nat :=
  if f.p = 24 then S.f32Pow else S.f64Pow
def SmallSet.minExpFast (S : SmallSet) (f : Fmt) : Nat → Int :=
  if f.p = 24 then S.f32MinExponentFastPath else S.f64MinExponentFastPath
def SmallSet.maxExpFast (S : SmallSet) (f : Fmt) : Nat → Int :=
  if f.p = 24 then S.f32MaxExponentFastPath else S.f64MaxExponentFastPath
def SmallSet.maxExpDisguised (S : SmallSet) (f : Fmt) : Nat → Int :=
  if f.p = 24 then S.f32MaxExponentDisguisedFastPath else S.f64MaxExponentDisguisedFastPath

/-! ## small powers -/

/-- entry `e` of the integer power table of radix `r` is `r^e` (and fits a `u64`) -/
def intPowOk (r e v : Nat) : Bool := v == r ^ e && v < 2 ^ 64

/-- the integer power table of radix `r`: every entry exact, and it holds exactly the exponents
`0 ..= u64_power_limit(r)`, which include every exponent up to `mantissa_limit(r)` (f64) -/
def intPowTableOk (S : SmallSet) (r : Nat) : Bool :=
  tableAll (intPowOk r) (S.intPow r) && (S.intPow r).size == S.u64PowerLimit r + 1 &&
  decide (S.f64MantissaLimit r < ((S.intPow r).size : Int))

/-- entry `e` of a float power table: for `e ≤ exponent_limit(r).1` the bit pattern is
`roundNE (r^e)` **and** decodes to exactly `r^e`; entries beyond the limit are padding `0.0` -/
def floatPowOk (f : Fmt) (hi : Int) (r e v : Nat) : Bool :=
  if (e : Int) ≤ hi then roundNE f (r ^ e) 1 == v && exactlyRepr f v (r ^ e) else v == 0

/-- the float power table of radix `r` covers `0 ..= exponent_limit(r).1` and every entry is right -/
def floatPowTableOk (S : SmallSet) (f : Fmt) (r : Nat) : Bool :=
  tableAll (floatPowOk f (S.exponentLimit f r).2 r) (S.floatPow f r) &&
  decide ((S.exponentLimit f r).2 < ((S.floatPow f r).size : Int))

/-! ## limits -/

/-- `u32_power_limit`, `u64_power_limit`: `⌊log_r (2^bits − 1)⌋` -/
def powerLimitOk (bits r k : Nat) : Bool := r ^ k ≤ 2 ^ bits - 1 && 2 ^ bits - 1 < r ^ (k + 1)

/-- `exponent_limit(r) = (−h, h)`; power of two `r = 2^s`: `h = ⌊bias/s⌋` (`bias` = 127 / 1023);
otherwise `h = ⌊p / log2 (oddPart r)⌋`, i.e. `(oddPart r)^h ≤ 2^p < (oddPart r)^(h+1)` -/
def exponentLimitOk (f : Fmt) (r : Nat) (lim : Int × Int) : Bool :=
  let h := lim.2.toNat
  lim.2 ≥ 0 && lim.1 == -lim.2 &&
  (if isPow2 r then val2 r * h ≤ f.bias && f.bias < val2 r * (h + 1)
   else oddPart r ^ h ≤ 2 ^ f.p && 2 ^ f.p < oddPart r ^ (h + 1))

/-- `mantissa_limit(r) = ⌊p / log2 r⌋`: `r^m ≤ 2^p < r^(m+1)` -/
def mantissaLimitOk (f : Fmt) (r : Nat) (m : Int) : Bool :=
  m ≥ 0 && r ^ m.toNat ≤ 2 ^ f.p && 2 ^ f.p < r ^ (m.toNat + 1)

/-- `max_digits(r)`: `None` for odd radices and powers of two; for the others `Some d` with `d` the
documented formula, and every midpoint has at most `d − 1` significant digits -/
def maxDigitsOk (f : Fmt) (r : Nat) (d : Option Nat) : Bool :=
  if r % 2 = 1 || isPow2 r then d.isNone
  else match d with
    | none => false
    | some d => maxDigitsDocOk f r d && midpointDigitsLe f r (d - 1)

def limitsOk (S : SmallSet) (f : Fmt) (r : Nat) : Bool :=
  exponentLimitOk f r (S.exponentLimit f r) && mantissaLimitOk f r (S.mantissaLimit f r) &&
  S.minExpFast f r == (S.exponentLimit f r).1 && S.maxExpFast f r == (S.exponentLimit f r).2 &&
  S.maxExpDisguised f r == (S.exponentLimit f r).2 + S.mantissaLimit f r

/-- one row of `stepTab`: with `M = 2^(bits − signed)` (one more than the largest magnitude),
`min_step = ⌊log_r M⌋` (every `min_step`-digit string fits) and `max_step = ⌈log_r M⌉`
(the digit count of `M − 1`) -/
def stepRowOk (row : Nat × Nat × Nat × Nat × Nat) : Bool :=
  let (r, bits, sg, mn, mx) := row
  let M := 2 ^ (bits - sg)
  r ^ mn ≤ M && M < r ^ (mn + 1) && r ^ (mx - 1) < M && M ≤ r ^ mx && 1 ≤ mx

def stepsOk (S : SmallSet) : Bool :=
  (S.stepTab.filter fun row => S.radices.contains row.1).all stepRowOk &&
  S.radices.all fun r => r ^ S.u64Step r ≤ 2 ^ 64 && 2 ^ 64 < r ^ (S.u64Step r + 1)

end LexVerif.Proof.Tables
