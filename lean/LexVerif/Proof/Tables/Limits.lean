import LexVerif.Proof.Tables.SmallDefs
/-! Limits (`exponent_limit`, `mantissa_limit`, `max_digits`, power limits) and step functions, all feature sets. -/
namespace LexVerif.Proof.Tables
open LexVerif.Spec LexVerif.Spec.PowerTables LexVerif.Proof

theorem limits_radix : SmallSet.Radix.radices.all (fun r => limitsOk SmallSet.Radix f32 r && limitsOk SmallSet.Radix f64 r) = true := by
  decide +kernel

theorem power_limits_radix : SmallSet.Radix.intRadices.all (fun r =>
    powerLimitOk 32 r (SmallSet.Radix.u32PowerLimit r) && powerLimitOk 64 r (SmallSet.Radix.u64PowerLimit r)) = true := by
  decide +kernel

theorem steps_radix : stepsOk SmallSet.Radix = true := by decide +kernel

theorem max_digits_radix : SmallSet.Radix.radices.all (fun r =>
    maxDigitsOk f32 r (SmallSet.Radix.f32MaxDigits r) && maxDigitsOk f64 r (SmallSet.Radix.f64MaxDigits r)) = true := by
  decide +kernel

theorem limits_compact : SmallSet.CompactRadix.radices.all (fun r => limitsOk SmallSet.CompactRadix f32 r && limitsOk SmallSet.CompactRadix f64 r) = true := by
  decide +kernel

theorem power_limits_compact : SmallSet.CompactRadix.intRadices.all (fun r =>
    powerLimitOk 32 r (SmallSet.CompactRadix.u32PowerLimit r) && powerLimitOk 64 r (SmallSet.CompactRadix.u64PowerLimit r)) = true := by
  decide +kernel

theorem steps_compact : stepsOk SmallSet.CompactRadix = true := by decide +kernel

theorem max_digits_compact : SmallSet.CompactRadix.radices.all (fun r =>
    maxDigitsOk f32 r (SmallSet.CompactRadix.f32MaxDigits r) && maxDigitsOk f64 r (SmallSet.CompactRadix.f64MaxDigits r)) = true := by
  decide +kernel

theorem limits_default : SmallSet.Default.radices.all (fun r => limitsOk SmallSet.Default f32 r && limitsOk SmallSet.Default f64 r) = true := by
  decide +kernel

theorem power_limits_default : SmallSet.Default.intRadices.all (fun r =>
    powerLimitOk 32 r (SmallSet.Default.u32PowerLimit r) && powerLimitOk 64 r (SmallSet.Default.u64PowerLimit r)) = true := by
  decide +kernel

theorem steps_default : stepsOk SmallSet.Default = true := by decide +kernel

theorem max_digits_default : SmallSet.Default.radices.all (fun r =>
    maxDigitsOk f32 r (SmallSet.Default.f32MaxDigits r) && maxDigitsOk f64 r (SmallSet.Default.f64MaxDigits r)) = true := by
  decide +kernel

end LexVerif.Proof.Tables
