import LexVerif.Gen.IntTables
import LexVerif.Spec.Tables
import LexVerif.Proof.Tables.Walk
/-!
`get_table` dispatch, `digit_to_char(_const)`, `min_step` / `max_step` / `u64_step`, the `u128_divrem_<r>`
constants (S) with the Granlund–Montgomery precondition, and `u128_divrem` probes (R).
-/
namespace LexVerif.Proof.Tables.IntSteps
open LexVerif LexVerif.Spec LexVerif.Spec.Tables LexVerif.Gen.IntTables

/-- every radix 2..36 has a named table and `get_table` returns exactly that one -/
theorem getTable_dispatch :
    tableRadices = (List.range 35).map (· + 2) ∧ getTableRadices = (List.range 35).map (· + 2)
    ∧ ((List.range 35).all fun i => getTable (i + 2) == some (i + 2)) = true := by decide +kernel

theorem digitToChar_walk :
    allIdx (fun d v => v == digitChar d) 0 digitToChar.toList = true ∧ digitToChar.size = 36 := by decide +kernel

theorem digitToCharConst_walk :
    allIdx (fun i (row : List Nat) => row == (List.range (i + 2)).map digitChar) 0 digitToCharConst = true
    ∧ digitToCharConst.length = 35 := by decide +kernel

/-- index `i` of the step tables ↦ `(radix, value bits)`; value bits = `bits - is_signed` -/
def stepRadix (i : Nat) : Nat := i / 10 + 2
def stepValueBits (i : Nat) : Nat := 8 * 2 ^ (i / 2 % 5) - i % 2

/-- `min_step`: the largest `k` with `r^k ≤ 2^valueBits` — every `k`-digit numeral fits the type -/
def minStepOk (i v : Nat) : Bool := decide (IsMaxPow (stepRadix i) (2 ^ stepValueBits i) v)

/-- `max_step`: the number of digits of the type's maximum `2^valueBits - 1` -/
def maxStepOk (i v : Nat) : Bool :=
  decide (0 < v ∧ stepRadix i ^ (v - 1) ≤ 2 ^ stepValueBits i - 1 ∧ 2 ^ stepValueBits i - 1 < stepRadix i ^ v)

theorem minStep_walk : allIdx minStepOk 0 minStepTab.toList = true ∧ minStepTab.size = 350 := by decide +kernel
theorem maxStep_walk : allIdx maxStepOk 0 maxStepTab.toList = true ∧ maxStepTab.size = 350 := by decide +kernel

/-- `stepIndex` inverts `(stepRadix, stepValueBits)` on the dumped grid -/
theorem stepIndex_grid :
    ((List.range 35).all fun ri => [8, 16, 32, 64, 128].all fun bits => [false, true].all fun s =>
      let i := stepIndex (ri + 2) bits s
      i < 350 && stepRadix i == ri + 2 && stepValueBits i == bits - (if s then 1 else 0)) = true := by decide +kernel

/-- `u64_step(r) = min_step(r, 64, false)` = the largest `k` with `r^k ≤ 2^64` -/
theorem u64Step_all :
    ((List.range 35).all fun i =>
      u64Step (i + 2) == minStep (i + 2) 64 false && decide (IsMaxPow (i + 2) (2 ^ 64) (u64Step (i + 2)))) = true := by
  decide +kernel

/-- what must hold of the constants inside `u128_divrem_<r>` for it to be `n ↦ (n / r^step, n % r^step)`,
given the multiply-high identity (`Spec.Tables.MulHiIdentity`) -/
def div128Ok (r : Nat) : Bool :=
  let dd := r ^ u64Step r
  match div128 r with
  | .pow2 mask shr => decide (shr ≤ 64 ∧ mask = 2 ^ shr - 1 ∧ 2 ^ shr = dd)
  | .moderate d f s => decide (d = dd ∧ d < 2 ^ 64 ∧ MulHiPre 128 d f s)
  | .fast d fast fs f s =>
    decide (d = dd ∧ d < 2 ^ 64 ∧ fast = 2 ^ (64 + fs) ∧ d % 2 ^ fs = 0 ∧ 0 < d / 2 ^ fs ∧ MulHiPre 128 d f s)
  | .slow d ctlz => decide (d = dd ∧ d < 2 ^ 64 ∧ 0 < d ∧ ctlz = 64 - bitLen d)
  | .missing => false

theorem div128_all :
    div128Radices = (List.range 35).map (· + 2) ∧ ((List.range 35).all fun i => div128Ok (i + 2)) = true := by
  decide +kernel

/-- R probes of the compiled `u128_divrem(n, r)`: quotient and remainder by `r^u64_step(r)` -/
def divremRows : List (Nat × Nat × Nat × Nat) :=
  List.zip u128DivremRadixList (List.zip u128DivremNList (List.zip u128DivremQuotList u128DivremRemList))

def divremOk (_ : Nat) (t : Nat × Nat × Nat × Nat) : Bool :=
  let d := t.1 ^ u64Step t.1
  decide (2 ≤ t.1 ∧ t.1 ≤ 36 ∧ t.2.1 < 2 ^ 128 ∧ t.2.2.1 = t.2.1 / d ∧ t.2.2.2 = t.2.1 % d)

theorem divrem_walk : allIdx divremOk 0 divremRows = true
    ∧ u128DivremRadixList.length = u128DivremNList.length ∧ u128DivremNList.length = u128DivremQuotList.length
    ∧ u128DivremQuotList.length = u128DivremRemList.length ∧ 35 * 30 ≤ u128DivremRadixList.length := by
  decide +kernel

end LexVerif.Proof.Tables.IntSteps
