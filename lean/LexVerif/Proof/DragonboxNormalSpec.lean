import LexVerif.Proof.DragonboxNormal
import LexVerif.Proof.DragonboxTrailing
import Mathlib.Tactic.FieldSimp
/-!
# Proof.DragonboxNormalSpec — `compute_nearest_normal` against the oracle `Spec.shortest`

`normal_ok`: for every finite float with a non-zero mantissa field (binary32 and binary64, subnormals included) the
model's `to_decimal` returns — trailing zeros stripped — a pair of `Spec.shortest`.
-/
namespace LexVerif.Proof.DragonboxNormalSpec
open LexVerif.Model.Dragonbox LexVerif.Spec LexVerif.Proof.DragonboxBits LexVerif.Proof.DragonboxExp
open LexVerif.Proof.DragonboxExact LexVerif.Proof.DragonboxSpec LexVerif.Proof.DragonboxMath
open LexVerif.Proof.DragonboxNormal LexVerif.Proof.DragonboxShortest LexVerif.Proof.RoundNE

/-! ## translating the oracle's comparisons (`D·P ⋛ n·Q`) into the scaled ones (`D·K·b ⋛ n·a`) -/
section scale
variable {P Q a b K : Nat}

theorem scale_le_iff (hs : P * a = 2 * K * Q * b) (ha : 0 < a) (hQ : 0 < Q) (x D : Nat) :
    2 * x * Q ≤ D * P ↔ x * a ≤ D * K * b := by
  have e1 : 2 * x * Q * a = (x * a) * (2 * Q) := by ring
  have e2 : D * P * a = (D * K * b) * (2 * Q) := by rw [Nat.mul_assoc D P a, hs]; ring
  rw [← Nat.mul_le_mul_right_iff ha, e1, e2, Nat.mul_le_mul_right_iff (by omega)]

theorem scale_lt_iff (hs : P * a = 2 * K * Q * b) (ha : 0 < a) (hQ : 0 < Q) (x D : Nat) :
    2 * x * Q < D * P ↔ x * a < D * K * b := by
  have e1 : 2 * x * Q * a = (x * a) * (2 * Q) := by ring
  have e2 : D * P * a = (D * K * b) * (2 * Q) := by rw [Nat.mul_assoc D P a, hs]; ring
  rw [← Nat.mul_lt_mul_right ha, e1, e2, Nat.mul_lt_mul_right (by omega)]

theorem scale_ge_iff (hs : P * a = 2 * K * Q * b) (ha : 0 < a) (hQ : 0 < Q) (x D : Nat) :
    D * P ≤ 2 * x * Q ↔ D * K * b ≤ x * a := by
  have e1 : 2 * x * Q * a = (x * a) * (2 * Q) := by ring
  have e2 : D * P * a = (D * K * b) * (2 * Q) := by rw [Nat.mul_assoc D P a, hs]; ring
  rw [← Nat.mul_le_mul_right_iff ha, e1, e2, Nat.mul_le_mul_right_iff (by omega)]

theorem scale_gt_iff (hs : P * a = 2 * K * Q * b) (ha : 0 < a) (hQ : 0 < Q) (x D : Nat) :
    D * P < 2 * x * Q ↔ D * K * b < x * a := by
  have e1 : 2 * x * Q * a = (x * a) * (2 * Q) := by ring
  have e2 : D * P * a = (D * K * b) * (2 * Q) := by rw [Nat.mul_assoc D P a, hs]; ring
  rw [← Nat.mul_lt_mul_right ha, e1, e2, Nat.mul_lt_mul_right (by omega)]

end scale

/-- the interval of a normal-branch float -/
def ivOf (q : Nat) (e : Int) : Interval :=
  { v := 4 * q, lo := 4 * q - 2, hi := 4 * q + 2, e2 := e - 2, incl := decide (q % 2 = 0) }

/-- candidates of the oracle at a scale `E` whose comparison fraction is `2·K·b/a` -/
theorem cand_scaled {a b K q : Nat} {e E : Int} (hq : 1 ≤ q) (ha : 0 < a)
    (hs : (scalePQ (e - 2) E).1 * a = 2 * K * (scalePQ (e - 2) E).2 * b) (D : Nat) :
    Cand (ivOf q e) E D ↔
      1 ≤ D ∧ (2 * q - 1) * a ≤ D * K * b ∧ D * K * b ≤ (2 * q + 1) * a
        ∧ (q % 2 = 1 → (2 * q - 1) * a < D * K * b ∧ D * K * b < (2 * q + 1) * a) := by
  rw [cand_iff]
  have hQ := (scalePQ_pos (e - 2) E).2
  have hlo : (ivOf q e).lo = 2 * (2 * q - 1) := by show 4 * q - 2 = _; omega
  have hhi : (ivOf q e).hi = 2 * (2 * q + 1) := by show 4 * q + 2 = _; omega
  have hincl : (ivOf q e).incl = false ↔ q % 2 = 1 := by
    show decide (q % 2 = 0) = false ↔ _
    rw [decide_eq_false_iff_not]; omega
  have he2 : (ivOf q e).e2 = e - 2 := rfl
  rw [hlo, hhi, hincl, he2, scale_le_iff hs ha hQ, scale_ge_iff hs ha hQ, scale_lt_iff hs ha hQ,
    scale_gt_iff hs ha hQ]

theorem normDec_id {m : Nat} (E : Int) (h : m % 10 ≠ 0) : normDec 20 m E = (m, E) := by
  show (if m ≠ 0 ∧ m % 10 = 0 then normDec 19 (m / 10) (E + 1) else (m, E)) = (m, E)
  rw [if_neg (fun hc => h hc.2)]

theorem i32_id {x : Int} (h1 : -2 ^ 31 ≤ x) (h2 : x < 2 ^ 31) : i32 x = x := by
  unfold i32; omega

theorem expOk_all (t : FTy) (e : Int) (h1 : t.denormalExponent ≤ e)
    (h2 : e ≤ ((2 ^ t.exponentSize.toNat - 2 : Nat) : Int) - t.exponentBias) : expOk t e = true := by
  cases t
  · have c1 : (((2 ^ FTy.f32.exponentSize.toNat - 2 : Nat) : Int) - FTy.f32.exponentBias) = 104 := by decide
    have c2 : FTy.f32.denormalExponent = -149 := rfl
    rw [c1] at h2; rw [c2] at h1
    exact expOk_f32 e h1 h2
  · have c1 : (((2 ^ FTy.f64.exponentSize.toNat - 2 : Nat) : Int) - FTy.f64.exponentBias) = 971 := by decide
    have c2 : FTy.f64.denormalExponent = -1074 := rfl
    rw [c1] at h2; rw [c2] at h1
    exact expOk_f64 e h1 h2

theorem prec_eq (t : FTy) : prec t = (fmtOf t).p := by cases t <;> rfl

theorem wf_fmtOf (t : FTy) : WF (fmtOf t) := by
  cases t
  · exact wf_f32
  · exact wf_f64

theorem L_small (t : FTy) : L (fmtOf t) + 2 ≤ 200000 := by cases t <;> decide

/-- the trailing-zero stripper on significands below `2^p` -/
theorem rtz_spec (t : FTy) {s : Nat} (h0 : 0 < s) (hs : s < 2 ^ prec t) :
    ∃ j m, removeTrailingZeros t s = (m, j) ∧ s = m * 10 ^ j ∧ m % 10 ≠ 0 ∧ j ≤ 20 := by
  have key : ∃ j m, removeTrailingZeros t s = (m, j) ∧ s = m * 10 ^ j ∧ m % 10 ≠ 0 := by
    cases t
    · have hs' : s < 2 ^ 24 := hs
      exact LexVerif.Proof.DragonboxTrailing.removeTrailingZeros_f32 h0 (by omega)
    · have hs' : s < 2 ^ 53 := hs
      exact LexVerif.Proof.DragonboxTrailing.removeTrailingZeros_f64 h0 (by
        have : (2 : Nat) ^ 53 < 2 ^ 32 * 10 ^ 8 := by decide
        omega)
  obtain ⟨j, m, h1, h2, h3⟩ := key
  refine ⟨j, m, h1, h2, h3, ?_⟩
  by_contra hj
  have hj : 21 ≤ j := by omega
  have hm : 1 ≤ m := by
    rcases Nat.eq_zero_or_pos m with h | h
    · rw [h] at h3; simp at h3
    · exact h
  have h10 : 10 ^ 21 ≤ 10 ^ j := Nat.pow_le_pow_right (by decide) hj
  have : 10 ^ j ≤ m * 10 ^ j := Nat.le_mul_of_pos_left _ hm
  have hp : (2 : Nat) ^ prec t ≤ 2 ^ 54 := Nat.pow_le_pow_right (by decide) (by have := prec_le t; omega)
  have : (2 : Nat) ^ 54 < 10 ^ 21 := by decide
  omega

theorem scale_close {P Q a b T q D : Nat} (hs : P * a = 2 * T * Q * b) (ha : 0 < a)
    (h : 2 * (D * T * b - 2 * q * a) ≤ T * b) : 2 * (D * P - 4 * q * Q) ≤ P := by
  apply Nat.le_of_mul_le_mul_right _ ha
  have eU : D * P * a = 2 * Q * (D * T * b) := by rw [Nat.mul_assoc, hs]; ring
  have eV : 4 * q * Q * a = 2 * Q * (2 * q * a) := by ring
  have eP : P * a = 2 * Q * (T * b) := by rw [hs]; ring
  calc 2 * (D * P - 4 * q * Q) * a = 2 * ((D * P - 4 * q * Q) * a) := by ring
    _ = 2 * (D * P * a - 4 * q * Q * a) := by rw [Nat.sub_mul]
    _ = 2 * (2 * Q * (D * T * b) - 2 * Q * (2 * q * a)) := by rw [eU, eV]
    _ = 2 * Q * (2 * (D * T * b - 2 * q * a)) := by rw [← Nat.mul_sub]; ring
    _ ≤ 2 * Q * (T * b) := Nat.mul_le_mul_left _ h
    _ = P * a := eP.symm

theorem scale_close2 {P Q a b T q D : Nat} (hs : P * a = 2 * T * Q * b) (ha : 0 < a)
    (h : 2 * (2 * q * a - D * T * b) ≤ T * b) : 2 * (4 * q * Q - D * P) ≤ P := by
  apply Nat.le_of_mul_le_mul_right _ ha
  have eU : D * P * a = 2 * Q * (D * T * b) := by rw [Nat.mul_assoc, hs]; ring
  have eV : 4 * q * Q * a = 2 * Q * (2 * q * a) := by ring
  have eP : P * a = 2 * Q * (T * b) := by rw [hs]; ring
  calc 2 * (4 * q * Q - D * P) * a = 2 * ((4 * q * Q - D * P) * a) := by ring
    _ = 2 * (4 * q * Q * a - D * P * a) := by rw [Nat.sub_mul]
    _ = 2 * (2 * Q * (2 * q * a) - 2 * Q * (D * T * b)) := by rw [eU, eV]
    _ = 2 * Q * (2 * (2 * q * a - D * T * b)) := by rw [← Nat.mul_sub]; ring
    _ ≤ 2 * Q * (T * b) := Nat.mul_le_mul_left _ h
    _ = P * a := eP.symm

theorem kappa_small (t : FTy) : 1 ≤ t.kappa ∧ t.kappa ≤ 2 := by cases t <;> decide

/-- **the normal branch is correct** for every input that is not one of the two exceptional binary32 floats -/
theorem normal_ok_nonexc (t : FTy) (bits : Nat) (h0 : 0 < bits) (hfin : bits < (fmtOf t).infBits)
    (hm : bits &&& t.mantissaMask ≠ 0) (hexc : (t.exponent bits, t.mantissa bits) ∉ excFloats t) :
    dragonboxOk t bits = true := by
  obtain ⟨hiv, hq1, hq2, he1, he2, hqn⟩ := interval_normal t bits h0 hfin hm
  have hdec0 := toDecimal_normal t bits h0 hfin hm
  rw [computeNearestNormal_eq] at hdec0
  generalize t.mantissa bits = q at *
  generalize t.exponent bits = e at *
  obtain ⟨d, F⟩ := facts_of_ok (expOk_all t e he1 he2)
  rw [← F.hKm, F.hpow, F.hbetaM] at hdec0
  rw [← prec_eq] at hq2 hqn
  have hbody := body_eq_pure F hq1 hq2 hqn hexc
  have S : Setup d.a d.b (10 ^ t.kappa.toNat) q :=
    ⟨F.hcert.2.1, F.hcert.1, ten_kappa t, F.hdelta.1, F.hdelta.2, hq1⟩
  have hN : 2 ^ (prec t + 1) = 2 * 2 ^ prec t := by rw [Nat.pow_succ]; ring
  have hwin : (e < t.fcPmHalfLower ∨ e > t.divBy5Threshold) → ¬ d.b ∣ (2 * q - 1) * d.a := by
    intro hw hdvd
    have hcop : Nat.Coprime d.b d.a := by rw [Nat.Coprime, Nat.gcd_comm]; exact F.hgcd
    have hb1 : d.b ∣ 2 * q - 1 := hcop.dvd_of_dvd_mul_right hdvd
    rcases F.hwin hw with h2 | hbig
    · obtain ⟨k, hk⟩ := (Nat.dvd_of_mod_eq_zero h2).trans hb1
      omega
    · have := Nat.le_of_dvd (by omega) hb1
      omega
  obtain ⟨hk1, hk2⟩ := kappa_small t
  obtain ⟨_, hK1, hK2⟩ := F.hK
  have hE0 : i32 (d.minusK + t.kappa) = d.minusK + t.kappa := i32_id (by omega) (by omega)
  have hE1 : i32 (d.minusK + t.kappa + 1) = d.minusK + t.kappa + 1 := i32_id (by omega) (by omega)
  -- the oracle
  have hsh : shortest (fmtOf t) bits = shortestGo (ivOf q e) 420 (upOf (fmtOf t) bits) := by
    rw [shortest_eq, hiv]; rfl
  have hupb := upOf_le (wf_fmtOf t) hfin
  rw [hiv] at hupb
  have hupb : upOf (fmtOf t) bits ≤ (((prec t + 2 : Nat) : Int) + (e - 2)) * 30103 / 100000 + 2 := by
    rw [prec_eq]; exact hupb
  have hfu := F.hup
  have hcle : ∀ {D : Nat} {E : Int}, Cand (ivOf q e) E D → E ≤ upOf (fmtOf t) bits := by
    intro D E hc
    have hc' : Cand (interval (fmtOf t) bits) E D := by rw [hiv]; exact hc
    exact cand_le_up (wf_fmtOf t) (L_small t) h0 hfin hc'
  have hbigiff := fun D => cand_scaled (K := 10 * 10 ^ t.kappa.toNat) (e := e) (E := d.minusK + t.kappa + 1)
    hq1 F.hcert.2.1 F.hscale.1 D
  have hsmalliff := fun D => cand_scaled (K := 10 ^ t.kappa.toNat) (e := e) (E := d.minusK + t.kappa)
    hq1 F.hcert.2.1 F.hscale.2 D
  unfold dragonboxOk
  rw [hdec0, Option.map_some, hbody]
  simp only []
  rw [hsh]
  generalize upOf (fmtOf t) bits = up at *
  rcases pure_correct S e (d.minusK + t.kappa) hq2 hwin with ⟨s, hbig, huniq, hsp, hres⟩ | ⟨D, hnone, hclose, hres⟩
  · rw [hres]
    obtain ⟨j, m, hr1, hr2, hr3, hj⟩ := rtz_spec t hbig.1 hsp
    have hptz : processTrailingZeros t s (i32 (i32 (d.minusK + t.kappa) + 1)) = (m, d.minusK + t.kappa + 1 + (j : Int)) := by
      unfold processTrailingZeros
      rw [hr1, hE0, hE1]
      simp only []
      rw [i32_id (by omega) (by omega)]
    rw [hptz, normDec_id _ hr3]
    have hcs : Cand (ivOf q e) (d.minusK + t.kappa + 1) s := (hbigiff s).mpr hbig
    have hcm : Cand (ivOf q e) (d.minusK + t.kappa + 1 + (j : Int)) m := by
      rw [cand_add_iff, ← hr2]; exact hcs
    have hmem := shortestGo_unique_cand (ivOf q e) 420 up (d.minusK + t.kappa + 1) s m j hcs
      (fun D hD => huniq D ((hbigiff D).mp hD)) hr2 hr3 (hcle hcm) (by omega)
    simpa using hmem
  · rw [hres, hE0]
    obtain ⟨hD1, hDlo, hDhi⟩ := close_inside S D hclose
    have h10 : D % 10 ≠ 0 := by
      intro h10
      obtain ⟨D', rfl⟩ : ∃ D', D = 10 * D' := ⟨D / 10, by omega⟩
      apply hnone D'
      have e1 : D' * (10 * 10 ^ t.kappa.toNat) * d.b = 10 * D' * 10 ^ t.kappa.toNat * d.b := by ring
      exact ⟨by omega, by rw [e1]; exact Nat.le_of_lt hDlo, by rw [e1]; exact Nat.le_of_lt hDhi,
        fun _ => ⟨by rw [e1]; exact hDlo, by rw [e1]; exact hDhi⟩⟩
    rw [normDec_id _ h10]
    have hc : Cand (ivOf q e) (d.minusK + t.kappa) D :=
      (hsmalliff D).mpr ⟨hD1, Nat.le_of_lt hDlo, Nat.le_of_lt hDhi, fun _ => ⟨hDlo, hDhi⟩⟩
    have hmem := shortestGo_closest_cand (ivOf q e) 420 up (d.minusK + t.kappa) D
      (fun D' hD' => hnone D' ((hbigiff D').mp hD')) hc
      ⟨scale_close F.hscale.2 F.hcert.2.1 hclose.1, scale_close2 F.hscale.2 F.hcert.2.1 hclose.2⟩
      (hcle hc) (by omega)
    simpa using hmem

/-- the two binary32 floats whose centre-integrality flag is wrong, evaluated: the flag is not consulted on them -/
theorem exc_eval : dragonboxOk .f32 585281266 = true ∧ dragonboxOk .f32 593669874 = true := by decide +kernel

theorem exc_ok (t : FTy) (bits : Nat) (hfin : bits < (fmtOf t).infBits)
    (hexc : (t.exponent bits, t.mantissa bits) ∈ excFloats t) : dragonboxOk t bits = true := by
  cases t
  · obtain ⟨hm, he, _⟩ := fields32 bits
    have hfin' : bits < 255 * 2 ^ 23 := hfin
    have hlt : bits / 2 ^ 23 < 255 := by omega
    have hmod : bits / 2 ^ 23 % 2 ^ 8 = bits / 2 ^ 23 := Nat.mod_eq_of_lt (by omega)
    rw [hmod] at hm he
    have hx : (FTy.f32.exponent bits, FTy.f32.mantissa bits) = (-81, 14855922)
        ∨ (FTy.f32.exponent bits, FTy.f32.mantissa bits) = (-80, 14855922) := by
      simpa [excFloats] using hexc
    rcases hx with hx | hx
    · obtain ⟨h1, h2⟩ := Prod.mk.inj hx
      rw [he] at h1; rw [hm] at h2
      have : bits = 585281266 := by
        split at h1
        · omega
        · rename_i hne; rw [if_neg hne] at h2; omega
      rw [this]; exact exc_eval.1
    · obtain ⟨h1, h2⟩ := Prod.mk.inj hx
      rw [he] at h1; rw [hm] at h2
      have : bits = 593669874 := by
        split at h1
        · omega
        · rename_i hne; rw [if_neg hne] at h2; omega
      rw [this]; exact exc_eval.2
  · simp [excFloats] at hexc

/-- **`compute_nearest_normal` is correct**: every finite non-zero float with a non-zero mantissa field — all normal and
subnormal binary32 and binary64 inputs of the branch — is written as a pair of `Spec.shortest` -/
theorem normal_ok (t : FTy) (bits : Nat) (h0 : 0 < bits) (hfin : bits < (fmtOf t).infBits)
    (hm : bits &&& t.mantissaMask ≠ 0) : dragonboxOk t bits = true := by
  by_cases hexc : (t.exponent bits, t.mantissa bits) ∈ excFloats t
  · exact exc_ok t bits hfin hexc
  · exact normal_ok_nonexc t bits h0 hfin hm hexc

/-- what the certificate's fraction is: `a/b = 2^(e-1) · 10^k`, `k = -minus_k` -/
theorem x_value {t : FTy} {e : Int} {d : ExpData} (F : Facts t e d) :
    (d.a : ℚ) / d.b = (2 : ℚ) ^ (e - 1) * (10 : ℚ) ^ (-d.minusK) := by
  have hs := F.hscale.2
  rw [scalePQ_eq] at hs
  simp only [] at hs
  have h10 := tenFrac_Q (d.minusK + t.kappa)
  have h2 := binFrac_Q (e - 2)
  obtain ⟨tn_pos, td_pos⟩ := tenFrac_pos (d.minusK + t.kappa)
  obtain ⟨an_pos, ad_pos⟩ := binFrac_pos (e - 2)
  generalize (tenFrac (d.minusK + t.kappa)).1 = tn at *
  generalize (tenFrac (d.minusK + t.kappa)).2 = td at *
  generalize (binFrac (e - 2)).1 = an at *
  generalize (binFrac (e - 2)).2 = ad at *
  have hb : (0 : ℚ) < d.b := by exact_mod_cast F.hcert.1
  have hk := (kappa_small t).1
  have hT : ((10 ^ t.kappa.toNat : ℕ) : ℚ) = (10 : ℚ) ^ t.kappa := by
    have : t.kappa = ((t.kappa.toNat : ℕ) : ℤ) := by omega
    conv => rhs; rw [this]
    rw [zpow_natCast]; push_cast; rfl
  have hsQ : (tn : ℚ) * ad * d.a = 2 * (10 : ℚ) ^ t.kappa * (an * td) * d.b := by
    rw [← hT]; exact_mod_cast hs
  have tnQ : (0 : ℚ) < tn := by exact_mod_cast tn_pos
  have tdQ : (0 : ℚ) < td := by exact_mod_cast td_pos
  have anQ : (0 : ℚ) < an := by exact_mod_cast an_pos
  have adQ : (0 : ℚ) < ad := by exact_mod_cast ad_pos
  have e1 : (d.a : ℚ) / d.b = 2 * (10 : ℚ) ^ t.kappa * ((an : ℚ) / ad) / ((tn : ℚ) / td) := by
    field_simp
    linear_combination hsQ
  rw [e1, h2, h10]
  have z10 : (10 : ℚ) ≠ 0 := by norm_num
  have z2 : (2 : ℚ) ≠ 0 := by norm_num
  rw [show e - 1 = (e - 2) + 1 by ring, zpow_add₀ z2, zpow_one,
    show -d.minusK = t.kappa - (d.minusK + t.kappa) by ring, zpow_sub₀ z10]
  field_simp

end LexVerif.Proof.DragonboxNormalSpec
