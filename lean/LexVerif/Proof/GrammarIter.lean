import LexVerif.Proof.GrammarStd
import LexVerif.Model.ParseNumber
/-!
# Proof.GrammarIter — iterator-level facts for formats without digit separators

For a format with no digit-separator byte and no separator flags (`NoSep`; in particular every format when the
cargo feature `format` is off) all four component iterators are the no-skip iterator: `peek` is `slc.get(index)`,
`current_count` is the cursor. On that basis `parse_digits` is the greedy digit run `Spec.takeDigits`.
-/
namespace LexVerif.Proof.Grammar
open LexVerif LexVerif.Spec LexVerif.Model

/-- no digit separator anywhere in the format -/
structure NoSep (c : Cfg) : Prop where
  sep0 : c.digitSeparator = 0
  int : c.sepFlags .integer = SepFlags.none
  frac : c.sepFlags .fraction = SepFlags.none
  exp : c.sepFlags .exponent = SepFlags.none
  spec : c.specialSep = false

theorem NoSep.of_noformat (c : Cfg) (hf : c.feats.format = false) : NoSep c := by
  constructor <;> simp [Cfg.digitSeparator, Cfg.sepFlags, Cfg.flag, Cfg.specialSep, hf, SepFlags.none]

theorem NoSep.skip {c : Cfg} (h : NoSep c) (k : Comp) : c.skip k = .noskip := by
  cases k <;> simp [Cfg.skip, h.int, h.frac, h.exp, h.spec, SepFlags.none, SepFlags.skip]

theorem NoSep.contig {c : Cfg} (h : NoSep c) (k : Comp) : c.iterContiguous k = true := by
  cases k <;> simp [Cfg.iterContiguous, h.int, h.frac, h.exp, h.spec, SepFlags.none, SepFlags.any]

theorem NoSep.bytesContig {c : Cfg} (h : NoSep c) : c.bytesContiguous = true := by
  simp [Cfg.bytesContiguous, h.sep0]

theorem NoSep.count {c : Cfg} (h : NoSep c) (b : Bytes) : b.currentCount c = b.index := by
  simp [Bytes.currentCount, h.bytesContig]

theorem NoSep.peek {c : Cfg} (h : NoSep c) (k : Comp) (b : Bytes) : peek c k b = .ok (b.slc[b.index]?, b) := by
  simp [Model.peek, h.skip k]

/-- the unread part of the buffer -/
def tl (b : Bytes) : List Nat := b.slc.drop b.index

/-- `b'` is `b` advanced by `n` bytes (digit counts may differ: they are never read without separators) -/
def Adv (b b' : Bytes) (n : Nat) : Prop := b'.slc = b.slc ∧ b'.index = b.index + n

theorem Adv.tl {b b' : Bytes} {n : Nat} (h : Adv b b' n) : tl b' = (tl b).drop n := by
  simp [Grammar.tl, h.1, h.2, List.drop_drop, Nat.add_comm]

theorem Adv.refl (b : Bytes) : Adv b b 0 := ⟨rfl, rfl⟩

theorem Adv.trans {a b c : Bytes} {n m : Nat} (h1 : Adv a b n) (h2 : Adv b c m) : Adv a c (n + m) :=
  ⟨h2.1.trans h1.1, by rw [h2.2, h1.2]; omega⟩

theorem tl_head (b : Bytes) : (tl b).head? = b.slc[b.index]? := by
  simp [tl, List.head?_drop]

theorem tl_cons {b : Bytes} {x : Nat} {xs : List Nat} (h : tl b = x :: xs) :
    b.slc[b.index]? = some x ∧ b.index < b.slc.length ∧ tl { b with index := b.index + 1 } = xs := by
  have h1 : (tl b).head? = some x := by rw [h]; rfl
  rw [tl_head] at h1
  have hlt : b.index < b.slc.length := by
    rcases List.getElem?_eq_some_iff.mp h1 with ⟨hl, _⟩; exact hl
  refine ⟨h1, hlt, ?_⟩
  have : tl { b with index := b.index + 1 } = (tl b).drop 1 := by
    simp [tl, List.drop_drop, Nat.add_comm]
  rw [this, h]; rfl

theorem tl_nil {b : Bytes} (h : tl b = []) : b.slc[b.index]? = none := by
  have : (tl b).head? = none := by rw [h]; rfl
  rw [tl_head] at this; exact this

theorem incCount_adv (c : Cfg) (k : Comp) (b : Bytes) : Adv b (b.incCount c k) 0 := by
  unfold Bytes.incCount
  split
  · exact Adv.refl b
  · cases k <;> exact ⟨rfl, rfl⟩

/-- the `for _ in 0..8 { iter.increment_count() }` of the multi-digit fast paths moves nothing -/
theorem incCountFold_adv (c : Cfg) (k : Comp) : ∀ (l : List Nat) (b : Bytes),
    Adv b (l.foldl (fun b _ => b.incCount c k) b) 0 := by
  intro l
  induction l with
  | nil => intro b; exact Adv.refl b
  | cons x xs ih =>
    intro b
    simpa using (incCount_adv c k b).trans (ih (b.incCount c k))

theorem stepUnchecked_rel (c : Cfg) (contig : Bool) (b : Bytes) (hd : c.debug = false) :
    b.stepUnchecked c contig = .ok { b with index := b.index + 1 } := by
  simp [Bytes.stepUnchecked, Bytes.stepBy, hd]

/-- `char_to_digit_const` is the digit value of the documentation for every byte -/
theorem charToDigit_eq (ch r : Nat) (h : ch < 256) (hr255 : r ≤ 255) : charToDigit ch r = digitVal r ch := by
  unfold charToDigit charToValidDigit digitVal digitVal36
  by_cases hr : r ≤ 10
  · have e : (ch + 256 - 48) % 256 = if 48 ≤ ch then ch - 48 else ch + 208 := by split <;> omega
    simp only [hr, if_true, e]
    by_cases h1 : 48 ≤ ch ∧ ch ≤ 57
    · simp only [h1, and_self, if_true]
    · simp only [h1, if_false]
      by_cases h2 : 65 ≤ ch ∧ ch ≤ 90
      · have a1 : 48 ≤ ch := by omega
        have a2 : ¬ ch - 48 < r := by omega
        have a3 : ¬ ch - 55 < r := by omega
        simp only [h2, and_self, if_true, a1, a2, a3, if_false]
      · simp only [h2, if_false]
        by_cases h3 : 97 ≤ ch ∧ ch ≤ 122
        · have a1 : 48 ≤ ch := by omega
          have a2 : ¬ ch - 48 < r := by omega
          have a3 : ¬ ch - 87 < r := by omega
          simp only [h3, and_self, if_true, a1, a2, a3, if_false]
        · simp only [h3, if_false]
          by_cases a1 : 48 ≤ ch
          · have a2 : ¬ ch - 48 < r := by omega
            simp only [a1, if_true, a2, if_false]
          · have a2 : ¬ ch + 208 < r := by omega
            simp only [a1, if_false, a2]
  · simp only [hr, if_false]
    by_cases h1 : 48 ≤ ch ∧ ch ≤ 57
    · simp only [h1, and_self, if_true]
    · by_cases h2 : 65 ≤ ch ∧ ch ≤ 90
      · simp only [h1, h2, and_self, if_true, if_false]
      · by_cases h3 : 97 ≤ ch ∧ ch ≤ 122
        · simp only [h1, h2, h3, and_self, if_true, if_false]
        · have a : ¬ 255 < r := by omega
          simp only [h1, h2, h3, if_false, a]

/-- `parse_digits` on a separator-free format: the greedy digit run -/
theorem parseDigitsLoop_run {c : Cfg} (hn : NoSep c) (hd : c.debug = false) (k : Comp) (r : Nat) (hr : r ≤ 255) :
    ∀ (fuel : Nat) (b : Bytes), (∀ x ∈ b.slc, x < 256) → b.slc.length - b.index < fuel →
      ∃ b', parseDigitsLoop c k r fuel b = .ok ((takeDigits r (tl b)).1, b') ∧
        Adv b b' (takeDigits r (tl b)).1.length := by
  intro fuel
  induction fuel with
  | zero => intro b _ h; omega
  | succ n ih =>
    intro b hb hf
    unfold parseDigitsLoop
    rw [hn.peek]
    simp only [bind, Except.bind]
    cases htl : tl b with
    | nil =>
      rw [tl_nil htl]
      exact ⟨b, by simp [takeDigits, pure, Except.pure], by simpa [takeDigits] using Adv.refl b⟩
    | cons x xs =>
      obtain ⟨h1, hlt, h3⟩ := tl_cons htl
      rw [h1]
      have hx : x < 256 := hb x (List.mem_of_getElem? h1)
      simp only [charToDigit_eq x r hx hr]
      cases hdv : digitVal r x with
      | none =>
        exact ⟨b, by simp [takeDigits, hdv, pure, Except.pure], by simpa [takeDigits, hdv] using Adv.refl b⟩
      | some d =>
        simp only [iterStep, stepUnchecked_rel c _ b hd]
        have ha := incCount_adv c k { b with index := b.index + 1 }
        obtain ⟨b2, hb2, hadv⟩ := ih (Bytes.incCount c k { b with index := b.index + 1 })
          (by rw [ha.1]; exact hb) (by rw [ha.1, ha.2]; simp only; omega)
        have htl2 : tl (Bytes.incCount c k { b with index := b.index + 1 }) = xs := by
          rw [ha.tl, h3]; rfl
        rw [htl2] at hb2 hadv
        refine ⟨b2, by simp [hb2, takeDigits, hdv, pure, Except.pure], ?_⟩
        simp only [takeDigits, hdv, List.length_cons]
        have := (Adv.trans (Adv.trans (⟨rfl, rfl⟩ : Adv b { b with index := b.index + 1 } 1) ha) hadv)
        simpa [Nat.add_comm, Nat.add_left_comm] using this

theorem parseDigits_run {c : Cfg} (hn : NoSep c) (hd : c.debug = false) (k : Comp) (r : Nat) (hr : r ≤ 255) (b : Bytes)
    (hb : ∀ x ∈ b.slc, x < 256) :
    ∃ b', parseDigits c k r b = .ok ((takeDigits r (tl b)).1, b') ∧ Adv b b' (takeDigits r (tl b)).1.length :=
  parseDigitsLoop_run hn hd k r hr _ b hb (by omega)


/-! ## the 8-digit fast loop consumes digits of the run only -/

theorem takeDigits_skip (r : Nat) : ∀ (n : Nat) (l : List Nat), n ≤ l.length →
    (∀ x ∈ l.take n, (digitVal r x).isSome) →
    (takeDigits r l).1.length = n + (takeDigits r (l.drop n)).1.length ∧
    (takeDigits r l).2 = (takeDigits r (l.drop n)).2 := by
  intro n
  induction n with
  | zero => intro l _ _; simp
  | succ n ih =>
    intro l hl hall
    cases l with
    | nil => simp at hl
    | cons x xs =>
      have hx : (digitVal r x).isSome := hall x (by simp)
      obtain ⟨d, hd⟩ := Option.isSome_iff_exists.mp hx
      have := ih xs (by simpa using hl) (fun y hy => hall y (by simp [hy]))
      simp only [takeDigits, hd, List.length_cons, List.drop_succ_cons]
      exact ⟨by omega, this.2⟩

theorem is8Digits_digit (r : Nat) (hr : r ≤ 10) (bs : List Nat) (h : is8Digits r bs = true) :
    ∀ x ∈ bs, (digitVal r x).isSome := by
  intro x hx
  have := List.all_eq_true.mp h x hx
  simp only [Bool.and_eq_true, decide_eq_true_eq] at this
  have h1 : 48 ≤ x ∧ x ≤ 57 := by omega
  have h2 : x - 48 < r := by omega
  simp [digitVal, digitVal36, h1, h2]

theorem parse8Loop_spec {c : Cfg} (hn : NoSep c) (hd : c.debug = false) (k : Comp)
    (hr : c.mantissaRadix ≤ 10) :
    ∀ (fuel : Nat) (b : Bytes) (m : Nat), b.slc.length - b.index < fuel →
      ∃ m' b' n, parse8Loop c k fuel b m = .ok (m', b') ∧ Adv b b' n ∧
        n ≤ (takeDigits c.mantissaRadix (tl b)).1.length := by
  intro fuel
  induction fuel with
  | zero => intro b m h; omega
  | succ f ih =>
    intro b m hf
    unfold parse8Loop
    simp only [tryParse8, hd, Bool.false_and, Bool.false_eq_true, if_false, bind, Except.bind]
    cases hp : peekBytes c k 8 b with
    | none => exact ⟨m, b, 0, by simp [pure, Except.pure], Adv.refl b, Nat.zero_le _⟩
    | some bs =>
      simp only
      have hpb : bs = (tl b).take 8 ∧ 8 ≤ (tl b).length := by
        unfold peekBytes at hp
        split at hp
        · next hc =>
          simp only [Bool.and_eq_true, decide_eq_true_eq] at hc
          simp only [Option.some.injEq] at hp
          exact ⟨hp.symm, by simp [tl]; omega⟩
        · cases hp
      by_cases h8 : is8Digits c.mantissaRadix bs = true
      · simp only [h8, if_true, Bytes.stepBy, hd, Bool.false_and, Bool.false_eq_true, if_false]
        have hlen : (tl b).length = b.slc.length - b.index := by simp [tl]
        have hinc := incCountFold_adv c k (List.range 8) { b with index := b.index + 8 }
        have hadv : Adv b ((List.range 8).foldl (fun b _ => b.incCount c k) { b with index := b.index + 8 }) 8 := by
          simpa using Adv.trans (⟨rfl, rfl⟩ : Adv b { b with index := b.index + 8 } 8) hinc
        obtain ⟨m', b', n, h1, h2, h3⟩ := ih ((List.range 8).foldl (fun b _ => b.incCount c k) { b with index := b.index + 8 })
          ((m * radix8 c.mantissaRadix + val8Digits c.mantissaRadix bs) % pow2_64) (by rw [hadv.1, hadv.2]; omega)
        have hsk := takeDigits_skip c.mantissaRadix 8 (tl b) hpb.2
          (by rw [← hpb.1]; exact is8Digits_digit _ hr bs h8)
        rw [hadv.tl] at h3
        exact ⟨m', b', 8 + n, h1, hadv.trans h2, by omega⟩
      · simp only [h8, Bool.false_eq_true, if_false]
        exact ⟨m, b, 0, by simp [pure, Except.pure], Adv.refl b, Nat.zero_le _⟩

/-- `parse_8digits`: whatever it consumes is a prefix of the digit run (`hr`: the fast loop is only compiled in
for radices whose digits are `0..9`, which `format.is_valid()` guarantees: without `power-of-two` the radix is 10) -/
theorem parse8Digits_spec {c : Cfg} (hn : NoSep c) (hd : c.debug = false) (k : Comp)
    (hr : c.feats.powerOfTwo = false → c.mantissaRadix ≤ 10) (b : Bytes) (m : Nat) :
    ∃ m' b' n, parse8Digits c k b m = .ok (m', b') ∧ Adv b b' n ∧
      n ≤ (takeDigits c.mantissaRadix (tl b)).1.length := by
  unfold parse8Digits
  by_cases hc : c.feats.compact = true
  · exact ⟨m, b, 0, by simp [hc, pure, Except.pure], Adv.refl b, Nat.zero_le _⟩
  · by_cases hm : canMultidigit c k = true
    · have hr' : c.mantissaRadix ≤ 10 := by
        simp only [canMultidigit, Bool.and_eq_true, Bool.or_eq_true, Bool.not_eq_true', decide_eq_true_eq] at hm
        rcases hm.2 with h | h
        · exact hr h
        · exact h
      simp only [hc, Bool.false_eq_true, if_false, hm, if_true, hd, Bool.false_and]
      exact parse8Loop_spec hn hd k hr' _ b m (by omega)
    · exact ⟨m, b, 0, by simp [hc, hm, pure, Except.pure], Adv.refl b, Nat.zero_le _⟩

end LexVerif.Proof.Grammar
