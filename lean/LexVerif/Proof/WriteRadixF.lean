import LexVerif.Model.WriteRadix
import LexVerif.Proof.RoundNEDecode
/-!
# Proof.WriteRadixF — the `F` layer of `Model.WriteRadix`: which hardware operations are exact (Mathlib-free)

Values are `ival f b` (units of `2^-L`). Proved here, for every well-formed format with `p ≤ bias + 1`
(`FOK`; holds for binary32 and binary64):

* `roundNE_of_ival` — a rational equal to the value of a finite pattern rounds to that pattern;
* `exists_pattern`, `representable` — `m·2^k` with `m < 2^p` is the value of a pattern; a multiple of the unit in the
  last place of `a` that does not exceed `a` is representable by a pattern `≤ a`;
* **`fmod_exact`** — `%` returns the exact remainder, for every dividend (`ival (fmod a b) = ival a % ival b`);
* **`ffloor_exact`** — `floor` returns the exact integer part;
* `fsub_frac_exact` — `x - floor(x)` (`float - integer`, `fraction - digit`) is the exact fractional part;
* `ofNat_ival` — `as_cast` of an integer below `2^p` is exact; `one_ival`, `half_ival`;
* on integers below `2^p`: `fmod_ofNat`, `fsub_ofNat`, `fdiv_ofNat` (exact), `exponent_fdiv_ofNat` (no zero padding) —
  the former `IeeeExact` assumption, now a theorem about the model's arithmetic.
-/
namespace LexVerif.Proof.WriteRadixF
open LexVerif.Spec LexVerif.Proof.RoundNE
open LexVerif.Model.WriteRadix (unit unitExp fmul fadd fsub fdiv fmod ffloor asU32 ofNat half one exponent)

/-- formats the lemmas are proved for: well-formed and `p - 1 ≤ bias` (binary32, binary64) -/
structure FOK (f : Fmt) : Prop where
  wf : WF f
  hb : f.p ≤ f.bias + 1

theorem fok_f64 : FOK f64 := ⟨wf_f64, by decide⟩
theorem fok_f32 : FOK f32 := ⟨wf_f32, by decide⟩

theorem ival_eq (f : Fmt) (b : Nat) : LexVerif.Model.WriteRadix.ival f b = ival f b := rfl
theorem unit_eq (f : Fmt) : unit f = 2 ^ L f := rfl
theorem unit_pos (f : Fmt) : 0 < unit f := Nat.two_pow_pos _

theorem ival_inj (f : Fmt) {a b : Nat} (h : ival f a = ival f b) : a = b := by
  rcases Nat.lt_trichotomy a b with h1 | h1 | h1
  · have := ival_strictMono f h1; omega
  · exact h1
  · have := ival_strictMono f h1; omega

theorem lt_of_ival_lt (f : Fmt) {a b : Nat} (h : ival f a < ival f b) : a < b := by
  apply Nat.lt_of_not_le; intro hle; have := ival_mono f hle; omega

theorem le_of_ival_le (f : Fmt) {a b : Nat} (h : ival f a ≤ ival f b) : a ≤ b := by
  apply Nat.le_of_not_lt; intro hlt; have := ival_strictMono f hlt; omega

theorem lt_iff_ival_lt (f : Fmt) {a b : Nat} : a < b ↔ ival f a < ival f b :=
  ⟨ival_strictMono f, lt_of_ival_lt f⟩

/-- a rational equal to the value of the finite pattern `c` rounds to `c` -/
theorem roundNE_of_ival {f : Fmt} (hf : WF f) {c : Nat} (hc : c < f.infBits) {n d : Nat} (hd : 0 < d)
    (h : n * 2 ^ L f = ival f c * d) : roundNE f n d = c := by
  apply roundNE_unique hf (Nat.ne_of_gt hd)
  rw [h]
  have s1 : c ≠ 0 → ival f (c - 1) < ival f c := fun h => ival_strictMono f (by omega)
  have s2 := ival_lt_succ f c
  have e : 2 * (ival f c * d) = d * (ival f c + ival f c) := by rw [← Nat.two_mul]; ac_rfl
  refine ⟨Nat.le_of_lt hc, ?_, ?_, ?_, ?_⟩ <;> rw [e]
  · intro h; exact Nat.mul_le_mul_left d (by have := s1 h; omega)
  · intro h heq; have := Nat.eq_of_mul_eq_mul_left hd heq; have := s1 h; omega
  · intro _; exact Nat.mul_le_mul_left d (by omega)
  · intro _ heq; have := Nat.eq_of_mul_eq_mul_left hd heq; omega

/-- `m · 2^k` with `m < 2^p` is the value of a pattern -/
theorem exists_pattern (f : Fmt) : ∀ (k m : Nat), m < 2 * 2 ^ (f.p - 1) → ∃ c, ival f c = m * 2 ^ k
  | 0, m, hm => ⟨m, by
      have := ival_kq f 0 m (fun h => absurd h (Nat.lt_irrefl 0)) (Nat.le_of_lt hm)
      simpa using this⟩
  | k + 1, m, hm => by
    by_cases hT : 2 ^ (f.p - 1) ≤ m
    · exact ⟨(k + 1) * 2 ^ (f.p - 1) + m, ival_kq f (k + 1) m (fun _ => hT) (Nat.le_of_lt hm)⟩
    · obtain ⟨c, hc⟩ := exists_pattern f k (2 * m) (by omega)
      exact ⟨c, by rw [hc, Nat.pow_succ]; ac_rfl⟩

/-- every value is `q · 2^k` with `q < 2^p` -/
theorem ival_decomp (f : Fmt) (b : Nat) : ∃ k q, ival f b = q * 2 ^ k ∧ q < 2 * 2 ^ (f.p - 1) := by
  obtain ⟨k, q, rfl, h1, h2⟩ := decomp f b
  exact ⟨k, q, ival_kq f k q h1 (Nat.le_of_lt h2), h2⟩

/-- a multiple of the last-place unit of `a` not exceeding `a` is the value of a pattern `≤ a` -/
theorem representable (f : Fmt) {a k q n : Nat} (ha : ival f a = q * 2 ^ k) (hq : q < 2 * 2 ^ (f.p - 1))
    (hdvd : 2 ^ k ∣ n) (hle : n ≤ ival f a) : ∃ c, c ≤ a ∧ ival f c = n := by
  obtain ⟨m, rfl⟩ := hdvd
  have hm : m ≤ q := by
    rw [ha, Nat.mul_comm] at hle
    exact Nat.le_of_mul_le_mul_right hle (Nat.two_pow_pos k)
  obtain ⟨c, hc⟩ := exists_pattern f k m (by omega)
  refine ⟨c, le_of_ival_le f ?_, by rw [hc, Nat.mul_comm]⟩
  rw [hc, Nat.mul_comm]; exact hle

/-! ## `fmod` and `floor` are exact -/

/-- **`%` is exact**: the remainder of the exact values is representable, for every dividend -/
theorem fmod_exact {f : Fmt} (hf : WF f) (a : Nat) {b : Nat} (hb : b < f.infBits) (hb0 : ival f b ≠ 0) :
    ival f (fmod f a b) = ival f a % ival f b ∧ fmod f a b < b := by
  obtain ⟨ka, qa, ha, hqa⟩ := ival_decomp f a
  obtain ⟨kb, qb, hbb, hqb⟩ := ival_decomp f b
  have hlt : ival f a % ival f b < ival f b := Nat.mod_lt _ (Nat.pos_of_ne_zero hb0)
  have hex : ∃ c, ival f c = ival f a % ival f b := by
    by_cases hk : ka ≤ kb
    · have d1 : 2 ^ ka ∣ ival f a := ⟨qa, by rw [ha, Nat.mul_comm]⟩
      have d2 : 2 ^ ka ∣ ival f b :=
        Nat.dvd_trans (Nat.pow_dvd_pow 2 hk) ⟨qb, by rw [hbb, Nat.mul_comm]⟩
      obtain ⟨c, _, hc⟩ := representable f ha hqa ((Nat.dvd_mod_iff d2).mpr d1) (Nat.mod_le _ _)
      exact ⟨c, hc⟩
    · have d1 : 2 ^ kb ∣ ival f a :=
        Nat.dvd_trans (Nat.pow_dvd_pow 2 (Nat.le_of_lt (Nat.lt_of_not_le hk))) ⟨qa, by rw [ha, Nat.mul_comm]⟩
      have d2 : 2 ^ kb ∣ ival f b := ⟨qb, by rw [hbb, Nat.mul_comm]⟩
      obtain ⟨c, _, hc⟩ := representable f hbb hqb ((Nat.dvd_mod_iff d2).mpr d1) (Nat.le_of_lt hlt)
      exact ⟨c, hc⟩
  obtain ⟨c, hc⟩ := hex
  have hcb : c < b := lt_of_ival_lt f (by rw [hc]; exact hlt)
  have : fmod f a b = c := by
    unfold fmod
    rw [ival_eq, ival_eq, unit_eq]
    exact roundNE_of_ival hf (Nat.lt_trans hcb hb) (Nat.two_pow_pos _) (by rw [hc])
  rw [this]; exact ⟨hc, hcb⟩

/-- **`floor` is exact** -/
theorem ffloor_exact {f : Fmt} (hf : WF f) {a : Nat} (ha : a < f.infBits) :
    ival f (ffloor f a) = ival f a / unit f * unit f ∧ ffloor f a ≤ a := by
  obtain ⟨k, q, hq, hq2⟩ := ival_decomp f a
  have hle : ival f a / unit f * unit f ≤ ival f a := Nat.div_mul_le_self _ _
  have hdvd : 2 ^ k ∣ ival f a / unit f * unit f := by
    by_cases hk : k ≤ L f
    · exact Nat.dvd_trans (Nat.pow_dvd_pow 2 hk) ⟨ival f a / unit f, by rw [unit_eq, Nat.mul_comm]⟩
    · have : unit f ∣ ival f a := by
        rw [unit_eq, hq]
        exact Nat.dvd_trans (Nat.pow_dvd_pow 2 (by omega : L f ≤ k)) ⟨q, Nat.mul_comm _ _⟩
      rw [Nat.div_mul_cancel this, hq]; exact ⟨q, Nat.mul_comm _ _⟩
  obtain ⟨c, hca, hc⟩ := representable f hq hq2 hdvd hle
  have : ffloor f a = c := by
    unfold ffloor
    rw [ival_eq]
    exact roundNE_of_ival hf (Nat.lt_of_le_of_lt hca ha) Nat.one_pos (by rw [hc, Nat.mul_one, unit_eq])
  rw [this]; exact ⟨hc, hca⟩

/-- subtracting an integer `d ≤ ⌊x⌋·…` given as an exact float: `x - floor-part` is exact when the result is a
multiple of `x`'s last place not exceeding `x` (used for `float - floor(float)` and `fraction - digit`) -/
theorem fsub_exact {f : Fmt} (hf : WF f) {a b : Nat} (ha : a < f.infBits) {k q : Nat}
    (hq : ival f a = q * 2 ^ k) (hq2 : q < 2 * 2 ^ (f.p - 1)) (hdvd : 2 ^ k ∣ ival f b) :
    ival f (fsub f a b) = ival f a - ival f b ∧ fsub f a b ≤ a := by
  have d1 : 2 ^ k ∣ ival f a := ⟨q, by rw [hq, Nat.mul_comm]⟩
  obtain ⟨c, hca, hc⟩ := representable f hq hq2 (Nat.dvd_sub d1 hdvd) (Nat.sub_le _ _)
  have : fsub f a b = c := by
    unfold fsub
    rw [ival_eq, ival_eq, unit_eq]
    exact roundNE_of_ival hf (Nat.lt_of_le_of_lt hca ha) (Nat.two_pow_pos _) (by rw [hc])
  rw [this]; exact ⟨hc, hca⟩

/-- `x - floor(x)` is the exact fractional part -/
theorem fsub_ffloor_exact {f : Fmt} (hf : WF f) {a : Nat} (ha : a < f.infBits) :
    ival f (fsub f a (ffloor f a)) = ival f a % unit f := by
  obtain ⟨k, q, hq, hq2⟩ := ival_decomp f a
  obtain ⟨hfl, _⟩ := ffloor_exact hf ha
  have hdvd : 2 ^ k ∣ ival f (ffloor f a) := by
    rw [hfl]
    by_cases hk : k ≤ L f
    · exact Nat.dvd_trans (Nat.pow_dvd_pow 2 hk) ⟨ival f a / unit f, by rw [unit_eq, Nat.mul_comm]⟩
    · have : unit f ∣ ival f a := by
        rw [unit_eq, hq]
        exact Nat.dvd_trans (Nat.pow_dvd_pow 2 (by omega : L f ≤ k)) ⟨q, Nat.mul_comm _ _⟩
      rw [Nat.div_mul_cancel this, hq]; exact ⟨q, Nat.mul_comm _ _⟩
  rw [(fsub_exact hf ha hq hq2 hdvd).1, hfl]
  have := Nat.div_add_mod (ival f a) (unit f)
  rw [Nat.mul_comm] at this
  omega

/-! ## constants and casts -/

theorem infBits_ival_ge {f : Fmt} (h : FOK f) : 2 * 2 ^ (f.p - 1) * 2 ^ (L f) ≤ ival f f.infBits := by
  rw [(ival_infBits h.wf).1]
  apply Nat.mul_le_mul_left
  apply Nat.pow_le_pow_right (by decide)
  have := M_eq h.wf
  have := h.hb
  have := h.wf.hp
  unfold L
  omega

/-- `as_cast` of an integer below `2^p` is exact and finite -/
theorem ofNat_ival {f : Fmt} (h : FOK f) {n : Nat} (hn : n < 2 * 2 ^ (f.p - 1)) :
    ival f (ofNat f n) = n * unit f ∧ ofNat f n < f.infBits := by
  obtain ⟨c, hc⟩ := exists_pattern f (L f) n hn
  have hfin : c < f.infBits := by
    apply lt_of_ival_lt f
    rw [hc]
    exact Nat.lt_of_lt_of_le (Nat.mul_lt_mul_of_pos_right hn (Nat.two_pow_pos _)) (infBits_ival_ge h)
  have : ofNat f n = c := by
    unfold ofNat
    exact roundNE_of_ival h.wf hfin Nat.one_pos (by rw [hc, Nat.mul_one])
  rw [this, unit_eq]; exact ⟨hc, hfin⟩

theorem two_le_T (f : Fmt) : 2 ≤ 2 * 2 ^ (f.p - 1) := by
  have := Nat.two_pow_pos (f.p - 1); omega

theorem one_ival {f : Fmt} (h : FOK f) : ival f (one f) = unit f ∧ one f < f.infBits := by
  have := ofNat_ival h (n := 1) (by have := Nat.two_pow_pos (f.p - 1); omega)
  rw [Nat.one_mul] at this
  exact this

theorem L_pos {f : Fmt} (hf : WF f) : 1 ≤ L f := by
  have := hf.hp; have := bias_pos hf; unfold L; omega

theorem half_ival {f : Fmt} (h : FOK f) : 2 * ival f (half f) = unit f ∧ half f < one f := by
  obtain ⟨c, hc⟩ := exists_pattern f (L f - 1) 1 (by have := Nat.two_pow_pos (f.p - 1); omega)
  have hL := L_pos h.wf
  have e : 2 * 2 ^ (L f - 1) = 2 ^ L f := by
    rw [show L f = (L f - 1) + 1 by omega, Nat.pow_succ]; simp; ac_rfl
  have h1 := one_ival h
  have hlt : c < one f := by
    apply lt_of_ival_lt f; rw [hc, h1.1, unit_eq, ← e]
    have := Nat.two_pow_pos (L f - 1); omega
  have : half f = c := by
    unfold half
    exact roundNE_of_ival h.wf (Nat.lt_trans hlt h1.2) (by decide) (by rw [hc, ← e]; ac_rfl)
  refine ⟨?_, by rw [this]; exact hlt⟩
  rw [this, hc, unit_eq, ← e]; omega

/-! ## monotonicity of the rounded operations -/

theorem fmul_mono {f : Fmt} (hf : WF f) {a a' b b' : Nat} (ha : a ≤ a') (hb : b ≤ b') :
    fmul f a b ≤ fmul f a' b' := by
  unfold fmul
  have hu := Nat.mul_pos (unit_pos f) (unit_pos f)
  apply roundNE_mono' hf hu hu
  simp only [ival_eq]
  exact Nat.mul_le_mul_right _ (Nat.mul_le_mul (ival_mono f ha) (ival_mono f hb))

/-- a product with a factor `≥ 2` at least doubles (pattern of `2·a` given as `c`) -/
theorem fmul_ge_double {f : Fmt} (hf : WF f) {a b c : Nat} (hc : c < f.infBits) (hcv : ival f c = 2 * ival f a)
    (hb : 2 * unit f ≤ ival f b) : c ≤ fmul f a b := by
  have hu := Nat.mul_pos (unit_pos f) (unit_pos f)
  have e : roundNE f (2 * ival f a * unit f) (unit f * unit f) = c := by
    apply roundNE_of_ival hf hc hu
    rw [hcv, unit_eq]; ac_rfl
  rw [← e]
  unfold fmul
  apply roundNE_mono' hf hu hu
  simp only [ival_eq]
  apply Nat.mul_le_mul_right
  calc 2 * ival f a * unit f = ival f a * (2 * unit f) := by ac_rfl
    _ ≤ ival f a * ival f b := Nat.mul_le_mul_left _ hb

/-! ## integers below `2^p` -/

section Integers
variable {f : Fmt}

theorem ofNat_inj (h : FOK f) {m n : Nat} (hm : m < 2 * 2 ^ (f.p - 1)) (hn : n < 2 * 2 ^ (f.p - 1))
    (e : ofNat f m = ofNat f n) : m = n := by
  have h1 := (ofNat_ival h hm).1
  have h2 := (ofNat_ival h hn).1
  rw [e, h2] at h1
  exact (Nat.eq_of_mul_eq_mul_right (unit_pos f) h1).symm

theorem ofNat_zero (f : Fmt) : ofNat f 0 = 0 := roundNE_zero f 1

theorem ofNat_eq_zero (h : FOK f) {n : Nat} (hn : n < 2 * 2 ^ (f.p - 1)) : ofNat f n = 0 ↔ n = 0 := by
  constructor
  · intro e
    exact ofNat_inj h hn (by have := Nat.two_pow_pos (f.p - 1); omega) (by rw [e, ofNat_zero])
  · intro e; rw [e, ofNat_zero]

theorem asU32_ofNat (h : FOK f) {n : Nat} (hn : n < 2 * 2 ^ (f.p - 1)) (h32 : n < 2 ^ 32) :
    asU32 f (ofNat f n) = n := by
  unfold asU32
  rw [ival_eq, (ofNat_ival h hn).1, Nat.mul_div_cancel _ (unit_pos f)]
  omega

theorem fmod_ofNat (h : FOK f) {m r : Nat} (hm : m < 2 * 2 ^ (f.p - 1)) (hr : r < 2 * 2 ^ (f.p - 1)) (hr0 : 0 < r) :
    fmod f (ofNat f m) (ofNat f r) = ofNat f (m % r) := by
  obtain ⟨hrv, hrf⟩ := ofNat_ival h hr
  have hmr : m % r < 2 * 2 ^ (f.p - 1) := Nat.lt_trans (Nat.mod_lt _ hr0) hr
  apply ival_inj f
  rw [(fmod_exact h.wf _ hrf (by rw [hrv]; exact Nat.ne_of_gt (Nat.mul_pos hr0 (unit_pos f)))).1,
    (ofNat_ival h hm).1, hrv, (ofNat_ival h hmr).1, Nat.mul_mod_mul_right]

theorem fsub_ofNat (h : FOK f) {m d : Nat} (hm : m < 2 * 2 ^ (f.p - 1)) (hd : d ≤ m) :
    fsub f (ofNat f m) (ofNat f d) = ofNat f (m - d) := by
  have hdl : d < 2 * 2 ^ (f.p - 1) := by omega
  have hml : m - d < 2 * 2 ^ (f.p - 1) := by omega
  obtain ⟨hv, hfin⟩ := ofNat_ival h hml
  unfold fsub
  rw [ival_eq, ival_eq, (ofNat_ival h hm).1, (ofNat_ival h hdl).1, ← Nat.sub_mul, unit_eq]
  apply roundNE_of_ival h.wf hfin (Nat.two_pow_pos _)
  rw [hv, unit_eq, Nat.sub_mul]

theorem fdiv_ofNat (h : FOK f) {m r : Nat} (hm : m < 2 * 2 ^ (f.p - 1)) (hr : r < 2 * 2 ^ (f.p - 1)) (hr0 : 0 < r)
    (hdvd : r ∣ m) : fdiv f (ofNat f m) (ofNat f r) = ofNat f (m / r) := by
  have hq : m / r < 2 * 2 ^ (f.p - 1) := Nat.lt_of_le_of_lt (Nat.div_le_self _ _) hm
  obtain ⟨hv, hfin⟩ := ofNat_ival h hq
  unfold fdiv
  rw [ival_eq, ival_eq, (ofNat_ival h hm).1, (ofNat_ival h hr).1]
  apply roundNE_of_ival h.wf hfin (Nat.mul_pos hr0 (unit_pos f))
  rw [hv, unit_eq]
  obtain ⟨t, rfl⟩ := hdvd
  rw [Nat.mul_div_cancel_left _ hr0]
  ac_rfl

/-- patterns below that of `2^p` have `exponent() ≤ 0` -/
theorem exponent_le_zero (h : FOK f) {x : Nat} (hx : x < (f.bias + f.p) * 2 ^ (f.p - 1)) (hfin : x < f.infBits) :
    exponent f x ≤ 0 := by
  have h1 := expField_lt hfin
  have h4 : f.expField x = x / 2 ^ (f.p - 1) := by
    unfold Fmt.expField
    apply Nat.mod_eq_of_lt
    unfold Fmt.maxExpField at h1
    generalize x / 2 ^ (f.p - 1) = y at *
    generalize 2 ^ f.ebits = z at *
    omega
  have h5 : x / 2 ^ (f.p - 1) < f.bias + f.p := (Nat.div_lt_iff_lt_mul (Nat.two_pow_pos _)).mpr hx
  unfold exponent
  rw [h4]
  have hp := h.wf.hp
  split
  · rw [eminLsb_eq h.wf]; omega
  · omega

/-- the pattern of `2^p` -/
theorem ival_two_pow_p (h : FOK f) : ival f ((f.bias + f.p) * 2 ^ (f.p - 1)) = 2 * 2 ^ (f.p - 1) * unit f := by
  have hp := h.wf.hp
  have hb := bias_pos h.wf
  have e : (f.bias + f.p) * 2 ^ (f.p - 1) = (L f + 1) * 2 ^ (f.p - 1) + 2 ^ (f.p - 1) := by
    rw [← Nat.succ_mul]; congr 1; unfold L; omega
  rw [e, ival_kq f (L f + 1) _ (fun _ => Nat.le_refl _) (by omega), unit_eq, Nat.pow_succ]
  ac_rfl

/-- for an integer `n < 2^p` the quotient `n / r` has `exponent() ≤ 0`: the zero-padding loop is not entered -/
theorem exponent_fdiv_ofNat (h : FOK f) {n r : Nat} (hn : n < 2 * 2 ^ (f.p - 1)) (hr : r < 2 * 2 ^ (f.p - 1))
    (hr0 : 0 < r) : exponent f (fdiv f (ofNat f n) (ofNat f r)) ≤ 0 := by
  obtain ⟨hnv, hnf⟩ := ofNat_ival h hn
  obtain ⟨hrv, _⟩ := ofNat_ival h hr
  have hle : fdiv f (ofNat f n) (ofNat f r) ≤ ofNat f n := by
    have e : roundNE f (n * unit f) (unit f) = ofNat f n :=
      roundNE_of_ival h.wf hnf (unit_pos f) (by rw [hnv, unit_eq])
    have : fdiv f (ofNat f n) (ofNat f r) ≤ roundNE f (n * unit f) (unit f) := by
      unfold fdiv
      rw [ival_eq, ival_eq, hnv, hrv]
      apply roundNE_mono' h.wf (Nat.mul_pos hr0 (unit_pos f)) (unit_pos f)
      calc n * unit f * unit f = n * unit f * (1 * unit f) := by rw [Nat.one_mul]
        _ ≤ n * unit f * (r * unit f) := Nat.mul_le_mul_left _ (Nat.mul_le_mul_right _ hr0)
    rwa [e] at this
  have hlt : ofNat f n < (f.bias + f.p) * 2 ^ (f.p - 1) := by
    apply lt_of_ival_lt f
    rw [hnv, ival_two_pow_p h]
    exact Nat.mul_lt_mul_of_pos_right hn (unit_pos f)
  exact exponent_le_zero h (Nat.lt_of_le_of_lt hle hlt) (Nat.lt_of_le_of_lt hle hnf)

end Integers

end LexVerif.Proof.WriteRadixF
