import LexVerif.Model.WriteFloat
/-!
# Proof.WriteFloatBuf — calculus of the buffer primitives of `Model.WriteFloat`

`Res` inversion lemmas (`… = .ok r ↔ side conditions ∧ r = …`), pointwise semantics of `WBuf.put`, absence of `fault`.
-/
namespace LexVerif.Proof.WriteFloatBuf
open LexVerif.Spec LexVerif.Model LexVerif.Model.WriteFloat
open LexVerif.Model.WriteInt (Res)

/-! ## `Res` -/

@[simp] theorem bind_ok_iff {α β} (x : Res α) (f : α → Res β) (r : β) :
    (x >>= f) = .ok r ↔ ∃ a, x = .ok a ∧ f a = .ok r := by
  cases x <;> simp [bind, Res.bind]

theorem bind_fault_iff {α β} (x : Res α) (f : α → Res β) :
    (x >>= f) = .fault ↔ x = .fault ∨ ∃ a, x = .ok a ∧ f a = .fault := by
  cases x <;> simp [bind, Res.bind]

/-! ## `upd` / `put` -/

@[simp] theorem length_upd (l : List Nat) (off : Nat) (xs : List Nat) : (upd l off xs).length = l.length := by
  simp [upd]

theorem getD_upd (l : List Nat) (off : Nat) (xs : List Nat) (i : Nat) :
    (upd l off xs).getD i 0 =
      if off ≤ i ∧ i < off + xs.length ∧ i < l.length then xs.getD (i - off) 0 else l.getD i 0 := by
  simp only [upd, List.getD_eq_getElem?_getD, List.getElem?_mapIdx]
  by_cases hi : i < l.length
  · simp only [List.getElem?_eq_getElem hi, Option.map_some, Option.getD_some, hi, and_true]
  · simp [hi]

@[simp] theorem put_length (b : WBuf) (off : Nat) (xs : List Nat) : (b.put off xs).bytes.length = b.bytes.length := by
  simp [WBuf.put]
@[simp] theorem put_len (b : WBuf) (off : Nat) (xs : List Nat) : (b.put off xs).len = b.len := by
  simp [WBuf.len]
theorem put_getD (b : WBuf) (off : Nat) (xs : List Nat) (i : Nat) :
    (b.put off xs).bytes.getD i 0 =
      if off ≤ i ∧ i < off + xs.length ∧ i < b.bytes.length then xs.getD (i - off) 0 else b.bytes.getD i 0 := by
  simp only [WBuf.put]; exact getD_upd ..
theorem put_hi (b : WBuf) (off : Nat) (xs : List Nat) :
    (b.put off xs).hi = max b.hi (off + xs.length) := rfl

/-! ## inversion of the checked primitives -/

theorem set_ok_iff (b b' : WBuf) (i v : Nat) : b.set i v = .ok b' ↔ i < b.len ∧ b' = b.put i [v] := by
  unfold WBuf.set; split
  · simp [*, eq_comm]
  · simp [*]
theorem get_ok_iff (b : WBuf) (i x : Nat) : b.get i = .ok x ↔ i < b.len ∧ x = b.bytes.getD i 0 := by
  unfold WBuf.get; split
  · simp [*, eq_comm]
  · simp [*]
theorem blit_ok_iff (b b' : WBuf) (off : Nat) (xs : List Nat) :
    b.blit off xs = .ok b' ↔ off + xs.length ≤ b.len ∧ b' = b.put off xs := by
  unfold WBuf.blit; split
  · simp [*, eq_comm]
  · simp [*]
theorem fill_ok_iff (b b' : WBuf) (i j v : Nat) :
    b.fill i j v = .ok b' ↔ (i ≤ j ∧ j ≤ b.len) ∧ b' = b.put i (List.replicate (j - i) v) := by
  unfold WBuf.fill; split
  · simp [*, eq_comm]
  · simp [*]
theorem demand_ok_iff (b : WBuf) (k need : Nat) (u : Unit) :
    b.demand k need = .ok u ↔ k ≤ b.len ∧ need ≤ b.len - k := by
  unfold WBuf.demand; split
  · simp [*]
  · simp [*]

/-! ## no `fault` -/

theorem set_nofault (b : WBuf) (i v : Nat) : b.set i v ≠ .fault := by unfold WBuf.set; split <;> simp
theorem get_nofault (b : WBuf) (i : Nat) : b.get i ≠ .fault := by unfold WBuf.get; split <;> simp
theorem blit_nofault (b : WBuf) (off : Nat) (xs : List Nat) : b.blit off xs ≠ .fault := by
  unfold WBuf.blit; split <;> simp
theorem fill_nofault (b : WBuf) (i j v : Nat) : b.fill i j v ≠ .fault := by unfold WBuf.fill; split <;> simp
theorem demand_nofault (b : WBuf) (k need : Nat) : b.demand k need ≠ .fault := by
  unfold WBuf.demand; split <;> simp

theorem bind_nofault {α β} (x : Res α) (f : α → Res β) (hx : x ≠ .fault) (hf : ∀ a, f a ≠ .fault) :
    (x >>= f) ≠ .fault := by
  cases x with
  | ok a => exact hf a
  | fault => exact absurd rfl hx
  | panic => simp [bind, Res.bind]

@[simp] theorem chars_length (ds : List Nat) : (chars ds).length = ds.length := by simp [chars]
@[simp] theorem zeros_length (n : Nat) : (zeros n).length = n := by simp [zeros]

@[simp] theorem minExact_noMax (c : Nat) (o : WOpts) :
    minExactDigits c { o with maxDigits := none } = minExactDigits c o := rfl
@[simp] theorem tr_noMax (ds : List Nat) (o : WOpts) : truncateAndRound ds { o with maxDigits := none } = (ds, false) := rfl

theorem padZeros_ok_iff (b : WBuf) (cursor count exact : Nat) (r : Out) :
    padZeros b cursor count exact = .ok r ↔
      if count < exact then cursor + (exact - count) ≤ b.len ∧
        r = ⟨b.put cursor (List.replicate (exact - count) 48), cursor + (exact - count)⟩
      else r = ⟨b, cursor⟩ := by
  unfold padZeros
  split
  · have h1 : cursor + (exact - count) - cursor = exact - count := by omega
    simp only [bind_ok_iff, fill_ok_iff, Res.ok.injEq, h1]
    constructor
    · rintro ⟨a, ⟨⟨_, h3⟩, rfl⟩, rfl⟩; exact ⟨h3, rfl⟩
    · rintro ⟨h3, rfl⟩; exact ⟨_, ⟨⟨by omega, h3⟩, rfl⟩, rfl⟩
  · simp [eq_comm]

/-- closes `… ≠ .fault` goals for do-blocks built from the checked primitives -/
macro "nofault_tac" : tactic => `(tactic|
  repeat' (first
    | exact set_nofault _ _ _ | exact get_nofault _ _ | exact blit_nofault _ _ _ | exact fill_nofault _ _ _ _
    | exact demand_nofault _ _ _
    | refine bind_nofault _ _ ?_ (fun _ => ?_) | split | (intro h; cases h; done)))

theorem padZeros_nofault (b : WBuf) (cursor count exact : Nat) : padZeros b cursor count exact ≠ .fault := by
  unfold padZeros; nofault_tac

theorem writeExponentB_ok_iff (fmt : Format) (feats : Features) (b : WBuf) (cursor : Nat) (e : Int) (c : Nat) (r : Out) :
    writeExponentB fmt feats b cursor e c = .ok r ↔
      cursor < b.len ∧ cursor + 1 + (expSign fmt feats e).length ≤ b.len ∧
      (cursor + 1 + (expSign fmt feats e).length ≤ b.len ∧
        expNeed feats fmt.exponentRadix (numeral fmt.exponentRadix e.natAbs).length
          ≤ b.len - (cursor + 1 + (expSign fmt feats e).length)) ∧
      cursor + 1 + (expSign fmt feats e).length + (numeral fmt.exponentRadix e.natAbs).length ≤ b.len ∧
      r = ⟨((b.put cursor [c]).put (cursor + 1) (expSign fmt feats e)).put (cursor + 1 + (expSign fmt feats e).length)
              (numeral fmt.exponentRadix e.natAbs),
           cursor + 1 + (expSign fmt feats e).length + (numeral fmt.exponentRadix e.natAbs).length⟩ := by
  unfold writeExponentB
  simp only [bind_ok_iff, set_ok_iff, blit_ok_iff, demand_ok_iff, Res.ok.injEq]
  constructor
  · rintro ⟨b1, ⟨h1, rfl⟩, b2, ⟨h2, rfl⟩, u, h3, b3, ⟨h4, rfl⟩, rfl⟩
    simp only [put_len] at h2 h3 h4
    exact ⟨h1, h2, h3, h4, rfl⟩
  · rintro ⟨h1, h2, h3, h4, rfl⟩
    exact ⟨_, ⟨h1, rfl⟩, _, ⟨by simpa using h2, rfl⟩, (), by simpa using h3, _, ⟨by simpa using h4, rfl⟩, rfl⟩

theorem writeExponentB_nofault (fmt : Format) (feats : Features) (b : WBuf) (cursor : Nat) (e : Int) (c : Nat) :
    writeExponentB fmt feats b cursor e c ≠ .fault := by
  unfold writeExponentB; nofault_tac

/-! ## lengths after rounding -/

theorem roundUp_go_length (r : Nat) : ∀ l : List Nat, 1 ≤ (roundUp.go r l).1.length ∧ (roundUp.go r l).1.length ≤ max 1 l.length
  | [] => by simp [roundUp.go]
  | d :: rest => by
    unfold roundUp.go
    split
    · simp
    · have := roundUp_go_length r rest
      simp only [List.length_cons]; omega

theorem roundUp_length (r : Nat) (ds : List Nat) :
    1 ≤ (roundUp r ds).1.length ∧ (roundUp r ds).1.length ≤ max 1 ds.length := by
  unfold roundUp
  have := roundUp_go_length r ds.reverse
  simpa using this

theorem roundUp_go_carry (r : Nat) : ∀ l : List Nat, (roundUp.go r l).2 = true → (roundUp.go r l).1 = [1]
  | [] => by simp [roundUp.go]
  | d :: rest => by
    unfold roundUp.go
    split
    · simp
    · exact roundUp_go_carry r rest

theorem roundUp_carry (r : Nat) (ds : List Nat) (h : (roundUp r ds).2 = true) : (roundUp r ds).1 = [1] := by
  unfold roundUp at h ⊢
  have := roundUp_go_carry r ds.reverse h
  simp [this]

/-- after `truncate_and_round_decimal`: between 1 and `min (len, max)` digits; a carry leaves the single digit 1 -/
theorem truncateAndRound_length (ds : List Nat) (o : WOpts) (hds : 1 ≤ ds.length) (hmx : o.maxDigits ≠ some 0) :
    1 ≤ (truncateAndRound ds o).1.length ∧ (truncateAndRound ds o).1.length ≤ ds.length ∧
    (∀ mx, o.maxDigits = some mx → (truncateAndRound ds o).1.length ≤ mx) ∧
    ((truncateAndRound ds o).2 = true → (truncateAndRound ds o).1 = [1]) := by
  unfold truncateAndRound
  cases hm : o.maxDigits with
  | none => simp [hds]
  | some mx =>
    have hmx1 : 1 ≤ mx := by
      cases mx with
      | zero => exact absurd hm hmx
      | succ k => omega
    simp only
    by_cases h1 : mx ≥ ds.length
    · simp only [h1, ↓reduceIte, Option.some.injEq]
      refine ⟨hds, Nat.le_refl _, ?_, by simp⟩
      intro m hm'; omega
    · simp only [h1, ↓reduceIte, Option.some.injEq]
      have hru := roundUp_length 10 (ds.take mx)
      have hrc := roundUp_carry 10 (ds.take mx)
      have htl : (ds.take mx).length = mx := by simp; omega
      rw [htl] at hru
      have hmax : max 1 mx = mx := by omega
      rw [hmax] at hru
      repeat' split
      all_goals first
        | (refine ⟨by simp; omega, by simp; omega, ?_, by simp⟩; intro m hm'; simp; omega)
        | (refine ⟨hru.1, by omega, ?_, hrc⟩; intro m hm'; omega)

/-! ## the trim-after-rounding step (fix C14-decimal-trim-after-rounding) -/

theorem trimSci_cases (o : WOpts) (ds : List Nat) : trimSci o ds = ds ∨ trimSci o ds = ds.take 1 := by
  unfold trimSci; split <;> simp

theorem trimPos_cases (o : WOpts) (leading : Nat) (ds : List Nat) :
    trimPos o leading ds = ds ∨ (trimPos o leading ds = ds.take leading ∧ leading < ds.length) := by
  unfold trimPos; split
  · rename_i h; exact Or.inr ⟨rfl, h.2.1⟩
  · exact Or.inl rfl

theorem trimSci_length (o : WOpts) (ds : List Nat) (h : 1 ≤ ds.length) :
    1 ≤ (trimSci o ds).length ∧ (trimSci o ds).length ≤ ds.length := by
  rcases trimSci_cases o ds with h' | h' <;> rw [h'] <;> simp <;> omega

theorem trimPos_length (o : WOpts) (leading : Nat) (ds : List Nat) (h : 1 ≤ ds.length) (hl : 1 ≤ leading) :
    1 ≤ (trimPos o leading ds).length ∧ (trimPos o leading ds).length ≤ ds.length := by
  rcases trimPos_cases o leading ds with h' | ⟨h', h2⟩ <;> rw [h'] <;> simp <;> omega

theorem trimSci_one (o : WOpts) : trimSci o [1] = [1] := by unfold trimSci; split <;> rfl
theorem trimPos_one (o : WOpts) (leading : Nat) (hl : 1 ≤ leading) : trimPos o leading [1] = [1] := by
  unfold trimPos; rw [if_neg]; simp; omega

@[simp] theorem trimSci_noMax (o : WOpts) (ds : List Nat) : trimSci { o with maxDigits := none } ds = trimSci o ds := rfl
@[simp] theorem trimPos_noMax (o : WOpts) (l : Nat) (ds : List Nat) :
    trimPos { o with maxDigits := none } l ds = trimPos o l ds := rfl

/-- `roundSci`: between 1 and `min (len, max)` digits; a carry leaves the single digit 1 -/
theorem roundSci_length (ds : List Nat) (o : WOpts) (hds : 1 ≤ ds.length) (hmx : o.maxDigits ≠ some 0) :
    1 ≤ (roundSci ds o).1.length ∧ (roundSci ds o).1.length ≤ ds.length ∧
    (∀ mx, o.maxDigits = some mx → (roundSci ds o).1.length ≤ mx) ∧
    ((roundSci ds o).2 = true → (roundSci ds o).1 = [1]) ∧
    (roundSci ds o).1.length ≤ (truncateAndRound ds o).1.length := by
  obtain ⟨h1, h2, h3, h4⟩ := truncateAndRound_length ds o hds hmx
  have ht := trimSci_length o (truncateAndRound ds o).1 h1
  unfold roundSci
  dsimp only
  refine ⟨ht.1, by omega, fun mx hm => by have := h3 mx hm; omega, fun hc => ?_, ht.2⟩
  rw [h4 hc]; exact trimSci_one o

theorem roundPos_length (ds : List Nat) (e : Int) (o : WOpts) (hds : 1 ≤ ds.length) (hmx : o.maxDigits ≠ some 0) :
    1 ≤ (roundPos ds e o).1.length ∧ (roundPos ds e o).1.length ≤ ds.length ∧
    (∀ mx, o.maxDigits = some mx → (roundPos ds e o).1.length ≤ mx) ∧
    ((roundPos ds e o).2 = true → (roundPos ds e o).1 = [1]) ∧
    (roundPos ds e o).1.length ≤ (truncateAndRound ds o).1.length := by
  obtain ⟨h1, h2, h3, h4⟩ := truncateAndRound_length ds o hds hmx
  have ht := trimPos_length o (e.toNat + 1 + (if (truncateAndRound ds o).2 = true then 1 else 0))
    (truncateAndRound ds o).1 h1 (by omega)
  unfold roundPos
  dsimp only
  refine ⟨ht.1, by omega, fun mx hm => by have := h3 mx hm; omega, fun hc => ?_, ht.2⟩
  rw [h4 hc]; exact trimPos_one o _ (by omega)

@[simp] theorem roundSci_noMax (ds : List Nat) (o : WOpts) :
    roundSci ds { o with maxDigits := none } = (trimSci o ds, false) := rfl
@[simp] theorem roundPos_noMax (ds : List Nat) (e : Int) (o : WOpts) :
    roundPos ds e { o with maxDigits := none } = (trimPos o (e.toNat + 1) ds, false) := rfl

/-- two lists agree when they have the same length and the same `getD` everywhere below it -/
theorem ext_getD (a b : List Nat) (hl : a.length = b.length) (h : ∀ i, i < a.length → a.getD i 0 = b.getD i 0) : a = b := by
  apply List.ext_getElem hl
  intro i h1 h2
  have := h i h1
  simpa [List.getD_eq_getElem?_getD, List.getElem?_eq_getElem h1, List.getElem?_eq_getElem h2] using this

theorem take_eq_of_getD (l t : List Nat) (n : Nat) (hn : n ≤ l.length) (hl : t.length = n)
    (h : ∀ i, i < n → l.getD i 0 = t.getD i 0) : l.take n = t := by
  apply ext_getD
  · simp [hl]; omega
  · intro i hi
    simp only [List.length_take] at hi
    have hi' : i < n := by omega
    rw [← h i hi']
    simp [List.getD_eq_getElem?_getD, hi']

end LexVerif.Proof.WriteFloatBuf
