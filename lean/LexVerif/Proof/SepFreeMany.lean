import LexVerif.Proof.SepFreePhases
/-!
# Proof.SepFreeMany — `skip_zeros`, `parse_u64_digits` and the many-digits re-parse on separator-free input
-/
set_option linter.unusedSimpArgs false
namespace LexVerif.Proof.Sep
open LexVerif LexVerif.Model LexVerif.Spec
open LexVerif.Props.C12

theorem skipZeros_nosep (c : Cfg) (k : Comp) (hd : c.debug = false) (hk : c.skip k ≠ .unreachable) (b : Bytes)
    (hn : NoSep c b.slc) :
    skipZeros c k b = .ok (Bytes.iterCount c k (adv c k (zerosPrefix (b.slc.drop b.index)) b) - Bytes.iterCount c k b,
      adv c k (zerosPrefix (b.slc.drop b.index)) b) := by
  unfold skipZeros
  rw [skipZerosLoop_nosep c k hd hk (b.slc.length + 1) b hn (by omega)]
  simp [bind, Except.bind, pure, Except.pure]

theorem iterCount_sep (c : Cfg) (hS : SepClass c) (k : Comp) (hk : k = .integer ∨ k = .fraction) (n : Nat) (b : Bytes) :
    Bytes.iterCount c k (adv c k n b) - Bytes.iterCount c k b = n := by
  rcases hk with rfl | rfl
  · simp [Bytes.iterCount, hS.int, adv, hS.format]
  · simp [Bytes.iterCount, hS.frac, adv, hS.format]

/-- a non-contiguous component iterator exists only with the `format` feature -/
theorem format_of_iter {c : Cfg} {k : Comp} (h : c.iterContiguous k = false) : c.feats.format = true := by
  cases hf : c.feats.format
  · cases k <;> simp [Cfg.iterContiguous, Cfg.sepFlags, Cfg.specialSep, Cfg.flag, hf, SepFlags.any] at h
  · rfl

/-- `<iterator>::current_count` after `n` digits of the integer / fraction component: `n` more, whatever the format -/
theorem iterCount_rel (c : Cfg) (k : Comp) (hk : k = .integer ∨ k = .fraction) (n : Nat) (b : Bytes) :
    Bytes.iterCount c k (adv c k n b) - Bytes.iterCount c k b = n := by
  cases hc : c.iterContiguous k
  · have hf := format_of_iter hc
    rcases hk with rfl | rfl <;> simp [Bytes.iterCount, hc, adv, hf]
  · simp [Bytes.iterCount, hc]

theorem iterCount_plain (c : Cfg) (hP : PlainClass c) (k : Comp) (n : Nat) (b : Bytes) :
    Bytes.iterCount c k (adv c k n b) - Bytes.iterCount c k b = n := by
  simp [Bytes.iterCount, hP.contig k, Bytes.currentCount, hP.bytes]

/-- `parse_u64_digits`, digit by digit: (bytes consumed, mantissa, remaining step) -/
def u64Spec (radix : Nat) : List Nat → Nat → Nat → Nat × Nat × Nat
  | [], m, st => (0, m, st)
  | x :: xs, m, st =>
    if st > 0 then
      let r := u64Spec radix xs ((m * radix + charToValidDigit x radix) % pow2_64) (st - 1)
      (r.1 + 1, r.2.1, r.2.2)
    else (0, m, st)

theorem u64Loop1_nosep (c : Cfg) (k : Comp) (hd : c.debug = false) (hk : c.skip k ≠ .unreachable) :
    ∀ (fuel : Nat) (b : Bytes) (m st : Nat), NoSep c b.slc → b.slc.length - b.index < fuel →
      u64Loop1 c k fuel b m st =
        .ok (adv c k (u64Spec c.mantissaRadix (b.slc.drop b.index) m st).1 b,
             (u64Spec c.mantissaRadix (b.slc.drop b.index) m st).2.1,
             (u64Spec c.mantissaRadix (b.slc.drop b.index) m st).2.2) := by
  intro fuel
  induction fuel with
  | zero => intro b _ _ _ h; omega
  | succ n ih =>
    intro b m st hn hf
    unfold u64Loop1
    rw [peek_nosep c k b hn hk]
    simp only [bind, Except.bind]
    cases hv : b.slc[b.index]? with
    | none => simp [drop_of_none hv, u64Spec, adv_zero, pure, Except.pure]
    | some ch =>
      have hlt : b.index < b.slc.length := (List.getElem?_eq_some_iff.mp hv).1
      simp only [drop_of_get hv, u64Spec]
      by_cases hst : st > 0
      · simp only [hst, if_true, hd, Bool.false_and, Bool.false_eq_true, if_false, iterStep,
          stepUnchecked_release c _ b hd]
        have hi := incCount_spec c k { b with index := b.index + 1 }
        have hn2 : NoSep c (Bytes.incCount c k { b with index := b.index + 1 }).slc := by rw [hi.1]; exact hn
        have hf2 : (Bytes.incCount c k { b with index := b.index + 1 }).slc.length
            - (Bytes.incCount c k { b with index := b.index + 1 }).index < n := by
          rw [hi.1, hi.2]; simp only; omega
        rw [ih _ _ _ hn2 hf2, hi.1, hi.2]
        simp only [adv_succ]
      · simp [hst, adv_zero, pure, Except.pure]

theorem u64Spec_step (radix : Nat) : ∀ (l : List Nat) (m st : Nat),
    (u64Spec radix l m st).2.2 = st - (u64Spec radix l m st).1 ∧ (u64Spec radix l m st).1 = min st l.length := by
  intro l
  induction l with
  | nil => intro m st; simp [u64Spec]
  | cons x xs ih =>
    intro m st
    simp only [u64Spec]
    by_cases hst : st > 0
    · simp only [hst, if_true, List.length_cons]
      have := ih ((m * radix + charToValidDigit x radix) % pow2_64) (st - 1)
      omega
    · simp only [hst, if_false, List.length_cons]; omega

/-- eight (or any number of) digit bytes within the step budget are consumed one by one -/
theorem u64Spec_digits (r : Nat) (hr : r ≤ 10) : ∀ (bs rest : List Nat) (m st : Nat), is8Digits r bs = true →
    bs.length ≤ st →
    u64Spec r (bs ++ rest) m st =
      ((u64Spec r rest (foldMantissa r m (bs.map (· - 48))) (st - bs.length)).1 + bs.length,
       (u64Spec r rest (foldMantissa r m (bs.map (· - 48))) (st - bs.length)).2.1,
       (u64Spec r rest (foldMantissa r m (bs.map (· - 48))) (st - bs.length)).2.2) := by
  intro bs
  induction bs with
  | nil => intro rest m st _ _; simp [foldMantissa]
  | cons x xs ih =>
    intro rest m st h8 hl
    simp only [is8Digits, List.all_cons, Bool.and_eq_true] at h8
    have hx := (digit_of_is8 r x hr (by simpa using h8.1)).2
    simp only [List.length_cons] at hl
    have hst : st > 0 := by omega
    simp only [List.cons_append, u64Spec, hst, if_true, hx]
    rw [ih rest _ (st - 1) (by simpa [is8Digits] using h8.2) (by omega)]
    simp only [List.map_cons, foldMantissa, List.foldl_cons, List.length_cons]
    have : st - 1 - xs.length = st - (xs.length + 1) := by omega
    rw [this]
    refine Prod.ext ?_ rfl
    simp only; omega

/-- 8-digit part of `parse_u64_digits` on a contiguous iterator -/
theorem u64Loop8_spec (c : Cfg) (k : Comp) (hd : c.debug = false) (hr : c.mantissaRadix ≤ 10) :
    ∀ (fuel : Nat) (b : Bytes) (m st : Nat), b.slc.length - b.index < fuel →
      ∃ j m1, u64Loop8 c k fuel b m st = .ok (adv c k (8 * j) b, m1, st - 8 * j) ∧
        u64Spec c.mantissaRadix (b.slc.drop b.index) m st =
          ((u64Spec c.mantissaRadix (b.slc.drop (b.index + 8 * j)) m1 (st - 8 * j)).1 + 8 * j,
           (u64Spec c.mantissaRadix (b.slc.drop (b.index + 8 * j)) m1 (st - 8 * j)).2.1,
           (u64Spec c.mantissaRadix (b.slc.drop (b.index + 8 * j)) m1 (st - 8 * j)).2.2) := by
  intro fuel
  induction fuel with
  | zero => intro b m st h; omega
  | succ n ih =>
    intro b m st hf
    unfold u64Loop8
    by_cases hst : st > 8
    · simp only [hst, if_true]
      rcases tryParse8_cases c k b hd with h | ⟨bs, hl, hdrop, hle, h8, h⟩
      · exact ⟨0, m, by simp [h, bind, Except.bind, pure, Except.pure, adv_zero], by simp⟩
      · obtain ⟨j, m1, h1, h2⟩ := ih (adv c k 8 b)
          ((m * radix8 c.mantissaRadix + val8Digits c.mantissaRadix bs) % pow2_64) (st - 8)
          (by simp only [adv_slc, adv_index]; omega)
        simp only [adv_slc, adv_index, adv_add] at h1 h2
        refine ⟨j + 1, m1, ?_, ?_⟩
        · simp only [h, bind, Except.bind, h1]
          have e1 : 8 + 8 * j = 8 * (j + 1) := by omega
          have e2 : st - 8 - 8 * j = st - 8 * (j + 1) := by omega
          rw [e1, e2]
        · have e1 : b.index + 8 * (j + 1) = b.index + 8 + 8 * j := by omega
          have e2 : st - 8 * (j + 1) = st - 8 - 8 * j := by omega
          rw [e1, e2, hdrop, u64Spec_digits _ hr bs _ m st h8 (by omega), hl, ← val8_step _ _ _ hr hl, h2]
          refine Prod.ext ?_ rfl
          simp only; omega
    · exact ⟨0, m, by simp [hst, pure, Except.pure, adv_zero], by simp⟩

/-- `parse_u64_digits` of **any** valid format on separator-free input -/
theorem parseU64_rel (c : Cfg) (k : Comp) (hS : RelClass c) (b : Bytes) (m st : Nat) (hn : NoSep c b.slc) :
    parseU64Digits c k b m st =
      .ok (adv c k (u64Spec c.mantissaRadix (b.slc.drop b.index) m st).1 b,
           (u64Spec c.mantissaRadix (b.slc.drop b.index) m st).2.1,
           (u64Spec c.mantissaRadix (b.slc.drop b.index) m st).2.2) := by
  unfold parseU64Digits
  by_cases hm : (!c.feats.compact && canMultidigit c k) = true
  · have hr : c.mantissaRadix ≤ 10 := by
      simp only [canMultidigit, Bool.and_eq_true, Bool.or_eq_true, Bool.not_eq_true',
        decide_eq_true_eq] at hm
      rcases hm.2.2 with h | h
      · exact hS.radix h
      · exact h
    obtain ⟨j, m1, h1, h2⟩ := u64Loop8_spec c k hS.debug hr (b.slc.length + 1) b m st (by omega)
    simp only [hm, if_true, hS.debug, Bool.false_and, Bool.false_eq_true, if_false, h1, bind, Except.bind]
    rw [u64Loop1_nosep c k hS.debug (hS.reach k) _ _ m1 (st - 8 * j) (by simpa using hn)
      (by simp only [adv_slc, adv_index]; omega)]
    simp only [adv_slc, adv_index, adv_add, h2]
    rw [Nat.add_comm (8 * j)]
  · simp only [hm, Bool.false_eq_true, if_false, pure, Except.pure, bind, Except.bind]
    exact u64Loop1_nosep c k hS.debug (hS.reach k) _ b m st hn (by omega)

theorem parseU64_sep (c : Cfg) (k : Comp) (hd : c.debug = false) (hk : c.skip k ≠ .unreachable)
    (hc : c.iterContiguous k = false) (b : Bytes) (m st : Nat) (hn : NoSep c b.slc) :
    parseU64Digits c k b m st =
      .ok (adv c k (u64Spec c.mantissaRadix (b.slc.drop b.index) m st).1 b,
           (u64Spec c.mantissaRadix (b.slc.drop b.index) m st).2.1,
           (u64Spec c.mantissaRadix (b.slc.drop b.index) m st).2.2) := by
  unfold parseU64Digits
  simp only [canMultidigit, hc, Bool.false_and, Bool.and_false, Bool.false_eq_true, if_false, pure, Except.pure,
    bind, Except.bind]
  exact u64Loop1_nosep c k hd hk _ b m st hn (by omega)

theorem parseU64_plain (c : Cfg) (k : Comp) (hP : PlainClass c) (b : Bytes) (m st : Nat) :
    ∃ e, e.slc = b.slc ∧ e.index = b.index + (u64Spec c.mantissaRadix (b.slc.drop b.index) m st).1 ∧
      parseU64Digits c k b m st =
        .ok (e, (u64Spec c.mantissaRadix (b.slc.drop b.index) m st).2.1,
             (u64Spec c.mantissaRadix (b.slc.drop b.index) m st).2.2) :=
  ⟨_, by simp, by simp, parseU64_rel c k hP.rel b m st (hP.noSep _)⟩

end LexVerif.Proof.Sep
