import LexVerif.Proof.WriteFloatBound2
/-!
# Proof.WriteFloatBoundTop — `need` of the decimal back-end and of `write_float`; arithmetic against `buffer_size_const`
-/
namespace LexVerif.Proof.WriteFloatBound
open LexVerif.Spec LexVerif.Model LexVerif.Model.WriteFloat LexVerif.Proof.WriteFloatBuf
open LexVerif.Model.WriteInt (Res)

/-! ## nofault for the layout functions -/

theorem negC_nofault (ds : List Nat) (e : Int) (o : WOpts) (b : WBuf) : negC ds e o b ≠ .fault := by
  unfold negC
  refine bind_nofault _ _ (set_nofault _ _ _) fun _ => bind_nofault _ _ (set_nofault _ _ _) fun _ =>
    bind_nofault _ _ (fill_nofault _ _ _ _) fun _ => bind_nofault _ _ (blit_nofault _ _ _) fun _ => padZeros_nofault _ _ _ _

theorem posCLayout_nofault (ds : List Nat) (e : Int) (o : WOpts) (b : WBuf) : posCLayout ds e o b ≠ .fault := by
  unfold posCLayout
  dsimp only
  split
  · refine bind_nofault _ _ (blit_nofault _ _ _) fun _ => bind_nofault _ _ (fill_nofault _ _ _ _) fun _ => ?_
    split
    · exact bind_nofault _ _ (set_nofault _ _ _) fun _ => bind_nofault _ _ (set_nofault _ _ _) fun _ => padZeros_nofault _ _ _ _
    · intro h; cases h
  · exact bind_nofault _ _ (blit_nofault _ _ _) fun _ => bind_nofault _ _ (set_nofault _ _ _) fun _ =>
      bind_nofault _ _ (blit_nofault _ _ _) fun _ => padZeros_nofault _ _ _ _

theorem sciCLayout_nofault (fmt : Format) (feats : Features) (ds : List Nat) (e : Int) (o : WOpts) (b : WBuf) :
    sciCLayout fmt feats ds e o b ≠ .fault := by
  unfold sciCLayout
  exact bind_nofault _ _ (set_nofault _ _ _) fun _ => bind_nofault _ _ (set_nofault _ _ _) fun _ =>
    bind_nofault _ _ (sciBody_nofault _ _ _ _ _) fun _ => writeExponentB_nofault _ _ _ _ _ _

theorem posC_nofault (ds : List Nat) (e : Int) (o : WOpts) (b : WBuf) : posC ds e o b ≠ .fault :=
  posCLayout_nofault _ e o b
theorem sciC_nofault (fmt : Format) (feats : Features) (ds : List Nat) (e : Int) (o : WOpts) (b : WBuf) :
    sciC fmt feats ds e o b ≠ .fault := sciCLayout_nofault fmt feats _ e o b

theorem negN_nofault (nd : Nat) (ds : List Nat) (e : Int) (o : WOpts) (b : WBuf) : negN nd ds e o b ≠ .fault := by
  unfold negN
  dsimp only
  refine bind_nofault _ _ (fill_nofault _ _ _ _) fun _ => bind_nofault _ _ (demand_nofault _ _ _) fun _ =>
    bind_nofault _ _ (blit_nofault _ _ _) fun _ => bind_nofault _ _ (blit_nofault _ _ _) fun _ => ?_
  split
  · refine bind_nofault _ _ (set_nofault _ _ _) fun _ => ?_
    split
    · intro h; cases h
    · exact bind_nofault _ _ (set_nofault _ _ _) fun _ => bind_nofault _ _ (set_nofault _ _ _) fun _ => padZeros_nofault _ _ _ _
  · split
    · exact bind_nofault _ _ (set_nofault _ _ _) fun _ => bind_nofault _ _ (get_nofault _ _) fun _ =>
        bind_nofault _ _ (set_nofault _ _ _) fun _ => padZeros_nofault _ _ _ _
    · exact bind_nofault _ _ (set_nofault _ _ _) fun _ => padZeros_nofault _ _ _ _

theorem posN_nofault (nd : Nat) (ds : List Nat) (e : Int) (o : WOpts) (b : WBuf) : posN nd ds e o b ≠ .fault := by
  unfold posN
  dsimp only
  generalize e.toNat + 1 + (if (truncateAndRound ds o).2 = true then 1 else 0) = leading
  refine bind_nofault _ _ (demand_nofault _ _ _) fun _ => bind_nofault _ _ (blit_nofault _ _ _) fun _ =>
    bind_nofault _ _ (blit_nofault _ _ _) fun _ => ?_
  split
  · refine bind_nofault _ _ (fill_nofault _ _ _ _) fun _ => ?_
    split
    · exact bind_nofault _ _ (set_nofault _ _ _) fun _ => bind_nofault _ _ (set_nofault _ _ _) fun _ => padZeros_nofault _ _ _ _
    · intro h; cases h
  · exact bind_nofault _ _ (demand_nofault _ _ _) fun _ => bind_nofault _ _ (blit_nofault _ _ _) fun _ =>
      bind_nofault _ _ (set_nofault _ _ _) fun _ => padZeros_nofault _ _ _ _

theorem sciN_nofault (fmt : Format) (feats : Features) (nd : Nat) (ds : List Nat) (e : Int) (o : WOpts) (b : WBuf) :
    sciN fmt feats nd ds e o b ≠ .fault := by
  unfold sciN
  dsimp only
  exact bind_nofault _ _ (demand_nofault _ _ _) fun _ => bind_nofault _ _ (blit_nofault _ _ _) fun _ =>
    bind_nofault _ _ (blit_nofault _ _ _) fun _ => bind_nofault _ _ (get_nofault _ _) fun _ =>
    bind_nofault _ _ (set_nofault _ _ _) fun _ => bind_nofault _ _ (set_nofault _ _ _) fun _ =>
    bind_nofault _ _ (sciBody_nofault _ _ _ _ _) fun _ => writeExponentB_nofault _ _ _ _ _ _

theorem decimalB_nofault (fmt : Format) (feats : Features) (f : Fmt) (debug : Bool) (ds : List Nat) (e : Int) (o : WOpts)
    (b : WBuf) : decimalB fmt feats f debug ds e o b ≠ .fault := by
  unfold decimalB decimalC decimalN
  dsimp only
  repeat' split
  all_goals first
    | exact sciC_nofault _ _ _ _ _ _ | exact negC_nofault _ _ _ _ | exact posC_nofault _ _ _ _
    | exact sciN_nofault _ _ _ _ _ _ _ | exact negN_nofault _ _ _ _ _ | exact posN_nofault _ _ _ _ _
    | (intro h; cases h)

/-! ## the decimal back-end -/

def needDecC (fmt : Format) (feats : Features) (ds : List Nat) (sci : Int) (o : WOpts) : Nat :=
  let tr := truncateAndRound ds o
  let sci' := sci + (if tr.2 = true then 1 else 0)
  if ¬ fmt.noExponentNotation = true ∧
      (fmt.requiredExponentNotation = true ∨ sci' < o.negBreak.getD (-5) ∨ sci' > o.posBreak.getD 9) then
    needSciC fmt feats (trimSci o tr.1).length o (expSign fmt feats sci').length (numeral fmt.exponentRadix sci'.natAbs).length
  else if sci' < 0 then needNegC sci'.natAbs tr.1.length (minExactDigits tr.1.length o)
  else needPosC (sci'.toNat + 1) (trimPos o (sci'.toNat + 1) tr.1).length o.trim (minExactDigits (sci'.toNat + 1 + 1) o)
    (minExactDigits (trimPos o (sci'.toNat + 1) tr.1).length o)

def needDecN (fmt : Format) (feats : Features) (nd : Nat) (ds : List Nat) (sci : Int) (o : WOpts) : Nat :=
  let tr := truncateAndRound ds o
  let carry : Nat := if tr.2 = true then 1 else 0
  if ¬ fmt.noExponentNotation = true ∧
      (fmt.requiredExponentNotation = true ∨ sci < o.negBreak.getD (-5) ∨ sci > o.posBreak.getD 9) then
    needSciN fmt feats nd ds.length (roundSci ds o).1.length o (expSign fmt feats (sci + (if tr.2 = true then 1 else 0))).length
      (numeral fmt.exponentRadix (sci + (if tr.2 = true then 1 else 0)).natAbs).length
  else if sci < 0 then needNegN nd ds.length tr.1.length tr.2 o.trim sci.natAbs (minExactDigits tr.1.length o)
  else needPosN nd ds.length (roundPos ds sci o).1.length (sci.toNat + 1 + carry) o.trim
    (minExactDigits (sci.toNat + 1 + carry + 1) o) (minExactDigits (roundPos ds sci o).1.length o)

/-- minimal slice length with which the decimal back-end does not panic -/
def needDec (fmt : Format) (feats : Features) (f : Fmt) (ds : List Nat) (sci : Int) (o : WOpts) : Nat :=
  if feats.compact = true then needDecC (effFmt feats fmt) feats ds sci o
  else needDecN (effFmt feats fmt) feats (mantNeed f) ds sci o

theorem decimalB_panic_iff (fmt : Format) (feats : Features) (f : Fmt) (ds : List Nat) (sci : Int) (o : WOpts) (b : WBuf)
    (hds : 1 ≤ ds.length) (hds32 : ds.length ≤ 32) (hmx : o.maxDigits ≠ some 0) :
    decimalB fmt feats f false ds sci o b = .panic ↔ b.len < needDec fmt feats f ds sci o := by
  obtain ⟨hc1, hc2, _, _⟩ := truncateAndRound_length ds o hds hmx
  unfold decimalB needDec
  by_cases hc : feats.compact = true
  · rw [if_pos hc, if_pos hc]
    unfold decimalC needDecC
    dsimp only
    rw [if_neg (by omega)]
    simp only [Bool.false_eq_true, false_and, if_false]
    generalize sci + (if (truncateAndRound ds o).2 = true then 1 else 0) = sci'
    by_cases c2 : ¬ (effFmt feats fmt).noExponentNotation = true ∧ ((effFmt feats fmt).requiredExponentNotation = true ∨
        sci' < o.negBreak.getD (-5) ∨ sci' > o.posBreak.getD 9)
    · rw [if_pos c2, if_pos c2]; exact sciCLayout_panic_iff _ _ _ _ _ _
    · rw [if_neg c2, if_neg c2]
      by_cases c3 : sci' < 0
      · rw [if_pos c3, if_pos c3]; exact negC_panic_iff _ _ _ _ (by omega)
      · rw [if_neg c3, if_neg c3]; exact posCLayout_panic_iff _ _ _ _
  · rw [if_neg hc, if_neg hc]
    unfold decimalN needDecN
    dsimp only
    by_cases c2 : ¬ (effFmt feats fmt).noExponentNotation = true ∧ ((effFmt feats fmt).requiredExponentNotation = true ∨
        sci < o.negBreak.getD (-5) ∨ sci > o.posBreak.getD 9)
    · rw [if_pos c2, if_pos c2]; exact sciN_panic_iff _ _ _ _ _ _ _ hc1 hc2
    · rw [if_neg c2, if_neg c2]
      by_cases c3 : sci < 0
      · rw [if_pos c3, if_pos c3]; exact negN_panic_iff _ _ _ _ _ (by omega) hc1 hc2
      · rw [if_neg c3, if_neg c3]; exact posN_panic_iff _ _ _ _ _ hc1 hc2

theorem decimalB_ok_facts (fmt : Format) (feats : Features) (f : Fmt) (ds : List Nat) (sci : Int) (o : WOpts) (b : WBuf)
    (r : Out) (hds : 1 ≤ ds.length) (hmx : o.maxDigits ≠ some 0)
    (h : decimalB fmt feats f false ds sci o b = .ok r) :
    r.buf.len = b.len ∧ r.cursor ≤ needDec fmt feats f ds sci o ∧
    r.buf.hi ≤ max b.hi (needDec fmt feats f ds sci o) := by
  obtain ⟨hc1, hc2, _, _⟩ := truncateAndRound_length ds o hds hmx
  unfold decimalB at h
  unfold needDec
  by_cases hc : feats.compact = true
  · rw [if_pos hc] at h; rw [if_pos hc]
    unfold decimalC at h
    unfold needDecC
    dsimp only at h ⊢
    by_cases c0 : ds.length > 32
    · rw [if_pos c0] at h; cases h
    · rw [if_neg c0] at h
      simp only [Bool.false_eq_true, false_and, if_false] at h
      generalize sci + (if (truncateAndRound ds o).2 = true then 1 else 0) = sci' at h ⊢
      by_cases c2 : ¬ (effFmt feats fmt).noExponentNotation = true ∧ ((effFmt feats fmt).requiredExponentNotation = true ∨
          sci' < o.negBreak.getD (-5) ∨ sci' > o.posBreak.getD 9)
      · rw [if_pos c2] at h; rw [if_pos c2]; exact sciCLayout_ok_facts _ _ _ _ _ _ _ h
      · rw [if_neg c2] at h; rw [if_neg c2]
        by_cases c3 : sci' < 0
        · rw [if_pos c3] at h; rw [if_pos c3]; exact negC_ok_facts _ _ _ _ _ h
        · rw [if_neg c3] at h; rw [if_neg c3]; exact posCLayout_ok_facts _ _ _ _ _ h
  · rw [if_neg hc] at h; rw [if_neg hc]
    unfold decimalN at h
    unfold needDecN
    dsimp only at h ⊢
    by_cases c2 : ¬ (effFmt feats fmt).noExponentNotation = true ∧ ((effFmt feats fmt).requiredExponentNotation = true ∨
        sci < o.negBreak.getD (-5) ∨ sci > o.posBreak.getD 9)
    · rw [if_pos c2] at h; rw [if_pos c2]; exact sciN_ok_facts _ _ _ _ _ _ _ _ hc1 hc2 h
    · rw [if_neg c2] at h; rw [if_neg c2]
      by_cases c3 : sci < 0
      · rw [if_pos c3] at h; rw [if_pos c3]; exact negN_ok_facts _ _ _ _ _ _ hc1 hc2 h
      · rw [if_neg c3] at h; rw [if_neg c3]; exact posN_ok_facts _ _ _ _ _ _ hc1 hc2 h

end LexVerif.Proof.WriteFloatBound
