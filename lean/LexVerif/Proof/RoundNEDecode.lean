import LexVerif.Proof.RoundNECell
/-!
# Proof.RoundNEDecode — `decode` of finite patterns vs `ival`; Nat-level corollaries (Mathlib-free)
-/
namespace LexVerif.Proof.RoundNE
open LexVerif.Spec

theorem infBits_lt_signBit {f : Fmt} (hf : WF f) : f.infBits < f.signBit := by
  have hp := hf.hp
  have he := hf.he
  unfold Fmt.infBits Fmt.signBit Fmt.totalBits
  rw [show f.p + f.ebits - 1 = f.ebits + (f.p - 1) by omega, Nat.pow_add]
  exact Nat.mul_lt_mul_of_pos_right (by have := Nat.two_pow_pos f.ebits; omega) (Nat.two_pow_pos _)

theorem expField_lt {f : Fmt} {b : Nat} (hb : b < f.infBits) :
    b / 2 ^ (f.p - 1) < f.maxExpField := by
  rw [Nat.div_lt_iff_lt_mul (Nat.two_pow_pos _)]; exact hb

/-- `decode` on finite non-negative patterns, with the bit-field extraction resolved. -/
theorem decode_finite {f : Fmt} (hf : WF f) {b : Nat} (hb : b < f.infBits) :
    f.decode b =
      if b / 2 ^ (f.p - 1) = 0 then ⟨false, b % 2 ^ (f.p - 1), f.eminLsb⟩
      else ⟨false, b % 2 ^ (f.p - 1) + 2 ^ (f.p - 1),
            ((b / 2 ^ (f.p - 1) : Nat) : Int) - (f.bias : Int) - ((f.p : Int) - 1)⟩ := by
  have h1 := expField_lt hb
  have h2 : b / f.signBit = 0 := Nat.div_eq_of_lt (Nat.lt_trans hb (infBits_lt_signBit hf))
  have h3 : f.isNeg b = false := by simp [Fmt.isNeg, h2]
  have h4 : f.expField b = b / 2 ^ (f.p - 1) := by
    unfold Fmt.expField
    apply Nat.mod_eq_of_lt
    unfold Fmt.maxExpField at h1
    generalize b / 2 ^ (f.p - 1) = x at *
    generalize 2 ^ f.ebits = y at *
    omega
  unfold Fmt.decode
  simp only [h3, h4, Fmt.manField]

/-- the fraction `toFrac (decode b)` has value `ival b · 2^-L` -/
theorem toFrac_decode {f : Fmt} (hf : WF f) {b : Nat} (hb : b < f.infBits) :
    (f.decode b).toFrac.1 * 2 ^ (L f) = ival f b * (f.decode b).toFrac.2 ∧
    0 < (f.decode b).toFrac.2 := by
  have hp := hf.hp
  have hbias := bias_pos hf
  rw [decode_finite hf hb]
  unfold ival
  generalize hT : 2 ^ (f.p - 1) = T
  generalize b % T = mf
  generalize hef : b / T = ef
  by_cases h0 : ef = 0
  · simp only [h0, if_true]
    have : ¬ (f.eminLsb ≥ 0) := by rw [eminLsb_eq hf]; unfold L; omega
    unfold Dec.toFrac
    simp only [this, if_false]
    have : (-f.eminLsb).toNat = L f := by rw [eminLsb_eq hf]; omega
    rw [this]
    exact ⟨rfl, Nat.two_pow_pos _⟩
  · simp only [h0, if_false]
    unfold Dec.toFrac
    simp only []
    have hL : (L f : Int) = (f.bias : Int) + ((f.p : Int) - 1) - 1 := by unfold L; omega
    split
    · rename_i hge
      refine ⟨?_, Nat.one_pos⟩
      simp only [Nat.mul_one]
      rw [Nat.mul_assoc, ← Nat.pow_add]
      congr 2; omega
    · rename_i hlt
      refine ⟨?_, Nat.two_pow_pos _⟩
      rw [Nat.mul_assoc, ← Nat.pow_add]
      congr 2; omega

/-- (5) rounding an exactly representable value returns it. -/
theorem roundNE_of_float' {f : Fmt} (hf : WF f) {b : Nat} (hb : b < f.infBits) :
    roundNE f (f.decode b).toFrac.1 (f.decode b).toFrac.2 = b := by
  obtain ⟨h1, h2⟩ := toFrac_decode hf hb
  apply roundNE_unique hf (Nat.ne_of_gt h2)
  rw [h1]
  generalize (f.decode b).toFrac.2 = d at *
  have s1 : b ≠ 0 → ival f (b - 1) < ival f b := fun h => ival_strictMono f (by omega)
  have s2 := ival_lt_succ f b
  have e : 2 * (ival f b * d) = d * (ival f b + ival f b) := by rw [← Nat.two_mul]; ac_rfl
  refine ⟨Nat.le_of_lt hb, ?_, ?_, ?_, ?_⟩ <;> rw [e]
  · intro h; exact Nat.mul_le_mul_left d (by have := s1 h; omega)
  · intro h heq; have := Nat.eq_of_mul_eq_mul_left h2 heq; have := s1 h; omega
  · intro _; exact Nat.mul_le_mul_left d (by omega)
  · intro _ heq; have := Nat.eq_of_mul_eq_mul_left h2 heq; omega

/-- (1) the result is a finite pattern or `+∞`, never a NaN pattern. -/
theorem roundNE_le_infBits {f : Fmt} (hf : WF f) (num : Nat) {den : Nat} (hd : 0 < den) :
    roundNE f num den ≤ f.infBits := (inCell_roundNE hf num (Nat.ne_of_gt hd)).le_inf

/-- (6) monotone in the rational, cross-multiplied form. -/
theorem roundNE_mono' {f : Fmt} (hf : WF f) {a b c d : Nat} (hb : 0 < b) (hd : 0 < d)
    (h : a * d ≤ c * b) : roundNE f a b ≤ roundNE f c d := by
  refine inCell_mono (inCell_roundNE hf a (Nat.ne_of_gt hb)) (inCell_roundNE hf c (Nat.ne_of_gt hd)) hb hd ?_
  have := Nat.mul_le_mul_right (2 ^ (L f)) h
  rw [show a * 2 ^ L f * d = a * d * 2 ^ L f by ac_rfl, show c * 2 ^ L f * b = c * b * 2 ^ L f by ac_rfl]
  exact this

/-- the result depends only on the rational `num/den` -/
theorem roundNE_congr' {f : Fmt} (hf : WF f) {a b c d : Nat} (hb : 0 < b) (hd : 0 < d)
    (h : a * d = c * b) : roundNE f a b = roundNE f c d :=
  Nat.le_antisymm (roundNE_mono' hf hb hd (Nat.le_of_eq h)) (roundNE_mono' hf hd hb (Nat.le_of_eq h.symm))

/-- (7) scale invariance -/
theorem roundNE_scale' {f : Fmt} (hf : WF f) {k : Nat} (hk : 0 < k) (num : Nat) {den : Nat}
    (hd : 0 < den) : roundNE f (k * num) (k * den) = roundNE f num den :=
  roundNE_congr' hf (Nat.mul_pos hk hd) hd (by ac_rfl)

theorem infBits_pos {f : Fmt} (hf : WF f) : 0 < f.infBits := by
  rw [infBits_eq]; exact Nat.mul_pos (by have := M_ge hf; omega) (Nat.two_pow_pos _)

/-- (4), Nat form: overflow iff at or above the midpoint between the largest finite value and
`2^(emax+1)`. -/
theorem roundNE_eq_inf_iff {f : Fmt} (hf : WF f) (num : Nat) {den : Nat} (hd : 0 < den) :
    roundNE f num den = f.infBits ↔
      den * (ival f (f.infBits - 1) + ival f f.infBits) ≤ 2 * (num * 2 ^ (L f)) := by
  have c := inCell_roundNE hf num (Nat.ne_of_gt hd)
  have hpos := infBits_pos hf
  have hev := infBits_even hf
  constructor
  · intro h; rw [h] at c; exact c.lower (by omega)
  · intro h
    apply Classical.byContradiction; intro hne
    have hlt : roundNE f num den < f.infBits := Nat.lt_of_le_of_ne c.le_inf hne
    generalize roundNE f num den = r at *
    have up := c.upper hlt
    have m1 : ival f r ≤ ival f (f.infBits - 1) := ival_mono f (by omega)
    have m2 : ival f (r + 1) ≤ ival f f.infBits := ival_mono f (by omega)
    have k := Nat.mul_le_mul_left den (Nat.add_le_add m1 m2)
    have e1 : den * (ival f r + ival f (r + 1)) = den * (ival f (f.infBits - 1) + ival f f.infBits) := by
      omega
    have e2 := Nat.eq_of_mul_eq_mul_left hd e1
    have t := c.upper_tie hlt (by omega)
    have : r = f.infBits - 1 := by
      apply Classical.byContradiction; intro hne'
      have := ival_strictMono f (show r < f.infBits - 1 by omega)
      omega
    omega

theorem ival_infBits {f : Fmt} (hf : WF f) :
    ival f f.infBits = 2 * 2 ^ (f.p - 1) * 2 ^ (f.maxExpField - 2) ∧
    ival f (f.infBits - 1) + 2 ^ (f.maxExpField - 2) = 2 * 2 ^ (f.p - 1) * 2 ^ (f.maxExpField - 2) := by
  have hM := M_ge hf
  have hT := Nat.two_pow_pos (f.p - 1)
  have e1 : f.infBits = (f.maxExpField - 2) * 2 ^ (f.p - 1) + 2 * 2 ^ (f.p - 1) := by
    rw [infBits_eq, ← Nat.add_mul]; congr 1; omega
  have e2 : f.infBits - 1 = (f.maxExpField - 2) * 2 ^ (f.p - 1) + (2 * 2 ^ (f.p - 1) - 1) := by
    rw [e1]; omega
  constructor
  · rw [e1, ival_kq f _ _ (by omega) (by omega)]
  · rw [e2, ival_kq f _ _ (by omega) (by omega), Nat.sub_mul]
    have : 1 * 2 ^ (f.maxExpField - 2) ≤ 2 * 2 ^ (f.p - 1) * 2 ^ (f.maxExpField - 2) :=
      Nat.mul_le_mul_right _ (by omega)
    omega

end LexVerif.Proof.RoundNE
