import LexVerif.Proof.WriteBinaryParse
import LexVerif.Proof.WriteBinaryDigits
import Mathlib.Tactic.SplitIfs
/-!
# Proof.WriteBinaryWF — every layout `binary.rs` / `hex.rs` produce is well formed: digits below the radix, a non-empty
integer part, no fraction digits without a point.
-/
namespace LexVerif.Proof.WriteBinaryWF
open LexVerif LexVerif.Spec LexVerif.Model LexVerif.Model.WriteBinary
open LexVerif.Proof.WriteBinaryParse LexVerif.Proof.WriteBinaryDigits

theorem mem_rtrimZeros {ds : List Nat} {d : Nat} (h : d ∈ rtrimZeros ds) : d ∈ ds := by
  obtain ⟨k, hk, _⟩ := rtrimZeros_spec ds
  rw [hk]; exact List.mem_append_left _ h

theorem mantissaDigits_lt (w r m : Nat) (e : Int) (hr : 2 ≤ r) : ∀ d ∈ mantissaDigits w r m e, d < r := by
  unfold mantissaDigits; exact toDigits_digit_lt _ _ hr

theorem mantissaDigits_ne (w r m : Nat) (e : Int) (hr : 2 ≤ r) : mantissaDigits w r m e ≠ [] := by
  unfold mantissaDigits; exact toDigits_ne_nil _ _ hr

theorem mem_pad {e c d : Nat} (h : d ∈ pad e c) : d = 0 := by
  unfold pad at h
  split at h
  · exact (List.mem_replicate.mp h).2
  · simp at h

theorem sci_wf (fmt : Format) (o : WOpts) (w r m : Nat) (e scaled : Int) (hr : 2 ≤ r) :
    WFL r (sciLayout fmt o w r m e scaled) := by
  have hlt := mantissaDigits_lt w r m e hr
  have hne := mantissaDigits_ne w r m e hr
  cases hds : mantissaDigits w r m e with
  | nil => exact absurd hds hne
  | cons d0 tail =>
    rw [hds] at hlt
    have hd0 : d0 < r := hlt d0 (by simp)
    have htail : ∀ d ∈ rtrimZeros tail, d < r := fun d hd => hlt d (by simp [mem_rtrimZeros hd])
    unfold sciLayout
    simp only [hds, List.headD_cons, List.tail_cons]
    split
    · exact ⟨by simpa using hd0, by simp, by simp, fun _ => rfl⟩
    · split
      · exact ⟨by simpa using hd0, by simp; omega, by simp, by simp⟩
      · refine ⟨by simpa using hd0, ?_, by simp, by simp⟩
        intro d hd
        rcases List.mem_append.mp hd with h | h
        · exact htail d h
        · rw [mem_pad h]; omega

theorem neg_wf (o : WOpts) (w r m : Nat) (e sciExp : Int) (hr : 2 ≤ r) : WFL r (negLayout o w r m e sciExp) := by
  have hlt := mantissaDigits_lt w r m e hr
  unfold negLayout
  refine ⟨by simp; omega, ?_, by simp, by simp⟩
  intro d hd
  simp only at hd
  rcases List.mem_append.mp hd with h | h
  · rcases List.mem_append.mp h with h | h
    · rw [(List.mem_replicate.mp h).2]; omega
    · exact hlt d (mem_rtrimZeros h)
  · rw [mem_pad h]; omega

theorem pos_wf (o : WOpts) (w r m : Nat) (e sciExp : Int) (hr : 2 ≤ r) : WFL r (posLayout o w r m e sciExp) := by
  have hlt := mantissaDigits_lt w r m e hr
  have htr : ∀ d ∈ rtrimZeros (mantissaDigits w r m e), d < r := fun d hd => hlt d (mem_rtrimZeros hd)
  unfold posLayout
  simp only
  split
  · rename_i hge
    have hint : ∀ d ∈ rtrimZeros (mantissaDigits w r m e)
        ++ List.replicate ((Int.tdiv sciExp (fastLog2 r)).toNat + 1 - (rtrimZeros (mantissaDigits w r m e)).length) 0, d < r := by
      intro d hd
      rcases List.mem_append.mp hd with h | h
      · exact htr d h
      · rw [(List.mem_replicate.mp h).2]; omega
    have hne : rtrimZeros (mantissaDigits w r m e)
        ++ List.replicate ((Int.tdiv sciExp (fastLog2 r)).toNat + 1 - (rtrimZeros (mantissaDigits w r m e)).length) 0 ≠ [] := by
      intro h0
      have := congrArg List.length h0
      simp only [List.length_append, List.length_replicate, List.length_nil] at this
      omega
    split
    · exact ⟨hint, by simp, hne, fun _ => rfl⟩
    · refine ⟨hint, ?_, hne, by simp⟩
      intro d hd
      simp only at hd
      rcases List.mem_append.mp hd with h | h
      · simp at h; omega
      · rw [mem_pad h]; omega
  · rename_i hlt'
    refine ⟨fun d hd => htr d (List.mem_of_mem_take hd), ?_, ?_, by simp⟩
    · intro d hd
      simp only at hd
      rcases List.mem_append.mp hd with h | h
      · exact htr d (List.mem_of_mem_drop h)
      · rw [mem_pad h]; omega
    · intro h0
      have := congrArg List.length h0
      simp only [List.length_take, List.length_nil] at this
      omega

theorem layoutME_wf (fmt : Format) (o : WOpts) (w m : Nat) (e : Int) (hr : 2 ≤ fmt.mantissaRadix) :
    WFL fmt.mantissaRadix (layoutME fmt o w m e) := by
  unfold layoutME
  simp only
  split_ifs <;> first | exact sci_wf _ _ _ _ _ _ _ hr | exact neg_wf _ _ _ _ _ _ hr | exact pos_wf _ _ _ _ _ _ hr

end LexVerif.Proof.WriteBinaryWF
