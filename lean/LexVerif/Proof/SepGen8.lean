import LexVerif.Proof.SepGen7
/-!
# Proof.SepGen8 — instances of `Rescan` / `PeekStable`: components without separator flags and I+L+T+C components
-/
set_option linter.unusedSimpArgs false
namespace LexVerif.Proof.Sep
open LexVerif LexVerif.Model LexVerif.Spec
open LexVerif.Props.C12

/-- a component without separator flags re-scans consistently (there is nothing to re-scan differently) -/
theorem rescan_contig (c : Cfg) (k : Comp) (h : c.iterContiguous k = true) : Rescan c k := by
  intro hc; rw [h] at hc; cases hc

theorem peekStable_contig (c : Cfg) (k : Comp) (h : c.iterContiguous k = true) : PeekStable c k := by
  intro b b1 x _ hp _
  have := plainPeek_noskip c k b.slc (skip_of_contig c k h) b rfl
  rw [this] at hp
  simp only [Except.ok.injEq, Prod.mk.injEq] at hp
  rw [← hp.2]; rw [this, hp.1]

/-- a skip-everything iterator runs through a list whose non-separator bytes are all digits -/
theorem digitsSkip_all (c : Cfg) (r : Nat) : ∀ (l : List Nat) (ds : List Nat),
    (nonSep c l).map (fun x => charToDigit x r) = ds.map some →
    (digitsSkip c r l).2 = l.length ∧ (digitsSkip c r l).1 = ds := by
  intro l
  induction l with
  | nil =>
    intro ds h
    cases ds with
    | nil => simp [digitsSkip]
    | cons d ds => simp [nonSep] at h
  | cons x xs ih =>
    intro ds h
    cases hs : c.isSep x with
    | true =>
      rw [nonSep_cons_sep c x xs hs] at h
      simp only [digitsSkip, hs, if_true, List.length_cons, (ih ds h).1, (ih ds h).2, and_self]
    | false =>
      rw [nonSep_cons_non c x xs hs] at h
      cases ds with
      | nil => simp at h
      | cons d ds' =>
        simp only [List.map_cons, List.cons.injEq] at h
        simp only [digitsSkip, hs, Bool.false_eq_true, if_false, h.1, List.length_cons, (ih ds' h.2).1, (ih ds' h.2).2,
          and_self]

/-- an I+L+T+C component re-scans consistently: its `peek` does not look at the neighbourhood -/
theorem rescan_iltc (c : Cfg) (k : Comp) (hd : c.debug = false) (hk : c.skip k = .pred .iltc) : Rescan c k := by
  intro _ b e ds hR _ _ _ _
  have := digitsSkip_all c c.mantissaRadix (slice b.slc b.index e.index) ds hR.yields
  refine ⟨_, _, parseDigits_skip c k _ hd hk (Bytes.new (slice b.slc b.index e.index)), ?_⟩
  simp only [advS_index, new_index, new_slc, List.drop_zero, Nat.zero_add, this.1]

theorem peekStable_iltc (c : Cfg) (k : Comp) (hk : c.skip k = .pred .iltc) : PeekStable c k := by
  intro b b1 x _ hp hs
  exfalso
  rw [peek_iltc c k b hk] at hp
  simp only [Except.ok.injEq, Prod.mk.injEq] at hp
  have := countSeps_stop c (b.slc.drop b.index) x (by rw [List.getElem?_drop]; exact hp.1)
  rw [hs] at this; cases this

/-- each of the integer and fraction components has no separator flag or all four (I+L+T+C) -/
structure MixOK (c : Cfg) : Prop where
  int : c.iterContiguous .integer = true ∨ c.skip .integer = .pred .iltc
  frac : c.iterContiguous .fraction = true ∨ c.skip .fraction = .pred .iltc

theorem MixOK.rescanI {c : Cfg} (h : MixOK c) (hd : c.debug = false) : Rescan c .integer := by
  rcases h.int with h | h
  · exact rescan_contig c _ h
  · exact rescan_iltc c _ hd h

theorem MixOK.rescanF {c : Cfg} (h : MixOK c) (hd : c.debug = false) : Rescan c .fraction := by
  rcases h.frac with h | h
  · exact rescan_contig c _ h
  · exact rescan_iltc c _ hd h

theorem MixOK.stable {c : Cfg} (h : MixOK c) : PeekStable c .integer := by
  rcases h.int with h | h
  · exact peekStable_contig c _ h
  · exact peekStable_iltc c _ h

/-- **strip_preserves for the mixed class**: integer / fraction component without separator flags or I+L+T+C, the
exponent component with ANY flag combination -/
theorem parseFloatSyntax_strip_mix (c : Cfg) (o : POpts) (hG : GenStrip c o) (hM : MixOK c) (s : List Nat)
    (hb256 : ∀ x ∈ s, x < 256) (fv : Bool) (n : Number) (cnt : Nat)
    (h : parseFloatSyntax c o false s fv = .ok (.number n cnt)) :
    ∃ n', parseFloatSyntax c o false (nonSep c s) fv = .ok (.number n' (nonSep c s).length) ∧ NumRel c n n' ∧
      SlicesOK c n :=
  parseFloatSyntax_strip_gen c o hG (hM.rescanI hG.rel.debug) (hM.rescanF hG.rel.debug) hM.stable s hb256 fv n cnt h

end LexVerif.Proof.Sep
