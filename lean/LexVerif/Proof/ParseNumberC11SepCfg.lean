import LexVerif.Proof.ParseNumberC11SepPrefix
/-!
# Proof.ParseNumberC11SepCfg — `SepCfg` from checkable facts, and from the validation of the API entry points

`sepCfg_of`: every field of `SepCfg` from one-byte facts about the separator (`isSep x ↔ x = digit_separator`), plus the
general fact that a byte the skip iterators call a digit (`is_digit`, mantissa radix) is a digit of every radix
`≥ mantissa_radix` (`isDigit_charToDigit`) — so the exact exclusion of the open defect (`ExpRadixOK`, `expRadixOK_of`) is
`exponent predicate ∈ {i, il, ic, ilc} → mantissa_radix ≤ exponent_radix`.
`sepCfg_of_valid`: the one-byte facts follow from `format.is_valid()`, valid `Options` and
`is_valid_options_punctuation`, except the three things the validation does not look at: ASCII case folding of the
exponent / base-prefix / base-suffix character against the separator, and the radix condition.
-/
set_option linter.unusedSectionVars false
set_option linter.unusedSimpArgs false
set_option linter.unusedVariables false
namespace LexVerif.Proof.C11
open LexVerif LexVerif.Model LexVerif.Spec
open LexVerif.Proof.PNTotal (Rel)

theorem digitVal36_some (x d : Nat) (h : digitVal36 x = some d) :
    (48 ≤ x ∧ x ≤ 57 ∧ d = x - 48) ∨ (65 ≤ x ∧ x ≤ 90 ∧ d = x - 55) ∨ (97 ≤ x ∧ x ≤ 122 ∧ d = x - 87) := by
  unfold digitVal36 at h
  split at h
  · next h1 => cases h; exact Or.inl ⟨h1.1, h1.2, rfl⟩
  · split at h
    · next h1 => cases h; exact Or.inr (Or.inl ⟨h1.1, h1.2, rfl⟩)
    · split at h
      · next h1 => cases h; exact Or.inr (Or.inr ⟨h1.1, h1.2, rfl⟩)
      · cases h

/-- what the skip iterators call a digit (`char_is_digit_const(x, mantissa_radix)`) is a digit of every radix
`R ≥ mantissa_radix` for `parse_digits` (`char_to_digit_const(x, R)`) -/
theorem isDigit_charToDigit (c : Cfg) (x R : Nat) (h : c.isDigit x = true) (hR : c.mantissaRadix ≤ R) :
    charToDigit x R ≠ none := by
  unfold Cfg.isDigit digitVal at h
  cases h36 : digitVal36 x with
  | none => simp [h36] at h
  | some d =>
    simp only [h36] at h
    have hd : d < c.mantissaRadix := by
      by_cases hlt : d < c.mantissaRadix
      · exact hlt
      · simp [hlt] at h
    have hv : charToValidDigit x R = d := by
      unfold charToValidDigit
      rcases digitVal36_some x d h36 with ⟨a, b, e⟩ | ⟨a, b, e⟩ | ⟨a, b, e⟩
      · split
        · omega
        · rw [if_pos ⟨a, b⟩]; omega
      · rw [if_neg (by omega), if_neg (by omega), if_pos ⟨a, b⟩]; omega
      · rw [if_neg (by omega), if_neg (by omega), if_neg (by omega), if_pos ⟨a, b⟩]; omega
    unfold charToDigit
    simp only [hv]
    rw [if_pos (by omega)]
    simp

/-- decidable form of `DigitLook` -/
def digitLookB (c : Cfg) (k : Comp) : Bool :=
  match c.skip k with
  | .pred p => predNeedsDigit p
  | _ => false

theorem digitLookB_of (c : Cfg) (k : Comp) (h : DigitLook c k) : digitLookB c k = true := by
  obtain ⟨p, hp, hn⟩ := h
  simp [digitLookB, hp, hn]

theorem isSep_eq (c : Cfg) (x : Nat) (h : c.isSep x = true) : x = c.digitSeparator := by
  have := h
  simp only [Cfg.isSep, Bool.and_eq_true, decide_eq_true_eq] at this
  exact this.2

/-- the radix condition in checkable form: a digit-seeking exponent predicate needs `mantissa_radix ≤ exponent_radix` -/
theorem expRadixOK_of (c : Cfg) (hexp : digitLookB c .exponent = true → c.mantissaRadix ≤ c.exponentRadix) :
    ExpRadixOK c :=
  fun hd x hx => isDigit_charToDigit c x _ hx (hexp (digitLookB_of c _ hd))

/-- `SepCfg` from one-byte facts -/
theorem sepCfg_of (c : Cfg) (o : POpts) (hrel : Rel c) (hfmt : c.feats.format = true) (hsep : c.digitSeparator ≠ 0)
    (hrad : c.feats.powerOfTwo = false → c.mantissaRadix ≤ 10) (hr : 1 ≤ c.mantissaRadix)
    (hsm : charToDigit c.digitSeparator c.mantissaRadix = none)
    (hse : charToDigit c.digitSeparator c.exponentRadix = none)
    (hdp : o.dp ≠ c.digitSeparator)
    (hexpc : matchByte o.exp (c.caseSensitiveExponent && c.feats.format) (some c.digitSeparator) = false)
    (hsuf : matchByte c.baseSuffix c.caseSensitiveBaseSuffix (some c.digitSeparator) = false)
    (hpre : matchByte c.basePrefix c.caseSensitiveBasePrefix (some c.digitSeparator) = false)
    (hdpd : charToDigit o.dp c.mantissaRadix = none)
    (hprr : prefixRepair = true → c.basePrefix = 0) : SepCfg c o where
  rel := hrel
  fmt := hfmt
  bytes := by simp [Cfg.bytesContiguous, hsep]
  rad := hrad
  radix := hr
  sepM := fun x hx => by rw [isSep_eq c x hx]; exact hsm
  sepE := fun x hx => by rw [isSep_eq c x hx]; exact hse
  digM := fun x hx => isDigit_charToDigit c x _ hx (Nat.le_refl _)
  dpSep := by
    cases h : c.isSep o.dp with
    | false => rfl
    | true => exact absurd (isSep_eq c _ h) hdp
  expSep := fun x hx => by rw [isSep_eq c x hx]; exact hexpc
  sufSep := fun x hx => by rw [isSep_eq c x hx]; exact hsuf
  preSep := fun x hx => by rw [isSep_eq c x hx]; exact hpre
  dpDig := hdpd
  preRep := hprr

/-! ## from the validation of `api.rs` -/

/-- for bytes, not being a digit of radix `R` is inherited by every smaller radix -/
theorem charToValidDigit_mono (v r R : Nat) (hv : v < 256) (hle : r ≤ R) (h : charToValidDigit v r < r) :
    charToValidDigit v R < R := by
  unfold charToValidDigit at h ⊢
  by_cases hr10 : r ≤ 10
  · rw [if_pos hr10] at h
    by_cases hR10 : R ≤ 10
    · rw [if_pos hR10]; omega
    · rw [if_neg hR10]
      have h1 : 48 ≤ v ∧ v ≤ 57 := by omega
      rw [if_pos h1]; omega
  · rw [if_neg hr10] at h
    rw [if_neg (by omega)]
    omega

theorem charToDigit_none_mono (v r R : Nat) (hv : v < 256) (hle : r ≤ R) (h : charToDigit v R = none) :
    charToDigit v r = none := by
  unfold charToDigit at h ⊢
  simp only at h ⊢
  by_cases hlt : charToValidDigit v r < r
  · have := charToValidDigit_mono v r R hv hle hlt
    rw [if_pos this] at h
    cases h
  · rw [if_neg hlt]

theorem isValidAscii_lt (x : Nat) (h : isValidAscii x = true) : x < 256 := by
  simp only [isValidAscii, Bool.or_eq_true, Bool.and_eq_true, decide_eq_true_eq] at h
  omega

theorem byteAt_lt (f : Format) (k : Nat) : f.byteAt k < 256 := Nat.mod_lt _ (by decide)

/-- what `format.is_valid()` says about the separator byte (build with `format`) -/
theorem formatError_sepByte (feats : Features) (fmt : Format) (hf : feats.format = true)
    (h : formatError feats fmt = none) :
    isValidRadix feats fmt.mantissaRadix = true ∧ isValidOptionalControl fmt fmt.digitSeparator = true := by
  cases h1 : isValidRadix feats fmt.mantissaRadix with
  | false => simp [formatError, h1] at h
  | true =>
    cases h2 : isValidRadix feats fmt.exponentBase with
    | false => simp [formatError, h1, h2] at h
    | true =>
      cases h3 : isValidRadix feats fmt.exponentRadix with
      | false => simp [formatError, h1, h2, h3] at h
      | true =>
        cases h4 : isValidOptionalControl fmt fmt.digitSeparator with
        | false => simp [formatError, h1, h2, h3, h4, hf] at h
        | true => exact ⟨rfl, rfl⟩

theorem validRadix_facts (feats : Features) (r : Nat) (hfeat : feats.radix = true → feats.powerOfTwo = true)
    (h : isValidRadix feats r = true) : 1 ≤ r ∧ (feats.powerOfTwo = false → r ≤ 10) := by
  unfold isValidRadix at h
  split at h
  · next hrx =>
    simp only [Bool.and_eq_true, decide_eq_true_eq] at h
    exact ⟨by omega, fun hp => by rw [hfeat hrx] at hp; cases hp⟩
  · split at h
    · next hp =>
      simp only [Bool.or_eq_true, decide_eq_true_eq] at h
      exact ⟨by omega, fun hp2 => by rw [hp] at hp2; cases hp2⟩
    · simp only [decide_eq_true_eq] at h
      exact ⟨by omega, fun _ => by omega⟩

/-- **`SepCfg` for a validated call** (`parse_partial_with_options` accepted format and options): beyond validity only
(1) a separator byte, (2) the separator is not the other ASCII case of the exponent / base-prefix / base-suffix
character -/
theorem sepCfg_of_valid (feats : Features) (fmt : Format) (o : POpts)
    (hfeat : feats.radix = true → feats.powerOfTwo = true) (hf : feats.format = true)
    (h1 : optionsError o = none) (h2 : formatError feats fmt = none)
    (h3 : isValidOptionsPunctuation feats fmt o.exp o.dp = true)
    (hsep : fmt.digitSeparator ≠ 0)
    (hexpc : matchByte o.exp ((⟨feats, fmt, false⟩ : Cfg).caseSensitiveExponent && feats.format)
      (some fmt.digitSeparator) = false)
    (hsuf : matchByte (⟨feats, fmt, false⟩ : Cfg).baseSuffix (⟨feats, fmt, false⟩ : Cfg).caseSensitiveBaseSuffix
      (some fmt.digitSeparator) = false)
    (hpre : matchByte (⟨feats, fmt, false⟩ : Cfg).basePrefix (⟨feats, fmt, false⟩ : Cfg).caseSensitiveBasePrefix
      (some fmt.digitSeparator) = false)
    (hprr : prefixRepair = true → fmt.basePrefix = 0) : SepCfg ⟨feats, fmt, false⟩ o := by
  obtain ⟨hvr, hvs⟩ := formatError_sepByte feats fmt hf h2
  obtain ⟨hr1, hrad⟩ := validRadix_facts feats _ hfeat hvr
  have hrel : Rel ⟨feats, fmt, false⟩ := PNTotal.rel_of_valid _ rfl (by simp [h2])
  have hsb : fmt.digitSeparator < 256 := byteAt_lt fmt 64
  -- the separator is not a digit of the larger radix, hence of neither
  have hmax : charToDigit fmt.digitSeparator
      (if fmt.mantissaRadix > fmt.exponentRadix then fmt.mantissaRadix else fmt.exponentRadix) = none := by
    unfold isValidOptionalControl at hvs
    simp only [Bool.and_eq_true, Option.isNone_iff_eq_none] at hvs
    exact hvs.1.1.1
  have hsm : charToDigit fmt.digitSeparator fmt.mantissaRadix = none :=
    charToDigit_none_mono _ _ _ hsb (by split <;> omega) hmax
  have hse : charToDigit fmt.digitSeparator fmt.exponentRadix = none :=
    charToDigit_none_mono _ _ _ hsb (by split <;> omega) hmax
  -- the options
  unfold isValidOptionsPunctuation at h3
  split at h3
  · cases h3
  · next hctl =>
    split at h3
    · cases h3
    · split at h3
      · cases h3
      · next hpun =>
        have hdpc : isValidControl fmt o.dp = true := by
          cases hh : isValidControl fmt o.dp with
          | true => rfl
          | false => simp [hh] at hctl
        have hdpne : o.dp ≠ fmt.digitSeparator := by
          intro e
          apply hpun
          simp [hf, e]
        have hdpd : charToDigit o.dp fmt.mantissaRadix = none := by
          unfold isValidControl isValidOptionalControl at hdpc
          simp only [Bool.and_eq_true, Option.isNone_iff_eq_none, Bool.or_eq_true, decide_eq_true_eq] at hdpc
          have hdpb : o.dp < 256 := by
            rcases hdpc.2.2 with hh | hh
            · exact isValidAscii_lt _ hh
            · omega
          exact charToDigit_none_mono _ _ _ hdpb (by split <;> omega) hdpc.2.1.1.1
        exact sepCfg_of ⟨feats, fmt, false⟩ o hrel hf (by simpa [Cfg.digitSeparator, hf] using hsep) hrad
          hr1 (by simpa [Cfg.digitSeparator, Cfg.mantissaRadix, hf] using hsm)
          (by simpa [Cfg.digitSeparator, Cfg.exponentRadix, hf] using hse) (by simpa [Cfg.digitSeparator, hf] using hdpne)
          (by simpa [Cfg.digitSeparator, hf] using hexpc) (by simpa [Cfg.digitSeparator, hf] using hsuf)
          (by simpa [Cfg.digitSeparator, hf] using hpre) hdpd
          (by intro h; simp [Cfg.basePrefix, hf, hprr h])

end LexVerif.Proof.C11
