import LexVerif.Model.WriteBinary
import LexVerif.Spec.StdFloat
import LexVerif.Proof.Numeral
import LexVerif.Proof.GrammarStd
import LexVerif.Props.C08
/-!
# Proof.WriteBinaryParse — digits → bytes → parser: `Spec.parseStdComplete` inverts `WriteBinary.render`

For a layout whose digits are below the radix, with a non-empty integer part (and no fraction digits when no point is
written), the bytes `sign ++ render l` are accepted by the complete specification parser as exactly the literal
`⟨neg, l.int, l.frac, l.exp.getD 0⟩`, consuming everything — provided the decimal point and the exponent character are
not digits of the mantissa radix and differ, and the format has no `required_exponent_sign`.
-/
namespace LexVerif.Proof.WriteBinaryParse
open LexVerif LexVerif.Spec LexVerif.Model LexVerif.Model.WriteBinary LexVerif.Proof.Grammar
open LexVerif.Props.C08 (digitVal_digitChar)

theorem takeDigits_chars (r : Nat) (hr : r ≤ 36) : ∀ (ds : List Nat), (∀ d ∈ ds, d < r) → ∀ (rest : List Nat),
    (rest = [] ∨ ∃ c t, rest = c :: t ∧ digitVal r c = none) →
    takeDigits r (chars ds ++ rest) = (ds, rest)
  | [], _, rest, hrest => by
    rcases hrest with h | ⟨c, t, h, hc⟩
    · subst h; rfl
    · subst h; simp [chars, takeDigits, hc]
  | d :: ds, hds, rest, hrest => by
    have hd : d < r := hds d (by simp)
    have ih := takeDigits_chars r hr ds (fun x hx => hds x (by simp [hx])) rest hrest
    simp only [chars, List.map_cons, List.cons_append, takeDigits, digitVal_digitChar r d hr hd]
    have ih' : takeDigits r (List.map digitChar ds ++ rest) = (ds, rest) := ih
    rw [ih']

theorem digitChar_ge (d : Nat) : 48 ≤ digitChar d := by
  unfold digitChar; split <;> omega

theorem eqUncased_refl (c : Nat) : eqUncased c c = true := by simp [eqUncased]

/-- well-formed layout for radix `r` -/
structure WFL (r : Nat) (l : Layout) : Prop where
  int_lt : ∀ d ∈ l.int, d < r
  frac_lt : ∀ d ∈ l.frac, d < r
  int_ne : l.int ≠ []
  nopoint : l.point = false → l.frac = []

/-- the exponent bytes of `render` -/
def expBytes (fmt : Format) (feats : Features) (o : WOpts) (l : Layout) : List Nat :=
  match l.exp with
  | some x => writeExponent fmt feats x o.exp fmt.exponentRadix
  | none => []

theorem render_eq (fmt : Format) (feats : Features) (o : WOpts) (l : Layout) :
    render fmt feats o l = chars l.int ++ ((if l.point then [o.dp] ++ chars l.frac else []) ++ expBytes fmt feats o l) := by
  unfold render expBytes
  rw [List.append_assoc]
  rfl

theorem takeDigits_numeral (er n : Nat) (her2 : 2 ≤ er) (her : er ≤ 36) :
    takeDigits er (numeral er n) = (toDigits er n, []) := by
  have := takeDigits_chars er her (toDigits er n) (toDigits_digit_lt _ _ her2) [] (Or.inl rfl)
  simpa [chars, numeral] using this

theorem toDigits_isEmpty (er n : Nat) (her2 : 2 ≤ er) : (toDigits er n).isEmpty = false := by
  cases h : toDigits er n with
  | nil => exact absurd h (toDigits_ne_nil _ _ her2)
  | cons a b => rfl

theorem stdTail_none (er : Nat) (po : POpts) (neg : Bool) (ids fds : List Nat) (hint : ids ≠ []) (pos2 : Nat) :
    stdTail er po neg ids (fds, [], pos2) = .num ⟨neg, ids, fds, 0⟩ pos2 := by
  have : 0 < ids.length := List.length_pos_iff.mpr hint
  have hlen : ¬ (ids.length + fds.length = 0) := by omega
  simp only [stdTail, hlen, if_false]

theorem stdTail_neg (er : Nat) (po : POpts) (neg : Bool) (ids fds : List Nat) (hint : ids ≠ []) (pos2 n : Nat)
    (her2 : 2 ≤ er) (her : er ≤ 36) :
    stdTail er po neg ids (fds, po.exp :: 45 :: numeral er n, pos2)
      = .num ⟨neg, ids, fds, -(n : Int)⟩ (pos2 + 2 + (numeral er n).length) := by
  have : 0 < ids.length := List.length_pos_iff.mpr hint
  have hlen : ¬ (ids.length + fds.length = 0) := by omega
  simp only [stdTail, hlen, if_false, eqUncased_refl, if_true, stdExpSign, takeDigits_numeral er n her2 her,
    toDigits_isEmpty er n her2, Bool.false_eq_true, ofDigits_toDigits er n her2]
  simp [numeral]

theorem stdTail_pos (er : Nat) (po : POpts) (neg : Bool) (ids fds : List Nat) (hint : ids ≠ []) (pos2 n : Nat)
    (her2 : 2 ≤ er) (her : er ≤ 36) :
    stdTail er po neg ids (fds, po.exp :: numeral er n, pos2)
      = .num ⟨neg, ids, fds, (n : Int)⟩ (pos2 + 1 + (numeral er n).length) := by
  have : 0 < ids.length := List.length_pos_iff.mpr hint
  have hlen : ¬ (ids.length + fds.length = 0) := by omega
  have hsg : stdExpSign (numeral er n) pos2 = (false, numeral er n, pos2 + 1) := by
    cases hds : toDigits er n with
    | nil => exact absurd hds (toDigits_ne_nil _ _ her2)
    | cons a rest =>
      have hnumeral : numeral er n = digitChar a :: rest.map digitChar := by simp [numeral, hds]
      have ha := digitChar_ge a
      rw [hnumeral]
      unfold stdExpSign
      split
      · rename_i t h; injection h with h1 _; omega
      · rename_i t h; injection h with h1 _; omega
      · rfl
  simp only [stdTail, hlen, if_false, eqUncased_refl, if_true, hsg, takeDigits_numeral er n her2 her,
    toDigits_isEmpty er n her2, Bool.false_eq_true, ofDigits_toDigits er n her2]
  simp [numeral]

/-- exponent part: what `stdTail` reads from it -/
theorem stdTail_exp (fmt : Format) (feats : Features) (o : WOpts) (po : POpts) (l : Layout) (neg : Bool)
    (hexp : po.exp = o.exp) (her2 : 2 ≤ fmt.exponentRadix) (her : fmt.exponentRadix ≤ 36)
    (hsign : ¬ (feats.format = true ∧ fmt.requiredExponentSign = true)) (hint : l.int ≠ []) (pos2 : Nat) :
    stdTail fmt.exponentRadix po neg l.int (l.frac, expBytes fmt feats o l, pos2)
      = .num ⟨neg, l.int, l.frac, l.exp.getD 0⟩ (pos2 + (expBytes fmt feats o l).length) := by
  unfold expBytes
  cases hx : l.exp with
  | none => simpa using stdTail_none fmt.exponentRadix po neg l.int l.frac hint pos2
  | some x =>
    by_cases hneg : x < 0
    · have hb : writeExponent fmt feats x o.exp fmt.exponentRadix
          = po.exp :: 45 :: numeral fmt.exponentRadix x.natAbs := by
        simp [writeExponent, hneg, hexp]
      simp only [hb, stdTail_neg _ po neg l.int l.frac hint pos2 x.natAbs her2 her, Option.getD_some, List.length_cons]
      have e1 : -(x.natAbs : Int) = x := by omega
      rw [e1]
      congr 1
      omega
    · have hb : writeExponent fmt feats x o.exp fmt.exponentRadix
          = po.exp :: numeral fmt.exponentRadix x.natAbs := by
        simp [writeExponent, hneg, hexp, hsign]
      simp only [hb, stdTail_pos _ po neg l.int l.frac hint pos2 x.natAbs her2 her, Option.getD_some, List.length_cons]
      have e1 : (x.natAbs : Int) = x := by omega
      rw [e1]
      congr 1
      omega

theorem expBytes_head (fmt : Format) (feats : Features) (o : WOpts) (l : Layout) :
    expBytes fmt feats o l = [] ∨ ∃ t, expBytes fmt feats o l = o.exp :: t := by
  unfold expBytes
  cases l.exp with
  | none => exact Or.inl rfl
  | some x => exact Or.inr ⟨_, rfl⟩

/-- the number scanner reads back exactly the layout -/
theorem parseNumber_render (fmt : Format) (feats : Features) (o : WOpts) (po : POpts) (l : Layout) (neg : Bool) (pos r : Nat)
    (hr : r ≤ 36) (hw : WFL r l) (hexp : po.exp = o.exp) (hdp : po.dp = o.dp)
    (hdpnd : digitVal r o.dp = none) (hexpnd : digitVal r o.exp = none) (hne : o.exp ≠ o.dp)
    (her2 : 2 ≤ fmt.exponentRadix) (her : fmt.exponentRadix ≤ 36)
    (hsign : ¬ (feats.format = true ∧ fmt.requiredExponentSign = true)) :
    parseNumberStd r fmt.exponentRadix po neg pos (render fmt feats o l)
      = .num ⟨neg, l.int, l.frac, l.exp.getD 0⟩ (pos + (render fmt feats o l).length) := by
  have hE := expBytes_head fmt feats o l
  have hErest : expBytes fmt feats o l = [] ∨ ∃ c t, expBytes fmt feats o l = c :: t ∧ digitVal r c = none := by
    rcases hE with h | ⟨t, h⟩
    · exact Or.inl h
    · exact Or.inr ⟨o.exp, t, h, hexpnd⟩
  rw [parseNumberStd_stages, render_eq]
  cases hp : l.point with
  | true =>
    simp only [if_true]
    have h1 : takeDigits r (chars l.int ++ ([o.dp] ++ chars l.frac ++ expBytes fmt feats o l))
        = (l.int, o.dp :: (chars l.frac ++ expBytes fmt feats o l)) := by
      have := takeDigits_chars r hr l.int hw.int_lt (o.dp :: (chars l.frac ++ expBytes fmt feats o l))
        (Or.inr ⟨o.dp, _, rfl, hdpnd⟩)
      simpa using this
    have h2 : takeDigits r (chars l.frac ++ expBytes fmt feats o l) = (l.frac, expBytes fmt feats o l) :=
      takeDigits_chars r hr l.frac hw.frac_lt _ hErest
    rw [h1]
    simp only [stdFrac, hdp, if_true, h2]
    rw [stdTail_exp fmt feats o po l neg hexp her2 her hsign hw.int_ne]
    congr 1
    simp [chars]; omega
  | false =>
    simp only [Bool.false_eq_true, if_false, List.nil_append]
    have hfrac : l.frac = [] := hw.nopoint hp
    have h1 : takeDigits r (chars l.int ++ expBytes fmt feats o l) = (l.int, expBytes fmt feats o l) :=
      takeDigits_chars r hr l.int hw.int_lt _ hErest
    rw [h1]
    have hsf : stdFrac r po (expBytes fmt feats o l) (pos + l.int.length)
        = (l.frac, expBytes fmt feats o l, pos + l.int.length) := by
      rw [hfrac]
      rcases hE with h | ⟨t, h⟩
      · rw [h]; rfl
      · rw [h]
        have : ¬ (o.exp = po.dp) := by rw [hdp]; exact hne
        simp [stdFrac, this]
    simp only [hsf]
    rw [stdTail_exp fmt feats o po l neg hexp her2 her hsign hw.int_ne]
    congr 1
    simp [chars]; omega

theorem parseStdComplete_minus (r er : Nat) (po : POpts) (t : List Nat) (l : FloatLit) (ht : t ≠ [])
    (h : parseNumberStd r er po true 1 t = .num l (1 + t.length)) :
    parseStdComplete r er po (45 :: t) = .num l (1 + t.length) := by
  have hne : t.isEmpty = false := by
    cases t with
    | nil => exact absurd rfl ht
    | cons a b => rfl
  have hlen : (1 + t.length = t.length + 1) := by omega
  simp [parseStdComplete, hne, h, hlen]

theorem parseStdComplete_plain (r er : Nat) (po : POpts) (c : Nat) (t : List Nat) (l : FloatLit) (hc : 48 ≤ c)
    (h : parseNumberStd r er po false 0 (c :: t) = .num l (0 + (c :: t).length)) :
    parseStdComplete r er po (c :: t) = .num l ((c :: t).length) := by
  unfold parseStdComplete
  split
  rename_i x eneg rest3 pos h'
  have hx : (eneg, rest3, pos) = (false, c :: t, 0) := by
    rw [← h']
    split
    · rename_i cs h''; injection h'' with h1 _; omega
    · rename_i cs h''; injection h'' with h1 _; omega
    · rfl
  injection hx with e1 e2
  injection e2 with e2 e3
  subst e1 e2 e3
  simp only [Nat.zero_add] at h
  simp [h]

/-- the complete parser on `sign ++ render l`, sign empty or `-` -/
theorem parseComplete_render (fmt : Format) (feats : Features) (o : WOpts) (po : POpts) (l : Layout) (neg : Bool) (r : Nat)
    (hr : r ≤ 36) (hw : WFL r l) (hexp : po.exp = o.exp) (hdp : po.dp = o.dp)
    (hdpnd : digitVal r o.dp = none) (hexpnd : digitVal r o.exp = none) (hne : o.exp ≠ o.dp)
    (her2 : 2 ≤ fmt.exponentRadix) (her : fmt.exponentRadix ≤ 36)
    (hsign : ¬ (feats.format = true ∧ fmt.requiredExponentSign = true)) :
    parseStdComplete r fmt.exponentRadix po ((if neg then [45] else []) ++ render fmt feats o l)
      = .num ⟨neg, l.int, l.frac, l.exp.getD 0⟩ (((if neg then [45] else []) ++ render fmt feats o l).length) := by
  obtain ⟨c, t, hct, hc⟩ : ∃ c t, render fmt feats o l = c :: t ∧ 48 ≤ c := by
    rw [render_eq]
    cases hi : l.int with
    | nil => exact absurd hi hw.int_ne
    | cons a b => exact ⟨digitChar a, _, rfl, digitChar_ge a⟩
  cases neg with
  | true =>
    have hp := parseNumber_render fmt feats o po l true 1 r hr hw hexp hdp hdpnd hexpnd hne her2 her hsign
    simp only [if_true, List.singleton_append, List.length_cons]
    have := parseStdComplete_minus r fmt.exponentRadix po (render fmt feats o l) _ (by rw [hct]; simp) hp
    rw [this]; congr 1; omega
  | false =>
    have hp := parseNumber_render fmt feats o po l false 0 r hr hw hexp hdp hdpnd hexpnd hne her2 her hsign
    simp only [Bool.false_eq_true, if_false, List.nil_append]
    rw [hct] at hp ⊢
    exact parseStdComplete_plain r fmt.exponentRadix po c t _ hc hp

end LexVerif.Proof.WriteBinaryParse
