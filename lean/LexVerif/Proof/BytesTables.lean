import LexVerif.Proof.BytesComp
import LexVerif.Proof.SlowTables
/-!
# Proof.BytesTables — the table facts of `byte_comp`, evaluated for every odd radix of the `radix` builds

`ByteTables E r` (`Proof.BytesComp`): `split_radix(r) = (r, 0)`, the `pow` tables for `r` at the `Bigfloat` capacity (small
powers, `u64_power_limit`, the large power and its step, normalised), `integral_binary_factor(r) = ⌈log₂ r⌉ ∈ [1, 6]`.
-/
namespace LexVerif.Proof.Slow
open LexVerif.Spec LexVerif.Spec.PowerTables LexVerif.Proof.Tables LexVerif.Model LexVerif.Model.Slow

/-- the radices `slow_radix` sends to `byte_comp` (no digit limit) -/
def oddRadices : List Nat := [3, 5, 7, 9, 11, 13, 15, 17, 19, 21, 23, 25, 27, 29, 31, 33, 35]

def largeNormB (E : Env) (r : Nat) : Bool :=
  !E.L.hasLarge ||
    ((E.L.largeLimbs r).toList.all (fun l => decide (l < 2 ^ 64)) &&
     (match (E.L.largeLimbs r).toList.getLast? with | some l => decide (l ≠ 0) | none => false))

def byteTablesB (E : Env) (r : Nat) : Bool :=
  !E.debug && decide (2 ≤ r) && decide (E.L.splitRadix r = (r, 0)) &&
  powOkB E (E.L.bigfloatBits / E.L.limbBits) r && largeNormB E r &&
  decide (1 ≤ E.L.bigfloatBits / E.L.limbBits) && decide (1 ≤ E.L.integralBinaryFactor r) &&
  decide (E.L.integralBinaryFactor r ≤ 6) && decide (r + 1 ≤ 2 ^ E.L.integralBinaryFactor r)

theorem byteTables_of_check {E : Env} {r : Nat} (h : byteTablesB E r = true) : ByteTables E r := by
  unfold byteTablesB at h
  simp only [Bool.and_eq_true, decide_eq_true_eq, Bool.not_eq_true'] at h
  obtain ⟨⟨⟨⟨⟨⟨⟨⟨h1, h2⟩, h3⟩, h4⟩, h5⟩, h6⟩, h7⟩, h8⟩, h9⟩ := h
  refine ⟨h1, h2, h3, ⟨powOk_of_check h4, ?_⟩, h6, h7, h8, h9⟩
  intro hl
  unfold largeNormB at h5
  rw [hl] at h5
  simp only [Bool.not_true, Bool.false_or, Bool.and_eq_true, List.all_eq_true, decide_eq_true_eq] at h5
  obtain ⟨a, b⟩ := h5
  cases hg : (E.L.largeLimbs r).toList.getLast? with
  | none => rw [hg] at b; exact absurd b (by simp)
  | some l =>
    rw [hg] at b
    have hl0 : l ≠ 0 := by simpa using b
    refine ⟨⟨fun x hx => a x hx, fun x hx => by rw [hg] at hx; injection hx with hx; rw [← hx]; exact hl0⟩, ?_⟩
    intro h0; rw [h0] at hg; simp at hg

theorem byte_tables_radix : oddRadices.all (byteTablesB envRadix) = true := by decide +kernel
theorem byte_tables_compact_radix : oddRadices.all (byteTablesB envCompactRadix) = true := by decide +kernel

/-- a `radix` build together with a radix it parses through `byte_comp` -/
def EnvBytes (E : Env) (r : Nat) : Prop := (E = envRadix ∨ E = envCompactRadix) ∧ r ∈ oddRadices

theorem byteTables_of_envBytes {E : Env} {r : Nat} (h : EnvBytes E r) : ByteTables E r := by
  obtain ⟨hE | hE, hr⟩ := h
  · subst hE; exact byteTables_of_check ((List.all_eq_true.mp byte_tables_radix) r hr)
  · subst hE; exact byteTables_of_check ((List.all_eq_true.mp byte_tables_compact_radix) r hr)

/-- the odd radices have no digit limit: `slow_radix` routes them to `byte_comp` -/
theorem route_bytes {E : Env} {r : Nat} (h : EnvBytes E r) (F : FTy) (hF : F = FTy.f64 ∨ F = FTy.f32) :
    routeOf E F true r = .bytes := by
  have hall1 : oddRadices.all (fun r => decide (routeOf envRadix FTy.f64 true r = .bytes) &&
      decide (routeOf envRadix FTy.f32 true r = .bytes)) = true := by decide +kernel
  have hall2 : oddRadices.all (fun r => decide (routeOf envCompactRadix FTy.f64 true r = .bytes) &&
      decide (routeOf envCompactRadix FTy.f32 true r = .bytes)) = true := by decide +kernel
  obtain ⟨hE | hE, hr⟩ := h
  · subst hE
    have := (List.all_eq_true.mp hall1) r hr
    simp only [Bool.and_eq_true, decide_eq_true_eq] at this
    rcases hF with h | h <;> subst h
    · exact this.1
    · exact this.2
  · subst hE
    have := (List.all_eq_true.mp hall2) r hr
    simp only [Bool.and_eq_true, decide_eq_true_eq] at this
    rcases hF with h | h <;> subst h
    · exact this.1
    · exact this.2

end LexVerif.Proof.Slow
