import LexVerif.Proof.DragonboxSpec
/-! `compute_nearest_shorter` (f64): exponent fields 0 … 511, every one checked against `Spec.shortest` by the kernel. -/
namespace LexVerif.Proof.DragonboxSpec
open LexVerif.Model.Dragonbox

theorem shorter64_0_128 : (expChunk .f64 0 128).all (dragonboxOk .f64) = true := by decide +kernel
theorem shorter64_128_256 : (expChunk .f64 128 256).all (dragonboxOk .f64) = true := by decide +kernel
theorem shorter64_256_384 : (expChunk .f64 256 384).all (dragonboxOk .f64) = true := by decide +kernel
theorem shorter64_384_512 : (expChunk .f64 384 512).all (dragonboxOk .f64) = true := by decide +kernel

end LexVerif.Proof.DragonboxSpec
