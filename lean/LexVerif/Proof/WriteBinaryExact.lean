import LexVerif.Proof.WriteBinaryShape
import Mathlib.Tactic.Ring
import Mathlib.Tactic.Linarith
import Mathlib.Tactic.LinearCombination
import Mathlib.Tactic.FieldSimp
import Mathlib.Tactic.SplitIfs
import Mathlib.Tactic.Push
import Mathlib.Algebra.Order.Field.Rat
import Mathlib.Algebra.Order.Field.Power
/-!
# Proof.WriteBinaryExact — the digits laid out by binary.rs / hex.rs denote exactly `mantissa · 2^exponent`
-/
namespace LexVerif.Proof.WriteBinaryExact
open LexVerif.Spec LexVerif.Model LexVerif.Model.WriteBinary
open LexVerif.Proof.WriteBinaryDigits LexVerif.Proof.WriteBinaryShape LexVerif.Proof.WriteBinaryArith
open LexVerif.Model.Dragonbox (i32)

/-- value of the explicit exponent part -/
def expFactor (b : Nat) : Option Int → ℚ
  | some x => (b : ℚ) ^ x
  | none => 1

/-- the rational number a layout denotes: digits of `int ++ frac` in radix `r`, point before the last `|frac|` digits,
times `b^exp` -/
def layoutQ (r b : Nat) (l : Layout) : ℚ :=
  (ofDigits r (l.int ++ l.frac) : ℚ) / (r : ℚ) ^ l.frac.length * expFactor b l.exp

theorem two_ne : (2 : ℚ) ≠ 0 := by norm_num

theorem pow_pow_zpow (bpd j : Nat) : ((2 : ℚ) ^ bpd) ^ j = (2 : ℚ) ^ ((bpd : ℤ) * (j : ℤ)) := by
  rw [zpow_mul, zpow_natCast, zpow_natCast]

theorem layoutQ_of_shape {bpd b : Nat} {l : Layout} {tr : List Nat} {a j : Nat} {X : ℤ}
    (hs : l.int ++ l.frac = List.replicate a 0 ++ tr ++ List.replicate j 0)
    (hx : expFactor b l.exp = (2 : ℚ) ^ X) :
    layoutQ (2 ^ bpd) b l
      = (ofDigits (2 ^ bpd) tr : ℚ) * (2 : ℚ) ^ ((bpd : ℤ) * ((j : ℤ) - (l.frac.length : ℤ)) + X) := by
  unfold layoutQ
  rw [hs, ofDigits_shape, hx]
  push_cast
  rw [pow_pow_zpow, pow_pow_zpow, mul_sub, zpow_add₀ two_ne, zpow_sub₀ two_ne]
  field_simp

theorem target_eq {bpd m s k : Nat} {tr : List Nat} (e : ℤ)
    (hv : m * 2 ^ s = ofDigits (2 ^ bpd) tr * (2 ^ bpd) ^ k) :
    (m : ℚ) * (2 : ℚ) ^ e = (ofDigits (2 ^ bpd) tr : ℚ) * (2 : ℚ) ^ ((bpd : ℤ) * (k : ℤ) + e - (s : ℤ)) := by
  have hq : (m : ℚ) * (2 : ℚ) ^ s = (ofDigits (2 ^ bpd) tr : ℚ) * ((2 : ℚ) ^ bpd) ^ k := by exact_mod_cast hv
  rw [pow_pow_zpow] at hq
  rw [add_sub_assoc, zpow_add₀ two_ne, ← mul_assoc, ← hq, zpow_sub₀ two_ne, zpow_natCast]
  field_simp

theorem fastLog2_pow {bpd : Nat} (h1 : 1 ≤ bpd) (h5 : bpd ≤ 5) : fastLog2 (2 ^ bpd) = (bpd : ℤ) := by
  have : bpd = 1 ∨ bpd = 2 ∨ bpd = 3 ∨ bpd = 4 ∨ bpd = 5 := by omega
  rcases this with h | h | h | h | h <;> subst h <;> decide

theorem significantBits_spec {m : Nat} (hm : 0 < m) :
    1 ≤ significantBits m ∧ 2 ^ (significantBits m - 1) ≤ m ∧ m < 2 ^ significantBits m := by
  unfold significantBits
  rw [if_neg (by omega)]
  exact ⟨by omega, by simpa using Nat.log2_self_le (by omega), Nat.lt_log2_self⟩

/-- everything the three layouts share: the shift, the digit string, its trimmed core, the digit count -/
structure Ctx (w bpd m : Nat) (e : ℤ) where
  s : Nat
  k : Nat
  d0 : Nat
  tail : List Nat
  hs : (s : ℤ) = e % (bpd : ℤ)
  hds : mantissaDigits w (2 ^ bpd) m e = d0 :: tail
  hd0 : d0 ≠ 0
  hk : (k : ℤ) + ((1 + (rtrimZeros tail).length : Nat) : ℤ) = (((significantBits m + s - 1) / bpd + 1 : Nat) : ℤ)
  hv : m * 2 ^ s = ofDigits (2 ^ bpd) (d0 :: rtrimZeros tail) * (2 ^ bpd) ^ k
  htr : rtrimZeros (mantissaDigits w (2 ^ bpd) m e) = d0 :: rtrimZeros tail

theorem mkCtx {w bpd m : Nat} {e : ℤ} (h1 : 1 ≤ bpd) (h5 : bpd ≤ 5) (hm : 0 < m) (hw : 5 ≤ w) (hmw : m * 16 < 2 ^ w)
    (he1 : -4000 ≤ e) (he2 : e ≤ 4000) : Nonempty (Ctx w bpd m e) := by
  have hb1 : (1 : ℤ) ≤ (bpd : ℤ) := by exact_mod_cast h1
  have hb5 : ((bpd : ℤ)) ≤ 5 := by exact_mod_cast h5
  have hmod0 : 0 ≤ e % (bpd : ℤ) := Int.emod_nonneg _ (by omega)
  have hmodlt : e % (bpd : ℤ) < bpd := Int.emod_lt_of_pos _ (by omega)
  obtain ⟨s, hs⟩ : ∃ s : Nat, (s : ℤ) = e % (bpd : ℤ) := ⟨(e % (bpd : ℤ)).toNat, by omega⟩
  have hs4 : s ≤ 4 := by omega
  have hr : 2 ≤ 2 ^ bpd := by
    calc 2 = 2 ^ 1 := rfl
      _ ≤ 2 ^ bpd := Nat.pow_le_pow_right (by decide) h1
  -- the shifted mantissa does not overflow the unsigned type
  have hpow : 2 ^ s ≤ 16 := by
    calc 2 ^ s ≤ 2 ^ 4 := Nat.pow_le_pow_right (by decide) hs4
      _ = 16 := rfl
  have hvlt : m * 2 ^ s < 2 ^ w := Nat.lt_of_le_of_lt (Nat.mul_le_mul_left m hpow) hmw
  have hshl : shlW w m (calculateShl e (fastLog2 (2 ^ bpd))) = m * 2 ^ s := by
    rw [fastLog2_pow h1 h5, calculateShl_eq he1 he2 hb1 hb5, ← hs]
    unfold shlW
    have : ((s : ℤ) % (w : ℤ)).toNat = s := by
      have : (s : ℤ) % (w : ℤ) = s := Int.emod_eq_of_lt (by omega) (by omega)
      rw [this]; simp
    rw [this, Nat.shiftLeft_eq, Nat.mod_eq_of_lt hvlt]
  have hds : mantissaDigits w (2 ^ bpd) m e = toDigits (2 ^ bpd) (m * 2 ^ s) := by
    unfold mantissaDigits; rw [hshl]
  have hvpos : 0 < m * 2 ^ s := Nat.mul_pos hm (Nat.two_pow_pos s)
  obtain ⟨d0, tail, hdt, hd0⟩ := toDigits_head_pos (2 ^ bpd) (m * 2 ^ s) hr hvpos
  obtain ⟨mb1, mb2, mb3⟩ := significantBits_spec hm
  -- bit length of the shifted mantissa
  have hL1 : 2 ^ (significantBits m + s - 1) ≤ m * 2 ^ s := by
    have : significantBits m + s - 1 = (significantBits m - 1) + s := by omega
    rw [this, Nat.pow_add]
    exact Nat.mul_le_mul_right _ mb2
  have hL2 : m * 2 ^ s < 2 ^ (significantBits m + s) := by
    rw [Nat.pow_add]
    exact Nat.mul_lt_mul_of_pos_right mb3 (Nat.two_pow_pos s)
  have hlen := toDigits_length_pow2 bpd (m * 2 ^ s) (significantBits m + s) h1 (by omega) hL1 hL2
  have htr : rtrimZeros (d0 :: tail) = d0 :: rtrimZeros tail := rtrimZeros_cons_ne_zero d0 tail hd0
  obtain ⟨k, hk1, hk2⟩ := rtrimZeros_spec (d0 :: tail)
  rw [htr] at hk1 hk2
  have hval : m * 2 ^ s = ofDigits (2 ^ bpd) (d0 :: rtrimZeros tail) * (2 ^ bpd) ^ k := by
    have := ofDigits_toDigits (2 ^ bpd) (m * 2 ^ s) hr
    rw [hdt, hk1, ofDigits_append_zeros] at this
    exact this.symm
  refine ⟨⟨s, k, d0, tail, hs, by rw [hds, hdt], hd0, ?_, hval, by rw [hds, hdt, htr]⟩⟩
  rw [hdt] at hlen
  have : k + (1 + (rtrimZeros tail).length) = (significantBits m + s - 1) / bpd + 1 := by
    rw [← hlen]; simp only [List.length_cons] at hk2 ⊢; omega
  exact_mod_cast this

/-- the arithmetic heart: with `F = ⌊(e + mb - 1) / bpd⌋` (the scaled scientific exponent) and
`count = ⌊(mb + s - 1) / bpd⌋ + 1` digits, `bpd · (F + 1 - count) = e - s` -/
theorem core_arith (e : ℤ) (mb s bpd : Nat) (h1 : 1 ≤ bpd) (h5 : bpd ≤ 5) (hmb : 1 ≤ mb)
    (hs : (s : ℤ) = e % (bpd : ℤ)) :
    (bpd : ℤ) * ((e + mb - 1) / (bpd : ℤ) + 1 - (((mb + s - 1) / bpd + 1 : Nat) : ℤ)) = e - s := by
  have : bpd = 1 ∨ bpd = 2 ∨ bpd = 3 ∨ bpd = 4 ∨ bpd = 5 := by omega
  rcases this with h | h | h | h | h <;> subst h <;> push_cast at hs ⊢ <;> omega

theorem expFactor_two_pow (bpb : Nat) (x : ℤ) : expFactor (2 ^ bpb) (some x) = (2 : ℚ) ^ ((bpb : ℤ) * x) := by
  unfold expFactor
  push_cast
  rw [← zpow_natCast, ← zpow_mul]

/-- MAIN LEMMA: for a non-zero mantissa `m` (that fits the unsigned type with 4 spare bits) and exponent `e`, whatever
notation `write_float!` chooses, the layout denotes exactly `m · 2^e`. Radix `2^bpd` (`bpd = 1..5`), exponent base
`2^bpb` with `bpb = bpd` (binary.rs) or one of hex.rs' documented pairs. Any break points, any `min_significant_digits`,
trim on or off. -/
theorem layoutME_exact (fmt : Format) (o : WOpts) {w bpd bpb m : Nat} {e : ℤ}
    (hr : fmt.mantissaRadix = 2 ^ bpd) (hb : fmt.exponentBase = 2 ^ bpb)
    (h1 : 1 ≤ bpd) (h5 : bpd ≤ 5) (hpair : bpb = 1 ∨ (bpb = 2 ∧ bpd = 4) ∨ bpb = bpd)
    (hm : 0 < m) (hw : 5 ≤ w) (hmw : m * 16 < 2 ^ w) (hm64 : m < 2 ^ 64) (he1 : -2000 ≤ e) (he2 : e ≤ 2000) :
    layoutQ (2 ^ bpd) (2 ^ bpb) (layoutME fmt o w m e) = (m : ℚ) * (2 : ℚ) ^ e := by
  obtain ⟨c⟩ := mkCtx (w := w) (bpd := bpd) (m := m) (e := e) h1 h5 hm hw hmw (by omega) (by omega)
  obtain ⟨mb1, mb2, mb3⟩ := significantBits_spec hm
  have hmb64 : significantBits m ≤ 64 := by
    have h := Nat.lt_of_le_of_lt mb2 hm64
    have := (Nat.pow_lt_pow_iff_right (by decide : 1 < 2)).mp h
    omega
  have hb1 : (1 : ℤ) ≤ (bpd : ℤ) := by exact_mod_cast h1
  have hb5 : ((bpd : ℤ)) ≤ 5 := by exact_mod_cast h5
  have hsci : (if m = 0 then (0 : ℤ) else i32 (i32 (e + (significantBits m : ℤ)) - 1))
      = e + (significantBits m : ℤ) - 1 := by
    rw [if_neg (by omega), i32_id (x := e + (significantBits m : ℤ)) (by omega) (by omega), i32_id (by omega) (by omega)]
  have hcore := core_arith e (significantBits m) c.s bpd h1 h5 mb1 c.hs
  have htarget := target_eq e c.hv
  have hlog : fastLog2 (2 ^ bpd) = (bpd : ℤ) := fastLog2_pow h1 h5
  have hk := c.hk
  push_cast at hk hcore
  have hF := ediv_bounds (s := e + (significantBits m : ℤ) - 1) (L := (bpd : ℤ)) (by omega) (by omega) hb1 hb5
  unfold layoutME
  simp only [hr, hb, hsci]
  split_ifs with c1 c2 c3
  · -- scientific, hex.rs scaling
    obtain ⟨j, hsh, hjf, hexp⟩ := sci_shape fmt o w (2 ^ bpd) m e
      (scaleSciExpHex (e + (significantBits m : ℤ) - 1) (fastLog2 (2 ^ bpd)) (fastLog2 (2 ^ bpb))) c.d0 c.tail c.hds
    have hbpb : 1 ≤ bpb ∧ bpb ≤ 5 := by omega
    have hscaled := scaleSciExpHex_eq (s := e + (significantBits m : ℤ) - 1) (bpd := (bpd : ℤ)) (bpb := (bpb : ℤ))
      (by omega) (by omega) hb1 hb5 (by omega)
    have hx : expFactor (2 ^ bpb) (sciLayout fmt o w (2 ^ bpd) m e
        (scaleSciExpHex (e + (significantBits m : ℤ) - 1) (fastLog2 (2 ^ bpd)) (fastLog2 (2 ^ bpb)))).exp
        = (2 : ℚ) ^ ((e + (significantBits m : ℤ) - 1) / (bpd : ℤ) * (bpd : ℤ)) := by
      rw [hexp, expFactor_two_pow, hlog, fastLog2_pow hbpb.1 hbpb.2, ← hscaled, mul_comm]
    rw [layoutQ_of_shape hsh hx, htarget]
    congr 1
    congr 1
    push_cast at hjf
    linear_combination (bpd : ℤ) * hjf + hcore - (bpd : ℤ) * hk
  · -- scientific, binary.rs scaling (radix = base)
    obtain ⟨j, hsh, hjf, hexp⟩ := sci_shape fmt o w (2 ^ bpd) m e
      (scaleSciExp (e + (significantBits m : ℤ) - 1) (fastLog2 (2 ^ bpd))) c.d0 c.tail c.hds
    have hbb : bpb = bpd := by
      have : (2 : Nat) ^ bpd = 2 ^ bpb := Decidable.not_not.mp c2
      exact (Nat.pow_right_injective (Nat.le_refl 2) this).symm
    have hx : expFactor (2 ^ bpb) (sciLayout fmt o w (2 ^ bpd) m e
        (scaleSciExp (e + (significantBits m : ℤ) - 1) (fastLog2 (2 ^ bpd)))).exp
        = (2 : ℚ) ^ ((e + (significantBits m : ℤ) - 1) / (bpd : ℤ) * (bpd : ℤ)) := by
      rw [hexp, expFactor_two_pow, hlog, scaleSciExp_eq (by omega) (by omega) hb1 hb5, hbb, mul_comm]
    rw [layoutQ_of_shape hsh hx, htarget]
    congr 1
    congr 1
    push_cast at hjf
    linear_combination (bpd : ℤ) * hjf + hcore - (bpd : ℤ) * hk
  · -- negative positional
    have hzd : (fastCeildiv (i32 (-(e + (significantBits m : ℤ) - 1))) (fastLog2 (2 ^ bpd))).toNat
        = (-((e + (significantBits m : ℤ) - 1) / (bpd : ℤ))).toNat := by
      rw [hlog, i32_id (by omega) (by omega), fastCeildiv_eq (by omega) (by omega) hb1 hb5, Int.neg_neg]
    have hFneg : (e + (significantBits m : ℤ) - 1) / (bpd : ℤ) ≤ -1 := by
      have := Int.ediv_lt_of_lt_mul (a := e + (significantBits m : ℤ) - 1) (b := 0) (c := (bpd : ℤ)) (by omega) (by omega)
      omega
    obtain ⟨j, hsh, hjf, hexp⟩ := neg_shape o w (2 ^ bpd) m e (e + (significantBits m : ℤ) - 1)
      (-((e + (significantBits m : ℤ) - 1) / (bpd : ℤ))).toNat hzd (by omega)
    rw [c.htr] at hsh hjf
    have hx : expFactor (2 ^ bpb) (negLayout o w (2 ^ bpd) m e (e + (significantBits m : ℤ) - 1)).exp = (2 : ℚ) ^ (0 : ℤ) := by
      rw [hexp]; simp [expFactor]
    rw [layoutQ_of_shape hsh hx, htarget]
    congr 1
    congr 1
    have hzc : (((-((e + (significantBits m : ℤ) - 1) / (bpd : ℤ))).toNat : Nat) : ℤ)
        = -((e + (significantBits m : ℤ) - 1) / (bpd : ℤ)) := Int.toNat_of_nonneg (by omega)
    have hjf2 : (j : ℤ) - ((negLayout o w (2 ^ bpd) m e (e + (significantBits m : ℤ) - 1)).frac.length : ℤ)
        = (e + (significantBits m : ℤ) - 1) / (bpd : ℤ) - ((rtrimZeros c.tail).length : ℤ) := by
      rw [hjf]
      have hz1 : 1 ≤ (-((e + (significantBits m : ℤ) - 1) / (bpd : ℤ))).toNat := by omega
      simp only [List.length_cons]
      push_cast [Nat.cast_sub hz1]
      rw [hzc]; ring
    linear_combination (bpd : ℤ) * hjf2 + hcore - (bpd : ℤ) * hk
  · -- positive positional
    have hsnn : 0 ≤ e + (significantBits m : ℤ) - 1 := by omega
    have hl : (Int.tdiv (e + (significantBits m : ℤ) - 1) (fastLog2 (2 ^ bpd))).toNat + 1
        = ((e + (significantBits m : ℤ) - 1) / (bpd : ℤ)).toNat + 1 := by
      rw [hlog, Int.tdiv_eq_ediv_of_nonneg hsnn]
    obtain ⟨j, hsh, hjf, hexp⟩ := pos_shape o w (2 ^ bpd) m e (e + (significantBits m : ℤ) - 1) _ hl
    rw [c.htr] at hsh hjf
    have hx : expFactor (2 ^ bpb) (posLayout o w (2 ^ bpd) m e (e + (significantBits m : ℤ) - 1)).exp = (2 : ℚ) ^ (0 : ℤ) := by
      rw [hexp]; simp [expFactor]
    rw [layoutQ_of_shape hsh hx, htarget]
    congr 1
    congr 1
    have hzc : ((((e + (significantBits m : ℤ) - 1) / (bpd : ℤ)).toNat : Nat) : ℤ)
        = (e + (significantBits m : ℤ) - 1) / (bpd : ℤ) := Int.toNat_of_nonneg (hF.2.2.2 hsnn)
    have hjf2 : (j : ℤ) - ((posLayout o w (2 ^ bpd) m e (e + (significantBits m : ℤ) - 1)).frac.length : ℤ)
        = (e + (significantBits m : ℤ) - 1) / (bpd : ℤ) - ((rtrimZeros c.tail).length : ℤ) := by
      rw [hjf]
      simp only [List.length_cons]
      push_cast
      rw [hzc]; ring
    linear_combination (bpd : ℤ) * hjf2 + hcore - (bpd : ℤ) * hk

/-- zero mantissa (`+0.0`): every layout consists of zero digits only -/
theorem layoutME_zero (fmt : Format) (o : WOpts) {w bpd bpb : Nat} (e : ℤ)
    (hr : fmt.mantissaRadix = 2 ^ bpd) (hb : fmt.exponentBase = 2 ^ bpb) (h1 : 1 ≤ bpd) :
    layoutQ (2 ^ bpd) (2 ^ bpb) (layoutME fmt o w 0 e) = 0 := by
  have hr2 : 2 ≤ 2 ^ bpd := by
    calc 2 = 2 ^ 1 := rfl
      _ ≤ 2 ^ bpd := Nat.pow_le_pow_right (by decide) h1
  have hds : ∀ e' : ℤ, mantissaDigits w (2 ^ bpd) 0 e' = 0 :: [] := by
    intro e'
    unfold mantissaDigits shlW
    simp only [Nat.zero_shiftLeft, Nat.zero_mod]
    exact toDigits_zero _ hr2
  have htr : ∀ e' : ℤ, rtrimZeros (mantissaDigits w (2 ^ bpd) 0 e') = [] := by
    intro e'; rw [hds]; rfl
  unfold layoutME
  simp only [hr, hb, if_true]
  split_ifs with c1 c2 c3
  · obtain ⟨j, hsh, _, hexp⟩ := sci_shape fmt o w (2 ^ bpd) 0 e
      (scaleSciExpHex 0 (fastLog2 (2 ^ bpd)) (fastLog2 (2 ^ bpb))) 0 [] (hds e)
    rw [layoutQ_of_shape hsh (by rw [hexp, expFactor_two_pow])]
    simp [rtrimZeros, ofDigits]
  · obtain ⟨j, hsh, _, hexp⟩ := sci_shape fmt o w (2 ^ bpd) 0 e
      (scaleSciExp 0 (fastLog2 (2 ^ bpd))) 0 [] (hds e)
    rw [layoutQ_of_shape hsh (by rw [hexp, expFactor_two_pow])]
    simp [rtrimZeros, ofDigits]
  · exact absurd c3 (by decide)
  · obtain ⟨j, hsh, _, hexp⟩ := pos_shape o w (2 ^ bpd) 0 e 0 _ rfl
    rw [htr] at hsh
    have hx : expFactor (2 ^ bpb) (posLayout o w (2 ^ bpd) 0 e 0).exp = (2 : ℚ) ^ (0 : ℤ) := by
      rw [hexp]; simp [expFactor]
    rw [layoutQ_of_shape hsh hx]
    simp [ofDigits]

end LexVerif.Proof.WriteBinaryExact
