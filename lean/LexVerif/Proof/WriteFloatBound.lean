import LexVerif.Proof.WriteFloatBuf
/-!
# Proof.WriteFloatBound — when the buffer-faithful layout functions panic, and how far they write

For every layout function `f`: `f … b = .panic ↔ b.len < need_f …` (so `need_f` is the exact minimal slice length),
`f … b ≠ .fault`, and on success `hi ≤ max b.hi (need_f …)`.
-/
namespace LexVerif.Proof.WriteFloatBound
open LexVerif.Spec LexVerif.Model LexVerif.Model.WriteFloat LexVerif.Proof.WriteFloatBuf
open LexVerif.Model.WriteInt (Res)

theorem bind_panic_iff {α β} (x : Res α) (f : α → Res β) :
    (x >>= f) = .panic ↔ x = .panic ∨ ∃ a, x = .ok a ∧ f a = .panic := by
  cases x <;> simp [bind, Res.bind]

theorem set_panic_iff (b : WBuf) (i v : Nat) : b.set i v = .panic ↔ ¬ i < b.len := by
  unfold WBuf.set; split <;> simp [*]
theorem get_panic_iff (b : WBuf) (i : Nat) : b.get i = .panic ↔ ¬ i < b.len := by
  unfold WBuf.get; split <;> simp [*]
theorem blit_panic_iff (b : WBuf) (off : Nat) (xs : List Nat) : b.blit off xs = .panic ↔ ¬ off + xs.length ≤ b.len := by
  unfold WBuf.blit; split <;> simp [*]
theorem fill_panic_iff (b : WBuf) (i j v : Nat) : b.fill i j v = .panic ↔ ¬ (i ≤ j ∧ j ≤ b.len) := by
  unfold WBuf.fill; split <;> simp [*]
theorem demand_panic_iff (b : WBuf) (k need : Nat) : b.demand k need = .panic ↔ ¬ (k ≤ b.len ∧ need ≤ b.len - k) := by
  unfold WBuf.demand; split <;> simp [*]

/-- eliminate the intermediate buffer of an inverted bind -/
theorem ex_elim {α} (p : Prop) (t : α) (q : α → Prop) : (∃ a, (p ∧ a = t) ∧ q a) ↔ p ∧ q t := by
  constructor
  · rintro ⟨a, ⟨hp, rfl⟩, hq⟩; exact ⟨hp, hq⟩
  · rintro ⟨hp, hq⟩; exact ⟨t, ⟨hp, rfl⟩, hq⟩
theorem ex_elim_unit (p : Prop) (q : Unit → Prop) : (∃ a, p ∧ q a) ↔ p ∧ q () := by
  constructor
  · rintro ⟨a, hp, hq⟩; exact ⟨hp, hq⟩
  · rintro ⟨hp, hq⟩; exact ⟨(), hp, hq⟩

/-- the simp set that turns `f … = .panic` / `f … = .ok r` into arithmetic -/
macro "res_simp" " at " h:ident : tactic => `(tactic|
  simp only [bind_panic_iff, bind_ok_iff, set_panic_iff, set_ok_iff, get_panic_iff, get_ok_iff, blit_panic_iff, blit_ok_iff,
    fill_panic_iff, fill_ok_iff, demand_panic_iff, demand_ok_iff, ex_elim, ex_elim_unit, put_len, chars_length,
    List.length_replicate, List.length_cons, List.length_nil, reduceCtorEq, and_false, or_false, false_or, false_and,
    exists_false, exists_const, Res.ok.injEq, Nat.sub_zero, Nat.zero_add] at $h:ident)
macro "res_simp_goal" : tactic => `(tactic|
  simp only [bind_panic_iff, bind_ok_iff, set_panic_iff, set_ok_iff, get_panic_iff, get_ok_iff, blit_panic_iff, blit_ok_iff,
    fill_panic_iff, fill_ok_iff, demand_panic_iff, demand_ok_iff, ex_elim, ex_elim_unit, put_len, chars_length,
    List.length_replicate, List.length_cons, List.length_nil, reduceCtorEq, and_false, or_false, false_or, false_and,
    exists_false, exists_const, Res.ok.injEq, Nat.sub_zero, Nat.zero_add])

/-! ## padding and exponent -/

def needPad (cursor count exact : Nat) : Nat := if count < exact then cursor + (exact - count) else 0

theorem padZeros_panic_iff (b : WBuf) (cursor count exact : Nat) :
    padZeros b cursor count exact = .panic ↔ b.len < needPad cursor count exact := by
  unfold padZeros needPad
  split
  · constructor <;> intro h
    · res_simp at h; omega
    · res_simp_goal; omega
  · simp

def padBuf (b : WBuf) (cursor count exact : Nat) : WBuf :=
  if count < exact then b.put cursor (List.replicate (exact - count) 48) else b
def padCur (cursor count exact : Nat) : Nat := if count < exact then cursor + (exact - count) else cursor

theorem padZeros_ok_iff2 (b : WBuf) (cursor count exact : Nat) (r : Out) :
    padZeros b cursor count exact = .ok r ↔
      needPad cursor count exact ≤ b.len ∧ r = ⟨padBuf b cursor count exact, padCur cursor count exact⟩ := by
  rw [padZeros_ok_iff]
  unfold needPad padBuf padCur
  split <;> simp

@[simp] theorem padBuf_len (b : WBuf) (cursor count exact : Nat) : (padBuf b cursor count exact).len = b.len := by
  unfold padBuf; split <;> simp
theorem padBuf_hi (b : WBuf) (cursor count exact : Nat) :
    (padBuf b cursor count exact).hi = if count < exact then max b.hi (cursor + (exact - count)) else b.hi := by
  unfold padBuf; split
  · rename_i h
    simp only [put_hi, List.length_replicate]
  · rfl

/-! ### exponent -/

/-- slice length `write_exponent` needs when it starts at `cursor` (sign length `s`, `n` exponent digits) -/
def needExp (feats : Features) (radix cursor s n : Nat) : Nat := cursor + 1 + s + max n (expNeed feats radix n)

theorem writeExponentB_panic_iff (fmt : Format) (feats : Features) (b : WBuf) (cursor : Nat) (e : Int) (c : Nat) :
    writeExponentB fmt feats b cursor e c = .panic ↔
      b.len < needExp feats fmt.exponentRadix cursor (expSign fmt feats e).length
        (numeral fmt.exponentRadix e.natAbs).length := by
  unfold writeExponentB needExp
  dsimp only
  generalize (numeral fmt.exponentRadix e.natAbs) = N
  generalize (expSign fmt feats e) = S
  generalize expNeed feats fmt.exponentRadix N.length = en
  constructor <;> intro h
  · res_simp at h; omega
  · res_simp_goal; omega

theorem writeExponentB_ok_facts (fmt : Format) (feats : Features) (b : WBuf) (cursor : Nat) (e : Int) (c : Nat) (r : Out)
    (h : writeExponentB fmt feats b cursor e c = .ok r) :
    r.buf.len = b.len ∧
    r.cursor = cursor + 1 + (expSign fmt feats e).length + (numeral fmt.exponentRadix e.natAbs).length ∧
    r.buf.hi = max b.hi r.cursor := by
  rw [writeExponentB_ok_iff] at h
  obtain ⟨_, _, _, _, rfl⟩ := h
  refine ⟨by simp, rfl, ?_⟩
  simp only [put_hi, List.length_cons, List.length_nil]
  generalize (numeral fmt.exponentRadix e.natAbs).length = n
  generalize (expSign fmt feats e).length = s
  omega

/-! ### the fraction part of scientific notation -/

def needBody (fmt : Format) (n fl : Nat) (o : WOpts) : Nat :=
  if ¬ fmt.noExponentWithoutFraction = true ∧ n = 1 ∧ o.trim = true then 0
  else if n < minExactDigits n o then max (2 + fl) (n + 1 + (minExactDigits n o - n))
  else if n = 1 then 3
  else 2 + fl

def bodyCur (fmt : Format) (n : Nat) (o : WOpts) : Nat :=
  if ¬ fmt.noExponentWithoutFraction = true ∧ n = 1 ∧ o.trim = true then 1
  else if n < minExactDigits n o then n + 1 + (minExactDigits n o - n)
  else if n = 1 then 3
  else n + 1

theorem sciBody_panic_iff (fmt : Format) (n : Nat) (frac : List Nat) (o : WOpts) (b : WBuf) :
    sciBody fmt n frac o b = .panic ↔ b.len < needBody fmt n frac.length o := by
  unfold sciBody needBody
  dsimp only
  by_cases c1 : ¬ fmt.noExponentWithoutFraction = true ∧ n = 1 ∧ o.trim = true
  · rw [if_pos c1, if_pos c1]; simp
  · rw [if_neg c1, if_neg c1]
    by_cases c2 : n < minExactDigits n o
    · rw [if_pos c2, if_pos c2]
      constructor <;> intro h
      · simp only [bind_panic_iff, blit_panic_iff, blit_ok_iff, padZeros_panic_iff, ex_elim, put_len, needPad, if_pos c2] at h
        omega
      · simp only [bind_panic_iff, blit_panic_iff, blit_ok_iff, padZeros_panic_iff, ex_elim, put_len, needPad, if_pos c2]
        omega
    · rw [if_neg c2, if_neg c2]
      by_cases c3 : n = 1
      · rw [if_pos c3, if_pos c3]
        constructor <;> intro h
        · res_simp at h; omega
        · res_simp_goal; omega
      · rw [if_neg c3, if_neg c3]
        constructor <;> intro h
        · res_simp at h; omega
        · res_simp_goal; omega

theorem sciBody_nofault (fmt : Format) (n : Nat) (frac : List Nat) (o : WOpts) (b : WBuf) :
    sciBody fmt n frac o b ≠ .fault := by
  unfold sciBody
  dsimp only
  repeat' split
  · intro h; cases h
  · exact bind_nofault _ _ (blit_nofault _ _ _) (fun _ => padZeros_nofault _ _ _ _)
  · exact bind_nofault _ _ (set_nofault _ _ _) (fun _ => by intro h; cases h)
  · exact bind_nofault _ _ (blit_nofault _ _ _) (fun _ => by intro h; cases h)

theorem sciBody_ok_facts (fmt : Format) (n : Nat) (frac : List Nat) (o : WOpts) (b : WBuf) (r : Out)
    (h : sciBody fmt n frac o b = .ok r) :
    r.buf.len = b.len ∧ r.cursor = bodyCur fmt n o ∧
    r.buf.hi ≤ max b.hi (needBody fmt n frac.length o) := by
  unfold sciBody at h
  unfold needBody bodyCur
  dsimp only at h
  by_cases c1 : ¬ fmt.noExponentWithoutFraction = true ∧ n = 1 ∧ o.trim = true
  · rw [if_pos c1] at h; rw [if_pos c1, if_pos c1]
    simp only [Res.ok.injEq] at h; subst h
    simp
  · rw [if_neg c1] at h; rw [if_neg c1, if_neg c1]
    by_cases c2 : n < minExactDigits n o
    · rw [if_pos c2] at h; rw [if_pos c2, if_pos c2]
      simp only [bind_ok_iff, blit_ok_iff, padZeros_ok_iff2, ex_elim, put_len] at h
      obtain ⟨_, _, rfl⟩ := h
      refine ⟨by simp, by simp [padCur, c2], ?_⟩
      simp only [padBuf_hi, if_pos c2, put_hi, List.length_replicate]
      omega
    · rw [if_neg c2] at h; rw [if_neg c2, if_neg c2]
      by_cases c3 : n = 1
      · rw [if_pos c3] at h; rw [if_pos c3, if_pos c3]
        res_simp at h
        obtain ⟨_, rfl⟩ := h
        simp [put_hi]
      · rw [if_neg c3] at h; rw [if_neg c3, if_neg c3]
        res_simp at h
        obtain ⟨_, rfl⟩ := h
        refine ⟨by simp, rfl, ?_⟩
        simp only [put_hi]
        omega

/-! ## `compact.rs` -/

/-- second-stage simp set: also padding, exponent and fraction part -/
macro "fn_simp" " at " h:ident : tactic => `(tactic|
  simp only [bind_panic_iff, bind_ok_iff, set_panic_iff, set_ok_iff, get_panic_iff, get_ok_iff, blit_panic_iff, blit_ok_iff,
    fill_panic_iff, fill_ok_iff, demand_panic_iff, demand_ok_iff, padZeros_panic_iff, padZeros_ok_iff2,
    ex_elim, ex_elim_unit, put_len, padBuf_len, chars_length,
    List.length_replicate, List.length_cons, List.length_nil, reduceCtorEq, and_false, or_false, false_or, false_and,
    exists_false, exists_const, Res.ok.injEq, Nat.sub_zero, Nat.zero_add] at $h:ident)
macro "fn_simp_goal" : tactic => `(tactic|
  simp only [bind_panic_iff, bind_ok_iff, set_panic_iff, set_ok_iff, get_panic_iff, get_ok_iff, blit_panic_iff, blit_ok_iff,
    fill_panic_iff, fill_ok_iff, demand_panic_iff, demand_ok_iff, padZeros_panic_iff, padZeros_ok_iff2,
    ex_elim, ex_elim_unit, put_len, padBuf_len, chars_length,
    List.length_replicate, List.length_cons, List.length_nil, reduceCtorEq, and_false, or_false, false_or, false_and,
    exists_false, exists_const, Res.ok.injEq, Nat.sub_zero, Nat.zero_add])

def needNegC (k n exact : Nat) : Nat := max (k + 1 + n) (needPad (k + 1 + n) n exact)

theorem negC_panic_iff (ds : List Nat) (e : Int) (o : WOpts) (b : WBuf) (hk : 1 ≤ e.natAbs) :
    negC ds e o b = .panic ↔ b.len < needNegC e.natAbs ds.length (minExactDigits ds.length o) := by
  unfold negC needNegC
  dsimp only
  generalize e.natAbs = k at hk ⊢
  generalize minExactDigits ds.length o = ex
  by_cases hc : ds.length < ex
  · constructor <;> intro h
    · fn_simp at h; simp only [needPad, hc, ↓reduceIte] at h ⊢; omega
    · fn_simp_goal; simp only [needPad, hc, ↓reduceIte] at h ⊢; omega
  · constructor <;> intro h
    · fn_simp at h; simp only [needPad, hc, ↓reduceIte] at h ⊢; omega
    · fn_simp_goal; simp only [needPad, hc, ↓reduceIte] at h ⊢; omega

theorem negC_ok_facts (ds : List Nat) (e : Int) (o : WOpts) (b : WBuf) (r : Out) (h : negC ds e o b = .ok r) :
    r.buf.len = b.len ∧ r.cursor ≤ needNegC e.natAbs ds.length (minExactDigits ds.length o) ∧
    r.buf.hi ≤ max b.hi (needNegC e.natAbs ds.length (minExactDigits ds.length o)) := by
  unfold negC at h
  unfold needNegC needPad
  dsimp only at h
  generalize e.natAbs = k at h ⊢
  generalize minExactDigits ds.length o = ex at h ⊢
  fn_simp at h
  obtain ⟨_, _, _, _, _, rfl⟩ := h
  refine ⟨by simp, ?_, ?_⟩
  · simp only [padCur]; split <;> omega
  · simp only [padBuf_hi, put_hi, chars_length, List.length_replicate, List.length_cons, List.length_nil]
    repeat' split
    all_goals omega

/-- both directions of a `… = .panic ↔ len < need` goal once all branch conditions are hypotheses -/
macro "panic_tac" "[" hs:Lean.Parser.Tactic.simpLemma,* "]" : tactic => `(tactic|
  (constructor <;> intro h
   · simp only [needPad, $hs,*, ↓reduceIte, not_true_eq_false, not_false_eq_true, Bool.false_eq_true] at h ⊢
     fn_simp at h
     try simp only [needPad, $hs,*, ↓reduceIte, true_and, and_true, not_true_eq_false, not_false_eq_true, or_false, false_or, or_true, true_or, and_false, false_and] at h
     omega
   · simp only [needPad, $hs,*, ↓reduceIte, not_true_eq_false, not_false_eq_true, Bool.false_eq_true] at h ⊢
     fn_simp_goal
     try simp only [needPad, $hs,*, ↓reduceIte, true_and, and_true, not_true_eq_false, not_false_eq_true, or_false, false_or, and_false, false_and]
     omega))

/-- `hi` goal after substitution of the result -/
macro "hi_tac" : tactic => `(tactic|
  (simp only [padBuf_hi, padCur, needPad, put_hi, chars_length, List.length_replicate, List.length_cons, List.length_nil,
     List.length_take, List.length_drop]
   repeat' split
   all_goals omega))

def needPosC (leading n : Nat) (trim : Bool) (exact1 exact : Nat) : Nat :=
  if leading ≥ n then
    (if trim then leading else max (leading + 2) (needPad (leading + 2) (leading + 1) exact1))
  else max (n + 1) (needPad (n + 1) n exact)

theorem posCLayout_panic_iff (ds : List Nat) (e : Int) (o : WOpts) (b : WBuf) :
    posCLayout ds e o b = .panic ↔
      b.len < needPosC (e.toNat + 1) ds.length o.trim (minExactDigits (e.toNat + 1 + 1) o) (minExactDigits ds.length o) := by
  unfold posCLayout needPosC
  dsimp only
  generalize e.toNat + 1 = leading
  generalize minExactDigits (leading + 1) o = ex1
  generalize minExactDigits ds.length o = ex
  by_cases c1 : leading ≥ ds.length
  · rw [if_pos c1, if_pos c1]
    by_cases c2 : o.trim = true
    · panic_tac [c2]
    · by_cases hc : leading + 1 < ex1
      · panic_tac [c2, hc]
      · panic_tac [c2, hc]
  · rw [if_neg c1, if_neg c1]
    have hmin : min leading ds.length = leading := by omega
    by_cases hc : ds.length < ex
    · panic_tac [hc, hmin, List.length_take, List.length_drop]
    · panic_tac [hc, hmin, List.length_take, List.length_drop]

theorem posCLayout_ok_facts (ds : List Nat) (e : Int) (o : WOpts) (b : WBuf) (r : Out) (h : posCLayout ds e o b = .ok r) :
    r.buf.len = b.len ∧
    r.cursor ≤ needPosC (e.toNat + 1) ds.length o.trim (minExactDigits (e.toNat + 1 + 1) o) (minExactDigits ds.length o) ∧
    r.buf.hi ≤ max b.hi
      (needPosC (e.toNat + 1) ds.length o.trim (minExactDigits (e.toNat + 1 + 1) o) (minExactDigits ds.length o)) := by
  unfold posCLayout at h
  unfold needPosC
  dsimp only at h
  generalize e.toNat + 1 = leading at h ⊢
  generalize minExactDigits (leading + 1) o = ex1 at h ⊢
  generalize minExactDigits ds.length o = ex at h ⊢
  by_cases c1 : leading ≥ ds.length
  · rw [if_pos c1] at h; rw [if_pos c1]
    by_cases c2 : o.trim = true
    · simp only [c2, not_true_eq_false, ↓reduceIte] at h ⊢
      fn_simp at h
      obtain ⟨_, _, rfl⟩ := h
      refine ⟨by simp, by simp, ?_⟩
      hi_tac
    · simp only [c2, not_false_eq_true, ↓reduceIte, Bool.false_eq_true] at h ⊢
      fn_simp at h
      obtain ⟨_, _, _, _, _, rfl⟩ := h
      refine ⟨by simp, ?_, ?_⟩
      · simp only [padCur, needPad]; split <;> omega
      · hi_tac
  · rw [if_neg c1] at h; rw [if_neg c1]
    have hmin : min leading ds.length = leading := by omega
    fn_simp at h
    simp only [List.length_take, List.length_drop, hmin] at h
    obtain ⟨_, _, _, _, rfl⟩ := h
    refine ⟨by simp, ?_, ?_⟩
    · simp only [padCur, needPad]; split <;> omega
    · hi_tac

def needSciC (fmt : Format) (feats : Features) (n : Nat) (o : WOpts) (s nl : Nat) : Nat :=
  max (needBody fmt n (n - 1) o) (needExp feats fmt.exponentRadix (bodyCur fmt n o) s nl)

theorem needExp_ge (feats : Features) (radix cursor s n : Nat) : cursor + 1 ≤ needExp feats radix cursor s n := by
  unfold needExp; omega
theorem bodyCur_ge (fmt : Format) (n : Nat) (o : WOpts) : 1 ≤ bodyCur fmt n o := by
  unfold bodyCur; repeat' split
  all_goals omega

theorem sciCLayout_panic_iff (fmt : Format) (feats : Features) (ds : List Nat) (e : Int) (o : WOpts) (b : WBuf) :
    sciCLayout fmt feats ds e o b = .panic ↔
      b.len < needSciC fmt feats ds.length o (expSign fmt feats e).length (numeral fmt.exponentRadix e.natAbs).length := by
  unfold sciCLayout needSciC
  have hge := needExp_ge feats fmt.exponentRadix (bodyCur fmt ds.length o) (expSign fmt feats e).length
    (numeral fmt.exponentRadix e.natAbs).length
  have hbc := bodyCur_ge fmt ds.length o
  constructor <;> intro h
  · simp only [bind_panic_iff, set_panic_iff, set_ok_iff, ex_elim, put_len, sciBody_panic_iff, chars_length,
      List.length_tail] at h
    rcases h with h | ⟨_, h | ⟨_, h | ⟨r1, h1, h2⟩⟩⟩
    · omega
    · omega
    · omega
    · obtain ⟨hl, hc, _⟩ := sciBody_ok_facts _ _ _ _ _ _ h1
      rw [writeExponentB_panic_iff, hl, hc] at h2
      simp only [put_len] at h2
      omega
  · simp only [bind_panic_iff, set_panic_iff, set_ok_iff, ex_elim, put_len, sciBody_panic_iff, chars_length,
      List.length_tail]
    by_cases h0 : 0 < b.len
    · refine Or.inr ⟨h0, ?_⟩
      by_cases h1 : 1 < b.len
      · refine Or.inr ⟨h1, ?_⟩
        by_cases h2 : b.len < needBody fmt ds.length (ds.length - 1) o
        · exact Or.inl h2
        · right
          have hnp : sciBody fmt ds.length (chars ds.tail) o ((b.put 0 [digitChar (ds.headD 0)]).put 1 [o.dp]) ≠ .panic := by
            rw [Ne, sciBody_panic_iff]; simp only [put_len, chars_length, List.length_tail]; exact h2
          have hnf := sciBody_nofault fmt ds.length (chars ds.tail) o ((b.put 0 [digitChar (ds.headD 0)]).put 1 [o.dp])
          cases hs : sciBody fmt ds.length (chars ds.tail) o ((b.put 0 [digitChar (ds.headD 0)]).put 1 [o.dp]) with
          | panic => exact absurd hs hnp
          | fault => exact absurd hs hnf
          | ok r1 =>
            refine ⟨r1, rfl, ?_⟩
            obtain ⟨hl, hc, _⟩ := sciBody_ok_facts _ _ _ _ _ _ hs
            rw [writeExponentB_panic_iff, hl, hc]
            simp only [put_len]
            omega
      · left; exact h1
    · left; exact h0

theorem sciCLayout_ok_facts (fmt : Format) (feats : Features) (ds : List Nat) (e : Int) (o : WOpts) (b : WBuf) (r : Out)
    (h : sciCLayout fmt feats ds e o b = .ok r) :
    r.buf.len = b.len ∧
    r.cursor ≤ needSciC fmt feats ds.length o (expSign fmt feats e).length (numeral fmt.exponentRadix e.natAbs).length ∧
    r.buf.hi ≤ max b.hi
      (needSciC fmt feats ds.length o (expSign fmt feats e).length (numeral fmt.exponentRadix e.natAbs).length) := by
  unfold sciCLayout at h
  unfold needSciC
  simp only [bind_ok_iff, set_ok_iff, ex_elim] at h
  obtain ⟨_, _, r1, h1, h2⟩ := h
  obtain ⟨hl, hc, hh⟩ := sciBody_ok_facts _ _ _ _ _ _ h1
  obtain ⟨el, ec, eh⟩ := writeExponentB_ok_facts _ _ _ _ _ _ _ h2
  simp only [put_len, chars_length, List.length_tail, put_hi, List.length_cons, List.length_nil] at hl hh
  rw [hc] at ec
  refine ⟨by rw [el, hl], ?_, ?_⟩
  · rw [ec]; unfold needExp; omega
  · rw [eh, ec]; unfold needExp
    have := bodyCur_ge fmt ds.length o
    simp at hh
    omega

/-! ## `algorithm.rs` -/

theorem minExactDigits_succ (c : Nat) (o : WOpts) :
    minExactDigits (c + 1) o = max (minExactDigits c o) (c + 1) := by
  unfold minExactDigits; split <;> omega

/-- in the `carried ∧ k = 1` branch the `0` after the point counts as a written digit (`digit_count += 1`):
the padding target is `minExactDigits (count + 1) o = max exact (count + 1)` -/
def needNegN (nd n0 count : Nat) (carried trim : Bool) (k exact : Nat) : Nat :=
  max (k + 1 + max nd n0)
    (if carried = true ∧ k + 1 = 2 then
       (if trim = true then 0 else max 3 (needPad 3 (count + 1) (max exact (count + 1))))
     else if carried = true then needPad (k + 1) count exact
     else needPad (k + 1 + count) count exact)

theorem negN_panic_iff (nd : Nat) (ds : List Nat) (e : Int) (o : WOpts) (b : WBuf) (hk : 1 ≤ e.natAbs)
    (hc1 : 1 ≤ (truncateAndRound ds o).1.length) (hc2 : (truncateAndRound ds o).1.length ≤ ds.length) :
    negN nd ds e o b = .panic ↔
      b.len < needNegN nd ds.length (truncateAndRound ds o).1.length (truncateAndRound ds o).2 o.trim e.natAbs
        (minExactDigits (truncateAndRound ds o).1.length o) := by
  unfold negN needNegN
  dsimp only
  generalize truncateAndRound ds o = tr at hc1 hc2 ⊢
  obtain ⟨ds', c⟩ := tr
  dsimp only at hc1 hc2 ⊢
  generalize e.natAbs = k at hk ⊢
  rw [minExactDigits_succ]
  generalize minExactDigits ds'.length o = ex
  by_cases c1 : c = true
  · subst c1
    by_cases c2 : k + 1 = 2
    · by_cases c3 : o.trim = true
      · panic_tac [c2, c3, and_self]
      · by_cases hc : ds'.length + 1 < max ex (ds'.length + 1)
        · panic_tac [c2, c3, hc, and_self]
        · panic_tac [c2, c3, hc, and_self]
    · by_cases hc : ds'.length < ex
      · panic_tac [c2, hc, and_false, true_and]
      · panic_tac [c2, hc, and_false, true_and]
  · have c1' : c = false := by simpa using c1
    subst c1'
    by_cases hc : ds'.length < ex
    · panic_tac [hc, false_and]
    · panic_tac [hc, false_and]

theorem negN_ok_facts (nd : Nat) (ds : List Nat) (e : Int) (o : WOpts) (b : WBuf) (r : Out)
    (hc1 : 1 ≤ (truncateAndRound ds o).1.length) (hc2 : (truncateAndRound ds o).1.length ≤ ds.length)
    (h : negN nd ds e o b = .ok r) :
    r.buf.len = b.len ∧
    r.cursor ≤ needNegN nd ds.length (truncateAndRound ds o).1.length (truncateAndRound ds o).2 o.trim e.natAbs
        (minExactDigits (truncateAndRound ds o).1.length o) ∧
    r.buf.hi ≤ max b.hi (needNegN nd ds.length (truncateAndRound ds o).1.length (truncateAndRound ds o).2 o.trim e.natAbs
        (minExactDigits (truncateAndRound ds o).1.length o)) := by
  unfold negN at h
  unfold needNegN
  dsimp only at h
  generalize truncateAndRound ds o = tr at hc1 hc2 h ⊢
  obtain ⟨ds', c⟩ := tr
  dsimp only at hc1 hc2 h ⊢
  generalize e.natAbs = k at h ⊢
  rw [minExactDigits_succ] at h
  generalize minExactDigits ds'.length o = ex at h ⊢
  by_cases c1 : c = true
  · subst c1
    by_cases c2 : k + 1 = 2
    · by_cases c3 : o.trim = true
      · simp only [c2, c3, and_self, ↓reduceIte] at h ⊢
        fn_simp at h
        obtain ⟨_, _, _, _, _, rfl⟩ := h
        refine ⟨by simp, by simp; omega, ?_⟩
        hi_tac
      · simp only [c2, c3, and_self, ↓reduceIte, Bool.false_eq_true] at h ⊢
        fn_simp at h
        obtain ⟨_, _, _, _, _, _, _, _, rfl⟩ := h
        refine ⟨by simp, ?_, ?_⟩
        · simp only [padCur, needPad]; split <;> omega
        · hi_tac
    · simp only [c2, and_false, ↓reduceIte] at h ⊢
      fn_simp at h
      obtain ⟨_, _, _, _, _, _, _, _, rfl⟩ := h
      refine ⟨by simp, ?_, ?_⟩
      · simp only [padCur, needPad]; split <;> omega
      · hi_tac
  · have c1' : c = false := by simpa using c1
    subst c1'
    simp only [Bool.false_eq_true, false_and, ↓reduceIte] at h ⊢
    fn_simp at h
    obtain ⟨_, _, _, _, _, _, rfl⟩ := h
    refine ⟨by simp, ?_, ?_⟩
    · simp only [padCur, needPad]; split <;> omega
    · hi_tac

end LexVerif.Proof.WriteFloatBound
