import LexVerif.Proof.GrammarComplete
/-!
# Proof.GrammarSpecial — the special-value parser against `Spec.Grammar.specialOf` (C15)

`starts_with` / `starts_with_uncased` (the XOR-0x20 fold), `is_special_eq`, `parse_positive_special`,
`parse_special` (complete) on a format without digit separators.
-/
namespace LexVerif.Proof.Grammar
open LexVerif LexVerif.Spec LexVerif.Model

/-- prefix test of a pattern against the input under a byte relation -/
def pfx (eq : Nat → Nat → Bool) : List Nat → List Nat → Bool
  | _, [] => true
  | [], _ :: _ => false
  | a :: as, b :: bs => eq a b && pfx eq as bs

/-- the XOR fold of `starts_with_uncased`: equal, or differing exactly in bit 5 -/
def xorEq (x y : Nat) : Bool := !(decide (Nat.xor x y ≠ 0) && decide (Nat.xor x y ≠ 32))

/-- **the XOR-0x20 fold is ASCII case-insensitive equality *because* the option strings are letters**
(`OptionsBuilder::build` rejects anything else); kernel-checked over all bytes × all letters -/
theorem xor_letter_aux : ∀ x, x < 256 → ∀ y, y < 58 → isValidLetter (y + 65) = true →
    xorEq x (y + 65) = eqUncased x (y + 65) := by decide +kernel

theorem xor_letter (x y : Nat) (hx : x < 256) (hy : isValidLetter y = true) : xorEq x y = eqUncased x y := by
  have h : 65 ≤ y ∧ y < 123 := by
    simp only [isValidLetter, Bool.or_eq_true, Bool.and_eq_true, decide_eq_true_eq] at hy
    omega
  have := xor_letter_aux x hx (y - 65) (by omega)
  rw [show y - 65 + 65 = y by omega] at this
  exact this hy

theorem pfx_xor (t : List Nat) (ht : ∀ y ∈ t, isValidLetter y = true) :
    ∀ l : List Nat, (∀ x ∈ l, x < 256) → pfx xorEq l t = pfx eqUncased l t := by
  induction t with
  | nil => intro l _; cases l <;> rfl
  | cons y ys ih =>
    intro l hl
    cases l with
    | nil => rfl
    | cons x xs =>
      simp only [pfx]
      rw [xor_letter x y (hl x (by simp)) (ht y (by simp)),
        ih (fun z hz => ht z (by simp [hz])) xs (fun z hz => hl z (by simp [hz]))]

theorem iterNext_special {c : Cfg} (hn : NoSep c) (b : Bytes) :
    iterNext c .special b = .ok (match (tl b).head? with
      | none => (none, b)
      | some x => (some x, { b with index := b.index + 1 })) := by
  unfold iterNext
  rw [hn.peek, ← tl_head]
  simp only [bind, Except.bind]
  cases (tl b).head? with
  | none => rfl
  | some x => simp [hn.contig, pure, Except.pure]

/-- `starts_with` -/
theorem startsWith_spec {c : Cfg} (hn : NoSep c) : ∀ (t : List Nat) (b : Bytes),
    ∃ b', startsWith c t b = .ok (pfx (fun a y => a == y) (tl b) t, b') ∧
      (pfx (fun a y => a == y) (tl b) t = true → Adv b b' t.length) := by
  intro t
  induction t with
  | nil => intro b; exact ⟨b, by cases h : tl b <;> simp [startsWith, pfx, pure, Except.pure], fun _ => Adv.refl b⟩
  | cons y ys ih =>
    intro b
    unfold startsWith
    rw [iterNext_special hn]
    simp only [bind, Except.bind]
    cases htl : tl b with
    | nil => exact ⟨b, by simp [pfx, pure, Except.pure], by simp [pfx]⟩
    | cons x xs =>
      obtain ⟨_, _, htl1⟩ := tl_cons htl
      simp only [List.head?_cons, pfx]
      by_cases hxy : x = y
      · subst hxy
        obtain ⟨b', h1, h2⟩ := ih { b with index := b.index + 1 }
        rw [htl1] at h1 h2
        have hadv1 : Adv b { b with index := b.index + 1 } 1 := ⟨rfl, rfl⟩
        refine ⟨b', by simp [h1], fun h => ?_⟩
        have := hadv1.trans (h2 (by simpa using h))
        simpa [Nat.add_comm] using this
      · exact ⟨{ b with index := b.index + 1 }, by simp [hxy, pure, Except.pure], by simp [hxy]⟩

/-- `starts_with_uncased` -/
theorem startsWithUncased_spec {c : Cfg} (hn : NoSep c) : ∀ (t : List Nat) (b : Bytes),
    ∃ b', startsWithUncased c t b = .ok (pfx xorEq (tl b) t, b') ∧
      (pfx xorEq (tl b) t = true → Adv b b' t.length) := by
  intro t
  induction t with
  | nil => intro b; exact ⟨b, by cases h : tl b <;> simp [Model.startsWithUncased, pfx, pure, Except.pure], fun _ => Adv.refl b⟩
  | cons y ys ih =>
    intro b
    unfold Model.startsWithUncased
    rw [iterNext_special hn]
    simp only [bind, Except.bind]
    cases htl : tl b with
    | nil => exact ⟨b, by simp [pfx, pure, Except.pure], by simp [pfx]⟩
    | cons x xs =>
      obtain ⟨_, _, htl1⟩ := tl_cons htl
      simp only [List.head?_cons, pfx]
      have hcond : (decide (Nat.xor x y ≠ 0) && decide (Nat.xor x y ≠ 32)) = !xorEq x y := by
        simp [xorEq]
      rw [hcond]
      by_cases hxy : xorEq x y = true
      · obtain ⟨b', h1, h2⟩ := ih { b with index := b.index + 1 }
        rw [htl1] at h1 h2
        have hadv1 : Adv b { b with index := b.index + 1 } 1 := ⟨rfl, rfl⟩
        refine ⟨b', by simp [hxy, h1], fun h => ?_⟩
        have := hadv1.trans (h2 (by simpa [hxy] using h))
        simpa [Nat.add_comm] using this
      · simp only [Bool.not_eq_true] at hxy
        exact ⟨{ b with index := b.index + 1 }, by simp [hxy, pure, Except.pure], by simp [hxy]⟩


theorem pfx_length (eq : Nat → Nat → Bool) : ∀ l t : List Nat, pfx eq l t = true → t.length ≤ l.length := by
  intro l
  induction l with
  | nil => intro t h; cases t <;> simp_all [pfx]
  | cons a as ih =>
    intro t h
    cases t with
    | nil => simp
    | cons b bs =>
      simp only [pfx, Bool.and_eq_true] at h
      have := ih bs h.2
      simp only [List.length_cons]; omega

/-- whole-string match = prefix match of equal length -/
theorem eqSpecial_pfx (cased : Bool) : ∀ l t : List Nat,
    eqSpecial cased l t = (pfx (fun a y => matchByte cased y a) l t && decide (t.length = l.length)) := by
  intro l
  induction l with
  | nil => intro t; cases t <;> simp [eqSpecial, pfx]
  | cons a as ih =>
    intro t
    cases t with
    | nil => simp [eqSpecial, pfx]
    | cons b bs => simp [eqSpecial, pfx, ih, Bool.and_assoc]

/-- prefix match of an optional string -/
def pfxO (eq : Nat → Nat → Bool) (l : List Nat) : Option (List Nat) → Bool
  | some t => pfx eq l t
  | none => false
/-- same length as an optional string -/
def lenO (l : List Nat) : Option (List Nat) → Bool
  | some t => decide (t.length = l.length)
  | none => false

/-- the decision order of `parse_positive_special` + the full-length test of `parse_special`:
NaN, then infinity, then inf; the first prefix match decides -/
def specFirst (eq : Nat → Nat → Bool) (o : POpts) (l : List Nat) : Option Bool :=
  if pfxO eq l o.nan then (if lenO l o.nan then some true else none)
  else if pfxO eq l o.infinity then (if lenO l o.infinity then some false else none)
  else if pfxO eq l o.inf then (if lenO l o.inf then some false else none)
  else none

/-- the declarative reading: the text *is* one of the strings -/
def specAny (eq : Nat → Nat → Bool) (o : POpts) (l : List Nat) : Option Bool :=
  if pfxO eq l o.nan && lenO l o.nan then some true
  else if (pfxO eq l o.inf && lenO l o.inf) || (pfxO eq l o.infinity && lenO l o.infinity) then some false
  else none

theorem pfx_head {eq : Nat → Nat → Bool} {a b : Nat} {as bs : List Nat} (h : pfx eq (a :: as) (b :: bs) = true) :
    eq a b = true := by
  simp only [pfx, Bool.and_eq_true] at h; exact h.1

theorem specFirst_eq_specAny (eq : Nat → Nat → Bool)
    (heq : ∀ a x y, eq a x = true → eq a y = true → eqUncased x y = true)
    (o : POpts) (wf : SpecialsWF o) (l : List Nat) (hl : l ≠ []) : specFirst eq o l = specAny eq o l := by
  obtain ⟨a, as, rfl⟩ : ∃ a as, l = a :: as := by
    cases l with
    | nil => exact absurd rfl hl
    | cons a as => exact ⟨a, as, rfl⟩
  -- a NaN prefix match excludes any infinity prefix match
  have hex : ∀ tn t, o.nan = some tn → (o.inf = some t ∨ o.infinity = some t) → pfx eq (a :: as) tn = true →
      pfx eq (a :: as) t = false := by
    intro tn t hnan ht hN
    cases tn with
    | nil => exact absurd hnan wf.nan_ne
    | cons n0 ns =>
      cases t with
      | nil => rcases ht with h | h; exact absurd h wf.inf_ne; exact absurd h wf.infinity_ne
      | cons t0 ts =>
        have h2 := wf.nan_inf n0 ns t0 ts hnan ht
        cases h : pfx eq (a :: as) (t0 :: ts) with
        | false => rfl
        | true =>
          have := heq a n0 t0 (pfx_head hN) (pfx_head h)
          rw [this] at h2; cases h2
  -- an incomplete infinity match excludes a complete inf match
  have hex2 : ∀ tf ti, o.inf = some tf → o.infinity = some ti → pfx eq (a :: as) ti = true →
      ¬ ti.length = (a :: as).length → ¬ tf.length = (a :: as).length := by
    intro tf ti hinf hinfy hI hL
    have := pfx_length eq _ ti hI
    have := wf.inf_le tf ti hinf hinfy
    omega
  unfold specFirst specAny
  rcases hnan : o.nan with _ | tn <;> rcases hinf : o.inf with _ | tf <;> rcases hinfy : o.infinity with _ | ti
  all_goals simp only [pfxO, lenO]
  · simp
  · by_cases h1 : pfx eq (a :: as) ti = true <;> by_cases h2 : ti.length = as.length + 1 <;> simp [h1, h2]
  · by_cases h1 : pfx eq (a :: as) tf = true <;> by_cases h2 : tf.length = as.length + 1 <;> simp [h1, h2]
  · by_cases h1 : pfx eq (a :: as) ti = true
    · by_cases h2 : ti.length = as.length + 1
      · simp [h1, h2]
      · have : ¬ tf.length = as.length + 1 := hex2 tf ti hinf hinfy h1 h2
        simp [h1, h2, this]
    · by_cases h3 : pfx eq (a :: as) tf = true <;> by_cases h4 : tf.length = as.length + 1 <;> simp [h1, h3, h4]
  · by_cases h1 : pfx eq (a :: as) tn = true <;> by_cases h2 : tn.length = as.length + 1 <;> simp [h1, h2]
  · by_cases h1 : pfx eq (a :: as) tn = true
    · have e1 := hex tn ti hnan (Or.inr hinfy) h1
      by_cases h2 : tn.length = as.length + 1 <;> simp [h1, h2, e1]
    · by_cases h3 : pfx eq (a :: as) ti = true <;> by_cases h4 : ti.length = as.length + 1 <;> simp [h1, h3, h4]
  · by_cases h1 : pfx eq (a :: as) tn = true
    · have e1 := hex tn tf hnan (Or.inl hinf) h1
      by_cases h2 : tn.length = as.length + 1 <;> simp [h1, h2, e1]
    · by_cases h3 : pfx eq (a :: as) tf = true <;> by_cases h4 : tf.length = as.length + 1 <;> simp [h1, h3, h4]
  · by_cases h1 : pfx eq (a :: as) tn = true
    · have e1 := hex tn tf hnan (Or.inl hinf) h1
      have e2 := hex tn ti hnan (Or.inr hinfy) h1
      by_cases h2 : tn.length = as.length + 1 <;> simp [h1, h2, e1, e2]
    · by_cases h5 : pfx eq (a :: as) ti = true
      · by_cases h2 : ti.length = as.length + 1
        · simp [h1, h5, h2]
        · have : ¬ tf.length = as.length + 1 := hex2 tf ti hinf hinfy h5 h2
          simp [h1, h5, h2, this]
      · by_cases h3 : pfx eq (a :: as) tf = true <;> by_cases h4 : tf.length = as.length + 1 <;>
          simp [h1, h5, h3, h4]

/-- the byte relation the model's special parser uses -/
def meq (c : Cfg) : Nat → Nat → Bool := if c.caseSensitiveSpecial then (fun a y => a == y) else xorEq

theorem isSpecialEq_spec {c : Cfg} (hn : NoSep c) (b : Bytes) (s : List Nat) :
    isSpecialEq c b s = .ok (if pfx (meq c) (tl b) s then b.index + s.length else 0) := by
  have hfmt : (c.feats.format && c.caseSensitiveSpecial) = c.caseSensitiveSpecial := by
    cases hf : c.feats.format <;> simp [Cfg.caseSensitiveSpecial, Cfg.flag, hf]
  unfold isSpecialEq meq
  rw [hfmt]
  cases hcs : c.caseSensitiveSpecial with
  | true =>
    obtain ⟨b', h1, h2⟩ := startsWith_spec hn s b
    simp only [if_true, h1, bind, Except.bind]
    by_cases hp : pfx (fun a y => a == y) (tl b) s = true
    · simp only [hp, if_true, hn.peek, pure, Except.pure, (h2 hp).2]
    · simp only [hp, Bool.false_eq_true, if_false, pure, Except.pure]
  | false =>
    obtain ⟨b', h1, h2⟩ := startsWithUncased_spec hn s b
    simp only [Bool.false_eq_true, if_false, h1, bind, Except.bind]
    by_cases hp : pfx xorEq (tl b) s = true
    · simp only [hp, if_true, hn.peek, pure, Except.pure, (h2 hp).2]
    · simp only [hp, Bool.false_eq_true, if_false, pure, Except.pure]

theorem try1_spec {c : Cfg} (hn : NoSep c) (b : Bytes) (s : List Nat) :
    (if b.bufferLength - b.index ≥ s.length then isSpecialEq c b s else pure 0) =
      .ok (if pfx (meq c) (tl b) s then b.index + s.length else 0) := by
  rw [isSpecialEq_spec hn]
  split
  · rfl
  · next h =>
    have : pfx (meq c) (tl b) s = false := by
      cases hp : pfx (meq c) (tl b) s with
      | false => rfl
      | true =>
        have := pfx_length _ _ _ hp
        rw [tl_length] at this
        exact absurd this (by simpa [Bytes.bufferLength] using h)
    simp [this, pure, Except.pure]

theorem try1_spec2 {c : Cfg} (hn : NoSep c) (b : Bytes) (s : List Nat) :
    (if s.length ≤ b.bufferLength - b.index then isSpecialEq c b s else Except.ok 0) =
      .ok (if pfx (meq c) (tl b) s then b.index + s.length else 0) := try1_spec hn b s

def specialOfBool : Option Bool → Option Special
  | some true => some .nan
  | some false => some .inf
  | none => none

/-- `parse_special` (complete): NaN / infinity exactly as `specFirst` decides -/
theorem parseSpecialComplete_spec {c : Cfg} (hn : NoSep c) (o : POpts) (wf : SpecialsWF o) (b : Bytes)
    (hv : b.index ≤ b.slc.length) :
    parseSpecialComplete c o b =
      .ok (if c.noSpecial = true then none else specialOfBool (specFirst (meq c) o (tl b))) := by
  have hfmt : (c.feats.format && c.noSpecial) = c.noSpecial := by
    cases hf : c.feats.format <;> simp [Cfg.noSpecial, Cfg.flag, hf]
  have hlen : ∀ s : List Nat, (b.index + s.length = b.bufferLength) ↔ (s.length = (tl b).length) := by
    intro s; rw [tl_length]; simp only [Bytes.bufferLength]; omega
  have hne : ∀ s : List Nat, s ≠ [] → b.index + s.length ≠ 0 := by
    intro s hs
    have : 0 < s.length := List.length_pos_iff.mpr hs
    omega
  have h1 := wf.nan_ne; have h2 := wf.inf_ne; have h3 := wf.infinity_ne
  unfold parseSpecialComplete parsePositiveSpecial
  rw [hfmt]
  cases hns : c.noSpecial with
  | true => simp [bind, Except.bind, pure, Except.pure]
  | false =>
    simp only [Bool.false_eq_true, if_false, bind, Except.bind]
    rcases hnan : o.nan with _ | tn <;> rcases hinf : o.inf with _ | tf <;> rcases hinfy : o.infinity with _ | ti
    all_goals simp only [hnan, hinf, hinfy] at h1 h2 h3
    all_goals simp only [try1_spec hn, try1_spec2 hn, specFirst, hnan, hinf, hinfy, pfxO, lenO, pure, Except.pure, ge_iff_le]
    · simp [specialOfBool]
    · have n3 : ti ≠ [] := by simpa using h3
      by_cases p3 : pfx (meq c) (tl b) ti = true <;> simp [p3, n3, hlen, specialOfBool] <;> split <;> rfl
    · have n2 : tf ≠ [] := by simpa using h2
      by_cases p2 : pfx (meq c) (tl b) tf = true <;> simp [p2, n2, hlen, specialOfBool] <;> split <;> rfl
    · have n2 : tf ≠ [] := by simpa using h2
      have n3 : ti ≠ [] := by simpa using h3
      by_cases p3 : pfx (meq c) (tl b) ti = true <;> by_cases p2 : pfx (meq c) (tl b) tf = true <;>
        simp [p3, p2, n2, n3, hlen, specialOfBool] <;> split <;> rfl
    · have n1 : tn ≠ [] := by simpa using h1
      by_cases p1 : pfx (meq c) (tl b) tn = true <;> simp [p1, n1, hlen, specialOfBool] <;> split <;> rfl
    · have n1 : tn ≠ [] := by simpa using h1
      have n3 : ti ≠ [] := by simpa using h3
      by_cases p1 : pfx (meq c) (tl b) tn = true <;> by_cases p3 : pfx (meq c) (tl b) ti = true <;>
        simp [p1, p3, n1, n3, hlen, specialOfBool] <;> split <;> rfl
    · have n1 : tn ≠ [] := by simpa using h1
      have n2 : tf ≠ [] := by simpa using h2
      by_cases p1 : pfx (meq c) (tl b) tn = true <;> by_cases p2 : pfx (meq c) (tl b) tf = true <;>
        simp [p1, p2, n1, n2, hlen, specialOfBool] <;> split <;> rfl
    · have n1 : tn ≠ [] := by simpa using h1
      have n2 : tf ≠ [] := by simpa using h2
      have n3 : ti ≠ [] := by simpa using h3
      by_cases p1 : pfx (meq c) (tl b) tn = true <;> by_cases p3 : pfx (meq c) (tl b) ti = true <;>
        by_cases p2 : pfx (meq c) (tl b) tf = true <;>
        simp [p1, p2, p3, n1, n2, n3, hlen, specialOfBool] <;> split <;> rfl

/-- the option strings consist of ASCII letters (`OptionsBuilder::build`: "must only contain letters") -/
def LettersOnly (o : POpts) : Prop :=
  ∀ t, (o.nan = some t ∨ o.inf = some t ∨ o.infinity = some t) → ∀ y ∈ t, isValidLetter y = true

/-- the grammar's byte relation -/
def geq (cased : Bool) : Nat → Nat → Bool := fun a y => matchByte cased y a

theorem pfx_meq_geq (c : Cfg) (l t : List Nat) (hl : ∀ x ∈ l, x < 256) (ht : ∀ y ∈ t, isValidLetter y = true) :
    pfx (meq c) l t = pfx (geq c.caseSensitiveSpecial) l t := by
  unfold meq geq
  cases c.caseSensitiveSpecial with
  | true =>
    have : (fun a y : Nat => a == y) = (fun a y => matchByte true y a) := by
      funext a y; by_cases h : a = y <;> simp [matchByte, h]
    simp only [if_true, this]
  | false =>
    simp only [Bool.false_eq_true, if_false]
    rw [pfx_xor t ht l hl]
    rfl

theorem specialOf_eq_specAny (y : Syn) (hn : y.noSpecial = false) (o : POpts) (l : List Nat) :
    specialOf y o l = specAny (geq y.csSpecial) o l := by
  unfold specialOf specAny isSpecial
  rcases o.nan with _ | tn <;> rcases o.inf with _ | tf <;> rcases o.infinity with _ | ti <;>
    simp [hn, eqSpecial_pfx, pfxO, lenO] <;> rfl

theorem specialOf_noSpecial (y : Syn) (hn : y.noSpecial = true) (o : POpts) (l : List Nat) :
    specialOf y o l = none := by
  unfold specialOf isSpecial
  rcases o.nan with _ | tn <;> rcases o.inf with _ | tf <;> rcases o.infinity with _ | ti <;> simp [hn]

theorem geq_trans (cased : Bool) (a x y : Nat) (h1 : geq cased a x = true) (h2 : geq cased a y = true) :
    eqUncased x y = true := by
  unfold geq matchByte at h1 h2
  cases cased with
  | true =>
    simp only [if_true, decide_eq_true_eq] at h1 h2
    subst h1; subst h2; simp [eqUncased]
  | false =>
    simp only [Bool.false_eq_true, if_false, eqUncased, decide_eq_true_eq] at h1 h2 ⊢
    rw [← h1, ← h2]

/-- **C15 `special_iff`, model side.** `parse_special` (complete) returns NaN / infinity exactly when the text after
the sign *is* a configured string under the format's case rule (never with `no_special` / a `None` string). -/
theorem parseSpecialComplete_grammar {c : Cfg} (hn : NoSep c) (o : POpts) (wf : SpecialsWF o)
    (hlet : LettersOnly o) (b : Bytes) (hv : b.index ≤ b.slc.length) (hb : ∀ x ∈ b.slc, x < 256)
    (hne : tl b ≠ []) :
    parseSpecialComplete c o b = .ok (specialOfBool (specialOf (cfgSyn c) o (tl b))) := by
  rw [parseSpecialComplete_spec hn o wf b hv]
  have hbl : ∀ x ∈ tl b, x < 256 := fun x hx => hb x (List.mem_of_mem_drop hx)
  cases hns : c.noSpecial with
  | true =>
    rw [specialOf_noSpecial _ (by rw [syn_noSpecial]; exact hns)]
    rfl
  | false =>
    rw [specialOf_eq_specAny _ (by rw [syn_noSpecial]; exact hns), syn_csSpecial,
      ← specFirst_eq_specAny _ (geq_trans _) o wf _ hne]
    simp only [Bool.false_eq_true, if_false]
    congr 2
    have hp : ∀ str, pfxO (meq c) (tl b) str = true ∨ True →
        (o.nan = str ∨ o.inf = str ∨ o.infinity = str) →
        pfxO (meq c) (tl b) str = pfxO (geq c.caseSensitiveSpecial) (tl b) str := by
      intro str _ hstr
      cases str with
      | none => rfl
      | some t => exact pfx_meq_geq c _ t hbl (hlet t hstr)
    unfold specFirst
    rw [hp o.nan (Or.inr trivial) (Or.inl rfl), hp o.infinity (Or.inr trivial) (Or.inr (Or.inr rfl)),
      hp o.inf (Or.inr trivial) (Or.inr (Or.inl rfl))]
end LexVerif.Proof.Grammar
