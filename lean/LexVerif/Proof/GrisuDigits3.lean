import LexVerif.Proof.GrisuDigits2
/-!
# Proof.GrisuDigits3 — the second loop of `generate_digits` (fractional digits, `kappa = -1, -2, …`)
-/
namespace LexVerif.Proof.GrisuDigits
open LexVerif.Model.Grisu LexVerif.Model.Dragonbox LexVerif.Spec
open LexVerif.Proof.DragonboxBits

theorem genLoop2_succ (wmant one sh fuel part2 delta ten : Nat) (kappa : Int) (ds : List Nat) (k : Int) :
    genLoop2 wmant one sh (fuel + 1) part2 delta kappa ten ds k =
      if u64 (part2 * 10) &&& (one - 1) < u64 (delta * 10) then
        some (decLast (pushDigit ds (u64 (part2 * 10) >>> sh))
          (roundDigit (u64 (delta * 10)) one (u64 (wmant * ten)) 20 (u64 (part2 * 10) &&& (one - 1)) 0).2,
          i32 (k + i32 (kappa - 1)))
      else genLoop2 wmant one sh fuel (u64 (part2 * 10) &&& (one - 1)) (u64 (delta * 10)) (i32 (kappa - 1))
        (u64 (ten * 10)) (pushDigit ds (u64 (part2 * 10) >>> sh)) k := by
  rw [genLoop2]
  simp only [pushDigit]

theorem frac_count_le {delta j b : Nat} (hd : 1 ≤ delta) (h : delta * 10 ^ j < b) (hb : b ≤ 2 ^ 60) : j ≤ 18 := by
  by_cases hj : j ≤ 18
  · exact hj
  · exfalso
    have h1 : 10 ^ 19 ≤ 10 ^ j := Nat.pow_le_pow_right (by omega) (by omega)
    have h2 : 10 ^ j ≤ delta * 10 ^ j := Nat.le_mul_of_pos_left _ hd
    omega

/-- result of the second loop; `j` = number of fractional digits already produced -/
theorem genLoop2_spec (Um Lm delta wmant sh one : Nat) (k : Int)
    (hsh : sh ≤ 60) (hone : one = 2 ^ sh) (hLm : 1 ≤ Lm) (hdelta : delta + Lm = Um) (hd1 : 1 ≤ delta)
    (hk : -100000 ≤ k ∧ k ≤ 100000) :
    ∀ (fuel j part2 ten N : Nat) (ds : List Nat), 20 ≤ fuel + j →
      DigitsOK ds N → part2 < one → N * one + part2 = Um * 10 ^ j → delta * 10 ^ j ≤ part2 →
      ∃ (ds' : List Nat) (j' V N' : Nat), j < j' ∧ j' ≤ 19 ∧
          genLoop2 wmant one sh fuel part2 (delta * 10 ^ j) (-(j : Int)) ten ds k = some (ds', k - (j' : Int)) ∧
          Final ds' V N' ∧ Lm * 10 ^ j' ≤ V * one ∧ V * one ≤ Um * 10 ^ j' ∧
          ∀ n, 10 * Um ≤ 10 ^ n * delta → N' < 10 ^ n := by
  have hone1 : 1 ≤ one := by rw [hone]; exact Nat.pow_pos (by omega)
  have hone60 : one ≤ 2 ^ 60 := by rw [hone]; exact Nat.pow_le_pow_right (by omega) hsh
  intro fuel
  induction fuel with
  | zero =>
    intro j part2 ten N ds hfj hok hp2 hsum hprev
    have := frac_count_le hd1 (Nat.lt_of_le_of_lt hprev hp2) hone60
    omega
  | succ fuel ih =>
    intro j part2 ten N ds hfj hok hp2 hsum hprev
    have hj18 := frac_count_le hd1 (Nat.lt_of_le_of_lt hprev hp2) hone60
    rw [genLoop2_succ]
    have hpow : 10 ^ (j + 1) = 10 ^ j * 10 := Nat.pow_succ ..
    have hTpos : 1 ≤ 10 ^ j := Nat.pow_pos (by omega)
    have hsplit : Um * 10 ^ j = delta * 10 ^ j + Lm * 10 ^ j := by rw [← hdelta]; ring
    have hLT : 1 ≤ Lm * 10 ^ j := Nat.mul_pos hLm hTpos
    have hi1 : i32 (-(j : Int) - 1) = -((j + 1 : Nat) : Int) := by unfold i32; omega
    have hi2 : i32 (k + -((j + 1 : Nat) : Int)) = k - ((j + 1 : Nat) : Int) := by unfold i32; omega
    rw [hi1, hi2]
    generalize 10 ^ j = T at *
    generalize hdT : delta * T = dT at *
    have hp10 : u64 (part2 * 10) = part2 * 10 := by unfold u64; omega
    have hd10 : u64 (dT * 10) = dT * 10 := by unfold u64; omega
    rw [hp10, hd10]
    have hand : (part2 * 10) &&& (one - 1) = (part2 * 10) % one := by
      rw [hone]; exact Nat.and_two_pow_sub_one_eq_mod _ _
    have hshr : (part2 * 10) >>> sh = (part2 * 10) / one := by
      rw [hone]; exact Nat.shiftRight_eq_div_pow _ _
    rw [hand, hshr]
    have hd : part2 * 10 / one < 10 := Nat.div_lt_of_lt_mul (by omega)
    have hdm := Nat.div_add_mod (part2 * 10) one
    have hq : part2 * 10 % one < one := Nat.mod_lt _ hone1
    generalize part2 * 10 / one = d at *
    generalize part2 * 10 % one = q at *
    have e1 : (10 * N + d) * one = 10 * (N * one) + one * d := by ring
    have e2 : Um * (T * 10) = 10 * (Um * T) := by ring
    have e3 : Lm * (T * 10) = 10 * (Lm * T) := by ring
    have e4 : delta * (T * 10) = dT * 10 := by rw [← hdT]; ring
    split
    · rename_i hstop
      obtain ⟨e, he1, he2⟩ := roundDigit_spec (dT * 10) one (u64 (wmant * ten)) (by omega) 20 q 0 (by omega)
      rw [he1, Nat.zero_add]
      have hed : e ≤ d := by
        have : e * one ≤ d * one := by
          have := Nat.mul_comm one d
          omega
        exact Nat.le_of_mul_le_mul_right this hone1
      have e7 : (10 * N + d - e) * one = (10 * N + d) * one - e * one := Nat.sub_mul _ _ _
      have hV : Lm * (T * 10) ≤ (10 * N + d - e) * one := by omega
      have hVpos : 1 ≤ 10 * N + d - e := by
        rcases Nat.eq_zero_or_pos (10 * N + d - e) with h | h
        · rw [h] at hV; omega
        · exact h
      refine ⟨_, j + 1, 10 * N + d - e, 10 * N + d, by omega, by omega, rfl, ?_, ?_, ?_, ?_⟩
      · exact final_of_step hok hd hed hVpos
      · rw [hpow]; exact hV
      · rw [hpow]; omega
      · intro n hn
        generalize 10 ^ n = P at *
        by_cases hlt : 10 * N + d < P
        · exact hlt
        · exfalso
          have h1 : P * one ≤ (10 * N + d) * one := Nat.mul_le_mul_right _ (by omega)
          have hPpos : 0 < P := by
            rcases Nat.eq_zero_or_pos P with h | h
            · subst h; omega
            · exact h
          have h2 : P * dT < P * one := Nat.mul_lt_mul_of_pos_left (by omega) hPpos
          have h3 : 10 * Um * T ≤ P * delta * T := Nat.mul_le_mul_right _ hn
          have e8 : P * delta * T = P * dT := by rw [← hdT]; ring
          have e9 : 10 * Um * T = 10 * (Um * T) := by ring
          omega
    · rename_i hcont
      have e5 : dT * 10 = delta * 10 ^ (j + 1) := by rw [hpow]; omega
      rw [e5]
      obtain ⟨ds', j', V, N', hj', hj19, hres, hrest⟩ :=
        ih (j + 1) q (u64 (ten * 10)) (10 * N + d) (pushDigit ds d) (by omega) (pushDigit_ok hok hd) hq
          (by rw [hpow]; omega) (by rw [hpow]; omega)
      exact ⟨ds', j', V, N', by omega, hj19, hres, hrest⟩

end LexVerif.Proof.GrisuDigits
