import LexVerif.Proof.ParseNumberC11Trunc
import LexVerif.Proof.ParseNumberTotalMain
/-!
# Proof.ParseNumberC11Many — C11 (B): the many-digits re-parse and `parse_number` commute with truncation
(release build; `NumContig`: no digit-separator byte, or no separator flag on integer / fraction / exponent)

`manyDigitsPhase` reads the original buffer only through two `skip_zeros` runs starting at `ip.start`; both runs
end at a byte that is not `'0'`, which lies at or before the cursor `parse_number` returns.
-/
set_option linter.unusedSectionVars false
set_option linter.unusedSimpArgs false
namespace LexVerif.Proof.C11
open LexVerif LexVerif.Model LexVerif.Spec
open LexVerif.Props.C12 (Bytes.Valid)
open LexVerif.Proof.PNTotal (leadZ Rel manyDigitsPhase_eq manyMid manyTail bstep_rel peek_contig
  notFormat_bytesContig drop_of_get drop_of_none)

theorem leadZ_le_length (l : List Nat) : leadZ l ≤ l.length := by
  induction l with
  | nil => simp [leadZ]
  | cons x xs ih => simp only [leadZ, List.length_cons]; split <;> omega

theorem leadZ_take_of_le (l : List Nat) : ∀ m, leadZ l ≤ m → leadZ (l.take m) = leadZ l := by
  induction l with
  | nil => intro m _; simp [leadZ]
  | cons x xs ih =>
    intro m hm
    by_cases hx : x = 48
    · simp only [leadZ, hx, if_true] at hm ⊢
      obtain ⟨m2, rfl⟩ : ∃ m2, m = m2 + 1 := ⟨m - 1, by omega⟩
      simp only [List.take_succ_cons, leadZ, if_true]
      rw [ih m2 (by omega)]
    · cases m with
      | zero => simp [leadZ, hx]
      | succ m2 => simp [List.take_succ_cons, leadZ, hx]

theorem leadZ_bound (l : List Nat) : ∀ j, l[j]? ≠ some 48 → leadZ l ≤ j := by
  induction l with
  | nil => intro j _; simp [leadZ]
  | cons x xs ih =>
    intro j hj
    by_cases hx : x = 48
    · cases j with
      | zero => simp [hx] at hj
      | succ j2 =>
        simp only [leadZ, hx, if_true]
        have := ih j2 (by simpa using hj)
        omega
    · simp [leadZ, hx]

theorem leadZ_stop (l : List Nat) : l[leadZ l]? ≠ some 48 := by
  induction l with
  | nil => simp [leadZ]
  | cons x xs ih =>
    by_cases hx : x = 48
    · simp only [leadZ, hx, if_true, List.getElem?_cons_succ]; exact ih
    · simp [leadZ, hx]

/-- the zero run from `i` ends at or before any later position that does not hold `'0'` -/
theorem zrun_bound (l : List Nat) (i j : Nat) (hij : i ≤ j) (hj : l[j]? ≠ some 48) :
    i + leadZ (l.drop i) ≤ j := by
  have := leadZ_bound (l.drop i) (j - i) (by rw [List.getElem?_drop]; rwa [show i + (j - i) = j by omega])
  omega

/-- … and is unchanged by a truncation at or beyond its end -/
theorem zrun_trunc (l : List Nat) (i n : Nat) (h : i + leadZ (l.drop i) ≤ n) :
    leadZ ((l.take n).drop i) = leadZ (l.drop i) := by
  rw [List.drop_take]
  exact leadZ_take_of_le _ _ (by omega)

/-- the two zero counts of the re-parse: integer zeros from `i`, then (after an optional decimal point) fraction zeros -/
def zq (l : List Nat) (i dp : Nat) : Nat × Nat :=
  let p := i + leadZ (l.drop i)
  let q := if l[p]? = some dp then p + 1 else p
  (leadZ (l.drop i), leadZ (l.drop q))

theorem zq_trunc (l : List Nat) (i dp n : Nat)
    (hp : i + leadZ (l.drop i) ≤ n)
    (hpn : i + leadZ (l.drop i) = n → l[n]? ≠ some dp)
    (hq : (if l[i + leadZ (l.drop i)]? = some dp then i + leadZ (l.drop i) + 1 else i + leadZ (l.drop i))
      + leadZ (l.drop (if l[i + leadZ (l.drop i)]? = some dp then i + leadZ (l.drop i) + 1 else i + leadZ (l.drop i)))
      ≤ n) :
    zq (l.take n) i dp = zq l i dp := by
  unfold zq
  simp only [zrun_trunc l i n hp]
  have hget : ((l.take n)[i + leadZ (l.drop i)]? = some dp) ↔ (l[i + leadZ (l.drop i)]? = some dp) := by
    by_cases hlt : i + leadZ (l.drop i) < n
    · rw [take_get_lt _ _ _ hlt]
    · have he : i + leadZ (l.drop i) = n := by omega
      rw [take_get_ge _ _ _ (by omega)]
      have := hpn he
      rw [he]
      simp [this]
  by_cases hd : l[i + leadZ (l.drop i)]? = some dp
  · have hd2 := hget.mpr hd
    simp only [hd, hd2, if_true] at hq ⊢
    rw [zrun_trunc l _ n hq]
  · have hd2 : ¬ (l.take n)[i + leadZ (l.drop i)]? = some dp := fun h => hd (hget.mp h)
    simp only [hd, hd2, if_false] at hq ⊢
    rw [zrun_trunc l _ n hq]

/-- no `format` feature, release build ⇒ `Rel` -/
theorem rel_nf {c : Cfg} (hf : c.feats.format = false) (hd : c.debug = false) : Rel c :=
  ⟨hd, fun k => by
    have hs : c.skip k = .noskip := by
      cases k <;> simp [Cfg.skip, Cfg.sepFlags, Cfg.flag, Cfg.specialSep, hf, SepFlags.skip]
    rw [hs]; intro h; cases h⟩

section
variable {c : Cfg} (hc : Rel c) (hb : NumContig c)
include hc hb

theorem iterCount_step_inc_k (k : Comp) (hk : k ≠ .special) (b : Bytes) :
    Bytes.iterCount c k (Bytes.incCount c k (Bytes.at b (b.index + 1))) = Bytes.iterCount c k b + 1 := by
  unfold Bytes.iterCount Bytes.incCount Bytes.at
  cases hf : c.feats.format with
  | false => simp [PNTotal.notFormat_iterContig k hf]
  | true =>
    cases k with
    | special => exact absurd rfl hk
    | integer => cases c.iterContiguous .integer <;> simp
    | fraction => cases c.iterContiguous .fraction <;> simp
    | exponent => cases c.iterContiguous .exponent <;> simp

theorem skipZerosLoop_g (k : Comp) (hk : k ≠ .special) :
    ∀ (fuel : Nat) (b : Bytes), b.index ≤ b.slc.length → b.slc.length - b.index < fuel →
      ∃ b', skipZerosLoop c k fuel b = .ok b' ∧ b'.slc = b.slc ∧
        b'.index = b.index + leadZ (b.slc.drop b.index) ∧
        Bytes.iterCount c k b' = Bytes.iterCount c k b + leadZ (b.slc.drop b.index) := by
  intro fuel
  induction fuel with
  | zero => intro b _ h; omega
  | succ n ih =>
    intro b hv hfu
    unfold skipZerosLoop
    simp only [readIfValueCased_g hc hb k hk, bind, Except.bind, pure, Except.pure]
    cases hx : b.slc[b.index]? with
    | none => simp [drop_of_none hx, leadZ]
    | some x =>
      have hlt : b.index < b.slc.length := (List.getElem?_eq_some_iff.mp hx).1
      rw [drop_of_get hx]
      by_cases h48 : x = 48
      · subst h48
        simp only [beq_self_eq_true, if_true, leadZ]
        obtain ⟨b2, hr, hs, hidx, hcnt⟩ := ih (Bytes.incCount c k (Bytes.at b (b.index + 1)))
          (by simp only [incCount_slc, incCount_index, at_slc, at_index]; omega)
          (by simp only [incCount_slc, incCount_index, at_slc, at_index]; omega)
        simp only [incCount_slc, incCount_index, at_slc, at_index] at hs hidx hcnt
        rw [iterCount_step_inc_k hc hb k hk] at hcnt
        exact ⟨b2, hr, hs, by rw [hidx]; omega, by rw [hcnt]; omega⟩
      · have : (some x == some 48) = false := by simp [h48]
        simp [this, leadZ, h48]

theorem skipZeros_g (k : Comp) (hk : k ≠ .special) (b : Bytes) (hv : b.index ≤ b.slc.length) :
    ∃ b', skipZeros c k b = .ok (leadZ (b.slc.drop b.index), b') ∧ b'.slc = b.slc ∧
      b'.index = b.index + leadZ (b.slc.drop b.index) := by
  obtain ⟨b', h, hs, hi, hcnt⟩ := skipZerosLoop_g hc hb k hk (b.slc.length + 1) b hv (by omega)
  unfold skipZeros
  simp only [h, bind, Except.bind, pure, Except.pure, hcnt]
  exact ⟨b', by simp, hs, hi⟩

/-- closed form of the re-parse: the original buffer enters only through the two zero counts -/
theorem many_closed (o : POpts) (neg : Bool) (ip : IntPart) (fp : FracPart) (ep : ExpPart) (nd step : Nat) (e0 : Int)
    (endIdx : Nat) (hv : Bytes.Valid ip.start) :
    manyDigitsPhase c o neg ip fp ep nd step e0 endIdx =
      if nd - step - (zq ip.start.slc ip.start.index o.dp).1 - (zq ip.start.slc ip.start.index o.dp).2 > 0 then
        manyTail c neg ip fp ep step endIdx
      else .ok (⟨fp.mantissa, e0, neg, false, ip.integerDigits, fp.fraction, ep.explicit⟩, endIdx) := by
  rw [manyDigitsPhase_eq]
  obtain ⟨b1, h1, hs1, hi1⟩ := skipZeros_g hc hb .integer (by decide) ip.start hv
  simp only [h1, bind, Except.bind]
  have hlen : leadZ (ip.start.slc.drop ip.start.index) ≤ ip.start.slc.length - ip.start.index := by
    have := leadZ_le_length (ip.start.slc.drop ip.start.index)
    simpa using this
  have hv1 : b1.index ≤ b1.slc.length := by
    unfold Bytes.Valid at hv; rw [hs1, hi1]; omega
  have hfc : b1.firstIsCased o.dp = true ↔
      ip.start.slc[ip.start.index + leadZ (ip.start.slc.drop ip.start.index)]? = some o.dp := by
    simp only [Bytes.firstIsCased, Bytes.first, hs1, hi1, beq_iff_eq]
  unfold zq
  simp only
  by_cases hdp : ip.start.slc[ip.start.index + leadZ (ip.start.slc.drop ip.start.index)]? = some o.dp
  · have hfc2 := hfc.mpr hdp
    have hlt : b1.index < b1.slc.length := by
      rw [hs1, hi1]; exact (List.getElem?_eq_some_iff.mp hdp).1
    simp only [hfc2, if_true, bstep_rel hc, hdp]
    unfold manyMid
    obtain ⟨b2, h2, _, _⟩ := skipZeros_g hc hb .fraction (by decide) { b1 with index := b1.index + 1 } (by simp only; omega)
    simp only [h2, bind, Except.bind, pure, Except.pure]
    simp only [hs1, hi1]
  · have hfc2 : ¬ b1.firstIsCased o.dp = true := fun h => hdp (hfc.mp h)
    simp only [hfc2, if_false, hdp, pure, Except.pure, Bool.false_eq_true]
    unfold manyMid
    obtain ⟨b2, h2, _, _⟩ := skipZeros_g hc hb .fraction (by decide) b1 hv1
    simp only [h2, bind, Except.bind, pure, Except.pure]
    simp only [hs1, hi1]

theorem many_trunc (o : POpts) (neg : Bool) (ip : IntPart) (fp : FracPart) (ep : ExpPart) (nd step : Nat) (e0 : Int)
    (endIdx n : Nat) (hv : Bytes.Valid ip.start) (hn : ip.start.index ≤ n)
    (hz : zq (ip.start.slc.take n) ip.start.index o.dp = zq ip.start.slc ip.start.index o.dp) :
    manyDigitsPhase c o neg { ip with start := trunc n ip.start, byte := trunc n ip.byte }
      { fp with byte := trunc n fp.byte } { ep with byte := trunc n ep.byte } nd step e0 endIdx =
    manyDigitsPhase c o neg ip fp ep nd step e0 endIdx := by
  have hv2 : Bytes.Valid (trunc n ip.start) := by
    unfold Bytes.Valid at hv ⊢
    simp only [trunc_slc, trunc_index, List.length_take]; omega
  rw [many_closed hc hb o neg ip fp ep nd step e0 endIdx hv, many_closed hc hb _ _ _ _ _ _ _ _ _ hv2]
  simp only [trunc_slc, trunc_index, hz]
  rfl

/-- the `EmptyMantissa` / `InvalidDigit` branch of `parse_number` -/
def emptyBranch (c : Cfg) (isPartial : Bool) (o : POpts) (ip : IntPart) (fp : FracPart) : Except Err (Number × Nat) := do
  let (anyv, _) ← peek c .integer ip.start
  if fp.hasDecimal || fp.byte.firstIs o.exp (c.caseSensitiveExponent && c.feats.format) || anyv.isNone || isPartial then
    .error (.err "EmptyMantissa" fp.byte.index)
  else .error (.err "InvalidDigit" ip.start.index)

theorem emptyBranch_err (isPartial : Bool) (o : POpts) (ip : IntPart) (fp : FracPart) :
    ∃ k i, emptyBranch c isPartial o ip fp = .error (.err k i) := by
  unfold emptyBranch
  simp only [peek_num hc hb .integer (by decide), bind, Except.bind]
  split
  · exact ⟨_, _, rfl⟩
  · exact ⟨_, _, rfl⟩

/-- `parse_number`, phase by phase -/
theorem parseNumber_g (isPartial : Bool) (o : POpts) (b : Bytes) (neg fv : Bool) :
    parseNumber c isPartial o b neg fv =
      match integerPhase c b with
      | .error e => .error e
      | .ok ip =>
        match fractionPhase c o ip.byte ip.mantissa with
        | .error e => .error e
        | .ok fp =>
          if (c.requiredMantissaDigits &&
              (decide (ip.nDigits + fp.nAfterDot = 0) || (c.feats.format && decide (fp.byte.currentCount c = 0)))) = true then
            emptyBranch c isPartial o ip fp
          else
            match exponentPhase c (fp.byte.firstIs o.exp (c.caseSensitiveExponent && c.feats.format)) fp.byte
                fp.fraction fp.exponent with
            | .error e => .error e
            | .ok ep =>
              match suffixPhase c ep.byte with
              | .error e => .error e
              | .ok sb =>
                if ip.nDigits + fp.nAfterDot ≤ u64Step c.feats c.mantissaRadix then
                  .ok (⟨fp.mantissa,
                    (if (c.feats.format && !c.requiredMantissaDigits && decide (ip.nDigits + fp.nAfterDot = 0)) = true
                      then 0 else ep.exponent), neg, false, ip.integerDigits, fp.fraction, ep.explicit⟩, sb.index)
                else manyDigitsPhase c o neg ip fp ep (ip.nDigits + fp.nAfterDot) (u64Step c.feats c.mantissaRadix)
                  (if (c.feats.format && !c.requiredMantissaDigits && decide (ip.nDigits + fp.nAfterDot = 0)) = true
                    then 0 else ep.exponent) sb.index := by
  unfold parseNumber
  simp only [hc.hd, Bool.false_and, Bool.false_eq_true, if_false, bind, Except.bind]
  cases integerPhase c b with
  | error e => rfl
  | ok ip =>
    simp only
    cases fractionPhase c o ip.byte ip.mantissa with
    | error e => rfl
    | ok fp =>
      simp only
      split
      · unfold emptyBranch
        simp only [bind, Except.bind]
      · cases exponentPhase c (fp.byte.firstIs o.exp (c.caseSensitiveExponent && c.feats.format)) fp.byte
            fp.fraction fp.exponent with
        | error e => rfl
        | ok ep =>
          simp only
          cases suffixPhase c ep.byte with
          | error e => rfl
          | ok sb => simp only [pure, Except.pure]

omit hc hb in
theorem manyTail_count (neg : Bool) (ip : IntPart) (fp : FracPart) (ep : ExpPart) (step endIdx : Nat)
    (x : Number) (cnt : Nat) (h : manyTail c neg ip fp ep step endIdx = .ok (x, cnt)) : cnt = endIdx := by
  unfold manyTail at h
  simp only [bind, Except.bind, pure, Except.pure] at h
  repeat' (split at h)
  all_goals (cases h)
  all_goals rfl

theorem many_count (o : POpts) (neg : Bool) (ip : IntPart) (fp : FracPart) (ep : ExpPart) (nd step : Nat) (e0 : Int)
    (endIdx : Nat) (hv : Bytes.Valid ip.start) (x : Number) (cnt : Nat)
    (h : manyDigitsPhase c o neg ip fp ep nd step e0 endIdx = .ok (x, cnt)) : cnt = endIdx := by
  rw [many_closed hc hb o neg ip fp ep nd step e0 endIdx hv] at h
  split at h
  · exact manyTail_count neg ip fp ep step endIdx x cnt h
  · cases h; rfl

omit hc hb in
theorem charToDigit_48 (r : Nat) (h : 1 ≤ r) : charToDigit 48 r = some 0 := by
  by_cases h10 : r ≤ 10
  · simp [charToDigit, charToValidDigit, h10]; omega
  · simp [charToDigit, charToValidDigit, h10]; omega

omit hc hb in
theorem firstIs_trunc (b : Bytes) (v : Nat) (cased : Bool) (n : Nat) :
    (trunc n b).firstIs v cased = if b.index < n then b.firstIs v cased else false := by
  rw [firstIs_eq, first_trunc, firstIs_eq]
  split
  · rfl
  · exact matchByte_none _ _

/-- `parse_number` commutes with every truncation at or beyond the count it returns -/
theorem parseNumber_trunc (p : Bool) (o : POpts) (b : Bytes) (neg fv : Bool) (r : Number) (count : Nat)
    (hr : 1 ≤ c.mantissaRadix) (hm : c.requiredMantissaDigits = true) (hv : Bytes.Valid b)
    (h : parseNumber c p o b neg fv = .ok (r, count)) :
    b.index < count ∧ count ≤ b.slc.length ∧
    ∀ n, count ≤ n → parseNumber c p o (trunc n b) neg fv = .ok (r, count) := by
  rw [parseNumber_g hc hb] at h
  cases hi : integerPhase c b with
  | error e => simp [hi] at h
  | ok ip =>
    obtain ⟨i1, i2, i3, i4, i5, i6, i7, i8, i9⟩ := integerPhase_trunc hc hb b ip hv hi
    simp only [hi] at h
    cases hfr : fractionPhase c o ip.byte ip.mantissa with
    | error e => simp [hfr] at h
    | ok fp =>
      obtain ⟨f1, f2, f3, f4, f5, f6, f7⟩ := fractionPhase_trunc hc hb o ip.byte ip.mantissa fp i6 hfr
      simp only [hfr] at h
      split at h
      · obtain ⟨k, i, he⟩ := emptyBranch_err hc hb p o ip fp
        rw [he] at h; cases h
      · next hcnd =>
        have hz : ¬ ip.nDigits + fp.nAfterDot = 0 := by
          intro hz0
          apply hcnd
          simp [hm, hz0]
        cases hep : exponentPhase c (fp.byte.firstIs o.exp (c.caseSensitiveExponent && c.feats.format)) fp.byte
            fp.fraction fp.exponent with
        | error e => simp [hep] at h
        | ok ep =>
          obtain ⟨x1, x2, x3, x4, x5⟩ := exponentPhase_trunc hc hb _ fp.byte fp.fraction fp.exponent ep f3
            (fun hh => PNTotal.firstIs_lt hh) hep
          simp only [hep] at h
          cases hsf : suffixPhase c ep.byte with
          | error e => simp [hsf] at h
          | ok sb =>
            obtain ⟨u1, u2, u3, u4⟩ := suffixPhase_trunc hc hb ep.byte sb x3 hsf
            simp only [hsf] at h
            have hfpslc : fp.byte.slc = b.slc := by rw [f1, i4]
            have hepslc : ep.byte.slc = b.slc := by rw [x1, hfpslc]
            have hsbslc : sb.slc = b.slc := by rw [u1, hepslc]
            have hcount : count = sb.index := by
              split at h
              · cases h; rfl
              · exact many_count hc hb o neg ip fp ep _ _ _ _ i3 r count h
            have hsbv : sb.index ≤ b.slc.length := by
              have : sb.index ≤ sb.slc.length := u3
              rwa [hsbslc] at this
            refine ⟨by omega, by omega, ?_⟩
            intro n hn
            rw [parseNumber_g hc hb, i9 n (by omega)]
            simp only
            rw [f7 n (by omega)]
            simp only [trunc_index, trunc_currentCount]
            rw [if_neg hcnd]
            have hfi : (trunc n fp.byte).firstIs o.exp (c.caseSensitiveExponent && c.feats.format) =
                fp.byte.firstIs o.exp (c.caseSensitiveExponent && c.feats.format) := by
              rw [firstIs_trunc]
              split
              · rfl
              · next hlt =>
                cases hfe : fp.byte.firstIs o.exp (c.caseSensitiveExponent && c.feats.format) with
                | false => rfl
                | true => have := x4 hfe; omega
            rw [hfi, x5 n (by omega)]
            simp only
            rw [u4 n (by omega)]
            simp only [trunc_index]
            split at h
            · next hle => rw [if_pos hle]; exact h
            · next hle =>
              rw [if_neg hle]
              have hz48 : ∀ j : Nat, (∀ ch, b.slc[j]? = some ch → charToDigit ch c.mantissaRadix = none) →
                  b.slc[j]? ≠ some 48 := by
                intro j hj h48
                have := hj 48 h48
                rw [charToDigit_48 _ hr] at this
                cases this
              have hmt := many_trunc hc hb o neg ip fp ep (ip.nDigits + fp.nAfterDot) (u64Step c.feats c.mantissaRadix)
                (if (c.feats.format && !c.requiredMantissaDigits && decide (ip.nDigits + fp.nAfterDot = 0)) = true
                    then 0 else ep.exponent) sb.index n i3 (by omega) ?_
              · rw [hmt]; exact h
              · rw [i1]
                have e1 := zrun_bound b.slc ip.start.index ip.byte.index i5 (hz48 _ i8)
                have hipb : ip.byte.slc = b.slc := i4
                apply zq_trunc
                · omega
                · intro he hdp
                  have hpe : ip.start.index + leadZ (b.slc.drop ip.start.index) = ip.byte.index := by omega
                  have hfc : ip.byte.firstIsCased o.dp = true := by
                    simp only [Bytes.firstIsCased, Bytes.first, hipb, beq_iff_eq, ← hpe, he, hdp]
                  have := (f5 hfc).1
                  omega
                · by_cases hdp : b.slc[ip.start.index + leadZ (b.slc.drop ip.start.index)]? = some o.dp
                  · simp only [hdp, if_true]
                    by_cases hpe : ip.start.index + leadZ (b.slc.drop ip.start.index) = ip.byte.index
                    · have hfc : ip.byte.firstIsCased o.dp = true := by
                        simp only [Bytes.firstIsCased, Bytes.first, hipb, beq_iff_eq, ← hpe, hdp]
                      obtain ⟨g1, g2⟩ := f5 hfc
                      rw [hipb] at g2
                      have := zrun_bound b.slc (ip.start.index + leadZ (b.slc.drop ip.start.index) + 1) fp.byte.index
                        (by omega) (hz48 _ g2)
                      omega
                    · have := zrun_bound b.slc (ip.start.index + leadZ (b.slc.drop ip.start.index) + 1) ip.byte.index
                        (by omega) (hz48 _ i8)
                      omega
                  · simp only [hdp, if_false]
                    have hne : b.slc[ip.start.index + leadZ (b.slc.drop ip.start.index)]? ≠ some 48 := by
                      have := leadZ_stop (b.slc.drop ip.start.index)
                      rwa [List.getElem?_drop] at this
                    have := zrun_bound b.slc (ip.start.index + leadZ (b.slc.drop ip.start.index)) _ (Nat.le_refl _) hne
                    omega

end
end LexVerif.Proof.C11
