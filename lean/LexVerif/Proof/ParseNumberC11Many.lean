import LexVerif.Proof.ParseNumberC11Trunc
import LexVerif.Proof.ParseNumberTotalMany
/-!
# Proof.ParseNumberC11Many — C11 (B): the many-digits re-parse commutes with truncation (no `format`, release)

`manyDigitsPhase` reads the original buffer only through two `skip_zeros` runs starting at `ip.start`; both runs
end at a byte that is not `'0'`, which lies at or before the cursor `parse_number` returns.
-/
set_option linter.unusedSectionVars false
set_option linter.unusedSimpArgs false
namespace LexVerif.Proof.C11
open LexVerif LexVerif.Model LexVerif.Spec
open LexVerif.Props.C12 (Bytes.Valid peek_noformat)
open LexVerif.Proof.PNTotal (leadZ Rel skipZeros_contig manyDigitsPhase_eq manyMid manyTail bstep_rel
  notFormat_bytesContig)

theorem leadZ_le_length (l : List Nat) : leadZ l ≤ l.length := by
  induction l with
  | nil => simp [leadZ]
  | cons x xs ih => simp only [leadZ, List.length_cons]; split <;> omega

theorem leadZ_take_of_le (l : List Nat) : ∀ m, leadZ l ≤ m → leadZ (l.take m) = leadZ l := by
  induction l with
  | nil => intro m _; simp [leadZ]
  | cons x xs ih =>
    intro m hm
    by_cases hx : x = 48
    · simp only [leadZ, hx, if_true] at hm ⊢
      obtain ⟨m2, rfl⟩ : ∃ m2, m = m2 + 1 := ⟨m - 1, by omega⟩
      simp only [List.take_succ_cons, leadZ, if_true]
      rw [ih m2 (by omega)]
    · cases m with
      | zero => simp [leadZ, hx]
      | succ m2 => simp [List.take_succ_cons, leadZ, hx]

theorem leadZ_bound (l : List Nat) : ∀ j, l[j]? ≠ some 48 → leadZ l ≤ j := by
  induction l with
  | nil => intro j _; simp [leadZ]
  | cons x xs ih =>
    intro j hj
    by_cases hx : x = 48
    · cases j with
      | zero => simp [hx] at hj
      | succ j2 =>
        simp only [leadZ, hx, if_true]
        have := ih j2 (by simpa using hj)
        omega
    · simp [leadZ, hx]

theorem leadZ_stop (l : List Nat) : l[leadZ l]? ≠ some 48 := by
  induction l with
  | nil => simp [leadZ]
  | cons x xs ih =>
    by_cases hx : x = 48
    · simp only [leadZ, hx, if_true, List.getElem?_cons_succ]; exact ih
    · simp [leadZ, hx]

/-- the zero run from `i` ends at or before any later position that does not hold `'0'` -/
theorem zrun_bound (l : List Nat) (i j : Nat) (hij : i ≤ j) (hj : l[j]? ≠ some 48) :
    i + leadZ (l.drop i) ≤ j := by
  have := leadZ_bound (l.drop i) (j - i) (by rw [List.getElem?_drop]; rwa [show i + (j - i) = j by omega])
  omega

/-- … and is unchanged by a truncation at or beyond its end -/
theorem zrun_trunc (l : List Nat) (i n : Nat) (h : i + leadZ (l.drop i) ≤ n) :
    leadZ ((l.take n).drop i) = leadZ (l.drop i) := by
  rw [List.drop_take]
  exact leadZ_take_of_le _ _ (by omega)

/-- the two zero counts of the re-parse: integer zeros from `i`, then (after an optional decimal point) fraction zeros -/
def zq (l : List Nat) (i dp : Nat) : Nat × Nat :=
  let p := i + leadZ (l.drop i)
  let q := if l[p]? = some dp then p + 1 else p
  (leadZ (l.drop i), leadZ (l.drop q))

theorem zq_trunc (l : List Nat) (i dp n : Nat)
    (hp : i + leadZ (l.drop i) ≤ n)
    (hpn : i + leadZ (l.drop i) = n → l[n]? ≠ some dp)
    (hq : (if l[i + leadZ (l.drop i)]? = some dp then i + leadZ (l.drop i) + 1 else i + leadZ (l.drop i))
      + leadZ (l.drop (if l[i + leadZ (l.drop i)]? = some dp then i + leadZ (l.drop i) + 1 else i + leadZ (l.drop i)))
      ≤ n) :
    zq (l.take n) i dp = zq l i dp := by
  unfold zq
  simp only [zrun_trunc l i n hp]
  have hget : ((l.take n)[i + leadZ (l.drop i)]? = some dp) ↔ (l[i + leadZ (l.drop i)]? = some dp) := by
    by_cases hlt : i + leadZ (l.drop i) < n
    · rw [take_get_lt _ _ _ hlt]
    · have he : i + leadZ (l.drop i) = n := by omega
      rw [take_get_ge _ _ _ (by omega)]
      have := hpn he
      rw [he]
      simp [this]
  by_cases hd : l[i + leadZ (l.drop i)]? = some dp
  · have hd2 := hget.mpr hd
    simp only [hd, hd2, if_true] at hq ⊢
    rw [zrun_trunc l _ n hq]
  · have hd2 : ¬ (l.take n)[i + leadZ (l.drop i)]? = some dp := fun h => hd (hget.mp h)
    simp only [hd, hd2, if_false] at hq ⊢
    rw [zrun_trunc l _ n hq]

section
variable {c : Cfg} (hf : c.feats.format = false) (hd : c.debug = false)
include hf hd

theorem rel_nf : Rel c :=
  ⟨hd, fun k => by
    have hs : c.skip k = .noskip := by
      cases k <;> simp [Cfg.skip, Cfg.sepFlags, Cfg.flag, Cfg.specialSep, hf, SepFlags.skip]
    rw [hs]; intro h; cases h⟩

theorem iterCount_nf (k : Comp) (b : Bytes) : b.iterCount c k = b.index := by
  simp [Bytes.iterCount, iterContiguous_nf hf, currentCount_nf hf]

theorem readIfValueCased_k (k : Comp) (v : Nat) (b : Bytes) :
    readIfValueCased c k v b = readIfValueCased c .integer v b := by
  unfold readIfValueCased
  simp only [peek_noformat c _ b hf, iterStep_nf hd, bind, Except.bind]

theorem skipZerosLoop_k (k : Comp) : ∀ (fuel : Nat) (b : Bytes),
    skipZerosLoop c k fuel b = skipZerosLoop c .integer fuel b := by
  intro fuel
  induction fuel with
  | zero => intro b; rfl
  | succ f ih =>
    intro b
    unfold skipZerosLoop
    rw [readIfValueCased_k hf hd k]
    simp only [bind, Except.bind, incCount_nf hf, ih]

theorem skipZeros_k (k : Comp) (b : Bytes) : skipZeros c k b = skipZeros c .integer b := by
  unfold skipZeros
  simp only [skipZerosLoop_k hf hd k, iterCount_nf hf hd, bind, Except.bind]

/-- closed form of the re-parse: the original buffer enters only through the two zero counts -/
theorem many_closed (o : POpts) (neg : Bool) (ip : IntPart) (fp : FracPart) (ep : ExpPart) (nd step : Nat) (e0 : Int)
    (endIdx : Nat) (hv : Bytes.Valid ip.start) :
    manyDigitsPhase c o neg ip fp ep nd step e0 endIdx =
      if nd - step - (zq ip.start.slc ip.start.index o.dp).1 - (zq ip.start.slc ip.start.index o.dp).2 > 0 then
        manyTail c neg ip fp ep step endIdx
      else .ok (⟨fp.mantissa, e0, neg, false, ip.integerDigits, fp.fraction, ep.explicit⟩, endIdx) := by
  have hrel := rel_nf hf hd
  have hb := notFormat_bytesContig (c := c) hf
  rw [manyDigitsPhase_eq]
  obtain ⟨b1, h1, hs1, hi1⟩ := skipZeros_contig hrel hb ip.start hv
  simp only [h1, bind, Except.bind]
  have hlen : leadZ (ip.start.slc.drop ip.start.index) ≤ ip.start.slc.length - ip.start.index := by
    have := leadZ_le_length (ip.start.slc.drop ip.start.index)
    simpa using this
  have hv1 : b1.index ≤ b1.slc.length := by
    unfold Bytes.Valid at hv; rw [hs1, hi1]; omega
  have hfc : b1.firstIsCased o.dp = true ↔
      ip.start.slc[ip.start.index + leadZ (ip.start.slc.drop ip.start.index)]? = some o.dp := by
    simp only [Bytes.firstIsCased, Bytes.first, hs1, hi1, beq_iff_eq]
  unfold zq
  simp only
  by_cases hdp : ip.start.slc[ip.start.index + leadZ (ip.start.slc.drop ip.start.index)]? = some o.dp
  · have hfc2 := hfc.mpr hdp
    have hlt : b1.index < b1.slc.length := by
      rw [hs1, hi1]; exact (List.getElem?_eq_some_iff.mp hdp).1
    simp only [hfc2, if_true, bstep_rel hrel, hdp]
    unfold manyMid
    rw [skipZeros_k hf hd]
    obtain ⟨b2, h2, _, _⟩ := skipZeros_contig hrel hb { b1 with index := b1.index + 1 } (by simp only; omega)
    simp only [h2, bind, Except.bind, pure, Except.pure]
    simp only [hs1, hi1]
  · have hfc2 : ¬ b1.firstIsCased o.dp = true := fun h => hdp (hfc.mp h)
    simp only [hfc2, if_false, hdp, pure, Except.pure, Bool.false_eq_true]
    unfold manyMid
    rw [skipZeros_k hf hd]
    obtain ⟨b2, h2, _, _⟩ := skipZeros_contig hrel hb b1 hv1
    simp only [h2, bind, Except.bind, pure, Except.pure]
    simp only [hs1, hi1]

theorem many_trunc (o : POpts) (neg : Bool) (ip : IntPart) (fp : FracPart) (ep : ExpPart) (nd step : Nat) (e0 : Int)
    (endIdx n : Nat) (hv : Bytes.Valid ip.start) (hn : ip.start.index ≤ n)
    (hz : zq (ip.start.slc.take n) ip.start.index o.dp = zq ip.start.slc ip.start.index o.dp) :
    manyDigitsPhase c o neg { ip with start := trunc n ip.start, byte := trunc n ip.byte }
      { fp with byte := trunc n fp.byte } { ep with byte := trunc n ep.byte } nd step e0 endIdx =
    manyDigitsPhase c o neg ip fp ep nd step e0 endIdx := by
  have hv2 : Bytes.Valid (trunc n ip.start) := by
    unfold Bytes.Valid at hv ⊢
    simp only [trunc_slc, trunc_index, List.length_take]; omega
  rw [many_closed hf hd o neg ip fp ep nd step e0 endIdx hv, many_closed hf hd _ _ _ _ _ _ _ _ _ hv2]
  simp only [trunc_slc, trunc_index, hz]
  rfl

/-- the `EmptyMantissa` / `InvalidDigit` branch of `parse_number` -/
def emptyBranch (c : Cfg) (isPartial : Bool) (o : POpts) (ip : IntPart) (fp : FracPart) : Except Err (Number × Nat) := do
  let (anyv, _) ← peek c .integer ip.start
  if fp.hasDecimal || fp.byte.firstIs o.exp (c.caseSensitiveExponent && c.feats.format) || anyv.isNone || isPartial then
    .error (.err "EmptyMantissa" fp.byte.index)
  else .error (.err "InvalidDigit" ip.start.index)

theorem emptyBranch_err (isPartial : Bool) (o : POpts) (ip : IntPart) (fp : FracPart) :
    ∃ k i, emptyBranch c isPartial o ip fp = .error (.err k i) := by
  unfold emptyBranch
  simp only [peek_noformat c _ _ hf, bind, Except.bind]
  split
  · exact ⟨_, _, rfl⟩
  · exact ⟨_, _, rfl⟩

theorem requiredMantissaDigits_nf : c.requiredMantissaDigits = true := by
  simp [Cfg.requiredMantissaDigits, Cfg.flag, hf]

/-- `parse_number` in the no-`format` release build, phase by phase -/
theorem parseNumber_nf (isPartial : Bool) (o : POpts) (b : Bytes) (neg fv : Bool) :
    parseNumber c isPartial o b neg fv =
      match integerPhase c b with
      | .error e => .error e
      | .ok ip =>
        match fractionPhase c o ip.byte ip.mantissa with
        | .error e => .error e
        | .ok fp =>
          if ip.nDigits + fp.nAfterDot = 0 then emptyBranch c isPartial o ip fp
          else
            match exponentPhase c (fp.byte.firstIs o.exp false) fp.byte fp.fraction fp.exponent with
            | .error e => .error e
            | .ok ep =>
              if ip.nDigits + fp.nAfterDot ≤ u64Step c.feats c.mantissaRadix then
                .ok (⟨fp.mantissa, ep.exponent, neg, false, ip.integerDigits, fp.fraction, ep.explicit⟩, ep.byte.index)
              else manyDigitsPhase c o neg ip fp ep (ip.nDigits + fp.nAfterDot) (u64Step c.feats c.mantissaRadix)
                ep.exponent ep.byte.index := by
  unfold parseNumber
  simp only [hd, Bool.false_and, Bool.false_eq_true, if_false, bind, Except.bind]
  cases integerPhase c b with
  | error e => rfl
  | ok ip =>
    simp only
    cases fractionPhase c o ip.byte ip.mantissa with
    | error e => rfl
    | ok fp =>
      simp only [requiredMantissaDigits_nf hf hd, hf, Bool.false_and, Bool.or_false, Bool.true_and, Bool.and_false,
        decide_eq_true_eq, Bool.false_eq_true, if_false]
      by_cases hz : ip.nDigits + fp.nAfterDot = 0
      · simp only [hz, if_true]
        unfold emptyBranch
        simp only [hf, Bool.and_false, bind, Except.bind]
      · simp only [hz, if_false]
        cases exponentPhase c (fp.byte.firstIs o.exp false) fp.byte fp.fraction fp.exponent with
        | error e => rfl
        | ok ep =>
          simp only [suffixPhase, hf, Bool.false_and, Bool.false_eq_true, if_false, pure, Except.pure]

omit hf hd in
theorem manyTail_count (neg : Bool) (ip : IntPart) (fp : FracPart) (ep : ExpPart) (step endIdx : Nat)
    (x : Number) (cnt : Nat) (h : manyTail c neg ip fp ep step endIdx = .ok (x, cnt)) : cnt = endIdx := by
  unfold manyTail at h
  simp only [bind, Except.bind, pure, Except.pure] at h
  repeat' (split at h)
  all_goals (cases h)
  all_goals rfl

theorem many_count (o : POpts) (neg : Bool) (ip : IntPart) (fp : FracPart) (ep : ExpPart) (nd step : Nat) (e0 : Int)
    (endIdx : Nat) (hv : Bytes.Valid ip.start) (x : Number) (cnt : Nat)
    (h : manyDigitsPhase c o neg ip fp ep nd step e0 endIdx = .ok (x, cnt)) : cnt = endIdx := by
  rw [many_closed hf hd o neg ip fp ep nd step e0 endIdx hv] at h
  split at h
  · exact manyTail_count neg ip fp ep step endIdx x cnt h
  · cases h; rfl

omit hf hd in
theorem charToDigit_48 (r : Nat) (h : 1 ≤ r) : charToDigit 48 r = some 0 := by
  by_cases h10 : r ≤ 10
  · simp [charToDigit, charToValidDigit, h10]; omega
  · simp [charToDigit, charToValidDigit, h10]; omega

omit hf hd in
theorem firstIs_trunc (b : Bytes) (v : Nat) (cased : Bool) (n : Nat) :
    (trunc n b).firstIs v cased = if b.index < n then b.firstIs v cased else false := by
  unfold Bytes.firstIs Bytes.firstIsCased Bytes.firstIsUncased
  rw [first_trunc]
  by_cases hlt : b.index < n
  · simp only [hlt, if_true]
  · simp only [hlt, if_false]
    split <;> simp

/-- `parse_number` commutes with every truncation at or beyond the count it returns -/
theorem parseNumber_trunc (p : Bool) (o : POpts) (b : Bytes) (neg fv : Bool) (r : Number) (count : Nat)
    (hr : 1 ≤ c.mantissaRadix) (hv : Bytes.Valid b) (h : parseNumber c p o b neg fv = .ok (r, count)) :
    b.index < count ∧ count ≤ b.slc.length ∧
    ∀ n, count ≤ n → parseNumber c p o (trunc n b) neg fv = .ok (r, count) := by
  rw [parseNumber_nf hf hd] at h
  cases hi : integerPhase c b with
  | error e => simp [hi] at h
  | ok ip =>
    obtain ⟨i1, i2, i3, i4, i5, i6, i7⟩ := integerPhase_trunc hf hd b ip hv hi
    simp only [hi] at h
    cases hfr : fractionPhase c o ip.byte ip.mantissa with
    | error e => simp [hfr] at h
    | ok fp =>
      obtain ⟨f1, f2, f3, f4, f5, f6, f7⟩ := fractionPhase_trunc hf hd o ip.byte ip.mantissa fp i4 hfr
      simp only [hfr] at h
      by_cases hz : ip.nDigits + fp.nAfterDot = 0
      · obtain ⟨k, i, he⟩ := emptyBranch_err hf hd p o ip fp
        simp [hz, he] at h
      · simp only [hz, if_false] at h
        cases hep : exponentPhase c (fp.byte.firstIs o.exp false) fp.byte fp.fraction fp.exponent with
        | error e => simp [hep] at h
        | ok ep =>
          obtain ⟨x1, x2, x3, x4, x5⟩ := exponentPhase_trunc hf hd _ fp.byte fp.fraction fp.exponent ep f3
            (fun hh => PNTotal.firstIs_lt hh) hep
          simp only [hep] at h
          have hipslc : ip.byte.slc = b.slc := by rw [i2]; rfl
          have hfpslc : fp.byte.slc = b.slc := by rw [f1]; exact hipslc
          have hepslc : ep.byte.slc = b.slc := by rw [x1]; exact hfpslc
          have hcount : count = ep.byte.index := by
            split at h
            · cases h; rfl
            · exact many_count hf hd o neg ip fp ep _ _ _ _ (by rw [i1]; exact hv) r count h
          have hepv : ep.byte.index ≤ b.slc.length := by
            have : ep.byte.index ≤ ep.byte.slc.length := x3
            rwa [hepslc] at this
          refine ⟨by omega, by omega, ?_⟩
          intro n hn
          rw [parseNumber_nf hf hd, i7 n (by omega)]
          simp only
          rw [f7 n (by omega)]
          simp only [hz, if_false]
          have hfi : (trunc n fp.byte).firstIs o.exp false = fp.byte.firstIs o.exp false := by
            rw [firstIs_trunc]
            split
            · rfl
            · next hlt =>
              cases hfe : fp.byte.firstIs o.exp false with
              | false => rfl
              | true => have := x4 hfe; omega
          rw [hfi, x5 n (by omega)]
          simp only [trunc_index]
          split at h
          · next hle => rw [if_pos hle]; exact h
          · next hle =>
            rw [if_neg hle]
            have hstart : ip.start = b := i1
            have hz48 : ∀ j : Nat, (∀ ch, b.slc[j]? = some ch → charToDigit ch c.mantissaRadix = none) →
                b.slc[j]? ≠ some 48 := by
              intro j hj h48
              have := hj 48 h48
              rw [charToDigit_48 _ hr] at this
              cases this
            have hmt := many_trunc hf hd o neg ip fp ep (ip.nDigits + fp.nAfterDot) (u64Step c.feats c.mantissaRadix)
              ep.exponent ep.byte.index n (by rw [hstart]; exact hv) (by rw [hstart]; omega) ?_
            · rw [hstart] at hmt; rw [hmt]; exact h
            · rw [hstart]
              have e1 := zrun_bound b.slc b.index ip.byte.index i3 (hz48 _ i6)
              apply zq_trunc
              · omega
              · intro he hdp
                have hpe : b.index + leadZ (b.slc.drop b.index) = ip.byte.index := by omega
                have hfc : ip.byte.firstIsCased o.dp = true := by
                  simp only [Bytes.firstIsCased, Bytes.first, hipslc, beq_iff_eq, ← hpe, he, hdp]
                have := (f5 hfc).1
                omega
              · by_cases hdp : b.slc[b.index + leadZ (b.slc.drop b.index)]? = some o.dp
                · simp only [hdp, if_true]
                  by_cases hpe : b.index + leadZ (b.slc.drop b.index) = ip.byte.index
                  · have hfc : ip.byte.firstIsCased o.dp = true := by
                      simp only [Bytes.firstIsCased, Bytes.first, hipslc, beq_iff_eq, ← hpe, hdp]
                    obtain ⟨g1, g2⟩ := f5 hfc
                    rw [hipslc] at g2
                    have := zrun_bound b.slc (b.index + leadZ (b.slc.drop b.index) + 1) fp.byte.index (by omega)
                      (hz48 _ g2)
                    omega
                  · have := zrun_bound b.slc (b.index + leadZ (b.slc.drop b.index) + 1) ip.byte.index (by omega)
                      (hz48 _ i6)
                    omega
                · simp only [hdp, if_false]
                  have hne : b.slc[b.index + leadZ (b.slc.drop b.index)]? ≠ some 48 := by
                    have := leadZ_stop (b.slc.drop b.index)
                    rwa [List.getElem?_drop] at this
                  have := zrun_bound b.slc (b.index + leadZ (b.slc.drop b.index)) _ (Nat.le_refl _) hne
                  omega

end
end LexVerif.Proof.C11
