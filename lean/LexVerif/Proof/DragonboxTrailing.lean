import LexVerif.Model.Dragonbox
import LexVerif.Proof.Bits
/-!
# Proof.DragonboxTrailing — `remove_trailing_zeros` returns `(n / 10^s, s)` with `s` maximal

The code divides by 100 (then once by 10) with the modular-inverse trick: `q = rotr(n · 25⁻¹ mod 2^w, 2)` is `n / 100`
when `100 ∣ n` and is larger than `MAX / 100` otherwise. Both facts are linear integer arithmetic once the rotation
is written with `/` and `%`.
-/
namespace LexVerif.Proof.DragonboxTrailing
open LexVerif.Model.Dragonbox LexVerif.Proof.Bits

theorem modInv25U32_val : modInv25U32 = 3264175145 := by decide
theorem modInv25U64_val : modInv25U64 = 10330176681277348905 := by decide

/-! ## rotations as div/mod -/
theorem rotr32_two {m : Nat} (hm : m < 2 ^ 32) : rotr32 m 2 = m / 4 + m % 4 * 2 ^ 30 := by
  unfold rotr32 shl32 u32
  have e1 : (2 &&& 31 : Nat) = 2 := by decide
  simp only [e1]
  have e2 : (((32 : Int) - ((2 : Nat) : Int)) % 32).toNat = 30 := by decide
  rw [e2, Nat.shiftRight_eq_div_pow, Nat.shiftLeft_eq]
  have e3 : m * 2 ^ 30 % 2 ^ 32 = m % 4 * 2 ^ 30 := by omega
  rw [e3]
  exact or_mul_two_pow _ _ _ (by omega)

theorem rotr32_one {m : Nat} (hm : m < 2 ^ 32) : rotr32 m 1 = m / 2 + m % 2 * 2 ^ 31 := by
  unfold rotr32 shl32 u32
  have e1 : (1 &&& 31 : Nat) = 1 := by decide
  simp only [e1]
  have e2 : (((32 : Int) - ((1 : Nat) : Int)) % 32).toNat = 31 := by decide
  rw [e2, Nat.shiftRight_eq_div_pow, Nat.shiftLeft_eq]
  have e3 : m * 2 ^ 31 % 2 ^ 32 = m % 2 * 2 ^ 31 := by omega
  rw [e3]
  exact or_mul_two_pow _ _ _ (by omega)

theorem rotr64_two {m : Nat} (hm : m < 2 ^ 64) : rotr64 m 2 = m / 4 + m % 4 * 2 ^ 62 := by
  unfold rotr64 shl64 u64
  have e1 : (2 &&& 63 : Nat) = 2 := by decide
  simp only [e1]
  have e2 : (((64 : Int) - ((2 : Nat) : Int)) % 64).toNat = 62 := by decide
  rw [e2, Nat.shiftRight_eq_div_pow, Nat.shiftLeft_eq]
  have e3 : m * 2 ^ 62 % 2 ^ 64 = m % 4 * 2 ^ 62 := by omega
  rw [e3]
  exact or_mul_two_pow _ _ _ (by omega)

theorem rotr64_one {m : Nat} (hm : m < 2 ^ 64) : rotr64 m 1 = m / 2 + m % 2 * 2 ^ 63 := by
  unfold rotr64 shl64 u64
  have e1 : (1 &&& 63 : Nat) = 1 := by decide
  simp only [e1]
  have e2 : (((64 : Int) - ((1 : Nat) : Int)) % 64).toNat = 63 := by decide
  rw [e2, Nat.shiftRight_eq_div_pow, Nat.shiftLeft_eq]
  have e3 : m * 2 ^ 63 % 2 ^ 64 = m % 2 * 2 ^ 63 := by omega
  rw [e3]
  exact or_mul_two_pow _ _ _ (by omega)

/-! ## the single steps -/
def quo100_32 (n : Nat) : Nat := rotr32 (u32 (n * modInv25U32)) 2
def quo10_32 (n : Nat) : Nat := rotr32 (u32 (n * modInv5U32)) 1
def quo100_64 (n : Nat) : Nat := rotr64 (u64 (n * modInv25U64)) 2
def quo10_64 (n : Nat) : Nat := rotr64 (u64 (n * modInv5U64)) 1

theorem quo100_32_aux (n k m : Nat) (hn : n < 4294967296) (hk : n * 3264175145 = 4294967296 * k + m) (hm : m ≤ 171798691) :
    n = 25 * m := by
  have key : 19 * n = 25 * k := by omega
  omega

theorem quo100_32_spec {n : Nat} (hn : n < 2 ^ 32) :
    (n % 100 = 0 → quo100_32 n = n / 100) ∧ (n % 100 ≠ 0 → quo100_32 n > (2 ^ 32 - 1) / 100) := by
  unfold quo100_32 u32
  rw [rotr32_two (Nat.mod_lt _ (by decide)), modInv25U32_val]
  constructor
  · intro h; omega
  · intro h
    apply Nat.lt_of_not_le; intro hq
    have hk : n * 3264175145 = 4294967296 * (n * 3264175145 / 4294967296) + n * 3264175145 % 4294967296 := (Nat.div_add_mod _ _).symm
    have hmlt : n * 3264175145 % 4294967296 < 4294967296 := Nat.mod_lt _ (by decide)
    have e : (2 : Nat) ^ 32 = 4294967296 := by decide
    rw [e] at hq hn
    generalize n * 3264175145 / 4294967296 = k at hk
    generalize n * 3264175145 % 4294967296 = m at hk hmlt hq
    have h4 : m % 4 = 0 := by omega
    have hle : m ≤ 171798691 := by omega
    have := quo100_32_aux n k m hn hk hle
    omega

theorem quo10_32_aux (n k m : Nat) (hn : n < 4294967296) (hk : n * 3435973837 = 4294967296 * k + m) (hm : m ≤ 858993459) :
    n = 5 * m := by
  have key : 4 * n = 5 * k := by omega
  omega

theorem quo10_32_spec {n : Nat} (hn : n < 2 ^ 32) :
    (n % 10 = 0 → quo10_32 n = n / 10) ∧ (n % 10 ≠ 0 → quo10_32 n > (2 ^ 32 - 1) / 10) := by
  unfold quo10_32 u32 modInv5U32
  rw [rotr32_one (Nat.mod_lt _ (by decide))]
  constructor
  · intro h; omega
  · intro h
    apply Nat.lt_of_not_le; intro hq
    have hk : n * 3435973837 = 4294967296 * (n * 3435973837 / 4294967296) + n * 3435973837 % 4294967296 := (Nat.div_add_mod _ _).symm
    have hmlt : n * 3435973837 % 4294967296 < 4294967296 := Nat.mod_lt _ (by decide)
    have e : (2 : Nat) ^ 32 = 4294967296 := by decide
    rw [e] at hq hn
    generalize n * 3435973837 / 4294967296 = k at hk
    generalize n * 3435973837 % 4294967296 = m at hk hmlt hq
    have h4 : m % 2 = 0 := by omega
    have hle : m ≤ 858993459 := by omega
    have := quo10_32_aux n k m hn hk hle
    omega

theorem quo100_64_aux (n k m : Nat) (hn : n < 18446744073709551616) (hk : n * 10330176681277348905 = 18446744073709551616 * k + m) (hm : m ≤ 737869762948382064) :
    n = 25 * m := by
  have key : 14 * n = 25 * k := by omega
  omega

theorem quo100_64_spec {n : Nat} (hn : n < 2 ^ 64) :
    (n % 100 = 0 → quo100_64 n = n / 100) ∧ (n % 100 ≠ 0 → quo100_64 n > (2 ^ 64 - 1) / 100) := by
  unfold quo100_64 u64
  rw [rotr64_two (Nat.mod_lt _ (by decide)), modInv25U64_val]
  constructor
  · intro h; omega
  · intro h
    apply Nat.lt_of_not_le; intro hq
    have hk : n * 10330176681277348905 = 18446744073709551616 * (n * 10330176681277348905 / 18446744073709551616) + n * 10330176681277348905 % 18446744073709551616 := (Nat.div_add_mod _ _).symm
    have hmlt : n * 10330176681277348905 % 18446744073709551616 < 18446744073709551616 := Nat.mod_lt _ (by decide)
    have e : (2 : Nat) ^ 64 = 18446744073709551616 := by decide
    rw [e] at hq hn
    generalize n * 10330176681277348905 / 18446744073709551616 = k at hk
    generalize n * 10330176681277348905 % 18446744073709551616 = m at hk hmlt hq
    have h4 : m % 4 = 0 := by omega
    have hle : m ≤ 737869762948382064 := by omega
    have := quo100_64_aux n k m hn hk hle
    omega

theorem quo10_64_aux (n k m : Nat) (hn : n < 18446744073709551616) (hk : n * 14757395258967641293 = 18446744073709551616 * k + m) (hm : m ≤ 3689348814741910323) :
    n = 5 * m := by
  have key : 4 * n = 5 * k := by omega
  omega

theorem quo10_64_spec {n : Nat} (hn : n < 2 ^ 64) :
    (n % 10 = 0 → quo10_64 n = n / 10) ∧ (n % 10 ≠ 0 → quo10_64 n > (2 ^ 64 - 1) / 10) := by
  unfold quo10_64 u64 modInv5U64
  rw [rotr64_one (Nat.mod_lt _ (by decide))]
  constructor
  · intro h; omega
  · intro h
    apply Nat.lt_of_not_le; intro hq
    have hk : n * 14757395258967641293 = 18446744073709551616 * (n * 14757395258967641293 / 18446744073709551616) + n * 14757395258967641293 % 18446744073709551616 := (Nat.div_add_mod _ _).symm
    have hmlt : n * 14757395258967641293 % 18446744073709551616 < 18446744073709551616 := Nat.mod_lt _ (by decide)
    have e : (2 : Nat) ^ 64 = 18446744073709551616 := by decide
    rw [e] at hq hn
    generalize n * 14757395258967641293 / 18446744073709551616 = k at hk
    generalize n * 14757395258967641293 % 18446744073709551616 = m at hk hmlt hq
    have h4 : m % 2 = 0 := by omega
    have hle : m ≤ 3689348814741910323 := by omega
    have := quo10_64_aux n k m hn hk hle
    omega

theorem even_or_one {a : Nat} (h : a % 2 = 0) : a ||| 1 = a + 1 := by
  have : a = a / 2 * 2 ^ 1 := by omega
  have e : a ||| 1 = 1 ||| a / 2 * 2 ^ 1 := by rw [← this, Nat.or_comm]
  rw [e, or_mul_two_pow 1 (a / 2) 1 (by decide)]; omega

/-! ## the loops, 32 bits -/
theorem rtzLoop32_succ (fuel n s : Nat) :
    rtzLoop32 (fuel + 1) n s =
      if quo100_32 n ≤ (2 ^ 32 - 1) / 100 then rtzLoop32 fuel (quo100_32 n) (s + 2) else (n, s) := rfl

theorem rtzLoop32_spec : ∀ (fuel n s : Nat), 0 < n → n < 2 ^ 32 → n < 100 ^ fuel →
    ∃ j m, rtzLoop32 fuel n s = (m, s + 2 * j) ∧ n = m * 100 ^ j ∧ m % 100 ≠ 0 ∧ 0 < m ∧ m < 2 ^ 32
  | 0, n, s, h0, _, hf => by simp at hf; omega
  | fuel + 1, n, s, h0, hn, hf => by
    rw [rtzLoop32_succ]
    by_cases h : n % 100 = 0
    · have hq := (quo100_32_spec hn).1 h
      have hle : quo100_32 n ≤ (2 ^ 32 - 1) / 100 := by rw [hq]; omega
      rw [if_pos hle, hq]
      have hf' : n / 100 < 100 ^ fuel := by
        apply Nat.div_lt_of_lt_mul; rw [Nat.mul_comm, ← Nat.pow_succ]; exact hf
      obtain ⟨j, m, he, hm, h100, hpos, hlt⟩ := rtzLoop32_spec fuel (n / 100) (s + 2) (by omega) (by omega) hf'
      refine ⟨j + 1, m, ?_, ?_, h100, hpos, hlt⟩
      · rw [he]; congr 1; omega
      · have : n = n / 100 * 100 := by omega
        rw [this, hm, Nat.pow_succ, Nat.mul_assoc]
    · have hq := (quo100_32_spec hn).2 h
      rw [if_neg (by omega)]
      exact ⟨0, n, by simp, by simp, h, h0, hn⟩

/-! ## the loops, 64 bits -/
theorem rtzLoop64_succ (fuel n s : Nat) :
    rtzLoop64 (fuel + 1) n s =
      if quo100_64 n ≤ (2 ^ 64 - 1) / 100 then rtzLoop64 fuel (quo100_64 n) (s + 2) else (n, s) := rfl

theorem rtzLoop64_spec : ∀ (fuel n s : Nat), 0 < n → n < 2 ^ 64 → n < 100 ^ fuel →
    ∃ j m, rtzLoop64 fuel n s = (m, s + 2 * j) ∧ n = m * 100 ^ j ∧ m % 100 ≠ 0 ∧ 0 < m ∧ m < 2 ^ 64
  | 0, n, s, h0, _, hf => by simp at hf; omega
  | fuel + 1, n, s, h0, hn, hf => by
    rw [rtzLoop64_succ]
    by_cases h : n % 100 = 0
    · have hq := (quo100_64_spec hn).1 h
      have hle : quo100_64 n ≤ (2 ^ 64 - 1) / 100 := by rw [hq]; omega
      rw [if_pos hle, hq]
      have hf' : n / 100 < 100 ^ fuel := by
        apply Nat.div_lt_of_lt_mul; rw [Nat.mul_comm, ← Nat.pow_succ]; exact hf
      obtain ⟨j, m, he, hm, h100, hpos, hlt⟩ := rtzLoop64_spec fuel (n / 100) (s + 2) (by omega) (by omega) hf'
      refine ⟨j + 1, m, ?_, ?_, h100, hpos, hlt⟩
      · rw [he]; congr 1; omega
      · have : n = n / 100 * 100 := by omega
        rw [this, hm, Nat.pow_succ, Nat.mul_assoc]
    · have hq := (quo100_64_spec hn).2 h
      rw [if_neg (by omega)]
      exact ⟨0, n, by simp, by simp, h, h0, hn⟩

theorem rtz32From_spec {n s0 : Nat} (h0 : 0 < n) (hn : n < 2 ^ 32) (hs : s0 % 2 = 0) :
    ∃ k m, rtz32From n s0 = (m, s0 + k) ∧ n = m * 10 ^ k ∧ m % 10 ≠ 0 := by
  have hfuel : n < 100 ^ 16 := by
    have : (2 : Nat) ^ 32 < 100 ^ 16 := by decide
    omega
  obtain ⟨j, m, he, hm, h100, hpos, hlt⟩ := rtzLoop32_spec 16 n s0 h0 hn hfuel
  have hpow : (100 : Nat) ^ j = 10 ^ (2 * j) := by rw [Nat.pow_mul]
  unfold rtz32From
  simp only []
  rw [he]
  show ∃ k m_1, (if quo10_32 m ≤ (2 ^ 32 - 1) / 10 then (quo10_32 m, (s0 + 2 * j) ||| 1) else (m, s0 + 2 * j))
    = (m_1, s0 + k) ∧ n = m_1 * 10 ^ k ∧ m_1 % 10 ≠ 0
  by_cases h : m % 10 = 0
  · have hq := (quo10_32_spec hlt).1 h
    have hle : quo10_32 m ≤ (2 ^ 32 - 1) / 10 := by rw [hq]; omega
    rw [if_pos hle, hq, even_or_one (by omega)]
    refine ⟨2 * j + 1, m / 10, by rw [Nat.add_assoc], ?_, by omega⟩
    have : m = m / 10 * 10 := by omega
    rw [hm, hpow, Nat.pow_succ, this, Nat.mul_div_cancel _ (by decide : 0 < 10)]
    rw [Nat.mul_assoc, Nat.mul_comm 10, ]
  · have hq := (quo10_32_spec hlt).2 h
    rw [if_neg (by omega)]
    exact ⟨2 * j, m, rfl, by rw [hm, hpow], h⟩

theorem rtz64From_spec {n s0 : Nat} (h0 : 0 < n) (hn : n < 2 ^ 64) (hs : s0 % 2 = 0) :
    ∃ k m, rtz64From n s0 = (m, s0 + k) ∧ n = m * 10 ^ k ∧ m % 10 ≠ 0 := by
  have hfuel : n < 100 ^ 16 := by
    have : (2 : Nat) ^ 64 < 100 ^ 16 := by decide
    omega
  obtain ⟨j, m, he, hm, h100, hpos, hlt⟩ := rtzLoop64_spec 16 n s0 h0 hn hfuel
  have hpow : (100 : Nat) ^ j = 10 ^ (2 * j) := by rw [Nat.pow_mul]
  unfold rtz64From
  simp only []
  rw [he]
  show ∃ k m_1, (if quo10_64 m ≤ (2 ^ 64 - 1) / 10 then (quo10_64 m, (s0 + 2 * j) ||| 1) else (m, s0 + 2 * j))
    = (m_1, s0 + k) ∧ n = m_1 * 10 ^ k ∧ m_1 % 10 ≠ 0
  by_cases h : m % 10 = 0
  · have hq := (quo10_64_spec hlt).1 h
    have hle : quo10_64 m ≤ (2 ^ 64 - 1) / 10 := by rw [hq]; omega
    rw [if_pos hle, hq, even_or_one (by omega)]
    refine ⟨2 * j + 1, m / 10, by rw [Nat.add_assoc], ?_, by omega⟩
    have : m = m / 10 * 10 := by omega
    rw [hm, hpow, Nat.pow_succ, this, Nat.mul_div_cancel _ (by decide : 0 < 10)]
    rw [Nat.mul_assoc, Nat.mul_comm 10, ]
  · have hq := (quo10_64_spec hlt).2 h
    rw [if_neg (by omega)]
    exact ⟨2 * j, m, rfl, by rw [hm, hpow], h⟩

/-! ## `remove_trailing_zeros` -/

/-- f32: for every non-zero 32-bit significand the result is `(n / 10^s, s)` with `s` maximal -/
theorem removeTrailingZeros_f32 {n : Nat} (h0 : 0 < n) (hn : n < 2 ^ 32) :
    ∃ k m, removeTrailingZeros .f32 n = (m, k) ∧ n = m * 10 ^ k ∧ m % 10 ≠ 0 := by
  obtain ⟨k, m, he, hm, h10⟩ := rtz32From_spec (s0 := 0) h0 hn rfl
  refine ⟨k, m, ?_, hm, h10⟩
  unfold removeTrailingZeros
  simp only [u32, Nat.mod_eq_of_lt hn, he, Nat.zero_add]

/-- the divisibility-by-`10^8` pre-test of the f64 branch, as linear arithmetic (`12379400392853802749 = ⌈2^90 / 10^8⌉`) -/
theorem div1e8_aux (n q r : Nat) (hn : n < 18446744073709551616) (hq : n = 100000000 * q + r) (hr : r < 100000000) :
    n * 12379400392853802749 = 1237940039285380274899124224 * q + (875776 * q + r * 12379400392853802749)
    ∧ 875776 * q + r * 12379400392853802749 < 1237940039285380274899124224 := by
  constructor <;> omega

theorem removeTrailingZeros_f64_eq (n : Nat) :
    removeTrailingZeros .f64 n =
      if u64 (u128 (n * 12379400392853802749) >>> 64) &&& (2 ^ 26 - 1) = 0
          ∧ u64 (u128 (n * 12379400392853802749)) < 12379400392853802749
      then rtz32From (u32 (u64 (u128 (n * 12379400392853802749) >>> 64) >>> 26)) 8
      else rtz64From n 0 := rfl

/-- the pre-test succeeds only on multiples of `10^8`, and then the shifted high word is the quotient -/
theorem div1e8Test_imp {n : Nat} (hn : n < 2 ^ 64)
    (h : u64 (u128 (n * 12379400392853802749) >>> 64) &&& (2 ^ 26 - 1) = 0
          ∧ u64 (u128 (n * 12379400392853802749)) < 12379400392853802749) :
    n % 100000000 = 0
      ∧ u64 (u128 (n * 12379400392853802749) >>> 64) >>> 26 = n / 100000000 := by
  have hq := (Nat.div_add_mod n 100000000).symm
  have hr : n % 100000000 < 100000000 := Nat.mod_lt _ (by decide)
  obtain ⟨a1, a2⟩ := div1e8_aux n (n / 100000000) (n % 100000000) (by omega) hq hr
  have hnm : u128 (n * 12379400392853802749) = n * 12379400392853802749 := by
    unfold u128; apply Nat.mod_eq_of_lt; omega
  have hhigh : u64 ((n * 12379400392853802749) >>> 64) = n * 12379400392853802749 / 2 ^ 64 := by
    unfold u64; rw [Nat.shiftRight_eq_div_pow]; apply Nat.mod_eq_of_lt; omega
  rw [hnm, hhigh, Nat.and_two_pow_sub_one_eq_mod] at h
  rw [hnm, hhigh, Nat.shiftRight_eq_div_pow]
  unfold u64 at h
  obtain ⟨h1, h2⟩ := h
  obtain ⟨H, hH⟩ := Nat.dvd_of_mod_eq_zero h1
  have hP : n * 12379400392853802749
      = 18446744073709551616 * (n * 12379400392853802749 / 2 ^ 64) + n * 12379400392853802749 % 2 ^ 64 := by omega
  have hHq : H = n / 100000000 := by omega
  constructor
  · omega
  · rw [hH]; omega

/-- f64: for every non-zero significand below `2^32 · 10^8` (Dragonbox significands are below `10^17`) the result is
`(n / 10^s, s)` with `s` maximal. (Above that bound the quotient by `10^8` would be truncated to 32 bits.) -/
theorem removeTrailingZeros_f64 {n : Nat} (h0 : 0 < n) (hn : n < 2 ^ 32 * 10 ^ 8) :
    ∃ k m, removeTrailingZeros .f64 n = (m, k) ∧ n = m * 10 ^ k ∧ m % 10 ≠ 0 := by
  have hn64 : n < 2 ^ 64 := by
    have : (2 : Nat) ^ 32 * 10 ^ 8 < 2 ^ 64 := by decide
    omega
  rw [removeTrailingZeros_f64_eq]
  by_cases h : u64 (u128 (n * 12379400392853802749) >>> 64) &&& (2 ^ 26 - 1) = 0
          ∧ u64 (u128 (n * 12379400392853802749)) < 12379400392853802749
  · rw [if_pos h]
    obtain ⟨hr0, hquo⟩ := div1e8Test_imp hn64 h
    have hq32 : n / 100000000 < 2 ^ 32 := by
      apply Nat.div_lt_of_lt_mul
      have : (100000000 : Nat) * 2 ^ 32 = 2 ^ 32 * 10 ^ 8 := by decide
      omega
    rw [hquo]
    have hu : u32 (n / 100000000) = n / 100000000 := Nat.mod_eq_of_lt hq32
    rw [hu]
    obtain ⟨k, m, he, hm, h10⟩ := rtz32From_spec (n := n / 100000000) (s0 := 8) (by omega) hq32 rfl
    refine ⟨8 + k, m, he, ?_, h10⟩
    have : n = n / 100000000 * 10 ^ 8 := by omega
    rw [this, hm, Nat.mul_assoc, ← Nat.pow_add, Nat.add_comm]
  · rw [if_neg h]
    obtain ⟨k, m, he, hm, h10⟩ := rtz64From_spec (s0 := 0) h0 hn64 rfl
    refine ⟨k, m, ?_, hm, h10⟩
    rw [he, Nat.zero_add]

/-- `process_trailing_zeros` inherits it: the pair denotes the same value, significand not divisible by 10 -/
theorem processTrailingZeros_f32 {n : Nat} (e : Int) (h0 : 0 < n) (hn : n < 2 ^ 32) :
    ∃ k m, processTrailingZeros .f32 n e = (m, i32 (e + (k : Nat))) ∧ n = m * 10 ^ k ∧ m % 10 ≠ 0 := by
  obtain ⟨k, m, he, hm, h10⟩ := removeTrailingZeros_f32 h0 hn
  refine ⟨k, m, ?_, hm, h10⟩
  show ((removeTrailingZeros .f32 n).1, i32 (e + ((removeTrailingZeros .f32 n).2 : Nat))) = _
  rw [he]

theorem processTrailingZeros_f64 {n : Nat} (e : Int) (h0 : 0 < n) (hn : n < 2 ^ 32 * 10 ^ 8) :
    ∃ k m, processTrailingZeros .f64 n e = (m, i32 (e + (k : Nat))) ∧ n = m * 10 ^ k ∧ m % 10 ≠ 0 := by
  obtain ⟨k, m, he, hm, h10⟩ := removeTrailingZeros_f64 h0 hn
  refine ⟨k, m, ?_, hm, h10⟩
  show ((removeTrailingZeros .f64 n).1, i32 (e + ((removeTrailingZeros .f64 n).2 : Nat))) = _
  rw [he]

end LexVerif.Proof.DragonboxTrailing
