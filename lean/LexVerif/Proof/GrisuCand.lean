import LexVerif.Proof.DragonboxShortest
/-!
# Proof.GrisuCand — oracle-side lemmas used by the Grisu proof

* `cand_roundtrips`: a candidate of the rounding interval re-parses (exact `roundNE`) to the float (the proof of
  `shortest_roundtrips'`, which only uses membership in the candidate range);
* `scalePQ_add`, `cand_of_scaled`: candidates at a lower decimal scale `E - j` from comparisons at scale `E`.
-/
namespace LexVerif.Proof.GrisuCand
open LexVerif.Spec LexVerif.Proof.RoundNE LexVerif.Proof.DragonboxShortest

/-- every candidate of the rounding interval of `b` rounds back to `b` -/
theorem cand_roundtrips {f : Fmt} (hf : WF f) {b : Nat} (hb0 : 0 < b) (hb : b < f.infBits)
    {D : Nat} {E : Int} (h : Cand (interval f b) E D) :
    roundNE f (decFrac D E).1 (decFrac D E).2 = b := by
  obtain ⟨k, q, hbk, h1, h2, hiv⟩ := interval_eq hf hb
  obtain ⟨m1, m2⟩ := h
  have hPQ := scalePQ_eq (interval f b).e2 E
  obtain ⟨an_pos, ad_pos⟩ := binFrac_pos (interval f b).e2
  obtain ⟨tn_pos, td_pos⟩ := tenFrac_pos E
  obtain ⟨hD1, clo, chi, cstrict⟩ := candRange_spec _ E _ _ hPQ (Nat.mul_pos tn_pos ad_pos) D m1 m2
  rw [hiv] at clo chi cstrict an_pos ad_pos
  simp only [] at clo chi cstrict an_pos ad_pos
  have hsc := binFrac_scale k (L f)
  obtain ⟨mid_hi, mid_lo⟩ := cell_midpoints (f := f) k q h1 h2 (by rw [← hbk]; omega)
  rw [← hbk] at mid_hi mid_lo
  obtain ⟨t, ht, _⟩ := T_even hf
  have hpar : b % 2 = q % 2 := by rw [hbk, ht, Nat.mul_left_comm]; omega
  have hincl : b % 2 ≠ 0 → decide (q % 2 = 0) = false := by
    intro hne; rw [hpar] at hne; simpa using hne
  generalize (binFrac ((k : Int) - (L f : Int) - 2)).1 = an at *
  generalize (binFrac ((k : Int) - (L f : Int) - 2)).2 = ad at *
  rw [decFrac_eq]
  dsimp only
  generalize (tenFrac E).1 = tn at *
  generalize (tenFrac E).2 = td at *
  generalize (if q = 2 ^ (f.p - 1) ∧ 0 < k then 4 * q - 1 else 4 * q - 2) = lo at *
  have hS : 0 < 2 ^ (L f) * 4 := by positivity
  have hc : 0 < 2 * ad := by omega
  have eXlo : td * (ival f (b - 1) + ival f b) * (2 * ad) = lo * (an * td) * (2 ^ (L f) * 4) := by
    calc td * (ival f (b - 1) + ival f b) * (2 * ad)
        = td * ((ival f (b - 1) + ival f b) * 2) * ad := by ring
      _ = td * lo * (ad * 2 ^ k) := by rw [mid_lo]; ring
      _ = td * lo * (an * 2 ^ (L f) * 4) := by rw [hsc]
      _ = lo * (an * td) * (2 ^ (L f) * 4) := by ring
  have eXhi : td * (ival f b + ival f (b + 1)) * (2 * ad) = (4 * q + 2) * (an * td) * (2 ^ (L f) * 4) := by
    calc td * (ival f b + ival f (b + 1)) * (2 * ad)
        = td * ((ival f b + ival f (b + 1)) * 2) * ad := by ring
      _ = td * (4 * q + 2) * (ad * 2 ^ k) := by rw [mid_hi]; ring
      _ = td * (4 * q + 2) * (an * 2 ^ (L f) * 4) := by rw [hsc]
      _ = (4 * q + 2) * (an * td) * (2 ^ (L f) * 4) := by ring
  have eY : 2 * (D * tn * 2 ^ (L f)) * (2 * ad) = D * (tn * ad) * (2 ^ (L f) * 4) := by ring
  obtain ⟨lo1, lo2⟩ := scale_cmp hc hS eXlo eY
  obtain ⟨hi1, hi2⟩ := scale_cmp hc hS eY eXhi
  apply roundNE_unique hf (Nat.ne_of_gt td_pos)
  refine ⟨Nat.le_of_lt hb, fun _ => lo1 clo, ?_, fun _ => hi1 chi, ?_⟩
  · intro _ heq
    by_contra hne
    have := lo2 (cstrict (hincl hne)).1
    omega
  · intro _ heq
    by_contra hne
    have := hi2 (cstrict (hincl hne)).2
    omega

/-- `j` steps of `scalePQ_succ` -/
theorem scalePQ_add (e2 E : Int) (j : Nat) :
    (scalePQ e2 (E + j)).1 * (scalePQ e2 E).2 = 10 ^ j * (scalePQ e2 E).1 * (scalePQ e2 (E + j)).2 := by
  induction j with
  | zero => simp
  | succ j ih =>
    have hs := scalePQ_succ e2 (E + j)
    have hq := (scalePQ_pos e2 (E + j)).2
    have e : E + ((j + 1 : Nat) : Int) = E + (j : Int) + 1 := by push_cast; ring
    rw [e]
    apply Nat.eq_of_mul_eq_mul_right hq
    calc (scalePQ e2 (E + j + 1)).1 * (scalePQ e2 E).2 * (scalePQ e2 (E + j)).2
        = ((scalePQ e2 (E + j + 1)).1 * (scalePQ e2 (E + j)).2) * (scalePQ e2 E).2 := by ring
      _ = (10 * (scalePQ e2 (E + j)).1 * (scalePQ e2 (E + j + 1)).2) * (scalePQ e2 E).2 := by rw [hs]
      _ = 10 * ((scalePQ e2 (E + j)).1 * (scalePQ e2 E).2) * (scalePQ e2 (E + j + 1)).2 := by ring
      _ = 10 * (10 ^ j * (scalePQ e2 E).1 * (scalePQ e2 (E + j)).2) * (scalePQ e2 (E + j + 1)).2 := by rw [ih]
      _ = 10 ^ (j + 1) * (scalePQ e2 E).1 * (scalePQ e2 (E + j + 1)).2 * (scalePQ e2 (E + j)).2 := by ring

/-- a decimal `D·10^(E-j)` strictly inside the interval, tested with the comparison fraction of scale `E`:
`lo·10^j·Q < D·P < hi·10^j·Q` -/
theorem cand_of_scaled (iv : Interval) (E : Int) (j D : Nat) (hD : 1 ≤ D)
    (hlo : iv.lo * 10 ^ j * (scalePQ iv.e2 E).2 < D * (scalePQ iv.e2 E).1)
    (hhi : D * (scalePQ iv.e2 E).1 < iv.hi * 10 ^ j * (scalePQ iv.e2 E).2) :
    Cand iv (E - j) D := by
  have hadd := scalePQ_add iv.e2 (E - j) j
  rw [show E - (j : Int) + (j : Int) = E by ring] at hadd
  obtain ⟨hP', hQ'⟩ := scalePQ_pos iv.e2 (E - j)
  obtain ⟨hP, hQ⟩ := scalePQ_pos iv.e2 E
  generalize (scalePQ iv.e2 E).1 = P at *
  generalize (scalePQ iv.e2 E).2 = Q at *
  rw [cand_iff]
  generalize (scalePQ iv.e2 (E - j)).1 = P' at *
  generalize (scalePQ iv.e2 (E - j)).2 = Q' at *
  -- P * Q' = 10^j * P' * Q
  have key : ∀ a : Nat, a * 10 ^ j * Q < D * P → a * Q' < D * P' := by
    intro a h
    apply Nat.lt_of_mul_lt_mul_right (a := 10 ^ j * Q)
    calc a * Q' * (10 ^ j * Q) = (a * 10 ^ j * Q) * Q' := by ring
      _ < (D * P) * Q' := Nat.mul_lt_mul_of_pos_right h hQ'
      _ = D * (P * Q') := by ring
      _ = D * (10 ^ j * P' * Q) := by rw [hadd]
      _ = D * P' * (10 ^ j * Q) := by ring
  have key2 : ∀ a : Nat, D * P < a * 10 ^ j * Q → D * P' < a * Q' := by
    intro a h
    apply Nat.lt_of_mul_lt_mul_right (a := 10 ^ j * Q)
    calc D * P' * (10 ^ j * Q) = D * (10 ^ j * P' * Q) := by ring
      _ = D * (P * Q') := by rw [hadd]
      _ = (D * P) * Q' := by ring
      _ < (a * 10 ^ j * Q) * Q' := Nat.mul_lt_mul_of_pos_right h hQ'
      _ = a * Q' * (10 ^ j * Q) := by ring
  have l := key iv.lo hlo
  have u := key2 iv.hi hhi
  exact ⟨hD, Nat.le_of_lt l, Nat.le_of_lt u, fun _ => ⟨l, u⟩⟩

end LexVerif.Proof.GrisuCand
